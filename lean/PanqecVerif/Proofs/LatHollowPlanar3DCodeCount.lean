/-
`HollowPlanar3DCode`, every size with `1 ≤ Lx, Ly, Lz`: `rankFamily` (the stabilizer locations not
dropped by `rankDrop`) has exactly `n − 1` members.  The vertex, yz-face and xz-face blocks are kept
entirely; the kept xy faces are those of the layer `z = 0` and, when the hole is not empty
(`3 ≤ Lx`, `2 ≤ Ly`, `2 ≤ Lz`), those of the top of the tube (`z = 2Lz − 2`, `3 ≤ x ≤ 2Lx − 3`) other
than `(3, 1, 2Lz − 2)`.
-/
import Mathlib.Tactic.Linarith
import PanqecVerif.Proofs.LatHollowPlanar3DCodeWF

set_option linter.unusedVariables false
set_option linter.unusedSimpArgs false

namespace Panqec.HollowPlanar3DCode
open Panqec.Cubic3D
open Panqec.Planar3DCode (inE inO inE2 inO1 mem_rangeE mem_rangeO mem_rangeE2 mem_rangeO1
  length_rangeE length_rangeO length_rangeE2 length_rangeO1)

theorem rankDrop3 {Lx : Nat} {x y z : Int} : rankDrop Lx [x, y, z] = true ↔
    (z % 2 = 0 ∧ x % 2 = 1 ∧ z ≠ 0 ∧ (x = 1 ∨ x = 2 * (Lx : Int) - 1 ∨ (x = 3 ∧ y = 1))) := by
  simp only [rankDrop, Bool.and_eq_true, Bool.or_eq_true, beq_iff_eq, bne_iff_ne, ne_eq, and_assoc,
    or_assoc]

theorem rankFamily_sublist (Lx Ly Lz : Nat) : (rankFamily Lx Ly Lz).Sublist (stabs Lx Ly Lz) :=
  List.filter_sublist

theorem rankFamily_nodup (Lx Ly Lz : Nat) : (rankFamily Lx Ly Lz).Nodup :=
  (stabs_nodup Lx Ly Lz).sublist (rankFamily_sublist Lx Ly Lz)

/-- two duplicate-free lists of locations with the same triples have the same length -/
theorem length_eq_of_mem3 {l1 l2 : List Coord} (n1 : l1.Nodup) (n2 : l2.Nodup)
    (s1 : ∀ q ∈ l1, ∃ x y z, q = [x, y, z]) (s2 : ∀ q ∈ l2, ∃ x y z, q = [x, y, z])
    (h : ∀ x y z : Int, [x, y, z] ∈ l1 ↔ [x, y, z] ∈ l2) : l1.length = l2.length := by
  apply List.Perm.length_eq
  rw [List.perm_ext_iff_of_nodup n1 n2]
  intro q
  constructor
  · intro hq; obtain ⟨x, y, z, rfl⟩ := s1 q hq; exact (h x y z).mp hq
  · intro hq; obtain ⟨x, y, z, rfl⟩ := s2 q hq; exact (h x y z).mpr hq

theorem shape_grid {xs ys zs : List Int} {q : Coord} (h : q ∈ grid xs ys zs) :
    ∃ x y z, q = [x, y, z] := by
  obtain ⟨x, _, y, _, z, _, rfl⟩ := mem_grid.mp h; exact ⟨x, y, z, rfl⟩

/-- a block of `get_stabilizer_coordinates` none of whose members is dropped -/
theorem filter_keep_self {Lx Ly Lz : Nat} {xs ys zs : List Int}
    (h : ∀ x ∈ xs, ∀ z ∈ zs, x % 2 = 0 ∨ z % 2 = 1) :
    (gridH Lx Ly Lz xs ys zs).filter (fun s => !rankDrop Lx s) = gridH Lx Ly Lz xs ys zs := by
  rw [List.filter_eq_self]
  intro q hq
  rw [gridH_eq, List.mem_filter] at hq
  obtain ⟨x, hx, y, _, z, hz, rfl⟩ := mem_grid.mp hq.1
  have := h x hx z hz
  have hd : ¬ rankDrop Lx [x, y, z] = true := by rw [rankDrop3]; omega
  simpa using hd

/-- the xy-face block of `get_stabilizer_coordinates` -/
def xyBlock (Lx Ly Lz : Nat) : List Coord :=
  gridH Lx Ly Lz (range2 1 (2 * (Lx : Int) + 1)) (range2 1 (2 * (Ly : Int) - 1))
    (range2 0 (2 * (Lz : Int)))

theorem mem_xyKept {Lx Ly Lz : Nat} {x y z : Int} :
    [x, y, z] ∈ (xyBlock Lx Ly Lz).filter (fun s => !rankDrop Lx s) ↔
      (inO1 Lx x ∧ inO Ly y ∧ inE Lz z ∧ ¬ Hole Lx Ly Lz x y z) ∧
      ¬ (z % 2 = 0 ∧ x % 2 = 1 ∧ z ≠ 0 ∧ (x = 1 ∨ x = 2 * (Lx : Int) - 1 ∨ (x = 3 ∧ y = 1))) := by
  unfold xyBlock
  rw [List.mem_filter, gridH_eq, List.mem_filter, mem_grid3, mem_rangeO1, mem_rangeO, mem_rangeE,
    notHoleC3, Bool.not_eq_true', ← Bool.not_eq_true, rankDrop3]
  simp only [and_assoc]

theorem xyKept_nodup (Lx Ly Lz : Nat) :
    ((xyBlock Lx Ly Lz).filter (fun s => !rankDrop Lx s)).Nodup := by
  unfold xyBlock
  rw [gridH_eq]
  exact ((nodup_grid (nodup_range2 _ _) (nodup_range2 _ _) (nodup_range2 _ _)).filter _).filter _

/-- no cavity: the kept xy faces are those of the layer `z = 0` -/
theorem xyKept_length_A {Lx Ly Lz : Nat} (hLz : 1 ≤ Lz) (hA : Lx ≤ 2 ∨ Ly ≤ 1 ∨ Lz ≤ 1) :
    ((xyBlock Lx Ly Lz).filter (fun s => !rankDrop Lx s)).length = Lx * (Ly - 1) := by
  have hl : (grid (range2 1 (2 * (Lx : Int) + 1)) (range2 1 (2 * (Ly : Int) - 1)) [0]).length =
      Lx * (Ly - 1) := by
    rw [length_grid, length_rangeO1, length_rangeO]; simp
  rw [← hl]
  refine length_eq_of_mem3 (xyKept_nodup Lx Ly Lz)
    (nodup_grid (nodup_range2 _ _) (nodup_range2 _ _) (by simp)) ?_ (fun q hq => shape_grid hq) ?_
  · intro q hq
    unfold xyBlock at hq
    rw [gridH_eq] at hq
    exact shape_grid (List.mem_filter.mp (List.mem_filter.mp hq).1).1
  · intro x y z
    rw [mem_xyKept, mem_grid3, mem_rangeO1, mem_rangeO]
    simp only [List.mem_singleton, inE, inO, inO1, Hole]
    omega

/-- a cavity: the kept xy faces are those of the layer `z = 0` and those of the top of the tube
    other than `(3, 1, 2Lz − 2)` -/
theorem xyKept_length_B {Lx Ly Lz : Nat} (hLx : 3 ≤ Lx) (hLy : 2 ≤ Ly) (hLz : 2 ≤ Lz) :
    ((xyBlock Lx Ly Lz).filter (fun s => !rankDrop Lx s)).length + 1 =
      Lx * (Ly - 1) + (Lx - 2) * (Ly - 1) := by
  let top := grid (range2 3 (2 * (Lx : Int) - 2)) (range2 1 (2 * (Ly : Int) - 1))
    [2 * (Lz : Int) - 2]
  have htop : top.length = (Lx - 2) * (Ly - 1) := by
    show (grid _ _ _).length = _
    rw [length_grid, length_range2, length_rangeO]
    have : ((2 * (Lx : Int) - 2 - 3 + 1) / 2).toNat = Lx - 2 := by omega
    rw [this]; simp
  have hmemtop : [3, 1, 2 * (Lz : Int) - 2] ∈ top := by
    show _ ∈ grid _ _ _
    rw [mem_grid3, mem_range2, mem_range2]
    refine ⟨by omega, by omega, by simp⟩
  have hl0 : (grid (range2 1 (2 * (Lx : Int) + 1)) (range2 1 (2 * (Ly : Int) - 1)) [0]).length =
      Lx * (Ly - 1) := by
    rw [length_grid, length_rangeO1, length_rangeO]; simp
  have hnt : top.Nodup := nodup_grid (nodup_range2 _ _) (nodup_range2 _ _) (by simp)
  have key : ((xyBlock Lx Ly Lz).filter (fun s => !rankDrop Lx s)).length =
      (grid (range2 1 (2 * (Lx : Int) + 1)) (range2 1 (2 * (Ly : Int) - 1)) [0] ++
        top.erase [3, 1, 2 * (Lz : Int) - 2]).length := by
    refine length_eq_of_mem3 (xyKept_nodup Lx Ly Lz) ?_ ?_ ?_ ?_
    · rw [List.nodup_append]
      refine ⟨nodup_grid (nodup_range2 _ _) (nodup_range2 _ _) (by simp), hnt.erase _, ?_⟩
      intro a ha b hb hab
      subst hab
      obtain ⟨x, y, z, rfl⟩ := shape_grid ha
      have hb' := List.mem_of_mem_erase hb
      rw [mem_grid3] at ha
      change _ ∈ grid _ _ _ at hb'
      rw [mem_grid3] at hb'
      simp only [List.mem_singleton] at ha hb'
      omega
    · intro q hq
      unfold xyBlock at hq
      rw [gridH_eq] at hq
      exact shape_grid (List.mem_filter.mp (List.mem_filter.mp hq).1).1
    · intro q hq
      rcases List.mem_append.mp hq with h | h
      · exact shape_grid h
      · exact shape_grid (List.mem_of_mem_erase h)
    · intro x y z
      rw [mem_xyKept, List.mem_append, hnt.mem_erase_iff]
      change _ ↔ _ ∨ (_ ∧ _ ∈ grid _ _ _)
      rw [mem_grid3, mem_grid3, mem_rangeO1, mem_rangeO, mem_range2]
      simp only [List.mem_singleton, inE, inO, inO1, Hole, ne_eq, List.cons.injEq, and_true]
      omega
  rw [key, List.length_append, hl0, List.length_erase_of_mem hmemtop, htop]
  have hpos : 1 ≤ (Lx - 2) * (Ly - 1) := Nat.mul_pos (by omega) (by omega)
  omega

/-- the three blocks that are kept entirely, and the decomposition of the family -/
theorem rankFamily_length_split (Lx Ly Lz : Nat) : (rankFamily Lx Ly Lz).length =
    (gridH Lx Ly Lz (range2 2 (2 * (Lx : Int))) (range2 0 (2 * (Ly : Int)))
      (range2 0 (2 * (Lz : Int)))).length +
    ((xyBlock Lx Ly Lz).filter (fun s => !rankDrop Lx s)).length +
    (gridH Lx Ly Lz (range2 2 (2 * (Lx : Int))) (range2 1 (2 * (Ly : Int) - 1))
      (range2 1 (2 * (Lz : Int) - 1))).length +
    (gridH Lx Ly Lz (range2 1 (2 * (Lx : Int) + 1)) (range2 0 (2 * (Ly : Int)))
      (range2 1 (2 * (Lz : Int) - 1))).length := by
  unfold rankFamily stabs
  have k1 := filter_keep_self (Lx := Lx) (Ly := Ly) (Lz := Lz) (xs := range2 2 (2 * (Lx : Int)))
    (ys := range2 0 (2 * (Ly : Int))) (zs := range2 0 (2 * (Lz : Int)))
    (by intro x hx z _; rw [mem_range2] at hx; omega)
  have k3 := filter_keep_self (Lx := Lx) (Ly := Ly) (Lz := Lz) (xs := range2 2 (2 * (Lx : Int)))
    (ys := range2 1 (2 * (Ly : Int) - 1)) (zs := range2 1 (2 * (Lz : Int) - 1))
    (by intro x hx z _; rw [mem_range2] at hx; omega)
  have k4 := filter_keep_self (Lx := Lx) (Ly := Ly) (Lz := Lz)
    (xs := range2 1 (2 * (Lx : Int) + 1))
    (ys := range2 0 (2 * (Ly : Int))) (zs := range2 1 (2 * (Lz : Int) - 1))
    (by intro x _ z hz; rw [mem_range2] at hz; omega)
  rw [List.filter_append, List.filter_append, List.filter_append, k1, k3, k4]
  simp only [List.length_append]
  rfl

theorem rankFamily_length {Lx Ly Lz : Nat} (hLx : 1 ≤ Lx) (hLy : 1 ≤ Ly) (hLz : 1 ≤ Lz) :
    (rankFamily Lx Ly Lz).length = (qubits Lx Ly Lz).length - 1 := by
  have hn := qubits_length_add Lx Ly Lz
  have h1 := length_gridH Lx Ly Lz (range2 2 (2 * (Lx : Int))) (range2 0 (2 * (Ly : Int)))
    (range2 0 (2 * (Lz : Int)))
  have h3 := length_gridH Lx Ly Lz (range2 2 (2 * (Lx : Int))) (range2 1 (2 * (Ly : Int) - 1))
    (range2 1 (2 * (Lz : Int) - 1))
  have h4 := length_gridH Lx Ly Lz (range2 1 (2 * (Lx : Int) + 1)) (range2 0 (2 * (Ly : Int)))
    (range2 1 (2 * (Lz : Int) - 1))
  simp only [len_holeX_E2, len_holeX_O1, len_holeYZ_E, len_holeYZ_O, length_rangeE, length_rangeO,
    length_rangeE2, length_rangeO1] at h1 h3 h4
  rw [rankFamily_length_split]
  generalize (gridH Lx Ly Lz (range2 2 (2 * (Lx : Int))) (range2 0 (2 * (Ly : Int)))
      (range2 0 (2 * (Lz : Int)))).length = V at *
  generalize (gridH Lx Ly Lz (range2 2 (2 * (Lx : Int))) (range2 1 (2 * (Ly : Int) - 1))
      (range2 1 (2 * (Lz : Int) - 1))).length = YZ at *
  generalize (gridH Lx Ly Lz (range2 1 (2 * (Lx : Int) + 1)) (range2 0 (2 * (Ly : Int)))
      (range2 1 (2 * (Lz : Int) - 1))).length = XZ at *
  generalize (qubits Lx Ly Lz).length = n at *
  by_cases hB : 3 ≤ Lx ∧ 2 ≤ Ly ∧ 2 ≤ Lz
  · obtain ⟨hx, hy, hz⟩ := hB
    have hxy := xyKept_length_B hx hy hz
    generalize ((xyBlock Lx Ly Lz).filter (fun s => !rankDrop Lx s)).length = XY at *
    obtain ⟨a, rfl⟩ : ∃ a, Lx = a + 3 := ⟨Lx - 3, by omega⟩
    obtain ⟨b, rfl⟩ : ∃ b, Ly = b + 2 := ⟨Ly - 2, by omega⟩
    obtain ⟨c, rfl⟩ : ∃ c, Lz = c + 2 := ⟨Lz - 2, by omega⟩
    have e1 : a + 3 - 1 = a + 2 := by omega
    have e2 : a + 3 - 2 = a + 1 := by omega
    have e3 : a + 3 - 3 = a := by omega
    have e4 : b + 2 - 1 = b + 1 := by omega
    have e5 : b + 2 - 2 = b := by omega
    have e6 : c + 2 - 1 = c + 1 := by omega
    have e7 : c + 2 - 2 = c := by omega
    simp only [e1, e2, e3, e4, e5, e6, e7] at hn h1 h3 h4 hxy
    have : V + XY + YZ + XZ + 1 = n := by nlinarith [hn, h1, h3, h4, hxy]
    omega
  · have hA : Lx ≤ 2 ∨ Ly ≤ 1 ∨ Lz ≤ 1 := by omega
    have hxy := xyKept_length_A hLz hA
    generalize ((xyBlock Lx Ly Lz).filter (fun s => !rankDrop Lx s)).length = XY at *
    have zero : ∀ i j k : Nat, 2 ≤ i → 1 ≤ j → 1 ≤ k → (Lx - i) * (Ly - j) * (Lz - k) = 0 := by
      intro i j k hi hj hk
      rcases hA with h | h | h
      · rw [show Lx - i = 0 by omega]; simp
      · rw [show Ly - j = 0 by omega]; simp
      · rw [show Lz - k = 0 by omega]; simp
    rw [zero 2 2 2 (by omega) (by omega) (by omega), zero 3 1 2 (by omega) (by omega) (by omega),
      zero 3 2 1 (by omega) (by omega) (by omega)] at hn
    rw [zero 3 2 2 (by omega) (by omega) (by omega)] at h1
    rw [zero 3 1 1 (by omega) (by omega) (by omega)] at h3
    rw [zero 2 2 1 (by omega) (by omega) (by omega)] at h4
    obtain ⟨a, rfl⟩ : ∃ a, Lx = a + 1 := ⟨Lx - 1, by omega⟩
    obtain ⟨b, rfl⟩ : ∃ b, Ly = b + 1 := ⟨Ly - 1, by omega⟩
    obtain ⟨c, rfl⟩ : ∃ c, Lz = c + 1 := ⟨Lz - 1, by omega⟩
    simp only [Nat.add_sub_cancel] at hn h1 h3 h4 hxy
    have : V + XY + YZ + XZ + 1 = n := by nlinarith [hn, h1, h3, h4, hxy]
    omega

end Panqec.HollowPlanar3DCode
