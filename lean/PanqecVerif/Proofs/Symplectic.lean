/-
Bridge between the list-level model (`List Nat` BSF vectors, `symp`, `vxor`,
`xorCombo`, `InSpan`, `Indep`, `HasRank` of `Proofs/ValidCode.lean`) and Mathlib
linear algebra over `ZMod 2`.

Part A (abstract): stabilizer data inside a space with a nondegenerate
  alternating bilinear form: the logical-effect map on `S^⊥` is surjective, hence
  `2 dim S + 2k ≤ dim V`, and if equality holds `e ∈ S ↔ e ∈ S^⊥ ∧ effect e = 0`.
Part B (concrete form): `(Fin n → ZMod 2)²` with `ω((x,z),(x',z')) = x·z' + z·x'`.
Part C (bridge): `toVec`, `symp ↦ ω`, `vxor ↦ +`, `xorCombo ↦` linear combination,
  `InSpan ↔ ∈ span`, `Indep ↔ LinearIndependent`, `HasRank ⇒ finrank (span) = r`.
-/
import Mathlib.LinearAlgebra.BilinearForm.Orthogonal
import Mathlib.LinearAlgebra.Dimension.Constructions
import Mathlib.LinearAlgebra.FiniteDimensional.Lemmas
import Mathlib.LinearAlgebra.Matrix.DotProduct
import Mathlib.Data.ZMod.Basic
import Mathlib.Algebra.Field.ZMod
import PanqecVerif.Proofs.Bits
import PanqecVerif.Proofs.ValidCode

namespace Panqec.Symp

open Module LinearMap Submodule

/-! ## Part A: abstract stabilizer data -/

section Abstract

variable {K V : Type*} [Field K] [AddCommGroup V] [Module K V]

/-- Stabilizer-code data inside a space with a bilinear form `B`:
    an isotropic subspace `S` and `k` pairs of logical operators in `S^⊥` with the
    canonical pairing table.  (No dimension hypothesis here.) -/
structure StabData (B : LinearMap.BilinForm K V) (k : ℕ) where
  S : Submodule K V
  lx : Fin k → V
  lz : Fin k → V
  iso : S ≤ B.orthogonal S
  lxS : ∀ i, lx i ∈ B.orthogonal S
  lzS : ∀ i, lz i ∈ B.orthogonal S
  xx : ∀ i j, B (lx i) (lx j) = 0
  zz : ∀ i j, B (lz i) (lz j) = 0
  xz : ∀ i j, B (lx i) (lz j) = if i = j then 1 else 0

variable {B : LinearMap.BilinForm K V} {k : ℕ}

/-- logical effect map restricted to the normaliser `N = S^⊥`:
    `e ↦ (ω(lz_i, e))_i ⊕ (ω(lx_i, e))_i` -/
noncomputable def effect (C : StabData B k) : B.orthogonal C.S →ₗ[K] (Fin k ⊕ Fin k → K) where
  toFun e := Sum.elim (fun i => B (C.lz i) e) (fun i => B (C.lx i) e)
  map_add' a b := by
    funext s; cases s <;> simp
  map_smul' c a := by
    funext s; cases s <;> simp

theorem effect_surjective (hAlt : B.IsAlt) (C : StabData B k) :
    Function.Surjective (effect C) := by
  intro t
  have hzx : ∀ i j, B (C.lz i) (C.lx j) = if i = j then -1 else 0 := by
    intro i j
    have := hAlt.neg_eq (C.lx j) (C.lz i)
    rw [C.xz] at this
    by_cases h : i = j
    · subst h
      simp at this ⊢
      rw [← this]
    · have h' : ¬ j = i := fun e => h e.symm
      simp [h, h'] at this ⊢
      rw [← this]
  let e : V := ∑ i, (-(t (Sum.inl i))) • C.lx i + ∑ i, (t (Sum.inr i)) • C.lz i
  have he : e ∈ B.orthogonal C.S := by
    apply Submodule.add_mem
    · exact Submodule.sum_mem _ (fun i _ => Submodule.smul_mem _ _ (C.lxS i))
    · exact Submodule.sum_mem _ (fun i _ => Submodule.smul_mem _ _ (C.lzS i))
  refine ⟨⟨e, he⟩, ?_⟩
  funext s
  cases s with
  | inl j =>
    simp only [effect, LinearMap.coe_mk, AddHom.coe_mk, Sum.elim_inl, e]
    simp [map_add, map_sum, hzx, C.zz, Finset.sum_ite_eq]
  | inr j =>
    simp only [effect, LinearMap.coe_mk, AddHom.coe_mk, Sum.elim_inr, e]
    simp [map_add, map_sum, C.xx, C.xz, Finset.sum_ite_eq]

/-- `S`, seen inside `S^⊥`, lies in the kernel of the effect map -/
theorem comap_le_ker_effect (hAlt : B.IsAlt) (C : StabData B k) :
    C.S.comap (B.orthogonal C.S).subtype ≤ LinearMap.ker (effect C) := by
  have hrefl : B.IsRefl := hAlt.isRefl
  intro x hx
  have hx' : (x : V) ∈ C.S := hx
  rw [LinearMap.mem_ker]
  funext s
  cases s with
  | inl i => exact hrefl _ _ (C.lzS i _ hx')
  | inr i => exact hrefl _ _ (C.lxS i _ hx')

variable [FiniteDimensional K V]

/-- Dimension bound: an isotropic subspace that comes with `k` logical pairs has
    `2·dim S + 2k ≤ dim V`. -/
theorem two_finrank_add_le (hB : B.Nondegenerate) (hAlt : B.IsAlt) (C : StabData B k) :
    2 * finrank K C.S + 2 * k ≤ finrank K V := by
  have h1 : finrank K (B.orthogonal C.S) = finrank K V - finrank K C.S :=
    LinearMap.BilinForm.finrank_orthogonal hB C.S
  have hle : finrank K C.S ≤ finrank K V := Submodule.finrank_le _
  have hrank := LinearMap.finrank_range_add_finrank_ker (effect C)
  have hsurj : finrank K (LinearMap.range (effect C)) = 2 * k := by
    rw [LinearMap.range_eq_top.mpr (effect_surjective hAlt C)]
    simp [two_mul]
  have hSin : finrank K (C.S.comap (B.orthogonal C.S).subtype) = finrank K C.S :=
    (Submodule.comapSubtypeEquivOfLe C.iso).finrank_eq
  have hker : finrank K C.S ≤ finrank K (LinearMap.ker (effect C)) := by
    rw [← hSin]
    exact Submodule.finrank_mono (comap_le_ker_effect hAlt C)
  omega

/-- Membership in the stabilizer space when the dimensions add up:
    `e ∈ S ↔ e ∈ S^⊥ ∧ ∀ i, ω(lx_i,e) = 0 ∧ ∀ i, ω(lz_i,e) = 0`. -/
theorem mem_stabilizer_iff (hB : B.Nondegenerate) (hAlt : B.IsAlt) (C : StabData B k)
    (hdim : finrank K V = 2 * finrank K C.S + 2 * k) (e : V) :
    e ∈ C.S ↔ (e ∈ B.orthogonal C.S ∧ (∀ i, B (C.lx i) e = 0) ∧ (∀ i, B (C.lz i) e = 0)) := by
  have hrefl : B.IsRefl := hAlt.isRefl
  have hS_le_ker := comap_le_ker_effect hAlt C
  have hfinN : finrank K (B.orthogonal C.S) = finrank K C.S + 2 * k := by
    have h1 : finrank K (B.orthogonal C.S) = finrank K V - finrank K C.S :=
      LinearMap.BilinForm.finrank_orthogonal hB C.S
    omega
  have hrank := LinearMap.finrank_range_add_finrank_ker (effect C)
  have hsurj : finrank K (LinearMap.range (effect C)) = 2 * k := by
    rw [LinearMap.range_eq_top.mpr (effect_surjective hAlt C)]
    simp [two_mul]
  have hker : finrank K (LinearMap.ker (effect C)) = finrank K C.S := by
    rw [hfinN, hsurj] at hrank; omega
  have hSin : finrank K (C.S.comap (B.orthogonal C.S).subtype) = finrank K C.S :=
    (Submodule.comapSubtypeEquivOfLe C.iso).finrank_eq
  have heq : C.S.comap (B.orthogonal C.S).subtype = LinearMap.ker (effect C) :=
    Submodule.eq_of_le_of_finrank_eq hS_le_ker (by rw [hSin, hker])
  constructor
  · intro he
    refine ⟨C.iso he, ?_, ?_⟩
    · intro i; exact hrefl _ _ (C.lxS i _ he)
    · intro i; exact hrefl _ _ (C.lzS i _ he)
  · rintro ⟨heN, hx, hz⟩
    have : (⟨e, heN⟩ : B.orthogonal C.S) ∈ LinearMap.ker (effect C) := by
      rw [LinearMap.mem_ker]
      funext s
      cases s with
      | inl i => exact hz i
      | inr i => exact hx i
    rw [← heq] at this
    exact this

end Abstract

/-! ## Part B: the concrete symplectic space over `ZMod 2` -/

/-- binary symplectic vectors on `n` qubits: (X block, Z block) -/
abbrev PVec (n : ℕ) := (Fin n → ZMod 2) × (Fin n → ZMod 2)

/-- `ω((x,z),(x',z')) = x·z' + z·x'` -/
def sympForm (n : ℕ) : LinearMap.BilinForm (ZMod 2) (PVec n) :=
  LinearMap.mk₂ (ZMod 2) (fun a b => a.1 ⬝ᵥ b.2 + a.2 ⬝ᵥ b.1)
    (by intro a b c; simp [add_dotProduct]; ring)
    (by intro c a b; simp [smul_dotProduct]; ring)
    (by intro a b c; simp [dotProduct_add]; ring)
    (by intro c a b; simp [dotProduct_smul]; ring)

theorem sympForm_apply (n) (a b : PVec n) : sympForm n a b = a.1 ⬝ᵥ b.2 + a.2 ⬝ᵥ b.1 := rfl

theorem sympForm_isAlt (n) : (sympForm n).IsAlt := by
  intro a
  rw [sympForm_apply, dotProduct_comm a.2 a.1]
  have : (2 : ZMod 2) = 0 := rfl
  rw [← two_mul, this, zero_mul]

theorem sympForm_nondegenerate (n) : (sympForm n).Nondegenerate := by
  apply (LinearMap.IsRefl.nondegenerate_iff_separatingLeft (sympForm_isAlt n).isRefl).mpr
  intro a h
  ext i
  · have := h (0, Pi.single i 1)
    simpa [sympForm_apply] using this
  · have := h (Pi.single i 1, 0)
    simpa [sympForm_apply] using this

theorem finrank_PVec (n : ℕ) : finrank (ZMod 2) (PVec n) = 2 * n := by
  simp [PVec, two_mul]

end Panqec.Symp

/-! ## Part C: bridge from the list-level model -/

namespace Panqec

open Symp Module

/-- cast of a list-level BSF vector into the symplectic space -/
def toVec (n : ℕ) (v : List Nat) : PVec n :=
  (fun i => (((xPart v).getD i 0 : ℕ) : ZMod 2), fun i => (((zPart v).getD i 0 : ℕ) : ZMod 2))

theorem dot_cast : ∀ (n : ℕ) (xs zs : List Nat), xs.length = n → zs.length = n →
    ((dot xs zs : ℕ) : ZMod 2) =
      (fun i : Fin n => ((xs.getD i 0 : ℕ) : ZMod 2)) ⬝ᵥ (fun i : Fin n => ((zs.getD i 0 : ℕ) : ZMod 2))
  | 0, xs, zs, hx, hz => by
    have : xs = [] := List.length_eq_zero_iff.mp hx
    subst this
    simp [dot_nil_left, dotProduct]
  | n + 1, [], zs, hx, hz => by simp at hx
  | n + 1, x :: xs, [], hx, hz => by simp at hz
  | n + 1, x :: xs, z :: zs, hx, hz => by
    simp at hx hz
    have ih := dot_cast n xs zs hx hz
    simp only [dotProduct] at ih ⊢
    rw [Fin.sum_univ_succ]
    simp [ih]

theorem xPart_eq_take {n : ℕ} {a : List Nat} (h : a.length = 2 * n) : xPart a = a.take n := by
  unfold xPart; rw [h]; congr 1; omega
theorem zPart_eq_drop {n : ℕ} {a : List Nat} (h : a.length = 2 * n) : zPart a = a.drop n := by
  unfold zPart; rw [h]; congr 1; omega
theorem xPart_len {n : ℕ} {a : List Nat} (h : a.length = 2 * n) : (xPart a).length = n := by
  rw [xPart_length, h]; omega
theorem zPart_len {n : ℕ} {a : List Nat} (h : a.length = 2 * n) : (zPart a).length = n := by
  rw [zPart_length, h]; omega

theorem symp_cast {n : ℕ} {a b : List Nat} (ha : a.length = 2 * n) (hb : b.length = 2 * n) :
    ((symp a b : ℕ) : ZMod 2) = sympForm n (toVec n a) (toVec n b) := by
  unfold symp
  rw [ZMod.natCast_mod, Nat.cast_add, dot_cast n _ _ (xPart_len ha) (zPart_len hb),
    dot_cast n _ _ (zPart_len ha) (xPart_len hb), sympForm_apply]
  rfl

theorem cast_eq_zero_iff {x : ℕ} (hx : x < 2) : ((x : ℕ) : ZMod 2) = 0 ↔ x = 0 := by
  have : x = 0 ∨ x = 1 := by omega
  rcases this with rfl | rfl <;> decide
theorem cast_eq_one_iff {x : ℕ} (hx : x < 2) : ((x : ℕ) : ZMod 2) = 1 ↔ x = 1 := by
  have : x = 0 ∨ x = 1 := by omega
  rcases this with rfl | rfl <;> decide

theorem symp_eq_zero_iff {n : ℕ} {a b : List Nat} (ha : a.length = 2 * n) (hb : b.length = 2 * n) :
    symp a b = 0 ↔ sympForm n (toVec n a) (toVec n b) = 0 := by
  rw [← symp_cast ha hb, cast_eq_zero_iff (symp_lt_two a b)]

theorem symp_eq_one_iff {n : ℕ} {a b : List Nat} (ha : a.length = 2 * n) (hb : b.length = 2 * n) :
    symp a b = 1 ↔ sympForm n (toVec n a) (toVec n b) = 1 := by
  rw [← symp_cast ha hb, cast_eq_one_iff (symp_lt_two a b)]

theorem vxor_length_alg (a b : List Nat) (h : a.length = b.length) : (vxor a b).length = a.length := by
  simp [vxor, vadd_length a b h]

theorem vxor_binary (a b : List Nat) : ∀ x ∈ vxor a b, x < 2 := by
  intro x hx
  simp only [vxor, List.mem_map] at hx
  obtain ⟨y, _, rfl⟩ := hx
  omega

theorem getD_vadd : ∀ (xs ys : List Nat) (i : ℕ), xs.length = ys.length →
    (vadd xs ys).getD i 0 = xs.getD i 0 + ys.getD i 0
  | [], ys, i, h => by
    have : ys = [] := by cases ys with | nil => rfl | cons _ _ => simp at h
    subst this; simp
  | x :: xs, [], i, h => by simp at h
  | x :: xs, y :: ys, 0, h => by simp
  | x :: xs, y :: ys, i + 1, h => by
    simp at h
    simpa using getD_vadd xs ys i h

theorem getD_vxor (xs ys : List Nat) (i : ℕ) (h : xs.length = ys.length) :
    (vxor xs ys).getD i 0 = (xs.getD i 0 + ys.getD i 0) % 2 := by
  unfold vxor
  rw [← getD_vadd xs ys i h]
  simp [List.getD_eq_getElem?_getD, List.getElem?_map]
  cases (vadd xs ys)[i]? <;> simp

theorem xPart_vxor (a b : List Nat) (h : a.length = b.length) :
    xPart (vxor a b) = vxor (xPart a) (xPart b) := by
  unfold vxor; rw [xPart_map, xPart_vadd a b h]
theorem zPart_vxor (a b : List Nat) (h : a.length = b.length) :
    zPart (vxor a b) = vxor (zPart a) (zPart b) := by
  unfold vxor; rw [zPart_map, zPart_vadd a b h]

theorem toVec_vxor (n : ℕ) (a b : List Nat) (h : a.length = b.length) :
    toVec n (vxor a b) = toVec n a + toVec n b := by
  have hx : (xPart a).length = (xPart b).length := by simp [xPart_length, h]
  have hz : (zPart a).length = (zPart b).length := by simp [zPart_length, h]
  unfold toVec
  rw [xPart_vxor a b h, zPart_vxor a b h]
  refine Prod.ext (funext fun i => ?_) (funext fun i => ?_)
  · show (((vxor (xPart a) (xPart b)).getD i 0 : ℕ) : ZMod 2) = _
    rw [getD_vxor _ _ _ hx, ZMod.natCast_mod, Nat.cast_add]; rfl
  · show (((vxor (zPart a) (zPart b)).getD i 0 : ℕ) : ZMod 2) = _
    rw [getD_vxor _ _ _ hz, ZMod.natCast_mod, Nat.cast_add]; rfl

theorem getD_of_all_zero (l : List Nat) (h : ∀ x ∈ l, x = 0) (i : ℕ) : l.getD i 0 = 0 := by
  rw [List.getD_eq_getElem?_getD]
  cases hi : l[i]? with
  | none => rfl
  | some x => exact h x (List.mem_of_getElem? hi)

theorem toVec_vzero (n m : ℕ) : toVec n (vzero m) = 0 := by
  have h : ∀ x ∈ vzero m, x = 0 := by
    intro x hx; exact (List.mem_replicate.mp hx).2
  unfold toVec
  refine Prod.ext (funext fun i => ?_) (funext fun i => ?_)
  · show (((xPart (vzero m)).getD i 0 : ℕ) : ZMod 2) = 0
    rw [getD_of_all_zero (xPart (vzero m)) (fun x hx => h x (List.mem_of_mem_take hx))]; rfl
  · show (((zPart (vzero m)).getD i 0 : ℕ) : ZMod 2) = 0
    rw [getD_of_all_zero (zPart (vzero m)) (fun x hx => h x (List.mem_of_mem_drop hx))]; rfl

theorem list_eq_of_cast_getD (n : ℕ) (xs ys : List Nat) (hx : xs.length = n) (hy : ys.length = n)
    (bx : ∀ x ∈ xs, x < 2) (by_ : ∀ y ∈ ys, y < 2)
    (h : ∀ i : Fin n, ((xs.getD i 0 : ℕ) : ZMod 2) = ((ys.getD i 0 : ℕ) : ZMod 2)) : xs = ys := by
  apply List.ext_getElem (by rw [hx, hy])
  intro i h1 h2
  have := h ⟨i, by omega⟩
  rw [ZMod.natCast_eq_natCast_iff'] at this
  simp only [List.getD_eq_getElem?_getD, List.getElem?_eq_getElem h1, List.getElem?_eq_getElem h2,
    Option.getD_some] at this
  have b1 := bx _ (List.getElem_mem h1)
  have b2 := by_ _ (List.getElem_mem h2)
  omega

/-- `toVec` is injective on binary vectors of length `2n` -/
theorem toVec_injective {n : ℕ} {a b : List Nat} (ha : a.length = 2 * n) (hb : b.length = 2 * n)
    (ba : ∀ x ∈ a, x < 2) (bb : ∀ x ∈ b, x < 2) (h : toVec n a = toVec n b) : a = b := by
  have h1 : xPart a = xPart b := by
    apply list_eq_of_cast_getD n _ _ (xPart_len ha) (xPart_len hb)
      (fun x hx => ba x (List.mem_of_mem_take hx)) (fun x hx => bb x (List.mem_of_mem_take hx))
    intro i
    exact congrFun (congrArg Prod.fst h) i
  have h2 : zPart a = zPart b := by
    apply list_eq_of_cast_getD n _ _ (zPart_len ha) (zPart_len hb)
      (fun x hx => ba x (List.mem_of_mem_drop hx)) (fun x hx => bb x (List.mem_of_mem_drop hx))
    intro i
    exact congrFun (congrArg Prod.snd h) i
  have ea : a = xPart a ++ zPart a := by simp [xPart, zPart]
  have eb : b = xPart b ++ zPart b := by simp [xPart, zPart]
  rw [ea, eb, h1, h2]

theorem xorCombo_length_alg (m : ℕ) : ∀ (sel : List Bool) (rows : List (List Nat)),
    (∀ r ∈ rows, r.length = m) → (xorCombo m sel rows).length = m
  | [], rows, _ => by simp [xorCombo, vzero]
  | s :: sel, [], _ => by simp [xorCombo, vzero]
  | s :: sel, r :: rows, h => by
    have ih := xorCombo_length_alg m sel rows (fun r hr => h r (by simp [hr]))
    have hr : r.length = m := h r (by simp)
    unfold xorCombo
    cases s
    · simpa using ih
    · simp only [if_true]
      rw [vxor_length_alg _ _ (by rw [hr, ih]), hr]

theorem vzero_binary (m : ℕ) : ∀ x ∈ vzero m, x < 2 := by
  intro x hx
  have := (List.mem_replicate.mp hx).2
  omega

theorem xorCombo_binary (m : ℕ) : ∀ (sel : List Bool) (rows : List (List Nat)),
    ∀ x ∈ xorCombo m sel rows, x < 2
  | [], rows => by simpa [xorCombo] using vzero_binary m
  | s :: sel, [] => by simpa [xorCombo] using vzero_binary m
  | s :: sel, r :: rows => by
    unfold xorCombo
    cases s
    · simpa using xorCombo_binary m sel rows
    · simpa using vxor_binary r _

/-- the linear combination selected by `sel`, in the symplectic space -/
def comboV (n : ℕ) : List Bool → List (List Nat) → PVec n
  | s :: sel, r :: rows => (if s then toVec n r else 0) + comboV n sel rows
  | _, _ => 0

theorem toVec_xorCombo (n : ℕ) : ∀ (sel : List Bool) (rows : List (List Nat)),
    (∀ r ∈ rows, r.length = 2 * n) → toVec n (xorCombo (2 * n) sel rows) = comboV n sel rows
  | [], rows, _ => by simp [xorCombo, comboV, toVec_vzero]
  | s :: sel, [], _ => by simp [xorCombo, comboV, toVec_vzero]
  | s :: sel, r :: rows, h => by
    have hrows : ∀ r ∈ rows, r.length = 2 * n := fun r hr => h r (by simp [hr])
    have ih := toVec_xorCombo n sel rows hrows
    have hr : r.length = 2 * n := h r (by simp)
    unfold xorCombo comboV
    cases s
    · simp [ih]
    · simp only [if_true]
      rw [toVec_vxor n _ _ (by rw [hr, xorCombo_length_alg _ _ _ hrows]), ih]

/-- the rows as an indexed family of vectors -/
def rowVec (n : ℕ) (rows : List (List Nat)) : Fin rows.length → PVec n := fun i => toVec n rows[i]

/-- the GF(2) row space -/
def rowSpan (n : ℕ) (rows : List (List Nat)) : Submodule (ZMod 2) (PVec n) :=
  Submodule.span (ZMod 2) (Set.range (rowVec n rows))

theorem comboV_eq_sum (n : ℕ) : ∀ (rows : List (List Nat)) (sel : List Bool),
    comboV n sel rows =
      ∑ i : Fin rows.length, (if sel.getD i false then (1 : ZMod 2) else 0) • rowVec n rows i
  | [], sel => by cases sel <;> simp [comboV]
  | r :: rows, [] => by simp [comboV]
  | r :: rows, s :: sel => by
    have ih := comboV_eq_sum n rows sel
    unfold comboV
    rw [ih]
    simp only [List.length_cons]
    rw [Fin.sum_univ_succ]
    congr 1
    cases s <;> simp [rowVec]

theorem toVec_mem_rowSpan (n : ℕ) (rows : List (List Nat)) (r : List Nat) (hr : r ∈ rows) :
    toVec n r ∈ rowSpan n rows := by
  obtain ⟨i, hi, rfl⟩ := List.getElem_of_mem hr
  exact Submodule.subset_span ⟨⟨i, hi⟩, rfl⟩

theorem zmod2_ite (c : ZMod 2) : (if decide (c = 1) then (1 : ZMod 2) else 0) = c := by
  revert c; decide

theorem mem_rowSpan_iff (n : ℕ) (rows : List (List Nat)) (x : PVec n) :
    x ∈ rowSpan n rows ↔ ∃ sel : List Bool, sel.length = rows.length ∧ comboV n sel rows = x := by
  unfold rowSpan
  rw [Submodule.mem_span_range_iff_exists_fun]
  constructor
  · rintro ⟨c, rfl⟩
    refine ⟨List.ofFn (fun i => decide (c i = 1)), by simp, ?_⟩
    rw [comboV_eq_sum]
    apply Finset.sum_congr rfl
    intro i _
    congr 1
    have : (List.ofFn (fun i => decide (c i = 1))).getD i false = decide (c i = 1) := by
      simp [List.getD_eq_getElem?_getD]
    rw [this, zmod2_ite]
  · rintro ⟨sel, _, rfl⟩
    exact ⟨fun i => if sel.getD i false then 1 else 0, (comboV_eq_sum n rows sel).symm⟩

/-- `InSpan` is membership of the row space (for well-formed rows and a binary vector) -/
theorem inSpan_iff_mem_rowSpan {n : ℕ} {rows : List (List Nat)} {e : List Nat}
    (hrows : ∀ r ∈ rows, r.length = 2 * n) (he : e.length = 2 * n) (be : ∀ x ∈ e, x < 2) :
    InSpan (2 * n) rows e ↔ toVec n e ∈ rowSpan n rows := by
  rw [mem_rowSpan_iff]
  constructor
  · rintro ⟨sel, hl, rfl⟩
    exact ⟨sel, hl, (toVec_xorCombo n sel rows hrows).symm⟩
  · rintro ⟨sel, hl, h⟩
    refine ⟨sel, hl, ?_⟩
    rw [← toVec_xorCombo n sel rows hrows] at h
    exact toVec_injective (xorCombo_length_alg _ _ _ hrows) he (xorCombo_binary _ _ _) be h

/-- one direction needs no hypothesis on `e` -/
theorem mem_rowSpan_of_inSpan {n : ℕ} {rows : List (List Nat)} {e : List Nat}
    (hrows : ∀ r ∈ rows, r.length = 2 * n) (h : InSpan (2 * n) rows e) :
    toVec n e ∈ rowSpan n rows := by
  obtain ⟨sel, hl, rfl⟩ := h
  exact (mem_rowSpan_iff n rows _).mpr ⟨sel, hl, (toVec_xorCombo n sel rows hrows).symm⟩

theorem xorCombo_eq_vzero_iff {n : ℕ} {rows : List (List Nat)} (sel : List Bool)
    (hrows : ∀ r ∈ rows, r.length = 2 * n) :
    xorCombo (2 * n) sel rows = vzero (2 * n) ↔ comboV n sel rows = 0 := by
  rw [← toVec_xorCombo n sel rows hrows]
  constructor
  · intro h; rw [h, toVec_vzero]
  · intro h
    rw [← toVec_vzero n (2 * n)] at h
    exact toVec_injective (xorCombo_length_alg _ _ _ hrows) (by simp [vzero])
      (xorCombo_binary _ _ _) (vzero_binary _) h

/-- `Indep` is linear independence of the family of rows -/
theorem indep_iff_linearIndependent {n : ℕ} {rows : List (List Nat)}
    (hrows : ∀ r ∈ rows, r.length = 2 * n) :
    Indep (2 * n) rows ↔ LinearIndependent (ZMod 2) (rowVec n rows) := by
  rw [Fintype.linearIndependent_iff]
  constructor
  · intro h g hg i
    have hsel := h (List.ofFn (fun i => decide (g i = 1))) (by simp) (by
      rw [xorCombo_eq_vzero_iff _ hrows, comboV_eq_sum, ← hg]
      apply Finset.sum_congr rfl
      intro i _
      congr 1
      have : (List.ofFn (fun i => decide (g i = 1))).getD i false = decide (g i = 1) := by
        simp [List.getD_eq_getElem?_getD]
      rw [this, zmod2_ite])
    have := hsel (decide (g i = 1)) (by
      rw [List.mem_ofFn]; exact ⟨i, rfl⟩)
    have h1 : g i ≠ 1 := by simpa using this
    revert h1; generalize g i = c; revert c; decide
  · intro h sel hl hz s hs
    rw [xorCombo_eq_vzero_iff _ hrows, comboV_eq_sum] at hz
    have := h (fun i => if sel.getD i false then 1 else 0) hz
    obtain ⟨i, hi, rfl⟩ := List.getElem_of_mem hs
    have h2 := this ⟨i, by omega⟩
    simp only [List.getD_eq_getElem?_getD, List.getElem?_eq_getElem hi, Option.getD_some] at h2
    cases hsi : sel[i] with
    | false => rfl
    | true => rw [hsi] at h2; simp at h2

theorem rowSpan_mono_of_subset {n : ℕ} {a b : List (List Nat)} (h : ∀ r ∈ a, r ∈ b) :
    rowSpan n a ≤ rowSpan n b := by
  apply Submodule.span_le.mpr
  rintro _ ⟨i, rfl⟩
  exact toVec_mem_rowSpan n b _ (h _ (List.getElem_mem i.2))

/-- `HasRank` gives the dimension of the row space -/
theorem finrank_rowSpan_of_hasRank {n r : ℕ} {rows : List (List Nat)}
    (hrows : ∀ r ∈ rows, r.length = 2 * n) (h : HasRank (2 * n) rows r) :
    finrank (ZMod 2) (rowSpan n rows) = r := by
  obtain ⟨basis, hsub, hlen, hind, hspan⟩ := h
  have hb : ∀ r ∈ basis, r.length = 2 * n := fun r hr => hrows r (hsub.subset hr)
  have h1 : rowSpan n rows = rowSpan n basis := by
    apply le_antisymm
    · apply Submodule.span_le.mpr
      rintro _ ⟨i, rfl⟩
      exact mem_rowSpan_of_inSpan hb (hspan _ (List.getElem_mem i.2))
    · exact rowSpan_mono_of_subset (fun r hr => hsub.subset hr)
  rw [h1]
  have hli := (indep_iff_linearIndependent hb).mp hind
  have := finrank_span_eq_card hli
  rw [Fintype.card_fin] at this
  exact this.trans hlen

/-- an independent sub-list of the rows is no longer than the dimension of the row space -/
theorem length_le_finrank_of_indep {n : ℕ} {rows basis : List (List Nat)}
    (hrows : ∀ r ∈ rows, r.length = 2 * n) (hsub : basis.Sublist rows)
    (hind : Indep (2 * n) basis) : basis.length ≤ finrank (ZMod 2) (rowSpan n rows) := by
  have hb : ∀ r ∈ basis, r.length = 2 * n := fun r hr => hrows r (hsub.subset hr)
  have hli := (indep_iff_linearIndependent hb).mp hind
  have h1 : finrank (ZMod 2) (rowSpan n basis) = basis.length := by
    have := finrank_span_eq_card hli
    rw [Fintype.card_fin] at this
    exact this
  rw [← h1]
  exact Submodule.finrank_mono (rowSpan_mono_of_subset (fun r hr => hsub.subset hr))

end Panqec
