/-
`XCubeMatchingDecoder.decode`, the slicing of the syndrome into per-plane toric syndromes: after
`syndrome[x_indices] = 0` only cube stabilizers can be marked (every vertex-operator row of the
parity-check matrix is X-flagged, for every lattice size ≥ 2), and for a cube the toric
`stabilizer_index` key and the `plane_syndrome` key exist for every axis.
-/
import PanqecVerif.Proofs.XCubeDecMatch
import PanqecVerif.Proofs.LatXCubeCode9

namespace Panqec.XCube

open Panqec

variable {W : Type}

/-! ### vertex-operator rows are X-flagged -/

theorem filter_key_length_one : ∀ (op : Op) (q : Coord), (op.map Prod.fst).Nodup → q ∈ op.map Prod.fst →
    (op.filter fun e => e.1 == q).length = 1
  | [], _, _, h => by simp at h
  | e :: op, q, hn, hm => by
    simp only [List.map_cons, List.nodup_cons] at hn
    simp only [List.map_cons, List.mem_cons] at hm
    by_cases he : e.1 = q
    · have hnot : ∀ e' ∈ op, ¬ (e'.1 == q) = true := by
        intro e' he' hq
        simp only [beq_iff_eq] at hq
        exact hn.1 (he ▸ hq ▸ List.mem_map_of_mem he')
      simp only [List.filter_cons, he, beq_self_eq_true, if_true, List.length_cons]
      rw [List.filter_eq_nil_iff.mpr hnot]; rfl
    · have hq : q ∈ op.map Prod.fst := by
        rcases hm with h | h
        · exact absurd h.symm he
        · exact h
      have : (e.1 == q) = false := by simpa using he
      simp only [List.filter_cons, this, Bool.false_eq_true, if_false]
      exact filter_key_length_one op q hn.2 hq

/-- a non-empty dict of X letters on qubits gives an X-flagged row -/
theorem stabRow_xFlag_true (qs : List Coord) (op : Op) (r : List Nat) (hr : stabRow qs op = some r)
    (hletters : ∀ e ∈ op, e.2 = Pauli.X) (hkeys : (op.map Prod.fst).Nodup) (hne : op ≠ [])
    (hsup : ∀ e ∈ op, e.1 ∈ qs) : xFlag_dec r = true := by
  unfold stabRow toBsf at hr
  split at hr
  · simp only [Option.map_some, Option.some.injEq] at hr
    subst hr
    unfold xFlag_dec
    rw [List.map_append, xPart_append_dec _ _ (by simp)]
    cases op with
    | nil => exact absurd rfl hne
    | cons e0 rest =>
      simp only [List.any_map, List.any_eq_true, Function.comp]
      refine ⟨e0.1, hsup e0 (List.mem_cons_self ..), ?_⟩
      have hcount : opCount (e0 :: rest) e0.1 Pauli.xBit = 1 := by
        unfold opCount
        have : (e0 :: rest).filter (fun e => e.1 == e0.1 && Pauli.xBit e.2 == 1) =
            (e0 :: rest).filter (fun e => e.1 == e0.1) := by
          apply List.filter_congr
          intro e he
          rw [hletters e he]; simp [Pauli.xBit]
        rw [this]
        exact filter_key_length_one _ _ hkeys (by simp)
      simp [hcount]
  · simp at hr

/-- the operator of a vertex ("face") location has only X letters -/
theorem face_letters (Lx Ly Lz : Nat) (ax x y z : Int) :
    ∀ e ∈ XCubeCode.getStab Lx Ly Lz [ax, x, y, z], e.2 = Pauli.X := by
  unfold XCubeCode.getStab XCubeCode.getStab?
  split
  · simp
  · simp only [Option.getD_some]; exact buildOp_letters _ _ _

/-- **every vertex-operator row is X-flagged** (sizes ≥ 2): row `i` of the matrix with
    `stabilizer_coordinates[i]` a 4-tuple -/
theorem face_row_flagged (Lx Ly Lz : Nat) (hx : 2 ≤ Lx) (hy : 2 ≤ Ly) (hz : 2 ≤ Lz) (H : Mat)
    (hH : stabilizerMatrix (codeData Lx Ly Lz none) = some H) (i : Nat) (ax x y z : Int)
    (hi : (XCubeCode.stabs Lx Ly Lz)[i]? = some [ax, x, y, z]) (r : List Nat) (hr : H[i]? = some r) :
    xFlag_dec r = true := by
  have wf := XCubeCode.wf Lx Ly Lz hx hy hz
  unfold stabilizerMatrix at hH
  have hlt : i < (XCubeCode.stabs Lx Ly Lz).length := (List.getElem?_eq_some_iff.mp hi).1
  have hloc : (XCubeCode.stabs Lx Ly Lz)[i] = [ax, x, y, z] := (List.getElem?_eq_some_iff.mp hi).2
  have hops : (codeData Lx Ly Lz none).stabOps.length = (XCubeCode.stabs Lx Ly Lz).length := by
    simp [codeData, Lattice.toCodeData, XCubeCode.lattice]
  have hrow := mapM_some_getElem? _ _ _ hH i (by omega)
  rw [hr] at hrow
  have hop : (codeData Lx Ly Lz none).stabOps[i]'(by omega) = XCubeCode.getStab Lx Ly Lz [ax, x, y, z] := by
    simp only [codeData, Lattice.toCodeData, XCubeCode.lattice, List.getElem_map, hloc]
  rw [hop] at hrow
  have hmem : [ax, x, y, z] ∈ (XCubeCode.lattice Lx Ly Lz).stabs := by
    rw [← hloc]; exact List.getElem_mem _
  exact stabRow_xFlag_true _ _ _ hrow.symm (face_letters Lx Ly Lz ax x y z)
    (wf.stab_keys _ hmem) (wf.stab_nonempty _ hmem) (fun e he => (wf.stab_supported _ hmem e he).1)

/-- after `syndrome[x_indices] = 0` a non-zero entry sits on a cube -/
theorem marked_is_cube (Lx Ly Lz : Nat) (hx : 2 ≤ Lx) (hy : 2 ≤ Ly) (hz : 2 ≤ Lz) (s : Vec)
    (loc : Coord) (v : Nat)
    (hm : (loc, v) ∈ (XCubeCode.stabs Lx Ly Lz).zip
      (maskX ((stabilizerMatrix (codeData Lx Ly Lz none)).getD []) s))
    (hv : v ≠ 0) : ∃ x y z, loc = [x, y, z] ∧ XCubeCode.SC Lx Ly Lz x y z := by
  obtain ⟨i, hi⟩ := List.mem_iff_getElem?.mp hm
  rw [List.getElem?_zip_eq_some] at hi
  obtain ⟨hloc, hval⟩ := hi
  have hmem : loc ∈ XCubeCode.stabs Lx Ly Lz := List.mem_of_getElem? hloc
  rcases XCubeCode.mem_stabs_shape Lx Ly Lz loc hmem with ⟨x, y, z, rfl⟩ | ⟨ax, x, y, z, rfl⟩
  · exact ⟨x, y, z, rfl, (XCubeCode.mem_stabs_cube Lx Ly Lz x y z).mp hmem⟩
  · exfalso
    unfold maskX at hval
    rw [List.getElem?_zipWith_eq_some] at hval
    obtain ⟨m, v0, hmask, _, hv0⟩ := hval
    cases hH : stabilizerMatrix (codeData Lx Ly Lz none) with
    | none => rw [hH] at hmask; simp [xIndices] at hmask
    | some H =>
      rw [hH] at hmask
      simp only [Option.getD_some, xIndices_eq_dec, List.getElem?_map, Option.map_eq_some_iff] at hmask
      obtain ⟨r, hr, hflag⟩ := hmask
      have := face_row_flagged Lx Ly Lz hx hy hz H hH i ax x y z hloc r hr
      rw [this] at hflag
      subst hflag
      simp at hv0
      exact hv hv0.symm

/-! ### the `plane_syndrome` dicts -/

/-- the keys of `plane_syndrome[axis]` are the odd planes of the axis -/
def PsInv (d : XCubeDec W) (ps : Per (PlaneDict Vec)) : Prop :=
  ∀ a p, p ∈ keysOf (ps.get a) ↔ Lat3Db.R1 (2 * d.side a) p

theorem Per.get_set {α : Type} (p : Per α) (a b : Axis) (v : α) :
    (p.set a v).get b = if b = a then v else p.get b := by
  cases a <;> cases b <;> simp [Per.set, Per.get]

theorem psInv_empty (d : XCubeDec W) :
    PsInv d ⟨emptyPlanes d .x, emptyPlanes d .y, emptyPlanes d .z⟩ := by
  intro a p
  have key : ∀ (l : List Int) (v : Vec), ((l.map fun p => (p, v)).map (·.1)) = l := by
    intro l v
    rw [List.map_map]
    exact List.map_id'' (fun _ => rfl) l
  cases a <;> simp only [Per.get, keysOf, emptyPlanes] <;> rw [key, Lat3Db.mem_pyRange2_1]

theorem psInv_put (d : XCubeDec W) (ps : Per (PlaneDict Vec)) (h : PsInv d ps) (a : Axis) (k : Int)
    (v : Vec) : PsInv d (ps.set a ((ps.get a).put k v)) := by
  intro b p
  rw [Per.get_set]
  split
  · rename_i hb; subst hb; rw [keysOf_put]; exact h b p
  · exact h b p

/-- for a cube, the toric face key and the plane key exist for every axis -/
theorem errs_post_markStab (d : XCubeDec W) (g : Geom d) (ps : Per (PlaneDict Vec)) (hps : PsInv d ps)
    (x y z : Int) (hc : XCubeCode.SC d.Lx d.Ly d.Lz x y z) :
    Errs (markStab d ps [x, y, z] : Out W _) (fun _ => False) ∧
    Post (markStab d ps [x, y, z] : Out W _) (PsInv d) := by
  unfold markStab
  have hstep : ∀ (ps : Per (PlaneDict Vec)) (a : Axis), PsInv d ps →
      Errs ((let loc2 := tupleRemove [x, y, z] a.toNat
        Out.bind (orKeyError loc2 (qubitIndex? (d.toric.get a).stabs loc2)) fun idx =>
          let plane := [x, y, z].getD a.toNat 0
          Out.bind (orKeyError [plane] ((ps.get a).get? plane)) fun v =>
            Out.pure (ps.set a ((ps.get a).put plane (v.set idx 1)))) : Out W _) (fun _ => False) ∧
      Post ((let loc2 := tupleRemove [x, y, z] a.toNat
        Out.bind (orKeyError loc2 (qubitIndex? (d.toric.get a).stabs loc2)) fun idx =>
          let plane := [x, y, z].getD a.toNat 0
          Out.bind (orKeyError [plane] ((ps.get a).get? plane)) fun v =>
            Out.pure (ps.set a ((ps.get a).put plane (v.set idx 1)))) : Out W _) (PsInv d) := by
    intro ps a hps
    simp only
    unfold XCubeCode.SC Lat3Db.R1 at hc
    -- the toric face key
    have hface : tupleRemove [x, y, z] a.toNat ∈ (d.toric.get a).stabs := by
      rw [g.toric a, toricView_stabs]
      cases a <;>
        simp only [tupleRemove, Axis.toNat, List.eraseIdx_zero, List.eraseIdx_cons_succ, List.tail_cons,
          toricSizes] <;>
        rw [Toric2DCode.mem_stabs'] <;> right <;>
        unfold Toric2DCode.IsF Toric2DCode.InBox <;> omega
    -- the plane key
    have hplane : [x, y, z].getD a.toNat 0 ∈ keysOf (ps.get a) := by
      rw [hps a]
      unfold Lat3Db.R1
      cases a <;> simp [Axis.toNat, XCubeDec.side] <;> omega
    cases hqi : qubitIndex? (d.toric.get a).stabs (tupleRemove [x, y, z] a.toNat) with
    | none => exact absurd hface ((qubitIndex?_eq_none_iff _ _).mp hqi)
    | some idx =>
      obtain ⟨v, hv⟩ := get?_isSome_of_mem hplane
      rw [hv]
      simp only [orKeyError]
      constructor
      · refine errs_bind errs_pure fun _ _ => errs_bind errs_pure fun _ _ => errs_pure
      · refine post_bind (post_true _) fun _ _ => post_bind (post_true _) fun _ _ => post_pure ?_
        exact psInv_put d ps hps a _ _
  exact ⟨errs_forM' (PsInv d) (fun st a _ hst => hstep st a hst) ps hps,
    post_forM' (PsInv d) (fun st a _ hst => (hstep st a hst).2) ps hps⟩

/-- **slicing never raises** on the masked syndrome (sizes ≥ 2, undeformed code) -/
theorem errs_post_slicePlanes (d : XCubeDec W) (g : Geom d) (hx : 2 ≤ d.Lx) (hy : 2 ≤ d.Ly)
    (hz : 2 ≤ d.Lz) (hH : d.H = (stabilizerMatrix (codeData d.Lx d.Ly d.Lz none)).getD [])
    (s : Vec) (ps : Per (PlaneDict Vec)) (hps : PsInv d ps) :
    Errs (slicePlanes d (maskX d.H s) ps : Out W _) (fun _ => False) ∧
    Post (slicePlanes d (maskX d.H s) ps : Out W _) (PsInv d) := by
  unfold slicePlanes
  have hstep : ∀ (ps : Per (PlaneDict Vec)) (e : Coord × Nat), e ∈ d.stabs.zip (maskX d.H s) → PsInv d ps →
      Errs (if e.2 ≠ 0 then markStab d ps e.1 else (Out.pure ps : Out W _)) (fun _ => False) ∧
      Post (if e.2 ≠ 0 then markStab d ps e.1 else (Out.pure ps : Out W _)) (PsInv d) := by
    intro ps e he hps
    split
    · rename_i hv
      rw [g.stabs, hH] at he
      obtain ⟨x, y, z, hloc, hc⟩ := marked_is_cube d.Lx d.Ly d.Lz hx hy hz s e.1 e.2 he hv
      rw [hloc]
      exact errs_post_markStab d g ps hps x y z hc
    · exact ⟨errs_pure, post_pure hps⟩
  exact ⟨errs_forM' (PsInv d) (fun st a ha hst => hstep st a ha hst) ps hps,
    post_forM' (PsInv d) (fun st a ha hst => (hstep st a ha hst).2) ps hps⟩

end Panqec.XCube
