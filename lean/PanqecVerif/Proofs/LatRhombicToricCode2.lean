/-
RhombicToricCode lattice model: a cube operator and a triangle operator share an even number of
qubits, also across the periodic boundary (sizes even `≥ 2`: the colouring `(x+y+z) % 4` is
consistent across the wrap because the periods `2L` are multiples of 4); hence all pairs of
stabilizer generators commute.
-/
import PanqecVerif.Proofs.LatRhombicToricCode1
open Panqec Panqec.Lat3Db Panqec.Rhombic
open Panqec.XCubeCode (up dn up_spec dn_spec)
namespace Panqec.RhombicToricCode

/-- `v` is one of the two cyclic neighbours of the odd coordinate `c` -/
def A (P : Nat) (c v : Int) : Prop := v = up P c ∨ v = c - 1
instance (P : Nat) (c v : Int) : Decidable (A P c v) := by unfold A; infer_instance

theorem mem_cubeLocs (Lx Ly Lz : Nat) (x y z p q r : Int) :
    [p, q, r] ∈ cubeLocs Lx Ly Lz x y z ↔
      (r = z ∧ A (2*Lx) x p ∧ A (2*Ly) y q) ∨ (q = y ∧ A (2*Lx) x p ∧ A (2*Lz) z r) ∨
      (p = x ∧ A (2*Ly) y q ∧ A (2*Lz) z r) := by
  unfold cubeLocs A
  generalize up (2*Lx) x = xu
  generalize up (2*Ly) y = yu
  generalize up (2*Lz) z = zu
  simp only [List.mem_cons, List.cons.injEq, and_true, List.not_mem_nil, or_false]
  constructor
  · rintro (⟨rfl, rfl, rfl⟩ | ⟨rfl, rfl, rfl⟩ | ⟨rfl, rfl, rfl⟩ | ⟨rfl, rfl, rfl⟩ | ⟨rfl, rfl, rfl⟩ | ⟨rfl, rfl, rfl⟩ |
      ⟨rfl, rfl, rfl⟩ | ⟨rfl, rfl, rfl⟩ | ⟨rfl, rfl, rfl⟩ | ⟨rfl, rfl, rfl⟩ | ⟨rfl, rfl, rfl⟩ | ⟨rfl, rfl, rfl⟩) <;> simp
  · rintro (⟨rfl, (rfl | rfl), (rfl | rfl)⟩ | ⟨rfl, (rfl | rfl), (rfl | rfl)⟩ | ⟨rfl, (rfl | rfl), (rfl | rfl)⟩) <;> simp

/-- the cyclic offset from the even coordinate `v` to the odd coordinate `c`: `±1` for the two
    neighbours, `0` otherwise -/
def off (P : Nat) (v c : Int) : Int := if v + 1 = c then 1 else if dn P v = c then -1 else 0

/-! one-dimensional facts: even `v`, odd `c`, both in `[0, P)`, `4 ∣ P`, `P ≥ 4` -/

theorem A_iff_off (P : Nat) (c v : Int) (hP : P % 4 = 0) (_hP4 : 4 ≤ P) (hc : R1 P c) (hv : R0 P v) :
    A P c v ↔ U (off P v c) := by
  unfold A off U; unfold R1 at hc; unfold R0 at hv
  have := up_spec P c; have := dn_spec P v
  split
  · simp; omega
  · split
    · simp; omega
    · simp; omega

theorem step_eq_iff_off (P : Nat) (c v s : Int) (hP4 : 4 ≤ P) (hv : R0 P v) (hs : U s) :
    step P v s = c ↔ off P v c = s := by
  unfold step off; unfold R0 at hv
  have := dn_spec P v
  rcases hs with rfl | rfl
  · simp only [if_true]
    split
    · simp [*]
    · split <;> simp [*]
  · have h1 : ¬ ((-1 : Int) = 1) := by decide
    simp only [h1, if_false]
    split
    · constructor
      · intro h; omega
      · intro h; omega
    · split <;> simp [*]

theorem off_mod4 (P : Nat) (c v : Int) (hP : P % 4 = 0) (hv : R0 P v) (h : U (off P v c)) :
    c % 4 = (v + off P v c) % 4 := by
  unfold off at *; unfold U at h; unfold R0 at hv
  have := dn_spec P v
  split
  · omega
  · split
    · omega
    · rename_i h1 h2; simp [h1, h2] at h

section legs
variable {Lx Ly Lz : Nat} {vx vy vz cx cy cz sx sy sz : Int}

theorem legX_iff (hLx : 2 ≤ Lx) (hLy : 2 ≤ Ly) (hLz : 2 ≤ Lz) (hex : Lx % 2 = 0) (hey : Ly % 2 = 0)
    (hez : Lz % 2 = 0) (hvx : R0 (2*Lx) vx) (hvy : R0 (2*Ly) vy) (hvz : R0 (2*Lz) vz)
    (_hcx : R1 (2*Lx) cx) (hcy : R1 (2*Ly) cy) (hcz : R1 (2*Lz) cz) (hsx : U sx) :
    [step (2*Lx) vx sx, vy, vz] ∈ cubeKeys Lx Ly Lz cx cy cz ↔
      (off (2*Lx) vx cx = sx ∧ U (off (2*Ly) vy cy) ∧ U (off (2*Lz) vz cz)) := by
  have hq := step_spec (2*Lx) vx sx (by omega) hvx hsx
  have e1 := step_eq_iff_off (2*Lx) cx vx sx (by omega) hvx hsx
  have e2 := A_iff_off (2*Ly) cy vy (by omega) (by omega) hcy hvy
  have e3 := A_iff_off (2*Lz) cz vz (by omega) (by omega) hcz hvz
  unfold cubeKeys
  rw [List.mem_filter, mem_cubeLocs, isQubit_iff, e2, e3, e1]
  have n2 : ¬ vy = cy := by unfold R0 at hvy; unfold R1 at hcy; omega
  have n3 : ¬ vz = cz := by unfold R0 at hvz; unfold R1 at hcz; omega
  have hQ : QX Lx Ly Lz (step (2*Lx) vx sx) vy vz := ⟨hq, hvy, hvz⟩
  simp only [n2, n3, false_and, false_or, hQ, true_or, and_true]

theorem legY_iff (hLx : 2 ≤ Lx) (hLy : 2 ≤ Ly) (hLz : 2 ≤ Lz) (hex : Lx % 2 = 0) (hey : Ly % 2 = 0)
    (hez : Lz % 2 = 0) (hvx : R0 (2*Lx) vx) (hvy : R0 (2*Ly) vy) (hvz : R0 (2*Lz) vz)
    (hcx : R1 (2*Lx) cx) (_hcy : R1 (2*Ly) cy) (hcz : R1 (2*Lz) cz) (hsy : U sy) :
    [vx, step (2*Ly) vy sy, vz] ∈ cubeKeys Lx Ly Lz cx cy cz ↔
      (off (2*Ly) vy cy = sy ∧ U (off (2*Lx) vx cx) ∧ U (off (2*Lz) vz cz)) := by
  have hq := step_spec (2*Ly) vy sy (by omega) hvy hsy
  have e1 := step_eq_iff_off (2*Ly) cy vy sy (by omega) hvy hsy
  have e2 := A_iff_off (2*Lx) cx vx (by omega) (by omega) hcx hvx
  have e3 := A_iff_off (2*Lz) cz vz (by omega) (by omega) hcz hvz
  unfold cubeKeys
  rw [List.mem_filter, mem_cubeLocs, isQubit_iff, e2, e3, e1]
  have n1 : ¬ vx = cx := by unfold R0 at hvx; unfold R1 at hcx; omega
  have n3 : ¬ vz = cz := by unfold R0 at hvz; unfold R1 at hcz; omega
  have hQ : QY Lx Ly Lz vx (step (2*Ly) vy sy) vz := ⟨hvx, hq, hvz⟩
  simp only [n1, n3, false_and, false_or, or_false, hQ, true_or, or_true, and_true]

theorem legZ_iff (hLx : 2 ≤ Lx) (hLy : 2 ≤ Ly) (hLz : 2 ≤ Lz) (hex : Lx % 2 = 0) (hey : Ly % 2 = 0)
    (hez : Lz % 2 = 0) (hvx : R0 (2*Lx) vx) (hvy : R0 (2*Ly) vy) (hvz : R0 (2*Lz) vz)
    (hcx : R1 (2*Lx) cx) (hcy : R1 (2*Ly) cy) (_hcz : R1 (2*Lz) cz) (hsz : U sz) :
    [vx, vy, step (2*Lz) vz sz] ∈ cubeKeys Lx Ly Lz cx cy cz ↔
      (off (2*Lz) vz cz = sz ∧ U (off (2*Lx) vx cx) ∧ U (off (2*Ly) vy cy)) := by
  have hq := step_spec (2*Lz) vz sz (by omega) hvz hsz
  have e1 := step_eq_iff_off (2*Lz) cz vz sz (by omega) hvz hsz
  have e2 := A_iff_off (2*Lx) cx vx (by omega) (by omega) hcx hvx
  have e3 := A_iff_off (2*Ly) cy vy (by omega) (by omega) hcy hvy
  unfold cubeKeys
  rw [List.mem_filter, mem_cubeLocs, isQubit_iff, e2, e3, e1]
  have n1 : ¬ vx = cx := by unfold R0 at hvx; unfold R1 at hcx; omega
  have n2 : ¬ vy = cy := by unfold R0 at hvy; unfold R1 at hcy; omega
  have hQ : QZ Lx Ly Lz vx vy (step (2*Lz) vz sz) := ⟨hvx, hvy, hq⟩
  simp only [n1, n2, false_and, or_false, hQ, or_true, and_true]

end legs

/-- a triangle and a cube share an even number of qubits -/
theorem tri_cube_even (Lx Ly Lz : Nat) (hLx : 2 ≤ Lx) (hLy : 2 ≤ Ly) (hLz : 2 ≤ Lz)
    (hex : Lx % 2 = 0) (hey : Ly % 2 = 0) (hez : Lz % 2 = 0) (a vx vy vz cx cy cz : Int)
    (hv : ST Lx Ly Lz a vx vy vz) (hc : SC Lx Ly Lz cx cy cz) :
    ovl (triKeys Lx Ly Lz a vx vy vz) (cubeKeys Lx Ly Lz cx cy cz) % 2 = 0 := by
  obtain ⟨ha, hvx, hvy, hvz⟩ := hv
  obtain ⟨hcx, hcy, hcz, hp⟩ := hc
  have hsx : U (sgnX a) := sgnX_pm a
  have hsy : U (sgnY a) := sgnY_pm a
  have hsz : U (sgnZ a vx vy vz) := sgnZ_pm a vx vy vz
  have hpar := sgn_parity a vx vy vz ha hvx.1 hvy.1 hvz.1
  unfold triKeys
  have : cubeKeys Lx Ly Lz cx cy cz = (cubeLocs Lx Ly Lz cx cy cz).filter (isQubit Lx Ly Lz) := rfl
  rw [this, ovl_filter_filter, ← this]
  unfold triLocs
  simp only [ovl_cons_ind, ovl_nil]
  generalize sgnX a = sx at *
  generalize sgnY a = sy at *
  generalize sgnZ a vx vy vz = sz at *
  rw [ind_congr (legX_iff hLx hLy hLz hex hey hez hvx hvy hvz hcx hcy hcz hsx),
    ind_congr (legY_iff hLx hLy hLz hex hey hez hvx hvy hvz hcx hcy hcz hsy),
    ind_congr (legZ_iff hLx hLy hLz hex hey hez hvx hvy hvz hcx hcy hcz hsz)]
  have m1 := off_mod4 (2*Lx) cx vx (by omega) hvx
  have m2 := off_mod4 (2*Ly) cy vy (by omega) hvy
  have m3 := off_mod4 (2*Lz) cz vz (by omega) hvz
  generalize off (2*Lx) vx cx = dx at *
  generalize off (2*Ly) vy cy = dy at *
  generalize off (2*Lz) vz cz = dz at *
  have := legs_even dx dy dz sx sy sz hsx hsy hsz (fun h1 h2 h3 => by
    have := m1 h1; have := m2 h2; have := m3 h3; omega)
  omega

/-! ### every stabilizer is a constant-letter operator; all pairs commute -/

def IsCubeKeys (Lx Ly Lz : Nat) (k : List Coord) : Prop :=
  ∃ x y z, SC Lx Ly Lz x y z ∧ k = cubeKeys Lx Ly Lz x y z

def IsTriKeys (Lx Ly Lz : Nat) (k : List Coord) : Prop :=
  ∃ a x y z, ST Lx Ly Lz a x y z ∧ k = triKeys Lx Ly Lz a x y z

section
variable {Lx Ly Lz : Nat} (hLx : 2 ≤ Lx) (hLy : 2 ≤ Ly) (hLz : 2 ≤ Lz)
include hLx hLy hLz

theorem IsCubeKeys.nodup {k : List Coord} (h : IsCubeKeys Lx Ly Lz k) : k.Nodup := by
  obtain ⟨x, y, z, hc, rfl⟩ := h; exact nodup_cubeKeys Lx Ly Lz x y z hLx hLy hLz hc

theorem getStab_cases (s : Coord) (hs : s ∈ stabs Lx Ly Lz) :
    (∃ k, IsCubeKeys Lx Ly Lz k ∧ getStab Lx Ly Lz s = constOp k Pauli.X) ∨
    (∃ k, IsTriKeys Lx Ly Lz k ∧ getStab Lx Ly Lz s = constOp k Pauli.Z) := by
  rcases mem_stabs_shape Lx Ly Lz s hs with ⟨x, y, z, rfl⟩ | ⟨a, x, y, z, rfl⟩
  · have h := (mem_stabs_cube Lx Ly Lz x y z).mp hs
    exact Or.inl ⟨_, ⟨x, y, z, h, rfl⟩, getStab_cube Lx Ly Lz x y z hLx hLy hLz h⟩
  · have h := (mem_stabs_tri Lx Ly Lz a x y z).mp hs
    exact Or.inr ⟨_, ⟨a, x, y, z, h, rfl⟩, getStab_tri Lx Ly Lz a x y z h⟩

end

theorem IsTriKeys.nodup {Lx Ly Lz : Nat} {k : List Coord} (h : IsTriKeys Lx Ly Lz k) : k.Nodup := by
  obtain ⟨a, x, y, z, hv, rfl⟩ := h; exact nodup_triKeys Lx Ly Lz a x y z hv

theorem stab_comm (Lx Ly Lz : Nat) (hLx : 2 ≤ Lx) (hLy : 2 ≤ Ly) (hLz : 2 ≤ Lz)
    (hex : Lx % 2 = 0) (hey : Ly % 2 = 0) (hez : Lz % 2 = 0) (s t : Coord)
    (hs : s ∈ stabs Lx Ly Lz) (ht : t ∈ stabs Lx Ly Lz) :
    opCommute (getStab Lx Ly Lz s) (getStab Lx Ly Lz t) = true := by
  have key : ∀ kt kc, IsTriKeys Lx Ly Lz kt → IsCubeKeys Lx Ly Lz kc → ovl kt kc % 2 = 0 := by
    rintro kt kc ⟨a, x, y, z, hv, rfl⟩ ⟨cx, cy, cz, hc, rfl⟩
    exact tri_cube_even Lx Ly Lz hLx hLy hLz hex hey hez a x y z cx cy cz hv hc
  rcases getStab_cases hLx hLy hLz s hs with ⟨k, hk, e⟩ | ⟨k, hk, e⟩ <;>
  rcases getStab_cases hLx hLy hLz t ht with ⟨k', hk', e'⟩ | ⟨k', hk', e'⟩ <;> rw [e, e']
  · exact opCommute_constOp_same _ _ _
  · exact opCommute_of_ovl_even' _ _ _ _ (hk.nodup hLx hLy hLz) hk'.nodup (key _ _ hk' hk)
  · exact opCommute_of_ovl_even _ _ _ _ (key _ _ hk hk')
  · exact opCommute_constOp_same _ _ _

end Panqec.RhombicToricCode
