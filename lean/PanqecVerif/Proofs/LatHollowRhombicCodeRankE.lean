/-
`HollowRhombicCode`, rank clause, part E: the cubes.  The probe of a cube is one of its edges and
a qubit; a cube other than `s` whose rank is not smaller than that of `s` does not contain the
probe of `s` (an x or y edge of the layer `z ∓ 1` belongs to two cubes of the checkerboard, in the
layers `z` and `z ∓ 2`).  Core Lean only.
-/
import PanqecVerif.Proofs.LatHollowRhombicCodeRankB

set_option linter.unusedVariables false
set_option linter.unusedSimpArgs false

namespace Panqec.HollowRhombicCode
open Panqec.Cubic3D
open Panqec.Planar3DCode (inE inO inE2 inO1)

section
variable {Lx Ly Lz : Nat} {x y z u v w : Int}

theorem isq_x {p q r : Int} (hp : p % 2 = 1) (hq : q % 2 = 0) (hr : r % 2 = 0) :
    isq Lx Ly Lz [p, q, r] = true ↔ Qx Lx Ly Lz p q r := by
  rw [isq_iff, mem_qubits_x hp hq hr]
theorem isq_y {p q r : Int} (hp : p % 2 = 0) (hq : q % 2 = 1) (hr : r % 2 = 0) :
    isq Lx Ly Lz [p, q, r] = true ↔ Qy Lx Ly Lz p q r := by
  rw [isq_iff, mem_qubits_y hp hq hr]

/-- an x edge of a cube location that is not a qubit points out of the lattice in `y` or lies in the
    hole -/
theorem nqx {p q r : Int} (hp : 1 ≤ p ∧ p < 2 * (Lx : Int)) (hr : 0 ≤ r ∧ r < 2 * (Lz : Int))
    (h : ¬ Qx Lx Ly Lz p q r) : q < 0 ∨ 2 * (Ly : Int) ≤ q ∨ Hole Lx Ly Lz p q r := by
  by_contra hc
  apply h
  unfold Qx
  refine ⟨by omega, by omega, by omega, by omega, by omega, by omega, fun hh => hc (Or.inr (Or.inr hh))⟩

/-- a y edge of a cube location that is not a qubit points out of the lattice or lies in the hole -/
theorem nqy {p q r : Int} (hr : 0 ≤ r ∧ r < 2 * (Lz : Int))
    (h : ¬ Qy Lx Ly Lz p q r) :
    p < 2 ∨ 2 * (Lx : Int) ≤ p ∨ q < 1 ∨ 2 * (Ly : Int) - 1 ≤ q ∨ Hole Lx Ly Lz p q r := by
  by_contra hc
  apply h
  unfold Qy
  refine ⟨by omega, by omega, by omega, by omega, by omega, by omega,
    fun hh => hc (Or.inr (Or.inr (Or.inr (Or.inr hh))))⟩

/-- the probe of a cube is one of its edges and a qubit -/
theorem cubeProbe_mem (hy : 1 ≤ Ly) (hc : CubeLoc Lx Ly Lz x y z) :
    cubeProbe Lx Ly Lz x y z ∈ cubeKeys Lx Ly Lz x y z := by
  have hc' := hc
  obtain ⟨hx, hyy, hz, hcol, hcorner⟩ := hc'
  have par : x % 2 = 1 ∧ y % 2 = 1 ∧ z % 2 = 1 := ⟨hx.2.2, hyy.2.2, hz.2.2⟩
  unfold cubeKeys cubeProbe
  split
  · rename_i htop
    split
    · rename_i h1
      rw [List.mem_filter]
      exact ⟨(mem_cubeCands_x par (by omega) (by omega) (by omega)).mpr (by omega), h1⟩
    · rename_i h1
      rw [List.mem_filter]
      refine ⟨(mem_cubeCands_x par (by omega) (by omega) (by omega)).mpr (by omega), ?_⟩
      rw [isq_x (by omega) (by omega) (by omega)] at h1 ⊢
      have h1' := nqx (by omega) (by omega) h1
      unfold Hole at h1'
      unfold Qx Hole
      omega
  · rename_i htop
    split
    · rename_i h1
      rw [List.mem_filter]
      exact ⟨(mem_cubeCands_x par (by omega) (by omega) (by omega)).mpr (by omega), h1⟩
    · rename_i h1
      split
      · rename_i h2
        rw [List.mem_filter]
        exact ⟨(mem_cubeCands_x par (by omega) (by omega) (by omega)).mpr (by omega), h2⟩
      · rename_i h2
        split
        · rename_i h3
          rw [List.mem_filter]
          exact ⟨(mem_cubeCands_y par (by omega) (by omega) (by omega)).mpr (by omega), h3⟩
        · rename_i h3
          split
          · rename_i h4
            rw [List.mem_filter]
            exact ⟨(mem_cubeCands_y par (by omega) (by omega) (by omega)).mpr (by omega), h4⟩
          · rename_i h4
            split
            · rename_i h5
              rw [List.mem_filter]
              exact ⟨(mem_cubeCands_x par (by omega) (by omega) (by omega)).mpr (by omega), h5⟩
            · rename_i h5
              rw [List.mem_filter]
              refine ⟨(mem_cubeCands_x par (by omega) (by omega) (by omega)).mpr (by omega), ?_⟩
              rw [isq_x (by omega) (by omega) (by omega)] at h1 h2 h5 ⊢
              rw [isq_y (by omega) (by omega) (by omega)] at h3 h4
              have h1' := nqx (by omega) (by omega) h1
              have h2' := nqx (by omega) (by omega) h2
              have h3' := nqy (by omega) h3
              have h4' := nqy (by omega) h4
              have h5' := nqx (by omega) (by omega) h5
              unfold Hole at h1' h2' h3' h4' h5' hcorner
              unfold Qx Hole
              omega

/-- the rank of a cube -/
theorem mu_cube (Ly Lz : Nat) (x y z : Int) :
    mu Ly Lz [x, y, z] = if z = 2 * (Lz : Int) - 3 then 0 else z.toNat := rfl

/-- a cube of the checkerboard other than `s` whose rank is not smaller does not contain the probe
    of `s` -/
theorem later_cube (hy : 1 ≤ Ly) (hs : CubeLoc Lx Ly Lz x y z) (ht : CubeLoc Lx Ly Lz u v w)
    (hne : ¬ (x = u ∧ y = v ∧ z = w)) (hle : mu Ly Lz [x, y, z] ≤ mu Ly Lz [u, v, w])
    (hmem : cubeProbe Lx Ly Lz x y z ∈ cubeKeys Lx Ly Lz u v w) : False := by
  obtain ⟨hx, hyy, hz, hcol, hcorner⟩ := hs
  obtain ⟨hu, hv, hw, hcol', _⟩ := ht
  have par : u % 2 = 1 ∧ v % 2 = 1 ∧ w % 2 = 1 := ⟨hu.2.2, hv.2.2, hw.2.2⟩
  rw [mu_cube, mu_cube] at hle
  unfold cubeKeys at hmem
  unfold cubeProbe at hmem
  split at hmem
  · rename_i htop
    rw [if_pos htop] at hle
    split at hmem
    · have := (mem_cubeCands_x par (by omega) (by omega) (by omega)).mp (List.mem_filter.mp hmem).1
      omega
    · have := (mem_cubeCands_x par (by omega) (by omega) (by omega)).mp (List.mem_filter.mp hmem).1
      omega
  · rename_i htop
    rw [if_neg htop] at hle
    split at hmem
    · have := (mem_cubeCands_x par (by omega) (by omega) (by omega)).mp (List.mem_filter.mp hmem).1
      split at hle <;> omega
    · rename_i h1
      split at hmem
      · have := (mem_cubeCands_x par (by omega) (by omega) (by omega)).mp (List.mem_filter.mp hmem).1
        split at hle <;> omega
      · rename_i h2
        split at hmem
        · have := (mem_cubeCands_y par (by omega) (by omega) (by omega)).mp (List.mem_filter.mp hmem).1
          split at hle <;> omega
        · rename_i h3
          split at hmem
          · have := (mem_cubeCands_y par (by omega) (by omega) (by omega)).mp (List.mem_filter.mp hmem).1
            split at hle <;> omega
          · rename_i h4
            rw [isq_x (by omega) (by omega) (by omega)] at h1 h2
            rw [isq_y (by omega) (by omega) (by omega)] at h3 h4
            have h1' := nqx (by omega) (by omega) h1
            have h2' := nqx (by omega) (by omega) h2
            have h3' := nqy (by omega) h3
            have h4' := nqy (by omega) h4
            unfold Hole at h1' h2' h3' h4' hcorner
            split at hmem
            · have := (mem_cubeCands_x par (by omega) (by omega) (by omega)).mp (List.mem_filter.mp hmem).1
              split at hle <;> omega
            · have := (mem_cubeCands_x par (by omega) (by omega) (by omega)).mp (List.mem_filter.mp hmem).1
              split at hle <;> omega

end

end Panqec.HollowRhombicCode
