/-
HollowPlanar3DCode, all sizes, C17 (1/2): parity statements.  An operator `b` that commutes with
every stabilizer generator meets every cross-section `x = 2i + 1` of the EXISTING x edges (Z
component) with the same parity as the plane `x = 1` (slab of vertex generators; a vertex location
in the hole has no generator, but then none of its six neighbours is a qubit), and every x line
`(y, z)` outside the hole (X component) with the same parity as the line `(0, 0)`: a line with
`y` outside the y-range of the hole is moved in `z` through xz faces (none of them in the hole) and
then in `y` in the layer `z = 0`; a line with `z` outside the z-range of the hole is moved in `y`
first, then in `z` at `y = 0`.  Indicators are restricted to the qubits of THIS lattice (`0` on a
location in the hole).
-/
import PanqecVerif.Proofs.DistPlanar3DCode
import PanqecVerif.Proofs.LatHollowPlanar3DCodeWF

namespace Panqec.HollowPlanar3DCode
open Panqec.Cubic3D Panqec.Lat2D
open Panqec.Planar3DCode (inE inO inE2 inO1 isVertex isFaceXY isFaceYZ isFaceXZ isq isq_iff
  lxK lzK lineX planeX mem_lineX mem_planeX ite_and_bool)

/-- indicator restricted to the qubits of the hollow lattice: `0` outside the lattice and in
    the hole -/
def indQ (Lx Ly Lz : Nat) (P : Pauli) (b : Op) (q : Coord) : Nat :=
  if isq Lx Ly Lz q = true then (if notHoleC Lx Ly Lz q = true then ind P b q else 0) else 0

theorem indQ_of {Lx Ly Lz : Nat} {q : Coord} (P : Pauli) (b : Op) (h : q ∈ qubits Lx Ly Lz) :
    indQ Lx Ly Lz P b q = ind P b q := by
  rw [qubits_eq, List.mem_filter] at h
  unfold indQ; rw [if_pos (isq_iff.mpr h.1), if_pos h.2]

theorem indQ_of_not {Lx Ly Lz : Nat} {q : Coord} (P : Pauli) (b : Op)
    (h : q ∉ qubits Lx Ly Lz) : indQ Lx Ly Lz P b q = 0 := by
  unfold indQ
  by_cases h1 : isq Lx Ly Lz q = true
  · rw [if_pos h1]
    by_cases h2 : notHoleC Lx Ly Lz q = true
    · exact absurd (by rw [qubits_eq, List.mem_filter]; exact ⟨isq_iff.mp h1, h2⟩) h
    · rw [if_neg h2]
  · rw [if_neg h1]

/-- `b` commutes with every stabilizer generator of the lattice -/
def CommStabs (Lx Ly Lz : Nat) (b : Op) : Prop :=
  ∀ s ∈ (lattice Lx Ly Lz).stabs, opAntiCount ((lattice Lx Ly Lz).getStab s) b % 2 = 0

variable {Lx Ly Lz : Nat}

/-! ### one generator (neighbours given by name) -/

theorem vertex_even {b : Op} (hb : CommStabs Lx Ly Lz b) {x y z : Int}
    (hv : isVertex Lx Ly Lz x y z) (hn : ¬ Hole Lx Ly Lz x y z)
    {xm xp ym yp zm zp : Int} (e1 : x + 1 = xp) (e2 : x - 1 = xm)
    (e3 : y + 1 = yp) (e4 : y - 1 = ym) (e5 : z + 1 = zp) (e6 : z - 1 = zm) :
    (indQ Lx Ly Lz Pauli.Z b [xp, y, z] + indQ Lx Ly Lz Pauli.Z b [xm, y, z]
      + indQ Lx Ly Lz Pauli.Z b [x, yp, z] + indQ Lx Ly Lz Pauli.Z b [x, ym, z]
      + indQ Lx Ly Lz Pauli.Z b [x, y, zp] + indQ Lx Ly Lz Pauli.Z b [x, y, zm]) % 2 = 0 := by
  have h := hb [x, y, z] (by
    rw [lattice_stabs, mem_stabs]; exact ⟨Planar3DCode.mem_stabs.mpr (Or.inl hv), hn⟩)
  rw [lattice_getStab, getStab_vertex hv hn, opAntiCount_uop_hit] at h
  subst e1 e2 e3 e4 e5 e6
  unfold vertexKeys Planar3DCode.vertexKeys Planar3DCode.vertexCands at h
  rw [List.countP_filter, List.countP_filter] at h
  simp only [List.countP_cons, List.countP_nil, ite_and_bool] at h
  unfold indQ ind
  omega

theorem faceXY_even {b : Op} (hb : CommStabs Lx Ly Lz b) {x y z : Int}
    (hv : isFaceXY Lx Ly Lz x y z) (hn : ¬ Hole Lx Ly Lz x y z)
    {xm xp ym yp : Int} (e1 : x - 1 = xm) (e2 : x + 1 = xp)
    (e3 : y - 1 = ym) (e4 : y + 1 = yp) :
    (indQ Lx Ly Lz Pauli.X b [xm, y, z] + indQ Lx Ly Lz Pauli.X b [xp, y, z]
      + indQ Lx Ly Lz Pauli.X b [x, ym, z] + indQ Lx Ly Lz Pauli.X b [x, yp, z]) % 2 = 0 := by
  have h := hb [x, y, z] (by
    rw [lattice_stabs, mem_stabs]; exact ⟨Planar3DCode.mem_stabs.mpr (Or.inr (Or.inl hv)), hn⟩)
  rw [lattice_getStab, getStab_faceXY hv hn, opAntiCount_uop_hit] at h
  subst e1 e2 e3 e4
  unfold faceXYKeys Planar3DCode.faceXYKeys Planar3DCode.faceXYCands at h
  rw [List.countP_filter, List.countP_filter] at h
  simp only [List.countP_cons, List.countP_nil, ite_and_bool] at h
  unfold indQ ind
  omega

theorem faceXZ_even {b : Op} (hb : CommStabs Lx Ly Lz b) {x y z : Int}
    (hv : isFaceXZ Lx Ly Lz x y z) (hn : ¬ Hole Lx Ly Lz x y z)
    {xm xp zm zp : Int} (e1 : x - 1 = xm) (e2 : x + 1 = xp)
    (e3 : z - 1 = zm) (e4 : z + 1 = zp) :
    (indQ Lx Ly Lz Pauli.X b [xm, y, z] + indQ Lx Ly Lz Pauli.X b [xp, y, z]
      + indQ Lx Ly Lz Pauli.X b [x, y, zm] + indQ Lx Ly Lz Pauli.X b [x, y, zp]) % 2 = 0 := by
  have h := hb [x, y, z] (by
    rw [lattice_stabs, mem_stabs]
    exact ⟨Planar3DCode.mem_stabs.mpr (Or.inr (Or.inr (Or.inr hv))), hn⟩)
  rw [lattice_getStab, getStab_faceXZ hv hn, opAntiCount_uop_hit] at h
  subst e1 e2 e3 e4
  unfold faceXZKeys Planar3DCode.faceXZKeys Planar3DCode.faceXZCands at h
  rw [List.countP_filter, List.countP_filter] at h
  simp only [List.countP_cons, List.countP_nil, ite_and_bool] at h
  unfold indQ ind
  omega

/-! ### cross-sections and lines -/

/-- the existing x edges of the cross-section `x = 2i + 1` (the plane of `Planar3DCode` minus the
    hole) -/
def crossX (Lx Ly Lz : Nat) (i : Nat) : List Coord :=
  (planeX Ly Lz i).filter (notHoleC Lx Ly Lz)

theorem notq {x y z : Int} (h : ¬ ((inO1 Lx x ∧ inE Ly y ∧ inE Lz z) ∨
    (inE2 Lx x ∧ inO Ly y ∧ inE Lz z) ∨ (inE2 Lx x ∧ inE Ly y ∧ inO Lz z))) :
    [x, y, z] ∉ qubits Lx Ly Lz := fun hq => h (Planar3DCode.mem_qubits.mp (qubits_sub hq))

theorem notq_hole {x y z : Int} (h : Hole Lx Ly Lz x y z) : [x, y, z] ∉ qubits Lx Ly Lz :=
  fun hq => (mem_qubits.mp hq).2 h

/-- the count of a cross-section as a double sum of restricted indicators -/
theorem countP_crossX (P : Pauli) (b : Op) {i : Nat} (hi : i < Lx) :
    (crossX Lx Ly Lz i).countP (opHit P b) =
      rsum2 Ly Lz (fun j k => indQ Lx Ly Lz P b [2 * (i : Int) + 1, 2 * (j : Int), 2 * (k : Int)]) := by
  unfold crossX planeX
  rw [List.countP_filter, countP_planeE]
  apply rsum2_congr
  intro j k hj hk
  have hq : isq Lx Ly Lz [2 * (i : Int) + 1, 2 * (j : Int), 2 * (k : Int)] = true := by
    rw [isq_iff, Planar3DCode.mem_qubits]
    simp only [inO1, inE, inE2, inO]; omega
  unfold indQ ind
  rw [if_pos hq, ite_and_bool]

/-- `Z̄`: cross-sections `x = 2i + 1`, through the slab of vertices at `x = 2i + 2` -/
theorem parity_Z {b : Op} (hb : CommStabs Lx Ly Lz b) (i : Nat) (hi : i < Lx) :
    (crossX Lx Ly Lz i).countP (opHit Pauli.Z b) % 2 =
      (crossX Lx Ly Lz 0).countP (opHit Pauli.Z b) % 2 := by
  rw [countP_crossX _ _ hi, countP_crossX _ _ (show 0 < Lx by omega)]
  have h := slab_open Lx Ly Lz (fun u v w => indQ Lx Ly Lz Pauli.Z b [u, v, w]) ?_ ?_ ?_ ?_ ?_ i hi
  · simpa using h
  · intro i k; exact indQ_of_not _ _ (notq (by simp only [inO1, inE, inE2, inO]; omega))
  · intro i k; exact indQ_of_not _ _ (notq (by simp only [inO1, inE, inE2, inO]; omega))
  · intro i j; exact indQ_of_not _ _ (notq (by simp only [inO1, inE, inE2, inO]; omega))
  · intro i j; exact indQ_of_not _ _ (notq (by simp only [inO1, inE, inE2, inO]; omega))
  · intro i j k hi hj hk
    by_cases hn : Hole Lx Ly Lz (2 * (i : Int) + 2) (2 * (j : Int)) (2 * (k : Int))
    · -- no generator at a vertex location in the hole: its six neighbours are in the hole too
      have hn' := hn
      unfold Hole at hn'
      rw [indQ_of_not _ _ (notq_hole (x := 2 * (i : Int) + 1) (by unfold Hole; omega)),
        indQ_of_not _ _ (notq_hole (x := 2 * (i : Int) + 3) (by unfold Hole; omega)),
        indQ_of_not _ _ (notq_hole (y := 2 * (j : Int) - 1) (by unfold Hole; omega)),
        indQ_of_not _ _ (notq_hole (y := 2 * (j : Int) + 1) (by unfold Hole; omega)),
        indQ_of_not _ _ (notq_hole (z := 2 * (k : Int) - 1) (by unfold Hole; omega)),
        indQ_of_not _ _ (notq_hole (z := 2 * (k : Int) + 1) (by unfold Hole; omega))]
    · have hv : isVertex Lx Ly Lz (2 * (i : Int) + 2) (2 * (j : Int)) (2 * (k : Int)) := by
        simp only [isVertex, inE, inE2]; omega
      have h := vertex_even hb hv hn (xp := 2 * (i : Int) + 3) (xm := 2 * (i : Int) + 1)
        (yp := 2 * (j : Int) + 1) (ym := 2 * (j : Int) - 1) (zp := 2 * (k : Int) + 1)
        (zm := 2 * (k : Int) - 1) (by omega) (by omega) rfl rfl rfl rfl
      omega

theorem lineX_sub {j k : Nat} (hj : j < Ly) (hk : k < Lz)
    (hfree : ∀ x, ¬ Hole Lx Ly Lz x (2 * (j : Int)) (2 * (k : Int))) :
    ∀ q ∈ lineX Lx j k, q ∈ qubits Lx Ly Lz := by
  intro q hq
  obtain ⟨x, hx, rfl⟩ := mem_lineX.mp hq
  rw [mem_qubits, Planar3DCode.mem_qubits]
  refine ⟨?_, hfree x⟩
  simp only [inO1, inE, inE2, inO] at hx ⊢
  omega

/-- `X̄`, moving `z` along a column `y = 2j` that misses the hole: lines `(y, z) = (2j, 2i)`,
    through the xz faces at `z = 2i + 1` -/
theorem parity_Xz {b : Op} (hb : CommStabs Lx Ly Lz b) (j : Nat) (hj : j < Ly)
    (hfree : ∀ x z, ¬ Hole Lx Ly Lz x (2 * (j : Int)) z) (i : Nat) (hi : i < Lz) :
    (lineX Lx j i).countP (opHit Pauli.X b) % 2 = (lineX Lx j 0).countP (opHit Pauli.X b) % 2 := by
  unfold lineX
  rw [countP_lineO1, countP_lineO1]
  have h := ladder_open 0 1 Lz Lx (fun u w => indQ Lx Ly Lz Pauli.X b [w, 2 * (j : Int), u])
    ?_ ?_ ?_ i hi
  · have e1 : rsum Lx (fun a =>
          if opHit Pauli.X b [2 * (a : Int) + 1, 2 * (j : Int), 2 * (i : Int)] = true then 1 else 0) =
        rsum Lx (fun a =>
          indQ Lx Ly Lz Pauli.X b [2 * (a : Int) + 1, 2 * (j : Int), 2 * (i : Int) + 0]) :=
      rsum_congr Lx (fun a ha => by
        rw [Int.add_zero, indQ_of _ _ (lineX_sub hj hi (fun x => hfree x _) _ (mem_lineX.mpr ⟨_, by
          simp only [inO1]; omega, rfl⟩))]
        rfl)
    have e2 : rsum Lx (fun a =>
          if opHit Pauli.X b [2 * (a : Int) + 1, 2 * (j : Int), 2 * ((0 : Nat) : Int)] = true
            then 1 else 0) =
        rsum Lx (fun a => indQ Lx Ly Lz Pauli.X b [2 * (a : Int) + 1, 2 * (j : Int), 0]) :=
      rsum_congr Lx (fun a ha => by
        rw [indQ_of (q := [2 * (a : Int) + 1, 2 * (j : Int), 0]) _ _
          (lineX_sub hj (k := 0) (by omega) (fun x => hfree x _) _ (mem_lineX.mpr ⟨_, by
          simp only [inO1]; omega, rfl⟩))]
        rfl)
    rw [e1, e2]
    exact h
  · intro i; exact indQ_of_not _ _ (notq (by simp only [inO1, inE, inE2, inO]; omega))
  · intro i; exact indQ_of_not _ _ (notq (by simp only [inO1, inE, inE2, inO]; omega))
  · intro i a hi ha
    have hf : isFaceXZ Lx Ly Lz (2 * (a : Int) + 1) (2 * (j : Int)) (2 * (i : Int) + 0 + 1) := by
      simp only [isFaceXZ, inO1, inE, inO]; omega
    have h := faceXZ_even hb hf (hfree _ _) (xm := 2 * (a : Int) + 1 - 1)
      (xp := 2 * (a : Int) + 1 + 1)
      (zm := 2 * (i : Int) + 0) (zp := 2 * (i : Int) + 0 + 2) rfl rfl (by omega) (by omega)
    omega

/-- `X̄`, moving `y` in a layer `z = 2k` that misses the hole: lines `(y, z) = (2i, 2k)`, through
    the xy faces at `y = 2i + 1` -/
theorem parity_Xy {b : Op} (hb : CommStabs Lx Ly Lz b) (k : Nat) (hk : k < Lz)
    (hfree : ∀ x y, ¬ Hole Lx Ly Lz x y (2 * (k : Int))) (i : Nat) (hi : i < Ly) :
    (lineX Lx i k).countP (opHit Pauli.X b) % 2 = (lineX Lx 0 k).countP (opHit Pauli.X b) % 2 := by
  unfold lineX
  rw [countP_lineO1, countP_lineO1]
  have h := ladder_open 0 1 Ly Lx (fun u w => indQ Lx Ly Lz Pauli.X b [w, u, 2 * (k : Int)])
    ?_ ?_ ?_ i hi
  · have e1 : rsum Lx (fun a =>
          if opHit Pauli.X b [2 * (a : Int) + 1, 2 * (i : Int), 2 * (k : Int)] = true
            then 1 else 0) =
        rsum Lx (fun a =>
          indQ Lx Ly Lz Pauli.X b [2 * (a : Int) + 1, 2 * (i : Int) + 0, 2 * (k : Int)]) :=
      rsum_congr Lx (fun a ha => by
        rw [Int.add_zero, indQ_of _ _ (lineX_sub hi hk (fun x => hfree x _) _ (mem_lineX.mpr ⟨_, by
          simp only [inO1]; omega, rfl⟩))]
        rfl)
    have e2 : rsum Lx (fun a =>
          if opHit Pauli.X b [2 * (a : Int) + 1, 2 * ((0 : Nat) : Int), 2 * (k : Int)] = true
            then 1 else 0) =
        rsum Lx (fun a => indQ Lx Ly Lz Pauli.X b [2 * (a : Int) + 1, 0, 2 * (k : Int)]) :=
      rsum_congr Lx (fun a ha => by
        rw [indQ_of (q := [2 * (a : Int) + 1, 0, 2 * (k : Int)]) _ _
          (lineX_sub (j := 0) (by omega) hk (fun x => hfree x _) _ (mem_lineX.mpr ⟨_, by
          simp only [inO1]; omega, rfl⟩))]
        rfl)
    rw [e1, e2]
    exact h
  · intro i; exact indQ_of_not _ _ (notq (by simp only [inO1, inE, inE2, inO]; omega))
  · intro i; exact indQ_of_not _ _ (notq (by simp only [inO1, inE, inE2, inO]; omega))
  · intro i a hi ha
    have hf : isFaceXY Lx Ly Lz (2 * (a : Int) + 1) (2 * (i : Int) + 0 + 1) (2 * (k : Int)) := by
      simp only [isFaceXY, inO1, inE, inO]; omega
    have h := faceXY_even hb hf (hfree _ _) (xm := 2 * (a : Int) + 1 - 1)
      (xp := 2 * (a : Int) + 1 + 1)
      (ym := 2 * (i : Int) + 0) (yp := 2 * (i : Int) + 0 + 2) rfl rfl (by omega) (by omega)
    omega

/-- every x line that misses the hole is met with the parity of the line `(0, 0)` -/
theorem parity_X {b : Op} (hb : CommStabs Lx Ly Lz b) {j k : Nat} (hj : j < Ly) (hk : k < Lz)
    (hfree : ¬ Hole Lx Ly Lz 3 (2 * (j : Int)) (2 * (k : Int))) :
    (lineX Lx j k).countP (opHit Pauli.X b) % 2 = (lineX Lx 0 0).countP (opHit Pauli.X b) % 2 := by
  have h0y : ∀ x z, ¬ Hole Lx Ly Lz x (2 * ((0 : Nat) : Int)) z := by
    intro x z h; unfold Hole at h; omega
  have h0z : ∀ x y, ¬ Hole Lx Ly Lz x y (2 * ((0 : Nat) : Int)) := by
    intro x y h; unfold Hole at h; omega
  by_cases hA : ∀ x z, ¬ Hole Lx Ly Lz x (2 * (j : Int)) z
  · rw [parity_Xz hb j hj hA k hk, parity_Xy hb 0 (by omega) h0z j hj]
  · have hB : ∀ x y, ¬ Hole Lx Ly Lz x y (2 * (k : Int)) := by
      intro x y h
      apply hA
      intro x' z' h'
      apply hfree
      unfold Hole at h h' ⊢
      omega
    rw [parity_Xy hb k hk hB j hj, parity_Xz hb 0 (by omega) h0y k hk]

end Panqec.HollowPlanar3DCode
