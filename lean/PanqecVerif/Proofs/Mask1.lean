/-
Soundness of the packed-bitmask primitives of `Model/Mask.lean` (part 1):
parity by xor-folding, packing / unpacking, and the agreement of `sympMask` / `weightMask`
with the list-level `symp` / `rowWeight`.  Core Lean only.
-/
import PanqecVerif.Model.Mask
import PanqecVerif.Proofs.Bits
import PanqecVerif.Proofs.ValidCode

namespace Panqec

/-! ### bit-level arithmetic facts -/

theorem xor_mod_two (a b : Nat) : (a ^^^ b) % 2 = (a % 2 + b % 2) % 2 := by
  have h := @Nat.xor_mod_two_eq_one a b
  omega

theorem and_mod_two (a b : Nat) : (a &&& b) % 2 = (a % 2) * (b % 2) := by
  have h := @Nat.and_mod_two_eq_one a b
  rcases Nat.mod_two_eq_zero_or_one a with ha | ha <;>
    rcases Nat.mod_two_eq_zero_or_one b with hb | hb <;>
    rw [ha, hb] <;> omega

theorem or_mod_two (a b : Nat) :
    (a ||| b) % 2 = if (a % 2 != 0 || b % 2 != 0) then 1 else 0 := by
  have h := @Nat.or_mod_two_eq_one a b
  rcases Nat.mod_two_eq_zero_or_one a with ha | ha <;>
    rcases Nat.mod_two_eq_zero_or_one b with hb | hb <;>
    rw [ha, hb] <;> simp <;> omega

/-! ### 1. parity -/

theorem parityRec_lt_two : ∀ w x, parityRec w x < 2
  | 0, _ => by simp [parityRec]
  | w + 1, x => by simp only [parityRec]; omega

theorem parityRec_zero : ∀ w, parityRec w 0 = 0
  | 0 => rfl
  | w + 1 => by simp [parityRec, parityRec_zero w]

theorem parityRec_xor : ∀ (w a b : Nat),
    parityRec w (a ^^^ b) = (parityRec w a + parityRec w b) % 2
  | 0, _, _ => by simp [parityRec]
  | w + 1, a, b => by
    simp only [parityRec, Nat.xor_div_two, parityRec_xor w, xor_mod_two]
    omega

/-- the low `a + b` bits split into the low `a` bits and the next `b` bits -/
theorem parityRec_add : ∀ (a b x : Nat),
    parityRec (a + b) x = (parityRec a x + parityRec b (x >>> a)) % 2
  | 0, b, x => by
    simp only [parityRec, Nat.zero_add, Nat.shiftRight_zero]
    exact (Nat.mod_eq_of_lt (parityRec_lt_two b x)).symm
  | a + 1, b, x => by
    have e : a + 1 + b = (a + b) + 1 := by omega
    rw [e]
    simp only [parityRec, parityRec_add a b, Nat.shiftRight_succ_inside]
    omega

theorem parityRec_split (h x : Nat) :
    parityRec (h + h) x = (parityRec h x + parityRec h (x >>> h)) % 2 :=
  parityRec_add h h x

theorem parityFold_eq : ∀ (s x : Nat), parityFold s x = parityRec (2 ^ s) x
  | 0, x => by simp [parityFold, parityRec]
  | s + 1, x => by
    have e : 2 ^ (s + 1) = 2 ^ s + 2 ^ s := by rw [Nat.pow_succ]; omega
    rw [parityFold, parityFold_eq s, parityRec_xor, e, parityRec_split]

theorem parityRec_mono (w w' x : Nat) (hx : x < 2 ^ w) (hw : w ≤ w') :
    parityRec w' x = parityRec w x := by
  obtain ⟨d, rfl⟩ : ∃ d, w' = w + d := ⟨w' - w, by omega⟩
  rw [parityRec_add, Nat.shiftRight_eq_zero x w hx, parityRec_zero, Nat.add_zero]
  exact Nat.mod_eq_of_lt (parityRec_lt_two w x)

theorem le_two_pow_foldsFor (n : Nat) : n ≤ 2 ^ foldsFor n := by
  unfold foldsFor
  have h := @Nat.lt_log2_self (2 * n + 1)
  rw [Nat.pow_succ] at h
  omega

/-! ### 2. packing and unpacking -/

theorem unpackBits_length : ∀ (w m : Nat), (unpackBits w m).length = w
  | 0, _ => rfl
  | w + 1, m => by simp [unpackBits, unpackBits_length w]

theorem unpackBits_binary : ∀ (w m : Nat), ∀ x ∈ unpackBits w m, x < 2
  | 0, _, x, h => by simp [unpackBits] at h
  | w + 1, m, x, h => by
    simp only [unpackBits, List.mem_cons] at h
    rcases h with h | h
    · omega
    · exact unpackBits_binary w _ x h

theorem packBits_unpackBits : ∀ (w m : Nat), m < 2 ^ w → packBits (unpackBits w m) = m
  | 0, m, h => by
    have : m = 0 := by simpa using h
    subst this; rfl
  | w + 1, m, h => by
    rw [unpackBits, packBits, packBits_unpackBits w (m / 2)]
    · omega
    · rw [Nat.pow_succ] at h; omega

theorem unpackBits_packBits : ∀ (v : List Nat), (∀ x ∈ v, x < 2) →
    unpackBits v.length (packBits v) = v
  | [], _ => rfl
  | b :: bs, h => by
    have hb : b < 2 := h b (by simp)
    have ih := unpackBits_packBits bs (fun x hx => h x (by simp [hx]))
    simp only [List.length_cons, packBits, unpackBits]
    have h1 : (b % 2 + 2 * packBits bs) % 2 = b := by omega
    have h2 : (b % 2 + 2 * packBits bs) / 2 = packBits bs := by omega
    rw [h1, h2, ih]

theorem packBits_lt : ∀ (v : List Nat), packBits v < 2 ^ v.length
  | [] => by simp [packBits]
  | b :: bs => by
    have ih := packBits_lt bs
    simp only [packBits, List.length_cons, Nat.pow_succ]
    omega

theorem unpackBits_zero : ∀ w, unpackBits w 0 = vzero w
  | 0 => rfl
  | w + 1 => by
    have ih := unpackBits_zero w
    simp only [vzero] at ih ⊢
    simp [unpackBits, ih, List.replicate_succ]

/-- only the low `w` bits matter -/
theorem unpackBits_mod : ∀ (w a : Nat), unpackBits w (a % 2 ^ w) = unpackBits w a
  | 0, _ => rfl
  | w + 1, a => by
    simp only [unpackBits]
    rw [Nat.pow_succ', Nat.mod_mul_right_mod, Nat.mod_mul_right_div_self, unpackBits_mod w]

theorem unpackBits_take : ∀ (w d a : Nat), (unpackBits (w + d) a).take w = unpackBits w a
  | 0, _, _ => by simp [unpackBits]
  | w + 1, d, a => by
    have e : w + 1 + d = (w + d) + 1 := by omega
    rw [e]
    simp [unpackBits, unpackBits_take w d]

theorem unpackBits_drop : ∀ (w d a : Nat),
    (unpackBits (w + d) a).drop w = unpackBits d (a >>> w)
  | 0, _, _ => by simp
  | w + 1, d, a => by
    have e : w + 1 + d = (w + d) + 1 := by omega
    rw [e]
    simp [unpackBits, unpackBits_drop w d, Nat.shiftRight_succ_inside]

theorem unpackBits_xor : ∀ (w a b : Nat),
    unpackBits w (a ^^^ b) = vxor (unpackBits w a) (unpackBits w b)
  | 0, _, _ => by simp [unpackBits, vxor]
  | w + 1, a, b => by
    have ih := unpackBits_xor w (a / 2) (b / 2)
    simp only [vxor] at ih ⊢
    simp [unpackBits, Nat.xor_div_two, ih, xor_mod_two]

/-! ### 3. dot products and the X / Z blocks -/

theorem dot_unpack : ∀ (w a b : Nat),
    dot (unpackBits w a) (unpackBits w b) % 2 = parityRec w (a &&& b)
  | 0, _, _ => by simp [unpackBits, parityRec, dot]
  | w + 1, a, b => by
    have ih := dot_unpack w (a / 2) (b / 2)
    simp only [unpackBits, parityRec, dot_cons, Nat.and_div_two, and_mod_two, ← ih]
    omega

/-- X block of an unpacked mask (no size hypothesis needed) -/
theorem xPart_unpackBits' (n a : Nat) :
    xPart (unpackBits (2 * n) a) = unpackBits n (a % 2 ^ n) := by
  have e : 2 * n = n + n := by omega
  have h2 : (n + n) / 2 = n := by omega
  rw [xPart, unpackBits_length, e, h2, unpackBits_take, unpackBits_mod]

/-- Z block of an unpacked mask (no size hypothesis needed) -/
theorem zPart_unpackBits' (n a : Nat) :
    zPart (unpackBits (2 * n) a) = unpackBits n (a >>> n) := by
  have e : 2 * n = n + n := by omega
  have h2 : (n + n) / 2 = n := by omega
  rw [zPart, unpackBits_length, e, h2, unpackBits_drop]

theorem xPart_unpackBits (n a : Nat) (_ha : a < 2 ^ (2 * n)) :
    xPart (unpackBits (2 * n) a) = unpackBits n (a % 2 ^ n) := xPart_unpackBits' n a

theorem zPart_unpackBits (n a : Nat) (_ha : a < 2 ^ (2 * n)) :
    zPart (unpackBits (2 * n) a) = unpackBits n (a >>> n) := zPart_unpackBits' n a

/-! ### 4. the symplectic product -/

/-- `sympMask` computes `symp` of the unpacked vectors; bits above `2n` are ignored by
    both sides, so no size hypothesis is needed. -/
theorem sympMask_eq_symp' (n a b : Nat) :
    sympMask n a b = symp (unpackBits (2 * n) a) (unpackBits (2 * n) b) := by
  have hax : a % 2 ^ n < 2 ^ n := Nat.mod_lt _ (Nat.two_pow_pos n)
  have hbx : b % 2 ^ n < 2 ^ n := Nat.mod_lt _ (Nat.two_pow_pos n)
  have h1 : a % 2 ^ n &&& b >>> n < 2 ^ n := by
    rw [Nat.and_comm]; exact Nat.and_lt_two_pow _ hax
  have h2 : a >>> n &&& b % 2 ^ n < 2 ^ n := Nat.and_lt_two_pow _ hbx
  have hlt := Nat.xor_lt_two_pow h1 h2
  unfold sympMask symp
  simp only []
  rw [parityFold_eq, parityRec_mono n _ _ hlt (le_two_pow_foldsFor n), parityRec_xor,
    xPart_unpackBits', zPart_unpackBits', xPart_unpackBits', zPart_unpackBits',
    ← dot_unpack, ← dot_unpack]
  omega

theorem sympMask_eq_symp (n a b : Nat) (_ha : a < 2 ^ (2 * n)) (_hb : b < 2 ^ (2 * n)) :
    sympMask n a b = symp (unpackBits (2 * n) a) (unpackBits (2 * n) b) :=
  sympMask_eq_symp' n a b

/-! ### 5. the weight -/

theorem popCount_or : ∀ (w p q : Nat),
    popCount w (p ||| q) =
      (List.zipWith (fun x z => x != 0 || z != 0) (unpackBits w p) (unpackBits w q)).countP id
  | 0, _, _ => by simp [popCount, unpackBits]
  | w + 1, p, q => by
    have ih := popCount_or w (p / 2) (q / 2)
    simp only [popCount, unpackBits, List.zipWith_cons_cons, List.countP_cons, Nat.or_div_two,
      ih, or_mod_two, id]
    omega

theorem weightMask_eq' (n a : Nat) : weightMask n a = rowWeight (unpackBits (2 * n) a) := by
  unfold weightMask rowWeight
  rw [popCount_or, xPart_unpackBits', zPart_unpackBits']

theorem weightMask_eq (n a : Nat) (_ha : a < 2 ^ (2 * n)) :
    weightMask n a = rowWeight (unpackBits (2 * n) a) := weightMask_eq' n a

end Panqec
