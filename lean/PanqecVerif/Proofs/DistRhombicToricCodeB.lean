/-
RhombicToricCode, all even sizes, C17 part B: the translates are sets of qubits with pairwise
disjoint supports (`lower_bound`, through `Lattice.packing_bound`), the listed logicals have weights
`2·Ly·Lz, 2·Lx·Lz, 2·Lx·Ly` (X sheets) and `Lx, Ly, Lz` (Z lines of parallel edges)
(`reported_distance`).
-/
import PanqecVerif.Proofs.DistRhombicToricCodeA
import PanqecVerif.Proofs.LatRhombicToricCode4
import PanqecVerif.Proofs.Lat2DRankBridge

namespace Panqec.RhombicToricCode
open Panqec.Lat3Db Panqec.Rhombic Panqec.Cubic3D
open Panqec.Lat2D (plane2 mem_plane2 nodup_plane2 length_plane2)

variable {Lx Ly Lz : Nat}

/-! ### membership in the translates -/

theorem mem_tLineX {Lx i : Nat} {q : Coord} :
    q ∈ tLineX Lx i ↔ ∃ x, R0 (2 * Lx) x ∧ q = [x, 2 * (i : Int) + 1, 0] := by
  simp only [tLineX, List.mem_map, mem_pyRange2_0]
  constructor
  · rintro ⟨x, hx, rfl⟩; exact ⟨x, hx, rfl⟩
  · rintro ⟨x, hx, rfl⟩; exact ⟨x, hx, rfl⟩
theorem mem_tLineY {Ly i : Nat} {q : Coord} :
    q ∈ tLineY Ly i ↔ ∃ y, R0 (2 * Ly) y ∧ q = [2 * (i : Int) + 1, y, 0] := by
  simp only [tLineY, List.mem_map, mem_pyRange2_0]
  constructor
  · rintro ⟨x, hx, rfl⟩; exact ⟨x, hx, rfl⟩
  · rintro ⟨x, hx, rfl⟩; exact ⟨x, hx, rfl⟩
theorem mem_tLineZ {Lz i : Nat} {q : Coord} :
    q ∈ tLineZ Lz i ↔ ∃ z, R0 (2 * Lz) z ∧ q = [0, 2 * (i : Int) + 1, z] := by
  simp only [tLineZ, List.mem_map, mem_pyRange2_0]
  constructor
  · rintro ⟨x, hx, rfl⟩; exact ⟨x, hx, rfl⟩
  · rintro ⟨x, hx, rfl⟩; exact ⟨x, hx, rfl⟩

theorem mem_tSheetX {Ly Lz i : Nat} {q : Coord} :
    q ∈ tSheetX Ly Lz i ↔ ∃ j k : Nat, j < Ly ∧ k < Lz ∧
      (q = [2 * (i : Int), 2 * (j : Int) + 1, 2 * (k : Int)] ∨
       q = [2 * (i : Int), 2 * (j : Int), 2 * (k : Int) + 1]) := by
  simp only [tSheetX, List.mem_append, mem_plane2]
  constructor
  · rintro (⟨j, k, hj, hk, rfl⟩ | ⟨j, k, hj, hk, rfl⟩)
    · exact ⟨j, k, hj, hk, Or.inl rfl⟩
    · exact ⟨j, k, hj, hk, Or.inr rfl⟩
  · rintro ⟨j, k, hj, hk, rfl | rfl⟩
    · exact Or.inl ⟨j, k, hj, hk, rfl⟩
    · exact Or.inr ⟨j, k, hj, hk, rfl⟩
theorem mem_tSheetY {Lx Lz i : Nat} {q : Coord} :
    q ∈ tSheetY Lx Lz i ↔ ∃ j k : Nat, j < Lx ∧ k < Lz ∧
      (q = [2 * (j : Int) + 1, 2 * (i : Int), 2 * (k : Int)] ∨
       q = [2 * (j : Int), 2 * (i : Int), 2 * (k : Int) + 1]) := by
  simp only [tSheetY, List.mem_append, mem_plane2]
  constructor
  · rintro (⟨j, k, hj, hk, rfl⟩ | ⟨j, k, hj, hk, rfl⟩)
    · exact ⟨j, k, hj, hk, Or.inl rfl⟩
    · exact ⟨j, k, hj, hk, Or.inr rfl⟩
  · rintro ⟨j, k, hj, hk, rfl | rfl⟩
    · exact Or.inl ⟨j, k, hj, hk, rfl⟩
    · exact Or.inr ⟨j, k, hj, hk, rfl⟩
theorem mem_tSheetZ {Lx Ly i : Nat} {q : Coord} :
    q ∈ tSheetZ Lx Ly i ↔ ∃ j k : Nat, j < Lx ∧ k < Ly ∧
      (q = [2 * (j : Int) + 1, 2 * (k : Int), 2 * (i : Int)] ∨
       q = [2 * (j : Int), 2 * (k : Int) + 1, 2 * (i : Int)]) := by
  simp only [tSheetZ, List.mem_append, mem_plane2]
  constructor
  · rintro (⟨j, k, hj, hk, rfl⟩ | ⟨j, k, hj, hk, rfl⟩)
    · exact ⟨j, k, hj, hk, Or.inl rfl⟩
    · exact ⟨j, k, hj, hk, Or.inr rfl⟩
  · rintro ⟨j, k, hj, hk, rfl | rfl⟩
    · exact Or.inl ⟨j, k, hj, hk, rfl⟩
    · exact Or.inr ⟨j, k, hj, hk, rfl⟩

/-! ### distinct keys -/

theorem nodup_tLineX (Lx i : Nat) : (tLineX Lx i).Nodup :=
  List.Nodup.map (fun a b h => by simpa using h) (nodup_pyRange2 _ _)
theorem nodup_tLineY (Ly i : Nat) : (tLineY Ly i).Nodup :=
  List.Nodup.map (fun a b h => by simpa using h) (nodup_pyRange2 _ _)
theorem nodup_tLineZ (Lz i : Nat) : (tLineZ Lz i).Nodup :=
  List.Nodup.map (fun a b h => by simpa using h) (nodup_pyRange2 _ _)

theorem nodup_tSheetX (Ly Lz i : Nat) : (tSheetX Ly Lz i).Nodup := by
  unfold tSheetX
  rw [List.nodup_append]
  refine ⟨nodup_plane2 _ _ _ (fun j k j' k' h => ?_), nodup_plane2 _ _ _ (fun j k j' k' h => ?_), ?_⟩
  · simp only [List.cons.injEq, and_true, true_and] at h; omega
  · simp only [List.cons.injEq, and_true, true_and] at h; omega
  · intro a ha c hc e
    subst e
    obtain ⟨j, k, _, _, rfl⟩ := mem_plane2.mp ha
    obtain ⟨j', k', _, _, e⟩ := mem_plane2.mp hc
    simp only [List.cons.injEq, and_true, true_and] at e; omega
theorem nodup_tSheetY (Lx Lz i : Nat) : (tSheetY Lx Lz i).Nodup := by
  unfold tSheetY
  rw [List.nodup_append]
  refine ⟨nodup_plane2 _ _ _ (fun j k j' k' h => ?_), nodup_plane2 _ _ _ (fun j k j' k' h => ?_), ?_⟩
  · simp only [List.cons.injEq, and_true, true_and] at h; omega
  · simp only [List.cons.injEq, and_true, true_and] at h; omega
  · intro a ha c hc e
    subst e
    obtain ⟨j, k, _, _, rfl⟩ := mem_plane2.mp ha
    obtain ⟨j', k', _, _, e⟩ := mem_plane2.mp hc
    simp only [List.cons.injEq, and_true, true_and] at e; omega
theorem nodup_tSheetZ (Lx Ly i : Nat) : (tSheetZ Lx Ly i).Nodup := by
  unfold tSheetZ
  rw [List.nodup_append]
  refine ⟨nodup_plane2 _ _ _ (fun j k j' k' h => ?_), nodup_plane2 _ _ _ (fun j k j' k' h => ?_), ?_⟩
  · simp only [List.cons.injEq, and_true] at h; omega
  · simp only [List.cons.injEq, and_true] at h; omega
  · intro a ha c hc e
    subst e
    obtain ⟨j, k, _, _, rfl⟩ := mem_plane2.mp ha
    obtain ⟨j', k', _, _, e⟩ := mem_plane2.mp hc
    simp only [List.cons.injEq, and_true] at e; omega

/-! ### the listed sheets are the translates at the origin, as sets of keys -/

theorem sheetX_perm (Ly Lz : Nat) : (sheetX Ly Lz).Perm (tSheetX Ly Lz 0) := by
  rw [List.perm_ext_iff_of_nodup (nodup_sheetX Ly Lz) (nodup_tSheetX Ly Lz 0)]
  intro c
  unfold sheetX
  rw [mem_sheetLocs, mem_tSheetX]
  constructor
  · rintro ⟨a, b, ha, hb, hab, rfl⟩
    refine ⟨(a / 2).toNat, (b / 2).toNat, by omega, by omega, ?_⟩
    by_cases h : a % 2 = 1
    · left; simp only [List.cons.injEq, and_true]; omega
    · right; simp only [List.cons.injEq, and_true]; omega
  · rintro ⟨j, k, hj, hk, rfl | rfl⟩
    · exact ⟨2 * (j : Int) + 1, 2 * (k : Int), by omega, by omega, by omega, by simp⟩
    · exact ⟨2 * (j : Int), 2 * (k : Int) + 1, by omega, by omega, by omega, by simp⟩

theorem sheetY_perm (Lx Lz : Nat) : (sheetY Lx Lz).Perm (tSheetY Lx Lz 0) := by
  rw [List.perm_ext_iff_of_nodup (nodup_sheetY Lx Lz) (nodup_tSheetY Lx Lz 0)]
  intro c
  unfold sheetY
  rw [mem_sheetLocs, mem_tSheetY]
  constructor
  · rintro ⟨a, b, ha, hb, hab, rfl⟩
    refine ⟨(a / 2).toNat, (b / 2).toNat, by omega, by omega, ?_⟩
    by_cases h : a % 2 = 1
    · left; simp only [List.cons.injEq, and_true]; omega
    · right; simp only [List.cons.injEq, and_true]; omega
  · rintro ⟨j, k, hj, hk, rfl | rfl⟩
    · exact ⟨2 * (j : Int) + 1, 2 * (k : Int), by omega, by omega, by omega, by simp⟩
    · exact ⟨2 * (j : Int), 2 * (k : Int) + 1, by omega, by omega, by omega, by simp⟩

theorem sheetZ_perm (Lx Ly : Nat) : (sheetZ Lx Ly).Perm (tSheetZ Lx Ly 0) := by
  rw [List.perm_ext_iff_of_nodup (nodup_sheetZ Lx Ly) (nodup_tSheetZ Lx Ly 0)]
  intro c
  unfold sheetZ
  rw [mem_sheetLocs, mem_tSheetZ]
  constructor
  · rintro ⟨a, b, ha, hb, hab, rfl⟩
    refine ⟨(a / 2).toNat, (b / 2).toNat, by omega, by omega, ?_⟩
    by_cases h : a % 2 = 1
    · left; simp only [List.cons.injEq, and_true]; omega
    · right; simp only [List.cons.injEq, and_true]; omega
  · rintro ⟨j, k, hj, hk, rfl | rfl⟩
    · exact ⟨2 * (j : Int) + 1, 2 * (k : Int), by omega, by omega, by omega, by simp⟩
    · exact ⟨2 * (j : Int), 2 * (k : Int) + 1, by omega, by omega, by omega, by simp⟩

/-! ### the six families of translates: distinct keys, qubits, pairwise disjoint -/

theorem repsZ0 (hz : 1 ≤ Lz) (P : Pauli) : RepsOK (qubits Lx Ly Lz) (tLineX Lx) Ly P :=
  uopReps _ _ _ P (nodup_tLineX Lx)
    (fun i hi q hq => by
      obtain ⟨x, hx, rfl⟩ := mem_tLineX.mp hq
      rw [mem_qubits_iff]; right; left
      unfold QY R0 R1 at *; omega)
    (fun i i' h q hq hq' => by
      obtain ⟨x, _, rfl⟩ := mem_tLineX.mp hq
      obtain ⟨x', _, e⟩ := mem_tLineX.mp hq'
      simp only [List.cons.injEq, and_true] at e; omega)
theorem repsZ1 (hz : 1 ≤ Lz) (P : Pauli) : RepsOK (qubits Lx Ly Lz) (tLineY Ly) Lx P :=
  uopReps _ _ _ P (nodup_tLineY Ly)
    (fun i hi q hq => by
      obtain ⟨x, hx, rfl⟩ := mem_tLineY.mp hq
      rw [mem_qubits_iff]; left
      unfold QX R0 R1 at *; omega)
    (fun i i' h q hq hq' => by
      obtain ⟨x, _, rfl⟩ := mem_tLineY.mp hq
      obtain ⟨x', _, e⟩ := mem_tLineY.mp hq'
      simp only [List.cons.injEq, and_true] at e; omega)
theorem repsZ2 (hx : 1 ≤ Lx) (P : Pauli) : RepsOK (qubits Lx Ly Lz) (tLineZ Lz) Ly P :=
  uopReps _ _ _ P (nodup_tLineZ Lz)
    (fun i hi q hq => by
      obtain ⟨x, hx, rfl⟩ := mem_tLineZ.mp hq
      rw [mem_qubits_iff]; right; left
      unfold QY R0 R1 at *; omega)
    (fun i i' h q hq hq' => by
      obtain ⟨x, _, rfl⟩ := mem_tLineZ.mp hq
      obtain ⟨x', _, e⟩ := mem_tLineZ.mp hq'
      simp only [List.cons.injEq, and_true] at e; omega)

theorem repsX0 (P : Pauli) : RepsOK (qubits Lx Ly Lz) (tSheetX Ly Lz) Lx P :=
  uopReps _ _ _ P (nodup_tSheetX Ly Lz)
    (fun i hi q hq => by
      obtain ⟨j, k, hj, hk, rfl | rfl⟩ := mem_tSheetX.mp hq <;> rw [mem_qubits_iff]
      · right; left; unfold QY R0 R1; omega
      · right; right; unfold QZ R0 R1; omega)
    (fun i i' h q hq hq' => by
      obtain ⟨j, k, _, _, e⟩ := mem_tSheetX.mp hq
      obtain ⟨j', k', _, _, e'⟩ := mem_tSheetX.mp hq'
      rcases e with rfl | rfl <;> rcases e' with e' | e' <;>
        simp only [List.cons.injEq, and_true] at e' <;> omega)
theorem repsX1 (P : Pauli) : RepsOK (qubits Lx Ly Lz) (tSheetY Lx Lz) Ly P :=
  uopReps _ _ _ P (nodup_tSheetY Lx Lz)
    (fun i hi q hq => by
      obtain ⟨j, k, hj, hk, rfl | rfl⟩ := mem_tSheetY.mp hq <;> rw [mem_qubits_iff]
      · left; unfold QX R0 R1; omega
      · right; right; unfold QZ R0 R1; omega)
    (fun i i' h q hq hq' => by
      obtain ⟨j, k, _, _, e⟩ := mem_tSheetY.mp hq
      obtain ⟨j', k', _, _, e'⟩ := mem_tSheetY.mp hq'
      rcases e with rfl | rfl <;> rcases e' with e' | e' <;>
        simp only [List.cons.injEq, and_true] at e' <;> omega)
theorem repsX2 (P : Pauli) : RepsOK (qubits Lx Ly Lz) (tSheetZ Lx Ly) Lz P :=
  uopReps _ _ _ P (nodup_tSheetZ Lx Ly)
    (fun i hi q hq => by
      obtain ⟨j, k, hj, hk, rfl | rfl⟩ := mem_tSheetZ.mp hq <;> rw [mem_qubits_iff]
      · left; unfold QX R0 R1; omega
      · right; left; unfold QY R0 R1; omega)
    (fun i i' h q hq hq' => by
      obtain ⟨j, k, _, _, e⟩ := mem_tSheetZ.mp hq
      obtain ⟨j', k', _, _, e'⟩ := mem_tSheetZ.mp hq'
      rcases e with rfl | rfl <;> rcases e' with e' | e' <;>
        simp only [List.cons.injEq, and_true] at e' <;> omega)

/-! ### the packing bound -/

/-- every non-trivial logical operator of the `Lx × Ly × Lz` rhombic toric code (even sizes) has
    weight `≥ min Lx (min Ly Lz)` -/
theorem lower_bound (hx : 2 ≤ Lx) (hy : 2 ≤ Ly) (hz : 2 ≤ Lz) (hex : Lx % 2 = 0) (hey : Ly % 2 = 0)
    (hez : Lz % 2 = 0) (hwf : (lattice Lx Ly Lz).WF) {n k : Nat}
    (hn : (qubits Lx Ly Lz).length = n)
    (hv : ValidCodeL n k (lattice Lx Ly Lz).rowsH (lattice Lx Ly Lz).rowsX
      (lattice Lx Ly Lz).rowsZ) :
    ∀ v, IsNontrivialLogical n (lattice Lx Ly Lz).rowsH v →
      min Lx (min Ly Lz) ≤ pauliWeight v := by
  apply Lattice.packing_bound (lattice Lx Ly Lz) hwf hn hv
  intro a ha
  change a ∈ logX Lx Ly Lz ++ logZ Lx Ly Lz at ha
  change ∃ reps : List Op, _ ∧ (∀ r ∈ reps, KeysNodup r ∧ opSupported (qubits Lx Ly Lz) r = true) ∧
    _ ∧ ∀ b : Op, _ → _ → CommStabs Lx Ly Lz b → _
  rw [logX_eq, logZ_eq] at ha
  simp only [List.cons_append, List.nil_append, List.mem_cons, List.not_mem_nil, or_false] at ha
  rcases ha with rfl | rfl | rfl | rfl | rfl | rfl
  · obtain ⟨h1, h2, h3⟩ := repsX0 (Lx := Lx) (Ly := Ly) (Lz := Lz) Pauli.X
    refine ⟨_, by rw [h1]; omega, h2, h3, ?_⟩
    intro b _ _ hb r hr
    obtain ⟨i, hi, rfl⟩ := List.mem_map.mp hr
    rw [opAntiCount_uop_hit, opAntiCount_constOp_hit, (sheetX_perm Ly Lz).countP_eq]
    exact parity_X0 hb hx hy hz hey hez i (List.mem_range.mp hi)
  · obtain ⟨h1, h2, h3⟩ := repsX1 (Lx := Lx) (Ly := Ly) (Lz := Lz) Pauli.X
    refine ⟨_, by rw [h1]; omega, h2, h3, ?_⟩
    intro b _ _ hb r hr
    obtain ⟨i, hi, rfl⟩ := List.mem_map.mp hr
    rw [opAntiCount_uop_hit, opAntiCount_constOp_hit, (sheetY_perm Lx Lz).countP_eq]
    exact parity_X1 hb hx hy hz hex hez i (List.mem_range.mp hi)
  · obtain ⟨h1, h2, h3⟩ := repsX2 (Lx := Lx) (Ly := Ly) (Lz := Lz) Pauli.X
    refine ⟨_, by rw [h1]; omega, h2, h3, ?_⟩
    intro b _ _ hb r hr
    obtain ⟨i, hi, rfl⟩ := List.mem_map.mp hr
    rw [opAntiCount_uop_hit, opAntiCount_constOp_hit, (sheetZ_perm Lx Ly).countP_eq]
    exact parity_X2 hb hx hy hz hex hey i (List.mem_range.mp hi)
  · obtain ⟨h1, h2, h3⟩ := repsZ0 (Lx := Lx) (Ly := Ly) (Lz := Lz) (by omega) Pauli.Z
    refine ⟨_, by rw [h1]; omega, h2, h3, ?_⟩
    intro b _ _ hb r hr
    obtain ⟨i, hi, rfl⟩ := List.mem_map.mp hr
    rw [lineX_eq, opAntiCount_uop_hit, opAntiCount_constOp_hit]
    exact parity_Z0 hb (by omega) i (List.mem_range.mp hi)
  · obtain ⟨h1, h2, h3⟩ := repsZ1 (Lx := Lx) (Ly := Ly) (Lz := Lz) (by omega) Pauli.Z
    refine ⟨_, by rw [h1]; omega, h2, h3, ?_⟩
    intro b _ _ hb r hr
    obtain ⟨i, hi, rfl⟩ := List.mem_map.mp hr
    rw [lineY_eq, opAntiCount_uop_hit, opAntiCount_constOp_hit]
    exact parity_Z1 hb (by omega) i (List.mem_range.mp hi)
  · obtain ⟨h1, h2, h3⟩ := repsZ2 (Lx := Lx) (Ly := Ly) (Lz := Lz) (by omega) Pauli.Z
    refine ⟨_, by rw [h1]; omega, h2, h3, ?_⟩
    intro b _ _ hb r hr
    obtain ⟨i, hi, rfl⟩ := List.mem_map.mp hr
    rw [lineZ_eq, opAntiCount_uop_hit, opAntiCount_constOp_hit]
    exact parity_Z2 hb (by omega) i (List.mem_range.mp hi)

/-! ### weights of the listed logicals, reported distance -/

theorem weight_listed (hwf : (lattice Lx Ly Lz).WF) {a : Op}
    (ha : a ∈ (lattice Lx Ly Lz).logX ++ (lattice Lx Ly Lz).logZ) :
    pauliWeight (opRow (lattice Lx Ly Lz).qubits a) = a.length :=
  pauliWeight_opRow _ hwf.qubits_nodup a (hwf.log_keys a ha) (hwf.log_supported a ha)

theorem length_constOp (ks : List Coord) (p : Pauli) : (constOp ks p).length = ks.length := by
  simp [constOp]

theorem length_tSheetX (Ly Lz i : Nat) : (tSheetX Ly Lz i).length = 2 * (Ly * Lz) := by
  unfold tSheetX; rw [List.length_append, length_plane2, length_plane2]; omega
theorem length_tSheetY (Lx Lz i : Nat) : (tSheetY Lx Lz i).length = 2 * (Lx * Lz) := by
  unfold tSheetY; rw [List.length_append, length_plane2, length_plane2]; omega
theorem length_tSheetZ (Lx Ly i : Nat) : (tSheetZ Lx Ly i).length = 2 * (Lx * Ly) := by
  unfold tSheetZ; rw [List.length_append, length_plane2, length_plane2]; omega

/-- the weights of the rows of `logicals_x` are `[2·Ly·Lz, 2·Lx·Lz, 2·Lx·Ly]` (sheets), of
    `logicals_z` `[Lx, Ly, Lz]` (lines of parallel edges) -/
theorem weights_listed (hwf : (lattice Lx Ly Lz).WF) :
    (lattice Lx Ly Lz).rowsX.map pauliWeight = [2 * (Ly * Lz), 2 * (Lx * Lz), 2 * (Lx * Ly)] ∧
    (lattice Lx Ly Lz).rowsZ.map pauliWeight = [Lx, Ly, Lz] := by
  have hw := fun a ha => weight_listed hwf (a := a) ha
  change ∀ a, a ∈ logX Lx Ly Lz ++ logZ Lx Ly Lz → _ at hw
  rw [logX_eq, logZ_eq] at hw
  unfold Lattice.rowsX Lattice.rowsZ
  change (List.map (opRow (lattice Lx Ly Lz).qubits) (logX Lx Ly Lz)).map pauliWeight = _ ∧
    (List.map (opRow (lattice Lx Ly Lz).qubits) (logZ Lx Ly Lz)).map pauliWeight = _
  rw [logX_eq, logZ_eq]
  simp only [List.map_cons, List.map_nil]
  rw [hw _ (by simp), hw _ (by simp), hw _ (by simp), hw _ (by simp), hw _ (by simp),
    hw _ (by simp)]
  simp only [length_constOp, (sheetX_perm Ly Lz).length_eq, (sheetY_perm Lx Lz).length_eq,
    (sheetZ_perm Lx Ly).length_eq, length_tSheetX, length_tSheetY, length_tSheetZ, lineX, lineY,
    lineZ, List.length_map, length_pyRange2_even]
  exact ⟨trivial, trivial⟩

/-- `code.d` (minimum weight of the listed logicals) is `min Lx (min Ly Lz)` -/
theorem reported_distance (hLx : 1 ≤ Lx) (hLy : 1 ≤ Ly) (hLz : 1 ≤ Lz)
    (hwf : (lattice Lx Ly Lz).WF) :
    distance (lattice Lx Ly Lz).rowsX (lattice Lx Ly Lz).rowsZ = some (min Lx (min Ly Lz)) := by
  obtain ⟨h1, h2⟩ := weights_listed hwf
  unfold distance
  show (match listMin ((lattice Lx Ly Lz).rowsX.map pauliWeight),
    listMin ((lattice Lx Ly Lz).rowsZ.map pauliWeight) with
    | some a, some b => some (min a b)
    | _, _ => none) = _
  rw [h1, h2]
  simp only [listMin, List.foldl_cons, List.foldl_nil]
  congr 1
  have a1 : Ly ≤ Ly * Lz := Nat.le_mul_of_pos_right _ (by omega)
  have a2 : Lx ≤ Lx * Lz := Nat.le_mul_of_pos_right _ (by omega)
  have a3 : Lx ≤ Lx * Ly := Nat.le_mul_of_pos_right _ (by omega)
  generalize Ly * Lz = p at *
  generalize Lx * Lz = q at *
  generalize Lx * Ly = r at *
  omega

end Panqec.RhombicToricCode
