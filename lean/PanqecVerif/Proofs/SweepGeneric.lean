/-
Helper lemmas for C10, generic part: linearity of the face syndrome, the toggle lemma of
`site`, the effect of `flip_edge` as a pointwise xor, and the one-step / many-step
preservation of the invariant `Tracks` for any lattice data and any flip table that is
consistent on the flipped edges.  Core Lean only.
-/
import PanqecVerif.Model.Sweep

namespace Panqec.Sweep

set_option linter.unusedSimpArgs false

/-! ### parity sums -/

@[simp] theorem xorSum_nil {α : Type} (f : α → Bool) : xorSum ([] : List α) f = false := rfl
@[simp] theorem xorSum_cons {α : Type} (a : α) (l : List α) (f : α → Bool) :
    xorSum (a :: l) f = (f a != xorSum l f) := rfl

theorem xorSum_xor {α : Type} (l : List α) (f g : α → Bool) :
    xorSum l (fun a => f a != g a) = (xorSum l f != xorSum l g) := by
  induction l with
  | nil => rfl
  | cons a l ih =>
    simp only [xorSum_cons, ih]
    cases f a <;> cases g a <;> cases xorSum l f <;> cases xorSum l g <;> rfl

theorem xorSum_congr {α : Type} (l : List α) (f g : α → Bool) (h : ∀ a ∈ l, f a = g a) :
    xorSum l f = xorSum l g := by
  induction l with
  | nil => rfl
  | cons a l ih =>
    simp only [xorSum_cons]
    rw [h a (List.mem_cons_self), ih (fun b hb => h b (List.mem_cons_of_mem _ hb))]

theorem xorSum_false {α : Type} (l : List α) : xorSum l (fun _ => false) = false := by
  induction l with
  | nil => rfl
  | cons a l ih => simp [ih]

theorem xorSum_append {α : Type} (l₁ l₂ : List α) (f : α → Bool) :
    xorSum (l₁ ++ l₂) f = (xorSum l₁ f != xorSum l₂ f) := by
  induction l₁ with
  | nil => simp
  | cons a l ih =>
    simp only [List.cons_append, xorSum_cons, ih]
    cases f a <;> cases xorSum l f <;> cases xorSum l₂ f <;> rfl

/-! ### syndrome rows -/

/-- flipping the Z part at one location changes a row's syndrome by the row's X entry there -/
theorem rowSyn_toggleX (op : Op) (x z : Loc → Bool) (loc : Loc) :
    rowSyn op x (fun q => z q != (q == loc)) =
      (rowSyn op x z != xorSum op (fun e => hasX e.2 && e.1 == loc)) := by
  unfold rowSyn
  rw [← xorSum_xor]
  apply xorSum_congr
  intro e _
  dsimp only
  generalize (e.1 == loc) = b
  cases hasX e.2 <;> cases hasZ e.2 <;> cases z e.1 <;> cases x e.1 <;> cases b <;> rfl

theorem rowSyn_toggle (op : Op) (z : Loc → Bool) (loc : Loc) :
    rowSyn op (fun _ => false) (fun q => z q != (q == loc)) =
      (rowSyn op (fun _ => false) z != xorSum op (fun e => hasX e.2 && e.1 == loc)) :=
  rowSyn_toggleX op (fun _ => false) z loc

/-- rows without Z entries only see the Z part of the error -/
theorem rowSyn_of_not_zIndex (lat : Lattice) (s : Loc) (ex ez : Loc → Bool)
    (h : lat.zIndex s = false) :
    rowSyn (lat.stabOp s) ex ez = rowSyn (lat.stabOp s) (fun _ => false) ez := by
  unfold rowSyn
  apply xorSum_congr
  intro e he
  have hz : hasZ e.2 = false := by
    unfold Lattice.zIndex at h
    rw [List.any_eq_false] at h
    simpa using h e he
  simp [hz]

/-- `get_initial_state(measure_syndrome(e))` is the face syndrome of the Z part of `e` -/
theorem initialState_syndrome (lat : Lattice) (ex ez : Loc → Bool) :
    initialState lat (syndromeOf lat ex ez) = faceSyn lat ez := by
  unfold initialState syndromeOf faceSyn
  rw [List.zipWith_map_right]
  rw [List.zipWith_self]
  apply List.map_congr_left
  intro s _
  cases h : lat.zIndex s
  · simp [rowSyn_of_not_zIndex lat s ex ez h]
  · simp

/-! ### `site` on Z-only operators -/

/-- every letter of the operator is Z -/
def ZOnly (op : Op) : Prop := ∀ e ∈ op, e.2 = Pauli.Z

instance (op : Op) : Decidable (ZOnly op) := by unfold ZOnly; infer_instance

theorem lookup_mem {op : Op} {q : Loc} {p : Pauli} (h : op.lookup q = some p) : (q, p) ∈ op := by
  induction op with
  | nil => simp at h
  | cons e op ih =>
    obtain ⟨k, v⟩ := e
    rw [List.lookup_cons] at h
    by_cases hk : q == k
    · simp only [hk] at h
      have : q = k := by simpa using hk
      subst this
      cases h
      exact List.mem_cons_self
    · simp only [hk] at h
      exact List.mem_cons_of_mem _ (ih h)

theorem lookup_filter_ne (op : Op) (loc q : Loc) (h : (q == loc) = false) :
    (op.filter fun e => !(e.1 == loc)).lookup q = op.lookup q := by
  induction op with
  | nil => rfl
  | cons e op ih =>
    obtain ⟨k, v⟩ := e
    by_cases hk : k == loc
    · have hk' : k = loc := by simpa using hk
      have hq : (q == k) = false := by rw [hk']; exact h
      simp [List.filter_cons, hk, List.lookup_cons, hq, ih]
    · simp only [List.filter_cons, hk, Bool.not_false, if_true, List.lookup_cons, Bool.false_eq_true]
      rw [ih]

theorem lookup_filter_self (op : Op) (loc : Loc) :
    (op.filter fun e => !(e.1 == loc)).lookup loc = none := by
  induction op with
  | nil => rfl
  | cons e op ih =>
    obtain ⟨k, v⟩ := e
    by_cases hk : k == loc
    · simp [List.filter_cons, hk, ih]
    · have hk2 : (loc == k) = false := by
        have : ¬ k = loc := by simpa using hk
        simp [beq_eq_false_iff_ne]
        exact fun h => this h.symm
      simp only [List.filter_cons, hk, Bool.not_false, if_true, List.lookup_cons, hk2, ih,
        Bool.false_eq_true]

theorem lookup_append_single (op : Op) (loc q : Loc) (p : Pauli) :
    (op ++ [(loc, p)]).lookup q =
      match op.lookup q with
      | some v => some v
      | none => if q == loc then some p else none := by
  induction op with
  | nil => cases hq : (q == loc) <;> simp [List.lookup_cons, hq]
  | cons e op ih =>
    obtain ⟨k, v⟩ := e
    by_cases hk : q == k
    · simp [List.lookup_cons, hk]
    · simp only [List.cons_append, List.lookup_cons, hk, ih]

/-- `site(·, 'Z', loc)` keeps a Z-only operator Z-only -/
theorem zOnly_site (op : Op) (loc : Loc) (h : ZOnly op) : ZOnly (site op .Z loc) := by
  unfold site
  cases hl : op.lookup loc with
  | none =>
    intro e he
    rw [List.mem_append] at he
    cases he with
    | inl h1 => exact h e h1
    | inr h1 => simp at h1; rw [h1]
  | some p =>
    have hp : p = .Z := h _ (lookup_mem hl)
    subst hp
    simp only [beq_self_eq_true, if_true]
    intro e he
    exact h e (List.mem_filter.mp he).1

/-- THE TOGGLE LEMMA: on a Z-only operator, `site(·, 'Z', loc)` flips the Z part at `loc`
    and nowhere else (an edge flipped twice is removed) -/
theorem zPartOf_site (op : Op) (loc q : Loc) (h : ZOnly op) :
    zPartOf (site op .Z loc) q = (zPartOf op q != (q == loc)) := by
  unfold site
  cases hl : op.lookup loc with
  | none =>
    simp only
    unfold zPartOf
    rw [lookup_append_single]
    by_cases hq : q == loc
    · have : q = loc := by simpa using hq
      subst this
      simp [hl, hasZ]
    · cases hq2 : op.lookup q <;> simp [hq]
  | some p =>
    have hp : p = .Z := h _ (lookup_mem hl)
    subst hp
    simp only [beq_self_eq_true, if_true]
    unfold zPartOf
    by_cases hq : q == loc
    · have : q = loc := by simpa using hq
      subst this
      simp [lookup_filter_self, hl, hasZ]
    · have hq' : (q == loc) = false := by simpa using hq
      rw [lookup_filter_ne op loc q hq']
      cases hq2 : op.lookup q <;> simp [hq']

theorem residualZ_site (ez : Loc → Bool) (op : Op) (loc : Loc) (h : ZOnly op) :
    residualZ ez (site op .Z loc) = fun q => residualZ ez op q != (q == loc) := by
  funext q
  unfold residualZ
  rw [zPartOf_site op loc q h]
  cases ez q <;> cases zPartOf op q <;> cases (q == loc) <;> rfl

/-- the X part of a Z-only operator is empty -/
theorem xPartOf_zOnly (op : Op) (q : Loc) (h : ZOnly op) : xPartOf op q = false := by
  unfold xPartOf
  cases hl : op.lookup q with
  | none => rfl
  | some p =>
    have hp : p = .Z := h _ (lookup_mem hl)
    subst hp
    rfl

/-- `to_bsf` of a Z-only dict: the X block is zero -/
theorem toBsf_xblock_zero (lat : Lattice) (op : Op) (h : ZOnly op) (v : List Nat)
    (hv : toBsf lat op = some v) : v.take lat.qubits.length = List.replicate lat.qubits.length 0 := by
  unfold toBsf at hv
  split at hv
  · injection hv with hv
    rw [← hv, List.take_left' (by simp)]
    rw [List.eq_replicate_iff]
    refine ⟨by simp, ?_⟩
    intro b hb
    obtain ⟨q, _, rfl⟩ := List.mem_map.mp hb
    rw [List.length_eq_zero_iff, List.filter_eq_nil_iff]
    intro e he
    rw [h e he]
    simp [hasX]
  · cases hv

/-! ### `flip_edge` as a pointwise xor -/

theorem zipWith_id_of_forall {signs : Signs} {stabs : List Loc} (g : Loc → Bool)
    (h : ∀ s ∈ stabs, g s = false) :
    List.zipWith (fun b s => b != g s) signs stabs = signs.take stabs.length := by
  induction stabs generalizing signs with
  | nil => simp
  | cons s stabs ih =>
    cases signs with
    | nil => simp
    | cons b bs =>
      simp only [List.zipWith_cons_cons, List.length_cons, List.take_succ_cons]
      rw [h s List.mem_cons_self, ih (fun t ht => h t (List.mem_cons_of_mem _ ht))]
      simp

/-- toggling the entry at `stabilizer_index[f]` = xor with the indicator of `f`
    (locations distinct; a location that is no stabilizer changes nothing) -/
theorem toggleAt_idx (stabs : List Loc) (hnd : stabs.Nodup) (f : Loc) (signs : Signs)
    (hlen : signs.length = stabs.length) :
    toggleAt signs (stabs.idxOf f) = List.zipWith (fun b s => b != (f == s)) signs stabs := by
  unfold toggleAt
  induction stabs generalizing signs with
  | nil =>
    cases signs with
    | nil => rfl
    | cons b bs => simp at hlen
  | cons s stabs ih =>
    cases signs with
    | nil => simp at hlen
    | cons b bs =>
      have hlen' : bs.length = stabs.length := by simpa using hlen
      rw [List.nodup_cons] at hnd
      by_cases hs : s == f
      · have hsf : s = f := by simpa using hs
        subst hsf
        have h0 : List.idxOf s (s :: stabs) = 0 := by simp [List.idxOf_cons]
        rw [h0]
        simp only [List.modify_zero_cons, List.zipWith_cons_cons, beq_self_eq_true]
        have : List.zipWith (fun b t => b != (s == t)) bs stabs = bs.take stabs.length := by
          apply zipWith_id_of_forall (fun t => s == t)
          intro t ht
          simp only [beq_eq_false_iff_ne]
          intro h
          exact hnd.1 (h ▸ ht)
        rw [this, ← hlen', List.take_length]
        simp
      · have hsf : ¬ s = f := by simpa using hs
        have hfs : (f == s) = false := by
          simp only [beq_eq_false_iff_ne]; exact fun h => hsf h.symm
        have h1 : List.idxOf f (s :: stabs) = List.idxOf f stabs + 1 := by
          simp [List.idxOf_cons, hs]
        rw [h1]
        simp only [List.modify_succ_cons, List.zipWith_cons_cons, hfs]
        rw [ih hnd.2 bs hlen']
        simp

theorem zipWith_zipWith_left (g h : Bool → Loc → Bool) (signs : Signs) (stabs : List Loc) :
    List.zipWith g (List.zipWith h signs stabs) stabs =
      List.zipWith (fun b s => g (h b s) s) signs stabs := by
  induction stabs generalizing signs with
  | nil => simp
  | cons s stabs ih =>
    cases signs with
    | nil => simp
    | cons b bs => simp [ih]

/-- effect of a whole `flip_edge`: every row is xored with the parity of its multiplicity
    in the list of toggled faces -/
theorem foldl_toggle (stabs : List Loc) (hnd : stabs.Nodup) (fl : List Loc) (signs : Signs)
    (hlen : signs.length = stabs.length) :
    fl.foldl (fun s f => toggleAt s (stabs.idxOf f)) signs =
      List.zipWith (fun b s => b != oddCount fl s) signs stabs := by
  induction fl generalizing signs with
  | nil =>
    simp only [List.foldl_nil, oddCount, xorSum_nil]
    rw [zipWith_id_of_forall (fun _ => false) (fun _ _ => rfl), ← hlen, List.take_length]
  | cons f fl ih =>
    simp only [List.foldl_cons]
    rw [toggleAt_idx stabs hnd f signs hlen]
    rw [ih]
    · rw [zipWith_zipWith_left]
      congr 1
      funext b s
      simp only [oddCount, xorSum_cons]
      cases b <;> cases (f == s) <;> cases xorSum fl (fun f => f == s) <;> rfl
    · simp [hlen]

theorem zipWith_map_self (g : Loc → Bool) (h : Bool → Loc → Bool) (stabs : List Loc) :
    List.zipWith h (stabs.map g) stabs = stabs.map (fun s => h (g s) s) := by
  induction stabs with
  | nil => rfl
  | cons s stabs ih => simp [ih]

/-! ### one flipped edge -/

theorem faceSynK_length (keep : Loc → Bool) (lat : Lattice) (x z : Loc → Bool) :
    (faceSynK keep lat x z).length = lat.stabs.length := by
  simp [faceSynK]

theorem faceSyn_length (lat : Lattice) (z : Loc → Bool) : (faceSyn lat z).length = lat.stabs.length := by
  simp [faceSyn]

theorem flipOKK_spec {keep : Loc → Bool} {lat : Lattice} {faces : Loc → Option (List Loc)} {loc : Loc}
    (h : flipOKK keep lat faces loc = true) :
    ∃ fl, faces loc = some fl ∧ ∀ s ∈ lat.stabs, oddCount fl s = faceHasK keep lat s loc := by
  unfold flipOKK at h
  cases hf : faces loc with
  | none => simp [hf] at h
  | some fl =>
    refine ⟨fl, rfl, ?_⟩
    simp only [hf, List.all_eq_true, beq_iff_eq] at h
    exact h

/-- ONE-STEP LEMMA, for any choice `keep` of the face rows and any X part of the error:
    flipping an edge on which the flip table is consistent, together with the toggle update of
    the correction, preserves the invariant. -/
theorem flip_stepK (keep : Loc → Bool) (lat : Lattice) (faces : Loc → Option (List Loc))
    (hnd : lat.stabs.Nodup) (ex ez : Loc → Bool) (st : State) (loc : Loc)
    (hT : TracksK keep lat ex ez st) (hZ : ZOnly st.corr) (hok : flipOKK keep lat faces loc = true) :
    ∃ s', flipWith lat faces loc st.signs = some s' ∧
      TracksK keep lat ex ez ⟨s', site st.corr .Z loc⟩ ∧ ZOnly (site st.corr .Z loc) := by
  obtain ⟨fl, hfl, hcount⟩ := flipOKK_spec hok
  unfold TracksK at hT
  refine ⟨fl.foldl (fun s f => toggleAt s (lat.stabIdx f)) st.signs, by simp [flipWith, hfl], ?_,
    zOnly_site _ _ hZ⟩
  unfold TracksK
  simp only
  unfold Lattice.stabIdx
  rw [foldl_toggle lat.stabs hnd fl st.signs (by rw [hT, faceSynK_length])]
  rw [residualZ_site ez st.corr loc hZ, hT]
  unfold faceSynK
  rw [zipWith_map_self]
  apply List.map_congr_left
  intro s hs
  rw [hcount s hs, rowSyn_toggleX]
  unfold faceHasK
  cases keep s <;> simp

/-- MANY EDGES: the second loop of `sweep_move` -/
theorem applyFlips_tracksK (keep : Loc → Bool) (lat : Lattice) (faces : Loc → Option (List Loc))
    (hnd : lat.stabs.Nodup) (ex ez : Loc → Bool) (locs : List Loc) (st : State)
    (hT : TracksK keep lat ex ez st) (hZ : ZOnly st.corr)
    (hok : ∀ loc ∈ locs, flipOKK keep lat faces loc = true) :
    ∃ st', applyFlips lat faces site locs st = some st' ∧ TracksK keep lat ex ez st' ∧
      ZOnly st'.corr := by
  induction locs generalizing st with
  | nil => exact ⟨st, rfl, hT, hZ⟩
  | cons loc rest ih =>
    obtain ⟨s', hs', hT', hZ'⟩ :=
      flip_stepK keep lat faces hnd ex ez st loc hT hZ (hok loc List.mem_cons_self)
    obtain ⟨st', hst', h1, h2⟩ :=
      ih ⟨s', site st.corr .Z loc⟩ hT' hZ' (fun l hl => hok l (List.mem_cons_of_mem _ hl))
    exact ⟨st', by simp [applyFlips, hs', hst'], h1, h2⟩

/-! #### `SweepDecoder3D`: face rows = rows not flagged in `z_indices` -/

theorem tracks_iff_K (lat : Lattice) (ez : Loc → Bool) (st : State) :
    Tracks lat ez st ↔ TracksK (fun s => !lat.zIndex s) lat (fun _ => false) ez st := Iff.rfl

theorem flipOK_eq_K (lat : Lattice) (faces : Loc → Option (List Loc)) (loc : Loc) :
    flipOK lat faces loc = flipOKK (fun s => !lat.zIndex s) lat faces loc := rfl

theorem flipOK_spec {lat : Lattice} {faces : Loc → Option (List Loc)} {loc : Loc}
    (h : flipOK lat faces loc = true) :
    ∃ fl, faces loc = some fl ∧ ∀ s ∈ lat.stabs, oddCount fl s = faceHas lat s loc :=
  flipOKK_spec (keep := fun s => !lat.zIndex s) h

/-- ONE-STEP LEMMA: flipping an edge on which the flip table is consistent, together with the
    toggle update of the correction, preserves the invariant. -/
theorem flip_step (lat : Lattice) (faces : Loc → Option (List Loc)) (hnd : lat.stabs.Nodup)
    (ez : Loc → Bool) (st : State) (loc : Loc)
    (hT : Tracks lat ez st) (hZ : ZOnly st.corr) (hok : flipOK lat faces loc = true) :
    ∃ s', flipWith lat faces loc st.signs = some s' ∧
      Tracks lat ez ⟨s', site st.corr .Z loc⟩ ∧ ZOnly (site st.corr .Z loc) :=
  flip_stepK (fun s => !lat.zIndex s) lat faces hnd (fun _ => false) ez st loc hT hZ hok

/-- MANY EDGES: the second loop of `sweep_move` -/
theorem applyFlips_tracks (lat : Lattice) (faces : Loc → Option (List Loc)) (hnd : lat.stabs.Nodup)
    (ez : Loc → Bool) (locs : List Loc) (st : State)
    (hT : Tracks lat ez st) (hZ : ZOnly st.corr) (hok : ∀ loc ∈ locs, flipOK lat faces loc = true) :
    ∃ st', applyFlips lat faces site locs st = some st' ∧ Tracks lat ez st' ∧ ZOnly st'.corr :=
  applyFlips_tracksK (fun s => !lat.zIndex s) lat faces hnd (fun _ => false) ez locs st hT hZ hok

/-! #### `RotatedSweepDecoder3D`: face rows = rows of type `'face'` -/

/-- a Z-only correction leaves the X part of the error alone -/
theorem residualX_zOnly (ex : Loc → Bool) (op : Op) (h : ZOnly op) : residualX ex op = ex := by
  funext q
  simp [residualX, xPartOf_zOnly op q h]

theorem tracksRot_iff_K (lat : Lattice) (ex ez : Loc → Bool) (st : State) (hZ : ZOnly st.corr) :
    TracksRot lat ex ez st ↔ TracksK lat.isFace lat ex ez st := by
  unfold TracksRot TracksK faceSynRot
  rw [residualX_zOnly ex st.corr hZ]

theorem flipOKRot_spec {lat : Lattice} {faces : Loc → Option (List Loc)} {loc : Loc}
    (h : flipOKRot lat faces loc = true) :
    ∃ fl, faces loc = some fl ∧ ∀ s ∈ lat.stabs, oddCount fl s = faceHasRot lat s loc :=
  flipOKK_spec (keep := lat.isFace) h

/-- ONE-STEP LEMMA for the rotated decoder (any Pauli error: X part `ex`, Z part `ez`) -/
theorem flip_stepRot (lat : Lattice) (faces : Loc → Option (List Loc)) (hnd : lat.stabs.Nodup)
    (ex ez : Loc → Bool) (st : State) (loc : Loc)
    (hT : TracksRot lat ex ez st) (hZ : ZOnly st.corr) (hok : flipOKRot lat faces loc = true) :
    ∃ s', flipWith lat faces loc st.signs = some s' ∧
      TracksRot lat ex ez ⟨s', site st.corr .Z loc⟩ ∧ ZOnly (site st.corr .Z loc) := by
  obtain ⟨s', h1, h2, h3⟩ := flip_stepK lat.isFace lat faces hnd ex ez st loc
    ((tracksRot_iff_K lat ex ez st hZ).mp hT) hZ hok
  exact ⟨s', h1, (tracksRot_iff_K lat ex ez ⟨s', site st.corr .Z loc⟩ h3).mpr h2, h3⟩

theorem applyFlips_tracksRot (lat : Lattice) (faces : Loc → Option (List Loc)) (hnd : lat.stabs.Nodup)
    (ex ez : Loc → Bool) (locs : List Loc) (st : State)
    (hT : TracksRot lat ex ez st) (hZ : ZOnly st.corr)
    (hok : ∀ loc ∈ locs, flipOKRot lat faces loc = true) :
    ∃ st', applyFlips lat faces site locs st = some st' ∧ TracksRot lat ex ez st' ∧
      ZOnly st'.corr := by
  obtain ⟨st', h1, h2, h3⟩ := applyFlips_tracksK lat.isFace lat faces hnd ex ez locs st
    ((tracksRot_iff_K lat ex ez st hZ).mp hT) hZ hok
  exact ⟨st', h1, (tracksRot_iff_K lat ex ez st' h3).mpr h2, h3⟩

/-! ### loops -/

/-- the state predicate carried through every loop -/
def Good (lat : Lattice) (ez : Loc → Bool) (st : State) : Prop := Tracks lat ez st ∧ ZOnly st.corr

/-- the state predicate of the rotated decoder -/
def GoodRot (lat : Lattice) (ex ez : Loc → Bool) (st : State) : Prop :=
  TracksRot lat ex ez st ∧ ZOnly st.corr

/-- a `move` that always succeeds from good states and keeps them good -/
def Preserves (P : State → Prop) (move : State → List Dir → Option (State × List Dir)) : Prop :=
  ∀ st ds, P st → ∃ st' ds', move st ds = some (st', ds') ∧ P st'

theorem sweepLoop_preserves (P : State → Prop)
    (move : State → List Dir → Option (State × List Dir)) (hm : Preserves P move)
    (n : Nat) (st : State) (ds : List Dir) (h : P st) :
    ∃ tr stf dsf, sweepLoop move n st ds = some (tr, stf, dsf) ∧ (∀ s ∈ tr, P s) ∧ P stf := by
  induction n generalizing st ds with
  | zero => exact ⟨[], st, ds, rfl, by simp, h⟩
  | succ n ih =>
    unfold sweepLoop
    by_cases ha : st.signs.any id = true
    · obtain ⟨st', ds', hmv, hP'⟩ := hm st ds h
      obtain ⟨tr, stf, dsf, hrun, htr, hf⟩ := ih st' ds' hP'
      refine ⟨st' :: tr, stf, dsf, by simp [ha, hmv, hrun], ?_, hf⟩
      intro s hs
      cases List.mem_cons.mp hs with
      | inl h1 => rw [h1]; exact hP'
      | inr h1 => exact htr s h1
    · exact ⟨[], st, ds, by simp [ha], by simp, h⟩

theorem dirsLoopRot_preserves (P : State → Prop) (lat : Lattice) (maxSweeps : Nat)
    (hm : ∀ sd, Preserves P (sweepMoveRot lat sd))
    (sds : List SweepDir) (st : State) (ds : List Dir) (h : P st) :
    ∃ tr stf dsf, dirsLoopRot lat maxSweeps sds st ds = some (tr, stf, dsf) ∧
      (∀ s ∈ tr, P s) ∧ P stf := by
  induction sds generalizing st ds with
  | nil => exact ⟨[], st, ds, rfl, by simp, h⟩
  | cons sd sds ih =>
    obtain ⟨tr1, st1, ds1, h1, ht1, hP1⟩ :=
      sweepLoop_preserves P (sweepMoveRot lat sd) (hm sd) maxSweeps st ds h
    obtain ⟨tr2, st2, ds2, h2, ht2, hP2⟩ := ih st1 ds1 hP1
    refine ⟨tr1 ++ tr2, st2, ds2, by simp [dirsLoopRot, h1, h2], ?_, hP2⟩
    intro s hs
    cases List.mem_append.mp hs with
    | inl h3 => exact ht1 s h3
    | inr h3 => exact ht2 s h3

theorem roundsLoopRot_preserves (P : State → Prop) (lat : Lattice) (maxSweeps : Nat)
    (hm : ∀ sd, Preserves P (sweepMoveRot lat sd))
    (n : Nat) (st : State) (ds : List Dir) (h : P st) :
    ∃ tr stf dsf, roundsLoopRot lat maxSweeps n st ds = some (tr, stf, dsf) ∧
      (∀ s ∈ tr, P s) ∧ P stf := by
  induction n generalizing st ds with
  | zero => exact ⟨[], st, ds, rfl, by simp, h⟩
  | succ n ih =>
    unfold roundsLoopRot
    by_cases ha : st.signs.any id = true
    · obtain ⟨tr1, st1, ds1, h1, ht1, hP1⟩ :=
        dirsLoopRot_preserves P lat maxSweeps hm sweepDirections st ds h
      obtain ⟨tr2, st2, ds2, h2, ht2, hP2⟩ := ih st1 ds1 hP1
      refine ⟨tr1 ++ tr2, st2, ds2, by simp [ha, h1, h2], ?_, hP2⟩
      intro s hs
      cases List.mem_append.mp hs with
      | inl h3 => exact ht1 s h3
      | inr h3 => exact ht2 s h3
    · exact ⟨[], st, ds, by simp [ha], by simp, h⟩

/-! ### the sweep rule only proposes edges on which the table is consistent -/

theorem sweepRule_mem {xf yf zf : Bool} {xe ye ze : Loc} {ds : List Dir} {loc : Loc}
    (h : loc ∈ (sweepRule xf yf zf xe ye ze ds).1) :
    (loc = xe ∧ yf = true ∧ zf = true) ∨ (loc = ye ∧ xf = true ∧ zf = true) ∨
    (loc = ze ∧ xf = true ∧ yf = true) := by
  unfold sweepRule at h
  cases xf <;> cases yf <;> cases zf <;> simp at h
  · exact Or.inl ⟨h, rfl, rfl⟩
  · exact Or.inr (Or.inl ⟨h, rfl, rfl⟩)
  · exact Or.inr (Or.inr ⟨h, rfl, rfl⟩)
  · unfold pick at h
    split at h
    · exact Or.inl ⟨h, rfl, rfl⟩
    · exact Or.inr (Or.inl ⟨h, rfl, rfl⟩)
    · exact Or.inr (Or.inr ⟨h, rfl, rfl⟩)

theorem signAt_isStab {lat : Lattice} {signs : Signs} {loc : Loc} (h : signAt lat signs loc = true) :
    lat.isStab loc = true := by
  unfold signAt at h
  simp only [Bool.and_eq_true] at h
  exact h.1

theorem flipLocations3D_ok (lat : Lattice) (hft : flipTableOK lat (flipFaces3D lat) = true)
    (hse : sweepEdgesOK3D lat = true) (signs : Signs) (vs : List Loc)
    (hvs : ∀ v ∈ vs, v ∈ sweepVertices3D lat) (ds : List Dir) :
    ∀ loc ∈ (flipLocations3D lat signs vs ds).1, flipOK lat (flipFaces3D lat) loc = true := by
  induction vs generalizing ds with
  | nil => intro loc h; simp [flipLocations3D] at h
  | cons v vs ih =>
    intro loc h
    unfold flipLocations3D at h
    simp only [List.mem_append] at h
    cases h with
    | inr h2 => exact ih (fun w hw => hvs w (List.mem_cons_of_mem _ hw)) _ loc h2
    | inl h1 =>
      have hv := hvs v List.mem_cons_self
      unfold sweepEdgesOK3D at hse
      rw [List.all_eq_true] at hse
      have hsv := hse v hv
      simp only [Bool.and_eq_true, Bool.or_eq_true, Bool.not_eq_true'] at hsv
      unfold flipTableOK at hft
      rw [List.all_eq_true] at hft
      have hq : lat.isQubit loc = true := by
        rcases sweepRule_mem h1 with ⟨rfl, hy, hz⟩ | ⟨rfl, hx, hz⟩ | ⟨rfl, hx, hy⟩
        · rcases hsv.1.1 with h3 | h3
          · simp [signAt_isStab hy, signAt_isStab hz] at h3
          · exact h3
        · rcases hsv.1.2 with h3 | h3
          · simp [signAt_isStab hx, signAt_isStab hz] at h3
          · exact h3
        · rcases hsv.2 with h3 | h3
          · simp [signAt_isStab hx, signAt_isStab hy] at h3
          · exact h3
      apply hft loc
      simpa [Lattice.isQubit] using hq

theorem flipLocationsRot_ok (lat : Lattice) (hft : flipTableOKRot lat (flipFacesRot lat) = true)
    (signs : Signs) (sd : SweepDir) (vs : List Loc) (ds : List Dir) :
    ∀ loc ∈ (flipLocationsRot lat signs sd vs ds).1, flipOKRot lat (flipFacesRot lat) loc = true := by
  induction vs generalizing ds with
  | nil => intro loc h; simp [flipLocationsRot] at h
  | cons v vs ih =>
    intro loc h
    unfold flipLocationsRot at h
    simp only [List.mem_append] at h
    cases h with
    | inr h2 => exact ih _ loc h2
    | inl h1 =>
      unfold flipTableOKRot at hft
      rw [List.all_eq_true] at hft
      split at h1
      · rename_i hvalid
        simp only [Bool.and_eq_true] at hvalid
        have hq : lat.isQubit loc = true := by
          rcases sweepRule_mem h1 with ⟨rfl, _, _⟩ | ⟨rfl, _, _⟩ | ⟨rfl, _, _⟩
          · exact hvalid.1.1.2
          · exact hvalid.1.2
          · exact hvalid.2
        apply hft loc
        simpa [Lattice.isQubit] using hq
      · simp at h1

/-- `SweepDecoder3D.sweep_move` keeps good states good (and never raises) -/
theorem sweepMove3D_preserves (lat : Lattice) (hnd : lat.stabs.Nodup)
    (hft : flipTableOK lat (flipFaces3D lat) = true) (hse : sweepEdgesOK3D lat = true)
    (ez : Loc → Bool) : Preserves (Good lat ez) (sweepMove3D lat) := by
  intro st ds ⟨hT, hZ⟩
  obtain ⟨st', h1, h2, h3⟩ := applyFlips_tracks lat (flipFaces3D lat) hnd ez
    (flipLocations3D lat st.signs (sweepVertices3D lat) ds).1 st hT hZ
    (flipLocations3D_ok lat hft hse st.signs _ (fun _ h => h) ds)
  exact ⟨st', (flipLocations3D lat st.signs (sweepVertices3D lat) ds).2,
    by simp [sweepMove3D, sweepMove3DWith, h1], h2, h3⟩

/-- `RotatedSweepDecoder3D.sweep_move` keeps good states good, for every sweep direction -/
theorem sweepMoveRot_preserves (lat : Lattice) (hnd : lat.stabs.Nodup)
    (hft : flipTableOKRot lat (flipFacesRot lat) = true) (ex ez : Loc → Bool) (sd : SweepDir) :
    Preserves (GoodRot lat ex ez) (sweepMoveRot lat sd) := by
  intro st ds ⟨hT, hZ⟩
  obtain ⟨st', h1, h2, h3⟩ := applyFlips_tracksRot lat (flipFacesRot lat) hnd ex ez
    (flipLocationsRot lat st.signs sd (sweepVerticesRot lat) ds).1 st hT hZ
    (flipLocationsRot_ok lat hft st.signs sd _ ds)
  exact ⟨st', (flipLocationsRot lat st.signs sd (sweepVerticesRot lat) ds).2,
    by simp [sweepMoveRot, h1], h2, h3⟩

/-- the initial state of `decode` is good -/
theorem initial_good (lat : Lattice) (ex ez : Loc → Bool) :
    Good lat ez ⟨initialState lat (syndromeOf lat ex ez), []⟩ := by
  refine ⟨?_, by intro e he; simp at he⟩
  unfold Tracks
  simp only
  rw [initialState_syndrome]
  congr 1
  funext q
  simp [residualZ, zPartOf]

/-- `RotatedSweepDecoder3D.get_initial_state(measure_syndrome(e))` is the face part (rows of
    type `'face'`) of the syndrome of `e` -/
theorem initialStateRot_syndrome (lat : Lattice) (ex ez : Loc → Bool) :
    initialStateRot lat (syndromeOf lat ex ez) = faceSynRot lat ex ez := by
  unfold initialStateRot syndromeOf faceSynRot faceSynK
  rw [List.zipWith_map_right]
  rw [List.zipWith_self]
  apply List.map_congr_left
  intro s _
  cases h : lat.isFace s <;> simp

/-- the initial state of the rotated `decode` is good -/
theorem initial_goodRot (lat : Lattice) (ex ez : Loc → Bool) :
    GoodRot lat ex ez ⟨initialStateRot lat (syndromeOf lat ex ez), []⟩ := by
  refine ⟨?_, by intro e he; simp at he⟩
  unfold TracksRot
  simp only
  rw [initialStateRot_syndrome]
  congr 1
  · funext q
    simp [residualX, xPartOf]
  · funext q
    simp [residualZ, zPartOf]

end Panqec.Sweep
