/-
Color488Code, square sizes `L ≥ 1`: the triangular-probe certificate for the family `sel`
(`Proofs/LatColor488CodeRank.lean`): every probe is a corner of its own face, and a face `t ≠ s`
containing the probe of `s` is one of the two other faces around that qubit, which are removed or
of strictly smaller rank.  Core Lean only.
-/
import PanqecVerif.Proofs.LatColor488CodeRank

set_option linter.unusedVariables false
set_option linter.unusedSimpArgs false

namespace Panqec.Color488Code
open Panqec.Lat2D Panqec.Color

theorem probe_mem_own {L : Nat} (hL : 1 ≤ L) {x y : Int} (hc : IsC L x y)
    (h1 : ¬ (x = 0 ∧ y = 4)) (h2 : ¬ (x = 4 ∧ y = 0)) : probeQubit x y ∈ supp L x y := by
  unfold supp
  rcases probeQubit_spec hL hc h1 h2 with ⟨_, h8, e⟩ | ⟨_, h8, e⟩ | ⟨hx, hy, e⟩ | ⟨_, _, h8, e⟩ |
    ⟨_, _, h8, e⟩ | ⟨_, _, h8, e⟩ | ⟨_, _, h8, e⟩
  · rw [e, if_pos h8]; simp [sqC]
  · rw [e, if_neg h8]; simp [ocC]
  · rw [e, if_pos (by omega)]; simp [sqC]
  · rw [e, if_pos h8]; simp [sqC]
  · rw [e, if_neg h8]; simp [ocC]
  · rw [e, if_pos h8]; simp [sqC]
  · rw [e, if_neg h8]; simp [ocC]

theorem isC_isF {L : Nat} {x y : Int} (h : IsC L x y) : IsF L x y := by
  unfold IsC at h; unfold IsF; omega

/-- a selected face of rank at least that of `s`, other than `s`, does not contain the probe of `s` -/
theorem probe_not_mem {L : Nat} (hL : 1 ≤ L) {x y x' y' : Int} (hc : IsC L x y)
    (h1 : ¬ (x = 0 ∧ y = 4)) (h2 : ¬ (x = 4 ∧ y = 0)) (hc' : IsC L x' y')
    (h1' : ¬ (x' = 0 ∧ y' = 4)) (h2' : ¬ (x' = 4 ∧ y' = 0)) (hne : ¬ (x = x' ∧ y = y'))
    (hle : rankI L x y ≤ rankI L x' y') : probeQubit x y ∉ supp L x' y' := by
  intro hmem
  have h4x := diff_mod4 (L := L) hc.1 hc'.1
  have h4y := diff_mod4 (L := L) hc.2.1 hc'.2.1
  have rs := rankI_spec L x y
  have rt := rankI_spec L x' y'
  unfold IsC at hc hc'
  have hex := emod_diff (m := 8 * (L : Int)) (a := x) (b := x') (by omega) (by omega) (by omega)
    (by omega)
  have hey := emod_diff (m := 8 * (L : Int)) (a := y) (b := y') (by omega) (by omega) (by omega)
    (by omega)
  unfold supp at hmem
  by_cases h8' : (x' + y') % 8 = 0
  · rw [if_pos h8'] at hmem
    rcases probeQubit_spec hL (by unfold IsC; omega) h1 h2 with ⟨_, h8, e⟩ | ⟨_, h8, e⟩ |
      ⟨hx, hy, e⟩ | ⟨_, _, h8, e⟩ | ⟨_, _, h8, e⟩ | ⟨_, _, h8, e⟩ | ⟨_, _, h8, e⟩
    · rw [e, ss3 hL h4x h4y] at hmem; omega
    · rw [e, os6 hL h4x h4y] at hmem; omega
    · rw [e, ss2 hL h4x h4y] at hmem; omega
    · rw [e, ss4 hL h4x h4y] at hmem; omega
    · rw [e, os1 hL h4x h4y] at hmem; omega
    · rw [e, ss1 hL h4x h4y] at hmem; omega
    · rw [e, os8 hL h4x h4y] at hmem; omega
  · rw [if_neg h8'] at hmem
    rcases probeQubit_spec hL (by unfold IsC; omega) h1 h2 with ⟨_, h8, e⟩ | ⟨_, h8, e⟩ |
      ⟨hx, hy, e⟩ | ⟨_, _, h8, e⟩ | ⟨_, _, h8, e⟩ | ⟨_, _, h8, e⟩ | ⟨_, _, h8, e⟩
    · rw [e, so3 hL h4x h4y] at hmem; omega
    · rw [e, oo6 hL h4x h4y] at hmem; omega
    · rw [e, so2 hL h4x h4y] at hmem; omega
    · rw [e, so4 hL h4x h4y] at hmem; omega
    · rw [e, oo1 hL h4x h4y] at hmem; omega
    · rw [e, so1 hL h4x h4y] at hmem; omega
    · rw [e, oo8 hL h4x h4y] at hmem; omega

theorem rankI_nonneg {L : Nat} {x y : Int} (hc : IsC L x y) : 0 ≤ rankI L x y := by
  have := rankI_spec L x y
  unfold IsC at hc
  omega

theorem probe_count {L : Nat} (hL : 1 ≤ L) {x y p x' y' p' : Int} (ht : [x', y', p'] ∈ stabs L L) :
    opAntiCount [probe [x, y, p]] ((lattice L L).getStab [x', y', p']) =
      if Pauli.anti (probe [x, y, p]).2 (letter p') = true ∧ (probe [x, y, p]).1 ∈ supp L x' y'
      then 1 else 0 := by
  rw [getStab_eq hL ht]
  exact opAntiCount_probe _ _ _ _

theorem triangular {L : Nat} (hL : 1 ≤ L) :
    TriangularProbes (lattice L L) (sel L) probe (rankOf L) where
  on_qubits := by
    intro s hs
    obtain ⟨x, y, p, rfl, hc, h1, h2, _⟩ := mem_sel.mp hs
    refine ⟨?_, by show (if p = 0 then Pauli.Z else Pauli.X) ≠ Pauli.I; by_cases hp : p = 0 <;> simp [hp]⟩
    show probeQubit x y ∈ qubits L L
    exact (mem_qubits_faces hL).mpr ⟨x, y, isC_isF hc, probe_mem_own hL hc h1 h2⟩
  diag := by
    intro s hs
    obtain ⟨x, y, p, rfl, hc, h1, h2, _⟩ := mem_sel.mp hs
    rw [probe_count hL (sel_subset _ hs)]
    have ha : Pauli.anti (probe [x, y, p]).2 (letter p) = true := by
      show Pauli.anti (if p = 0 then Pauli.Z else Pauli.X) (letter p) = true
      unfold letter; by_cases hp : p = 0 <;> simp [hp] <;> decide
    rw [if_pos ⟨ha, probe_mem_own hL hc h1 h2⟩]
  later := by
    intro s hs t ht hne hle
    obtain ⟨x, y, p, rfl, hc, h1, h2, hp⟩ := mem_sel.mp hs
    obtain ⟨x', y', p', rfl, hc', h1', h2', hp'⟩ := mem_sel.mp ht
    rw [probe_count hL (sel_subset _ ht)]
    by_cases hpp : p = p'
    · subst hpp
      have hne' : ¬ (x = x' ∧ y = y') := fun e => hne (by rw [e.1, e.2])
      have hle' : rankI L x y ≤ rankI L x' y' := by
        have a := rankI_nonneg hc; have b := rankI_nonneg hc'
        have : (rankI L x y).toNat ≤ (rankI L x' y').toNat := hle
        omega
      have hm := probe_not_mem hL hc h1 h2 hc' h1' h2' hne' hle'
      rw [if_neg (fun e => hm e.2)]
    · have ha : Pauli.anti (probe [x, y, p]).2 (letter p') = false := by
        show Pauli.anti (if p = 0 then Pauli.Z else Pauli.X) (letter p') = false
        unfold letter
        rcases hp with rfl | rfl <;> rcases hp' with rfl | rfl <;>
          first | (exact absurd rfl hpp) | decide
      rw [if_neg (fun e => by rw [ha] at e; exact absurd e.1 (by decide))]

/-- the selected generators are independent, for every `L ≥ 1` -/
theorem indep_sel {L : Nat} (hL : 1 ≤ L) : IndepGenerators (lattice L L) (sel L) :=
  indep_of_triangular (triangular hL)

end Panqec.Color488Code
