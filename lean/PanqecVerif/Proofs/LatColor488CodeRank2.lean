/-
Color488Code, all sizes `Lx, Ly ≥ 1`: the triangular-probe certificate for the family `sel`
(`Proofs/LatColor488CodeRank.lean`): every probe is a corner of its own face, and a face `t ≠ s`
containing the probe of `s` is one of the two other faces around that qubit, which are removed or
of strictly smaller rank.  Core Lean only.
-/
import PanqecVerif.Proofs.LatColor488CodeRank

set_option linter.unusedVariables false
set_option linter.unusedSimpArgs false

namespace Panqec.Color488Code
open Panqec.Lat2D Panqec.Color

theorem probe_mem_own {Lx Ly : Nat} (hx : 1 ≤ Lx) (hy : 1 ≤ Ly) {x y : Int} (hc : IsC Lx Ly x y)
    (h1 : ¬ (x = 0 ∧ y = 4)) (h2 : ¬ (x = 4 ∧ y = 0)) : probeQubit x y ∈ supp Lx Ly x y := by
  unfold supp
  rcases probeQubit_spec hx hy hc h1 h2 with ⟨_, h8, e⟩ | ⟨_, h8, e⟩ | ⟨hx0, hy0, e⟩ | ⟨_, _, h8, e⟩ |
    ⟨_, _, h8, e⟩ | ⟨_, _, h8, e⟩ | ⟨_, _, h8, e⟩
  · rw [e, if_pos h8]; simp [sqC]
  · rw [e, if_neg h8]; simp [ocC]
  · rw [e, if_pos (by omega)]; simp [sqC]
  · rw [e, if_pos h8]; simp [sqC]
  · rw [e, if_neg h8]; simp [ocC]
  · rw [e, if_pos h8]; simp [sqC]
  · rw [e, if_neg h8]; simp [ocC]

theorem isC_isF {Lx Ly : Nat} {x y : Int} (h : IsC Lx Ly x y) : IsF Lx Ly x y := by
  unfold IsC at h; unfold IsF; omega

/-- a selected face of rank at least that of `s`, other than `s`, does not contain the probe of `s` -/
theorem probe_not_mem {Lx Ly : Nat} (hx : 1 ≤ Lx) (hy : 1 ≤ Ly) {x y x' y' : Int} (hc : IsC Lx Ly x y)
    (h1 : ¬ (x = 0 ∧ y = 4)) (h2 : ¬ (x = 4 ∧ y = 0)) (hc' : IsC Lx Ly x' y')
    (h1' : ¬ (x' = 0 ∧ y' = 4)) (h2' : ¬ (x' = 4 ∧ y' = 0)) (hne : ¬ (x = x' ∧ y = y'))
    (hle : rankI Lx Ly x y ≤ rankI Lx Ly x' y') : probeQubit x y ∉ supp Lx Ly x' y' := by
  intro hmem
  have h4x := diff_mod4 (L := Lx) hc.1 hc'.1
  have h4y := diff_mod4 (L := Ly) hc.2.1 hc'.2.1
  have rs := rankI_spec Lx Ly x y
  have rt := rankI_spec Lx Ly x' y'
  unfold IsC at hc hc'
  have hex := emod_diff (m := 8 * (Lx : Int)) (a := x) (b := x') (by omega) (by omega) (by omega)
    (by omega)
  have hey := emod_diff (m := 8 * (Ly : Int)) (a := y) (b := y') (by omega) (by omega) (by omega)
    (by omega)
  unfold supp at hmem
  by_cases h8' : (x' + y') % 8 = 0
  · rw [if_pos h8'] at hmem
    rcases probeQubit_spec hx hy (by unfold IsC; omega) h1 h2 with ⟨_, h8, e⟩ | ⟨_, h8, e⟩ |
      ⟨hx0, hy0, e⟩ | ⟨_, _, h8, e⟩ | ⟨_, _, h8, e⟩ | ⟨_, _, h8, e⟩ | ⟨_, _, h8, e⟩
    · rw [e, ss3 hx hy h4x h4y] at hmem; omega
    · rw [e, os6 hx hy h4x h4y] at hmem; omega
    · rw [e, ss2 hx hy h4x h4y] at hmem; omega
    · rw [e, ss4 hx hy h4x h4y] at hmem; omega
    · rw [e, os1 hx hy h4x h4y] at hmem; omega
    · rw [e, ss1 hx hy h4x h4y] at hmem; omega
    · rw [e, os8 hx hy h4x h4y] at hmem; omega
  · rw [if_neg h8'] at hmem
    rcases probeQubit_spec hx hy (by unfold IsC; omega) h1 h2 with ⟨_, h8, e⟩ | ⟨_, h8, e⟩ |
      ⟨hx0, hy0, e⟩ | ⟨_, _, h8, e⟩ | ⟨_, _, h8, e⟩ | ⟨_, _, h8, e⟩ | ⟨_, _, h8, e⟩
    · rw [e, so3 hx hy h4x h4y] at hmem; omega
    · rw [e, oo6 hx hy h4x h4y] at hmem; omega
    · rw [e, so2 hx hy h4x h4y] at hmem; omega
    · rw [e, so4 hx hy h4x h4y] at hmem; omega
    · rw [e, oo1 hx hy h4x h4y] at hmem; omega
    · rw [e, so1 hx hy h4x h4y] at hmem; omega
    · rw [e, oo8 hx hy h4x h4y] at hmem; omega

theorem rankI_nonneg {Lx Ly : Nat} {x y : Int} (hc : IsC Lx Ly x y) : 0 ≤ rankI Lx Ly x y := by
  have := rankI_spec Lx Ly x y
  unfold IsC at hc
  omega

theorem probe_count {Lx Ly : Nat} (hx : 1 ≤ Lx) (hy : 1 ≤ Ly) {x y p x' y' p' : Int} (ht : [x', y', p'] ∈ stabs Lx Ly) :
    opAntiCount [probe [x, y, p]] ((lattice Lx Ly).getStab [x', y', p']) =
      if Pauli.anti (probe [x, y, p]).2 (letter p') = true ∧ (probe [x, y, p]).1 ∈ supp Lx Ly x' y'
      then 1 else 0 := by
  rw [getStab_eq hx hy ht]
  exact opAntiCount_probe _ _ _ _

theorem triangular {Lx Ly : Nat} (hx : 1 ≤ Lx) (hy : 1 ≤ Ly) :
    TriangularProbes (lattice Lx Ly) (sel Lx Ly) probe (rankOf Lx Ly) where
  on_qubits := by
    intro s hs
    obtain ⟨x, y, p, rfl, hc, h1, h2, _⟩ := mem_sel.mp hs
    refine ⟨?_, by show (if p = 0 then Pauli.Z else Pauli.X) ≠ Pauli.I; by_cases hp : p = 0 <;> simp [hp]⟩
    show probeQubit x y ∈ qubits Lx Ly
    exact (mem_qubits_faces hx hy).mpr ⟨x, y, isC_isF hc, probe_mem_own hx hy hc h1 h2⟩
  diag := by
    intro s hs
    obtain ⟨x, y, p, rfl, hc, h1, h2, _⟩ := mem_sel.mp hs
    rw [probe_count hx hy (sel_subset _ hs)]
    have ha : Pauli.anti (probe [x, y, p]).2 (letter p) = true := by
      show Pauli.anti (if p = 0 then Pauli.Z else Pauli.X) (letter p) = true
      unfold letter; by_cases hp : p = 0 <;> simp [hp] <;> decide
    rw [if_pos ⟨ha, probe_mem_own hx hy hc h1 h2⟩]
  later := by
    intro s hs t ht hne hle
    obtain ⟨x, y, p, rfl, hc, h1, h2, hp⟩ := mem_sel.mp hs
    obtain ⟨x', y', p', rfl, hc', h1', h2', hp'⟩ := mem_sel.mp ht
    rw [probe_count hx hy (sel_subset _ ht)]
    by_cases hpp : p = p'
    · subst hpp
      have hne' : ¬ (x = x' ∧ y = y') := fun e => hne (by rw [e.1, e.2])
      have hle' : rankI Lx Ly x y ≤ rankI Lx Ly x' y' := by
        have a := rankI_nonneg hc; have b := rankI_nonneg hc'
        have : (rankI Lx Ly x y).toNat ≤ (rankI Lx Ly x' y').toNat := hle
        omega
      have hm := probe_not_mem hx hy hc h1 h2 hc' h1' h2' hne' hle'
      rw [if_neg (fun e => hm e.2)]
    · have ha : Pauli.anti (probe [x, y, p]).2 (letter p') = false := by
        show Pauli.anti (if p = 0 then Pauli.Z else Pauli.X) (letter p') = false
        unfold letter
        rcases hp with rfl | rfl <;> rcases hp' with rfl | rfl <;>
          first | (exact absurd rfl hpp) | decide
      rw [if_neg (fun e => by rw [ha] at e; exact absurd e.1 (by decide))]

/-- the selected generators are independent, for every `Lx, Ly ≥ 1` -/
theorem indep_sel {Lx Ly : Nat} (hx : 1 ≤ Lx) (hy : 1 ≤ Ly) : IndepGenerators (lattice Lx Ly) (sel Lx Ly) :=
  indep_of_triangular (triangular hx hy)

end Panqec.Color488Code
