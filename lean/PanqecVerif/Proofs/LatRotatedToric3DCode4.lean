/-
`RotatedToric3DCode`, supported family: `get_stabilizer` of a vertex / horizontal face / vertical
face is the signed operator on its candidate list (`KV`, `KH`, `KFX`, `KFY`).  The letter lemmas
check the defect rule of the class against the colours: 16 cases (on / off each seam, parity of
`Lx`, `Ly`) per candidate, each closed by `omega` on the coordinates mod 4.
-/
import PanqecVerif.Proofs.LatRotatedToric3DCode3
open Panqec Panqec.Lat3Db
namespace Panqec.RotatedToric3DCode

set_option linter.unusedVariables false
set_option linter.unusedSimpArgs false
set_option linter.unusedTactic false
set_option linter.unreachableTactic false

/-- the supported family -/
def Fam (Lx Ly : Nat) : Prop := 2 ≤ Lx ∧ 2 ≤ Ly ∧ ¬ (Lx % 2 = 1 ∧ Ly % 2 = 1)

theorem bne_true_iff (a b : Bool) : (a != b) = true ↔ ¬ (a = true ↔ b = true) := by
  cases a <;> cases b <;> simp

theorem not_bne_true_iff (a b : Bool) : (!(a != b)) = true ↔ (a = true ↔ b = true) := by
  cases a <;> cases b <;> simp

/-- letter of a Z-type stabilizer with defect flags on `[qx, qy, qz]` against a signed key -/
theorem letterZ_eq (db : Bool × Bool) (σ : Bool) (qx qy qz : Int)
    (h : ((db.1 && qx == 1) != (db.2 && qy == 1)) = (σ != col [qx, qy, qz])) :
    letterAt db Pauli.Z [qx, qy, qz] = dl σ [qx, qy, qz] := by
  unfold letterAt dl
  simp only [h]
  cases σ <;> cases col [qx, qy, qz] <;> rfl

/-- letter of an X-type stabilizer with defect flags on `[qx, qy, qz]` against a signed key -/
theorem letterX_eq (db : Bool × Bool) (σ : Bool) (qx qy qz : Int)
    (h : ((db.1 && qx == 1) != (db.2 && qy == 1)) = !(σ != col [qx, qy, qz])) :
    letterAt db Pauli.X [qx, qy, qz] = dl σ [qx, qy, qz] := by
  unfold letterAt dl
  simp only [h]
  cases σ <;> cases col [qx, qy, qz] <;> rfl

section vertex
variable {Lx Ly Lz : Nat} {x y z : Int}

theorem letters_vertex (hF : Fam Lx Ly) (h : SV Lx Ly Lz x y z) :
    ∀ e ∈ KV Lx Ly x y z,
      letterAt (onDefectBoundary Lx Ly x y) Pauli.Z e.1 = dl e.2 e.1 := by
  obtain ⟨hLx, hLy, hfam⟩ := hF
  obtain ⟨hx, hy, hz, h4⟩ := h
  rw [R2_Ev] at hx hy
  unfold Ev at hx hy
  unfold R1 at hz
  have hz1 : z % 2 = 1 := hz.1
  simp only [KV, List.mem_cons, List.not_mem_nil, or_false, forall_eq_or_imp, forall_eq]
  have := sw_spec Lx x; have := sw_spec Ly y
  refine ⟨?_, ?_, ?_, ?_, ?_, ?_⟩ <;> apply letterZ_eq <;> rw [Bool.eq_iff_iff] <;>
    simp only [onDefectBoundary, col, not_bne_true_iff, bne_true_iff, Bool.and_eq_true, Bool.or_eq_true, beq_iff_eq,
      Bool.false_eq_true, false_iff, true_iff, iff_true, iff_false, not_not, not_true_eq_false,
      not_false_eq_true] <;> omega

theorem getStab_vertex (hLx : 2 ≤ Lx) (hLy : 2 ≤ Ly) (h : SV Lx Ly Lz x y z) :
    getStab Lx Ly Lz [x, y, z] =
      gop (((KV Lx Ly x y z).map Prod.fst).filter (isQubit Lx Ly Lz))
        (letterAt (onDefectBoundary Lx Ly x y) Pauli.Z) := by
  have hs := isStab_of Lx Ly Lz x y z (Or.inl h)
  obtain ⟨hx, hy, hz, h4⟩ := h
  rw [R2_Ev] at hx hy
  have hv : isVertexXYZ x y z = true := by
    unfold R1 at hz; unfold isVertexXYZ; simp only [Bool.and_eq_true, beq_iff_eq]; omega
  unfold getStab getStab?
  simp only [hs, deltaOf, hv, Bool.not_true, Bool.false_eq_true, if_false, if_true,
    Option.getD_some]
  rw [buildStab_eq, nb_vertex hx hy]
  rw [nb_vertex hx hy]; exact KV_nodup hLx hLy hx hy

theorem signed_vertex (hF : Fam Lx Ly) (h : SV Lx Ly Lz x y z) :
    Signed Lx Ly Lz (getStab Lx Ly Lz [x, y, z]) (KV Lx Ly x y z) := by
  have hx := R2_Ev.mp h.1; have hy := R2_Ev.mp h.2.1
  exact ⟨KV_nodup hF.1 hF.2.1 hx hy, _, getStab_vertex hF.1 hF.2.1 h, letters_vertex hF h⟩

end vertex

section hface
variable {Lx Ly Lz : Nat} {a b c : Int}

theorem letters_hface (hF : Fam Lx Ly) (h : SH Lx Ly Lz a b c) :
    ∀ e ∈ KH Lx Ly a b c,
      letterAt (onDefectBoundary Lx Ly a b) Pauli.X e.1 = dl e.2 e.1 := by
  obtain ⟨hLx, hLy, hfam⟩ := hF
  obtain ⟨hx, hy, hz, h4⟩ := h
  rw [R2_Ev] at hx hy
  unfold Ev at hx hy
  unfold R1 at hz
  have hz1 : c % 2 = 1 := hz.1
  simp only [KH, List.mem_cons, List.not_mem_nil, or_false, forall_eq_or_imp, forall_eq]
  have := sw_spec Lx a; have := sw_spec Ly b
  refine ⟨?_, ?_, ?_, ?_⟩ <;> apply letterX_eq <;> rw [Bool.eq_iff_iff] <;>
    simp only [onDefectBoundary, col, not_bne_true_iff, bne_true_iff, Bool.and_eq_true, Bool.or_eq_true, beq_iff_eq,
      Bool.false_eq_true, false_iff, true_iff, iff_true, iff_false, not_not, not_true_eq_false,
      not_false_eq_true] <;> omega

theorem getStab_hface (hLx : 2 ≤ Lx) (hLy : 2 ≤ Ly) (h : SH Lx Ly Lz a b c) :
    getStab Lx Ly Lz [a, b, c] =
      gop (((KH Lx Ly a b c).map Prod.fst).filter (isQubit Lx Ly Lz))
        (letterAt (onDefectBoundary Lx Ly a b) Pauli.X) := by
  have hs := isStab_of Lx Ly Lz a b c (Or.inr (Or.inl h))
  obtain ⟨hx, hy, hz, h4⟩ := h
  rw [R2_Ev] at hx hy
  have hv : isVertexXYZ a b c = false := by
    unfold isVertexXYZ
    have : ¬ ((a + b) % 4 = 2) := by omega
    simp [this]
  have hz1 : (c % 2 == 1) = true := by unfold R1 at hz; simp only [beq_iff_eq]; omega
  unfold getStab getStab?
  simp only [hs, deltaOf, hv, hz1, Bool.not_true, Bool.false_eq_true, if_false, if_true,
    Option.getD_some]
  rw [buildStab_eq, nb_hface hx hy]
  rw [nb_hface hx hy]; exact KH_nodup hLx hLy hx hy

theorem signed_hface (hF : Fam Lx Ly) (h : SH Lx Ly Lz a b c) :
    Signed Lx Ly Lz (getStab Lx Ly Lz [a, b, c]) (KH Lx Ly a b c) := by
  have hx := R2_Ev.mp h.1; have hy := R2_Ev.mp h.2.1
  exact ⟨KH_nodup hF.1 hF.2.1 hx hy, _, getStab_hface hF.1 hF.2.1 h, letters_hface hF h⟩

end hface

section vface
variable {Lx Ly Lz : Nat} {f g h : Int}

/-- a vertical face is never on a defect line (its coordinates are odd) -/
theorem flags_vface (hf : Od Lx f) (hg : Od Ly g) :
    onDefectBoundary Lx Ly f g = (false, false) := by
  unfold Od at hf hg
  unfold onDefectBoundary
  have h1 : ¬ f = 2 * (Lx : Int) := by omega
  have h2 : ¬ g = 2 * (Ly : Int) := by omega
  simp [h1, h2]

theorem letters_vfaceX (hF : Fam Lx Ly) (hs : SF Lx Ly Lz f g h) (h4 : (f + g) % 4 = 0) :
    ∀ e ∈ KFX Lx Ly f g h,
      letterAt (onDefectBoundary Lx Ly f g) Pauli.X e.1 = dl e.2 e.1 := by
  obtain ⟨hLx, hLy, hfam⟩ := hF
  obtain ⟨hx, hy, hz, hdrop⟩ := hs
  rw [R1_Od] at hx hy
  rw [flags_vface hx hy]
  unfold Od at hx hy
  unfold R2 at hz
  have hz0 : h % 2 = 0 := hz.1
  have hz1 : (h - 1) % 2 = 1 := by omega
  have hz2 : (h + 1) % 2 = 1 := by omega
  simp only [KFX, List.mem_cons, List.not_mem_nil, or_false, forall_eq_or_imp, forall_eq]
  have := pw_spec Lx f; have := pw_spec Ly g
  unfold Dropped at hdrop
  refine ⟨?_, ?_, ?_, ?_⟩ <;> apply letterX_eq <;> rw [Bool.eq_iff_iff] <;>
    simp only [col, not_bne_true_iff, bne_true_iff, Bool.and_eq_true, Bool.or_eq_true, beq_iff_eq,
      Bool.false_eq_true, false_iff, true_iff, iff_true, iff_false, not_not, false_and,
      not_true_eq_false, not_false_eq_true] <;> omega

theorem letters_vfaceY (hF : Fam Lx Ly) (hs : SF Lx Ly Lz f g h) (h4 : (f + g) % 4 = 2) :
    ∀ e ∈ KFY Lx Ly f g h,
      letterAt (onDefectBoundary Lx Ly f g) Pauli.X e.1 = dl e.2 e.1 := by
  obtain ⟨hLx, hLy, hfam⟩ := hF
  obtain ⟨hx, hy, hz, hdrop⟩ := hs
  rw [R1_Od] at hx hy
  rw [flags_vface hx hy]
  unfold Od at hx hy
  unfold R2 at hz
  have hz0 : h % 2 = 0 := hz.1
  have hz1 : (h - 1) % 2 = 1 := by omega
  have hz2 : (h + 1) % 2 = 1 := by omega
  simp only [KFY, List.mem_cons, List.not_mem_nil, or_false, forall_eq_or_imp, forall_eq]
  have := pw_spec Lx f; have := pw_spec Ly g
  unfold Dropped at hdrop
  refine ⟨?_, ?_, ?_, ?_⟩ <;> apply letterX_eq <;> rw [Bool.eq_iff_iff] <;>
    simp only [col, not_bne_true_iff, bne_true_iff, Bool.and_eq_true, Bool.or_eq_true, beq_iff_eq,
      Bool.false_eq_true, false_iff, true_iff, iff_true, iff_false, not_not, false_and,
      not_true_eq_false, not_false_eq_true] <;> omega

theorem getStab_vfaceX (hLx : 2 ≤ Lx) (hLy : 2 ≤ Ly) (hs : SF Lx Ly Lz f g h)
    (h4 : (f + g) % 4 = 0) :
    getStab Lx Ly Lz [f, g, h] =
      gop (((KFX Lx Ly f g h).map Prod.fst).filter (isQubit Lx Ly Lz))
        (letterAt (onDefectBoundary Lx Ly f g) Pauli.X) := by
  have hst := isStab_of Lx Ly Lz f g h (Or.inr (Or.inr hs))
  obtain ⟨hx, hy, hz, hdrop⟩ := hs
  rw [R1_Od] at hx hy
  have hz0 : ¬ (h % 2 = 1) := by unfold R2 at hz; omega
  have hv : isVertexXYZ f g h = false := by unfold isVertexXYZ; simp [hz0]
  have hzb : (h % 2 == 1) = false := by simpa using hz0
  have h4' : ((f + g) % 4 == 0) = true := by simpa using h4
  unfold getStab getStab?
  simp only [hst, deltaOf, hv, hzb, h4', Bool.not_true, Bool.false_eq_true, if_false, if_true,
    Option.getD_some]
  rw [buildStab_eq, nb_vfaceX hx hy]
  rw [nb_vfaceX hx hy]; exact KFX_nodup hLx hLy hx hy

theorem getStab_vfaceY (hLx : 2 ≤ Lx) (hLy : 2 ≤ Ly) (hs : SF Lx Ly Lz f g h)
    (h4 : (f + g) % 4 = 2) :
    getStab Lx Ly Lz [f, g, h] =
      gop (((KFY Lx Ly f g h).map Prod.fst).filter (isQubit Lx Ly Lz))
        (letterAt (onDefectBoundary Lx Ly f g) Pauli.X) := by
  have hst := isStab_of Lx Ly Lz f g h (Or.inr (Or.inr hs))
  obtain ⟨hx, hy, hz, hdrop⟩ := hs
  rw [R1_Od] at hx hy
  have hz0 : ¬ (h % 2 = 1) := by unfold R2 at hz; omega
  have hv : isVertexXYZ f g h = false := by unfold isVertexXYZ; simp [hz0]
  have hzb : (h % 2 == 1) = false := by simpa using hz0
  have h40 : ((f + g) % 4 == 0) = false := by
    have : ¬ ((f + g) % 4 = 0) := by omega
    simpa using this
  have h4' : ((f + g) % 4 == 2) = true := by simpa using h4
  unfold getStab getStab?
  simp only [hst, deltaOf, hv, hzb, h40, h4', Bool.not_true, Bool.false_eq_true, if_false,
    if_true, Option.getD_some]
  rw [buildStab_eq, nb_vfaceY hx hy]
  rw [nb_vfaceY hx hy]; exact KFY_nodup hLx hLy hx hy

theorem signed_vfaceX (hF : Fam Lx Ly) (hs : SF Lx Ly Lz f g h) (h4 : (f + g) % 4 = 0) :
    Signed Lx Ly Lz (getStab Lx Ly Lz [f, g, h]) (KFX Lx Ly f g h) := by
  have hx := R1_Od.mp hs.1; have hy := R1_Od.mp hs.2.1
  exact ⟨KFX_nodup hF.1 hF.2.1 hx hy, _, getStab_vfaceX hF.1 hF.2.1 hs h4,
    letters_vfaceX hF hs h4⟩

theorem signed_vfaceY (hF : Fam Lx Ly) (hs : SF Lx Ly Lz f g h) (h4 : (f + g) % 4 = 2) :
    Signed Lx Ly Lz (getStab Lx Ly Lz [f, g, h]) (KFY Lx Ly f g h) := by
  have hx := R1_Od.mp hs.1; have hy := R1_Od.mp hs.2.1
  exact ⟨KFY_nodup hF.1 hF.2.1 hx hy, _, getStab_vfaceY hF.1 hF.2.1 hs h4,
    letters_vfaceY hF hs h4⟩

theorem SF_mod4 (hs : SF Lx Ly Lz f g h) : (f + g) % 4 = 0 ∨ (f + g) % 4 = 2 := by
  unfold SF R1 at hs; omega

end vface

end Panqec.RotatedToric3DCode
