/-
Toric2DCode, all sizes: the logical operators as single-letter dicts over explicit key lists,
their overlap with the stabilizers and with each other.  Core Lean only.
-/
import PanqecVerif.Proofs.LatToric2DCodeB

set_option linter.unusedVariables false

namespace Panqec.Toric2DCode
open Panqec.Lat2D

def kX0 (Lx : Nat) : List Coord := (pyRange2 1 (2 * Lx)).map fun x => [x, 0]
def kX1 (Ly : Nat) : List Coord := (pyRange2 1 (2 * Ly)).map fun y => [0, y]
def kZ0 (Ly : Nat) : List Coord := (pyRange2 0 (2 * Ly)).map fun y => [1, y]
def kZ1 (Lx : Nat) : List Coord := (pyRange2 0 (2 * Lx)).map fun x => [x, 1]

theorem nodup_kX0 (L : Nat) : (kX0 L).Nodup :=
  nodup_map_pair _ (fun a b h => by simpa using h) (nodup_pyRange2 ..)
theorem nodup_kX1 (L : Nat) : (kX1 L).Nodup :=
  nodup_map_pair _ (fun a b h => by simpa using h) (nodup_pyRange2 ..)
theorem nodup_kZ0 (L : Nat) : (kZ0 L).Nodup :=
  nodup_map_pair _ (fun a b h => by simpa using h) (nodup_pyRange2 ..)
theorem nodup_kZ1 (L : Nat) : (kZ1 L).Nodup :=
  nodup_map_pair _ (fun a b h => by simpa using h) (nodup_pyRange2 ..)

theorem mem_kX0 {L : Nat} {a b : Int} :
    [a, b] ∈ kX0 L ↔ (1 ≤ a ∧ a < 2 * (L : Int) ∧ a % 2 = 1 ∧ b = 0) := by
  unfold kX0
  simp only [List.mem_map, mem_pyRange2, List.cons.injEq, and_true]
  constructor
  · rintro ⟨x, hx, rfl, rfl⟩; omega
  · rintro ⟨h1, h2, h3, rfl⟩; exact ⟨a, by omega, rfl, rfl⟩
theorem mem_kX1 {L : Nat} {a b : Int} :
    [a, b] ∈ kX1 L ↔ (1 ≤ b ∧ b < 2 * (L : Int) ∧ b % 2 = 1 ∧ a = 0) := by
  unfold kX1
  simp only [List.mem_map, mem_pyRange2, List.cons.injEq, and_true]
  constructor
  · rintro ⟨x, hx, rfl, rfl⟩; omega
  · rintro ⟨h1, h2, h3, rfl⟩; exact ⟨b, by omega, rfl, rfl⟩
theorem mem_kZ0 {L : Nat} {a b : Int} :
    [a, b] ∈ kZ0 L ↔ (0 ≤ b ∧ b < 2 * (L : Int) ∧ b % 2 = 0 ∧ a = 1) := by
  unfold kZ0
  simp only [List.mem_map, mem_pyRange2, List.cons.injEq, and_true]
  constructor
  · rintro ⟨x, hx, rfl, rfl⟩; omega
  · rintro ⟨h1, h2, h3, rfl⟩; exact ⟨b, by omega, rfl, rfl⟩
theorem mem_kZ1 {L : Nat} {a b : Int} :
    [a, b] ∈ kZ1 L ↔ (0 ≤ a ∧ a < 2 * (L : Int) ∧ a % 2 = 0 ∧ b = 1) := by
  unfold kZ1
  simp only [List.mem_map, mem_pyRange2, List.cons.injEq, and_true]
  constructor
  · rintro ⟨x, hx, rfl, rfl⟩; omega
  · rintro ⟨h1, h2, h3, rfl⟩; exact ⟨a, by omega, rfl, rfl⟩

theorem logX_eq (Lx Ly : Nat) :
    logX Lx Ly = [(kX0 Lx).map (fun q => (q, Pauli.X)), (kX1 Ly).map (fun q => (q, Pauli.X))] := by
  show [lineOp (kX0 Lx) Pauli.X, lineOp (kX1 Ly) Pauli.X] = _
  rw [lineOp_eq _ _ (nodup_kX0 Lx), lineOp_eq _ _ (nodup_kX1 Ly)]
theorem logZ_eq (Lx Ly : Nat) :
    logZ Lx Ly = [(kZ0 Ly).map (fun q => (q, Pauli.Z)), (kZ1 Lx).map (fun q => (q, Pauli.Z))] := by
  show [lineOp (kZ0 Ly) Pauli.Z, lineOp (kZ1 Lx) Pauli.Z] = _
  rw [lineOp_eq _ _ (nodup_kZ0 Ly), lineOp_eq _ _ (nodup_kZ1 Lx)]

/-! ### logical vs. stabilizer: the four neighbours of a site hit each line 0 or 2 times -/

theorem nbrs_kX0 {Lx Ly : Nat} {x y : Int} (h : IsV Lx Ly x y) :
    interCount (nbrs Lx Ly x y) (kX0 Lx) % 2 = 0 := by
  unfold IsV InBox at h
  rw [show nbrs Lx Ly x y = [[predW x (2 * (Lx : Int)), y], [succW x (2 * (Lx : Int)), y],
    [x, predW y (2 * (Ly : Int))], [x, succW y (2 * (Ly : Int))]] from rfl, interCount_4]
  simp only [mem_kX0]
  have := predW_spec x (2 * (Lx : Int)); have := succW_spec x (2 * (Lx : Int))
  by_cases hy : y = 0
  · rw [if_pos (by omega), if_pos (by omega), if_neg (by omega), if_neg (by omega)]
  · rw [if_neg (by omega), if_neg (by omega), if_neg (by omega), if_neg (by omega)]

theorem nbrs_kX1 {Lx Ly : Nat} {x y : Int} (h : IsV Lx Ly x y) :
    interCount (nbrs Lx Ly x y) (kX1 Ly) % 2 = 0 := by
  unfold IsV InBox at h
  rw [show nbrs Lx Ly x y = [[predW x (2 * (Lx : Int)), y], [succW x (2 * (Lx : Int)), y],
    [x, predW y (2 * (Ly : Int))], [x, succW y (2 * (Ly : Int))]] from rfl, interCount_4]
  simp only [mem_kX1]
  have := predW_spec y (2 * (Ly : Int)); have := succW_spec y (2 * (Ly : Int))
  by_cases hx : x = 0
  · rw [if_neg (by omega), if_neg (by omega), if_pos (by omega), if_pos (by omega)]
  · rw [if_neg (by omega), if_neg (by omega), if_neg (by omega), if_neg (by omega)]

theorem nbrs_kZ0 {Lx Ly : Nat} {x y : Int} (hL : 2 ≤ Lx) (h : IsF Lx Ly x y) :
    interCount (nbrs Lx Ly x y) (kZ0 Ly) % 2 = 0 := by
  unfold IsF InBox at h
  rw [show nbrs Lx Ly x y = [[predW x (2 * (Lx : Int)), y], [succW x (2 * (Lx : Int)), y],
    [x, predW y (2 * (Ly : Int))], [x, succW y (2 * (Ly : Int))]] from rfl, interCount_4]
  simp only [mem_kZ0]
  have := predW_spec x (2 * (Lx : Int)); have := succW_spec x (2 * (Lx : Int))
  have := predW_spec y (2 * (Ly : Int)); have := succW_spec y (2 * (Ly : Int))
  by_cases hx : x = 1
  · rw [if_neg (by omega), if_neg (by omega), if_pos (by omega), if_pos (by omega)]
  · rw [if_neg (by omega), if_neg (by omega), if_neg (by omega), if_neg (by omega)]

theorem nbrs_kZ1 {Lx Ly : Nat} {x y : Int} (hL : 2 ≤ Ly) (h : IsF Lx Ly x y) :
    interCount (nbrs Lx Ly x y) (kZ1 Lx) % 2 = 0 := by
  unfold IsF InBox at h
  rw [show nbrs Lx Ly x y = [[predW x (2 * (Lx : Int)), y], [succW x (2 * (Lx : Int)), y],
    [x, predW y (2 * (Ly : Int))], [x, succW y (2 * (Ly : Int))]] from rfl, interCount_4]
  simp only [mem_kZ1]
  have := predW_spec x (2 * (Lx : Int)); have := succW_spec x (2 * (Lx : Int))
  have := predW_spec y (2 * (Ly : Int)); have := succW_spec y (2 * (Ly : Int))
  by_cases hy : y = 1
  · rw [if_pos (by omega), if_pos (by omega), if_neg (by omega), if_neg (by omega)]
  · rw [if_neg (by omega), if_neg (by omega), if_neg (by omega), if_neg (by omega)]

/-! ### logical vs. logical -/

theorem kX0_kZ0 {Lx Ly : Nat} (hx : 1 ≤ Lx) (hy : 1 ≤ Ly) : interCount (kX0 Lx) (kZ0 Ly) = 1 := by
  unfold interCount
  apply countP_eq_one _ _ [1, 0] (nodup_kX0 Lx)
  · rw [mem_kX0]; omega
  · simp only [List.contains_eq_mem, decide_eq_true_eq]; rw [mem_kZ0]; omega
  · intro a ha h
    simp only [List.contains_eq_mem, decide_eq_true_eq] at h
    unfold kX0 at ha
    simp only [List.mem_map] at ha
    obtain ⟨x, _, rfl⟩ := ha
    rw [mem_kZ0] at h
    rw [h.2.2.2]

theorem kX1_kZ1 {Lx Ly : Nat} (hx : 1 ≤ Lx) (hy : 1 ≤ Ly) : interCount (kX1 Ly) (kZ1 Lx) = 1 := by
  unfold interCount
  apply countP_eq_one _ _ [0, 1] (nodup_kX1 Ly)
  · rw [mem_kX1]; omega
  · simp only [List.contains_eq_mem, decide_eq_true_eq]; rw [mem_kZ1]; omega
  · intro a ha h
    simp only [List.contains_eq_mem, decide_eq_true_eq] at h
    unfold kX1 at ha
    simp only [List.mem_map] at ha
    obtain ⟨y, _, rfl⟩ := ha
    rw [mem_kZ1] at h
    rw [h.2.2.2]

theorem kX0_kZ1 (Lx : Nat) : interCount (kX0 Lx) (kZ1 Lx) = 0 := by
  unfold interCount
  rw [List.countP_eq_zero]
  intro a ha h
  simp only [List.contains_eq_mem, decide_eq_true_eq] at h
  unfold kX0 at ha
  simp only [List.mem_map] at ha
  obtain ⟨x, _, rfl⟩ := ha
  rw [mem_kZ1] at h
  omega

theorem kX1_kZ0 (Ly : Nat) : interCount (kX1 Ly) (kZ0 Ly) = 0 := by
  unfold interCount
  rw [List.countP_eq_zero]
  intro a ha h
  simp only [List.contains_eq_mem, decide_eq_true_eq] at h
  unfold kX1 at ha
  simp only [List.mem_map] at ha
  obtain ⟨y, _, rfl⟩ := ha
  rw [mem_kZ0] at h
  omega

end Panqec.Toric2DCode
