/-
RhombicPlanarCode lattice model, rank clause: the selected family of `n − k` generators, its
membership in arithmetic form, distinctness, and its size.  Sizes `Lx, Ly ≥ 2`, `Lz ≥ 1`.

Cubes (X-type): all of them (they are independent).
Triangles (Z-type; the four triangles of a vertex with `0 < y < 2Ly−2` multiply to the identity,
and so do the eight corner triangles of an uncoloured cube that is not cut by an x boundary):
all of axis 3 and of axis 2; of axis 1 those of the top row `y = 2Ly−2` (the others are the ones
dropped for the vertex relations); of axis 0 those of the last column `x = 2Lx−2` and, elsewhere,
one of the two that point into the same uncoloured cube from below / above: the upper one
(`(x+y+z) % 4 = 2`, `z ≥ 2`).
-/
import Mathlib.Tactic.Ring
import PanqecVerif.Proofs.LatRhombicPlanarCode4
import PanqecVerif.Proofs.LatRhombicCount
open Panqec Panqec.Lat3Db Panqec.Rhombic
namespace Panqec.RhombicPlanarCode

/-- selected triangle -/
def TK (Lx Ly Lz : Nat) (a x y z : Int) : Prop :=
  R2 (2*Lx) x ∧ R0 (2*Ly) y ∧ R0 (2*Lz) z ∧
    ((a = 3 ∧ y < 2*(Ly:Int)-2) ∨ (a = 2 ∧ 2 ≤ y) ∨ (a = 1 ∧ y = 2*(Ly:Int)-2) ∨
     (a = 0 ∧ y < 2*(Ly:Int)-2 ∧ (x = 2*(Lx:Int)-2 ∨ ((x + y + z) % 4 = 2 ∧ 2 ≤ z))))

theorem mem_selCubes_iff (Lx Ly Lz : Nat) (x y z : Int) :
    [x, y, z] ∈ selCubes Lx Ly Lz ↔ SC Lx Ly Lz x y z := by
  unfold selCubes SC
  simp only [mem_grid3_cons, mem_pyRange2_1, mem_rangeM1, beq_iff_eq]

theorem mem_sel3 {Lx Ly Lz : Nat} (_hx : 2 ≤ Lx) (_hy : 2 ≤ Ly) {x y z : Int} (h : [x, y, z] ∈ sel3 Lx Ly Lz) : TK Lx Ly Lz 3 x y z := by
  unfold sel3 at h
  simp only [mem_grid3_cons, mem_pyRange2, allTrue, and_true] at h
  unfold TK R0 R2; omega

theorem mem_sel2 {Lx Ly Lz : Nat} (_hx : 2 ≤ Lx) (_hy : 2 ≤ Ly) {x y z : Int} (h : [x, y, z] ∈ sel2 Lx Ly Lz) : TK Lx Ly Lz 2 x y z := by
  unfold sel2 at h
  simp only [mem_grid3_cons, mem_pyRange2, allTrue, and_true] at h
  unfold TK R0 R2; omega

theorem mem_sel1 {Lx Ly Lz : Nat} (_hx : 2 ≤ Lx) (_hy : 2 ≤ Ly) {x y z : Int} (h : [x, y, z] ∈ sel1 Lx Ly Lz) : TK Lx Ly Lz 1 x y z := by
  unfold sel1 at h
  simp only [mem_grid3_cons, mem_pyRange2, allTrue, and_true] at h
  unfold TK R0 R2; omega

theorem mem_sel0a {Lx Ly Lz : Nat} (_hx : 2 ≤ Lx) (_hy : 2 ≤ Ly) {x y z : Int} (h : [x, y, z] ∈ sel0a Lx Ly Lz) : TK Lx Ly Lz 0 x y z := by
  unfold sel0a at h
  simp only [mem_grid3_cons, mem_pyRange2, allTrue, and_true] at h
  unfold TK R0 R2; omega

theorem mem_sel0b {Lx Ly Lz : Nat} (_hx : 2 ≤ Lx) (_hy : 2 ≤ Ly) {x y z : Int} (h : [x, y, z] ∈ sel0b Lx Ly Lz) : TK Lx Ly Lz 0 x y z := by
  unfold sel0b at h
  simp only [mem_grid3_cons, mem_pyRange2, beq_iff_eq] at h
  unfold TK R0 R2; omega

theorem shape_grid3 {xs ys zs : List Int} {p : Int → Int → Int → Bool} {a : Coord}
    (h : a ∈ grid3 xs ys zs p) : ∃ x y z, a = [x, y, z] := by
  rw [mem_grid3] at h
  obtain ⟨x, y, z, rfl, _⟩ := h
  exact ⟨x, y, z, rfl⟩

/-- the members of the selected family -/
theorem mem_selStabs_cases {Lx Ly Lz : Nat} (hx : 2 ≤ Lx) (hy : 2 ≤ Ly) {s : Coord}
    (h : s ∈ selStabs Lx Ly Lz) :
    (∃ x y z, s = [x, y, z] ∧ SC Lx Ly Lz x y z) ∨
    (∃ a x y z, s = [a, x, y, z] ∧ TK Lx Ly Lz a x y z) := by
  unfold selStabs at h
  simp only [List.mem_append, List.mem_map] at h
  rcases h with h | ⟨c, hc, rfl⟩ | ⟨c, hc, rfl⟩ | ⟨c, hc, rfl⟩ | ⟨c, hc | hc, rfl⟩
  · obtain ⟨x, y, z, rfl⟩ := shape_grid3 h
    exact Or.inl ⟨x, y, z, rfl, (mem_selCubes_iff _ _ _ _ _ _).mp h⟩
  · obtain ⟨x, y, z, rfl⟩ := shape_grid3 hc
    exact Or.inr ⟨3, x, y, z, rfl, mem_sel3 hx hy hc⟩
  · obtain ⟨x, y, z, rfl⟩ := shape_grid3 hc
    exact Or.inr ⟨2, x, y, z, rfl, mem_sel2 hx hy hc⟩
  · obtain ⟨x, y, z, rfl⟩ := shape_grid3 hc
    exact Or.inr ⟨1, x, y, z, rfl, mem_sel1 hx hy hc⟩
  · obtain ⟨x, y, z, rfl⟩ := shape_grid3 hc
    exact Or.inr ⟨0, x, y, z, rfl, mem_sel0a hx hy hc⟩
  · obtain ⟨x, y, z, rfl⟩ := shape_grid3 hc
    exact Or.inr ⟨0, x, y, z, rfl, mem_sel0b hx hy hc⟩

theorem TK.st {Lx Ly Lz : Nat} (hy : 2 ≤ Ly) {a x y z : Int} (h : TK Lx Ly Lz a x y z) :
    ST Lx Ly Lz a x y z := by
  obtain ⟨h1, h2, h3, h4⟩ := h
  refine ⟨?_, h1, h2, h3, ?_⟩
  · unfold IsAxis; omega
  · unfold Rough; unfold R0 at h2; omega

theorem selStabs_sub {Lx Ly Lz : Nat} (hx : 2 ≤ Lx) (hy : 2 ≤ Ly) {s : Coord}
    (h : s ∈ selStabs Lx Ly Lz) : s ∈ stabs Lx Ly Lz := by
  rcases mem_selStabs_cases hx hy h with ⟨x, y, z, rfl, hk⟩ | ⟨a, x, y, z, rfl, hk⟩
  · exact (mem_stabs_cube _ _ _ _ _ _).mpr hk
  · exact (mem_stabs_tri _ _ _ _ _ _ _).mpr (hk.st hy)

/-! ### distinctness -/

theorem nodup_map_cons (a : Int) {l : List Coord} (h : l.Nodup) : (l.map fun c => a :: c).Nodup :=
  h.map (fun _ _ e => by simpa using e)

theorem disjoint_heads {a b : Int} (hab : a ≠ b) (l1 l2 : List Coord) :
    ∀ u ∈ l1.map (fun c => a :: c), ∀ v ∈ l2.map (fun c => b :: c), u ≠ v := by
  intro u hu v hv e
  simp only [List.mem_map] at hu hv
  obtain ⟨c, _, rfl⟩ := hu
  obtain ⟨d, _, rfl⟩ := hv
  simp only [List.cons.injEq] at e
  exact hab e.1

theorem nodup_selStabs (Lx Ly Lz : Nat) : (selStabs Lx Ly Lz).Nodup := by
  have g := fun (xs ys zs : List Int) (p : Int → Int → Int → Bool) (h1 : xs.Nodup) (h2 : ys.Nodup)
    (h3 : zs.Nodup) => nodup_grid3 xs ys zs p h1 h2 h3
  have n3 : (sel3 Lx Ly Lz).Nodup := g _ _ _ _ (nodup_pyRange2 _ _) (nodup_pyRange2 _ _) (nodup_pyRange2 _ _)
  have n2 : (sel2 Lx Ly Lz).Nodup := g _ _ _ _ (nodup_pyRange2 _ _) (nodup_pyRange2 _ _) (nodup_pyRange2 _ _)
  have n1 : (sel1 Lx Ly Lz).Nodup := g _ _ _ _ (nodup_pyRange2 _ _) (nodup_pyRange2 _ _) (nodup_pyRange2 _ _)
  have n0 : (sel0a Lx Ly Lz ++ sel0b Lx Ly Lz).Nodup := by
    rw [List.nodup_append]
    refine ⟨g _ _ _ _ (nodup_pyRange2 _ _) (nodup_pyRange2 _ _) (nodup_pyRange2 _ _),
      g _ _ _ _ (nodup_pyRange2 _ _) (nodup_pyRange2 _ _) (nodup_pyRange2 _ _), ?_⟩
    intro u hu v hv e
    subst e
    obtain ⟨x, y, z, rfl⟩ := shape_grid3 hu
    unfold sel0a at hu; unfold sel0b at hv
    simp only [mem_grid3_cons, mem_pyRange2] at hu hv
    omega
  unfold selStabs
  rw [List.nodup_append]
  refine ⟨g _ _ _ _ (nodup_pyRange2 _ _) (nodup_rangeM1 _) (nodup_pyRange2 _ _), ?_, ?_⟩
  · rw [List.nodup_append]
    refine ⟨nodup_map_cons 3 n3, ?_, ?_⟩
    · rw [List.nodup_append]
      refine ⟨nodup_map_cons 2 n2, ?_, ?_⟩
      · rw [List.nodup_append]
        exact ⟨nodup_map_cons 1 n1, nodup_map_cons 0 n0, disjoint_heads (by decide) _ _⟩
      · intro u hu v hv
        rcases List.mem_append.mp hv with hv | hv
        · exact disjoint_heads (by decide) _ _ u hu v hv
        · exact disjoint_heads (by decide) _ _ u hu v hv
    · intro u hu v hv
      rcases List.mem_append.mp hv with hv | hv
      · exact disjoint_heads (by decide) _ _ u hu v hv
      · rcases List.mem_append.mp hv with hv | hv
        · exact disjoint_heads (by decide) _ _ u hu v hv
        · exact disjoint_heads (by decide) _ _ u hu v hv
  · intro u hu v hv e
    subst e
    obtain ⟨x, y, z, rfl⟩ := shape_grid3 hu
    simp only [List.mem_append, List.mem_map] at hv
    rcases hv with ⟨c, _, h⟩ | ⟨c, _, h⟩ | ⟨c, _, h⟩ | ⟨c, hc, h⟩
    · have := congrArg List.length h; simp at this
      obtain ⟨p, q, r, rfl⟩ := shape_grid3 (by assumption : c ∈ sel3 Lx Ly Lz); simp at this
    · have := congrArg List.length h; simp at this
      obtain ⟨p, q, r, rfl⟩ := shape_grid3 (by assumption : c ∈ sel2 Lx Ly Lz); simp at this
    · have := congrArg List.length h; simp at this
      obtain ⟨p, q, r, rfl⟩ := shape_grid3 (by assumption : c ∈ sel1 Lx Ly Lz); simp at this
    · have := congrArg List.length h; simp at this
      rcases hc with hc | hc <;> (obtain ⟨p, q, r, rfl⟩ := shape_grid3 hc; simp at this)

/-! ### size -/

theorem half_add {m1 m2 K : Nat} (h : m1 + m2 = 2 * K) : half m1 true + half m2 false = K := by
  unfold half; simp only [if_true, Bool.false_eq_true, if_false]; omega

theorem length_selCubes (Lx Ly Lz : Nat) :
    (selCubes Lx Ly Lz).length = half (Lx * ((Ly + 1) * (Lz - 1))) true := by
  unfold selCubes
  rw [pyRange2_eq_ap, rangeM1_eq_ap, pyRange2_eq_ap]
  have e1 : (2 * Lx + 1 - 1) / 2 = Lx := by omega
  have e2 : 2 * Ly / 2 + 1 = Ly + 1 := by omega
  have e3 : (2 * Lz - 1 + 1 - 1) / 2 = Lz - 1 := by omega
  rw [e1, e2, e3]
  have := length_grid3_checker ((1 : Nat) : Int) (-1) ((1 : Nat) : Int) 1 Lx (Ly + 1) (Lz - 1)
    (by decide) (by decide)
  rw [this]
  rfl

theorem length_sel0b (Lx Ly Lz : Nat) :
    (sel0b Lx Ly Lz).length = half ((Lx - 2) * ((Ly - 1) * (Lz - 1))) false := by
  unfold sel0b
  rw [pyRange2_eq_ap, pyRange2_eq_ap, pyRange2_eq_ap]
  have e1 : (2 * Lx - 2 + 1 - 2) / 2 = Lx - 2 := by omega
  have e2 : (2 * Ly - 2 + 1 - 0) / 2 = Ly - 1 := by omega
  have e3 : (2 * Lz + 1 - 2) / 2 = Lz - 1 := by omega
  rw [e1, e2, e3]
  have := length_grid3_checker ((2 : Nat) : Int) ((0 : Nat) : Int) ((2 : Nat) : Int) 2 (Lx - 2) (Ly - 1)
    (Lz - 1) (by decide) (by decide)
  rw [this]
  rfl

/-- the selected family has `n − k` members -/
theorem selStabs_count (Lx Ly Lz : Nat) (hx : 2 ≤ Lx) (hy : 2 ≤ Ly) (hz : 1 ≤ Lz) :
    (selStabs Lx Ly Lz).length + (logX Lx Ly Lz).length = (qubits Lx Ly Lz).length := by
  rw [length_logX, length_qubits]
  unfold selStabs
  simp only [List.length_append, List.length_map, length_selCubes, length_sel0b]
  unfold sel3 sel2 sel1 sel0a allTrue
  simp only [length_grid3_true, length_pyRange2]
  obtain ⟨a, rfl⟩ : ∃ a, Lx = a + 2 := ⟨Lx - 2, by omega⟩
  obtain ⟨b, rfl⟩ : ∃ b, Ly = b + 2 := ⟨Ly - 2, by omega⟩
  obtain ⟨c, rfl⟩ : ∃ c, Lz = c + 1 := ⟨Lz - 1, by omega⟩
  have e1 : (2 * (a + 2) + 1 - 2) / 2 = a + 1 := by omega
  have e2 : (2 * (b + 2) - 2 + 1 - 0) / 2 = b + 1 := by omega
  have e3 : (2 * (c + 1) + 1 - 0) / 2 = c + 1 := by omega
  have e4 : (2 * (b + 2) + 1 - 2) / 2 = b + 1 := by omega
  have e5 : (2 * (b + 2) + 1 - (2 * (b + 2) - 2)) / 2 = 1 := by omega
  have e6 : (2 * (a + 2) + 1 - (2 * (a + 2) - 2)) / 2 = 1 := by omega
  simp only [e1, e2, e3, e4, e5, e6, Nat.add_sub_cancel]
  have e8 : b + 2 - 1 = b + 1 := by omega
  have e9 : a + 2 - 1 = a + 1 := by omega
  simp only [e8, e9]
  have hK : (a + 2) * ((b + 2 + 1) * c) + a * ((b + 1) * c) = 2 * (c * (a * b + 2 * a + b + 3)) := by ring
  have h1 := half_add hK
  have hfin : c * (a * b + 2 * a + b + 3) + 2 * ((a + 1) * (b + 1) * (c + 1)) + (a + 1) * 1 * (c + 1) +
      1 * (b + 1) * (c + 1) + 1 =
      (a + 2) * (b + 2) * (c + 1) + (a + 1) * (b + 1) * (c + 1) + (a + 1) * (b + 2) * c := by ring
  rw [← hfin, ← h1]
  ring

end Panqec.RhombicPlanarCode
