/-
Color3DCode, even sides `≥ 2`: the key lists of the three hexagon membranes of `get_logicals_z` —
the keys of the hexagons `(3, y, z)` (`(x, 3, z)`, `(x, y, 3)`) whose two free coordinates add up to
`0 (mod 8)`: the hexagons shared by a red and a green cell.  Core Lean only.
-/
import PanqecVerif.Proofs.LatColor3DCodeE

set_option linter.unusedVariables false

namespace Panqec.Color3DCode
open Panqec.Lat2D Panqec.Color

/-- the nine key lists of `get_logicals_z` -/
def kZ1 (Lx Ly Lz : Nat) : List Coord := membraneKeys (fun y z => [0, y, z]) Ly Lz (rA Ly) (rA Lz)
def kZ2 (Lx Ly Lz : Nat) : List Coord := membraneKeys (fun y z => [2, y, z]) Ly Lz (rC Ly) (rC Lz)
def kZ3 (Lx Ly Lz : Nat) : List Coord :=
  hexMembraneKeys (stabs Lx Ly Lz) Lx Ly Lz (rH Ly) (rH Lz) (fun y z => [3, y, z])
    (fun y z => [(3 - 1) % (4 * (Lx : Int)), (y - 1) % (4 * (Ly : Int)), (z + 1) % (4 * (Lz : Int))])
    (fun y z => [(3 - 1) % (4 * (Lx : Int)), (y + 1) % (4 * (Ly : Int)), (z - 1) % (4 * (Lz : Int))])
def kZ4 (Lx Ly Lz : Nat) : List Coord := membraneKeys (fun x z => [x, 0, z]) Lx Lz (rA Lx) (rA Lz)
def kZ5 (Lx Ly Lz : Nat) : List Coord := membraneKeys (fun x z => [x, 2, z]) Lx Lz (rC Lx) (rC Lz)
def kZ6 (Lx Ly Lz : Nat) : List Coord :=
  hexMembraneKeys (stabs Lx Ly Lz) Lx Ly Lz (rH Lx) (rH Lz) (fun x z => [x, 3, z])
    (fun x z => [(x - 1) % (4 * (Lx : Int)), (3 - 1) % (4 * (Ly : Int)), (z + 1) % (4 * (Lz : Int))])
    (fun x z => [(x + 1) % (4 * (Lx : Int)), (3 - 1) % (4 * (Ly : Int)), (z - 1) % (4 * (Lz : Int))])
def kZ7 (Lx Ly Lz : Nat) : List Coord := membraneKeys (fun x y => [x, y, 0]) Lx Ly (rA Lx) (rA Ly)
def kZ8 (Lx Ly Lz : Nat) : List Coord := membraneKeys (fun x y => [x, y, 2]) Lx Ly (rC Lx) (rC Ly)
def kZ9 (Lx Ly Lz : Nat) : List Coord :=
  hexMembraneKeys (stabs Lx Ly Lz) Lx Ly Lz (rH Lx) (rH Ly) (fun x y => [x, y, 3])
    (fun x y => [(x - 1) % (4 * (Lx : Int)), (y + 1) % (4 * (Ly : Int)), (3 - 1) % (4 * (Lz : Int))])
    (fun x y => [(x + 1) % (4 * (Lx : Int)), (y - 1) % (4 * (Ly : Int)), (3 - 1) % (4 * (Lz : Int))])

theorem logZ_eq (Lx Ly Lz : Nat) :
    logZ Lx Ly Lz = [lineOp (kZ1 Lx Ly Lz) Pauli.Z, lineOp (kZ2 Lx Ly Lz) Pauli.Z,
      lineOp (kZ3 Lx Ly Lz) Pauli.Z, lineOp (kZ4 Lx Ly Lz) Pauli.Z, lineOp (kZ5 Lx Ly Lz) Pauli.Z,
      lineOp (kZ6 Lx Ly Lz) Pauli.Z, lineOp (kZ7 Lx Ly Lz) Pauli.Z, lineOp (kZ8 Lx Ly Lz) Pauli.Z,
      lineOp (kZ9 Lx Ly Lz) Pauli.Z] := rfl

section
variable {Lx Ly Lz : Nat} (hx : 2 ≤ Lx) (hy : 2 ≤ Ly) (hz : 2 ≤ Lz) (ex : Lx % 2 = 0)
  (ey : Ly % 2 = 0) (ez : Lz % 2 = 0)
include hx hy hz ex ey ez

theorem mem_kZ3 {q : Coord} :
    q ∈ kZ3 Lx Ly Lz ↔ ∃ y z, InH Ly y ∧ InH Lz z ∧ (y + z) % 8 = 0 ∧ q ∈ keys Lx Ly Lz 3 y z := by
  unfold kZ3
  rw [mem_hexMembraneKeys]
  simp only [mem_rH, Bool.or_eq_true]
  constructor
  · rintro ⟨y, z, h1, h2, hc, hq⟩
    have hs : [3, y, z] ∈ stabs Lx Ly Lz := by
      rw [mem_stabs']; unfold IsS; right; right; right; right; right; right; right; right
      exact ⟨by unfold InH; omega, h1, h2⟩
    rw [getStabIn_eq hx hy hz hs, Option.getD_some, map_fst_const] at hq
    refine ⟨y, z, h1, h2, ?_, hq⟩
    rw [redAt_iff hx hy hz ex ey ez, redAt_iff hx hy hz ex ey ez] at hc
    unfold InH at h1 h2
    omega
  · rintro ⟨y, z, h1, h2, hc, hq⟩
    have hs : [3, y, z] ∈ stabs Lx Ly Lz := by
      rw [mem_stabs']; unfold IsS; right; right; right; right; right; right; right; right
      exact ⟨by unfold InH; omega, h1, h2⟩
    refine ⟨y, z, h1, h2, ?_, ?_⟩
    · rw [redAt_iff hx hy hz ex ey ez, redAt_iff hx hy hz ex ey ez]
      unfold InH at h1 h2
      omega
    · rw [getStabIn_eq hx hy hz hs, Option.getD_some, map_fst_const]; exact hq

theorem mem_kZ6 {q : Coord} :
    q ∈ kZ6 Lx Ly Lz ↔ ∃ x z, InH Lx x ∧ InH Lz z ∧ (x + z) % 8 = 0 ∧ q ∈ keys Lx Ly Lz x 3 z := by
  unfold kZ6
  rw [mem_hexMembraneKeys]
  simp only [mem_rH, Bool.or_eq_true]
  constructor
  · rintro ⟨x, z, h1, h2, hc, hq⟩
    have hs : [x, 3, z] ∈ stabs Lx Ly Lz := by
      rw [mem_stabs']; unfold IsS; right; right; right; right; right; right; right; right
      exact ⟨h1, by unfold InH; omega, h2⟩
    rw [getStabIn_eq hx hy hz hs, Option.getD_some, map_fst_const] at hq
    refine ⟨x, z, h1, h2, ?_, hq⟩
    rw [redAt_iff hx hy hz ex ey ez, redAt_iff hx hy hz ex ey ez] at hc
    unfold InH at h1 h2
    omega
  · rintro ⟨x, z, h1, h2, hc, hq⟩
    have hs : [x, 3, z] ∈ stabs Lx Ly Lz := by
      rw [mem_stabs']; unfold IsS; right; right; right; right; right; right; right; right
      exact ⟨h1, by unfold InH; omega, h2⟩
    refine ⟨x, z, h1, h2, ?_, ?_⟩
    · rw [redAt_iff hx hy hz ex ey ez, redAt_iff hx hy hz ex ey ez]
      unfold InH at h1 h2
      omega
    · rw [getStabIn_eq hx hy hz hs, Option.getD_some, map_fst_const]; exact hq

theorem mem_kZ9 {q : Coord} :
    q ∈ kZ9 Lx Ly Lz ↔ ∃ x y, InH Lx x ∧ InH Ly y ∧ (x + y) % 8 = 0 ∧ q ∈ keys Lx Ly Lz x y 3 := by
  unfold kZ9
  rw [mem_hexMembraneKeys]
  simp only [mem_rH, Bool.or_eq_true]
  constructor
  · rintro ⟨x, y, h1, h2, hc, hq⟩
    have hs : [x, y, 3] ∈ stabs Lx Ly Lz := by
      rw [mem_stabs']; unfold IsS; right; right; right; right; right; right; right; right
      exact ⟨h1, h2, by unfold InH; omega⟩
    rw [getStabIn_eq hx hy hz hs, Option.getD_some, map_fst_const] at hq
    refine ⟨x, y, h1, h2, ?_, hq⟩
    rw [redAt_iff hx hy hz ex ey ez, redAt_iff hx hy hz ex ey ez] at hc
    unfold InH at h1 h2
    omega
  · rintro ⟨x, y, h1, h2, hc, hq⟩
    have hs : [x, y, 3] ∈ stabs Lx Ly Lz := by
      rw [mem_stabs']; unfold IsS; right; right; right; right; right; right; right; right
      exact ⟨h1, h2, by unfold InH; omega⟩
    refine ⟨x, y, h1, h2, ?_, ?_⟩
    · rw [redAt_iff hx hy hz ex ey ez, redAt_iff hx hy hz ex ey ez]
      unfold InH at h1 h2
      omega
    · rw [getStabIn_eq hx hy hz hs, Option.getD_some, map_fst_const]; exact hq

end

end Panqec.Color3DCode
