/-
`Toric3DCode`, every size: the logical operators as one-letter operators on explicit key lists
(strings of X through the origin, planes of Z), their overlap with the stabilizers (even) and with
each other (the pairing table).
-/
import PanqecVerif.Proofs.LatToric3DCodeComm

set_option linter.unusedVariables false
set_option linter.unusedSimpArgs false
set_option linter.unreachableTactic false
set_option linter.unusedTactic false

namespace Panqec.Toric3DCode
open Panqec.Cubic3D

/-! ### key lists -/

def lxK0 (Lx : Nat) : List Coord := (range2 1 (2 * (Lx : Int))).map fun x => [x, 0, 0]
def lxK1 (Ly : Nat) : List Coord := (range2 1 (2 * (Ly : Int))).map fun y => [0, y, 0]
def lxK2 (Lz : Nat) : List Coord := (range2 1 (2 * (Lz : Int))).map fun z => [0, 0, z]
def lzK0 (Ly Lz : Nat) : List Coord :=
  grid2 (range2 0 (2 * (Ly : Int))) (range2 0 (2 * (Lz : Int))) fun y z => [1, y, z]
def lzK1 (Lz Lx : Nat) : List Coord :=
  grid2 (range2 0 (2 * (Lz : Int))) (range2 0 (2 * (Lx : Int))) fun z x => [x, 1, z]
def lzK2 (Lx Ly : Nat) : List Coord :=
  grid2 (range2 0 (2 * (Lx : Int))) (range2 0 (2 * (Ly : Int))) fun x y => [x, y, 1]

theorem logX_eq (Lx Ly Lz : Nat) :
    logX Lx Ly Lz = [uop (lxK0 Lx) Pauli.X, uop (lxK1 Ly) Pauli.X, uop (lxK2 Lz) Pauli.X] := by
  simp only [logX, lxK0, lxK1, lxK2, uop_map]

theorem logZ_eq (Lx Ly Lz : Nat) :
    logZ Lx Ly Lz = [uop (lzK0 Ly Lz) Pauli.Z, uop (lzK1 Lz Lx) Pauli.Z, uop (lzK2 Lx Ly) Pauli.Z] := by
  simp only [logZ, lzK0, lzK1, lzK2, uop_grid2]

theorem mem_lxK0 {Lx : Nat} {a b c : Int} : [a, b, c] ∈ lxK0 Lx ↔ isO Lx a ∧ b = 0 ∧ c = 0 := by
  simp only [lxK0, List.mem_map, mem_rangeO, List.cons.injEq, and_true]
  constructor
  · rintro ⟨o, ho, rfl, rfl, rfl⟩; exact ⟨ho, rfl, rfl⟩
  · rintro ⟨ho, rfl, rfl⟩; exact ⟨a, ho, rfl, rfl, rfl⟩
theorem mem_lxK1 {Ly : Nat} {a b c : Int} : [a, b, c] ∈ lxK1 Ly ↔ a = 0 ∧ isO Ly b ∧ c = 0 := by
  simp only [lxK1, List.mem_map, mem_rangeO, List.cons.injEq, and_true]
  constructor
  · rintro ⟨o, ho, rfl, rfl, rfl⟩; exact ⟨rfl, ho, rfl⟩
  · rintro ⟨rfl, ho, rfl⟩; exact ⟨b, ho, rfl, rfl, rfl⟩
theorem mem_lxK2 {Lz : Nat} {a b c : Int} : [a, b, c] ∈ lxK2 Lz ↔ a = 0 ∧ b = 0 ∧ isO Lz c := by
  simp only [lxK2, List.mem_map, mem_rangeO, List.cons.injEq, and_true]
  constructor
  · rintro ⟨o, ho, rfl, rfl, rfl⟩; exact ⟨rfl, rfl, ho⟩
  · rintro ⟨rfl, rfl, ho⟩; exact ⟨c, ho, rfl, rfl, rfl⟩

theorem mem_lzK0 {Ly Lz : Nat} {a b c : Int} :
    [a, b, c] ∈ lzK0 Ly Lz ↔ a = 1 ∧ isE Ly b ∧ isE Lz c := by
  simp only [lzK0, mem_grid2, mem_rangeE, List.cons.injEq, and_true]
  constructor
  · rintro ⟨y, hy, z, hz, rfl, rfl, rfl⟩; exact ⟨rfl, hy, hz⟩
  · rintro ⟨rfl, hy, hz⟩; exact ⟨b, hy, c, hz, rfl, rfl, rfl⟩
theorem mem_lzK1 {Lz Lx : Nat} {a b c : Int} :
    [a, b, c] ∈ lzK1 Lz Lx ↔ isE Lx a ∧ b = 1 ∧ isE Lz c := by
  simp only [lzK1, mem_grid2, mem_rangeE, List.cons.injEq, and_true]
  constructor
  · rintro ⟨z, hz, x, hx, rfl, rfl, rfl⟩; exact ⟨hx, rfl, hz⟩
  · rintro ⟨hx, rfl, hz⟩; exact ⟨c, hz, a, hx, rfl, rfl, rfl⟩
theorem mem_lzK2 {Lx Ly : Nat} {a b c : Int} :
    [a, b, c] ∈ lzK2 Lx Ly ↔ isE Lx a ∧ isE Ly b ∧ c = 1 := by
  simp only [lzK2, mem_grid2, mem_rangeE, List.cons.injEq, and_true]
  constructor
  · rintro ⟨x, hx, y, hy, rfl, rfl, rfl⟩; exact ⟨hx, hy, rfl⟩
  · rintro ⟨hx, hy, rfl⟩; exact ⟨a, hx, b, hy, rfl, rfl, rfl⟩

theorem shape_lxK0 {Lx : Nat} {q : Coord} (h : q ∈ lxK0 Lx) : ∃ a b c, q = [a, b, c] := by
  simp only [lxK0, List.mem_map] at h; obtain ⟨o, _, rfl⟩ := h; exact ⟨_, _, _, rfl⟩
theorem shape_lxK1 {Ly : Nat} {q : Coord} (h : q ∈ lxK1 Ly) : ∃ a b c, q = [a, b, c] := by
  simp only [lxK1, List.mem_map] at h; obtain ⟨o, _, rfl⟩ := h; exact ⟨_, _, _, rfl⟩
theorem shape_lxK2 {Lz : Nat} {q : Coord} (h : q ∈ lxK2 Lz) : ∃ a b c, q = [a, b, c] := by
  simp only [lxK2, List.mem_map] at h; obtain ⟨o, _, rfl⟩ := h; exact ⟨_, _, _, rfl⟩
theorem shape_lzK0 {Ly Lz : Nat} {q : Coord} (h : q ∈ lzK0 Ly Lz) : ∃ a b c, q = [a, b, c] := by
  simp only [lzK0, mem_grid2] at h; obtain ⟨_, _, _, _, rfl⟩ := h; exact ⟨_, _, _, rfl⟩
theorem shape_lzK1 {Lz Lx : Nat} {q : Coord} (h : q ∈ lzK1 Lz Lx) : ∃ a b c, q = [a, b, c] := by
  simp only [lzK1, mem_grid2] at h; obtain ⟨_, _, _, _, rfl⟩ := h; exact ⟨_, _, _, rfl⟩
theorem shape_lzK2 {Lx Ly : Nat} {q : Coord} (h : q ∈ lzK2 Lx Ly) : ∃ a b c, q = [a, b, c] := by
  simp only [lzK2, mem_grid2] at h; obtain ⟨_, _, _, _, rfl⟩ := h; exact ⟨_, _, _, rfl⟩

theorem lxK0_nodup (Lx : Nat) : (lxK0 Lx).Nodup :=
  List.Nodup.map (fun a b h => by simpa using h) (nodup_range2 _ _)
theorem lxK1_nodup (Ly : Nat) : (lxK1 Ly).Nodup :=
  List.Nodup.map (fun a b h => by simpa using h) (nodup_range2 _ _)
theorem lxK2_nodup (Lz : Nat) : (lxK2 Lz).Nodup :=
  List.Nodup.map (fun a b h => by simpa using h) (nodup_range2 _ _)
theorem lzK0_nodup (Ly Lz : Nat) : (lzK0 Ly Lz).Nodup :=
  nodup_grid2 (nodup_range2 _ _) (nodup_range2 _ _) (fun a b a' b' h => by simpa using h)
theorem lzK1_nodup (Lz Lx : Nat) : (lzK1 Lz Lx).Nodup :=
  nodup_grid2 (nodup_range2 _ _) (nodup_range2 _ _) (fun a b a' b' h => by
    simp only [List.cons.injEq, and_true, true_and] at h; exact ⟨h.2, h.1⟩)
theorem lzK2_nodup (Lx Ly : Nat) : (lzK2 Lx Ly).Nodup :=
  nodup_grid2 (nodup_range2 _ _) (nodup_range2 _ _) (fun a b a' b' h => by
    simp only [List.cons.injEq, and_true] at h; exact ⟨h.1, h.2⟩)

/-! ### the logical operators are supported on qubits (needs `1 ≤ L` only) -/

theorem lxK0_sub {Lx Ly Lz : Nat} (hLx : 1 ≤ Lx) (hLy : 1 ≤ Ly) (hLz : 1 ≤ Lz) :
    ∀ q ∈ lxK0 Lx, q ∈ qubits Lx Ly Lz := by
  intro q hq
  obtain ⟨a, b, c, rfl⟩ := shape_lxK0 hq
  rw [mem_lxK0] at hq
  rw [mem_qubits]
  have ex := isE_zero hLx; have ey := isE_zero hLy; have ez := isE_zero hLz
  have ox := isO_one hLx; have oy := isO_one hLy; have oz := isO_one hLz
  obtain ⟨h1, h2, h3⟩ := hq
  subst_vars
  simp_all

theorem lxK1_sub {Lx Ly Lz : Nat} (hLx : 1 ≤ Lx) (hLy : 1 ≤ Ly) (hLz : 1 ≤ Lz) :
    ∀ q ∈ lxK1 Ly, q ∈ qubits Lx Ly Lz := by
  intro q hq
  obtain ⟨a, b, c, rfl⟩ := shape_lxK1 hq
  rw [mem_lxK1] at hq
  rw [mem_qubits]
  have ex := isE_zero hLx; have ey := isE_zero hLy; have ez := isE_zero hLz
  have ox := isO_one hLx; have oy := isO_one hLy; have oz := isO_one hLz
  obtain ⟨h1, h2, h3⟩ := hq
  subst_vars
  simp_all

theorem lxK2_sub {Lx Ly Lz : Nat} (hLx : 1 ≤ Lx) (hLy : 1 ≤ Ly) (hLz : 1 ≤ Lz) :
    ∀ q ∈ lxK2 Lz, q ∈ qubits Lx Ly Lz := by
  intro q hq
  obtain ⟨a, b, c, rfl⟩ := shape_lxK2 hq
  rw [mem_lxK2] at hq
  rw [mem_qubits]
  have ex := isE_zero hLx; have ey := isE_zero hLy; have ez := isE_zero hLz
  have ox := isO_one hLx; have oy := isO_one hLy; have oz := isO_one hLz
  obtain ⟨h1, h2, h3⟩ := hq
  subst_vars
  simp_all

theorem lzK0_sub {Lx Ly Lz : Nat} (hLx : 1 ≤ Lx) (hLy : 1 ≤ Ly) (hLz : 1 ≤ Lz) :
    ∀ q ∈ lzK0 Ly Lz, q ∈ qubits Lx Ly Lz := by
  intro q hq
  obtain ⟨a, b, c, rfl⟩ := shape_lzK0 hq
  rw [mem_lzK0] at hq
  rw [mem_qubits]
  have ex := isE_zero hLx; have ey := isE_zero hLy; have ez := isE_zero hLz
  have ox := isO_one hLx; have oy := isO_one hLy; have oz := isO_one hLz
  obtain ⟨h1, h2, h3⟩ := hq
  subst_vars
  simp_all

theorem lzK1_sub {Lx Ly Lz : Nat} (hLx : 1 ≤ Lx) (hLy : 1 ≤ Ly) (hLz : 1 ≤ Lz) :
    ∀ q ∈ lzK1 Lz Lx, q ∈ qubits Lx Ly Lz := by
  intro q hq
  obtain ⟨a, b, c, rfl⟩ := shape_lzK1 hq
  rw [mem_lzK1] at hq
  rw [mem_qubits]
  have ex := isE_zero hLx; have ey := isE_zero hLy; have ez := isE_zero hLz
  have ox := isO_one hLx; have oy := isO_one hLy; have oz := isO_one hLz
  obtain ⟨h1, h2, h3⟩ := hq
  subst_vars
  simp_all

theorem lzK2_sub {Lx Ly Lz : Nat} (hLx : 1 ≤ Lx) (hLy : 1 ≤ Ly) (hLz : 1 ≤ Lz) :
    ∀ q ∈ lzK2 Lx Ly, q ∈ qubits Lx Ly Lz := by
  intro q hq
  obtain ⟨a, b, c, rfl⟩ := shape_lzK2 hq
  rw [mem_lzK2] at hq
  rw [mem_qubits]
  have ex := isE_zero hLx; have ey := isE_zero hLy; have ez := isE_zero hLz
  have ox := isO_one hLx; have oy := isO_one hLy; have oz := isO_one hLz
  obtain ⟨h1, h2, h3⟩ := hq
  subst_vars
  simp_all

/-! ### overlap with the stabilizers -/

theorem ov_vertex_lxK0 {Lx Ly Lz : Nat} (hLx : 2 ≤ Lx) (hLy : 2 ≤ Ly) (hLz : 2 ≤ Lz)
    {x y z : Int} (hv : isVertex Lx Ly Lz x y z) :
    ov (vertexKeys Lx Ly Lz x y z) (lxK0 Lx) % 2 = 0 := by
  obtain ⟨hx, hy, hz⟩ := hv
  have hLx' : 1 ≤ Lx := by omega
  have hLy' : 1 ≤ Ly := by omega
  have hLz' : 1 ≤ Lz := by omega
  unfold ov vertexKeys
  simp only [List.countP_cons, List.countP_nil, decide_eq_true_eq, Nat.zero_add, mem_lxK0,
    vO_p hLx' hx,
    vO_s hx,
    vO_0 hx,
    v0_p hLx' hx,
    v0_s hx,
    vO_p hLy' hy,
    vO_s hy,
    vO_0 hy,
    v0_p hLy' hy,
    v0_s hy,
    vO_p hLz' hz,
    vO_s hz,
    vO_0 hz,
    v0_p hLz' hz,
    v0_s hz,
    true_and, and_true, false_and, and_false, if_false, Nat.add_zero]
  all_goals (by_cases h1 : x = 0 <;> by_cases h2 : y = 0 <;> by_cases h3 : z = 0 <;> simp_all)

theorem ov_vertex_lxK1 {Lx Ly Lz : Nat} (hLx : 2 ≤ Lx) (hLy : 2 ≤ Ly) (hLz : 2 ≤ Lz)
    {x y z : Int} (hv : isVertex Lx Ly Lz x y z) :
    ov (vertexKeys Lx Ly Lz x y z) (lxK1 Ly) % 2 = 0 := by
  obtain ⟨hx, hy, hz⟩ := hv
  have hLx' : 1 ≤ Lx := by omega
  have hLy' : 1 ≤ Ly := by omega
  have hLz' : 1 ≤ Lz := by omega
  unfold ov vertexKeys
  simp only [List.countP_cons, List.countP_nil, decide_eq_true_eq, Nat.zero_add, mem_lxK1,
    vO_p hLx' hx,
    vO_s hx,
    vO_0 hx,
    v0_p hLx' hx,
    v0_s hx,
    vO_p hLy' hy,
    vO_s hy,
    vO_0 hy,
    v0_p hLy' hy,
    v0_s hy,
    vO_p hLz' hz,
    vO_s hz,
    vO_0 hz,
    v0_p hLz' hz,
    v0_s hz,
    true_and, and_true, false_and, and_false, if_false, Nat.add_zero]
  all_goals (by_cases h1 : x = 0 <;> by_cases h2 : y = 0 <;> by_cases h3 : z = 0 <;> simp_all)

theorem ov_vertex_lxK2 {Lx Ly Lz : Nat} (hLx : 2 ≤ Lx) (hLy : 2 ≤ Ly) (hLz : 2 ≤ Lz)
    {x y z : Int} (hv : isVertex Lx Ly Lz x y z) :
    ov (vertexKeys Lx Ly Lz x y z) (lxK2 Lz) % 2 = 0 := by
  obtain ⟨hx, hy, hz⟩ := hv
  have hLx' : 1 ≤ Lx := by omega
  have hLy' : 1 ≤ Ly := by omega
  have hLz' : 1 ≤ Lz := by omega
  unfold ov vertexKeys
  simp only [List.countP_cons, List.countP_nil, decide_eq_true_eq, Nat.zero_add, mem_lxK2,
    vO_p hLx' hx,
    vO_s hx,
    vO_0 hx,
    v0_p hLx' hx,
    v0_s hx,
    vO_p hLy' hy,
    vO_s hy,
    vO_0 hy,
    v0_p hLy' hy,
    v0_s hy,
    vO_p hLz' hz,
    vO_s hz,
    vO_0 hz,
    v0_p hLz' hz,
    v0_s hz,
    true_and, and_true, false_and, and_false, if_false, Nat.add_zero]
  all_goals (by_cases h1 : x = 0 <;> by_cases h2 : y = 0 <;> by_cases h3 : z = 0 <;> simp_all)

theorem ov_faceXY_lzK0 {Lx Ly Lz : Nat} (hLx : 2 ≤ Lx) (hLy : 2 ≤ Ly) (hLz : 2 ≤ Lz)
    {x y z : Int} (hf : isFaceXY Lx Ly Lz x y z) :
    ov (faceXYKeys Lx Ly Lz x y z) (lzK0 Ly Lz) % 2 = 0 := by
  obtain ⟨hx, hy, hz⟩ := hf
  unfold ov faceXYKeys
  simp only [List.countP_cons, List.countP_nil, decide_eq_true_eq, Nat.zero_add, mem_lzK0,
    fE_m hx,
    fE_s hx,
    fE_0 hx,
    f1_m hx,
    f1_s hx,
    fE_m hy,
    fE_s hy,
    fE_0 hy,
    f1_m hy,
    f1_s hy,
    hz,
    f1_e hz,
    true_and, and_true, false_and, and_false, if_false, Nat.add_zero]
  all_goals (by_cases h1 : x = 1 <;> by_cases h2 : y = 1 <;> by_cases h3 : z = 1 <;> simp_all)

theorem ov_faceXY_lzK1 {Lx Ly Lz : Nat} (hLx : 2 ≤ Lx) (hLy : 2 ≤ Ly) (hLz : 2 ≤ Lz)
    {x y z : Int} (hf : isFaceXY Lx Ly Lz x y z) :
    ov (faceXYKeys Lx Ly Lz x y z) (lzK1 Lz Lx) % 2 = 0 := by
  obtain ⟨hx, hy, hz⟩ := hf
  unfold ov faceXYKeys
  simp only [List.countP_cons, List.countP_nil, decide_eq_true_eq, Nat.zero_add, mem_lzK1,
    fE_m hx,
    fE_s hx,
    fE_0 hx,
    f1_m hx,
    f1_s hx,
    fE_m hy,
    fE_s hy,
    fE_0 hy,
    f1_m hy,
    f1_s hy,
    hz,
    f1_e hz,
    true_and, and_true, false_and, and_false, if_false, Nat.add_zero]
  all_goals (by_cases h1 : x = 1 <;> by_cases h2 : y = 1 <;> by_cases h3 : z = 1 <;> simp_all)

theorem ov_faceXY_lzK2 {Lx Ly Lz : Nat} (hLx : 2 ≤ Lx) (hLy : 2 ≤ Ly) (hLz : 2 ≤ Lz)
    {x y z : Int} (hf : isFaceXY Lx Ly Lz x y z) :
    ov (faceXYKeys Lx Ly Lz x y z) (lzK2 Lx Ly) % 2 = 0 := by
  obtain ⟨hx, hy, hz⟩ := hf
  unfold ov faceXYKeys
  simp only [List.countP_cons, List.countP_nil, decide_eq_true_eq, Nat.zero_add, mem_lzK2,
    fE_m hx,
    fE_s hx,
    fE_0 hx,
    f1_m hx,
    f1_s hx,
    fE_m hy,
    fE_s hy,
    fE_0 hy,
    f1_m hy,
    f1_s hy,
    hz,
    f1_e hz,
    true_and, and_true, false_and, and_false, if_false, Nat.add_zero]
  all_goals (by_cases h1 : x = 1 <;> by_cases h2 : y = 1 <;> by_cases h3 : z = 1 <;> simp_all)

theorem ov_faceYZ_lzK0 {Lx Ly Lz : Nat} (hLx : 2 ≤ Lx) (hLy : 2 ≤ Ly) (hLz : 2 ≤ Lz)
    {x y z : Int} (hf : isFaceYZ Lx Ly Lz x y z) :
    ov (faceYZKeys Lx Ly Lz x y z) (lzK0 Ly Lz) % 2 = 0 := by
  obtain ⟨hx, hy, hz⟩ := hf
  unfold ov faceYZKeys
  simp only [List.countP_cons, List.countP_nil, decide_eq_true_eq, Nat.zero_add, mem_lzK0,
    hx,
    f1_e hx,
    fE_m hy,
    fE_s hy,
    fE_0 hy,
    f1_m hy,
    f1_s hy,
    fE_m hz,
    fE_s hz,
    fE_0 hz,
    f1_m hz,
    f1_s hz,
    true_and, and_true, false_and, and_false, if_false, Nat.add_zero]
  all_goals (by_cases h1 : x = 1 <;> by_cases h2 : y = 1 <;> by_cases h3 : z = 1 <;> simp_all)

theorem ov_faceYZ_lzK1 {Lx Ly Lz : Nat} (hLx : 2 ≤ Lx) (hLy : 2 ≤ Ly) (hLz : 2 ≤ Lz)
    {x y z : Int} (hf : isFaceYZ Lx Ly Lz x y z) :
    ov (faceYZKeys Lx Ly Lz x y z) (lzK1 Lz Lx) % 2 = 0 := by
  obtain ⟨hx, hy, hz⟩ := hf
  unfold ov faceYZKeys
  simp only [List.countP_cons, List.countP_nil, decide_eq_true_eq, Nat.zero_add, mem_lzK1,
    hx,
    f1_e hx,
    fE_m hy,
    fE_s hy,
    fE_0 hy,
    f1_m hy,
    f1_s hy,
    fE_m hz,
    fE_s hz,
    fE_0 hz,
    f1_m hz,
    f1_s hz,
    true_and, and_true, false_and, and_false, if_false, Nat.add_zero]
  all_goals (by_cases h1 : x = 1 <;> by_cases h2 : y = 1 <;> by_cases h3 : z = 1 <;> simp_all)

theorem ov_faceYZ_lzK2 {Lx Ly Lz : Nat} (hLx : 2 ≤ Lx) (hLy : 2 ≤ Ly) (hLz : 2 ≤ Lz)
    {x y z : Int} (hf : isFaceYZ Lx Ly Lz x y z) :
    ov (faceYZKeys Lx Ly Lz x y z) (lzK2 Lx Ly) % 2 = 0 := by
  obtain ⟨hx, hy, hz⟩ := hf
  unfold ov faceYZKeys
  simp only [List.countP_cons, List.countP_nil, decide_eq_true_eq, Nat.zero_add, mem_lzK2,
    hx,
    f1_e hx,
    fE_m hy,
    fE_s hy,
    fE_0 hy,
    f1_m hy,
    f1_s hy,
    fE_m hz,
    fE_s hz,
    fE_0 hz,
    f1_m hz,
    f1_s hz,
    true_and, and_true, false_and, and_false, if_false, Nat.add_zero]
  all_goals (by_cases h1 : x = 1 <;> by_cases h2 : y = 1 <;> by_cases h3 : z = 1 <;> simp_all)

theorem ov_faceXZ_lzK0 {Lx Ly Lz : Nat} (hLx : 2 ≤ Lx) (hLy : 2 ≤ Ly) (hLz : 2 ≤ Lz)
    {x y z : Int} (hf : isFaceXZ Lx Ly Lz x y z) :
    ov (faceXZKeys Lx Ly Lz x y z) (lzK0 Ly Lz) % 2 = 0 := by
  obtain ⟨hx, hy, hz⟩ := hf
  unfold ov faceXZKeys
  simp only [List.countP_cons, List.countP_nil, decide_eq_true_eq, Nat.zero_add, mem_lzK0,
    fE_m hx,
    fE_s hx,
    fE_0 hx,
    f1_m hx,
    f1_s hx,
    hy,
    f1_e hy,
    fE_m hz,
    fE_s hz,
    fE_0 hz,
    f1_m hz,
    f1_s hz,
    true_and, and_true, false_and, and_false, if_false, Nat.add_zero]
  all_goals (by_cases h1 : x = 1 <;> by_cases h2 : y = 1 <;> by_cases h3 : z = 1 <;> simp_all)

theorem ov_faceXZ_lzK1 {Lx Ly Lz : Nat} (hLx : 2 ≤ Lx) (hLy : 2 ≤ Ly) (hLz : 2 ≤ Lz)
    {x y z : Int} (hf : isFaceXZ Lx Ly Lz x y z) :
    ov (faceXZKeys Lx Ly Lz x y z) (lzK1 Lz Lx) % 2 = 0 := by
  obtain ⟨hx, hy, hz⟩ := hf
  unfold ov faceXZKeys
  simp only [List.countP_cons, List.countP_nil, decide_eq_true_eq, Nat.zero_add, mem_lzK1,
    fE_m hx,
    fE_s hx,
    fE_0 hx,
    f1_m hx,
    f1_s hx,
    hy,
    f1_e hy,
    fE_m hz,
    fE_s hz,
    fE_0 hz,
    f1_m hz,
    f1_s hz,
    true_and, and_true, false_and, and_false, if_false, Nat.add_zero]
  all_goals (by_cases h1 : x = 1 <;> by_cases h2 : y = 1 <;> by_cases h3 : z = 1 <;> simp_all)

theorem ov_faceXZ_lzK2 {Lx Ly Lz : Nat} (hLx : 2 ≤ Lx) (hLy : 2 ≤ Ly) (hLz : 2 ≤ Lz)
    {x y z : Int} (hf : isFaceXZ Lx Ly Lz x y z) :
    ov (faceXZKeys Lx Ly Lz x y z) (lzK2 Lx Ly) % 2 = 0 := by
  obtain ⟨hx, hy, hz⟩ := hf
  unfold ov faceXZKeys
  simp only [List.countP_cons, List.countP_nil, decide_eq_true_eq, Nat.zero_add, mem_lzK2,
    fE_m hx,
    fE_s hx,
    fE_0 hx,
    f1_m hx,
    f1_s hx,
    hy,
    f1_e hy,
    fE_m hz,
    fE_s hz,
    fE_0 hz,
    f1_m hz,
    f1_s hz,
    true_and, and_true, false_and, and_false, if_false, Nat.add_zero]
  all_goals (by_cases h1 : x = 1 <;> by_cases h2 : y = 1 <;> by_cases h3 : z = 1 <;> simp_all)

/-! ### the pairing table -/

theorem ov_lxK0_lzK0 {Lx Ly Lz : Nat} (hLx : 1 ≤ Lx) (hLy : 1 ≤ Ly) (hLz : 1 ≤ Lz) :
    ov (lxK0 Lx) (lzK0 Ly Lz) = 1 := by
  have ex := isE_zero hLx; have ey := isE_zero hLy; have ez := isE_zero hLz
  have ox := isO_one hLx; have oy := isO_one hLy; have oz := isO_one hLz
  refine ov_eq_one (lxK0_nodup _) [1, 0, 0] ?_ ?_
  · rw [mem_lxK0]; simp_all
  · intro q hq
    obtain ⟨a, b, c, rfl⟩ := shape_lxK0 hq
    rw [mem_lxK0] at hq
    rw [mem_lzK0]
    obtain ⟨h1, h2, h3⟩ := hq
    subst_vars
    simp_all

theorem ov_lxK0_lzK1 (Lx Ly Lz : Nat) : ov (lxK0 Lx) (lzK1 Lz Lx) = 0 := by
  refine ov_eq_zero ?_
  intro q hq
  obtain ⟨a, b, c, rfl⟩ := shape_lxK0 hq
  rw [mem_lxK0] at hq
  rw [mem_lzK1]
  obtain ⟨h1, h2, h3⟩ := hq
  subst_vars
  simp

theorem ov_lxK0_lzK2 (Lx Ly Lz : Nat) : ov (lxK0 Lx) (lzK2 Lx Ly) = 0 := by
  refine ov_eq_zero ?_
  intro q hq
  obtain ⟨a, b, c, rfl⟩ := shape_lxK0 hq
  rw [mem_lxK0] at hq
  rw [mem_lzK2]
  obtain ⟨h1, h2, h3⟩ := hq
  subst_vars
  simp

theorem ov_lxK1_lzK0 (Lx Ly Lz : Nat) : ov (lxK1 Ly) (lzK0 Ly Lz) = 0 := by
  refine ov_eq_zero ?_
  intro q hq
  obtain ⟨a, b, c, rfl⟩ := shape_lxK1 hq
  rw [mem_lxK1] at hq
  rw [mem_lzK0]
  obtain ⟨h1, h2, h3⟩ := hq
  subst_vars
  simp

theorem ov_lxK1_lzK1 {Lx Ly Lz : Nat} (hLx : 1 ≤ Lx) (hLy : 1 ≤ Ly) (hLz : 1 ≤ Lz) :
    ov (lxK1 Ly) (lzK1 Lz Lx) = 1 := by
  have ex := isE_zero hLx; have ey := isE_zero hLy; have ez := isE_zero hLz
  have ox := isO_one hLx; have oy := isO_one hLy; have oz := isO_one hLz
  refine ov_eq_one (lxK1_nodup _) [0, 1, 0] ?_ ?_
  · rw [mem_lxK1]; simp_all
  · intro q hq
    obtain ⟨a, b, c, rfl⟩ := shape_lxK1 hq
    rw [mem_lxK1] at hq
    rw [mem_lzK1]
    obtain ⟨h1, h2, h3⟩ := hq
    subst_vars
    simp_all

theorem ov_lxK1_lzK2 (Lx Ly Lz : Nat) : ov (lxK1 Ly) (lzK2 Lx Ly) = 0 := by
  refine ov_eq_zero ?_
  intro q hq
  obtain ⟨a, b, c, rfl⟩ := shape_lxK1 hq
  rw [mem_lxK1] at hq
  rw [mem_lzK2]
  obtain ⟨h1, h2, h3⟩ := hq
  subst_vars
  simp

theorem ov_lxK2_lzK0 (Lx Ly Lz : Nat) : ov (lxK2 Lz) (lzK0 Ly Lz) = 0 := by
  refine ov_eq_zero ?_
  intro q hq
  obtain ⟨a, b, c, rfl⟩ := shape_lxK2 hq
  rw [mem_lxK2] at hq
  rw [mem_lzK0]
  obtain ⟨h1, h2, h3⟩ := hq
  subst_vars
  simp

theorem ov_lxK2_lzK1 (Lx Ly Lz : Nat) : ov (lxK2 Lz) (lzK1 Lz Lx) = 0 := by
  refine ov_eq_zero ?_
  intro q hq
  obtain ⟨a, b, c, rfl⟩ := shape_lxK2 hq
  rw [mem_lxK2] at hq
  rw [mem_lzK1]
  obtain ⟨h1, h2, h3⟩ := hq
  subst_vars
  simp

theorem ov_lxK2_lzK2 {Lx Ly Lz : Nat} (hLx : 1 ≤ Lx) (hLy : 1 ≤ Ly) (hLz : 1 ≤ Lz) :
    ov (lxK2 Lz) (lzK2 Lx Ly) = 1 := by
  have ex := isE_zero hLx; have ey := isE_zero hLy; have ez := isE_zero hLz
  have ox := isO_one hLx; have oy := isO_one hLy; have oz := isO_one hLz
  refine ov_eq_one (lxK2_nodup _) [0, 0, 1] ?_ ?_
  · rw [mem_lxK2]; simp_all
  · intro q hq
    obtain ⟨a, b, c, rfl⟩ := shape_lxK2 hq
    rw [mem_lxK2] at hq
    rw [mem_lzK2]
    obtain ⟨h1, h2, h3⟩ := hq
    subst_vars
    simp_all

end Panqec.Toric3DCode
