/-
Color666ToricCode, all square sizes `L ≥ 1`, C17 part C: the representatives as key lists.

For a frame `f` and a colour offset `c`: the `3L` zig-zags `zigK c t` (`t < 3L`, `4L` qubits each)
and the `L` closed straight lines `lineK c m` (`m < L`, `6L` qubits each: both corners `fR`, `fL`
of the faces `(3m + 2s, c + 1 − s)`, `s < 3L` — the faces of the third colour, along the direction
`(2, −1)`).  They are duplicate-free lists of qubits, pairwise disjoint (together they use every
qubit exactly once).  A qubit `fR a j` / `fL a j` lies on the line `m` iff
`a + 2j ≡ 3m + 2c + 2 (mod 3L)` (`OnLine`).
-/
import PanqecVerif.Proofs.DistColor666ToricCodeB

set_option linter.unusedVariables false

namespace Panqec.Color666ToricCode
open Panqec.Lat2D Panqec.Color

/-! ### lists made of blocks -/

theorem nodup_flat {α} (f : Nat → List α) (N : Nat) (h1 : ∀ i, i < N → (f i).Nodup)
    (h2 : ∀ i j, i < N → j < N → i ≠ j → ∀ q, q ∈ f i → q ∈ f j → False) :
    ((List.range N).flatMap f).Nodup := by
  show List.Pairwise _ _
  rw [List.pairwise_flatMap]
  refine ⟨fun i hi => h1 i (List.mem_range.mp hi), ?_⟩
  have : ∀ i ∈ List.range N, ∀ j ∈ List.range N, i ≠ j → ∀ q ∈ f i, ∀ r ∈ f j, q ≠ r := by
    intro i hi j hj hij q hq r hr e
    subst e
    exact h2 i j (List.mem_range.mp hi) (List.mem_range.mp hj) hij q hq hr
  exact List.Pairwise.imp_of_mem (fun {a b} ha hb hab => this a ha b hb hab) List.nodup_range

theorem countP_flat (p : Coord → Bool) (c : Nat → List Coord) : ∀ A : Nat,
    ((List.range A).flatMap c).countP p = rsum A (fun j => (c j).countP p)
  | 0 => rfl
  | A + 1 => by
    rw [List.range_succ, List.flatMap_append, List.countP_append, countP_flat p c A]
    simp [rsum]

/-! ### the key lists -/

/-- the zig-zag `Z c t` of the frame `f` -/
def zigK (L : Nat) (f : Bool) (c t : Int) : List Coord :=
  (List.range L).flatMap fun (i : Nat) =>
    [fR L f t (t + c + 3 * (i : Int)), fL L f (t + 1) (t + c + 3 * (i : Int)),
     fL L f (t + 1) (t + c + 3 * (i : Int) + 1), fR L f t (t + c + 3 * (i : Int) + 2)]

/-- the straight line `m` of the frame `f` -/
def lineK (L : Nat) (f : Bool) (c m : Int) : List Coord :=
  (List.range (3 * L)).flatMap fun (s : Nat) =>
    [fR L f (3 * m + 2 * (s : Int)) (c + 1 - (s : Int)),
     fL L f (3 * m + 2 * (s : Int)) (c + 1 - (s : Int))]

theorem countP_zigK (L : Nat) (f : Bool) (P : Pauli) (b : Op) (c t : Int) :
    (zigK L f c t).countP (opHit P b) = zigS L f P b c t := by
  unfold zigK zigS
  rw [countP_flat]
  apply rsum_congr
  intro i _
  simp only [List.countP_cons, List.countP_nil, blk]
  unfold ind
  omega

theorem length_zigK (L : Nat) (f : Bool) (c t : Int) : (zigK L f c t).length = 4 * L := by
  unfold zigK
  rw [List.length_flatMap]
  simp
  omega

theorem length_lineK (L : Nat) (f : Bool) (c m : Int) : (lineK L f c m).length = 6 * L := by
  unfold lineK
  rw [List.length_flatMap]
  simp
  omega

theorem mem_zigK {L : Nat} {f : Bool} {c t : Int} {q : Coord} :
    q ∈ zigK L f c t ↔ ∃ (i : Nat) (d : Int), i < L ∧
      ((q = fR L f t (t + c + 3 * (i : Int) + d) ∧ (d = 0 ∨ d = 2)) ∨
       (q = fL L f (t + 1) (t + c + 3 * (i : Int) + d) ∧ (d = 0 ∨ d = 1))) := by
  unfold zigK
  simp only [List.mem_flatMap, List.mem_range, List.mem_cons, List.not_mem_nil, or_false]
  constructor
  · rintro ⟨i, hi, rfl | rfl | rfl | rfl⟩
    · exact ⟨i, 0, hi, Or.inl ⟨by rw [Int.add_zero], Or.inl rfl⟩⟩
    · exact ⟨i, 0, hi, Or.inr ⟨by rw [Int.add_zero], Or.inl rfl⟩⟩
    · exact ⟨i, 1, hi, Or.inr ⟨rfl, Or.inr rfl⟩⟩
    · exact ⟨i, 2, hi, Or.inl ⟨rfl, Or.inr rfl⟩⟩
  · rintro ⟨i, d, hi, ⟨rfl, rfl | rfl⟩ | ⟨rfl, rfl | rfl⟩⟩
    · exact ⟨i, hi, Or.inl (by rw [Int.add_zero])⟩
    · exact ⟨i, hi, Or.inr (Or.inr (Or.inr rfl))⟩
    · exact ⟨i, hi, Or.inr (Or.inl (by rw [Int.add_zero]))⟩
    · exact ⟨i, hi, Or.inr (Or.inr (Or.inl rfl))⟩

theorem mem_lineK {L : Nat} {f : Bool} {c m : Int} {q : Coord} :
    q ∈ lineK L f c m ↔ ∃ s : Nat, s < 3 * L ∧
      (q = fR L f (3 * m + 2 * (s : Int)) (c + 1 - (s : Int)) ∨
       q = fL L f (3 * m + 2 * (s : Int)) (c + 1 - (s : Int))) := by
  unfold lineK
  simp only [List.mem_flatMap, List.mem_range, List.mem_cons, List.not_mem_nil, or_false]

theorem zigK_qubits {L : Nat} (hL : 1 ≤ L) (f : Bool) (c t : Int) :
    ∀ q ∈ zigK L f c t, q ∈ qubits L L := by
  intro q hq
  obtain ⟨i, d, _, ⟨rfl, _⟩ | ⟨rfl, _⟩⟩ := mem_zigK.mp hq
  · exact fR_qubit hL f _ _
  · exact fL_qubit hL f _ _

theorem lineK_qubits {L : Nat} (hL : 1 ≤ L) (f : Bool) (c m : Int) :
    ∀ q ∈ lineK L f c m, q ∈ qubits L L := by
  intro q hq
  obtain ⟨s, _, rfl | rfl⟩ := mem_lineK.mp hq
  · exact fR_qubit hL f _ _
  · exact fL_qubit hL f _ _

/-! ### the line through a qubit -/

/-- the face `(a, j)` lies on the line `m` of colour offset `c` -/
def OnLine (L : Nat) (c m a j : Int) : Prop := Cg L (a + 2 * j - 3 * m - 2 * c - 2)

instance (L : Nat) (c m a j : Int) : Decidable (OnLine L c m a j) := by
  unfold OnLine Cg; infer_instance

theorem cg_sub_emod (L : Nat) (w : Int) : Cg L (w - w % (3 * (L : Int))) :=
  ⟨w / (3 * (L : Int)), by have := Int.mul_ediv_add_emod w (3 * (L : Int)); omega⟩

theorem onLine_witness {L : Nat} (hL : 1 ≤ L) {c m a j : Int} (h : OnLine L c m a j) :
    ∃ s : Nat, s < 3 * L ∧ Cg L (a - (3 * m + 2 * (s : Int))) ∧ Cg L (j - (c + 1 - (s : Int))) := by
  have h0 := Int.emod_nonneg (c + 1 - j) (show 3 * (L : Int) ≠ 0 by omega)
  have h1 := Int.emod_lt_of_pos (c + 1 - j) (show (0 : Int) < 3 * (L : Int) by omega)
  have h2 := cg_sub_emod L (c + 1 - j)
  generalize (c + 1 - j) % (3 * (L : Int)) = r at h0 h1 h2
  refine ⟨r.toNat, by omega, ?_, ?_⟩
  · rw [Int.toNat_of_nonneg h0]
    exact (h.add (h2.mul 2)).congr (by unfold OnLine at h; ring)
  · rw [Int.toNat_of_nonneg h0]
    exact h2.neg.congr (by ring)

theorem fR_mem_lineK {L : Nat} (hL : 1 ≤ L) (f : Bool) (c m a j : Int) :
    fR L f a j ∈ lineK L f c m ↔ OnLine L c m a j := by
  rw [mem_lineK]
  constructor
  · rintro ⟨s, _, e | e⟩
    · obtain ⟨h1, h2⟩ := (fR_eq_iff hL f _ _ _ _).mp e
      exact ((h1.add (h2.mul 2)).neg).congr (by ring)
    · exact absurd e (fR_ne_fL hL f _ _ _ _)
  · intro h
    obtain ⟨s, hs, h1, h2⟩ := onLine_witness hL h
    exact ⟨s, hs, Or.inl (fR_congr hL f (h1.neg.congr (by ring)) (h2.neg.congr (by ring)))⟩

theorem fL_mem_lineK {L : Nat} (hL : 1 ≤ L) (f : Bool) (c m a j : Int) :
    fL L f a j ∈ lineK L f c m ↔ OnLine L c m a j := by
  rw [mem_lineK]
  constructor
  · rintro ⟨s, _, e | e⟩
    · exact absurd e.symm (fR_ne_fL hL f _ _ _ _)
    · obtain ⟨h1, h2⟩ := (fL_eq_iff hL f _ _ _ _).mp e
      exact ((h1.add (h2.mul 2)).neg).congr (by ring)
  · intro h
    obtain ⟨s, hs, h1, h2⟩ := onLine_witness hL h
    exact ⟨s, hs, Or.inr (fL_congr hL f (h1.neg.congr (by ring)) (h2.neg.congr (by ring)))⟩

/-! ### distinctness -/

/-- offsets within a period of three: equal blocks, equal offsets -/
theorem cg_block {L : Nat} {i i' : Nat} (hi : i < L) (hi' : i' < L) {d d' : Int}
    (hd : 0 ≤ d ∧ d < 3) (hd' : 0 ≤ d' ∧ d' < 3)
    (h : Cg L (3 * (i' : Int) + d' - (3 * (i : Int) + d))) : i = i' ∧ d = d' := by
  have h3 := h.mod3
  have e : d = d' := by omega
  subst e
  have := h.eq_zero (by omega) (by omega)
  exact ⟨by omega, rfl⟩

theorem nodup_zigK {L : Nat} (hL : 1 ≤ L) (f : Bool) (c t : Int) : (zigK L f c t).Nodup := by
  unfold zigK
  apply nodup_flat
  · intro i _
    simp only [List.nodup_cons, List.mem_cons, List.not_mem_nil, or_false, not_or,
      not_false_eq_true, List.nodup_nil, and_true]
    refine ⟨⟨fR_ne_fL hL f _ _ _ _, fR_ne_fL hL f _ _ _ _, ?_⟩,
      ⟨?_, fun e => fR_ne_fL hL f _ _ _ _ e.symm⟩, fun e => fR_ne_fL hL f _ _ _ _ e.symm⟩
    · intro e
      have := ((fR_eq_iff hL f _ _ _ _).mp e).2.mod3
      omega
    · intro e
      have := ((fL_eq_iff hL f _ _ _ _).mp e).2.mod3
      omega
  · intro i i' hi hi' hne q hq hq'
    simp only [List.mem_cons, List.not_mem_nil, or_false] at hq hq'
    have kR : ∀ d d' : Int, (0 ≤ d ∧ d < 3) → (0 ≤ d' ∧ d' < 3) →
        fR L f t (t + c + 3 * (i : Int) + d) = fR L f t (t + c + 3 * (i' : Int) + d') → False := by
      intro d d' hd hd' e
      exact hne (cg_block hi hi' hd hd'
        (((fR_eq_iff hL f _ _ _ _).mp e).2.congr (by ring))).1
    have kL : ∀ d d' : Int, (0 ≤ d ∧ d < 3) → (0 ≤ d' ∧ d' < 3) →
        fL L f (t + 1) (t + c + 3 * (i : Int) + d) = fL L f (t + 1) (t + c + 3 * (i' : Int) + d') →
          False := by
      intro d d' hd hd' e
      exact hne (cg_block hi hi' hd hd'
        (((fL_eq_iff hL f _ _ _ _).mp e).2.congr (by ring))).1
    have z : ∀ x : Int, x = x + 0 := fun x => by omega
    rcases hq with rfl | rfl | rfl | rfl <;> rcases hq' with e | e | e | e
    · rw [z (t + c + 3 * (i : Int)), z (t + c + 3 * (i' : Int))] at e
      exact kR 0 0 (by omega) (by omega) e
    · exact fR_ne_fL hL f _ _ _ _ e
    · exact fR_ne_fL hL f _ _ _ _ e
    · rw [z (t + c + 3 * (i : Int))] at e
      exact kR 0 2 (by omega) (by omega) e
    · exact fR_ne_fL hL f _ _ _ _ e.symm
    · rw [z (t + c + 3 * (i : Int)), z (t + c + 3 * (i' : Int))] at e
      exact kL 0 0 (by omega) (by omega) e
    · rw [z (t + c + 3 * (i : Int))] at e
      exact kL 0 1 (by omega) (by omega) e
    · exact fR_ne_fL hL f _ _ _ _ e.symm
    · exact fR_ne_fL hL f _ _ _ _ e.symm
    · rw [z (t + c + 3 * (i' : Int))] at e
      exact kL 1 0 (by omega) (by omega) e
    · exact kL 1 1 (by omega) (by omega) e
    · exact fR_ne_fL hL f _ _ _ _ e.symm
    · rw [z (t + c + 3 * (i' : Int))] at e
      exact kR 2 0 (by omega) (by omega) e
    · exact fR_ne_fL hL f _ _ _ _ e
    · exact fR_ne_fL hL f _ _ _ _ e
    · exact kR 2 2 (by omega) (by omega) e

theorem nodup_lineK {L : Nat} (hL : 1 ≤ L) (f : Bool) (c m : Int) : (lineK L f c m).Nodup := by
  unfold lineK
  apply nodup_flat
  · intro s _
    simp only [List.nodup_cons, List.mem_cons, List.not_mem_nil, or_false, not_false_eq_true,
      List.nodup_nil, and_true]
    exact fR_ne_fL hL f _ _ _ _
  · intro s s' hs hs' hne q hq hq'
    simp only [List.mem_cons, List.not_mem_nil, or_false] at hq hq'
    rcases hq with rfl | rfl <;> rcases hq' with e | e
    · have := ((fR_eq_iff hL f _ _ _ _).mp e).2.eq_zero (by omega) (by omega)
      omega
    · exact fR_ne_fL hL f _ _ _ _ e
    · exact fR_ne_fL hL f _ _ _ _ e.symm
    · have := ((fL_eq_iff hL f _ _ _ _).mp e).2.eq_zero (by omega) (by omega)
      omega

/-- different zig-zags of a family are disjoint -/
theorem zigK_disjoint {L : Nat} (hL : 1 ≤ L) (f : Bool) (c : Int) {t t' : Nat} (ht : t < 3 * L)
    (ht' : t' < 3 * L) (hne : t ≠ t') :
    ∀ q ∈ zigK L f c (t : Int), q ∉ zigK L f c (t' : Int) := by
  intro q hq hq'
  obtain ⟨i, d, _, ⟨rfl, _⟩ | ⟨rfl, _⟩⟩ := mem_zigK.mp hq <;>
  obtain ⟨i', d', _, ⟨e, _⟩ | ⟨e, _⟩⟩ := mem_zigK.mp hq'
  · have := ((fR_eq_iff hL f _ _ _ _).mp e).1.eq_zero (by omega) (by omega)
    omega
  · exact fR_ne_fL hL f _ _ _ _ e
  · exact fR_ne_fL hL f _ _ _ _ e.symm
  · have := ((fL_eq_iff hL f _ _ _ _).mp e).1.eq_zero (by omega) (by omega)
    omega

/-- a zig-zag and a line of the same family are disjoint -/
theorem zigK_lineK_disjoint {L : Nat} (hL : 1 ≤ L) (f : Bool) (c t m : Int) :
    ∀ q ∈ zigK L f c t, q ∉ lineK L f c m := by
  intro q hq hq'
  obtain ⟨i, d, _, ⟨rfl, hd⟩ | ⟨rfl, hd⟩⟩ := mem_zigK.mp hq
  · have h := ((fR_mem_lineK hL f c m _ _).mp hq').mod3
    omega
  · have h := ((fL_mem_lineK hL f c m _ _).mp hq').mod3
    omega

/-- different lines of a family are disjoint -/
theorem lineK_disjoint {L : Nat} (hL : 1 ≤ L) (f : Bool) (c : Int) {m m' : Nat} (hm : m < L)
    (hm' : m' < L) (hne : m ≠ m') :
    ∀ q ∈ lineK L f c (m : Int), q ∉ lineK L f c (m' : Int) := by
  intro q hq hq'
  have key : ∀ a j : Int, OnLine L c m a j → OnLine L c m' a j → False := by
    intro a j h h'
    have h3 : Cg L (3 * ((m' : Int) - (m : Int))) := (h.sub h').congr (by ring)
    obtain ⟨k, hk⟩ := (cg_three_mul hL).mp h3
    have : (m' : Int) - (m : Int) = 0 := by
      apply eq_zero_of_emod (m := (L : Int)) (Int.emod_eq_zero_of_dvd ⟨k, hk⟩) (by omega) (by omega)
    omega
  obtain ⟨s, _, rfl | rfl⟩ := mem_lineK.mp hq
  · exact key _ _ ((fR_mem_lineK hL f c m _ _).mp hq) ((fR_mem_lineK hL f c m' _ _).mp hq')
  · exact key _ _ ((fL_mem_lineK hL f c m _ _).mp hq) ((fL_mem_lineK hL f c m' _ _).mp hq')

end Panqec.Color666ToricCode
