/-
Helper lemmas for C12: the invariant of the batch save/load/crash/restart protocol
(`Model/Batch.lean`) and its preservation by every event.
-/
import PanqecVerif.Model.Batch

namespace Panqec.Batch

/-! ### definitions used by the statements -/

/-- records of a results file (`[]` unless the file is a complete document) -/
def fileDoc : FileSt → Doc
  | .complete d => d
  | _ => []

/-- the three result lists hold the same trials and `n_runs` is their length -/
def Sim.WF (s : Sim) : Prop := s.su = s.ee ∧ s.cs = s.ee ∧ s.nRuns = s.ee.length

/-- a list of records without duplicated simulations, duplicated trials, or unknown trial ids -/
structure IdsOK (l : List Sim) (next : Nat) : Prop where
  inputsNodup : (l.map (·.inputs)).Nodup
  each : ∀ s ∈ l, s.WF ∧ s.ee.Nodup ∧ ∀ id ∈ s.ee, id < next
  cross : ∀ s ∈ l, ∀ t ∈ l, s.inputs ≠ t.inputs → ∀ id ∈ s.ee, id ∉ t.ee

/-- what the trial loop guarantees at each program point -/
def LoopOK (p : Proc) (file : FileSt) : Prop :=
  match p.pc with
  | .trial i => i < p.n ∧ (∀ s ∈ p.front, i + 1 ≤ s.nRuns) ∧ (∀ s ∈ p.back, i ≤ s.nRuns)
  | .save i _ _ _ => i < p.n ∧ p.front = [] ∧ (∀ s ∈ p.back, i + 1 ≤ s.nRuns)
  | .done => p.front = [] ∧ (∀ s ∈ p.back, p.n ≤ s.nRuns) ∧ (1 ≤ p.n → ∀ s ∈ p.back, s ∈ fileDoc file)
  | .failed _ => False
  | _ => True

def Pc.atRename : Pc → Bool
  | .save _ _ _ (.first .rename) => true
  | .save _ _ _ (.second .rename) => true
  | _ => false

/-- the invariant of the atomic protocol -/
structure Inv (w : World) : Prop where
  atomicOK : w.atomic = true
  fileOK : w.disk.file = .absent ∨ ∃ d, w.disk.file = .complete d
  memOK : IdsOK w.proc.mem w.next
  docOK : IdsOK (fileDoc w.disk.file) w.next
  specMem : w.proc.mem.map (·.inputs) = w.proc.spec
  sfOK : 1 ≤ w.proc.sf
  pre : ∀ r ∈ fileDoc w.disk.file, ∃ s ∈ w.proc.mem, s.inputs = r.inputs ∧ r.ee <+: s.ee
  renameOK : w.proc.pc.atRename = true → w.disk.tmp = .complete w.proc.mem
  counts : ∀ s ∈ w.proc.mem, s.nRuns ≤ w.proc.n
  loopOK : LoopOK w.proc w.disk.file

/-- admissible events: a (re)start uses a non-empty specification without duplicates that
    contains every simulation already in the file, a target not below the recorded counts and a
    save frequency ≥ 1; the file is not modified from outside -/
def EvOK (w : World) : Ev → Prop
  | .start spec n sf =>
    spec ≠ [] ∧ spec.Nodup ∧ 1 ≤ sf ∧ ∀ r ∈ fileDoc w.disk.file, r.inputs ∈ spec ∧ r.nRuns ≤ n
  | .put _ => False
  | _ => True

def AllOK : World → List Ev → Prop
  | _, [] => True
  | w, e :: es => EvOK w e ∧ AllOK (apply w e) es

/-- every record of the file of `w` is an unchanged prefix of a record of the file of `w'` -/
def FileLE (f f' : FileSt) : Prop :=
  ∀ r ∈ fileDoc f, ∃ r' ∈ fileDoc f', r'.inputs = r.inputs ∧ r.ee <+: r'.ee ∧ r.su <+: r'.su ∧ r.cs <+: r'.cs

/-! ### small facts -/

theorem fresh_WF (x : Nat) : (fresh x).WF := by simp [fresh, Sim.WF]

theorem loadSim_inputs (od : Option Doc) (x : Nat) : (loadSim od x).inputs = x := by
  unfold loadSim
  cases od with
  | none => rfl
  | some d =>
    simp only
    cases findRec d x <;> rfl

theorem findRec_some {d : Doc} {x : Nat} {r : Sim} (h : findRec d x = some r) :
    r ∈ d ∧ r.inputs = x := by
  unfold findRec at h
  have h1 := List.mem_of_find?_eq_some h
  have h2 := List.find?_some h
  exact ⟨h1, by simpa using h2⟩

/-- a loaded simulation is either fresh or *is* a record of the file with identical inputs -/
theorem loadSim_cases (od : Option Doc) (x : Nat) :
    loadSim od x = fresh x ∨ ∃ d, od = some d ∧ loadSim od x ∈ d ∧ (loadSim od x).inputs = x := by
  cases od with
  | none => left; rfl
  | some d =>
    cases h : findRec d x with
    | none => left; simp [loadSim, h]
    | some r =>
      right
      obtain ⟨hm, hx⟩ := findRec_some h
      refine ⟨d, rfl, ?_, loadSim_inputs _ _⟩
      have : loadSim (some d) x = r := by
        simp only [loadSim, h]
        cases r; simp_all
      rw [this]; exact hm

theorem findRec_of_mem {d : Doc} (hn : (d.map (·.inputs)).Nodup) {r : Sim} (hr : r ∈ d) :
    findRec d r.inputs = some r := by
  induction d with
  | nil => cases hr
  | cons a t ih =>
    simp only [List.map_cons, List.nodup_cons] at hn
    unfold findRec
    rcases List.mem_cons.mp hr with rfl | hr'
    · simp
    · have hne : a.inputs ≠ r.inputs := by
        intro he
        exact hn.1 (he ▸ List.mem_map.mpr ⟨r, hr', rfl⟩)
      simp only [List.find?_cons]
      have : (a.inputs == r.inputs) = false := by simpa using hne
      rw [this]
      exact ih hn.2 hr'

theorem loadSim_of_mem {d : Doc} (hn : (d.map (·.inputs)).Nodup) {r : Sim} (hr : r ∈ d) :
    loadSim (some d) r.inputs = r := by
  simp only [loadSim, findRec_of_mem hn hr]

theorem minRuns_le : ∀ (l : List Sim) (s : Sim), s ∈ l → minRuns l ≤ s.nRuns
  | [], _, h => by cases h
  | [a], s, h => by
    simp only [List.mem_singleton] at h
    subst h; simp [minRuns]
  | a :: b :: t, s, h => by
    have ih := minRuns_le (b :: t) s
    simp only [minRuns]
    rcases List.mem_cons.mp h with rfl | h'
    · exact Nat.min_le_left _ _
    · exact Nat.le_trans (Nat.min_le_right _ _) (ih h')

/-! ### `IdsOK` is preserved by loading and by running one trial -/

theorem IdsOK.nil (next : Nat) : IdsOK [] next :=
  ⟨by simp, by simp, by simp⟩

theorem IdsOK.mono {l : List Sim} {a b : Nat} (h : IdsOK l a) (hab : a ≤ b) : IdsOK l b :=
  ⟨h.inputsNodup, fun s hs => ⟨(h.each s hs).1, (h.each s hs).2.1,
    fun id hid => Nat.lt_of_lt_of_le ((h.each s hs).2.2 id hid) hab⟩, h.cross⟩

theorem idsOK_load {d : Doc} {next : Nat} (hd : IdsOK d next) (od : Option Doc)
    (hod : od = none ∨ od = some d) {spec : List Nat} (hs : spec.Nodup) :
    IdsOK (spec.map (loadSim od)) next := by
  have hmem : ∀ x, loadSim od x = fresh x ∨ (loadSim od x ∈ d ∧ (loadSim od x).inputs = x) := by
    intro x
    rcases loadSim_cases od x with h | ⟨d', hd', hm, hx⟩
    · exact Or.inl h
    · rcases hod with h | h
      · rw [h] at hd'; cases hd'
      · rw [h] at hd'; cases hd'; exact Or.inr ⟨hm, hx⟩
  refine ⟨?_, ?_, ?_⟩
  · have : (spec.map (loadSim od)).map (·.inputs) = spec := by
      simp [List.map_map, Function.comp_def, loadSim_inputs]
    rw [this]; exact hs
  · intro s hs'
    obtain ⟨x, _, rfl⟩ := List.mem_map.mp hs'
    rcases hmem x with h | ⟨hm, _⟩
    · rw [h]; exact ⟨fresh_WF x, by simp [fresh], by simp [fresh]⟩
    · exact hd.each _ hm
  · intro s hs' t ht hne id hid
    obtain ⟨x, _, rfl⟩ := List.mem_map.mp hs'
    obtain ⟨y, _, rfl⟩ := List.mem_map.mp ht
    rcases hmem x with h | ⟨hm, _⟩
    · rw [h] at hid; simp [fresh] at hid
    · rcases hmem y with h' | ⟨hm', _⟩
      · rw [h']; simp [fresh]
      · exact hd.cross _ hm _ hm' hne id hid

theorem runOne_inputs (s : Sim) (id : Nat) : (s.runOne id).inputs = s.inputs := rfl

/-- running one trial of the simulation between `front` and `rest` -/
theorem idsOK_runOne {front rest : List Sim} {s : Sim} {next : Nat}
    (h : IdsOK (front ++ s :: rest) next) :
    IdsOK ((front ++ [s.runOne next]) ++ rest) (next + 1) := by
  have hs : s ∈ front ++ s :: rest := by simp
  have hold : ∀ t, t ∈ (front ++ [s.runOne next]) ++ rest →
      t = s.runOne next ∨ t ∈ front ++ s :: rest := by
    intro t ht
    simp only [List.mem_append, List.mem_cons, List.not_mem_nil, or_false] at ht ⊢
    rcases ht with (h1 | h1) | h1
    · exact Or.inr (Or.inl h1)
    · exact Or.inl h1
    · exact Or.inr (Or.inr (Or.inr h1))
  obtain ⟨hwf, hnd, hlt⟩ := h.each s hs
  have hnew : (s.runOne next).WF ∧ (s.runOne next).ee.Nodup ∧ ∀ id ∈ (s.runOne next).ee, id < next + 1 := by
    obtain ⟨h1, h2, h3⟩ := hwf
    refine ⟨⟨by simp [Sim.runOne, h1], by simp [Sim.runOne, h2], by simp [Sim.runOne, h3]⟩, ?_, ?_⟩
    · simp only [Sim.runOne]
      rw [List.nodup_append]
      refine ⟨hnd, by simp, ?_⟩
      intro a ha b hb
      simp only [List.mem_singleton] at hb
      subst hb
      exact Nat.ne_of_lt (hlt a ha)
    · intro id hid
      simp only [Sim.runOne, List.mem_append, List.mem_singleton] at hid
      rcases hid with hid | rfl
      · exact Nat.lt_succ_of_lt (hlt id hid)
      · exact Nat.lt_succ_self _
  refine ⟨?_, ?_, ?_⟩
  · have : ((front ++ [s.runOne next]) ++ rest).map (·.inputs) = (front ++ s :: rest).map (·.inputs) := by
      simp [runOne_inputs]
    rw [this]; exact h.inputsNodup
  · intro t ht
    rcases hold t ht with rfl | ht'
    · exact hnew
    · obtain ⟨a, b, c⟩ := h.each t ht'
      exact ⟨a, b, fun id hid => Nat.lt_succ_of_lt (c id hid)⟩
  · intro t ht u hu hne id hid
    rcases hold t ht with rfl | ht'
    · rcases hold u hu with rfl | hu'
      · exact absurd rfl hne
      · simp only [Sim.runOne, List.mem_append, List.mem_singleton] at hid
        rcases hid with hid | rfl
        · exact h.cross s hs u hu' hne id hid
        · intro hmem
          exact Nat.lt_irrefl _ ((h.each u hu').2.2 _ hmem)
    · rcases hold u hu with rfl | hu'
      · simp only [Sim.runOne, List.mem_append, List.mem_singleton, not_or]
        refine ⟨h.cross t ht' s hs hne id hid, ?_⟩
        exact Nat.ne_of_lt ((h.each t ht').2.2 id hid)
      · exact h.cross t ht' u hu' hne id hid

theorem pre_runOne {front rest : List Sim} {s : Sim} {next : Nat} {doc : Doc}
    (h : ∀ r ∈ doc, ∃ t ∈ front ++ s :: rest, t.inputs = r.inputs ∧ r.ee <+: t.ee) :
    ∀ r ∈ doc, ∃ t ∈ (front ++ [s.runOne next]) ++ rest, t.inputs = r.inputs ∧ r.ee <+: t.ee := by
  intro r hr
  obtain ⟨t, ht, hi, hp⟩ := h r hr
  simp only [List.mem_append, List.mem_cons] at ht
  rcases ht with ht | rfl | ht
  · exact ⟨t, by simp [ht], hi, hp⟩
  · refine ⟨t.runOne next, by simp, hi, ?_⟩
    exact List.IsPrefix.trans hp (List.prefix_append _ _)
  · exact ⟨t, by simp [ht], hi, hp⟩

end Panqec.Batch
