/-
Helper lemmas for the bookkeeping of `SplittingSimulation._run` (`Model/Splitting.lean`):
lengths of `current_error` and of the lists in `_results['log_p_errors']`, `n_runs`, the
read position of the draws; `run a` then `run b` is `run (a + b)`; what each recorded value
is.
-/
import PanqecVerif.Proofs.SplittingStep

namespace Panqec.Split

open Panqec

/-! ### one chain step -/

theorem chainStep_inv (cfg : Cfg) (draws : Nat → Draw) (s s' : State) (i : Nat) (rate : Rat)
    (t : StepTrace) (h : chainStep cfg draws s i rate = .ok (s', t)) :
    ∃ dec prev ds, cfg.decoders[i]? = some dec ∧ s.current[i]? = some prev ∧ cfg.dists[i]? = some ds ∧
      getNextError cfg.dt cfg.code cfg.n dec rate ds prev (draws s.pos) = .ok t ∧
      s' = { s with current := s.current.set i t.next
                    logP := s.logP.modify i (· ++ [t.pNext])
                    pos := s.pos + 1 } := by
  unfold chainStep at h
  cases hd : cfg.decoders[i]? with
  | none => simp [hd] at h
  | some dec =>
    cases hc : s.current[i]? with
    | none => simp [hd, hc] at h
    | some prev =>
      cases hds : cfg.dists[i]? with
      | none => simp [hd, hc, hds] at h
      | some ds =>
        simp only [hd, hc, hds] at h
        cases hg : getNextError cfg.dt cfg.code cfg.n dec rate ds prev (draws s.pos) with
        | error e => simp [hg] at h
        | ok t' =>
          simp only [hg, Except.ok.injEq, Prod.mk.injEq] at h
          obtain ⟨h1, h2⟩ := h
          subst h2
          exact ⟨dec, prev, ds, rfl, rfl, rfl, hg, h1.symm⟩

/-- invariant in the middle of sweep number `N` (0-based), after chains `0 … j-1` -/
structure Mid (cfg : Cfg) (s : State) (N j : Nat) : Prop where
  logLen : s.logP.length = cfg.rates.length
  rows : ∀ i (h : i < s.logP.length), (s.logP[i]).length = if i < j then N + 1 else N
  curLen : s.current.length = cfg.rates.length
  pos : s.pos = N * cfg.rates.length + j
  nRuns : s.nRuns = N

theorem chainStep_mid (cfg : Cfg) (draws : Nat → Draw) (s s' : State) (N j : Nat) (rate : Rat)
    (t : StepTrace) (hm : Mid cfg s N j) (h : chainStep cfg draws s j rate = .ok (s', t)) :
    Mid cfg s' N (j + 1) := by
  obtain ⟨dec, prev, ds, _, _, _, _, rfl⟩ := chainStep_inv cfg draws s s' j rate t h
  refine ⟨by simpa using hm.logLen, ?_, by simpa using hm.curLen, by simp [hm.pos]; omega, hm.nRuns⟩
  intro i hi
  simp only [List.length_modify] at hi
  have := hm.rows i hi
  simp only [List.getElem_modify]
  by_cases hij : j = i
  · subst hij
    simp only [if_true, List.length_append, List.length_cons, List.length_nil, this]
    simp
  · simp only [hij, if_false, this]
    by_cases h1 : i < j
    · simp [h1, Nat.lt_succ_of_lt h1]
    · have : ¬ i < j + 1 := by omega
      simp [h1, this]

theorem sweepGo_mid (cfg : Cfg) (draws : Nat → Draw) (N : Nat) :
    ∀ (L : List Rat) (j : Nat) (s s' : State) (acc tr : List StepTrace),
      Mid cfg s N j → sweepGo cfg draws (L.zipIdx j) s acc = .ok (s', tr) →
      Mid cfg s' N (j + L.length) ∧ tr.length = acc.length + L.length
  | [], j, s, s', acc, tr, hm, h => by
    simp only [List.zipIdx_nil, sweepGo, Except.ok.injEq, Prod.mk.injEq] at h
    obtain ⟨rfl, rfl⟩ := h
    exact ⟨by simpa using hm, by simp⟩
  | r :: L, j, s, s', acc, tr, hm, h => by
    simp only [List.zipIdx_cons, sweepGo] at h
    cases hc : chainStep cfg draws s j r with
    | error e => simp [hc] at h
    | ok p =>
      obtain ⟨s1, t⟩ := p
      simp only [hc] at h
      have hm1 := chainStep_mid cfg draws s s1 N j r t hm hc
      obtain ⟨h1, h2⟩ := sweepGo_mid cfg draws N L (j + 1) s1 s' (acc ++ [t]) tr hm1 h
      refine ⟨?_, ?_⟩
      · have : j + 1 + L.length = j + (r :: L).length := by simp; omega
        rwa [this] at h1
      · simp at h2 ⊢; omega

/-- well-formed state between two sweeps -/
structure Wf (cfg : Cfg) (s : State) : Prop where
  logLen : s.logP.length = cfg.rates.length
  rows : ∀ l ∈ s.logP, l.length = s.nRuns
  curLen : s.current.length = cfg.rates.length
  pos : s.pos = s.nRuns * cfg.rates.length

theorem Wf.mid {cfg : Cfg} {s : State} (h : Wf cfg s) : Mid cfg s s.nRuns 0 :=
  ⟨h.logLen, fun i hi => by simpa using h.rows _ (List.getElem_mem hi), h.curLen, by simp [h.pos], rfl⟩

theorem sweep_wf (cfg : Cfg) (draws : Nat → Draw) (s s' : State) (tr : List StepTrace)
    (hw : Wf cfg s) (h : sweep cfg draws s = .ok (s', tr)) :
    Wf cfg s' ∧ s'.nRuns = s.nRuns + 1 ∧ tr.length = cfg.rates.length ∧ s'.pEst = s.pEst := by
  unfold sweep at h
  cases hg : sweepGo cfg draws cfg.rates.zipIdx s [] with
  | error e => simp [hg] at h
  | ok p =>
    obtain ⟨s1, tr1⟩ := p
    simp only [hg, Except.ok.injEq, Prod.mk.injEq] at h
    obtain ⟨rfl, rfl⟩ := h
    have hz : cfg.rates.zipIdx = cfg.rates.zipIdx 0 := rfl
    rw [hz] at hg
    obtain ⟨hm, hl⟩ := sweepGo_mid cfg draws s.nRuns cfg.rates 0 s s1 [] tr1 hw.mid hg
    simp only [Nat.zero_add, List.length_nil] at hm hl
    refine ⟨⟨hm.logLen, ?_, hm.curLen, ?_⟩, by simp [hm.nRuns], hl, ?_⟩
    · intro l hl'
      obtain ⟨i, hi, rfl⟩ := List.getElem_of_mem hl'
      have := hm.rows i hi
      have hi' : i < cfg.rates.length := by rw [← hm.logLen]; exact hi
      simp only [hi', if_true] at this
      simp [this, hm.nRuns]
    · simp only [hm.pos, hm.nRuns]
      rw [Nat.add_mul, Nat.one_mul]
    · exact sweepGo_pEst cfg draws _ s s1 [] tr1 hg
where
  sweepGo_pEst (cfg : Cfg) (draws : Nat → Draw) :
      ∀ (L : List (Rat × Nat)) (s s' : State) (acc tr : List StepTrace),
        sweepGo cfg draws L s acc = .ok (s', tr) → s'.pEst = s.pEst
    | [], s, s', acc, tr, h => by
      simp only [sweepGo, Except.ok.injEq, Prod.mk.injEq] at h
      rw [← h.1]
    | (r, i) :: L, s, s', acc, tr, h => by
      simp only [sweepGo] at h
      cases hc : chainStep cfg draws s i r with
      | error e => simp [hc] at h
      | ok p =>
        obtain ⟨s1, t⟩ := p
        simp only [hc] at h
        obtain ⟨_, _, _, _, _, _, _, rfl⟩ := chainStep_inv cfg draws s s1 i r t hc
        exact sweepGo_pEst cfg draws L _ s' _ tr h |>.trans rfl

theorem sweeps_wf (cfg : Cfg) (draws : Nat → Draw) :
    ∀ (k : Nat) (s s' : State) (acc tr : List StepTrace), Wf cfg s →
      sweeps cfg draws k s acc = .ok (s', tr) →
      Wf cfg s' ∧ s'.nRuns = s.nRuns + k ∧ tr.length = acc.length + k * cfg.rates.length ∧
        s'.pEst = s.pEst
  | 0, s, s', acc, tr, hw, h => by
    simp only [sweeps, Except.ok.injEq, Prod.mk.injEq] at h
    obtain ⟨rfl, rfl⟩ := h
    exact ⟨hw, rfl, by simp, rfl⟩
  | k + 1, s, s', acc, tr, hw, h => by
    simp only [sweeps] at h
    cases hs : sweep cfg draws s with
    | error e => simp [hs] at h
    | ok p =>
      obtain ⟨s1, tr1⟩ := p
      simp only [hs] at h
      obtain ⟨hw1, hn1, hl1, hp1⟩ := sweep_wf cfg draws s s1 tr1 hw hs
      obtain ⟨hw2, hn2, hl2, hp2⟩ := sweeps_wf cfg draws k s1 s' (acc ++ tr1) tr hw1 h
      refine ⟨hw2, by omega, ?_, by rw [hp2, hp1]⟩
      simp only [List.length_append] at hl2
      rw [hl2, hl1, Nat.add_mul]
      omega

/-! ### `_run` from the state after `__init__` -/

theorem init_logLen (cfg : Cfg) : (State.init cfg).logP.length = cfg.rates.length := by
  simp [State.init]

theorem initialise_length (cfg : Cfg) (cur : List (List Nat)) (h : initialise cfg = .ok cur) :
    cur.length = cfg.rates.length ∧ ∃ e0, cur = List.replicate cfg.rates.length e0 ∧
      chooseInitial cfg = .ok e0 := by
  unfold initialise at h
  cases hc : chooseInitial cfg with
  | error e => simp [hc] at h
  | ok e0 =>
    simp only [hc] at h
    cases hd : cfg.decoders[0]? with
    | none => simp [hd] at h
    | some dec =>
      simp only [hd] at h
      split at h
      · cases h
      · simp only [Except.ok.injEq] at h
        subst h
        exact ⟨by simp, e0, rfl, rfl⟩

/-- lengths after the first `_run(k)` -/
theorem runTr_init (cfg : Cfg) (draws : Nat → Draw) (k : Nat) (s' : State) (tr : List StepTrace)
    (h : runTr cfg draws k (State.init cfg) = .ok (s', tr)) :
    Wf cfg s' ∧ s'.nRuns = k ∧ tr.length = k * cfg.rates.length ∧ s'.pEst = none := by
  unfold runTr at h
  simp only [State.init, List.length_nil, beq_self_eq_true, if_true] at h
  cases hi : initialise cfg with
  | error e => simp [hi] at h
  | ok cur =>
    simp only [hi] at h
    have hw : Wf cfg { current := cur, logP := List.replicate cfg.rates.length [], nRuns := 0, pos := 0,
                       pEst := none } :=
      ⟨by simp, by intro l hl; simp [List.mem_replicate] at hl; simp [hl.2],
        (initialise_length cfg cur hi).1, by simp⟩
    obtain ⟨h1, h2, h3, h4⟩ := sweeps_wf cfg draws k _ s' [] tr hw h
    exact ⟨h1, by simpa using h2, by simpa using h3, h4⟩

/-- any later `_run(k)` -/
theorem runTr_wf (cfg : Cfg) (draws : Nat → Draw) (k : Nat) (s s' : State) (tr : List StepTrace)
    (hw : Wf cfg s) (hne : cfg.rates ≠ []) (h : runTr cfg draws k s = .ok (s', tr)) :
    Wf cfg s' ∧ s'.nRuns = s.nRuns + k ∧ tr.length = k * cfg.rates.length ∧ s'.pEst = s.pEst := by
  unfold runTr at h
  have hlen : (s.current.length == 0) = false := by
    rw [hw.curLen]
    cases hr : cfg.rates with
    | nil => exact absurd hr hne
    | cons a l => simp
  simp only [hlen, Bool.false_eq_true, if_false] at h
  obtain ⟨h1, h2, h3, h4⟩ := sweeps_wf cfg draws k s s' [] tr hw h
  exact ⟨h1, h2, by simpa using h3, h4⟩

/-! ### the estimator keeps the lengths -/

theorem telescope_length (start : Nat) : ∀ (lp : List (List Rat)) (p : Rat) (l : List Rat),
    telescope start p lp = .ok l → l.length = lp.length - 1
  | [], p, l, h => by simp only [telescope, Except.ok.injEq] at h; subst h; rfl
  | [_], p, l, h => by simp only [telescope, Except.ok.injEq] at h; subst h; rfl
  | pj :: pk :: rest, p, l, h => by
    simp only [telescope] at h
    cases hs : samplePairs start pj pk with
    | error e => simp [hs] at h
    | ok ab =>
      simp only [hs] at h
      cases ht : telescope start (p * ratioOf (optimalC ab) ab) (pk :: rest) with
      | error e => simp [ht] at h
      | ok l' =>
        simp only [ht, Except.ok.injEq] at h
        subst h
        have := telescope_length start (pk :: rest) _ l' ht
        simp at this ⊢
        exact this

theorem computeOptimalC_length (start : Nat) : ∀ (lp : List (List Rat)) (l : List Rat),
    computeOptimalC start lp = .ok l → l.length = lp.length - 1
  | [], l, h => by simp only [computeOptimalC, Except.ok.injEq] at h; subst h; rfl
  | [_], l, h => by simp only [computeOptimalC, Except.ok.injEq] at h; subst h; rfl
  | pj :: pk :: rest, l, h => by
    simp only [computeOptimalC] at h
    cases hs : samplePairs start pj pk with
    | error e => simp [hs] at h
    | ok ab =>
      simp only [hs] at h
      cases ht : computeOptimalC start (pk :: rest) with
      | error e => simp [ht] at h
      | ok l' =>
        simp only [ht, Except.ok.injEq] at h
        subst h
        have := computeOptimalC_length start (pk :: rest) l' ht
        simp at this ⊢
        exact this

theorem postprocess_length (cfg : Cfg) (u : Nat → Rat) (s s' : State) (hw : Wf cfg s)
    (h : postprocess cfg u s = .ok s') :
    ∃ lp, s'.pEst = some lp ∧ lp.length = cfg.rates.length ∧ s'.nRuns = s.nRuns ∧
      s'.logP = s.logP ∧ s'.current = s.current := by
  unfold postprocess computeLogicalProbabilities at h
  cases hi : initialLogicalP cfg u with
  | error e => simp [hi] at h
  | ok p0 =>
    simp only [hi] at h
    cases ht : telescope cfg.startRun p0 s.logP with
    | error e => simp [ht] at h
    | ok l =>
      simp only [ht, Except.ok.injEq] at h
      subst h
      refine ⟨p0 :: l, rfl, ?_, rfl, rfl, rfl⟩
      have hl := telescope_length cfg.startRun s.logP p0 l ht
      have hne : cfg.rates.length ≠ 0 := by
        intro h0
        unfold initialLogicalP at hi
        have : cfg.rates[0]? = none := by
          rw [List.getElem?_eq_none]; omega
        simp [this] at hi
      simp only [List.length_cons, hl, hw.logLen]
      omega

end Panqec.Split

namespace Panqec.Split

open Panqec

/-! ### `run a` then `run b` is `run (a + b)` -/

theorem sweeps_acc (cfg : Cfg) (draws : Nat → Draw) :
    ∀ (k : Nat) (s : State) (acc : List StepTrace),
      sweeps cfg draws k s acc =
        match sweeps cfg draws k s [] with
        | .error e => .error e
        | .ok (s', tr) => .ok (s', acc ++ tr)
  | 0, s, acc => by simp [sweeps]
  | k + 1, s, acc => by
    simp only [sweeps]
    cases hs : sweep cfg draws s with
    | error e => rfl
    | ok p =>
      obtain ⟨s1, tr1⟩ := p
      simp only
      rw [sweeps_acc cfg draws k s1 (acc ++ tr1), sweeps_acc cfg draws k s1 ([] ++ tr1)]
      cases sweeps cfg draws k s1 [] with
      | error e => rfl
      | ok q => simp

theorem sweeps_add (cfg : Cfg) (draws : Nat → Draw) :
    ∀ (a b : Nat) (s s1 s2 : State) (tr1 tr2 : List StepTrace),
      sweeps cfg draws a s [] = .ok (s1, tr1) → sweeps cfg draws b s1 [] = .ok (s2, tr2) →
      sweeps cfg draws (a + b) s [] = .ok (s2, tr1 ++ tr2)
  | 0, b, s, s1, s2, tr1, tr2, h1, h2 => by
    simp only [sweeps, Except.ok.injEq, Prod.mk.injEq] at h1
    obtain ⟨rfl, rfl⟩ := h1
    simpa using h2
  | a + 1, b, s, s1, s2, tr1, tr2, h1, h2 => by
    have hab : a + 1 + b = (a + b) + 1 := by omega
    rw [hab]
    simp only [sweeps] at h1 ⊢
    cases hs : sweep cfg draws s with
    | error e => simp [hs] at h1
    | ok p =>
      obtain ⟨s0, tr0⟩ := p
      simp only [hs] at h1 ⊢
      rw [sweeps_acc] at h1 ⊢
      cases hk : sweeps cfg draws a s0 [] with
      | error e => simp [hk] at h1
      | ok q =>
        obtain ⟨s1', tr1'⟩ := q
        simp only [hk, Except.ok.injEq, Prod.mk.injEq] at h1
        obtain ⟨rfl, rfl⟩ := h1
        rw [sweeps_add cfg draws a b s0 s1' s2 tr1' tr2 hk h2]
        simp

theorem runTr_of_current (cfg : Cfg) (draws : Nat → Draw) (k : Nat) (s : State)
    (h : s.current.length ≠ 0) : runTr cfg draws k s = sweeps cfg draws k s [] := by
  unfold runTr
  have : (s.current.length == 0) = false := by simpa using h
  simp [this]

/-- two consecutive calls of `_run` give what one call with the sum gives (states and traces),
    as long as there is at least one error rate -/
theorem runTr_add (cfg : Cfg) (draws : Nat → Draw) (a b : Nat) (s s1 s2 : State)
    (tr1 tr2 : List StepTrace) (hne : cfg.rates ≠ [])
    (hs : s.current.length = 0 ∨ s.current.length = cfg.rates.length)
    (h1 : runTr cfg draws a s = .ok (s1, tr1)) (h2 : runTr cfg draws b s1 = .ok (s2, tr2)) :
    runTr cfg draws (a + b) s = .ok (s2, tr1 ++ tr2) := by
  have hR : cfg.rates.length ≠ 0 := by
    intro h0; exact hne (List.length_eq_zero_iff.mp h0)
  have hcur : ∀ (k : Nat) (x y : State) (acc tr : List StepTrace),
      sweeps cfg draws k x acc = .ok (y, tr) → y.current.length = x.current.length := by
    intro k
    induction k with
    | zero =>
      intro x y acc tr h
      simp only [sweeps, Except.ok.injEq, Prod.mk.injEq] at h
      rw [← h.1]
    | succ k ih =>
      intro x y acc tr h
      simp only [sweeps] at h
      cases hsw : sweep cfg draws x with
      | error e => simp [hsw] at h
      | ok p =>
        obtain ⟨x1, t1⟩ := p
        simp only [hsw] at h
        rw [ih x1 y _ tr h]
        unfold sweep at hsw
        cases hg : sweepGo cfg draws cfg.rates.zipIdx x [] with
        | error e => simp [hg] at hsw
        | ok q =>
          obtain ⟨x2, t2⟩ := q
          simp only [hg, Except.ok.injEq, Prod.mk.injEq] at hsw
          rw [← hsw.1]
          exact go cfg draws _ x x2 [] t2 hg
  rcases hs with h0 | hfull
  · -- the first call initialises
    unfold runTr at h1 ⊢
    have hz : (s.current.length == 0) = true := by simp [h0]
    simp only [hz, if_true] at h1 ⊢
    cases hi : initialise cfg with
    | error e => simp [hi] at h1
    | ok cur =>
      simp only [hi] at h1 ⊢
      have hl1 : s1.current.length ≠ 0 := by
        rw [hcur a _ s1 [] tr1 h1]
        simpa [(initialise_length cfg cur hi).1] using hR
      rw [runTr_of_current cfg draws b s1 hl1] at h2
      exact sweeps_add cfg draws a b _ s1 s2 tr1 tr2 h1 h2
  · have hl : s.current.length ≠ 0 := by rw [hfull]; exact hR
    rw [runTr_of_current cfg draws a s hl] at h1
    have hl1 : s1.current.length ≠ 0 := by rw [hcur a s s1 [] tr1 h1]; exact hl
    rw [runTr_of_current cfg draws b s1 hl1] at h2
    rw [runTr_of_current cfg draws (a + b) s hl]
    exact sweeps_add cfg draws a b s s1 s2 tr1 tr2 h1 h2
where
  go (cfg : Cfg) (draws : Nat → Draw) :
      ∀ (L : List (Rat × Nat)) (x y : State) (acc tr : List StepTrace),
        sweepGo cfg draws L x acc = .ok (y, tr) → y.current.length = x.current.length
    | [], x, y, acc, tr, h => by
      simp only [sweepGo, Except.ok.injEq, Prod.mk.injEq] at h
      rw [← h.1]
    | (r, i) :: L, x, y, acc, tr, h => by
      simp only [sweepGo] at h
      cases hc : chainStep cfg draws x i r with
      | error e => simp [hc] at h
      | ok p =>
        obtain ⟨x1, t⟩ := p
        simp only [hc] at h
        obtain ⟨_, _, _, _, _, _, _, rfl⟩ := chainStep_inv cfg draws x x1 i r t hc
        have := go cfg draws L _ y _ tr h
        simpa using this

/-! ### what is recorded, and where the chains live -/

/-- the last value recorded for every chain is the probability, at that chain's rate, of
    the error that chain is currently in -/
def Rec (cfg : Cfg) (s : State) : Prop :=
  ∀ (i : Nat) (ds : List Dist) (cur : List Nat) (l : List Rat), cfg.dists[i]? = some ds →
    s.current[i]? = some cur → s.logP[i]? = some l →
    ∀ x, l.getLast? = some x → errorProbability ds cur = some x

theorem chainStep_rec (cfg : Cfg) (draws : Nat → Draw) (s s' : State) (j : Nat) (rate : Rat)
    (t : StepTrace) (hr : Rec cfg s) (h : chainStep cfg draws s j rate = .ok (s', t)) :
    Rec cfg s' := by
  obtain ⟨dec, prev, ds, _, hcur, hds, hg, rfl⟩ := chainStep_inv cfg draws s s' j rate t h
  unfold Rec
  intro i ds' cur l hd hc hl x hx
  by_cases hij : j = i
  · subst hij
    have hjlt : j < s.current.length := by
      by_contra hcon
      rw [List.getElem?_eq_none (by omega)] at hcur
      cases hcur
    simp only [List.getElem?_set_self hjlt, Option.some.injEq] at hc
    subst hc
    rw [hds] at hd
    cases hd
    simp only [List.getElem?_modify, if_true] at hl
    cases hl0 : s.logP[j]? with
    | none => simp [hl0] at hl
    | some l0 =>
      simp only [hl0, Option.map_eq_map, Option.map_some, Option.some.injEq] at hl
      subst hl
      simp only [List.getLast?_append, List.getLast?_singleton, Option.some_or, Option.some.injEq] at hx
      subst hx
      exact getNextError_pNext _ _ _ _ _ _ _ _ _ hg
  · simp only [List.getElem?_set_ne hij] at hc
    simp only [List.getElem?_modify, hij, if_false, id_map'] at hl
    exact hr i ds' cur l hd hc hl x hx

/-- chain `i` is inside the failure set of its own decoder -/
def Confined (cfg : Cfg) (s : State) (i : Nat) : Prop :=
  ∀ dec cur, cfg.decoders[i]? = some dec → s.current[i]? = some cur →
    fails cfg.dt cfg.code dec cur = true

theorem chainStep_confined (cfg : Cfg) (draws : Nat → Draw) (s s' : State) (j i : Nat) (rate : Rat)
    (t : StepTrace) (hc : Confined cfg s i) (h : chainStep cfg draws s j rate = .ok (s', t)) :
    Confined cfg s' i := by
  obtain ⟨dec, prev, ds, hdec, hcur, _, hg, rfl⟩ := chainStep_inv cfg draws s s' j rate t h
  intro dec' cur hd hcu
  by_cases hij : j = i
  · subst hij
    have hjlt : j < s.current.length := by
      by_contra hcon
      rw [List.getElem?_eq_none (by omega)] at hcur
      cases hcur
    simp only [List.getElem?_set_self hjlt, Option.some.injEq] at hcu
    subst hcu
    rw [hdec] at hd
    cases hd
    exact getNextError_stays _ _ _ _ _ _ _ _ _ hg (hc dec prev hdec hcur)
  · simp only [List.getElem?_set_ne hij] at hcu
    exact hc dec' cur hd hcu

/-- a move made by chain `j` ends inside the failure set of decoder `j`, wherever it started -/
theorem chainStep_moved_fails (cfg : Cfg) (draws : Nat → Draw) (s s' : State) (j : Nat) (rate : Rat)
    (t : StepTrace) (h : chainStep cfg draws s j rate = .ok (s', t)) (hacc : t.accepted = true) :
    ∃ dec, cfg.decoders[j]? = some dec ∧ s'.current[j]? = some t.next ∧
      fails cfg.dt cfg.code dec t.next = true := by
  obtain ⟨dec, prev, ds, hdec, hcur, _, hg, rfl⟩ := chainStep_inv cfg draws s s' j rate t h
  have hjlt : j < s.current.length := by
    by_contra hcon
    rw [List.getElem?_eq_none (by omega)] at hcur
    cases hcur
  have := (getNextError_next _ _ _ _ _ _ _ _ _ hg).1 hacc
  exact ⟨dec, hdec, by simp [List.getElem?_set_self hjlt], by rw [this.1]; exact this.2.1⟩

/-- the initial error is checked against `decoders[0]` only -/
theorem initialise_confined (cfg : Cfg) (cur : List (List Nat)) (h : initialise cfg = .ok cur) :
    ∀ dec e, cfg.decoders[0]? = some dec → e ∈ cur → fails cfg.dt cfg.code dec e = true := by
  unfold initialise at h
  cases hc : chooseInitial cfg with
  | error e => simp [hc] at h
  | ok e0 =>
    simp only [hc] at h
    cases hd : cfg.decoders[0]? with
    | none => simp [hd] at h
    | some dec =>
      simp only [hd] at h
      split at h
      · cases h
      · rename_i hns
        simp only [Except.ok.injEq] at h
        subst h
        intro dec' e hdec he
        cases hdec
        rw [(List.mem_replicate.mp he).2, fails_eq_not_isSuccess]
        simpa using hns

end Panqec.Split

namespace Panqec.Split

open Panqec

/-! ### invariants of single chain steps are invariants of whole runs -/

/-- a predicate on states that does not look at `n_runs` and is kept by every chain step is
    kept by `sweepGo`, `sweep`, `sweeps` -/
theorem sweepGo_preserves (cfg : Cfg) (draws : Nat → Draw) (P : State → Prop)
    (hstep : ∀ s s' j rate t, P s → chainStep cfg draws s j rate = .ok (s', t) → P s') :
    ∀ (L : List (Rat × Nat)) (s s' : State) (acc tr : List StepTrace),
      P s → sweepGo cfg draws L s acc = .ok (s', tr) → P s'
  | [], s, s', acc, tr, hp, h => by
    simp only [sweepGo, Except.ok.injEq, Prod.mk.injEq] at h
    rw [← h.1]; exact hp
  | (r, i) :: L, s, s', acc, tr, hp, h => by
    simp only [sweepGo] at h
    cases hc : chainStep cfg draws s i r with
    | error e => simp [hc] at h
    | ok p =>
      obtain ⟨s1, t⟩ := p
      simp only [hc] at h
      exact sweepGo_preserves cfg draws P hstep L s1 s' _ tr (hstep s s1 i r t hp hc) h

theorem sweeps_preserves (cfg : Cfg) (draws : Nat → Draw) (P : State → Prop)
    (hstep : ∀ s s' j rate t, P s → chainStep cfg draws s j rate = .ok (s', t) → P s')
    (hn : ∀ s n, P s → P { s with nRuns := n }) :
    ∀ (k : Nat) (s s' : State) (acc tr : List StepTrace),
      P s → sweeps cfg draws k s acc = .ok (s', tr) → P s'
  | 0, s, s', acc, tr, hp, h => by
    simp only [sweeps, Except.ok.injEq, Prod.mk.injEq] at h
    rw [← h.1]; exact hp
  | k + 1, s, s', acc, tr, hp, h => by
    simp only [sweeps] at h
    cases hs : sweep cfg draws s with
    | error e => simp [hs] at h
    | ok p =>
      obtain ⟨s1, tr1⟩ := p
      simp only [hs] at h
      refine sweeps_preserves cfg draws P hstep hn k s1 s' _ tr ?_ h
      unfold sweep at hs
      cases hg : sweepGo cfg draws cfg.rates.zipIdx s [] with
      | error e => simp [hg] at hs
      | ok q =>
        obtain ⟨s2, t2⟩ := q
        simp only [hg, Except.ok.injEq, Prod.mk.injEq] at hs
        rw [← hs.1]
        exact hn _ _ (sweepGo_preserves cfg draws P hstep _ s s2 [] t2 hp hg)

/-- … hence by `_run` from the state after `__init__`, if it holds right after the
    initialisation block -/
theorem runTr_init_preserves (cfg : Cfg) (draws : Nat → Draw) (P : State → Prop)
    (hstep : ∀ s s' j rate t, P s → chainStep cfg draws s j rate = .ok (s', t) → P s')
    (hn : ∀ s n, P s → P { s with nRuns := n })
    (h0 : ∀ cur, initialise cfg = .ok cur → P { State.init cfg with current := cur })
    (k : Nat) (s' : State) (tr : List StepTrace)
    (h : runTr cfg draws k (State.init cfg) = .ok (s', tr)) : P s' := by
  unfold runTr at h
  simp only [State.init, List.length_nil, beq_self_eq_true, if_true] at h
  cases hi : initialise cfg with
  | error e => simp [hi] at h
  | ok cur =>
    simp only [hi] at h
    exact sweeps_preserves cfg draws P hstep hn k _ s' [] tr (h0 cur hi) h

theorem rec_init (cfg : Cfg) (cur : List (List Nat)) : Rec cfg { State.init cfg with current := cur } := by
  intro i ds c l _ _ hl x hx
  simp only [State.init, List.getElem?_replicate] at hl
  split at hl
  · cases hl; simp at hx
  · cases hl

end Panqec.Split
