/-
RotatedPlanar2DCode, all sizes: all stabilizer generators are independent (triangular probes
on a corner qubit of each plaquette).  Core Lean only.
-/
import PanqecVerif.Proofs.Lat2DRank
import PanqecVerif.Proofs.LatRotatedPlanar2DCodeC

set_option linter.unusedVariables false

namespace Panqec.RotatedPlanar2DCode
open Panqec.Lat2D

/-- vertex `(x, y)`: `X` on the corner `(x−1, y−1)` (`(x−1, 1)` on the bottom row `y = 0`);
    face `(x, y)`: `Z` on the corner `(x−1, y−1)` (`(1, y−1)` on the left column `x = 0`) -/
def probe (s : Coord) : Coord × Pauli :=
  match s with
  | [x, y] =>
    if (x + y) % 4 = 2 then (if y = 0 then ([x - 1, y + 1], Pauli.X) else ([x - 1, y - 1], Pauli.X))
    else (if x = 0 then ([x + 1, y - 1], Pauli.Z) else ([x - 1, y - 1], Pauli.Z))
  | _ => ([], Pauli.I)

/-- vertices are ranked by `x`, faces by `y` -/
def rankOf (s : Coord) : Nat :=
  match s with
  | [x, y] => if (x + y) % 4 = 2 then x.toNat else y.toNat
  | _ => 0

theorem probe_count {Lx Ly : Nat} {x y x' y' : Int} (ht : [x', y'] ∈ stabs Lx Ly) :
    opAntiCount [probe [x, y]] ((lattice Lx Ly).getStab [x', y']) =
      if Pauli.anti (probe [x, y]).2 (letter x' y') = true ∧ (probe [x, y]).1 ∈ supp Lx Ly x' y'
      then 1 else 0 := by
  rw [getStab_eq ht]
  exact opAntiCount_probe _ _ _ _

theorem mem_supp {Lx Ly : Nat} {x y a b : Int} :
    [a, b] ∈ supp Lx Ly x y ↔
      (((a = x - 1 ∧ b = y - 1) ∨ (a = x - 1 ∧ b = y + 1) ∨ (a = x + 1 ∧ b = y - 1) ∨
        (a = x + 1 ∧ b = y + 1)) ∧ IsQ Lx Ly a b) := by
  unfold supp
  rw [List.mem_filter, mem_nbrs, isQubit_iff]

theorem triangular {Lx Ly : Nat} (hx : 1 ≤ Lx) (hy : 1 ≤ Ly) :
    TriangularProbes (lattice Lx Ly) (stabs Lx Ly) probe rankOf where
  on_qubits := by
    intro s hs
    obtain ⟨x, y, rfl, h⟩ := mem_stabs.mp hs
    unfold probe
    by_cases hp : (x + y) % 4 = 2
    · have hv := toV h hp
      unfold IsV at hv
      simp only [hp, if_true]
      by_cases h0 : y = 0
      · simp only [h0, if_true]
        refine ⟨?_, by decide⟩
        show [x - 1, 0 + 1] ∈ qubits Lx Ly
        rw [mem_qubits']; unfold IsQ; omega
      · simp only [h0, if_false]
        refine ⟨?_, by decide⟩
        show [x - 1, y - 1] ∈ qubits Lx Ly
        rw [mem_qubits']; unfold IsQ; omega
    · have hf := toF h hp
      unfold IsF at hf
      simp only [hp, if_false]
      by_cases h0 : x = 0
      · simp only [h0, if_true]
        refine ⟨?_, by decide⟩
        show [0 + 1, y - 1] ∈ qubits Lx Ly
        rw [mem_qubits']; unfold IsQ; omega
      · simp only [h0, if_false]
        refine ⟨?_, by decide⟩
        show [x - 1, y - 1] ∈ qubits Lx Ly
        rw [mem_qubits']; unfold IsQ; omega
  diag := by
    intro s hs
    obtain ⟨x, y, rfl, h⟩ := mem_stabs.mp hs
    rw [probe_count hs]
    unfold probe
    by_cases hp : (x + y) % 4 = 2
    · have hv := toV h hp
      unfold IsV at hv
      have hl : letter x y = Pauli.Z := by unfold letter; simp [hp]
      simp only [hp, if_true, hl]
      by_cases h0 : y = 0
      · simp only [h0, if_true]
        rw [if_pos ⟨by decide, by rw [mem_supp]; unfold IsQ; omega⟩]
      · simp only [h0, if_false]
        rw [if_pos ⟨by decide, by rw [mem_supp]; unfold IsQ; omega⟩]
    · have hf := toF h hp
      unfold IsF at hf
      have hl : letter x y = Pauli.X := by unfold letter; simp [hp]
      simp only [hp, if_false, hl]
      by_cases h0 : x = 0
      · simp only [h0, if_true]
        rw [if_pos ⟨by decide, by rw [mem_supp]; unfold IsQ; omega⟩]
      · simp only [h0, if_false]
        rw [if_pos ⟨by decide, by rw [mem_supp]; unfold IsQ; omega⟩]
  later := by
    intro s hs t ht hne hle
    obtain ⟨x, y, rfl, h⟩ := mem_stabs.mp hs
    obtain ⟨x', y', rfl, h'⟩ := mem_stabs.mp ht
    have hne' : ¬ (x = x' ∧ y = y') := fun e => hne (by rw [e.1, e.2])
    rw [probe_count ht]
    unfold rankOf at hle
    unfold probe
    by_cases hp : (x + y) % 4 = 2 <;> by_cases hp' : (x' + y') % 4 = 2
    · have hv := toV h hp; have hv' := toV h' hp'
      unfold IsV at hv hv'
      simp only [hp, hp', if_true] at hle ⊢
      by_cases h0 : y = 0
      · simp only [h0, if_true]
        rw [if_neg (by rw [mem_supp]; omega)]
      · simp only [h0, if_false]
        rw [if_neg (by rw [mem_supp]; omega)]
    · have hl : letter x' y' = Pauli.X := by unfold letter; simp [hp']
      simp only [hp, if_true, hl]
      by_cases h0 : y = 0
      · simp only [h0, if_true]; rw [if_neg (fun e => absurd e.1 (by decide))]
      · simp only [h0, if_false]; rw [if_neg (fun e => absurd e.1 (by decide))]
    · have hl : letter x' y' = Pauli.Z := by unfold letter; simp [hp']
      simp only [hp, if_false, hl]
      by_cases h0 : x = 0
      · simp only [h0, if_true]; rw [if_neg (fun e => absurd e.1 (by decide))]
      · simp only [h0, if_false]; rw [if_neg (fun e => absurd e.1 (by decide))]
    · have hf := toF h hp; have hf' := toF h' hp'
      unfold IsF at hf hf'
      simp only [hp, hp', if_false] at hle ⊢
      by_cases h0 : x = 0
      · simp only [h0, if_true]
        rw [if_neg (by rw [mem_supp]; omega)]
      · simp only [h0, if_false]
        rw [if_neg (by rw [mem_supp]; omega)]

/-- the generators at all stabilizer locations are independent, for every size `Lx, Ly ≥ 1` -/
theorem indep_all {Lx Ly : Nat} (hx : 1 ≤ Lx) (hy : 1 ≤ Ly) :
    IndepGenerators (lattice Lx Ly) (stabs Lx Ly) :=
  indep_of_triangular (triangular hx hy)

end Panqec.RotatedPlanar2DCode
