/-
Union-find (C05): the model of `Support(sy, H).decode()` as a solver of the decoder glue under
an ARBITRARY schedule of set iteration orders (the schedule may depend on the matrix and on the
syndrome of the call, as the hash order of a Python `set` does).  `ufSolve` of
`Model/UnionFind.lean` is the instance with the list order.  The solver contract `UfValidOn`
holds on every closed graph for every schedule.
-/
import PanqecVerif.Proofs.UnionFindTermD
import PanqecVerif.Proofs.DecodersGlue

namespace Panqec.UF
open Panqec

/-- `Support(sy, H).decode()` under the schedule `sched H sy`; an outcome other than `ok` (the
    Python hangs or raises) is the empty vector, which fails every length check of the glue -/
def ufSolveSched (sched : Mat → Vec → List (List Int)) : USolver := fun H sy =>
  match (decodeWith H sy (sched H sy)).outcome with
  | .ok c => c
  | _ => []

theorem ufSolveSched_nil : ufSolveSched (fun _ _ => []) = ufSolve := rfl

/-- the contract `UfValidOn` holds for the model on every closed graph, for every schedule -/
theorem ufSolveSched_contract (sched : Mat → Vec → List (List Int)) (H : Mat)
    (hC : closedMultigraph H = true) : UfValidOn (ncols H) (ufSolveSched sched) H := by
  intro sy ⟨v, hv, hsy⟩
  subst hsy
  obtain ⟨c, hc, hlen, hbin, hsyn, _⟩ := decodeWith_total hC v hv (sched H (sectorSyndrome H v))
  unfold ufSolveSched
  rw [hc]
  exact ⟨hlen, hbin, hsyn⟩

/-- `UnionFindDecoder.decode(measure_syndrome(e))` for a CSS matrix whose two sector matrices are
    closed graphs on `n` qubits, under any schedule -/
theorem ufDecode_sched_valid (sched : Mat → Vec → List (List Int)) (H : Mat) (n : Nat)
    (hcss : isCss H = true) (hz : closedMultigraph (Hz H) = true) (hx : closedMultigraph (Hx H) = true)
    (hnz : ncols (Hz H) = n) (hnx : ncols (Hx H) = n) (e : Vec) (he : e.length = 2 * n) :
    ∃ c ev, ufDecode (ufSolveSched sched) H n (measureSyndrome H e) = .ok (c, ev) ∧
      c.length = 2 * n ∧ (∀ x ∈ c, x < 2) ∧ measureSyndrome H c = measureSyndrome H e := by
  obtain ⟨c, ev, h1, _, h3, h4, h5⟩ := uf_valid (ufSolveSched sched) H n hcss
    (hnz ▸ ufSolveSched_contract sched (Hz H) hz) (hnx ▸ ufSolveSched_contract sched (Hx H) hx) e he
  exact ⟨c, ev, h1, h3, h4, h5⟩

end Panqec.UF
