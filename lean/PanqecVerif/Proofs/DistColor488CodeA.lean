/-
Color488Code, all sizes `Lx, Ly ≥ 1`, C17 part A: the lattice translates of the eight listed
logical operators and the parity argument.

All coordinates are taken modulo their period (`W`: `x` modulo `8Lx`, `y` modulo `8Ly`), as the class
does; a flag `tr` transposes the picture (`mk`), so that one argument covers the columns
(`tr = false`) and the rows (`tr = true`) of qubits: `La` is the number of unit cells ACROSS the
lines (the direction of the translates), `Lb` the number ALONG a line, and the lattice is
`La × Lb` (`tr = false`) or `Lb × La` (`tr = true`) - `sx`, `sy`; a shift `s ∈ {0, 4}` covers the two kinds of lines (through the squares
`(8a+4, 8i+4)`, resp. `(8a+8, 8i+8)`); the letter `P` is X (face generators `p = 0`) or Z (`p = 1`).

A dict operator `b` that commutes with every face generator anticommutes (mod 2) with each of the
`2·La` lines `u = 8a+3+s, 8a+5+s` (`a < La`) on as many qubits as with the first one:
* the lines `8a+3+s` and `8a+5+s` differ by the column of squares between them;
* the lines `8a+5+s` and `8a+11+s` differ by the column of octagons `(8a+8+s, 8i+4+s)` and squares
  `(8a+8+s, 8i+8+s)` between them: the octagons contribute the two lines and the corners of the
  squares, the squares contribute their corners once more (cyclically shifted).
-/
import PanqecVerif.Proofs.DistCubic3D
import PanqecVerif.Proofs.LatColor488CodeE

namespace Panqec.Color488Code
open Panqec.Lat2D Panqec.Color

/-- the periodic wrap `% (8L)` -/
def W (L : Nat) (v : Int) : Int := v % (8 * (L : Int))

theorem W_add (L : Nat) (v d : Int) : (W L v + d) % (8 * (L : Int)) = W L (v + d) := by
  unfold W; exact Int.emod_add_emod v _ d

theorem W_range {L : Nat} (hL : 1 ≤ L) (v : Int) :
    0 ≤ W L v ∧ W L v < 8 * (L : Int) ∧ W L v % 8 = v % 8 := emod_range hL v

theorem W_congr (L : Nat) {u v : Int} (h : u = v) : W L u = W L v := by rw [h]

theorem W_small {L : Nat} {v : Int} (h0 : 0 ≤ v) (h : v < 8 * (L : Int)) : W L v = v :=
  emod_small h0 h

theorem W_shift (L : Nat) (v : Int) : W L (v + 8 * (L : Int)) = W L v := by
  unfold W
  have e : v + 8 * (L : Int) = v + 8 * (L : Int) * 1 := by omega
  rw [e, Int.add_mul_emod_self_left]

theorem W_cases {L : Nat} {v : Int} (h0 : 0 ≤ v) (h1 : v < 16 * (L : Int)) :
    (v < 8 * (L : Int) ∧ W L v = v) ∨ (8 * (L : Int) ≤ v ∧ W L v = v - 8 * (L : Int)) := by
  by_cases h : v < 8 * (L : Int)
  · exact Or.inl ⟨h, W_small h0 h⟩
  · right
    refine ⟨by omega, ?_⟩
    have e : W L v = W L (v - 8 * (L : Int) + 8 * (L : Int)) := W_congr L (by omega)
    rw [e, W_shift, W_small (by omega) (by omega)]

/-- the cyclic successor of the `i`-th period -/
theorem W_wrapS {L i : Nat} (_hi : i < L) (c : Int) :
    W L (8 * (i : Int) + 8 + c) = W L (8 * ((wrapS L i : Nat) : Int) + c) := by
  unfold wrapS
  by_cases h : i + 1 = L
  · rw [if_pos h]
    have e : 8 * (i : Int) + 8 + c = c + 8 * (L : Int) := by omega
    rw [e, W_shift]
    exact W_congr L (by omega)
  · rw [if_neg h]
    exact W_congr L (by omega)

/-- a location, transposed or not -/
def mk (tr : Bool) (a b : Int) : Coord := if tr then [b, a] else [a, b]

/-- the lattice size in the picture `tr`: `La` unit cells across the lines, `Lb` along them -/
def sx (tr : Bool) (La Lb : Nat) : Nat := cond tr Lb La
def sy (tr : Bool) (La Lb : Nat) : Nat := cond tr La Lb

/-- `b` commutes with every stabilizer generator of the lattice -/
def CommStabs (Lx Ly : Nat) (b : Op) : Prop :=
  ∀ s ∈ (lattice Lx Ly).stabs, opAntiCount ((lattice Lx Ly).getStab s) b % 2 = 0

/-! ### one generator -/

theorem face_count {Lx Ly : Nat} (hx : 1 ≤ Lx) (hy : 1 ≤ Ly) {b : Op} (hb : CommStabs Lx Ly b)
    {x y p : Int} (hf : IsF Lx Ly x y)
    (hp : p = 0 ∨ p = 1) : (supp Lx Ly x y).countP (opHit (letter p) b) % 2 = 0 := by
  have hm : [x, y, p] ∈ stabs Lx Ly := mem_stabs'.mpr ⟨hf, hp⟩
  have h := hb [x, y, p] hm
  rw [getStab_eq hx hy hm, opAntiCount_line] at h
  exact h

theorem IsF_W {Lx Ly : Nat} (hx : 1 ≤ Lx) (hy : 1 ≤ Ly) {u v : Int} (hu : u % 4 = 0)
    (hv : v % 4 = 0) : IsF Lx Ly (W Lx u) (W Ly v) := by
  have := W_range hx u
  have := W_range hy v
  unfold IsF; omega

variable {La Lb : Nat}

/-- a square face `(u, v)` (coordinates modulo the periods), corners given by name -/
theorem square_even (tr : Bool) (hA : 1 ≤ La) (hB : 1 ≤ Lb) {b : Op}
    (hb : CommStabs (sx tr La Lb) (sy tr La Lb) b) {p : Int}
    (hp : p = 0 ∨ p = 1) {u v : Int} (hu : u % 4 = 0) (hv : v % 4 = 0) (huv : (u + v) % 8 = 0)
    {um up vm vp : Int} (e1 : W La (u + -1) = um) (e2 : W La (u + 1) = up)
    (e3 : W Lb (v + -1) = vm) (e4 : W Lb (v + 1) = vp) :
    (ind (letter p) b (mk tr um vm) + ind (letter p) b (mk tr up vp)
      + ind (letter p) b (mk tr um vp) + ind (letter p) b (mk tr up vm)) % 2 = 0 := by
  have ru := W_range hA u
  have rv := W_range hB v
  subst e1 e2 e3 e4
  cases tr
  · have hb' : CommStabs La Lb b := hb
    have h := face_count hA hB hb' (IsF_W hA hB hu hv) hp
    unfold supp at h
    rw [if_pos (by omega)] at h
    unfold sqC at h
    simp only [W_add, List.countP_cons, List.countP_nil] at h
    simp only [mk, Bool.false_eq_true, if_false]
    unfold ind
    omega
  · have hb' : CommStabs Lb La b := hb
    have h := face_count hB hA hb' (IsF_W hB hA hv hu) hp
    unfold supp at h
    rw [if_pos (by omega)] at h
    unfold sqC at h
    simp only [W_add, List.countP_cons, List.countP_nil] at h
    simp only [mk, if_true]
    unfold ind
    omega

/-- an octagonal face `(u, v)` (coordinates modulo the periods), corners given by name -/
theorem octagon_even (tr : Bool) (hA : 1 ≤ La) (hB : 1 ≤ Lb) {b : Op}
    (hb : CommStabs (sx tr La Lb) (sy tr La Lb) b) {p : Int}
    (hp : p = 0 ∨ p = 1) {u v : Int} (hu : u % 4 = 0) (hv : v % 4 = 0) (huv : (u + v) % 8 = 4)
    {u1m u1p u3m u3p v1m v1p v3m v3p : Int}
    (e1 : W La (u + -1) = u1m) (e2 : W La (u + 1) = u1p) (e3 : W La (u + -3) = u3m)
    (e4 : W La (u + 3) = u3p) (e5 : W Lb (v + -1) = v1m) (e6 : W Lb (v + 1) = v1p)
    (e7 : W Lb (v + -3) = v3m) (e8 : W Lb (v + 3) = v3p) :
    (ind (letter p) b (mk tr u1p v3m) + ind (letter p) b (mk tr u3p v1m)
      + ind (letter p) b (mk tr u3p v1p) + ind (letter p) b (mk tr u1p v3p)
      + ind (letter p) b (mk tr u1m v3p) + ind (letter p) b (mk tr u3m v1p)
      + ind (letter p) b (mk tr u3m v1m) + ind (letter p) b (mk tr u1m v3m)) % 2 = 0 := by
  have ru := W_range hA u
  have rv := W_range hB v
  subst e1 e2 e3 e4 e5 e6 e7 e8
  cases tr
  · have hb' : CommStabs La Lb b := hb
    have h := face_count hA hB hb' (IsF_W hA hB hu hv) hp
    unfold supp at h
    rw [if_neg (by omega)] at h
    unfold ocC at h
    simp only [W_add, List.countP_cons, List.countP_nil] at h
    simp only [mk, Bool.false_eq_true, if_false]
    unfold ind
    omega
  · have hb' : CommStabs Lb La b := hb
    have h := face_count hB hA hb' (IsF_W hB hA hv hu) hp
    unfold supp at h
    rw [if_neg (by omega)] at h
    unfold ocC at h
    simp only [W_add, List.countP_cons, List.countP_nil] at h
    simp only [mk, if_true]
    unfold ind
    omega

/-! ### lines of qubits -/

/-- the number of hits of `b` on the line `u` of kind `s`: the qubits `(u, 8i+3+s)`, `(u, 8i+5+s)`,
    `i < Lb` -/
def lineS (La Lb : Nat) (tr : Bool) (P : Pauli) (b : Op) (s u : Int) : Nat :=
  rsum Lb (fun i => ind P b (mk tr (W La u) (W Lb (8 * (i : Int) + 3 + s)))
    + ind P b (mk tr (W La u) (W Lb (8 * (i : Int) + 5 + s))))

/-- the counting core of `linkB`: the rungs `G`, `H` are counted twice (once cyclically shifted) -/
theorem linkB_core (L : Nat) (A C G H : Nat → Nat)
    (h : ∀ i, i < L → ((A i + C i) + ((G i + H i) + (H i + G (wrapS L i)))) % 2 = 0) :
    (rsum L A + rsum L C) % 2 = 0 := by
  have h' := rsum_even L h
  rw [rsum_add, rsum_add, rsum_add, rsum_add, rsum_add, rsum_wrapS G L] at h'
  omega

section links
variable (tr : Bool) (hA : 1 ≤ La) (hB : 1 ≤ Lb) {b : Op}
  (hb : CommStabs (sx tr La Lb) (sy tr La Lb) b) {p : Int} (hp : p = 0 ∨ p = 1)
  {s : Int} (hs : s = 0 ∨ s = 4)
include hA hB hb hp hs

/-- the lines `8a+3+s` and `8a+5+s` differ by the column of squares `(8a+4+s, 8i+4+s)` -/
theorem linkA (a : Nat) :
    (lineS La Lb tr (letter p) b s (8 * (a : Int) + 3 + s)
      + lineS La Lb tr (letter p) b s (8 * (a : Int) + 5 + s)) % 2 = 0 := by
  have h := rsum_even Lb (g := fun i =>
      (ind (letter p) b (mk tr (W La (8 * (a : Int) + 3 + s)) (W Lb (8 * (i : Int) + 3 + s)))
        + ind (letter p) b (mk tr (W La (8 * (a : Int) + 3 + s)) (W Lb (8 * (i : Int) + 5 + s))))
      + (ind (letter p) b (mk tr (W La (8 * (a : Int) + 5 + s)) (W Lb (8 * (i : Int) + 3 + s)))
        + ind (letter p) b (mk tr (W La (8 * (a : Int) + 5 + s)) (W Lb (8 * (i : Int) + 5 + s)))))
    (fun i _ => by
      have := square_even tr hA hB hb hp (u := 8 * (a : Int) + 4 + s) (v := 8 * (i : Int) + 4 + s)
        (by omega) (by omega) (by omega)
        (W_congr La (by omega : 8 * (a : Int) + 4 + s + -1 = 8 * (a : Int) + 3 + s))
        (W_congr La (by omega : 8 * (a : Int) + 4 + s + 1 = 8 * (a : Int) + 5 + s))
        (W_congr Lb (by omega : 8 * (i : Int) + 4 + s + -1 = 8 * (i : Int) + 3 + s))
        (W_congr Lb (by omega : 8 * (i : Int) + 4 + s + 1 = 8 * (i : Int) + 5 + s))
      omega)
  rw [rsum_add] at h
  exact h

/-- the lines `8a+5+s` and `8a+11+s` differ by the column of octagons `(8a+8+s, 8i+4+s)` and
    squares `(8a+8+s, 8i+8+s)` -/
theorem linkB (a : Nat) :
    (lineS La Lb tr (letter p) b s (8 * (a : Int) + 5 + s)
      + lineS La Lb tr (letter p) b s (8 * (a : Int) + 11 + s)) % 2 = 0 := by
  -- the corners of the squares of the column, in the rows `8i+1+s` and `8i+7+s`
  let G : Nat → Nat := fun i =>
    ind (letter p) b (mk tr (W La (8 * (a : Int) + 7 + s)) (W Lb (8 * (i : Int) + 1 + s)))
      + ind (letter p) b (mk tr (W La (8 * (a : Int) + 9 + s)) (W Lb (8 * (i : Int) + 1 + s)))
  let H : Nat → Nat := fun i =>
    ind (letter p) b (mk tr (W La (8 * (a : Int) + 7 + s)) (W Lb (8 * (i : Int) + 7 + s)))
      + ind (letter p) b (mk tr (W La (8 * (a : Int) + 9 + s)) (W Lb (8 * (i : Int) + 7 + s)))
  refine linkB_core Lb
    (fun i => ind (letter p) b (mk tr (W La (8 * (a : Int) + 5 + s)) (W Lb (8 * (i : Int) + 3 + s)))
      + ind (letter p) b (mk tr (W La (8 * (a : Int) + 5 + s)) (W Lb (8 * (i : Int) + 5 + s))))
    (fun i => ind (letter p) b (mk tr (W La (8 * (a : Int) + 11 + s)) (W Lb (8 * (i : Int) + 3 + s)))
      + ind (letter p) b (mk tr (W La (8 * (a : Int) + 11 + s)) (W Lb (8 * (i : Int) + 5 + s))))
    G H
    (fun i hi => by
      have ho := octagon_even tr hA hB hb hp (u := 8 * (a : Int) + 8 + s) (v := 8 * (i : Int) + 4 + s)
        (by omega) (by omega) (by omega)
        (W_congr La (by omega : 8 * (a : Int) + 8 + s + -1 = 8 * (a : Int) + 7 + s))
        (W_congr La (by omega : 8 * (a : Int) + 8 + s + 1 = 8 * (a : Int) + 9 + s))
        (W_congr La (by omega : 8 * (a : Int) + 8 + s + -3 = 8 * (a : Int) + 5 + s))
        (W_congr La (by omega : 8 * (a : Int) + 8 + s + 3 = 8 * (a : Int) + 11 + s))
        (W_congr Lb (by omega : 8 * (i : Int) + 4 + s + -1 = 8 * (i : Int) + 3 + s))
        (W_congr Lb (by omega : 8 * (i : Int) + 4 + s + 1 = 8 * (i : Int) + 5 + s))
        (W_congr Lb (by omega : 8 * (i : Int) + 4 + s + -3 = 8 * (i : Int) + 1 + s))
        (W_congr Lb (by omega : 8 * (i : Int) + 4 + s + 3 = 8 * (i : Int) + 7 + s))
      have hq := square_even tr hA hB hb hp (u := 8 * (a : Int) + 8 + s) (v := 8 * (i : Int) + 8 + s)
        (by omega) (by omega) (by omega)
        (W_congr La (by omega : 8 * (a : Int) + 8 + s + -1 = 8 * (a : Int) + 7 + s))
        (W_congr La (by omega : 8 * (a : Int) + 8 + s + 1 = 8 * (a : Int) + 9 + s))
        (W_congr Lb (by omega : 8 * (i : Int) + 8 + s + -1 = 8 * (i : Int) + 7 + s))
        ((W_congr Lb (by omega : 8 * (i : Int) + 8 + s + 1 = 8 * (i : Int) + 8 + (1 + s))).trans
          ((W_wrapS hi (1 + s)).trans
            (W_congr Lb (by omega : 8 * ((wrapS Lb i : Nat) : Int) + (1 + s)
              = 8 * ((wrapS Lb i : Nat) : Int) + 1 + s))))
      simp only [G, H]
      omega)

end links

/-- the coordinate of the `t`-th line of kind `s`: `8a+3+s` for `t = 2a`, `8a+5+s` for `t = 2a+1` -/
def xc (s : Int) (t : Nat) : Int := 8 * ((t / 2 : Nat) : Int) + (if t % 2 = 0 then 3 else 5) + s

/-- every line of the family has the parity of the first one -/
theorem line_parity (tr : Bool) (hA : 1 ≤ La) (hB : 1 ≤ Lb) {b : Op}
    (hb : CommStabs (sx tr La Lb) (sy tr La Lb) b) {p : Int}
    (hp : p = 0 ∨ p = 1) {s : Int} (hs : s = 0 ∨ s = 4) (t : Nat) (ht : t < 2 * La) :
    lineS La Lb tr (letter p) b s (xc s t) % 2 = lineS La Lb tr (letter p) b s (xc s 0) % 2 := by
  apply chain (2 * La) (fun t => lineS La Lb tr (letter p) b s (xc s t)) ?_ t ht
  intro t _
  show (lineS La Lb tr (letter p) b s (xc s t) + lineS La Lb tr (letter p) b s (xc s (t + 1))) % 2 = 0
  by_cases h : t % 2 = 0
  · have e1 : xc s t = 8 * ((t / 2 : Nat) : Int) + 3 + s := by unfold xc; rw [if_pos h]
    have e2 : xc s (t + 1) = 8 * ((t / 2 : Nat) : Int) + 5 + s := by
      unfold xc; rw [if_neg (by omega)]; omega
    rw [e1, e2]
    exact linkA tr hA hB hb hp hs (t / 2)
  · have e1 : xc s t = 8 * ((t / 2 : Nat) : Int) + 5 + s := by unfold xc; rw [if_neg h]
    have e2 : xc s (t + 1) = 8 * ((t / 2 : Nat) : Int) + 11 + s := by
      unfold xc; rw [if_pos (by omega)]; omega
    rw [e1, e2]
    exact linkB tr hA hB hb hp hs (t / 2)

/-! ### key lists -/

/-- the qubits of the `t`-th line of kind `s` -/
def lineK (La Lb : Nat) (tr : Bool) (s : Int) (t : Nat) : List Coord :=
  (List.range Lb).flatMap fun (i : Nat) =>
    [mk tr (W La (xc s t)) (W Lb (8 * (i : Int) + 3 + s)),
     mk tr (W La (xc s t)) (W Lb (8 * (i : Int) + 5 + s))]

theorem countP_lineK (tr : Bool) (P : Pauli) (b : Op) (s : Int) (t : Nat) :
    (lineK La Lb tr s t).countP (opHit P b) = lineS La Lb tr P b s (xc s t) := by
  unfold lineK lineS
  rw [Cubic3D.countP_flatMap_range]
  apply rsum_congr
  intro i _
  simp only [List.countP_cons, List.countP_nil]
  unfold ind
  omega

end Panqec.Color488Code
