/-
More kernel-evaluated geometry instances for RotatedPlanar3DCode (kept in a file of their own
so that the two instance files build in parallel).
-/
import PanqecVerif.Proofs.SweepInstances

namespace Panqec.Sweep

set_option maxRecDepth 100000

/-- further RotatedPlanar3DCode sizes checked by the kernel -/
def rotPlanarSizesB : List (Nat × Nat × Nat) := [(4, 3, 3), (2, 3, 4), (4, 4, 2)]

theorem rotPlanar_geometry_instancesB :
    ∀ s ∈ rotPlanarSizesB, GeometryOKRot (rotPlanar3D s.1 s.2.1 s.2.2) = true := by decide +kernel

theorem rotPlanar_geometry_all (s : Nat × Nat × Nat) (hs : s ∈ rotPlanarSizes ++ rotPlanarSizesB) :
    GeometryOKRot (rotPlanar3D s.1 s.2.1 s.2.2) = true := by
  rcases List.mem_append.mp hs with h | h
  · exact rotPlanar_geometry_instances s h
  · exact rotPlanar_geometry_instancesB s h

end Panqec.Sweep
