/-
Soundness of the executable packed-bitmask validity checker `checkValid` (Model/Mask.lean)
with respect to the list-level definition `ValidCodeL` (Proofs/ValidCode.lean), and of
`reportedDistanceOK` with respect to `distance` (Model/Code.lean).

Helper lemmas: Proofs/Mask1.lean (parity, packing, `sympMask_eq_symp`, `weightMask_eq`) and
Proofs/Mask2.lean (`indep_of_dual`, `unpackBits_xorSelect`, `map_getD_sublist`).
Core Lean only.
-/
import PanqecVerif.Proofs.Mask1
import PanqecVerif.Proofs.Mask2

namespace Panqec

/-! ### clause-by-clause soundness -/

theorem rowsFit_sound (n : Nat) (rows : List Nat) (h : rowsFit n rows = true) :
    ∀ r ∈ rows, r < 2 ^ (2 * n) := by
  simpa [rowsFit] using h

theorem wfRows_map_unpack (n : Nat) (rows : List Nat) :
    WFRows n (rows.map (unpackBits (2 * n))) := by
  intro r hr
  obtain ⟨m, _, rfl⟩ := List.mem_map.mp hr
  exact ⟨unpackBits_length _ _, unpackBits_binary _ _⟩

theorem getD_map_unpack (w : Nat) (xs : List Nat) (i : Nat) (hi : i < xs.length) :
    (xs.map (unpackBits w)).getD i [] = unpackBits w (xs.getD i 0) := by
  simp [List.getD_eq_getElem?_getD, hi]

theorem allPairs_sound (n : Nat) (as bs : List Nat)
    (h : allPairs as bs (fun a b => sympMask n a b == 0) = true) :
    ∀ a ∈ as.map (unpackBits (2 * n)), ∀ b ∈ bs.map (unpackBits (2 * n)), symp a b = 0 := by
  intro a ha b hb
  obtain ⟨x, hx, rfl⟩ := List.mem_map.mp ha
  obtain ⟨y, hy, rfl⟩ := List.mem_map.mp hb
  simp only [allPairs, List.all_eq_true, beq_iff_eq] at h
  rw [← sympMask_eq_symp']
  exact h x hx y hy

theorem pairingOK_sound (n : Nat) (xs ys : List Nat) (h : pairingOK n xs ys = true) :
    ∀ i j, i < xs.length → j < ys.length →
      symp ((xs.map (unpackBits (2 * n))).getD i []) ((ys.map (unpackBits (2 * n))).getD j [])
        = if i = j then 1 else 0 := by
  intro i j hi hj
  simp only [pairingOK, List.all_eq_true, List.mem_range, beq_iff_eq] at h
  rw [getD_map_unpack _ _ _ hi, getD_map_unpack _ _ _ hj, ← sympMask_eq_symp']
  exact h i hi j hj

theorem dualOK_sound (n : Nat) (rows dual : List Nat) (h : dualOK n rows dual = true) :
    rows.length = dual.length ∧ pairingOK n rows dual = true := by
  simp only [dualOK, Bool.and_eq_true, beq_iff_eq] at h
  exact ⟨h.1, h.2⟩

/-- a dual certificate accepted by `dualOK` proves independence of the unpacked rows -/
theorem dualOK_indep (n : Nat) (rows dual : List Nat) (h : dualOK n rows dual = true) :
    Indep (2 * n) (rows.map (unpackBits (2 * n))) := by
  obtain ⟨hlen, hp⟩ := dualOK_sound n rows dual h
  apply indep_of_dual n _ (dual.map (unpackBits (2 * n))) (wfRows_map_unpack n rows)
  · simpa using hlen
  · intro i j hi hj
    exact pairingOK_sound n rows dual hp i j (by simpa using hi) (by simpa using hj)

/-- the rank certificate: the picked generators are a sublist of the generators, independent
    (dual certificate), of length `n - k`, and every generator is a combination of them -/
theorem rankCertOK_sound (c : MaskCode) (rc : RankCert) (h : rankCertOK c rc = true) :
    HasRank (2 * c.n) (c.stabs.map (unpackBits (2 * c.n))) (c.n - c.k) ∧ c.k ≤ c.n := by
  simp only [rankCertOK, Bool.and_eq_true, List.all_eq_true, decide_eq_true_eq, beq_iff_eq,
    List.mem_range] at h
  obtain ⟨⟨⟨⟨⟨hlt, hsorted⟩, hlen⟩, hdual⟩, hcl⟩, hcombo⟩ := h
  refine ⟨⟨(rc.basisIdx.map fun i => c.stabs.getD i 0).map (unpackBits (2 * c.n)),
    ?_, ?_, ?_, ?_⟩, by omega⟩
  · exact (map_getD_sublist 0 c.stabs rc.basisIdx hsorted hlt).map _
  · simp only [List.length_map] at hlen ⊢
    omega
  · exact dualOK_indep c.n _ rc.dual hdual
  · intro v hv
    obtain ⟨m, hm, rfl⟩ := List.mem_map.mp hv
    obtain ⟨i, hi, rfl⟩ := List.mem_iff_getElem.mp hm
    have hx := hcombo i hi
    have hg : c.stabs.getD i 0 = c.stabs[i] := by simp [List.getD_eq_getElem?_getD, hi]
    rw [hg] at hx
    refine ⟨selBits (rc.basisIdx.map fun i => c.stabs.getD i 0).length (rc.combo.getD i 0),
      by simp [selBits_length], ?_⟩
    rw [← unpackBits_xorSelect, hx]

/-! ### 7. MAIN: soundness of `checkValid` -/

/-- If the executable checker accepts the packed code (with some rank certificate), the
    unpacked rows form a valid `[[n, k]]` stabilizer code in the sense of `ValidCodeL`. -/
theorem checkValid_sound (c : MaskCode) (rc : RankCert) (h : checkValid c rc = true) :
    ValidCodeL c.n c.k (c.stabs.map (unpackBits (2 * c.n)))
      (c.logX.map (unpackBits (2 * c.n))) (c.logZ.map (unpackBits (2 * c.n))) := by
  simp only [checkValid, Bool.and_eq_true, beq_iff_eq] at h
  obtain ⟨⟨⟨⟨⟨⟨⟨⟨⟨⟨⟨_hfS, _hfX⟩, _hfZ⟩, hkX⟩, hkZ⟩, hSS⟩, hXS⟩, hZS⟩, hP⟩, hXX⟩, hZZ⟩, hR⟩ := h
  obtain ⟨hrank, hk⟩ := rankCertOK_sound c rc hR
  exact {
    wfH := wfRows_map_unpack _ _
    wfX := wfRows_map_unpack _ _
    wfZ := wfRows_map_unpack _ _
    kX := by simpa using hkX
    kZ := by simpa using hkZ
    stab_comm := allPairs_sound _ _ _ hSS
    logX_comm := allPairs_sound _ _ _ hXS
    logZ_comm := allPairs_sound _ _ _ hZS
    pairing := fun i j hi hj =>
      pairingOK_sound _ _ _ hP i j (by omega) (by omega)
    logXX := allPairs_sound _ _ _ hXX
    logZZ := allPairs_sound _ _ _ hZZ
    rank := hrank
    k_le := hk }

/-! ### 8. the reported distance -/

/-- `reportedDistanceOK` takes the minimum over `logX ++ logZ`, `distance` the minimum of the
    two minima; they agree when both lists are non-empty (equal lengths, k ≥ 1), and for
    k = 0 `reportedDistanceOK` is `false`. -/
theorem reportedDistanceOK_sound (c : MaskCode)
    (_hX : rowsFit c.n c.logX = true) (_hZ : rowsFit c.n c.logZ = true)
    (hlen : c.logX.length = c.logZ.length) (h : reportedDistanceOK c = true) :
    distance (c.logX.map (unpackBits (2 * c.n))) (c.logZ.map (unpackBits (2 * c.n)))
      = some c.d := by
  have hw : weightMask c.n = fun a => rowWeight (unpackBits (2 * c.n) a) :=
    funext (weightMask_eq' c.n)
  unfold reportedDistanceOK at h
  rw [hw] at h
  unfold distance
  simp only [List.map_map]
  cases hx : c.logX with
  | nil =>
    cases hz : c.logZ with
    | nil => simp [hx, hz, listMin] at h
    | cons z zs => simp [hx, hz] at hlen
  | cons x xs =>
    cases hz : c.logZ with
    | nil => simp [hx, hz] at hlen
    | cons z zs =>
      rw [hx, hz, List.map_append, List.map_cons, List.map_cons, listMin_append_cons] at h
      simp only [beq_iff_eq] at h
      simp only [List.map_cons, listMin, Function.comp_def]
      rw [← h]

/-- the two checks together: a code accepted by `checkValid` whose reported distance passes
    `reportedDistanceOK` has `distance … = some d` -/
theorem reportedDistanceOK_sound_of_checkValid (c : MaskCode) (rc : RankCert)
    (hv : checkValid c rc = true) (h : reportedDistanceOK c = true) :
    distance (c.logX.map (unpackBits (2 * c.n))) (c.logZ.map (unpackBits (2 * c.n)))
      = some c.d := by
  simp only [checkValid, Bool.and_eq_true, beq_iff_eq] at hv
  obtain ⟨⟨⟨⟨⟨⟨⟨⟨⟨⟨⟨_, hfX⟩, hfZ⟩, hkX⟩, hkZ⟩, _⟩, _⟩, _⟩, _⟩, _⟩, _⟩, _⟩ := hv
  exact reportedDistanceOK_sound c hfX hfZ (by omega) h

/-- for k = 0 both sides fail: `reportedDistanceOK` is `false` and `distance` is `none` -/
theorem reportedDistanceOK_k0 (c : MaskCode) (hX : c.logX = []) (hZ : c.logZ = []) :
    reportedDistanceOK c = false ∧
    distance (c.logX.map (unpackBits (2 * c.n))) (c.logZ.map (unpackBits (2 * c.n))) = none := by
  simp [reportedDistanceOK, distance, listMin, hX, hZ]

/-! ### non-vacuity: the [[4,2,2]] code -/

/-- `XXXX`, `ZZZZ`; `X̄₁ = X₀X₁`, `X̄₂ = X₀X₂`, `Z̄₁ = Z₀Z₂`, `Z̄₂ = Z₀Z₁`
    (bit `j` = X on qubit `j`, bit `4 + j` = Z on qubit `j`). -/
def code422 : MaskCode :=
  { n := 4, k := 2, stabs := [0x0F, 0xF0], logX := [0x03, 0x05], logZ := [0x50, 0x30], d := 2 }

/-- both generators are picked; `Z₀` is dual to `XXXX`, `X₀` is dual to `ZZZZ` -/
def cert422 : RankCert := { basisIdx := [0, 1], dual := [0x10, 0x01], combo := [1, 2] }

example : checkValid code422 cert422 = true := by decide
example : reportedDistanceOK code422 = true := by decide

/-- so the unpacked [[4,2,2]] code is a valid code -/
example : ValidCodeL 4 2 [[1,1,1,1,0,0,0,0], [0,0,0,0,1,1,1,1]]
    [[1,1,0,0,0,0,0,0], [1,0,1,0,0,0,0,0]] [[0,0,0,0,1,0,1,0], [0,0,0,0,1,1,0,0]] :=
  checkValid_sound code422 cert422 (by decide)

example : distance [[1,1,0,0,0,0,0,0], [1,0,1,0,0,0,0,0]]
    [[0,0,0,0,1,0,1,0], [0,0,0,0,1,1,0,0]] = some 2 :=
  reportedDistanceOK_sound_of_checkValid code422 cert422 (by decide) (by decide)

/-- a redundant generator (`YYYY = XXXX·ZZZZ`) is accepted with a two-element basis -/
example : checkValid { code422 with stabs := [0x0F, 0xF0, 0xFF] }
    { basisIdx := [0, 1], dual := [0x10, 0x01], combo := [1, 2, 3] } = true := by decide

/-- swapped logical Z's: the pairing clause fails -/
example : checkValid { code422 with logZ := [0x30, 0x50] } cert422 = false := by decide
example : pairingOK 4 [0x03, 0x05] [0x30, 0x50] = false := by decide

/-- a generator that anticommutes with another one: the commutation clause fails -/
example : checkValid { code422 with stabs := [0x0F, 0x10] } cert422 = false := by decide

/-- a wrong dual certificate (does not anticommute with its generator): the rank clause fails -/
example : checkValid code422 { cert422 with dual := [0x01, 0x10] } = false := by decide

/-- unsorted basis indices are rejected (`basisIdxSorted`) -/
example : rankCertOK code422 { basisIdx := [1, 0], dual := [0x01, 0x10], combo := [2, 1] }
    = false := by decide

/-- wrong `k`: three independent generators on 4 qubits do not have rank `n - k = 2`
    (the dual family is fine, only the count fails) -/
example : dualOK 4 [0x0F, 0xF0, 0x30] [0x10, 0x08, 0x06] = true := by decide
example : rankCertOK { code422 with stabs := [0x0F, 0xF0, 0x30] }
    { basisIdx := [0, 1, 2], dual := [0x10, 0x08, 0x06], combo := [1, 2, 4] } = false := by decide
example : rankCertOK { code422 with stabs := [0x0F, 0xF0, 0x30], k := 1 }
    { basisIdx := [0, 1, 2], dual := [0x10, 0x08, 0x06], combo := [1, 2, 4] } = true := by decide

/-- a wrong reported distance is rejected -/
example : reportedDistanceOK { code422 with d := 3 } = false := by decide

/-- the fold count is enough and the folded parity is the bit parity on a sample -/
example : sympMask 4 0x0F 0x10 = 1 := by decide
example : weightMask 4 0x33 = 2 := by decide

end Panqec
