/-
Structure of `simsOfRanges` / `simsOfMany` / `simsOfRuns` (what `get_simulations` returns),
and of `_find_current_simulation`.
-/
import PanqecVerif.Proofs.Spec

namespace Panqec.Spec

/-- the method of a ranges dictionary is the direct one (absent, or `{'name': 'direct', …}`) -/
def DirectMethod (r : Ranges) : Prop :=
  r.method = none ∨ ∃ p, r.method = some ⟨some "direct", some p⟩

/-- simulation `s` is built from the requested blocks `t` with exactly those parameters -/
def Built (t : Block × Block × Block × PV) (s : SimT) : Prop :=
  instCode t.1 = .ok s.code ∧ instNoise t.2.1 = .ok s.noise ∧
  instDecoder t.2.2.1 = .ok s.decoder ∧ s.errorRate = t.2.2.2

theorem forall₂_comp {α β γ : Type} {R : α → β → Prop} {S : β → γ → Prop} :
    ∀ {as : List α} {bs : List β} {cs : List γ}, List.Forall₂ R as bs → List.Forall₂ S bs cs →
      List.Forall₂ (fun a c => ∃ b, R a b ∧ S b c) as cs
  | _, _, _, .nil, .nil => .nil
  | _, _, _, .cons h1 t1, .cons h2 t2 => .cons ⟨_, h1, h2⟩ (forall₂_comp t1 t2)

/-- one instance of the loop body of `get_simulations` (direct method) -/
theorem buildSim_ok (mparams : PV) (t : Inst × Inst × Block × PV) (s : SimT)
    (h : buildSim mparams t = .ok s) :
    s.code = t.1 ∧ s.noise = t.2.1 ∧ instDecoder t.2.2.1 = .ok s.decoder ∧ s.errorRate = t.2.2.2 := by
  unfold buildSim at h
  cases hd : instDecoder t.2.2.1 with
  | error e => rw [hd] at h; cases h
  | ok dec =>
    rw [hd] at h
    cases hm : methodParamsOk mparams with
    | error e => rw [hm] at h; cases h
    | ok u =>
      rw [hm] at h
      cases h
      exact ⟨rfl, rfl, rfl, rfl⟩

theorem methodOf_direct (r : Ranges) (hm : DirectMethod r) : ∃ p, methodOf r = .ok ("direct", p) := by
  unfold methodOf
  rcases hm with hm | ⟨p, hm⟩
  · rw [hm]; exact ⟨_, rfl⟩
  · rw [hm]; exact ⟨p, rfl⟩

theorem simsOfRanges_spec (r : Ranges) (hm : DirectMethod r) (sims : List SimT)
    (h : simsOfRanges r = .ok sims) :
    ∃ cr nr dr er, parseAllRanges r = .ok (cr, nr, dr, er) ∧
      List.Forall₂ Built (product4 cr nr dr er) sims := by
  unfold simsOfRanges at h
  cases hp : parseAllRanges r with
  | error e => rw [hp] at h; cases h
  | ok q =>
    obtain ⟨cr, nr, dr, er⟩ := q
    rw [hp] at h
    simp only at h
    cases hc : mapE instCode cr with
    | error e => rw [hc] at h; cases h
    | ok codes =>
      rw [hc] at h
      simp only at h
      cases hn : mapE instNoise nr with
      | error e => rw [hn] at h; cases h
      | ok noises =>
        rw [hn] at h
        simp only at h
        obtain ⟨mparams, hmeth⟩ := methodOf_direct r hm
        rw [hmeth] at h
        simp only [beq_self_eq_true, if_true] at h
        have hcodes := (mapE_ok_iff instCode cr codes).mp hc
        have hnoises := (mapE_ok_iff instNoise nr noises).mp hn
        have hprod := product4_forall₂ (fun a b => instCode a = .ok b) (fun a b => instNoise a = .ok b)
          dr er cr codes hcodes nr noises hnoises
        refine ⟨cr, nr, dr, er, rfl, ?_⟩
        have h2 := (mapE_ok_iff _ _ _).mp h
        have h3 := forall₂_comp hprod h2
        apply h3.imp
        intro t s ⟨t', ⟨h1, h2', h3'⟩, hs⟩
        have := buildSim_ok mparams t' s hs
        refine ⟨?_, ?_, ?_, ?_⟩
        · rw [this.1]; exact h1
        · rw [this.2.1]; exact h2'
        · have e : t.2.2.1 = t'.2.2.1 := by rw [h3']
          rw [e]; exact this.2.2.1
        · have e : t.2.2.2 = t'.2.2.2 := by rw [h3']
          rw [e]; exact this.2.2.2

theorem simsOfMany_spec : ∀ (rs : List Ranges) (sims : List SimT),
    simsOfMany rs = .ok sims ↔
      ∃ parts, List.Forall₂ (fun r p => simsOfRanges r = .ok p) rs parts ∧ sims = parts.flatten
  | [], sims => by
    simp only [simsOfMany]
    constructor
    · intro h; cases h; exact ⟨[], .nil, rfl⟩
    · rintro ⟨parts, hp, rfl⟩; cases hp; rfl
  | r :: rs, sims => by
    simp only [simsOfMany]
    cases hr : simsOfRanges r with
    | error e =>
      simp only
      constructor
      · intro h; cases h
      · rintro ⟨parts, hp, _⟩
        cases hp with
        | cons h1 _ => rw [hr] at h1; cases h1
    | ok a =>
      simp only
      cases hrest : simsOfMany rs with
      | error e =>
        simp only
        constructor
        · intro h; cases h
        · rintro ⟨parts, hp, _⟩
          cases hp with
          | @cons _ p _ ps h1 h2 =>
            have := (simsOfMany_spec rs ps.flatten).mpr ⟨ps, h2, rfl⟩
            rw [hrest] at this; cases this
      | ok b =>
        simp only
        obtain ⟨ps, hps, hb⟩ := (simsOfMany_spec rs b).mp hrest
        constructor
        · intro h; cases h
          exact ⟨a :: ps, .cons hr hps, by simp [hb]⟩
        · rintro ⟨parts, hp, rfl⟩
          cases hp with
          | @cons _ p _ ps' h1 h2 =>
            rw [hr] at h1; cases h1
            have := (simsOfMany_spec rs ps'.flatten).mpr ⟨ps', h2, rfl⟩
            rw [hrest] at this; cases this
            simp

/-! ### explicit runs -/

/-- simulation `s` is built from run `r` -/
def BuiltFromRun (r : Run) (s : SimT) : Prop :=
  (∃ b, r.code = some b ∧ instCode b = .ok s.code) ∧
  (∃ b, r.noise = some b ∧ instNoise b = .ok s.noise) ∧
  (∃ b, r.decoder = some b ∧ instDecoder b = .ok s.decoder) ∧
  r.errorRate = some s.errorRate

theorem forall₂_zipWith {α β γ δ : Type} {P : α → β → Prop} {Q : α → γ → Prop} (f : β → γ → δ) :
    ∀ {as : List α} {bs : List β} {cs : List γ}, List.Forall₂ P as bs → List.Forall₂ Q as cs →
      List.Forall₂ (fun a d => ∃ b c, d = f b c ∧ P a b ∧ Q a c) as (List.zipWith f bs cs)
  | _, _, _, .nil, .nil => .nil
  | _, _, _, .cons h1 t1, .cons h2 t2 => .cons ⟨_, _, rfl, h1, h2⟩ (forall₂_zipWith f t1 t2)

theorem simsOfRuns_spec (runs : List Run) (sims : List SimT) (h : simsOfRuns runs = .ok sims) :
    List.Forall₂ BuiltFromRun runs sims := by
  unfold simsOfRuns at h
  cases hc : mapE Run.getCode runs with
  | error e => rw [hc] at h; cases h
  | ok codes =>
  rw [hc] at h; simp only at h
  cases hd : mapE Run.getDecoder runs with
  | error e => rw [hd] at h; cases h
  | ok decs =>
  rw [hd] at h; simp only at h
  cases hn : mapE Run.getNoise runs with
  | error e => rw [hn] at h; cases h
  | ok noises =>
  rw [hn] at h; simp only at h
  cases hr : mapE Run.getRate runs with
  | error e => rw [hr] at h; cases h
  | ok rates =>
  rw [hr] at h; simp only at h
  have fc := (mapE_ok_iff _ _ _).mp hc
  have fd := (mapE_ok_iff _ _ _).mp hd
  have fn := (mapE_ok_iff _ _ _).mp hn
  have fr := (mapE_ok_iff _ _ _).mp hr
  have fs := (mapE_ok_iff _ _ _).mp h
  have z1 := forall₂_zipWith Prod.mk fd fr
  rw [← List.zip_eq_zipWith] at z1
  have z2 := forall₂_zipWith (fun n (x : Block × PV) => (n, x)) fn z1
  have z3 := forall₂_zipWith (fun c (x : Inst × Block × PV) => (c, x)) fc z2
  have z4 := forall₂_comp z3 fs
  apply z4.imp
  intro run s ⟨t, ⟨c, x, ht, hcode, n, y, hx, hnoise, d, p, hy, hdec, hrate⟩, hs⟩
  subst ht hx hy
  have hb := buildSim_ok _ _ s hs
  simp only at hb
  unfold Run.getCode at hcode
  unfold Run.getNoise at hnoise
  unfold Run.getDecoder at hdec
  unfold Run.getRate at hrate
  refine ⟨?_, ?_, ?_, ?_⟩
  · cases hrc : run.code with
    | none => rw [hrc] at hcode; cases hcode
    | some b => rw [hrc] at hcode; exact ⟨b, rfl, by rw [hb.1]; exact hcode⟩
  · cases hrn : run.noise with
    | none => rw [hrn] at hnoise; cases hnoise
    | some b => rw [hrn] at hnoise; exact ⟨b, rfl, by rw [hb.2.1]; exact hnoise⟩
  · cases hrd : run.decoder with
    | none => rw [hrd] at hdec; cases hdec
    | some b => rw [hrd] at hdec; cases hdec; exact ⟨_, rfl, hb.2.2.1⟩
  · cases hrr : run.errorRate with
    | none => rw [hrr] at hrate; cases hrate
    | some q => rw [hrr] at hrate; cases hrate; rw [hb.2.2.2]

/-! ### `_find_current_simulation` -/

theorem findCurrent_of_mem {ι ρ : Type} [DecidableEq ι] (data : List (ι × ρ))
    (hnd : (data.map (·.1)).Nodup) (rec : ι × ρ) (hmem : rec ∈ data) :
    findCurrent data rec.1 = some rec := by
  unfold findCurrent
  induction data with
  | nil => cases hmem
  | cons d data ih =>
    simp only [List.map_cons, List.nodup_cons] at hnd
    by_cases hd : d.1 = rec.1
    · have : d = rec := by
        rcases List.mem_cons.mp hmem with h | h
        · exact h.symm
        · exact absurd (List.mem_map_of_mem (f := (·.1)) h) (hd ▸ hnd.1)
      subst this
      simp
    · have hne : rec ≠ d := fun e => hd (e ▸ rfl)
      have hm : rec ∈ data := by
        rcases List.mem_cons.mp hmem with h | h
        · exact absurd h hne
        · exact h
      rw [List.find?_cons_of_neg (by simpa using hd)]
      exact ih hnd.2 hm

theorem findCurrent_none {ι ρ : Type} [DecidableEq ι] (data : List (ι × ρ)) (i : ι)
    (h : i ∉ data.map (·.1)) : findCurrent data i = none := by
  unfold findCurrent
  rw [List.find?_eq_none]
  intro x hx
  simp only [decide_eq_true_eq]
  intro e
  exact h (e ▸ List.mem_map_of_mem (f := (·.1)) hx)

theorem findCurrent_sound {ι ρ : Type} [DecidableEq ι] (data : List (ι × ρ)) (i : ι) (rec : ι × ρ)
    (h : findCurrent data i = some rec) : rec ∈ data ∧ rec.1 = i := by
  unfold findCurrent at h
  exact ⟨List.mem_of_find?_eq_some h, by simpa using List.find?_some h⟩

/-! ### splitting method -/

theorem product3_length {α β γ : Type} (as : List α) (bs : List β) (cs : List γ) :
    (product3 as bs cs).length = as.length * bs.length * cs.length := by
  unfold product3
  rw [length_flatMap_uniform _ (bs.length * cs.length) as
    (fun a _ => length_flatMap_uniform _ cs.length bs (fun b _ => by simp)), Nat.mul_assoc]

/-- with `method = splitting` there is one simulation per (code, noise, decoder) -/
theorem simsOfRanges_splitting_length (r : Ranges) (p : PV) (sims : List SimT)
    (hm : methodOf r = .ok ("splitting", p)) (h : simsOfRanges r = .ok sims)
    (cr nr dr : List Block) (er : List PV) (hp : parseAllRanges r = .ok (cr, nr, dr, er)) :
    sims.length = cr.length * nr.length * dr.length := by
  unfold simsOfRanges at h
  rw [hp] at h
  simp only at h
  cases hc : mapE instCode cr with
  | error e => rw [hc] at h; cases h
  | ok codes =>
    rw [hc] at h
    simp only at h
    cases hn : mapE instNoise nr with
    | error e => rw [hn] at h; cases h
    | ok noises =>
      rw [hn, hm] at h
      simp only at h
      have hne : ("splitting" == "direct") = false := by decide
      rw [hne] at h
      simp only [Bool.false_eq_true, if_false, beq_self_eq_true, if_true] at h
      rw [mapE_length _ _ _ h, product3_length, mapE_length _ _ _ hc, mapE_length _ _ _ hn]

end Panqec.Spec
