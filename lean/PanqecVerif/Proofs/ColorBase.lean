/-
Generic lemmas for the hand-written 2-D colour-code lattice models (core Lean only):
`range(a, b, step)` membership, the derived qubit list (`appendNew`, `derivedQubits`: membership
and distinctness), `both` (the X and the Z copy of every face), columns of nested loops,
six-candidate overlap counts, and length comparison through equal membership.
-/
import PanqecVerif.Proofs.Lat2DBase
import PanqecVerif.Model.Lattices.ColorBase

namespace Panqec.Color
open Panqec.Lat2D

/-! ### `range(a, b, step)` -/

theorem mem_pyRangeStep1 {a : Nat} {b x : Int} :
    x ∈ pyRangeStep a b 1 ↔ (a : Int) ≤ x ∧ x < b := by
  unfold pyRangeStep
  simp only [List.mem_map, List.mem_range']
  constructor
  · rintro ⟨m, ⟨i, hi, rfl⟩, rfl⟩
    simp only [Int.ofNat_eq_natCast]
    omega
  · rintro ⟨h1, h2⟩
    refine ⟨x.toNat, ⟨x.toNat - a, ?_, ?_⟩, ?_⟩
    · omega
    · omega
    · simp only [Int.ofNat_eq_natCast]; omega

theorem mem_pyRangeStep2 {a : Nat} {b x : Int} :
    x ∈ pyRangeStep a b 2 ↔ (a : Int) ≤ x ∧ x < b ∧ (x - a) % 2 = 0 := by
  unfold pyRangeStep
  simp only [List.mem_map, List.mem_range']
  constructor
  · rintro ⟨m, ⟨i, hi, rfl⟩, rfl⟩
    simp only [Int.ofNat_eq_natCast]
    omega
  · rintro ⟨h1, h2, h3⟩
    refine ⟨x.toNat, ⟨(x.toNat - a) / 2, ?_, ?_⟩, ?_⟩
    · omega
    · omega
    · simp only [Int.ofNat_eq_natCast]; omega

theorem mem_pyRangeStep3 {a : Nat} {b x : Int} :
    x ∈ pyRangeStep a b 3 ↔ (a : Int) ≤ x ∧ x < b ∧ (x - a) % 3 = 0 := by
  unfold pyRangeStep
  simp only [List.mem_map, List.mem_range']
  constructor
  · rintro ⟨m, ⟨i, hi, rfl⟩, rfl⟩
    simp only [Int.ofNat_eq_natCast]
    omega
  · rintro ⟨h1, h2, h3⟩
    refine ⟨x.toNat, ⟨(x.toNat - a) / 3, ?_, ?_⟩, ?_⟩
    · omega
    · omega
    · simp only [Int.ofNat_eq_natCast]; omega

theorem mem_pyRangeStep4 {a : Nat} {b x : Int} :
    x ∈ pyRangeStep a b 4 ↔ (a : Int) ≤ x ∧ x < b ∧ (x - a) % 4 = 0 := by
  unfold pyRangeStep
  simp only [List.mem_map, List.mem_range']
  constructor
  · rintro ⟨m, ⟨i, hi, rfl⟩, rfl⟩
    simp only [Int.ofNat_eq_natCast]
    omega
  · rintro ⟨h1, h2, h3⟩
    refine ⟨x.toNat, ⟨(x.toNat - a) / 4, ?_, ?_⟩, ?_⟩
    · omega
    · omega
    · simp only [Int.ofNat_eq_natCast]; omega

theorem nodup_pyRangeStep (a : Nat) (b : Int) (step : Nat) (hs : 0 < step) :
    (pyRangeStep a b step).Nodup := by
  unfold pyRangeStep
  show List.Pairwise _ _
  rw [List.pairwise_map]
  refine List.Pairwise.imp ?_ (List.nodup_range' step (by omega))
  intro a b h h'
  have h'' : (a : Int) = (b : Int) := h'
  exact h (by omega)

/-! ### the derived qubit list -/

theorem appendNew_cons (acc : List Coord) (q : Coord) (ks : List Coord) :
    appendNew acc (q :: ks) = appendNew (if acc.contains q then acc else acc ++ [q]) ks := rfl

theorem mem_appendNew : ∀ (ks acc : List Coord) (q : Coord),
    q ∈ appendNew acc ks ↔ q ∈ acc ∨ q ∈ ks
  | [], acc, q => by simp [appendNew]
  | k :: ks, acc, q => by
    rw [appendNew_cons, mem_appendNew ks]
    by_cases h : acc.contains k = true
    · rw [if_pos h]
      have hk : k ∈ acc := by simpa using h
      constructor
      · rintro (h1 | h1)
        · exact Or.inl h1
        · exact Or.inr (List.mem_cons_of_mem _ h1)
      · rintro (h1 | h1)
        · exact Or.inl h1
        · rcases List.mem_cons.mp h1 with rfl | h2
          · exact Or.inl hk
          · exact Or.inr h2
    · rw [if_neg h]
      simp only [List.mem_append, List.mem_cons, List.not_mem_nil, or_false]
      constructor
      · rintro ((h1 | h1) | h1)
        · exact Or.inl h1
        · exact Or.inr (Or.inl h1)
        · exact Or.inr (Or.inr h1)
      · rintro (h1 | h1 | h1)
        · exact Or.inl (Or.inl h1)
        · exact Or.inl (Or.inr h1)
        · exact Or.inr h1

theorem nodup_appendNew : ∀ (ks acc : List Coord), acc.Nodup → (appendNew acc ks).Nodup
  | [], acc, h => by simpa [appendNew] using h
  | k :: ks, acc, h => by
    rw [appendNew_cons]
    apply nodup_appendNew ks
    by_cases hk : acc.contains k = true
    · rw [if_pos hk]; exact h
    · rw [if_neg hk]
      have hk' : k ∉ acc := by simpa using hk
      rw [List.nodup_append]
      refine ⟨h, by simp, ?_⟩
      intro a ha b hb
      simp only [List.mem_singleton] at hb
      subst hb
      intro e; subst e; exact hk' ha

theorem derived_aux (getStab : Coord → Op) : ∀ (ss acc : List Coord),
    (acc.Nodup → (ss.foldl (fun acc s => appendNew acc ((getStab s).map Prod.fst)) acc).Nodup) ∧
    ∀ q, q ∈ ss.foldl (fun acc s => appendNew acc ((getStab s).map Prod.fst)) acc ↔
      q ∈ acc ∨ ∃ s ∈ ss, q ∈ (getStab s).map Prod.fst
  | [], acc => by simp
  | s :: ss, acc => by
    rw [List.foldl_cons]
    obtain ⟨ih1, ih2⟩ := derived_aux getStab ss (appendNew acc ((getStab s).map Prod.fst))
    refine ⟨fun h => ih1 (nodup_appendNew _ _ h), ?_⟩
    intro q
    rw [ih2, mem_appendNew]
    constructor
    · rintro ((h | h) | ⟨t, ht, h⟩)
      · exact Or.inl h
      · exact Or.inr ⟨s, List.mem_cons_self .., h⟩
      · exact Or.inr ⟨t, List.mem_cons_of_mem _ ht, h⟩
    · rintro (h | ⟨t, ht, h⟩)
      · exact Or.inl (Or.inl h)
      · rcases List.mem_cons.mp ht with rfl | ht
        · exact Or.inl (Or.inr h)
        · exact Or.inr ⟨t, ht, h⟩

/-- the derived qubit list has no duplicates -/
theorem nodup_derivedQubits (ss : List Coord) (getStab : Coord → Op) :
    (derivedQubits ss getStab).Nodup :=
  (derived_aux getStab ss []).1 List.nodup_nil

/-- a coordinate is a derived qubit iff it is a key of some stabilizer -/
theorem mem_derivedQubits {ss : List Coord} {getStab : Coord → Op} {q : Coord} :
    q ∈ derivedQubits ss getStab ↔ ∃ s ∈ ss, q ∈ (getStab s).map Prod.fst := by
  unfold derivedQubits
  rw [(derived_aux getStab ss []).2]
  simp

/-! ### `both` -/

theorem mem_both {faces : List Coord} {s : Coord} :
    s ∈ both faces ↔ ∃ c ∈ faces, s = c ++ [0] ∨ s = c ++ [1] := by
  unfold both
  simp only [List.mem_flatMap, List.mem_cons, List.not_mem_nil, or_false]

theorem append_singleton_inj {c c' : List Int} {p p' : Int} (h : c ++ [p] = c' ++ [p']) :
    c = c' ∧ p = p' := by
  have := List.append_inj' h rfl
  exact ⟨this.1, by simpa using this.2⟩

theorem nodup_both {faces : List Coord} (h : faces.Nodup) : (both faces).Nodup := by
  unfold both
  show List.Pairwise _ _
  rw [List.pairwise_flatMap]
  constructor
  · intro c _
    refine List.Pairwise.cons ?_ (List.Pairwise.cons (by simp) List.Pairwise.nil)
    intro a ha e
    simp only [List.mem_cons, List.not_mem_nil, or_false] at ha
    subst ha
    have := (append_singleton_inj e).2
    omega
  · refine List.Pairwise.imp ?_ h
    intro a b hab q hq r hr e
    simp only [List.mem_cons, List.not_mem_nil, or_false] at hq hr
    subst e
    rcases hq with rfl | rfl <;> rcases hr with e | e <;> exact hab (append_singleton_inj e).1

/-! ### columns of a nested loop -/

/-- `for x in xs: for y in ys(x): append((x, y))` has no duplicates -/
theorem nodup_columns {xs : List Int} (f : Int → List Int) (hx : xs.Nodup)
    (hf : ∀ x, (f x).Nodup) : (xs.flatMap fun x => (f x).map fun y => [x, y]).Nodup := by
  show List.Pairwise _ _
  rw [List.pairwise_flatMap]
  constructor
  · intro x _
    rw [List.pairwise_map]
    exact (hf x).imp (fun h h' => h (by simpa using h'))
  · refine List.Pairwise.imp ?_ hx
    intro a b hab q hq r hr
    simp only [List.mem_map] at hq hr
    obtain ⟨y, _, rfl⟩ := hq
    obtain ⟨y', _, rfl⟩ := hr
    intro h
    apply hab
    simpa using (List.cons.inj h).1

theorem mem_columns {xs : List Int} {f : Int → List Int} {q : Coord} :
    (q ∈ xs.flatMap fun x => (f x).map fun y => [x, y]) ↔
      ∃ x y, x ∈ xs ∧ y ∈ f x ∧ q = [x, y] := by
  simp only [List.mem_flatMap, List.mem_map]
  constructor
  · rintro ⟨x, hx, y, hy, rfl⟩; exact ⟨x, y, hx, hy, rfl⟩
  · rintro ⟨x, y, hx, hy, rfl⟩; exact ⟨x, hx, y, hy, rfl⟩

/-! ### overlap counts -/

theorem interCount_filter6 (c1 c2 c3 c4 c5 c6 : Coord) (f : Coord → Bool) (B : List Coord) :
    interCount ([c1, c2, c3, c4, c5, c6].filter f) B =
      (if f c1 = true ∧ c1 ∈ B then 1 else 0) + (if f c2 = true ∧ c2 ∈ B then 1 else 0) +
      (if f c3 = true ∧ c3 ∈ B then 1 else 0) + (if f c4 = true ∧ c4 ∈ B then 1 else 0) +
      (if f c5 = true ∧ c5 ∈ B then 1 else 0) + (if f c6 = true ∧ c6 ∈ B then 1 else 0) := by
  unfold interCount
  rw [List.countP_filter]
  simp only [List.countP_cons, List.countP_nil, Bool.and_eq_true, List.contains_eq_mem,
    decide_eq_true_eq]
  simp only [and_comm]
  omega

/-- `interCount` over an explicit filtered 6-element candidate list, each membership condition
    replaced by an equivalent proposition -/
theorem interCount_filter6_iff (c1 c2 c3 c4 c5 c6 : Coord) (f : Coord → Bool) (B : List Coord)
    (P1 P2 P3 P4 P5 P6 : Prop) [Decidable P1] [Decidable P2] [Decidable P3] [Decidable P4]
    [Decidable P5] [Decidable P6]
    (h1 : (f c1 = true ∧ c1 ∈ B) ↔ P1) (h2 : (f c2 = true ∧ c2 ∈ B) ↔ P2)
    (h3 : (f c3 = true ∧ c3 ∈ B) ↔ P3) (h4 : (f c4 = true ∧ c4 ∈ B) ↔ P4)
    (h5 : (f c5 = true ∧ c5 ∈ B) ↔ P5) (h6 : (f c6 = true ∧ c6 ∈ B) ↔ P6) :
    interCount ([c1, c2, c3, c4, c5, c6].filter f) B =
      (if P1 then 1 else 0) + (if P2 then 1 else 0) + (if P3 then 1 else 0) +
      (if P4 then 1 else 0) + (if P5 then 1 else 0) + (if P6 then 1 else 0) := by
  rw [interCount_filter6]
  simp only [h1, h2, h3, h4, h5, h6]

theorem interCount_self (A : List Coord) : interCount A A = A.length := by
  unfold interCount
  rw [List.countP_eq_length]
  intro a ha
  simpa using ha

/-! ### lengths through equal membership -/

theorem length_eq_of_mem_iff {A B : List Coord} (hA : A.Nodup) (hB : B.Nodup)
    (h : ∀ q, q ∈ A ↔ q ∈ B) : A.length = B.length :=
  ((List.perm_ext_iff_of_nodup hA hB).mpr h).length_eq

theorem length_flatMap_range {α} (f : Nat → List α) (c : Nat → Nat) (hc : ∀ i, (f i).length = c i) :
    ∀ L, ((List.range L).flatMap f).length = ((List.range L).map c).sum
  | 0 => rfl
  | L + 1 => by
    rw [List.range_succ, List.flatMap_append, List.length_append, List.map_append, List.sum_append,
      length_flatMap_range f c hc L]
    simp [hc]

end Panqec.Color
