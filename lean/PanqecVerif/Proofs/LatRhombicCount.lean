/-
Counting lemma for the rhombic lattice models: the number of points `(x, y, z)` of a box of
arithmetic progressions of step 2 with `(x + y + z) % 4 = r` (the checkerboard colouring of the
cubes / of the vertices) is half the size of the box, rounded up when the first corner has the
colour and down otherwise.
-/
import PanqecVerif.Proofs.Lat3DbCss
import PanqecVerif.Proofs.Lat3DbCount
import PanqecVerif.Model.Lattices.RhombicPlanarCode
open Panqec Panqec.Lat3Db
namespace Panqec.Rhombic

/-- number of `i < m` with `i` even (`e = true`) / odd (`e = false`) -/
def half (m : Nat) (e : Bool) : Nat := if e then (m + 1) / 2 else m / 2

theorem countP_range_half (m : Nat) (e : Bool) :
    (List.range m).countP (fun i => (i % 2 == 0) == e) = half m e := by
  cases e
  · rw [List.countP_congr (q := fun j => j % 2 == 1), countP_odd_range]
    · rfl
    · intro j _; simp only [beq_iff_eq]
      have : j % 2 = 0 ∨ j % 2 = 1 := by omega
      rcases this with h | h <;> simp [h]
  · rw [List.countP_congr (q := fun j => j % 2 == 0), countP_even_range]
    · rfl
    · intro j _; simp

/-- alternating sum of halves -/
theorem sum_half (a m : Nat) (e : Bool) :
    ((List.range a).map fun i => half m ((i % 2 == 0) == e)).sum = half (a * m) e := by
  induction a with
  | zero => cases e <;> simp [half]
  | succ a ih =>
    rw [List.range_succ, List.map_append, List.sum_append, ih]
    simp only [List.map_cons, List.map_nil, List.sum_cons, List.sum_nil, Nat.add_zero]
    rw [Nat.succ_mul]
    have hpar : (a * m) % 2 = ((a % 2) * (m % 2)) % 2 := Nat.mul_mod a m 2
    generalize a * m = P at *
    have ha : a % 2 = 0 ∨ a % 2 = 1 := by omega
    have hm : m % 2 = 0 ∨ m % 2 = 1 := by omega
    cases e <;> rcases ha with ha | ha <;> rcases hm with hm | hm <;>
      simp only [half, ha, hm, beq_self_eq_true, Nat.mul_zero, Nat.mul_one, Nat.zero_mod,
        Nat.one_mod, Bool.false_eq_true, if_false, if_true] at hpar ⊢ <;>
      first | omega | (simp; omega)

/-- the arithmetic progression `x0, x0 + 2, …` with `m` members -/
def ap (x0 : Int) (m : Nat) : List Int := (List.range m).map fun (i : Nat) => x0 + 2 * (i : Int)

theorem pyRange2_eq_ap (a b : Nat) : pyRange2 a b = ap a ((b + 1 - a) / 2) := by
  rw [pyRange2_eq_map]
  unfold ap
  apply List.map_congr_left
  intro i _
  push_cast
  rfl

theorem rangeM1_eq_ap (b : Nat) : RhombicPlanarCode.rangeM1 b = ap (-1) (b / 2 + 1) := by
  unfold RhombicPlanarCode.rangeM1
  rw [pyRange2_eq_ap]
  unfold ap
  rw [List.range_succ_eq_map, List.map_cons, List.map_map]
  have : (b + 1 - 1) / 2 = b / 2 := by omega
  rw [this]
  congr 1
  apply List.map_congr_left
  intro i _
  simp only [Function.comp]
  push_cast
  omega

theorem map_ap {β} (x0 : Int) (m : Nat) (f : Int → β) :
    (ap x0 m).map f = (List.range m).map fun (i : Nat) => f (x0 + 2 * (i : Int)) := by
  unfold ap; rw [List.map_map]; rfl

/-- one line of the box -/
theorem countP_ap (t z0 r : Int) (c : Nat) (hpar : (t + z0 - r) % 2 = 0) (hr : 0 ≤ r ∧ r < 4) :
    (ap z0 c).countP (fun z => (t + z) % 4 == r) = half c ((t + z0) % 4 == r) := by
  unfold ap
  rw [List.countP_map, ← countP_range_half]
  apply List.countP_congr
  intro i _
  simp only [Function.comp, beq_iff_eq]
  by_cases h0 : (t + z0) % 4 = r
  · have hb : ((t + z0) % 4 == r) = true := by simpa using h0
    rw [hb]
    by_cases hi : i % 2 = 0
    · have : (t + (z0 + 2 * (i : Int))) % 4 = r := by omega
      simp [hi, this]
    · have : ¬ (t + (z0 + 2 * (i : Int))) % 4 = r := by omega
      simp [hi, this]
  · have hb : ((t + z0) % 4 == r) = false := by simpa using h0
    rw [hb]
    by_cases hi : i % 2 = 0
    · have : ¬ (t + (z0 + 2 * (i : Int))) % 4 = r := by omega
      simp [hi, this]
    · have : (t + (z0 + 2 * (i : Int))) % 4 = r := by omega
      simp [hi, this]

/-- the colour of the start of line `i` alternates -/
theorem start_alternates (s r : Int) (i : Nat) (hpar : (s - r) % 2 = 0) (hr : 0 ≤ r ∧ r < 4) :
    ((s + 2 * (i : Int)) % 4 == r) = ((i % 2 == 0) == (s % 4 == r)) := by
  by_cases h0 : s % 4 = r
  · have hb : (s % 4 == r) = true := by simpa using h0
    rw [hb]
    by_cases hi : i % 2 = 0
    · have : (s + 2 * (i : Int)) % 4 = r := by omega
      simp [hi, this]
    · have : ¬ (s + 2 * (i : Int)) % 4 = r := by omega
      simp [hi, this]
  · have hb : (s % 4 == r) = false := by simpa using h0
    rw [hb]
    by_cases hi : i % 2 = 0
    · have : ¬ (s + 2 * (i : Int)) % 4 = r := by omega
      simp [hi, this]
    · have : (s + 2 * (i : Int)) % 4 = r := by omega
      simp [hi, this]

/-- the length of a filtered triple loop as a double sum of line counts -/
theorem length_grid3_sum (xs ys zs : List Int) (p : Int → Int → Int → Bool) :
    (grid3 xs ys zs p).length = (xs.map fun x => (ys.map fun y => zs.countP (p x y)).sum).sum := by
  unfold grid3
  induction xs with
  | nil => simp
  | cons x xs ih =>
    have h2 : ∀ ys : List Int, (ys.flatMap fun y => (zs.filter fun z => p x y z).map fun z => [x, y, z]).length
        = (ys.map fun y => zs.countP (p x y)).sum := by
      intro ys
      induction ys with
      | nil => simp
      | cons y ys ih2 =>
        simp only [List.flatMap_cons, List.length_append, ih2, List.length_map, List.map_cons,
          List.sum_cons, List.countP_eq_length_filter]
    simp only [List.flatMap_cons, List.length_append, ih, h2, List.map_cons, List.sum_cons]

/-- the checkerboard count of a box -/
theorem length_grid3_checker (x0 y0 z0 r : Int) (a b c : Nat) (hpar : (x0 + y0 + z0 - r) % 2 = 0)
    (hr : 0 ≤ r ∧ r < 4) :
    (grid3 (ap x0 a) (ap y0 b) (ap z0 c) fun x y z => (x + y + z) % 4 == r).length =
      half (a * (b * c)) ((x0 + y0 + z0) % 4 == r) := by
  rw [length_grid3_sum]
  have hline : ∀ x y : Int, (x + y + z0 - r) % 2 = 0 →
      (ap z0 c).countP (fun z => (x + y + z) % 4 == r) = half c ((x + y + z0) % 4 == r) := by
    intro x y h
    have := countP_ap (x + y) z0 r c h hr
    simpa using this
  have hplane : ∀ x : Int, (x + y0 + z0 - r) % 2 = 0 →
      ((ap y0 b).map fun y => (ap z0 c).countP (fun z => (x + y + z) % 4 == r)).sum =
        half (b * c) ((x + y0 + z0) % 4 == r) := by
    intro x h
    rw [map_ap, ← sum_half b c]
    congr 1
    apply List.map_congr_left
    intro j _
    have := hline x (y0 + 2 * (j : Int)) (by omega)
    rw [this]
    congr 1
    have e : x + (y0 + 2 * (j : Int)) + z0 = (x + y0 + z0) + 2 * (j : Int) := by omega
    rw [e]
    exact start_alternates _ r j h hr
  show ((ap x0 a).map fun x => ((ap y0 b).map fun y =>
    (ap z0 c).countP (fun z => (x + y + z) % 4 == r)).sum).sum = _
  rw [map_ap, ← sum_half a (b * c)]
  congr 1
  apply List.map_congr_left
  intro i _
  have := hplane (x0 + 2 * (i : Int)) (by omega)
  rw [this]
  congr 1
  have e : x0 + 2 * (i : Int) + y0 + z0 = (x0 + y0 + z0) + 2 * (i : Int) := by omega
  rw [e]
  exact start_alternates _ r i hpar hr

end Panqec.Rhombic
