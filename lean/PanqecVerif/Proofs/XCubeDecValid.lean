/-
`XCubeMatchingDecoder.decode`: shape of the result, validity (binary, length 2n), the Z half is the
BP-OSD answer and reproduces the X-row (vertex/"face"-operator) syndrome; history independence.
Core Lean only (through `Proofs/DecodersGlue.lean`).
-/
import PanqecVerif.Proofs.XCubeDecBasic
import PanqecVerif.Proofs.DecodersGlue
import PanqecVerif.Proofs.DistCSS

namespace Panqec.XCube

open Panqec

variable {W : Type}

/-- what a successful `decode` returns: the minimum-weight `possible_correction` plus the BP-OSD
    answer on the restored syndrome, modulo 2 -/
theorem decode_ok_form (solve : WSolver W) (S : BpSolver) (castEv : Event Rat → Event W)
    (order : List Int → List Int) (d : XCubeDec W) (st : BpSt) (s c : Vec)
    (h : (d.decode solve S castEv order st s).2.val = .ok c) :
    ∃ pc zc, (matchingPart solve order d s).val = .ok pc ∧
      (d.zdec.decode S st (restoreX d.H s)).2.2 = .ok zc ∧ zc.length = pc.length ∧
      c = (vadd pc (zc.map (· % 256))).map (· % 2) := by
  unfold XCubeDec.decode at h
  simp only at h
  cases hm : (matchingPart solve order d s).val with
  | error e => rw [hm] at h; simp at h
  | ok pc =>
    rw [hm] at h
    simp only at h
    rw [Out.bind_val_ok hm] at h
    unfold liftBp at h
    simp only at h
    cases hz : (d.zdec.decode S st (restoreX d.H s)).2.2 with
    | error e =>
      rw [Out.bind_val_error (e := .dec e) (by simp [hz])] at h
      cases h
    | ok zc =>
      rw [Out.bind_val_ok (a := zc) (by simp [hz])] at h
      by_cases hl : zc.length = pc.length
      · simp only [hl, ne_eq, not_true_eq_false, if_false, Out.pure_val] at h
        exact ⟨pc, zc, rfl, rfl, hl, by cases h; rfl⟩
      · simp [hl] at h

/-- when the matching part raises, `decode` raises the same exception and the BP-OSD decoder is
    not touched -/
theorem decode_matching_error (solve : WSolver W) (S : BpSolver) (castEv : Event Rat → Event W)
    (order : List Int → List Int) (d : XCubeDec W) (st : BpSt) (s : Vec) (e : XErr)
    (h : (matchingPart solve order d s).val = .error e) :
    (d.decode solve S castEv order st s).2.val = .error e ∧
      (d.decode solve S castEv order st s).1 = st := by
  unfold XCubeDec.decode
  simp only [h]
  exact ⟨trivial, trivial⟩

/-- **validity**: whatever the solvers answer, a returned correction is a binary vector of
    length `2n` -/
theorem decode_valid (solve : WSolver W) (S : BpSolver) (castEv : Event Rat → Event W)
    (order : List Int → List Int) (d : XCubeDec W) (st : BpSt) (s c : Vec)
    (h : (d.decode solve S castEv order st s).2.val = .ok c) :
    c.length = 2 * d.n ∧ ∀ x ∈ c, x < 2 := by
  obtain ⟨pc, zc, hm, _, hl, hc⟩ := decode_ok_form solve S castEv order d st s c h
  have hpc := post_matchingPart d solve order s pc hm
  subst hc
  refine ⟨?_, ?_⟩
  · rw [List.length_map, vadd_length _ _ (by simp [hl]), hpc.1]
  · intro x hx
    obtain ⟨y, _, rfl⟩ := List.mem_map.mp hx
    exact Nat.mod_lt _ (by omega)

/-! ### the Z half -/

theorem drop_eq_zeros_of_pcOk {n m : Nat} {v : Vec} (h : PcOk n m v) :
    v.drop n = List.replicate (m - n) 0 := by
  apply List.ext_getElem
  · simp [h.1]
  · intro i h1 _
    have := h.2 (n + i) (by omega)
    simp only [List.getD] at this
    rw [List.getElem_drop, List.getElem_replicate]
    have hlt : n + i < v.length := by simp at h1; omega
    rw [List.getElem?_eq_getElem hlt] at this
    simpa using this

theorem map_mod256_mod2 (v : Vec) : (v.map (· % 256)).map (· % 2) = v.map (· % 2) := by
  rw [List.map_map]
  apply List.map_congr_left
  intro x _
  simp only [Function.comp]
  omega

theorem vadd_map_mod2_zeros : ∀ (v : Vec),
    (vadd (List.replicate v.length 0) (v.map (· % 256))).map (· % 2) = v.map (· % 2)
  | [] => by simp
  | x :: v => by
    have ih := vadd_map_mod2_zeros v
    simp only [List.length_cons, List.replicate_succ, List.map_cons, vadd_cons, Nat.zero_add, ih]
    congr 1
    omega

/-- `extract_x_syndrome` of the restored syndrome is that of the measured one -/
theorem maskSelect_restore : ∀ (mx mz : List Bool) (s : Vec),
    maskSelect mx (List.zipWith (fun (m : Bool × Bool) v => if m.1 then v else if m.2 then 0 else v)
      (mx.zip mz) s) = maskSelect (mx.take mz.length) s
  | [], _, _ => by simp [maskSelect]
  | _ :: _, [], _ => by simp [maskSelect]
  | _ :: _, _ :: _, [] => by simp [maskSelect]
  | a :: mx, b :: mz, v :: s => by
    have ih := maskSelect_restore mx mz s
    unfold maskSelect at ih ⊢
    cases a <;> simp [ih]

theorem extractX_restoreX (H : Mat) (s : Vec) :
    extractXSyndrome H (restoreX H s) = extractXSyndrome H s := by
  unfold extractXSyndrome restoreX
  rw [maskSelect_restore]
  have : (zIndices H).length = (xIndices H).length := by simp [xIndices, zIndices]
  rw [this, List.take_length]

theorem restoreX_length (H : Mat) (s : Vec) (h : s.length = H.length) :
    (restoreX H s).length = H.length := by
  unfold restoreX
  simp [xIndices, zIndices, h]

/-- **the Z half is the BP-OSD answer, and it reproduces the X-row syndrome.**  For a CSS
    parity-check matrix, a BP-OSD decoder in any state reachable by any call history, and the
    syndrome of any error `e`: if `decode` returns `c` then the second half of `c` is
    `ldpc(Hx, priors pz+py).decode(X-row syndrome)`, and (ldpc contract on `Hx`) the X-row syndrome
    of `c` is the measured one. -/
theorem decode_xrows (solve : WSolver W) (S : BpSolver) (castEv : Event Rat → Event W)
    (order : List Int → List Int) (d : XCubeDec W) (hH : d.zdec.H = d.H)
    (hcss : isCss d.H = true) (hS : BpValidOn d.n S (Hx d.H))
    (st : BpSt) (hg : d.zdec.Good st) (e : Vec) (he : e.length = 2 * d.n) (c : Vec)
    (h : (d.decode solve S castEv order st (measureSyndrome d.H e)).2.val = .ok c) :
    zPart c = S.decode (Hx d.H) true (raddv d.zdec.pz d.zdec.py)
        (extractXSyndrome d.H (measureSyndrome d.H e)) ∧
      extractXSyndrome d.H (measureSyndrome d.H c) =
        extractXSyndrome d.H (measureSyndrome d.H e) := by
  obtain ⟨pc, zc, hm, hz, hl, hc⟩ := decode_ok_form solve S castEv order d st _ c h
  have hpc := post_matchingPart d solve order _ pc hm
  have hclen : c.length = 2 * d.n := (decode_valid solve S castEv order d st _ c h).1
  -- the BP-OSD answer is the pure function of the restored syndrome
  rw [(d.zdec.decode_eq_pure S st _ hg).1] at hz
  have hslen : (restoreX d.H (measureSyndrome d.H e)).length = d.zdec.H.length := by
    rw [hH]; exact restoreX_length _ _ (measureSyndrome_length _ _)
  unfold BpDec_dec.pureDecode at hz
  rw [hH] at hz hslen
  simp only [hcss, if_true, hslen] at hz
  rw [extractX_restoreX] at hz
  generalize hzc' : S.decode (Hx d.H) true (raddv d.zdec.pz d.zdec.py)
    (extractXSyndrome d.H (measureSyndrome d.H e)) = zc' at hz ⊢
  generalize S.decode (Hz d.H) true _ _ = xc at hz
  have hsol : Solves d.n (Hx d.H) (extractXSyndrome d.H (measureSyndrome d.H e)) zc' := by
    rw [← hzc']; exact hS _ _ _ (feasible_x d.H hcss e d.n he)
  have hzc : zc = xc ++ zc' := by cases hz; rfl
  have hxc : xc.length = d.n := by
    have := hl
    rw [hzc, List.length_append, hsol.1, hpc.1] at this
    omega
  -- the Z half of the result
  have hzp : zPart c = zc' := by
    have : c.length / 2 = d.n := by omega
    unfold zPart
    rw [this, hc, ← List.map_drop, vadd_drop _ _ _ (by simp [hl]), drop_eq_zeros_of_pcOk hpc,
      ← List.map_drop, hzc, List.drop_left' hxc]
    have h2 : 2 * d.n - d.n = zc'.length := by rw [hsol.1]; omega
    rw [h2, vadd_map_mod2_zeros, map_mod_two_of_binary _ hsol.2.1]
  refine ⟨hzp, ?_⟩
  rw [css_xrow_block d.H hcss c, hzp, hsol.2.2]

/-- under the ldpc contracts on both sector matrices the BP-OSD stage cannot fail: `decode`
    returns a correction exactly when the matching part does -/
theorem decode_ok_of_matching_ok (solve : WSolver W) (S : BpSolver) (castEv : Event Rat → Event W)
    (order : List Int → List Int) (d : XCubeDec W) (hH : d.zdec.H = d.H) (hn : d.zdec.n = d.n)
    (hcss : isCss d.H = true) (hSX : BpValidOn d.n S (Hz d.H)) (hSZ : BpValidOn d.n S (Hx d.H))
    (st : BpSt) (hg : d.zdec.Good st) (e : Vec) (he : e.length = 2 * d.n) (pc : Vec)
    (hm : (matchingPart solve order d (measureSyndrome d.H e)).val = .ok pc) :
    ∃ c, (d.decode solve S castEv order st (measureSyndrome d.H e)).2.val = .ok c := by
  have hpc := post_matchingPart d solve order _ pc hm
  -- the restored syndrome is the syndrome of the Z part of the error
  have hrest : restoreX d.H (measureSyndrome d.H e) =
      measureSyndrome d.H (List.replicate d.n 0 ++ zPart e) := by
    unfold restoreX
    rw [measureSyndrome_eq_dec, measureSyndrome_eq_dec, xIndices_eq_dec, zIndices_eq_dec,
      List.zip_map', List.zipWith_map_left, List.zipWith_map_right, List.zipWith_self]
    apply List.map_congr_left
    intro r hr
    have hrow := (isCss_iff_dec d.H).mp hcss r hr
    have hzl : (zPart e).length = d.n := zPart_length_of e d.n he
    cases hx : xFlag_dec r
    · cases hzf : zFlag_dec r
      · simp only [Bool.false_eq_true, if_false]
        rw [symp_of_not_zFlag r _ hzf, symp_of_not_zFlag r _ hzf,
          zPart_append_dec _ _ (by simp [hzl])]
      · simp only [Bool.false_eq_true, if_false, if_true]
        rw [symp_of_not_xFlag r _ hx, xPart_append_dec _ _ (by simp [hzl])]
        simp [dot_replicate_zero_right]
    · have hzf : zFlag_dec r = false := by
        cases hzz : zFlag_dec r
        · rfl
        · exact absurd ⟨hx, hzz⟩ hrow
      simp only [if_true]
      rw [symp_of_not_zFlag r _ hzf, symp_of_not_zFlag r _ hzf,
        zPart_append_dec _ _ (by simp [hzl])]
  have he' : (List.replicate d.n 0 ++ zPart e).length = 2 * d.zdec.n := by
    rw [hn, List.length_append, List.length_replicate, zPart_length_of e d.n he]; omega
  obtain ⟨zc, hzc, hzl, _, _⟩ := bposd_css_valid S d.zdec (by rw [hH]; exact hcss)
    (by rw [hH, hn]; exact hSX) (by rw [hH, hn]; exact hSZ) _ he'
  unfold XCubeDec.decode
  simp only [hm]
  rw [Out.bind_val_ok hm]
  unfold liftBp
  simp only
  have hz : (d.zdec.decode S st (restoreX d.H (measureSyndrome d.H e))).2.2 = .ok zc := by
    rw [(d.zdec.decode_eq_pure S st _ hg).1, hrest, ← hH]; exact hzc
  rw [Out.bind_val_ok (a := zc) (by simp [hz])]
  have hl : zc.length = pc.length := by rw [hzl, hpc.1, hn]
  simp [hl]

/-! ### history independence -/

/-- the correction (or exception) `decode` returns, as a function of the immutable attributes and
    the syndrome only: the BP-OSD decoder enters through its pure function -/
def pureDecode (solve : WSolver W) (S : BpSolver) (order : List Int → List Int) (d : XCubeDec W)
    (s : Vec) : Except XErr Vec :=
  match (matchingPart solve order d s).val with
  | .error e => .error e
  | .ok pc =>
    match d.zdec.pureDecode S (restoreX d.H s) with
    | .error e => .error (.dec e)
    | .ok zc =>
      if zc.length ≠ pc.length then .error (.dec .shapeError)
      else .ok ((vadd pc (zc.map (· % 256))).map (· % 2))

theorem decode_eq_pure (solve : WSolver W) (S : BpSolver) (castEv : Event Rat → Event W)
    (order : List Int → List Int) (d : XCubeDec W) (st : BpSt) (hg : d.zdec.Good st) (s : Vec) :
    (d.decode solve S castEv order st s).2.val = pureDecode solve S order d s ∧
      d.zdec.Good (d.decode solve S castEv order st s).1 := by
  unfold pureDecode
  cases hm : (matchingPart solve order d s).val with
  | error e =>
    obtain ⟨h1, h2⟩ := decode_matching_error solve S castEv order d st s e hm
    rw [h1, h2]; exact ⟨rfl, hg⟩
  | ok pc =>
    obtain ⟨hp, hgood⟩ := d.zdec.decode_eq_pure S st (restoreX d.H s) hg
    unfold XCubeDec.decode
    simp only [hm]
    refine ⟨?_, by unfold liftBp; exact hgood⟩
    rw [Out.bind_val_ok hm]
    unfold liftBp
    simp only
    rw [← hp]
    cases hz : (d.zdec.decode S st (restoreX d.H s)).2.2 with
    | error e => rw [Out.bind_val_error (e := .dec e) (by simp)]
    | ok zc =>
      rw [Out.bind_val_ok (a := zc) (by simp)]
      by_cases hl : zc.length = pc.length <;> simp [hl]

theorem run_good (solve : WSolver W) (S : BpSolver) (castEv : Event Rat → Event W)
    (order : List Int → List Int) (d : XCubeDec W) : ∀ (hist : List Vec) (st : BpSt),
    d.zdec.Good st → d.zdec.Good (d.run solve S castEv order st hist)
  | [], _, hg => hg
  | s :: rest, st, hg => by
    unfold XCubeDec.run
    exact run_good solve S castEv order d rest _ (decode_eq_pure solve S castEv order d st hg s).2

end Panqec.XCube
