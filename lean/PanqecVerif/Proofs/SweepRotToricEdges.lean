/-
Geometry of C10 on RotatedToric3DCode with the repaired `RotatedSweepDecoder3D`, every size
`L_x, L_y ≥ 1` — the edges proposed by the rotated sweep rule.  `sweep_move` only applies the
rule at a vertex when the three faces of `get_sweep_faces` (after `_wrap`) are face stabilizers
AND the three edges of `get_sweep_edges` (after `_wrap`) are qubits.  On the torus the two
horizontal edges always exist (the lattice is periodic in x and y); the vertical edge exists as
soon as the first face does (same layer `z ± 1`).  So `all(faces_valid)` implies
`all(edges_valid)`: the second guard never discards a vertex.
-/
import PanqecVerif.Proofs.SweepRotToricBase

namespace Panqec.Sweep

set_option linter.unusedSimpArgs false
set_option linter.unusedVariables false

theorem rotToric_sweepEdges_at (Lx Ly Lz : Nat) (F1 F2 F3 E1 E2 E3 : Loc)
    (hgeo : F1 ∈ rotToricStabs Lx Ly Lz → E1 ∈ rotToricQubits Lx Ly Lz ∧
      E2 ∈ rotToricQubits Lx Ly Lz ∧ E3 ∈ rotToricQubits Lx Ly Lz) :
    (!((rotToric3D Lx Ly Lz).isStabFace F1 && (rotToric3D Lx Ly Lz).isStabFace F2 &&
        (rotToric3D Lx Ly Lz).isStabFace F3) ||
      ((rotToric3D Lx Ly Lz).isQubit E1 && (rotToric3D Lx Ly Lz).isQubit E2 &&
        (rotToric3D Lx Ly Lz).isQubit E3)) = true := by
  cases hF : ((rotToric3D Lx Ly Lz).isStabFace F1 && (rotToric3D Lx Ly Lz).isStabFace F2 &&
      (rotToric3D Lx Ly Lz).isStabFace F3)
  · rfl
  · simp only [Bool.and_eq_true] at hF
    obtain ⟨⟨h1, h2⟩, h3⟩ := hF
    obtain ⟨g1, g2, g3⟩ := hgeo (rotToric_isStabFace_mem _ _ _ _ h1)
    simp only [Lattice.isQubit, rotToric3D, List.contains_iff_mem.mpr g1,
      List.contains_iff_mem.mpr g2, List.contains_iff_mem.mpr g3, Bool.not_true, Bool.and_self,
      Bool.or_true]

/-- sweep directions `(1, 0, ±1)`: an existing first face implies three existing edges -/
theorem rotToric_sweepEdges_px (Lx Ly Lz : Nat) (hLx : 1 ≤ Lx) (hLy : 1 ≤ Ly) (a b c sz : Int)
    (hsz : sz = 1 ∨ sz = -1)
    (hvert : 2 ≤ a ∧ a ≤ 2 * (Lx : Int) ∧ a % 2 = 0 ∧ 2 ≤ b ∧ b ≤ 2 * (Ly : Int) ∧ b % 2 = 0 ∧
      1 ≤ c ∧ c < 2 * (Lz : Int) ∧ c % 2 = 1 ∧ (a + b) % 4 = 2) :
    (sweepFacesRot (rotToric3D Lx Ly Lz) (a, b, c) (1, 0, sz)).1 ∈ rotToricStabs Lx Ly Lz →
      (sweepEdgesRot (rotToric3D Lx Ly Lz) (a, b, c) (1, 0, sz)).1 ∈ rotToricQubits Lx Ly Lz ∧
      (sweepEdgesRot (rotToric3D Lx Ly Lz) (a, b, c) (1, 0, sz)).2.1 ∈ rotToricQubits Lx Ly Lz ∧
      (sweepEdgesRot (rotToric3D Lx Ly Lz) (a, b, c) (1, 0, sz)).2.2 ∈ rotToricQubits Lx Ly Lz := by
  simp +decide only [sweepFacesRot, sweepEdgesRot, oldSweepFacesRot, oldSweepEdgesRot,
    wrapRot_rotToric, ↓reduceIte]
  simp only [wrapC_succ Lx hLx a (by omega) (by omega), wrapC_pred Lx hLx a (by omega) (by omega),
    wrapC_succ Ly hLy b (by omega) (by omega), wrapC_pred Ly hLy b (by omega) (by omega),
    wrapC_id Lx a (by omega) (by omega), wrapC_id Ly b (by omega) (by omega)]
  intro h1
  rw [mem_rotToricStabs] at h1
  have k1 : 2 ≤ c + 1 * sz ∧ c + 1 * sz < 2 * (Lz : Int) := by omega
  clear h1
  simp only [mem_rotToricQubits, up, dn]
  refine ⟨?_, ?_, ?_⟩ <;> omega

/-- sweep directions `(0, 1, ±1)`: an existing first face implies three existing edges -/
theorem rotToric_sweepEdges_py (Lx Ly Lz : Nat) (hLx : 1 ≤ Lx) (hLy : 1 ≤ Ly) (a b c sz : Int)
    (hsz : sz = 1 ∨ sz = -1)
    (hvert : 2 ≤ a ∧ a ≤ 2 * (Lx : Int) ∧ a % 2 = 0 ∧ 2 ≤ b ∧ b ≤ 2 * (Ly : Int) ∧ b % 2 = 0 ∧
      1 ≤ c ∧ c < 2 * (Lz : Int) ∧ c % 2 = 1 ∧ (a + b) % 4 = 2) :
    (sweepFacesRot (rotToric3D Lx Ly Lz) (a, b, c) (0, 1, sz)).1 ∈ rotToricStabs Lx Ly Lz →
      (sweepEdgesRot (rotToric3D Lx Ly Lz) (a, b, c) (0, 1, sz)).1 ∈ rotToricQubits Lx Ly Lz ∧
      (sweepEdgesRot (rotToric3D Lx Ly Lz) (a, b, c) (0, 1, sz)).2.1 ∈ rotToricQubits Lx Ly Lz ∧
      (sweepEdgesRot (rotToric3D Lx Ly Lz) (a, b, c) (0, 1, sz)).2.2 ∈ rotToricQubits Lx Ly Lz := by
  simp +decide only [sweepFacesRot, sweepEdgesRot, oldSweepFacesRot, oldSweepEdgesRot,
    wrapRot_rotToric, ↓reduceIte]
  simp only [wrapC_succ Lx hLx a (by omega) (by omega), wrapC_pred Lx hLx a (by omega) (by omega),
    wrapC_succ Ly hLy b (by omega) (by omega), wrapC_pred Ly hLy b (by omega) (by omega),
    wrapC_id Lx a (by omega) (by omega), wrapC_id Ly b (by omega) (by omega)]
  intro h1
  rw [mem_rotToricStabs] at h1
  have k1 : 2 ≤ c + 1 * sz ∧ c + 1 * sz < 2 * (Lz : Int) := by omega
  clear h1
  simp only [mem_rotToricQubits, up, dn]
  refine ⟨?_, ?_, ?_⟩ <;> omega

/-- sweep directions `(-1, 0, ±1)`: an existing first face implies three existing edges -/
theorem rotToric_sweepEdges_mx (Lx Ly Lz : Nat) (hLx : 1 ≤ Lx) (hLy : 1 ≤ Ly) (a b c sz : Int)
    (hsz : sz = 1 ∨ sz = -1)
    (hvert : 2 ≤ a ∧ a ≤ 2 * (Lx : Int) ∧ a % 2 = 0 ∧ 2 ≤ b ∧ b ≤ 2 * (Ly : Int) ∧ b % 2 = 0 ∧
      1 ≤ c ∧ c < 2 * (Lz : Int) ∧ c % 2 = 1 ∧ (a + b) % 4 = 2) :
    (sweepFacesRot (rotToric3D Lx Ly Lz) (a, b, c) (-1, 0, sz)).1 ∈ rotToricStabs Lx Ly Lz →
      (sweepEdgesRot (rotToric3D Lx Ly Lz) (a, b, c) (-1, 0, sz)).1 ∈ rotToricQubits Lx Ly Lz ∧
      (sweepEdgesRot (rotToric3D Lx Ly Lz) (a, b, c) (-1, 0, sz)).2.1 ∈ rotToricQubits Lx Ly Lz ∧
      (sweepEdgesRot (rotToric3D Lx Ly Lz) (a, b, c) (-1, 0, sz)).2.2 ∈ rotToricQubits Lx Ly Lz := by
  simp +decide only [sweepFacesRot, sweepEdgesRot, oldSweepFacesRot, oldSweepEdgesRot,
    wrapRot_rotToric, ↓reduceIte]
  simp only [wrapC_succ Lx hLx a (by omega) (by omega), wrapC_pred Lx hLx a (by omega) (by omega),
    wrapC_succ Ly hLy b (by omega) (by omega), wrapC_pred Ly hLy b (by omega) (by omega),
    wrapC_id Lx a (by omega) (by omega), wrapC_id Ly b (by omega) (by omega)]
  intro h1
  rw [mem_rotToricStabs] at h1
  have k1 : 2 ≤ c + 1 * sz ∧ c + 1 * sz < 2 * (Lz : Int) := by omega
  clear h1
  simp only [mem_rotToricQubits, up, dn]
  refine ⟨?_, ?_, ?_⟩ <;> omega

/-- sweep directions `(0, -1, ±1)`: an existing first face implies three existing edges -/
theorem rotToric_sweepEdges_my (Lx Ly Lz : Nat) (hLx : 1 ≤ Lx) (hLy : 1 ≤ Ly) (a b c sz : Int)
    (hsz : sz = 1 ∨ sz = -1)
    (hvert : 2 ≤ a ∧ a ≤ 2 * (Lx : Int) ∧ a % 2 = 0 ∧ 2 ≤ b ∧ b ≤ 2 * (Ly : Int) ∧ b % 2 = 0 ∧
      1 ≤ c ∧ c < 2 * (Lz : Int) ∧ c % 2 = 1 ∧ (a + b) % 4 = 2) :
    (sweepFacesRot (rotToric3D Lx Ly Lz) (a, b, c) (0, -1, sz)).1 ∈ rotToricStabs Lx Ly Lz →
      (sweepEdgesRot (rotToric3D Lx Ly Lz) (a, b, c) (0, -1, sz)).1 ∈ rotToricQubits Lx Ly Lz ∧
      (sweepEdgesRot (rotToric3D Lx Ly Lz) (a, b, c) (0, -1, sz)).2.1 ∈ rotToricQubits Lx Ly Lz ∧
      (sweepEdgesRot (rotToric3D Lx Ly Lz) (a, b, c) (0, -1, sz)).2.2 ∈ rotToricQubits Lx Ly Lz := by
  simp +decide only [sweepFacesRot, sweepEdgesRot, oldSweepFacesRot, oldSweepEdgesRot,
    wrapRot_rotToric, ↓reduceIte]
  simp only [wrapC_succ Lx hLx a (by omega) (by omega), wrapC_pred Lx hLx a (by omega) (by omega),
    wrapC_succ Ly hLy b (by omega) (by omega), wrapC_pred Ly hLy b (by omega) (by omega),
    wrapC_id Lx a (by omega) (by omega), wrapC_id Ly b (by omega) (by omega)]
  intro h1
  rw [mem_rotToricStabs] at h1
  have k1 : 2 ≤ c + 1 * sz ∧ c + 1 * sz < 2 * (Lz : Int) := by omega
  clear h1
  simp only [mem_rotToricQubits, up, dn]
  refine ⟨?_, ?_, ?_⟩ <;> omega

/-- RotatedToric3DCode, every size `L_x, L_y ≥ 1`: whenever the three faces the rotated sweep rule
    looks at exist, the three edges it may propose are edges of the lattice -/
theorem rotToric_sweepEdgesOK (Lx Ly Lz : Nat) (hLx : 1 ≤ Lx) (hLy : 1 ≤ Ly) :
    sweepEdgesOKRot (rotToric3D Lx Ly Lz) = true := by
  unfold sweepEdgesOKRot
  rw [List.all_eq_true]
  rintro ⟨a, b, c⟩ hv
  unfold sweepVerticesRot at hv
  rw [List.mem_filter] at hv
  obtain ⟨hs, hnf⟩ := hv
  rw [show (rotToric3D Lx Ly Lz).stabs = rotToricStabs Lx Ly Lz from rfl, mem_rotToricStabs] at hs
  have hvert : 2 ≤ a ∧ a ≤ 2 * (Lx : Int) ∧ a % 2 = 0 ∧ 2 ≤ b ∧ b ≤ 2 * (Ly : Int) ∧ b % 2 = 0 ∧
      1 ≤ c ∧ c < 2 * (Lz : Int) ∧ c % 2 = 1 ∧ (a + b) % 4 = 2 := by
    rcases hs with h | h | h
    · exact h
    · exfalso
      have e02 : ((0 : Int) == 2) = false := by decide
      have h4 : (a + b) % 4 = 0 := by omega
      simp [rotToric3D, rotIsFace, xyMod4, h4, e02] at hnf
    · exfalso
      have e01 : ((0 : Int) == 1) = false := by decide
      have hc : c % 2 = 0 := by omega
      simp [rotToric3D, rotIsFace, hc, e01] at hnf
  rw [List.all_eq_true]
  intro sd hsd
  apply rotToric_sweepEdges_at Lx Ly Lz
  simp only [sweepDirections, List.mem_cons, List.not_mem_nil, or_false] at hsd
  rcases hsd with rfl | rfl | rfl | rfl | rfl | rfl | rfl | rfl
  · exact rotToric_sweepEdges_px Lx Ly Lz hLx hLy a b c 1 (Or.inl rfl) hvert
  · exact rotToric_sweepEdges_px Lx Ly Lz hLx hLy a b c (-1) (Or.inr rfl) hvert
  · exact rotToric_sweepEdges_py Lx Ly Lz hLx hLy a b c 1 (Or.inl rfl) hvert
  · exact rotToric_sweepEdges_py Lx Ly Lz hLx hLy a b c (-1) (Or.inr rfl) hvert
  · exact rotToric_sweepEdges_mx Lx Ly Lz hLx hLy a b c 1 (Or.inl rfl) hvert
  · exact rotToric_sweepEdges_mx Lx Ly Lz hLx hLy a b c (-1) (Or.inr rfl) hvert
  · exact rotToric_sweepEdges_my Lx Ly Lz hLx hLy a b c 1 (Or.inl rfl) hvert
  · exact rotToric_sweepEdges_my Lx Ly Lz hLx hLy a b c (-1) (Or.inr rfl) hvert

end Panqec.Sweep
