/-
Color3DCode: generic lemmas for the logical operators (core Lean only).

* a dict built by assignments of one letter (`lineOp`) is the list of FIRST OCCURRENCES of the keys
  (`firstOcc`), whatever repetitions the key list has: the membranes of `get_logicals_z` assign many
  keys twice;
* the anticommutation count of such a dict with a generator is the number of keys of the generator
  that occur in the key list;
* evaluation of a membership test on a wrapped key: a "thin" coordinate (tested against small
  constants) through the centred difference, a "thick" one (tested modulo 8) through the residue.
-/
import PanqecVerif.Proofs.LatColor3DCodeC

set_option linter.unusedVariables false

namespace Panqec.Color3DCode
open Panqec.Lat2D Panqec.Color

/-! ### `lineOp` with repeated keys -/

/-- the first occurrences of the keys, in order -/
def firstOcc (ks : List Coord) : List Coord := appendNew [] ks

theorem nodup_firstOcc (ks : List Coord) : (firstOcc ks).Nodup :=
  nodup_appendNew ks [] List.nodup_nil

theorem mem_firstOcc {ks : List Coord} {q : Coord} : q ∈ firstOcc ks ↔ q ∈ ks := by
  unfold firstOcc; rw [mem_appendNew]; simp

theorem any_fst_map (acc : List Coord) (P : Pauli) (q : Coord) :
    (acc.map (fun k => (k, P))).any (fun e => e.1 == q) = acc.contains q := by
  induction acc with
  | nil => rfl
  | cons a acc ih =>
    simp only [List.map_cons, List.any_cons, ih, List.contains_cons]
    by_cases h : a = q
    · subst h; simp
    · have h1 : (a == q) = false := by simpa using h
      have h2 : (q == a) = false := by simpa using fun e => h e.symm
      rw [h1, h2]

theorem insert_map (acc : List Coord) (P : Pauli) (q : Coord) :
    Op.insert (acc.map (fun k => (k, P))) q P =
      (if acc.contains q then acc else acc ++ [q]).map (fun k => (k, P)) := by
  unfold Op.insert
  rw [any_fst_map]
  by_cases h : acc.contains q = true
  · rw [if_pos h, if_pos h, List.map_map]
    apply List.map_congr_left
    intro a _
    simp only [Function.comp]
    by_cases ha : a = q
    · subst ha; simp
    · have h1 : (a == q) = false := by simpa using ha
      simp [h1]
  · rw [if_neg h, if_neg h, List.map_append]; rfl

theorem lineOp_aux (P : Pauli) : ∀ (ks acc : List Coord),
    ks.foldl (fun op q => Op.insert op q P) (acc.map (fun k => (k, P))) =
      (appendNew acc ks).map (fun k => (k, P))
  | [], acc => rfl
  | k :: ks, acc => by
    rw [List.foldl_cons, insert_map, lineOp_aux P ks, appendNew_cons]

/-- `operator = dict(); for q in keys: operator[q] = P` for ANY key list -/
theorem lineOp_firstOcc (ks : List Coord) (P : Pauli) :
    lineOp ks P = (firstOcc ks).map (fun k => (k, P)) := by
  unfold lineOp firstOcc
  exact lineOp_aux P ks []

theorem firstOcc_of_nodup : ∀ (ks acc : List Coord), (acc ++ ks).Nodup → appendNew acc ks = acc ++ ks
  | [], acc, _ => by simp [appendNew]
  | k :: ks, acc, h => by
    rw [appendNew_cons]
    have hk : k ∉ acc := by
      intro hk
      rw [List.nodup_append] at h
      exact h.2.2 k hk k (List.mem_cons_self ..) rfl
    have : acc.contains k = false := by simpa using hk
    rw [this]
    simp only [Bool.false_eq_true, if_false]
    rw [firstOcc_of_nodup ks (acc ++ [k]) (by simpa using h)]
    simp

theorem firstOcc_eq_self {ks : List Coord} (h : ks.Nodup) : firstOcc ks = ks := by
  unfold firstOcc
  rw [firstOcc_of_nodup ks [] (by simpa using h)]; simp

/-- anticommutation count of a one-letter dict with (the keys of) a generator: the number of keys
    of the generator that occur in the key list -/
theorem interCount_firstOcc (B ks : List Coord) (hB : B.Nodup) :
    interCount (firstOcc ks) B = B.countP (fun q => decide (q ∈ ks)) := by
  rw [interCount_comm _ _ (nodup_firstOcc ks) hB]
  unfold interCount
  apply List.countP_congr
  intro q _
  simp only [List.contains_eq_mem, decide_eq_true_eq, mem_firstOcc]

/-! ### thin and thick coordinates -/

/-- `t` if `|t| ≤ τ`, else the marker `9` -/
def clamp (τ t : Int) : Int := if -τ ≤ t ∧ t ≤ τ then t else 9

/-- a thin coordinate of a wrapped key: its offset from the constant `v` is the delta minus the
    centred difference, as far as offsets of size `≤ τ` are concerned -/
theorem clamp_wrap {m s v d τ : Int} (hm : 8 ≤ m) (h0 : 0 ≤ τ) (h1 : τ ≤ 1) (hv : τ ≤ v)
    (hv' : v + τ < m) (hd : -2 ≤ d ∧ d ≤ 2) :
    clamp τ ((s + d) % m - v) = clamp τ (d - cd m s v) := by
  unfold clamp
  by_cases hA : -τ ≤ (s + d) % m - v ∧ (s + d) % m - v ≤ τ
  · rw [if_pos hA]
    have e : (s + d) % m = (v + ((s + d) % m - v)) % m := by
      rw [show v + ((s + d) % m - v) = (s + d) % m by omega]
      exact (emod_small (Int.emod_nonneg _ (by omega)) (Int.emod_lt_of_pos _ (by omega))).symm
    have h2 := (cd_iff (a := s) (b := v) (d := d) (e := (s + d) % m - v) hm (by omega) (by omega)).mp e
    rw [h2]
    have : d - (d - ((s + d) % m - v)) = (s + d) % m - v := by omega
    rw [this, if_pos hA]
  · rw [if_neg hA]
    by_cases hB : -τ ≤ d - cd m s v ∧ d - cd m s v ≤ τ
    · exfalso
      apply hA
      have h2 := (cd_iff (a := s) (b := v) (d := d) (e := d - cd m s v) hm (by omega) (by omega)).mpr
        (by omega)
      rw [emod_small (k := v + (d - cd m s v)) (by omega) (by omega)] at h2
      omega
    · rw [if_neg hB]

/-- a thick coordinate of a wrapped key, modulo 8 (the period is a multiple of 8) -/
theorem thick_wrap {m s d : Int} (h8 : 8 ∣ m) : ((s + d) % m) % 8 = (s % 8 + d) % 8 := by
  rw [Int.emod_emod_of_dvd _ h8]; omega

theorem clamp_far (τ d : Int) (h0 : 0 ≤ τ) (h1 : τ ≤ 1) (hd : -2 ≤ d ∧ d ≤ 2) :
    clamp τ (d - 100) = 9 := by
  unfold clamp; rw [if_neg (by omega)]

/-! ### parity of sums -/

theorem sum_even {α} (l : List α) (g : α → Nat) (h : ∀ a ∈ l, g a % 2 = 0) :
    (l.map g).sum % 2 = 0 := by
  induction l with
  | nil => rfl
  | cons a l ih =>
    rw [List.map_cons, List.sum_cons]
    have h1 := h a (List.mem_cons_self ..)
    have h2 := ih (fun b hb => h b (List.mem_cons_of_mem _ hb))
    omega

/-- exactly one term is odd -/
theorem sum_odd_single (l : List Int) (g : Int → Nat) (t0 : Int) (hnd : l.Nodup) (h0 : t0 ∈ l)
    (hodd : g t0 % 2 = 1) (h : ∀ a ∈ l, a ≠ t0 → g a % 2 = 0) : (l.map g).sum % 2 = 1 := by
  induction l with
  | nil => exact absurd h0 (by simp)
  | cons a l ih =>
    rw [List.map_cons, List.sum_cons]
    rw [List.nodup_cons] at hnd
    by_cases ha : a = t0
    · subst ha
      have h2 : (l.map g).sum % 2 = 0 := sum_even l g (fun b hb => h b (List.mem_cons_of_mem _ hb)
        (fun e => hnd.1 (e ▸ hb)))
      omega
    · have h1 := h a (List.mem_cons_self ..) ha
      have h0' : t0 ∈ l := by
        rcases List.mem_cons.mp h0 with e | e
        · exact absurd e.symm ha
        · exact e
      have h2 := ih hnd.2 h0' (fun b hb => h b (List.mem_cons_of_mem _ hb))
      omega

theorem countP_flatMap_sum {α β} (p : β → Bool) (l : List α) (f : α → List β) :
    (l.flatMap f).countP p = (l.map fun a => (f a).countP p).sum := by
  induction l with
  | nil => rfl
  | cons a l ih => rw [List.flatMap_cons, List.countP_append, ih, List.map_cons, List.sum_cons]

end Panqec.Color3DCode
