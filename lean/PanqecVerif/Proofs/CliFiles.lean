/-
Helper lemmas for C19, part 2: the file name is injective in the bias ratio, the loop of
`generate_input` writes one specification per ratio, and the read-back covers codes × rates.
-/
import PanqecVerif.Proofs.CliPlan
import Mathlib.Data.List.ProdSigma
import Mathlib.Data.List.Nodup

namespace Panqec.Cli

/-! ### characters of decimal strings -/

theorem isDigit_digitChar : ∀ d, d < 10 → isDigit (digitChar d) = true := by decide

theorem natStr_all_digits (n : Nat) : ∀ c ∈ natStr n, isDigit c = true := by
  intro c hc
  unfold natStr at hc
  obtain ⟨d, hd, rfl⟩ := List.mem_map.mp hc
  exact isDigit_digitChar d (decDigits_lt_ten n d hd)

theorem natStr_injective {m n : Nat} (h : natStr m = natStr n) : m = n := by
  have := congrArg strVal h
  rwa [strVal_natStr, strVal_natStr] at this

theorem digitChars_injective : ∀ {a b : List Nat}, (∀ d ∈ a, d < 10) → (∀ d ∈ b, d < 10) →
    a.map digitChar = b.map digitChar → a = b := by
  intro a b ha hb h
  have h' := congrArg (List.map charDigit) h
  rw [List.map_map, List.map_map] at h'
  have fix : ∀ l : List Nat, (∀ d ∈ l, d < 10) → l.map (charDigit ∘ digitChar) = l := by
    intro l hl
    induction l with
    | nil => rfl
    | cons x l ih =>
      simp only [List.map_cons, Function.comp]
      rw [charDigit_digitChar x (hl x (by simp)), ih (fun d hd => hl d (by simp [hd]))]
  rwa [fix a ha, fix b hb] at h'

theorem digitChars_all_digits (l : List Nat) (hl : ∀ d ∈ l, d < 10) :
    ∀ c ∈ l.map digitChar, isDigit c = true := by
  intro c hc
  obtain ⟨d, hd, rfl⟩ := List.mem_map.mp hc
  exact isDigit_digitChar d (hl d hd)

/-- splitting at the first separator is unique -/
theorem split_unique {sep : Char} : ∀ {a a' b b' : List Char}, sep ∉ a → sep ∉ a' →
    a ++ sep :: b = a' ++ sep :: b' → a = a' ∧ b = b' := by
  intro a
  induction a with
  | nil =>
    intro a' b b' _ ha' h
    cases a' with
    | nil => simp at h; exact ⟨rfl, h⟩
    | cons x xs =>
      simp only [List.nil_append, List.cons_append, List.cons.injEq] at h
      exact absurd (by simp [h.1]) ha'
  | cons x xs ih =>
    intro a' b b' ha ha' h
    cases a' with
    | nil =>
      simp only [List.nil_append, List.cons_append, List.cons.injEq] at h
      exact absurd (by simp [h.1]) ha
    | cons y ys =>
      simp only [List.cons_append, List.cons.injEq] at h
      have hx : sep ∉ xs := fun hm => ha (List.mem_cons_of_mem _ hm)
      have hy : sep ∉ ys := fun hm => ha' (List.mem_cons_of_mem _ hm)
      obtain ⟨h1, h2⟩ := ih hx hy h.2
      exact ⟨by rw [h.1, h1], h2⟩

/-! ### `str(eta)` is injective -/

/-- bias ratios as `read_bias_ratios` produces them: fractional digits are digits -/
def Eta.WF : Eta → Prop
  | .flt _ _ fd => ∀ d ∈ fd, d < 10
  | _ => True

theorem not_digit_dash : isDigit '-' = false := by decide
theorem not_digit_dot : isDigit '.' = false := by decide
theorem not_digit_i : isDigit 'i' = false := by decide

theorem dash_not_in_natStr (n : Nat) : '-' ∉ natStr n := by
  intro h; have := natStr_all_digits n _ h; simp [not_digit_dash] at this

theorem dot_not_in_natStr (n : Nat) : '.' ∉ natStr n := by
  intro h; have := natStr_all_digits n _ h; simp [not_digit_dot] at this

theorem i_not_in_natStr (n : Nat) : 'i' ∉ natStr n := by
  intro h; have := natStr_all_digits n _ h; simp [not_digit_i] at this

/-- the unsigned body `<int>.<frac>` of a float -/
def fltBody (ip : Nat) (fd : List Nat) : List Char := natStr ip ++ '.' :: fd.map digitChar

theorem fltBody_injective {ip ip' : Nat} {fd fd' : List Nat} (h1 : ∀ d ∈ fd, d < 10)
    (h2 : ∀ d ∈ fd', d < 10) (h : fltBody ip fd = fltBody ip' fd') : ip = ip' ∧ fd = fd' := by
  obtain ⟨ha, hb⟩ := split_unique (dot_not_in_natStr ip) (dot_not_in_natStr ip') h
  exact ⟨natStr_injective ha, digitChars_injective h1 h2 hb⟩

theorem dash_not_in_fltBody (ip : Nat) (fd : List Nat) (h : ∀ d ∈ fd, d < 10) :
    '-' ∉ fltBody ip fd := by
  intro hm
  unfold fltBody at hm
  rcases List.mem_append.mp hm with hm | hm
  · exact dash_not_in_natStr ip hm
  · rcases List.mem_cons.mp hm with hm | hm
    · exact absurd hm (by decide)
    · have := digitChars_all_digits fd h _ hm; simp [not_digit_dash] at this

theorem i_not_in_fltBody (ip : Nat) (fd : List Nat) (h : ∀ d ∈ fd, d < 10) :
    'i' ∉ fltBody ip fd := by
  intro hm
  unfold fltBody at hm
  rcases List.mem_append.mp hm with hm | hm
  · exact i_not_in_natStr ip hm
  · rcases List.mem_cons.mp hm with hm | hm
    · exact absurd hm (by decide)
    · have := digitChars_all_digits fd h _ hm; simp [not_digit_i] at this

theorem dot_in_fltBody (ip : Nat) (fd : List Nat) : '.' ∈ fltBody ip fd := by
  unfold fltBody; simp

/-- signed rendering: `'-' :: body` or `body` -/
def signed (neg : Bool) (body : List Char) : List Char := if neg then '-' :: body else body

theorem signed_injective {n n' : Bool} {b b' : List Char} (hb : '-' ∉ b) (hb' : '-' ∉ b')
    (h : signed n b = signed n' b') : n = n' ∧ b = b' := by
  unfold signed at h
  cases n <;> cases n' <;> simp at h
  · exact ⟨rfl, h⟩
  · exact absurd (by rw [h]; simp) hb
  · exact absurd (by rw [← h]; simp) hb'
  · exact ⟨rfl, h⟩

theorem Eta.str_int (v : Int) : (Eta.int v).str = signed (decide (v < 0)) (natStr v.natAbs) := by
  unfold Eta.str signed
  by_cases h : v < 0 <;> simp [h]

theorem Eta.str_flt (neg : Bool) (ip : Nat) (fd : List Nat) :
    (Eta.flt neg ip fd).str = signed neg (fltBody ip fd) := by
  unfold Eta.str signed fltBody
  cases neg <;> simp

theorem mem_signed {c : Char} {n : Bool} {b : List Char} (h : c ∈ signed n b) : c = '-' ∨ c ∈ b := by
  unfold signed at h
  cases n <;> simp at h
  · exact Or.inr h
  · exact h

theorem mem_signed_of_mem {c : Char} {n : Bool} {b : List Char} (h : c ∈ b) : c ∈ signed n b := by
  unfold signed; cases n <;> simp [h]

theorem Eta.str_injective {e1 e2 : Eta} (h1 : e1.WF) (h2 : e2.WF) (h : e1.str = e2.str) :
    e1 = e2 := by
  cases e1 with
  | inf =>
    cases e2 with
    | inf => rfl
    | int v =>
      rw [Eta.str_int] at h
      have : 'i' ∈ signed (decide (v < 0)) (natStr v.natAbs) := by rw [← h]; simp [Eta.str]
      rcases mem_signed this with h' | h'
      · exact absurd h' (by decide)
      · exact absurd h' (i_not_in_natStr _)
    | flt neg ip fd =>
      rw [Eta.str_flt] at h
      have : 'i' ∈ signed neg (fltBody ip fd) := by rw [← h]; simp [Eta.str]
      rcases mem_signed this with h' | h'
      · exact absurd h' (by decide)
      · exact absurd h' (i_not_in_fltBody ip fd h2)
  | int v =>
    cases e2 with
    | inf =>
      rw [Eta.str_int] at h
      have : 'i' ∈ signed (decide (v < 0)) (natStr v.natAbs) := by rw [h]; simp [Eta.str]
      rcases mem_signed this with h' | h'
      · exact absurd h' (by decide)
      · exact absurd h' (i_not_in_natStr _)
    | int w =>
      rw [Eta.str_int, Eta.str_int] at h
      obtain ⟨hs, hb⟩ := signed_injective (dash_not_in_natStr _) (dash_not_in_natStr _) h
      have hab := natStr_injective hb
      have hs' : (v < 0) ↔ (w < 0) := by simpa using hs
      congr 1
      omega
    | flt neg ip fd =>
      rw [Eta.str_int, Eta.str_flt] at h
      have : '.' ∈ signed (decide (v < 0)) (natStr v.natAbs) := by
        rw [h]; exact mem_signed_of_mem (dot_in_fltBody ip fd)
      rcases mem_signed this with h' | h'
      · exact absurd h' (by decide)
      · exact absurd h' (dot_not_in_natStr _)
  | flt neg ip fd =>
    cases e2 with
    | inf =>
      rw [Eta.str_flt] at h
      have : 'i' ∈ signed neg (fltBody ip fd) := by rw [h]; simp [Eta.str]
      rcases mem_signed this with h' | h'
      · exact absurd h' (by decide)
      · exact absurd h' (i_not_in_fltBody ip fd h1)
    | int v =>
      rw [Eta.str_int, Eta.str_flt] at h
      have : '.' ∈ signed (decide (v < 0)) (natStr v.natAbs) := by
        rw [← h]; exact mem_signed_of_mem (dot_in_fltBody ip fd)
      rcases mem_signed this with h' | h'
      · exact absurd h' (by decide)
      · exact absurd h' (dot_not_in_natStr _)
    | flt neg' ip' fd' =>
      rw [Eta.str_flt, Eta.str_flt] at h
      obtain ⟨hs, hb⟩ := signed_injective (dash_not_in_fltBody ip fd h1)
        (dash_not_in_fltBody ip' fd' h2) h
      obtain ⟨hi, hf⟩ := fltBody_injective h1 h2 hb
      rw [hs, hi, hf]

/-- with several ratios the file name determines the ratio -/
theorem fileName_injective {label : List Char} {n : Nat} (hn : 1 < n) {e1 e2 : Eta}
    (h1 : e1.WF) (h2 : e2.WF) (h : fileName label n e1 = fileName label n e2) : e1 = e2 := by
  unfold fileName at h
  simp only [hn, if_true] at h
  have h' := List.append_cancel_right h
  rw [List.append_assoc, List.append_assoc] at h'
  exact Eta.str_injective h1 h2 (List.append_cancel_left (List.append_cancel_left h'))

/-! ### what `read_bias_ratios` returns is well formed -/

theorem stripTrailingZeros_subset (ds : List Nat) : ∀ d ∈ stripTrailingZeros ds, d ∈ ds := by
  intro d hd
  unfold stripTrailingZeros at hd
  have h1 := List.mem_reverse.mp hd
  have h2 := (List.dropWhile_sublist _).subset h1
  exact List.mem_reverse.mp h2

theorem charDigit_lt_of_isDigit : ∀ c : Char, isDigit c = true → charDigit c < 10 := by
  intro c h
  unfold isDigit at h
  unfold charDigit
  simp only [Bool.and_eq_true, decide_eq_true_eq] at h
  have h1 : '0'.toNat ≤ c.toNat := h.1
  have h2 : c.toNat ≤ '9'.toNat := h.2
  have e0 : '0'.toNat = 48 := by decide
  have e9 : '9'.toNat = 57 := by decide
  omega

theorem parseBody_frac_digits {n hs : Bool} {b : List Char} {d : DecLit}
    (h : parseBody n hs b = some d) : ∀ x ∈ d.fracDigits, x < 10 := by
  unfold parseBody at h
  split at h
  · split at h
    · exact absurd h (by simp)
    · simp only [Option.some.injEq] at h; subst h; simp
  · rename_i fr _
    split at h
    · rename_i hall
      simp only [Option.some.injEq] at h; subst h
      intro x hx
      obtain ⟨c, hc, rfl⟩ := List.mem_map.mp hx
      simp only [Bool.and_eq_true, List.all_eq_true] at hall
      exact charDigit_lt_of_isDigit c (hall.1 c hc)
    · exact absurd h (by simp)
  · exact absurd h (by simp)

theorem parseDecLit_frac_digits {s : List Char} {d : DecLit} (h : parseDecLit s = some d) :
    ∀ x ∈ d.fracDigits, x < 10 := by
  unfold parseDecLit at h
  split at h <;> exact parseBody_frac_digits h

theorem parseEta_wf {tok : List Char} {e : Eta} (h : parseEta tok = .ok e) : e.WF := by
  unfold parseEta at h
  simp only at h
  split at h
  · cases h; trivial
  · split at h
    · exact absurd h (by simp)
    · rename_i d hd
      split at h
      · split at h
        · exact absurd h (by simp)
        · cases h; trivial
      · cases h
        intro x hx
        exact parseDecLit_frac_digits hd x (stripTrailingZeros_subset _ x hx)

/-! ### the loop of `generate_input` -/

theorem writeAll_ok (a : GenArgs) (rates : List Rat) (n : Nat) (spec : Eta → InputSpec) :
    ∀ etas : List Eta, (∀ e ∈ etas, specFor a rates e = .ok (spec e)) →
      writeAll a rates n etas = (etas.map fun e => (fileName (spec e).label n e, spec e), none) := by
  intro etas
  induction etas with
  | nil => intro _; rfl
  | cons e rest ih =>
    intro h
    unfold writeAll
    rw [h e (by simp), ih (fun e' he' => h e' (by simp [he']))]
    rfl

/-- a later write only replaces a file of the same name: with pairwise distinct names every
    write survives -/
theorem finalFiles_of_nodup : ∀ ws : List (List Char × InputSpec), (ws.map (·.1)).Nodup →
    finalFiles ws = ws := by
  intro ws
  induction ws with
  | nil => intro _; rfl
  | cons w rest ih =>
    intro h
    obtain ⟨n, s⟩ := w
    rw [List.map_cons, List.nodup_cons] at h
    unfold finalFiles
    have : rest.any (fun p => p.1 == n) = false := by
      rw [Bool.eq_false_iff]
      intro hany
      rw [List.any_eq_true] at hany
      obtain ⟨p, hp, hpn⟩ := hany
      have : p.1 = n := by simpa using hpn
      exact h.1 (by rw [← this]; exact List.mem_map.mpr ⟨p, hp, rfl⟩)
    simp only [this, Bool.false_eq_true, if_false]
    rw [ih h.2]

/-- names are always a subset of the names written -/
theorem finalFiles_names_nodup : ∀ ws : List (List Char × InputSpec),
    ((finalFiles ws).map (·.1)).Nodup ∧ ∀ p ∈ finalFiles ws, p ∈ ws := by
  intro ws
  induction ws with
  | nil => exact ⟨List.nodup_nil, fun _ h => h⟩
  | cons w rest ih =>
    obtain ⟨n, s⟩ := w
    unfold finalFiles
    by_cases hany : rest.any (fun p => p.1 == n) = true
    · simp only [hany, if_true]
      exact ⟨ih.1, fun p hp => List.mem_cons_of_mem _ (ih.2 p hp)⟩
    · simp only [hany, Bool.false_eq_true, if_false]
      refine ⟨?_, ?_⟩
      · rw [List.map_cons, List.nodup_cons]
        refine ⟨?_, ih.1⟩
        intro hmem
        obtain ⟨p, hp, hpn⟩ := List.mem_map.mp hmem
        apply hany
        rw [List.any_eq_true]
        exact ⟨p, ih.2 p hp, by simpa using hpn⟩
      · intro p hp
        rcases List.mem_cons.mp hp with hp | hp
        · rw [hp]; simp
        · exact List.mem_cons_of_mem _ (ih.2 p hp)

/-! ### read-back -/

theorem flatMap_singletons {α β : Type} (c : α) (rates : List β) :
    (rates.map fun r => (c, [r])).flatMap (fun s => s.2.map fun r => (s.1, r)) =
      rates.map (Prod.mk c) := by
  induction rates with
  | nil => rfl
  | cons r rs ih => simp only [List.map_cons, List.flatMap_cons, ih]; rfl

theorem coveredPairs_direct {α β : Type} (codes : List α) (rates : List β) :
    (codes.flatMap fun c => rates.map fun r => (c, [r])).flatMap
        (fun s => s.2.map fun r => (s.1, r)) = codes.product rates := by
  unfold List.product
  induction codes with
  | nil => rfl
  | cons c cs ih =>
    simp only [List.flatMap_cons, List.flatMap_append, ih, flatMap_singletons]

theorem coveredPairs_splitting {α β : Type} (codes : List α) (rates : List β) :
    (codes.map fun c => (c, rates)).flatMap (fun s => s.2.map fun r => (s.1, r)) =
      codes.product rates := by
  unfold List.product
  induction codes with
  | nil => rfl
  | cons c cs ih => simp only [List.map_cons, List.flatMap_cons, ih]

theorem length_flatMap_map {α β γ : Type} (codes : List α) (rates : List β) (f : α → β → γ) :
    (codes.flatMap fun c => rates.map fun r => f c r).length = codes.length * rates.length := by
  induction codes with
  | nil => simp
  | cons c cs ih =>
    rw [List.flatMap_cons, List.length_append, ih, List.length_map, List.length_cons,
      Nat.succ_mul, Nat.add_comm]

theorem parametersRange_length {α : Type} (l : List α) (h : l ≠ []) :
    (parametersRange l).length = l.length := by
  unfold parametersRange
  cases l with
  | nil => exact absurd rfl h
  | cons a l => simp

theorem parametersRange_nodup {α : Type} (l : List α) (h : l.Nodup) :
    (parametersRange l).Nodup := by
  unfold parametersRange
  cases l with
  | nil => simp
  | cons a l =>
    simp only [List.isEmpty_cons, Bool.false_eq_true, if_false]
    exact h.map (fun _ _ hab => Option.some.inj hab)

end Panqec.Cli
