/-
`HollowRhombicCode`, rank clause, part O: `rankFamily` has `n − 1` members for the sizes with
`Lz ≥ 5` whose hole is one layer thin in `x` or in `y` and that are not deficient:
`(3, Ly, 5)`, `(3, 4, Lz)`, `(3, 5, Lz)`, `(4, 4, Lz)`, `(Lx, 4, 5)`.  In these sizes every box count that
depends on the parity of `Lz` is multiplied by `Lx − 3 = 0` or `Ly − 4 = 0`, and the remaining
counts are linear in the free side.
-/
import PanqecVerif.Proofs.LatHollowRhombicCodeRankN

set_option linter.unusedVariables false
set_option linter.unusedSimpArgs false
set_option linter.unnecessarySeqFocus false

namespace Panqec.HollowRhombicCode
open Panqec.Lat3Db Panqec.Rhombic

theorem half_zero (e : Bool) : half 0 e = 0 := by cases e <;> rfl

/-- the three counting equations of a size with `Lx ≥ 3`, `Ly ≥ 4`, `Lz ≥ 5` -/
theorem raw_eqs {Lx Ly Lz : Nat} (hx : 3 ≤ Lx) (hy : 4 ≤ Ly) (hz : 5 ≤ Lz) :
    ∃ C T N : Nat, (rankFamily Lx Ly Lz).length = C + T ∧ (qubits Lx Ly Lz).length = N ∧
    C + half ((Lx - 4) * ((Ly - 5) * (Lz - 5))) false = half (Lx * ((Ly + 1) * (Lz - 1))) true ∧
    T + ((Lx - 3) * (Ly - 4) * (Lz - 4) + (1 * (Ly - 4) * (Lz - 4) + ((Lx - 3) * 1 * (Lz - 4) +
        (half ((Lx - 3) * ((Ly - 4) * 1)) true +
         half ((Lx - 3) * ((Ly - 4) * 1)) (((4 : Int) + 4 + (2 * (Lz : Int) - 4)) % 4 == 0)))) +
      ((Lx - 3) * (Ly - 4) * (Lz - 4) + (1 * (Ly - 4) * (Lz - 4) + ((Lx - 3) * 1 * (Lz - 4) +
        (half ((Lx - 3) * ((Ly - 4) * 1)) true +
         half ((Lx - 3) * ((Ly - 4) * 1)) (((4 : Int) + 4 + (2 * (Lz : Int) - 4)) % 4 == 0)))) +
      (half ((Lx - 3) * ((Ly - 4) * (Lz - 4))) false + (half (1 * ((Ly - 4) * (Lz - 4))) true +
        (half ((Lx - 3) * (1 * (Lz - 4))) true +
         half ((Lx - 3) * ((Ly - 4) * 1)) (((4 : Int) + 4 + (2 * (Lz : Int) - 4)) % 4 == 2)))))) =
      (Lx - 1) * (Ly - 1) * Lz + ((Lx - 1) * (Ly - 1) * Lz +
      (((Lx - 1) * 1 * Lz + ((Lx - 3) * 1 * (Lz - 4) + (1 * (Ly - 4) * (Lz - 4) +
        (half ((Lx - 3) * ((Ly - 4) * 1)) true +
         half ((Lx - 3) * ((Ly - 4) * 1)) (((4 : Int) + 4 + (2 * (Lz : Int) - 4)) % 4 == 0))))) +
      (1 * (Ly - 1) * Lz + (half ((Lx - 2) * ((Ly - 1) * (Lz - 1))) false +
        (half (1 * ((Ly - 4) * 1)) true + (half ((Lx - 3) * (1 * 1)) true + qn Lx Ly Lz)))))) ∧
    N + ((Lx - 2) * (Ly - 4) * (Lz - 4) + (Lx - 3) * (Ly - 3) * (Lz - 4) +
      (Lx - 3) * (Ly - 4) * (Lz - 3)) =
      Lx * Ly * Lz + (Lx - 1) * (Ly - 1) * Lz + (Lx - 1) * Ly * (Lz - 1) := by
  have h1 := cubes_count Lx Ly Lz
  have h2 := selTriangles_partition hx hy hz
  have h3 := qubits_length_add Lx Ly Lz
  rw [length_L3, length_L2, length_L1, length_L0, length_LB0, length_bx_tt, length_bx_tt] at h2
  refine ⟨_, _, _, ?_, rfl, h1, h2, h3⟩
  unfold rankFamily
  rw [List.length_append]

/-- `(3, Ly, 5)`, `Ly ≥ 4` -/
theorem count_3_L_5 (Ly : Nat) (hy : 4 ≤ Ly) :
    (rankFamily 3 Ly 5).length + 1 = (qubits 3 Ly 5).length := by
  obtain ⟨C, T, N, e1, e2, h1, h2, h3⟩ := raw_eqs (Lx := 3) (Ly := Ly) (Lz := 5) (by decide) hy (by decide)
  rw [e1, e2]
  have hq : qn 3 Ly 5 = 0 := by unfold qn; simp
  rw [hq] at h2
  simp only [Nat.reduceSub, Nat.reduceMul, Nat.reduceAdd, Nat.zero_mul, Nat.mul_zero, Nat.one_mul,
    Nat.mul_one, Nat.add_zero, Nat.zero_add, half_zero] at h1 h2 h3
  unfold half at h1 h2
  simp only [if_true, Bool.false_eq_true, if_false] at h1 h2
  omega

/-- `(3, 4, Lz)`, `Lz ≥ 5` -/
theorem count_3_4_L (Lz : Nat) (hz : 5 ≤ Lz) :
    (rankFamily 3 4 Lz).length + 1 = (qubits 3 4 Lz).length := by
  obtain ⟨C, T, N, e1, e2, h1, h2, h3⟩ := raw_eqs (Lx := 3) (Ly := 4) (Lz := Lz) (by decide) (by decide) hz
  rw [e1, e2]
  have hq : qn 3 4 Lz = 0 := by unfold qn; simp
  rw [hq] at h2
  simp only [Nat.reduceSub, Nat.reduceMul, Nat.reduceAdd, Nat.zero_mul, Nat.mul_zero, Nat.one_mul,
    Nat.mul_one, Nat.add_zero, Nat.zero_add, half_zero] at h1 h2 h3
  unfold half at h1 h2
  simp only [if_true, Bool.false_eq_true, if_false] at h1 h2
  omega

/-- `(3, 5, Lz)`, `Lz ≥ 5` -/
theorem count_3_5_L (Lz : Nat) (hz : 5 ≤ Lz) :
    (rankFamily 3 5 Lz).length + 1 = (qubits 3 5 Lz).length := by
  obtain ⟨C, T, N, e1, e2, h1, h2, h3⟩ := raw_eqs (Lx := 3) (Ly := 5) (Lz := Lz) (by decide) (by decide) hz
  rw [e1, e2]
  have hq : qn 3 5 Lz = (Lz - 5) / 2 := by unfold qn; simp
  rw [hq] at h2
  simp only [Nat.reduceSub, Nat.reduceMul, Nat.reduceAdd, Nat.zero_mul, Nat.mul_zero, Nat.one_mul,
    Nat.mul_one, Nat.add_zero, Nat.zero_add, half_zero] at h1 h2 h3
  unfold half at h1 h2
  simp only [if_true, Bool.false_eq_true, if_false] at h1 h2
  omega

/-- `(4, 4, Lz)`, `Lz ≥ 5` -/
theorem count_4_4_L (Lz : Nat) (hz : 5 ≤ Lz) :
    (rankFamily 4 4 Lz).length + 1 = (qubits 4 4 Lz).length := by
  obtain ⟨C, T, N, e1, e2, h1, h2, h3⟩ := raw_eqs (Lx := 4) (Ly := 4) (Lz := Lz) (by decide) (by decide) hz
  rw [e1, e2]
  have hq : qn 4 4 Lz = (Lz - 5) / 2 := by unfold qn; simp
  rw [hq] at h2
  simp only [Nat.reduceSub, Nat.reduceMul, Nat.reduceAdd, Nat.zero_mul, Nat.mul_zero, Nat.one_mul,
    Nat.mul_one, Nat.add_zero, Nat.zero_add, half_zero] at h1 h2 h3
  unfold half at h1 h2
  simp only [if_true, Bool.false_eq_true, if_false] at h1 h2
  omega

/-- `(Lx, 4, 5)`, `Lx ≥ 4` -/
theorem count_L_4_5 (Lx : Nat) (hx : 4 ≤ Lx) :
    (rankFamily Lx 4 5).length + 1 = (qubits Lx 4 5).length := by
  obtain ⟨C, T, N, e1, e2, h1, h2, h3⟩ := raw_eqs (Lx := Lx) (Ly := 4) (Lz := 5) (by omega) (by decide) (by decide)
  rw [e1, e2]
  have hq : qn Lx 4 5 = 0 := by unfold qn; simp
  rw [hq] at h2
  simp only [Nat.reduceSub, Nat.reduceMul, Nat.reduceAdd, Nat.zero_mul, Nat.mul_zero, Nat.one_mul,
    Nat.mul_one, Nat.add_zero, Nat.zero_add, half_zero] at h1 h2 h3
  unfold half at h1 h2
  simp only [if_true, Bool.false_eq_true, if_false] at h1 h2
  omega

end Panqec.HollowRhombicCode
