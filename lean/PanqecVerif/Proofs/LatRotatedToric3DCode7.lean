/-
`RotatedToric3DCode`: the logical operators.  A comprehension over `qubit_coordinates` is the
constant-letter operator on the filtered qubit list (`LK`), `_deform_operator` changes nothing (a
location cannot have `x == 2*Lx` and `x == 1` at once), so `get_logicals_x` / `get_logicals_z` are
lists of one or two line / plane operators depending on the parities of `Lx`, `Ly`.
-/
import PanqecVerif.Proofs.LatRotatedToric3DCode6
open Panqec Panqec.Lat3Db
namespace Panqec.RotatedToric3DCode

set_option linter.unusedVariables false
set_option linter.unusedSimpArgs false

/-- the filter of a comprehension as a predicate on locations -/
def flt (f : Int → Int → Int → Bool) : Coord → Bool
  | [x, y, z] => f x y z
  | _ => false

/-- key list of `{(x, y, z): p for x, y, z in self.qubit_coordinates if f(x, y, z)}` -/
def LK (Lx Ly Lz : Nat) (f : Int → Int → Int → Bool) : List Coord :=
  (qubits Lx Ly Lz).filter (flt f)

theorem LK_nodup (Lx Ly Lz : Nat) (f : Int → Int → Int → Bool) : (LK Lx Ly Lz f).Nodup :=
  (qubits_nodup Lx Ly Lz).filter _

theorem LK_sub {Lx Ly Lz : Nat} {f : Int → Int → Int → Bool} {q : Coord} (h : q ∈ LK Lx Ly Lz f) :
    q ∈ qubits Lx Ly Lz := (List.mem_filter.mp h).1

theorem mem_LK {Lx Ly Lz : Nat} {f : Int → Int → Int → Bool} {x y z : Int} :
    [x, y, z] ∈ LK Lx Ly Lz f ↔ [x, y, z] ∈ qubits Lx Ly Lz ∧ f x y z = true := by
  unfold LK; rw [List.mem_filter]; rfl

theorem comprehension_eq (Lx Ly Lz : Nat) (f : Int → Int → Int → Bool) (p : Pauli) :
    comprehension Lx Ly Lz f p = constOp (LK Lx Ly Lz f) p := by
  unfold comprehension
  exact dictOf_eq _ _ (LK_nodup Lx Ly Lz f)

theorem deformOperator_id {Lx Ly : Nat} (hLx : 1 ≤ Lx) (hLy : 1 ≤ Ly) (op : Op) :
    deformOperator Lx Ly op = op := by
  unfold deformOperator
  conv => rhs; rw [← List.map_id op]
  apply List.map_congr_left
  intro e _
  rcases e with ⟨k, p⟩
  simp only [id]
  split
  · rename_i x y _ hk
    have h1 : ((onDefectBoundary Lx Ly x y).1 && x == 1) = false := by
      unfold onDefectBoundary
      by_cases hx : x = 1
      · have : ¬ (x = 2 * (Lx : Int)) := by omega
        simp [this]
      · simp [hx]
    have h2 : ((onDefectBoundary Lx Ly x y).2 && y == 1) = false := by
      unfold onDefectBoundary
      by_cases hy : y = 1
      · have : ¬ (y = 2 * (Ly : Int)) := by omega
        simp [this]
      · simp [hy]
    rw [h1, h2]; rfl
  · rfl

/-! ### the named filters -/

/-- `y == 1 and z == 1` -/
def fXy : Int → Int → Int → Bool := fun _ y z => y == 1 && z == 1
/-- `x == 1 and z == 1` -/
def fXx : Int → Int → Int → Bool := fun x _ z => x == 1 && z == 1
/-- `x == 1` -/
def fZx : Int → Int → Int → Bool := fun x _ _ => x == 1
/-- `y == 1` -/
def fZy : Int → Int → Int → Bool := fun _ y _ => y == 1
/-- `(Lx % 2 == 1 and y == 1) or (Ly % 2 == 1 and x == 1)` -/
def fY (Lx Ly : Nat) : Int → Int → Int → Bool :=
  fun x y _ => (Lx % 2 == 1 && y == 1) || (Ly % 2 == 1 && x == 1)

section forms
variable {Lx Ly Lz : Nat}

theorem logX_EE (hLx : 1 ≤ Lx) (hLy : 1 ≤ Ly) (hx : Lx % 2 = 0) (hy : Ly % 2 = 0) :
    logX Lx Ly Lz = [constOp (LK Lx Ly Lz fXy) .X, constOp (LK Lx Ly Lz fXx) .X] := by
  unfold logX
  simp only [hx, hy, beq_self_eq_true, Bool.and_self, if_true, deformOperator_id hLx hLy,
    comprehension_eq]
  rfl

theorem logZ_EE (hx : Lx % 2 = 0) (hy : Ly % 2 = 0) :
    logZ Lx Ly Lz = [constOp (LK Lx Ly Lz fZx) .Z, constOp (LK Lx Ly Lz fZy) .Z] := by
  unfold logZ
  simp only [hx, hy, beq_self_eq_true, Bool.and_self, if_true, comprehension_eq]
  rfl

theorem logX_OE (hLx : 1 ≤ Lx) (hLy : 1 ≤ Ly) (hx : Lx % 2 = 1) (hy : Ly % 2 = 0) :
    logX Lx Ly Lz = [constOp (LK Lx Ly Lz fXx) .X] := by
  unfold logX
  have e1 : (Lx % 2 == 0) = false := by simp [hx]
  have e2 : (Ly % 2 == 1) = false := by simp [hy]
  have e3 : (Lx % 2 == 1) = true := by simp [hx]
  simp only [e1, e2, e3, Bool.false_and, Bool.and_false, Bool.false_eq_true, if_false, if_true,
    deformOperator_id hLx hLy, comprehension_eq]
  rfl

theorem logX_EO (hLx : 1 ≤ Lx) (hLy : 1 ≤ Ly) (hx : Lx % 2 = 0) (hy : Ly % 2 = 1) :
    logX Lx Ly Lz = [constOp (LK Lx Ly Lz fXy) .X] := by
  unfold logX
  have e1 : (Ly % 2 == 0) = false := by simp [hy]
  have e2 : (Lx % 2 == 1) = false := by simp [hx]
  simp only [e1, e2, Bool.false_and, Bool.and_false, Bool.false_eq_true, if_false,
    deformOperator_id hLx hLy, comprehension_eq]
  rfl

theorem logZ_odd (h : ¬ (Lx % 2 = 0 ∧ Ly % 2 = 0)) (hfam : ¬ (Lx % 2 = 1 ∧ Ly % 2 = 1)) :
    logZ Lx Ly Lz = [constOp (LK Lx Ly Lz (fY Lx Ly)) .Y] := by
  unfold logZ
  have e1 : (Lx % 2 == 0 && Ly % 2 == 0) = false := by
    rw [Bool.and_eq_false_iff]
    by_cases hx : Lx % 2 = 0
    · right; have : ¬ Ly % 2 = 0 := fun hy => h ⟨hx, hy⟩
      simpa using this
    · left; simpa using hx
  have e2 : (Lx % 2 == 1 && Ly % 2 == 1) = false := by
    rw [Bool.and_eq_false_iff]
    by_cases hx : Lx % 2 = 1
    · right; have : ¬ Ly % 2 = 1 := fun hy => hfam ⟨hx, hy⟩
      simpa using this
    · left; simpa using hx
  simp only [e1, e2, Bool.false_eq_true, if_false, comprehension_eq]
  rfl

end forms

/-- every logical operator of the supported family is a constant-letter operator on a filtered
    qubit list, with a letter other than I -/
theorem logical_form {Lx Ly Lz : Nat} (hF : Fam Lx Ly) {a : Op}
    (ha : a ∈ logX Lx Ly Lz ++ logZ Lx Ly Lz) :
    ∃ f p, a = constOp (LK Lx Ly Lz f) p ∧ p ≠ Pauli.I := by
  obtain ⟨hLx, hLy, hfam⟩ := hF
  have h1x : 1 ≤ Lx := by omega
  have h1y : 1 ≤ Ly := by omega
  by_cases hx : Lx % 2 = 0
  · by_cases hy : Ly % 2 = 0
    · rw [logX_EE h1x h1y hx hy, logZ_EE hx hy] at ha
      simp only [List.cons_append, List.nil_append, List.mem_cons, List.not_mem_nil,
        or_false] at ha
      rcases ha with rfl | rfl | rfl | rfl <;> exact ⟨_, _, rfl, by decide⟩
    · have hy1 : Ly % 2 = 1 := by omega
      rw [logX_EO h1x h1y hx hy1, logZ_odd (fun h => hy h.2) hfam] at ha
      simp only [List.cons_append, List.nil_append, List.mem_cons, List.not_mem_nil,
        or_false] at ha
      rcases ha with rfl | rfl <;> exact ⟨_, _, rfl, by decide⟩
  · have hx1 : Lx % 2 = 1 := by omega
    have hy : Ly % 2 = 0 := by omega
    rw [logX_OE h1x h1y hx1 hy, logZ_odd (fun h => hx h.1) hfam] at ha
    simp only [List.cons_append, List.nil_append, List.mem_cons, List.not_mem_nil,
      or_false] at ha
    rcases ha with rfl | rfl <;> exact ⟨_, _, rfl, by decide⟩

end Panqec.RotatedToric3DCode
