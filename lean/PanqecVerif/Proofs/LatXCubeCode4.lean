/-
XCubeCode lattice model: every stabilizer is a constant-letter operator on a distinct list of
qubits; all pairs of stabilizers commute.  Sizes ≥ 2.
-/
import PanqecVerif.Proofs.LatXCubeCode3
open Panqec Panqec.Lat3Db
namespace Panqec.XCubeCode

/-- key list of a cube operator -/
def IsCubeKeys (Lx Ly Lz : Nat) (k : List Coord) : Prop :=
  ∃ x y z, SC Lx Ly Lz x y z ∧ k = cubeLocs Lx Ly Lz x y z

/-- key list of a vertex operator (any axis) -/
def IsFaceKeys (Lx Ly Lz : Nat) (k : List Coord) : Prop :=
  ∃ x y z, SVx Lx Ly Lz x y z ∧
    (k = faceLocsX Lx Ly Lz x y z ∨ k = faceLocsY Lx Ly Lz x y z ∨ k = faceLocsZ Lx Ly Lz x y z)

section
variable {Lx Ly Lz : Nat} (hx : 2 ≤ Lx) (hy : 2 ≤ Ly) (hz : 2 ≤ Lz)
include hx hy hz

theorem IsCubeKeys.nodup {k : List Coord} (h : IsCubeKeys Lx Ly Lz k) : k.Nodup := by
  obtain ⟨x, y, z, hc, rfl⟩ := h
  exact nodup_cubeLocs Lx Ly Lz x y z hx hy hz hc

theorem IsFaceKeys.nodup {k : List Coord} (h : IsFaceKeys Lx Ly Lz k) : k.Nodup := by
  obtain ⟨x, y, z, hv, rfl | rfl | rfl⟩ := h
  · exact nodup_faceLocsX Lx Ly Lz x y z hy hz hv
  · exact nodup_faceLocsY Lx Ly Lz x y z hx hz hv
  · exact nodup_faceLocsZ Lx Ly Lz x y z hx hy hv

theorem getStab_cases (s : Coord) (hs : s ∈ stabs Lx Ly Lz) :
    (∃ k, IsCubeKeys Lx Ly Lz k ∧ getStab Lx Ly Lz s = constOp k Pauli.Z) ∨
    (∃ k, IsFaceKeys Lx Ly Lz k ∧ getStab Lx Ly Lz s = constOp k Pauli.X) := by
  rcases mem_stabs_shape Lx Ly Lz s hs with ⟨x, y, z, rfl⟩ | ⟨ax, x, y, z, rfl⟩
  · have h := (mem_stabs_cube Lx Ly Lz x y z).mp hs
    exact Or.inl ⟨_, ⟨x, y, z, h, rfl⟩, getStab_cube Lx Ly Lz x y z hx hy hz h⟩
  · obtain ⟨ha, h⟩ := (mem_stabs_face Lx Ly Lz ax x y z).mp hs
    rcases ha with rfl | rfl | rfl
    · exact Or.inr ⟨_, ⟨x, y, z, h, Or.inl rfl⟩, getStab_faceX Lx Ly Lz x y z hy hz h⟩
    · exact Or.inr ⟨_, ⟨x, y, z, h, Or.inr (Or.inl rfl)⟩, getStab_faceY Lx Ly Lz x y z hx hz h⟩
    · exact Or.inr ⟨_, ⟨x, y, z, h, Or.inr (Or.inr rfl)⟩, getStab_faceZ Lx Ly Lz x y z hx hy h⟩

theorem face_cube_even {kf kc : List Coord} (hf : IsFaceKeys Lx Ly Lz kf) (hc : IsCubeKeys Lx Ly Lz kc) :
    ovl kf kc % 2 = 0 := by
  obtain ⟨cx, cy, cz, hc, rfl⟩ := hc
  obtain ⟨x, y, z, hv, rfl | rfl | rfl⟩ := hf
  · exact cube_faceX Lx Ly Lz cx cy cz x y z hy hz hc hv
  · exact cube_faceY Lx Ly Lz cx cy cz x y z hx hz hc hv
  · exact cube_faceZ Lx Ly Lz cx cy cz x y z hx hy hc hv

theorem stab_comm (s t : Coord) (hs : s ∈ stabs Lx Ly Lz) (ht : t ∈ stabs Lx Ly Lz) :
    opCommute (getStab Lx Ly Lz s) (getStab Lx Ly Lz t) = true := by
  rcases getStab_cases hx hy hz s hs with ⟨k, hk, e⟩ | ⟨k, hk, e⟩ <;>
  rcases getStab_cases hx hy hz t ht with ⟨k', hk', e'⟩ | ⟨k', hk', e'⟩ <;> rw [e, e']
  · exact opCommute_constOp_same _ _ _
  · exact opCommute_of_ovl_even' _ _ _ _ (hk.nodup hx hy hz) (hk'.nodup hx hy hz) (face_cube_even hx hy hz hk' hk)
  · exact opCommute_of_ovl_even _ _ _ _ (face_cube_even hx hy hz hk hk')
  · exact opCommute_constOp_same _ _ _

end

end Panqec.XCubeCode
