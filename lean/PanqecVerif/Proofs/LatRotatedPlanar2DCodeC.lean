/-
RotatedPlanar2DCode, all sizes `Lx, Ly ≥ 1`: assembly of `Lattice.WF` and `Lattice.CommPair`, the
size formulas and `qubit_axis` on qubits.  Core Lean only.
-/
import PanqecVerif.Proofs.LatRotatedPlanar2DCodeB

set_option linter.unusedVariables false

namespace Panqec.RotatedPlanar2DCode
open Panqec.Lat2D

theorem toV {Lx Ly : Nat} {x y : Int} (h : IsV Lx Ly x y ∨ IsF Lx Ly x y) (p : (x + y) % 4 = 2) :
    IsV Lx Ly x y := by
  rcases h with h | h
  · exact h
  · unfold IsF at h; omega
theorem toF {Lx Ly : Nat} {x y : Int} (h : IsV Lx Ly x y ∨ IsF Lx Ly x y) (p : (x + y) % 4 ≠ 2) :
    IsF Lx Ly x y := by
  rcases h with h | h
  · unfold IsV at h; omega
  · exact h

theorem stab_comm (Lx Ly : Nat) :
    ∀ s ∈ (lattice Lx Ly).stabs, ∀ t ∈ (lattice Lx Ly).stabs,
      opCommute ((lattice Lx Ly).getStab s) ((lattice Lx Ly).getStab t) = true := by
  intro s hs t ht
  obtain ⟨ax, ay, rfl, ha⟩ := mem_stabs.mp hs
  obtain ⟨bx, by', rfl, hb⟩ := mem_stabs.mp ht
  rw [getStab_eq hs, getStab_eq ht]
  apply opCommute_const_of
  intro hanti
  rcases letter_cases ax ay with ⟨pa, la⟩ | ⟨pa, la⟩ <;>
  rcases letter_cases bx by' with ⟨pb, lb⟩ | ⟨pb, lb⟩ <;> rw [la, lb] at hanti
  · exact absurd hanti (by decide)
  · exact vertex_face_even (toV ha pa) (toF hb pb)
  · rw [interCount_comm _ _ (nodup_supp ..) (nodup_supp ..)]
    exact vertex_face_even (toV hb pb) (toF ha pa)
  · exact absurd hanti (by decide)

theorem logX_comm {Lx Ly : Nat} (hx : 1 ≤ Lx) (hy : 1 ≤ Ly) :
    ∀ a ∈ (lattice Lx Ly).logX, ∀ s ∈ (lattice Lx Ly).stabs,
      opCommute a ((lattice Lx Ly).getStab s) = true := by
  intro a ha s hs
  obtain ⟨x, y, rfl, h⟩ := mem_stabs.mp hs
  rw [getStab_eq hs]
  change a ∈ logX Lx Ly at ha
  rw [logX_eq] at ha
  simp only [List.mem_cons, List.not_mem_nil, or_false] at ha
  subst ha
  rcases letter_cases x y with ⟨px, lx⟩ | ⟨px, lx⟩ <;> rw [lx]
  · apply opCommute_const_of; intro _
    rw [interCount_comm _ _ (nodup_kX Lx) (nodup_supp ..)]; exact supp_kX hy (toV h px)
  · exact opCommute_same _ _ _

theorem logZ_comm {Lx Ly : Nat} (hx : 1 ≤ Lx) (hy : 1 ≤ Ly) :
    ∀ a ∈ (lattice Lx Ly).logZ, ∀ s ∈ (lattice Lx Ly).stabs,
      opCommute a ((lattice Lx Ly).getStab s) = true := by
  intro a ha s hs
  obtain ⟨x, y, rfl, h⟩ := mem_stabs.mp hs
  rw [getStab_eq hs]
  change a ∈ logZ Lx Ly at ha
  rw [logZ_eq] at ha
  simp only [List.mem_cons, List.not_mem_nil, or_false] at ha
  subst ha
  rcases letter_cases x y with ⟨px, lx⟩ | ⟨px, lx⟩ <;> rw [lx]
  · exact opCommute_same _ _ _
  · apply opCommute_const_of; intro _
    rw [interCount_comm _ _ (nodup_kZ Ly) (nodup_supp ..)]; exact supp_kZ hx (toF h px)

theorem pairing {Lx Ly : Nat} (hx : 1 ≤ Lx) (hy : 1 ≤ Ly) :
    ∀ i j, i < (lattice Lx Ly).logX.length → j < (lattice Lx Ly).logZ.length →
      opAntiCount ((lattice Lx Ly).logX.getD i []) ((lattice Lx Ly).logZ.getD j []) % 2
        = if i = j then 1 else 0 := by
  intro i j hi hj
  change i < (logX Lx Ly).length at hi
  change j < (logZ Lx Ly).length at hj
  show opAntiCount ((logX Lx Ly).getD i []) ((logZ Lx Ly).getD j []) % 2 = _
  rw [logX_eq] at hi ⊢
  rw [logZ_eq] at hj ⊢
  simp only [List.length_cons, List.length_nil] at hi hj
  have hXZ : Pauli.anti Pauli.X Pauli.Z = true := by decide
  obtain rfl : i = 0 := by omega
  obtain rfl : j = 0 := by omega
  simp only [List.getD_cons_zero, opAntiCount_const, hXZ, if_true]
  rw [kX_kZ hx hy]

theorem commPair_all {Lx Ly : Nat} (hx : 1 ≤ Lx) (hy : 1 ≤ Ly) : (lattice Lx Ly).CommPair where
  stab_comm := stab_comm Lx Ly
  logX_comm := logX_comm hx hy
  logZ_comm := logZ_comm hx hy
  same_k := rfl
  pairing := pairing hx hy
  logXX := by
    intro a ha b hb
    change a ∈ logX Lx Ly at ha; change b ∈ logX Lx Ly at hb
    rw [logX_eq] at ha hb
    simp only [List.mem_cons, List.not_mem_nil, or_false] at ha hb
    subst ha; subst hb; exact opCommute_same _ _ _
  logZZ := by
    intro a ha b hb
    change a ∈ logZ Lx Ly at ha; change b ∈ logZ Lx Ly at hb
    rw [logZ_eq] at ha hb
    simp only [List.mem_cons, List.not_mem_nil, or_false] at ha hb
    subst ha; subst hb; exact opCommute_same _ _ _

/-! ### well-formedness -/

theorem log_mem {Lx Ly : Nat} {a : Op} (ha : a ∈ (lattice Lx Ly).logX ++ (lattice Lx Ly).logZ) :
    ∃ (K : List Coord) (P : Pauli), a = K.map (fun q => (q, P)) ∧ K.Nodup ∧ P ≠ Pauli.I ∧
      (K = kX Lx ∨ K = kZ Ly) := by
  change a ∈ logX Lx Ly ++ logZ Lx Ly at ha
  rw [logX_eq, logZ_eq] at ha
  simp only [List.cons_append, List.nil_append, List.mem_cons, List.not_mem_nil, or_false] at ha
  rcases ha with rfl | rfl
  · exact ⟨kX Lx, Pauli.X, rfl, nodup_kX Lx, by decide, by simp⟩
  · exact ⟨kZ Ly, Pauli.Z, rfl, nodup_kZ Ly, by decide, by simp⟩

theorem log_key_isQ {Lx Ly : Nat} (hx : 1 ≤ Lx) (hy : 1 ≤ Ly) {K : List Coord}
    (hK : K = kX Lx ∨ K = kZ Ly) : ∀ q ∈ K, q ∈ qubits Lx Ly := by
  intro q hq
  rcases hK with rfl | rfl
  · unfold kX at hq; simp only [List.mem_map, mem_pyRange2] at hq
    obtain ⟨x, hx', rfl⟩ := hq
    rw [mem_qubits']; unfold IsQ; omega
  · unfold kZ at hq; simp only [List.mem_map, mem_pyRange2] at hq
    obtain ⟨x, hx', rfl⟩ := hq
    rw [mem_qubits']; unfold IsQ; omega

theorem wf_all {Lx Ly : Nat} (hx : 1 ≤ Lx) (hy : 1 ≤ Ly) : (lattice Lx Ly).WF where
  qubits_nodup := nodup_qubits Lx Ly
  stabs_nodup := nodup_stabs Lx Ly
  disjoint := qubits_stabs_disjoint Lx Ly
  stab_keys := by
    intro s hs
    obtain ⟨x, y, rfl, h⟩ := mem_stabs.mp hs
    rw [getStab_eq hs, map_fst_const]
    exact nodup_supp ..
  stab_supported := by
    intro s hs e he
    obtain ⟨x, y, rfl, h⟩ := mem_stabs.mp hs
    rw [getStab_eq hs] at he
    simp only [List.mem_map] at he
    obtain ⟨q, hq, rfl⟩ := he
    unfold supp at hq
    rw [List.mem_filter] at hq
    have := hq.2
    unfold isQubit at this
    rw [isIn_iff] at this
    exact ⟨this, letter_ne_I x y⟩
  stab_nonempty := by
    intro s hs
    obtain ⟨x, y, rfl, h⟩ := mem_stabs.mp hs
    rw [getStab_eq hs]
    intro hnil
    exact supp_nonempty hx hy h (List.map_eq_nil_iff.mp hnil)
  log_keys := by
    intro a ha
    obtain ⟨K, P, rfl, hK, _, _⟩ := log_mem ha
    rw [map_fst_const]; exact hK
  log_supported := by
    intro a ha e he
    obtain ⟨K, P, rfl, _, hP, hK⟩ := log_mem ha
    simp only [List.mem_map] at he
    obtain ⟨q, hq, rfl⟩ := he
    exact ⟨log_key_isQ hx hy hK q hq, hP⟩

/-! ### sizes -/

theorem length_qubits (Lx Ly : Nat) : (qubits Lx Ly).length = Lx * Ly := by
  unfold qubits
  rw [length_grid]
  simp only [length_pyRange2]
  have h1 : (2 * Lx + 1 - 1 + 1) / 2 = Lx := by omega
  have h2 : (2 * Ly + 1 - 1 + 1) / 2 = Ly := by omega
  rw [h1, h2]

/-! ### deformation -/

theorem qubitAxis_of_mem {Lx Ly : Nat} {q : Coord} (h : q ∈ qubits Lx Ly) :
    ∃ x y, q = [x, y] ∧
      (((x + y) % 4 = 2 ∧ qubitAxis q = some "x") ∨
       ((x + y) % 4 = 0 ∧ qubitAxis q = some "y")) := by
  obtain ⟨x, y, rfl, hq⟩ := mem_qubits.mp h
  refine ⟨x, y, rfl, ?_⟩
  unfold IsQ at hq
  unfold qubitAxis
  by_cases h2 : (x + y) % 4 = 2
  · left; simp [h2]
  · right
    have h0 : (x + y) % 4 = 0 := by omega
    simp [h0]

end Panqec.RotatedPlanar2DCode
