/-
Geometry of C10 on RotatedToric3DCode with the repaired `RotatedSweepDecoder3D`, every size
`L_x, L_y ≥ 2` — part 2: which faces contain which edge.  The letter rule of the defect lines
(`has_defect`, odd sizes) against a horizontal edge is a parity rule: a horizontal face keeps
the letter X on an edge exactly when face and edge are diagonal neighbours of the kind
`flip_edge` lists for the axis of the edge (after `_wrap`); the vertical faces the class leaves
out on the defect lines are exactly those whose sub-lattice parity is broken by the seam.
-/
import PanqecVerif.Proofs.SweepRotToricBase
namespace Panqec.Sweep
set_option linter.unusedSimpArgs false
set_option linter.unusedVariables false
set_option linter.unusedSectionVars false

section
variable (Lx Ly Lz : Nat) (hLx : 2 ≤ Lx) (hLy : 2 ≤ Ly)
include hLx hLy

/-! ### horizontal face against horizontal edge: the defect rule is a parity rule -/

theorem hq_uu (x y : Int) (hx : 1 ≤ x ∧ x < 2 * (Lx : Int) ∧ x % 2 = 1)
    (hy : 1 ≤ y ∧ y < 2 * (Ly : Int) ∧ y % 2 = 1) (h : (up Lx x + up Ly y) % 4 = 0) :
    NoDef Lx Ly (up Lx x) (up Ly y) x y ↔ (x + y) % 4 = 2 := by
  simp only [NoDef, up] at h ⊢
  omega

theorem hq_dd (x y : Int) (hx : 1 ≤ x ∧ x < 2 * (Lx : Int) ∧ x % 2 = 1)
    (hy : 1 ≤ y ∧ y < 2 * (Ly : Int) ∧ y % 2 = 1) (h : (dn Lx x + dn Ly y) % 4 = 0) :
    NoDef Lx Ly (dn Lx x) (dn Ly y) x y ↔ (x + y) % 4 = 2 := by
  simp only [NoDef, dn] at h ⊢
  omega

theorem hq_ud (x y : Int) (hx : 1 ≤ x ∧ x < 2 * (Lx : Int) ∧ x % 2 = 1)
    (hy : 1 ≤ y ∧ y < 2 * (Ly : Int) ∧ y % 2 = 1) (h : (up Lx x + dn Ly y) % 4 = 0) :
    NoDef Lx Ly (up Lx x) (dn Ly y) x y ↔ (x + y) % 4 = 0 := by
  simp only [NoDef, up, dn] at h ⊢
  omega

theorem hq_du (x y : Int) (hx : 1 ≤ x ∧ x < 2 * (Lx : Int) ∧ x % 2 = 1)
    (hy : 1 ≤ y ∧ y < 2 * (Ly : Int) ∧ y % 2 = 1) (h : (dn Lx x + up Ly y) % 4 = 0) :
    NoDef Lx Ly (dn Lx x) (up Ly y) x y ↔ (x + y) % 4 = 0 := by
  simp only [NoDef, up, dn] at h ⊢
  omega

/-- `rotToric_has_hface` seen from the edge: the face is one of the four diagonal neighbours of
    the edge across the seams, and the edge is not on a defect line of the face -/
theorem rotToric_has_hface' (a b c x y z : Int) (ha : 1 ≤ a ∧ a ≤ 2 * (Lx : Int))
    (hb : 1 ≤ b ∧ b ≤ 2 * (Ly : Int)) (pc : c % 2 = 1) (h4 : (a + b) % 4 = 0)
    (hx : 1 ≤ x ∧ x ≤ 2 * (Lx : Int)) (hy : 1 ≤ y ∧ y ≤ 2 * (Ly : Int))
    (hq : (x, y, z) ∈ rotToricQubits Lx Ly Lz) :
    faceHasRot (rotToric3D Lx Ly Lz) (a, b, c) (x, y, z) = true ↔
      c = z ∧
      ((a = up Lx x ∧ b = up Ly y) ∨ (a = dn Lx x ∧ b = dn Ly y) ∨
       (a = up Lx x ∧ b = dn Ly y) ∨ (a = dn Lx x ∧ b = up Ly y)) ∧ NoDef Lx Ly a b x y := by
  rw [rotToric_has_hface Lx Ly Lz hLx hLy a b c x y z ha hb pc h4 hq]
  constructor
  · rintro ⟨hc, ⟨h1, h2, h3⟩ | ⟨h1, h2, h3⟩ | ⟨h1, h2, h3⟩ | ⟨h1, h2, h3⟩⟩ <;> rw [h1, h2] at h3
    · exact ⟨hc, Or.inl ⟨(dn_eq_iff Lx x a hx ha).mp h1, (dn_eq_iff Ly y b hy hb).mp h2⟩, h3⟩
    · exact ⟨hc, Or.inr (Or.inl ⟨(up_eq_iff Lx x a hx ha).mp h1, (up_eq_iff Ly y b hy hb).mp h2⟩), h3⟩
    · exact ⟨hc, Or.inr (Or.inr (Or.inl ⟨(dn_eq_iff Lx x a hx ha).mp h1,
        (up_eq_iff Ly y b hy hb).mp h2⟩)), h3⟩
    · exact ⟨hc, Or.inr (Or.inr (Or.inr ⟨(up_eq_iff Lx x a hx ha).mp h1,
        (dn_eq_iff Ly y b hy hb).mp h2⟩)), h3⟩
  · rintro ⟨hc, ⟨h1, h2⟩ | ⟨h1, h2⟩ | ⟨h1, h2⟩ | ⟨h1, h2⟩, h3⟩
    · have e1 := (dn_eq_iff Lx x a hx ha).mpr h1
      have e2 := (dn_eq_iff Ly y b hy hb).mpr h2
      exact ⟨hc, Or.inl ⟨e1, e2, by rw [e1, e2]; exact h3⟩⟩
    · have e1 := (up_eq_iff Lx x a hx ha).mpr h1
      have e2 := (up_eq_iff Ly y b hy hb).mpr h2
      exact ⟨hc, Or.inr (Or.inl ⟨e1, e2, by rw [e1, e2]; exact h3⟩)⟩
    · have e1 := (dn_eq_iff Lx x a hx ha).mpr h1
      have e2 := (up_eq_iff Ly y b hy hb).mpr h2
      exact ⟨hc, Or.inr (Or.inr (Or.inl ⟨e1, e2, by rw [e1, e2]; exact h3⟩))⟩
    · have e1 := (up_eq_iff Lx x a hx ha).mpr h1
      have e2 := (dn_eq_iff Ly y b hy hb).mpr h2
      exact ⟨hc, Or.inr (Or.inr (Or.inr ⟨e1, e2, by rw [e1, e2]; exact h3⟩))⟩

/-- a horizontal face against a horizontal edge with `(x + y) % 4 = 2`: toggled iff it is the
    face at `(+1, +1)` or at `(-1, -1)` across the seams -/
theorem hface_xedge (a b c x y z : Int) (ha : 2 ≤ a ∧ a ≤ 2 * (Lx : Int))
    (hb : 2 ≤ b ∧ b ≤ 2 * (Ly : Int)) (pc : c % 2 = 1) (h4 : (a + b) % 4 = 0)
    (hx : 1 ≤ x ∧ x < 2 * (Lx : Int) ∧ x % 2 = 1) (hy : 1 ≤ y ∧ y < 2 * (Ly : Int) ∧ y % 2 = 1)
    (hq : (x, y, z) ∈ rotToricQubits Lx Ly Lz) (hxy : (x + y) % 4 = 2) :
    faceHasRot (rotToric3D Lx Ly Lz) (a, b, c) (x, y, z) = true ↔
      c = z ∧ ((a = up Lx x ∧ b = up Ly y) ∨ (a = dn Lx x ∧ b = dn Ly y)) := by
  rw [rotToric_has_hface' Lx Ly Lz hLx hLy a b c x y z (by omega) (by omega) pc h4 (by omega)
    (by omega) hq]
  constructor
  · rintro ⟨hc, ⟨h1, h2⟩ | ⟨h1, h2⟩ | ⟨h1, h2⟩ | ⟨h1, h2⟩, h3⟩
    · exact ⟨hc, Or.inl ⟨h1, h2⟩⟩
    · exact ⟨hc, Or.inr ⟨h1, h2⟩⟩
    · exfalso
      subst h1 h2
      have := (hq_ud Lx Ly hLx hLy x y hx hy h4).mp h3
      omega
    · exfalso
      subst h1 h2
      have := (hq_du Lx Ly hLx hLy x y hx hy h4).mp h3
      omega
  · rintro ⟨hc, ⟨h1, h2⟩ | ⟨h1, h2⟩⟩
    · refine ⟨hc, Or.inl ⟨h1, h2⟩, ?_⟩
      subst h1 h2
      exact (hq_uu Lx Ly hLx hLy x y hx hy h4).mpr hxy
    · refine ⟨hc, Or.inr (Or.inl ⟨h1, h2⟩), ?_⟩
      subst h1 h2
      exact (hq_dd Lx Ly hLx hLy x y hx hy h4).mpr hxy

/-- a horizontal face against a horizontal edge with `(x + y) % 4 = 0`: toggled iff it is the
    face at `(+1, -1)` or at `(-1, +1)` across the seams -/
theorem hface_yedge (a b c x y z : Int) (ha : 2 ≤ a ∧ a ≤ 2 * (Lx : Int))
    (hb : 2 ≤ b ∧ b ≤ 2 * (Ly : Int)) (pc : c % 2 = 1) (h4 : (a + b) % 4 = 0)
    (hx : 1 ≤ x ∧ x < 2 * (Lx : Int) ∧ x % 2 = 1) (hy : 1 ≤ y ∧ y < 2 * (Ly : Int) ∧ y % 2 = 1)
    (hq : (x, y, z) ∈ rotToricQubits Lx Ly Lz) (hxy : (x + y) % 4 = 0) :
    faceHasRot (rotToric3D Lx Ly Lz) (a, b, c) (x, y, z) = true ↔
      c = z ∧ ((a = up Lx x ∧ b = dn Ly y) ∨ (a = dn Lx x ∧ b = up Ly y)) := by
  rw [rotToric_has_hface' Lx Ly Lz hLx hLy a b c x y z (by omega) (by omega) pc h4 (by omega)
    (by omega) hq]
  constructor
  · rintro ⟨hc, ⟨h1, h2⟩ | ⟨h1, h2⟩ | ⟨h1, h2⟩ | ⟨h1, h2⟩, h3⟩
    · exfalso
      subst h1 h2
      have := (hq_uu Lx Ly hLx hLy x y hx hy h4).mp h3
      omega
    · exfalso
      subst h1 h2
      have := (hq_dd Lx Ly hLx hLy x y hx hy h4).mp h3
      omega
    · exact ⟨hc, Or.inl ⟨h1, h2⟩⟩
    · exact ⟨hc, Or.inr ⟨h1, h2⟩⟩
  · rintro ⟨hc, ⟨h1, h2⟩ | ⟨h1, h2⟩⟩
    · refine ⟨hc, Or.inr (Or.inr (Or.inl ⟨h1, h2⟩)), ?_⟩
      subst h1 h2
      exact (hq_ud Lx Ly hLx hLy x y hx hy h4).mpr hxy
    · refine ⟨hc, Or.inr (Or.inr (Or.inr ⟨h1, h2⟩)), ?_⟩
      subst h1 h2
      exact (hq_du Lx Ly hLx hLy x y hx hy h4).mpr hxy

/-! ### vertical face against vertical edge: the faces left out on the defect lines -/

theorem vq_uu (x y : Int) (hx : 2 ≤ x ∧ x ≤ 2 * (Lx : Int) ∧ x % 2 = 0)
    (hy : 2 ≤ y ∧ y ≤ 2 * (Ly : Int) ∧ y % 2 = 0) (hxy : (x + y) % 4 = 2)
    (ho : ¬ VfOut Lx Ly (up Lx x) (up Ly y)) : (up Lx x + up Ly y) % 4 = 0 := by
  simp only [VfOut, up] at ho ⊢
  omega

theorem vq_dd (x y : Int) (hx : 2 ≤ x ∧ x ≤ 2 * (Lx : Int) ∧ x % 2 = 0)
    (hy : 2 ≤ y ∧ y ≤ 2 * (Ly : Int) ∧ y % 2 = 0) (hxy : (x + y) % 4 = 2) :
    (dn Lx x + dn Ly y) % 4 = 0 := by
  simp only [dn]
  omega

theorem vq_ud (x y : Int) (hx : 2 ≤ x ∧ x ≤ 2 * (Lx : Int) ∧ x % 2 = 0)
    (hy : 2 ≤ y ∧ y ≤ 2 * (Ly : Int) ∧ y % 2 = 0) (hxy : (x + y) % 4 = 2)
    (ho : ¬ VfOut Lx Ly (up Lx x) (dn Ly y)) : (up Lx x + dn Ly y) % 4 = 2 := by
  simp only [VfOut, up, dn] at ho ⊢
  omega

theorem vq_du (x y : Int) (hx : 2 ≤ x ∧ x ≤ 2 * (Lx : Int) ∧ x % 2 = 0)
    (hy : 2 ≤ y ∧ y ≤ 2 * (Ly : Int) ∧ y % 2 = 0) (hxy : (x + y) % 4 = 2)
    (ho : ¬ VfOut Lx Ly (dn Lx x) (up Ly y)) : (dn Lx x + up Ly y) % 4 = 2 := by
  simp only [VfOut, up, dn] at ho ⊢
  omega

/-- a vertical face with `(x + y) % 4 = 0` against a vertical edge: toggled iff it is the face
    at `(+1, +1)` or `(-1, -1)` across the seams; the two other diagonal neighbours of the edge
    are not faces of this kind -/
theorem vface0_zedge (a b c x y z : Int) (ha : 1 ≤ a ∧ a < 2 * (Lx : Int) ∧ a % 2 = 1)
    (hb : 1 ≤ b ∧ b < 2 * (Ly : Int) ∧ b % 2 = 1) (pc : c % 2 = 0) (h4 : (a + b) % 4 = 0)
    (ho : ¬ VfOut Lx Ly a b)
    (hx : 2 ≤ x ∧ x ≤ 2 * (Lx : Int) ∧ x % 2 = 0) (hy : 2 ≤ y ∧ y ≤ 2 * (Ly : Int) ∧ y % 2 = 0)
    (hq : (x, y, z) ∈ rotToricQubits Lx Ly Lz) (hxy : (x + y) % 4 = 2) :
    faceHasRot (rotToric3D Lx Ly Lz) (a, b, c) (x, y, z) = true ↔
      c = z ∧ ((a = up Lx x ∧ b = up Ly y) ∨ (a = dn Lx x ∧ b = dn Ly y) ∨
        (a = dn Lx x ∧ b = up Ly y) ∨ (a = up Lx x ∧ b = dn Ly y)) := by
  rw [rotToric_has_vface0 Lx Ly Lz hLx hLy a b c x y z (by omega) (by omega) ha.2.2 hb.2.2 pc h4 hq]
  have hxr : 1 ≤ x ∧ x ≤ 2 * (Lx : Int) := by omega
  have hyr : 1 ≤ y ∧ y ≤ 2 * (Ly : Int) := by omega
  have har : 1 ≤ a ∧ a ≤ 2 * (Lx : Int) := by omega
  have hbr : 1 ≤ b ∧ b ≤ 2 * (Ly : Int) := by omega
  constructor
  · rintro (⟨h1, h2, h3⟩ | ⟨h1, h2, h3⟩ | ⟨h1, h2, h3⟩ | ⟨h1, h2, h3⟩)
    · exact ⟨h3, Or.inl ⟨(dn_eq_iff Lx x a hxr har).mp h1, (dn_eq_iff Ly y b hyr hbr).mp h2⟩⟩
    · exact ⟨h3, Or.inr (Or.inl ⟨(up_eq_iff Lx x a hxr har).mp h1, (up_eq_iff Ly y b hyr hbr).mp h2⟩)⟩
    · omega
    · omega
  · rintro ⟨hc, ⟨h1, h2⟩ | ⟨h1, h2⟩ | ⟨h1, h2⟩ | ⟨h1, h2⟩⟩
    · exact Or.inl ⟨(dn_eq_iff Lx x a hxr har).mpr h1, (dn_eq_iff Ly y b hyr hbr).mpr h2, hc⟩
    · exact Or.inr (Or.inl ⟨(up_eq_iff Lx x a hxr har).mpr h1, (up_eq_iff Ly y b hyr hbr).mpr h2, hc⟩)
    · exfalso
      subst h1 h2
      have := vq_du Lx Ly hLx hLy x y hx hy hxy ho
      omega
    · exfalso
      subst h1 h2
      have := vq_ud Lx Ly hLx hLy x y hx hy hxy ho
      omega

/-- a vertical face with `(x + y) % 4 = 2` against a vertical edge -/
theorem vface2_zedge (a b c x y z : Int) (ha : 1 ≤ a ∧ a < 2 * (Lx : Int) ∧ a % 2 = 1)
    (hb : 1 ≤ b ∧ b < 2 * (Ly : Int) ∧ b % 2 = 1) (pc : c % 2 = 0) (h4 : (a + b) % 4 = 2)
    (ho : ¬ VfOut Lx Ly a b)
    (hx : 2 ≤ x ∧ x ≤ 2 * (Lx : Int) ∧ x % 2 = 0) (hy : 2 ≤ y ∧ y ≤ 2 * (Ly : Int) ∧ y % 2 = 0)
    (hq : (x, y, z) ∈ rotToricQubits Lx Ly Lz) (hxy : (x + y) % 4 = 2) :
    faceHasRot (rotToric3D Lx Ly Lz) (a, b, c) (x, y, z) = true ↔
      c = z ∧ ((a = up Lx x ∧ b = up Ly y) ∨ (a = dn Lx x ∧ b = dn Ly y) ∨
        (a = dn Lx x ∧ b = up Ly y) ∨ (a = up Lx x ∧ b = dn Ly y)) := by
  rw [rotToric_has_vface2 Lx Ly Lz hLx hLy a b c x y z (by omega) (by omega) ha.2.2 hb.2.2 pc h4 hq]
  have hxr : 1 ≤ x ∧ x ≤ 2 * (Lx : Int) := by omega
  have hyr : 1 ≤ y ∧ y ≤ 2 * (Ly : Int) := by omega
  have har : 1 ≤ a ∧ a ≤ 2 * (Lx : Int) := by omega
  have hbr : 1 ≤ b ∧ b ≤ 2 * (Ly : Int) := by omega
  constructor
  · rintro (⟨h1, h2, h3⟩ | ⟨h1, h2, h3⟩ | ⟨h1, h2, h3⟩ | ⟨h1, h2, h3⟩)
    · exact ⟨h3, Or.inr (Or.inr (Or.inr ⟨(dn_eq_iff Lx x a hxr har).mp h1,
        (up_eq_iff Ly y b hyr hbr).mp h2⟩))⟩
    · exact ⟨h3, Or.inr (Or.inr (Or.inl ⟨(up_eq_iff Lx x a hxr har).mp h1,
        (dn_eq_iff Ly y b hyr hbr).mp h2⟩))⟩
    · omega
    · omega
  · rintro ⟨hc, ⟨h1, h2⟩ | ⟨h1, h2⟩ | ⟨h1, h2⟩ | ⟨h1, h2⟩⟩
    · exfalso
      subst h1 h2
      have := vq_uu Lx Ly hLx hLy x y hx hy hxy ho
      omega
    · exfalso
      subst h1 h2
      have := vq_dd Lx Ly hLx hLy x y hx hy hxy
      omega
    · exact Or.inr (Or.inl ⟨(up_eq_iff Lx x a hxr har).mpr h1, (dn_eq_iff Ly y b hyr hbr).mpr h2, hc⟩)
    · exact Or.inl ⟨(dn_eq_iff Lx x a hxr har).mpr h1, (up_eq_iff Ly y b hyr hbr).mpr h2, hc⟩

end
end Panqec.Sweep
