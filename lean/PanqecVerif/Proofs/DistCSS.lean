/-
Soundness of the CSS-restricted exhaustive check `checkExhaustiveCSS` (Model/Dist.lean).

For a code whose generators are all pure X-type or pure Z-type, the X part `(x | 0)` and the Z
part `(0 | z)` of an operator `v = (x | z)` that commutes with every generator commute with every
generator as well, `v` is their product, and neither is heavier than `v`.  If `v` is not a product
of generators, one of the two parts is not: a non-trivial logical of pure type and weight
`≤ wt v`.  So enumerating the pure X-type and pure Z-type operators below `d` suffices.
-/
import PanqecVerif.Proofs.Dist3

namespace Panqec

/-! ### one-sided enumeration -/

/-- number of non-zero entries -/
def cnt1 (xs : List Nat) : Nat := xs.countP (· != 0)

/-- xor of the table entries selected by `xs` -/
def effList1 : List Nat → List Nat → Nat
  | e :: t, x :: xs => (if x ≠ 0 then e else 0) ^^^ effList1 t xs
  | _, _ => 0

theorem cnt1_cons (x : Nat) (xs : List Nat) :
    cnt1 (x :: xs) = (if (x != 0) = true then 1 else 0) + cnt1 xs := by
  simp only [cnt1, List.countP_cons]
  omega

theorem effList1_of_cnt_zero : ∀ (tbl xs : List Nat), cnt1 xs = 0 → effList1 tbl xs = 0
  | [], _, _ => by simp [effList1]
  | _ :: _, [], _ => by simp [effList1]
  | e :: t, x :: xs, h => by
    rw [cnt1_cons] at h
    by_cases hx : x = 0
    · subst hx
      have h' : cnt1 xs = 0 := by simpa using h
      simp [effList1, effList1_of_cnt_zero t xs h']
    · simp [hx] at h

theorem exhTails1_cover (T b : Nat) (f : List Nat → Nat → Bool)
    (hf : ∀ tbl acc, f tbl acc = true → ∀ xs, cnt1 xs ≤ b →
      goodEff T (acc ^^^ effList1 tbl xs) = true) :
    ∀ (tbl : List Nat) (acc : Nat), goodEff T acc = true →
      exhTails1 f tbl acc = true → ∀ xs, cnt1 xs ≤ b + 1 →
      goodEff T (acc ^^^ effList1 tbl xs) = true
  | [], acc, hg, _, xs, _ => by simpa [effList1] using hg
  | _ :: _, acc, hg, _, [], _ => by simpa [effList1] using hg
  | e :: t, acc, hg, h, x :: xs, hw => by
    simp only [exhTails1, forceNat_eq, Bool.and_eq_true] at h
    obtain ⟨h1, h2⟩ := h
    rw [cnt1_cons] at hw
    by_cases hx : x = 0
    · subst hx
      have hw' : cnt1 xs ≤ b + 1 := by simpa using hw
      have := exhTails1_cover T b f hf t acc hg h2 xs hw'
      simpa [effList1] using this
    · have hw' : cnt1 xs ≤ b := by simp [hx] at hw; omega
      have := hf t _ h1 xs hw'
      simpa [effList1, hx, Nat.xor_assoc] using this

theorem exhB1_cover (T : Nat) : ∀ (b : Nat) (tbl : List Nat) (acc : Nat),
    exhB1 T b tbl acc = true → ∀ xs, cnt1 xs ≤ b → goodEff T (acc ^^^ effList1 tbl xs) = true
  | 0, tbl, acc, h, xs, hw => by
    rw [effList1_of_cnt_zero tbl xs (by omega), Nat.xor_zero]
    simpa [exhB1] using h
  | b + 1, tbl, acc, h, xs, hw => by
    simp only [exhB1, Bool.and_eq_true] at h
    exact exhTails1_cover T b (exhB1 T b) (fun tbl acc => exhB1_cover T b tbl acc) tbl acc h.1 h.2
      xs hw

/-! ### pure-type operators in the two-sided table -/

theorem effList_zeros_right : ∀ (tbl : List (Nat × Nat)) (xs : List Nat),
    effList tbl xs (List.replicate xs.length 0) = effList1 (tbl.map (·.1)) xs
  | [], xs => by simp [effList, effList1]
  | _ :: _, [] => by simp [effList, effList1]
  | (ex, ez) :: t, x :: xs => by
    simp [List.replicate_succ, effList, effList1, effList_zeros_right t xs]

theorem effList_zeros_left : ∀ (tbl : List (Nat × Nat)) (zs : List Nat),
    effList tbl (List.replicate zs.length 0) zs = effList1 (tbl.map (·.2)) zs
  | [], zs => by simp [effList, effList1]
  | _ :: _, [] => by simp [effList, effList1]
  | (ex, ez) :: t, z :: zs => by
    simp [List.replicate_succ, effList, effList1, effList_zeros_left t zs]

theorem cnt1_le_wtXZ_left : ∀ (xs zs : List Nat), xs.length = zs.length → cnt1 xs ≤ wtXZ xs zs
  | [], _, _ => by simp [cnt1]
  | x :: xs, [], h => by simp at h
  | x :: xs, z :: zs, h => by
    have ih := cnt1_le_wtXZ_left xs zs (by simpa using h)
    rw [cnt1_cons, wtXZ_cons]
    by_cases hx : x = 0 <;> by_cases hz : z = 0 <;> simp [hx, hz] <;> omega

theorem cnt1_le_wtXZ_right : ∀ (xs zs : List Nat), xs.length = zs.length → cnt1 zs ≤ wtXZ xs zs
  | _, [], _ => by simp [cnt1]
  | [], z :: zs, h => by simp at h
  | x :: xs, z :: zs, h => by
    have ih := cnt1_le_wtXZ_right xs zs (by simpa using h)
    rw [cnt1_cons, wtXZ_cons]
    by_cases hx : x = 0 <;> by_cases hz : z = 0 <;> simp [hx, hz] <;> omega

/-! ### X part and Z part of an operator -/

theorem xPart_append_dist (a b : List Nat) (h : a.length = b.length) : xPart (a ++ b) = a := by
  have : (a ++ b).length / 2 = a.length := by simp [List.length_append]; omega
  rw [xPart, this, List.take_left']
  rfl

theorem zPart_append_dist (a b : List Nat) (h : a.length = b.length) : zPart (a ++ b) = b := by
  have : (a ++ b).length / 2 = a.length := by simp [List.length_append]; omega
  rw [zPart, this, List.drop_left']
  rfl

theorem dot_replicate_zero_right (k : Nat) (a : List Nat) : dot a (List.replicate k 0) = 0 := by
  rw [dot_comm, dot_replicate_zero_left]

theorem vadd_zeros_right : ∀ a : List Nat, vadd a (List.replicate a.length 0) = a
  | [] => by simp
  | x :: a => by simp [List.replicate_succ, vadd_zeros_right a]

theorem vadd_zeros_left : ∀ a : List Nat, vadd (List.replicate a.length 0) a = a
  | [] => by simp
  | x :: a => by simp [List.replicate_succ, vadd_zeros_left a]

theorem map_mod_two_of_binary : ∀ a : List Nat, (∀ x ∈ a, x < 2) → a.map (· % 2) = a
  | [], _ => rfl
  | x :: a, h => by
    have hx := h x (by simp)
    simp only [List.map_cons, map_mod_two_of_binary a (fun y hy => h y (by simp [hy]))]
    congr 1
    omega

/-- an operator is the product of its X part and its Z part -/
theorem vxor_parts (n : Nat) (v : List Nat) (hlen : v.length = 2 * n) (hbin : ∀ x ∈ v, x < 2) :
    vxor (xPart v ++ List.replicate n 0) (List.replicate n 0 ++ zPart v) = v := by
  have hx := xPart_len hlen
  have hz := zPart_len hlen
  rw [vxor_append _ _ _ _ (by simp [hx])]
  have h1 : vxor (xPart v) (List.replicate n 0) = xPart v := by
    unfold vxor
    rw [← hx, vadd_zeros_right]
    exact map_mod_two_of_binary _ (fun x h => hbin x (List.mem_of_mem_take h))
  have h2 : vxor (List.replicate n 0) (zPart v) = zPart v := by
    unfold vxor
    rw [← hz, vadd_zeros_left]
    exact map_mod_two_of_binary _ (fun x h => hbin x (List.mem_of_mem_drop h))
  rw [h1, h2]
  exact List.take_append_drop _ _

/-- products of generators are closed under multiplication -/
theorem inSpan_vxor {n : Nat} {rows : List (List Nat)} {a b : List Nat}
    (hrows : ∀ r ∈ rows, r.length = 2 * n) (ha : a.length = 2 * n) (hb : b.length = 2 * n)
    (ba : ∀ x ∈ a, x < 2) (bb : ∀ x ∈ b, x < 2)
    (h1 : InSpan (2 * n) rows a) (h2 : InSpan (2 * n) rows b) : InSpan (2 * n) rows (vxor a b) := by
  rw [inSpan_iff_mem_rowSpan hrows (by rw [vxor_length_alg a b (by omega), ha]) (vxor_binary a b),
    toVec_vxor n a b (by omega)]
  exact Submodule.add_mem _ ((inSpan_iff_mem_rowSpan hrows ha ba).mp h1)
    ((inSpan_iff_mem_rowSpan hrows hb bb).mp h2)

theorem isCSSMask_sound (n : Nat) (stabs : List Nat) (h : isCSSMask n stabs = true) :
    ∀ g ∈ stabs.map (unpackBits (2 * n)),
      xPart g = List.replicate n 0 ∨ zPart g = List.replicate n 0 := by
  intro g hg
  obtain ⟨m, hm, rfl⟩ := List.mem_map.mp hg
  simp only [isCSSMask, List.all_eq_true, Bool.or_eq_true, beq_iff_eq] at h
  rcases h m hm with h0 | h0
  · left; rw [xPart_unpackBits', h0, unpackBits_zero]; rfl
  · right; rw [zPart_unpackBits', h0, unpackBits_zero]; rfl

/-- symplectic product with the X part / the Z part of `v` -/
theorem symp_xpart (n : Nat) (g v : List Nat) (hv : v.length = 2 * n) :
    symp g (xPart v ++ List.replicate n 0) = dot (zPart g) (xPart v) % 2 := by
  unfold symp
  rw [xPart_append_dist _ _ (by simp [xPart_len hv]), zPart_append_dist _ _ (by simp [xPart_len hv]),
    dot_replicate_zero_right, Nat.zero_add]

theorem symp_zpart (n : Nat) (g v : List Nat) (hv : v.length = 2 * n) :
    symp g (List.replicate n 0 ++ zPart v) = dot (xPart g) (zPart v) % 2 := by
  unfold symp
  rw [xPart_append_dist _ _ (by simp [zPart_len hv]), zPart_append_dist _ _ (by simp [zPart_len hv]),
    dot_replicate_zero_right, Nat.add_zero]

/-- For a CSS code, a non-trivial logical operator has a non-trivial logical X part or a
    non-trivial logical Z part. -/
theorem css_pure_part (n : Nat) (H : List (List Nat)) (hH : ∀ r ∈ H, r.length = 2 * n)
    (hcss : ∀ g ∈ H, xPart g = List.replicate n 0 ∨ zPart g = List.replicate n 0)
    (v : List Nat) (hnt : IsNontrivialLogical n H v) :
    IsNontrivialLogical n H (xPart v ++ List.replicate n 0) ∨
      IsNontrivialLogical n H (List.replicate n 0 ++ zPart v) := by
  obtain ⟨hlen, hbin, hcomm, hns⟩ := hnt
  have hx := xPart_len hlen
  have hz := zPart_len hlen
  have hxb : ∀ x ∈ xPart v, x < 2 := fun x hx => hbin x (List.mem_of_mem_take hx)
  have hzb : ∀ x ∈ zPart v, x < 2 := fun x hx => hbin x (List.mem_of_mem_drop hx)
  have hul : (xPart v ++ List.replicate n 0).length = 2 * n := by simp [hx]; omega
  have hwl : (List.replicate n 0 ++ zPart v).length = 2 * n := by simp [hz]; omega
  have hub : ∀ x ∈ xPart v ++ List.replicate n 0, x < 2 := by
    intro x h
    rcases List.mem_append.mp h with h | h
    · exact hxb x h
    · rw [List.eq_of_mem_replicate h]; omega
  have hwb : ∀ x ∈ List.replicate n 0 ++ zPart v, x < 2 := by
    intro x h
    rcases List.mem_append.mp h with h | h
    · rw [List.eq_of_mem_replicate h]; omega
    · exact hzb x h
  have hcu : ∀ g ∈ H, symp g (xPart v ++ List.replicate n 0) = 0 := by
    intro g hg
    rw [symp_xpart n g v hlen]
    rcases hcss g hg with h0 | h0
    · have := hcomm g hg
      unfold symp at this
      rw [h0, dot_replicate_zero_left, Nat.zero_add] at this
      exact this
    · rw [h0, dot_replicate_zero_left]
  have hcw : ∀ g ∈ H, symp g (List.replicate n 0 ++ zPart v) = 0 := by
    intro g hg
    rw [symp_zpart n g v hlen]
    rcases hcss g hg with h0 | h0
    · rw [h0, dot_replicate_zero_left]
    · have := hcomm g hg
      unfold symp at this
      rw [h0, dot_replicate_zero_left, Nat.add_zero] at this
      exact this
  by_cases hu : InSpan (2 * n) H (xPart v ++ List.replicate n 0)
  · right
    refine ⟨hwl, hwb, hcw, ?_⟩
    intro hw
    apply hns
    have := inSpan_vxor hH hul hwl hub hwb hu hw
    rwa [vxor_parts n v hlen hbin] at this
  · left
    exact ⟨hul, hub, hcu, hu⟩

/-! ### the CSS-restricted check -/

theorem checkExhaustiveCSS_sound (c : MaskCode)
    (hv : ValidCodeL c.n c.k (c.stabs.map (unpackBits (2 * c.n)))
      (c.logX.map (unpackBits (2 * c.n))) (c.logZ.map (unpackBits (2 * c.n))))
    (h : checkExhaustiveCSS c = true) :
    ∀ v, IsNontrivialLogical c.n (c.stabs.map (unpackBits (2 * c.n))) v →
      c.d ≤ pauliWeight v := by
  intro v hnt
  by_contra hlt
  have hlen := hnt.1
  have hx := xPart_len hlen
  have hz := zPart_len hlen
  have hw : wtXZ (xPart v) (zPart v) ≤ c.d - 1 := by
    have : pauliWeight v = wtXZ (xPart v) (zPart v) := rfl
    omega
  simp only [checkExhaustiveCSS, forceNat_eq, forceList_eq, forcePairs_eq, Bool.and_eq_true] at h
  obtain ⟨hcss, hX, hZ⟩ := h
  have hH : ∀ r ∈ c.stabs.map (unpackBits (2 * c.n)), r.length = 2 * c.n :=
    fun r hr => (hv.wfH r hr).1
  rcases css_pure_part c.n _ hH (isCSSMask_sound c.n c.stabs hcss) v hnt with hu | hu
  · have hgood := exhB1_cover _ _ _ _ hX (xPart v)
      (Nat.le_trans (cnt1_le_wtXZ_left _ _ (by rw [hx, hz])) hw)
    rw [Nat.zero_xor, ← effList_zeros_right, hx] at hgood
    apply effect_not_harmless c hv _ hu
    rw [xPart_append_dist _ _ (by simp [hx]), zPart_append_dist _ _ (by simp [hx])]
    exact hgood
  · have hgood := exhB1_cover _ _ _ _ hZ (zPart v)
      (Nat.le_trans (cnt1_le_wtXZ_right _ _ (by rw [hx, hz])) hw)
    rw [Nat.zero_xor, ← effList_zeros_left, hz] at hgood
    apply effect_not_harmless c hv _ hu
    rw [xPart_append_dist _ _ (by simp [hz]), zPart_append_dist _ _ (by simp [hz])]
    exact hgood

end Panqec
