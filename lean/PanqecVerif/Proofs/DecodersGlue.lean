/-
Correctness of the decoder glue under the solver contracts (core Lean only).
-/
import PanqecVerif.Proofs.Decoders
import PanqecVerif.Proofs.DecodersState
import PanqecVerif.Properties.C03

namespace Panqec

/-! ### contract vocabulary -/

/-- `c` is a binary vector of length `n` with `M · c = sy (mod 2)` -/
def Solves (n : Nat) (M : Mat) (sy c : Vec) : Prop :=
  c.length = n ∧ (∀ x ∈ c, x < 2) ∧ sectorSyndrome M c = sy

/-- `sy` is in the image of `M`: the sector syndrome of some vector of length `n` -/
def Feasible (n : Nat) (M : Mat) (sy : Vec) : Prop :=
  ∃ v : Vec, v.length = n ∧ sectorSyndrome M v = sy

/-- contract of `Matching(M, spacelike_weights=w).decode(sy)` as far as validity goes,
    for the one matrix `M` the object was built from -/
def SolverValidOn {W : Type} (n : Nat) (solve : WSolver W) (M : Mat) : Prop :=
  ∀ w sy, Feasible n M sy → Solves n M sy (solve M w sy)

/-- contract of `Support(sy, M).decode()` -/
def UfValidOn (n : Nat) (uf : USolver) (M : Mat) : Prop :=
  ∀ sy, Feasible n M sy → Solves n M sy (uf M sy)

/-- contract of ldpc `BpOsdDecoder(M, …).decode`: for every schedule and
    channel-probability vector the returned vector solves the syndrome equation whenever
    the syndrome is in the image of `M` -/
def BpValidOn (cols : Nat) (S : BpSolver) (M : Mat) : Prop :=
  ∀ ser p sy, Feasible cols M sy → Solves cols M sy (S.decode M ser p sy)

/-! ### small facts -/

theorem xPart_length_of (e : Vec) (n : Nat) (h : e.length = 2 * n) : (xPart e).length = n := by
  rw [xPart_length]; omega

theorem zPart_length_of (e : Vec) (n : Nat) (h : e.length = 2 * n) : (zPart e).length = n := by
  rw [zPart_length]; omega

theorem feasible_z (H : Mat) (hcss : isCss H = true) (e : Vec) (n : Nat) (h : e.length = 2 * n) :
    Feasible n (Hz H) (extractZSyndrome H (measureSyndrome H e)) :=
  ⟨xPart e, xPart_length_of e n h, (css_zrow_block H hcss e).symm⟩

theorem feasible_x (H : Mat) (hcss : isCss H = true) (e : Vec) (n : Nat) (h : e.length = 2 * n) :
    Feasible n (Hx H) (extractXSyndrome H (measureSyndrome H e)) :=
  ⟨zPart e, zPart_length_of e n h, (css_xrow_block H hcss e).symm⟩

theorem binary_append {a b : Vec} (ha : ∀ x ∈ a, x < 2) (hb : ∀ x ∈ b, x < 2) :
    ∀ x ∈ a ++ b, x < 2 := by
  intro x hx
  rcases List.mem_append.mp hx with h | h
  · exact ha x h
  · exact hb x h

/-- assembling `[cx | cz]` from sector solutions reproduces the full syndrome -/
theorem css_assemble (H : Mat) (hcss : isCss H = true) (n : Nat) (e cx cz : Vec)
    (hx : Solves n (Hz H) (extractZSyndrome H (measureSyndrome H e)) cx)
    (hz : Solves n (Hx H) (extractXSyndrome H (measureSyndrome H e)) cz) :
    (cx ++ cz).length = 2 * n ∧ (∀ x ∈ cx ++ cz, x < 2) ∧
      measureSyndrome H (cx ++ cz) = measureSyndrome H e := by
  obtain ⟨hxl, hxb, hxs⟩ := hx
  obtain ⟨hzl, hzb, hzs⟩ := hz
  refine ⟨by simp [hxl, hzl]; omega, binary_append hxb hzb, ?_⟩
  have hlen : cx.length = cz.length := by omega
  apply css_syndrome_eq_of_sectors H hcss
  · rw [zPart_append_dec cx cz hlen, hzs, css_xrow_block H hcss e]
  · rw [xPart_append_dec cx cz hlen, hxs, css_zrow_block H hcss e]

/-- same syndrome ⇒ the sum is in the code space -/
theorem in_codespace_of_same_syndrome (H : Mat) (e c : Vec) (hlen : e.length = c.length)
    (hs : measureSyndrome H c = measureSyndrome H e) : inCodespace H (vxor e c) = true := by
  unfold inCodespace
  rw [C03.syndrome_linear H e c hlen, hs]
  rw [List.all_eq_true]
  intro x hx
  unfold vxor at hx
  generalize measureSyndrome H e = s at hx
  induction s with
  | nil => simp at hx
  | cons a s ih =>
    simp only [vadd_cons, List.map_cons, List.mem_cons] at hx
    rcases hx with h | h
    · subst h
      have : (a + a) % 2 = 0 := by omega
      simp [this]
    · exact ih h

/-! ### MatchingDecoder -/

theorem MatchingDec.new_ok {W : Type} (H : Mat) (n : Nat) (et : Option String)
    (weights : Option (List W × List W)) (mw : List W × List W) (d : MatchingDec W)
    (h : MatchingDec.new H n et weights mw = .ok d) :
    ∃ t, parseErrType et = .ok t ∧ isCss H = true ∧ d.H = H ∧ d.n = n ∧ d.errType = t ∧
      d.matcherX = (if t.doesX then some ⟨Hz H, (weights.getD mw).1⟩ else none) ∧
      d.matcherZ = (if t.doesZ then some ⟨Hx H, (weights.getD mw).2⟩ else none) := by
  unfold MatchingDec.new at h
  cases ht : parseErrType et with
  | error e => simp [ht] at h
  | ok t =>
    simp only [ht] at h
    cases hcss : isCss H
    · simp [hcss] at h
    · simp only [hcss, Bool.not_true, Bool.false_eq_true, if_false] at h
      injection h with h
      subst h
      refine ⟨t, rfl, rfl, rfl, rfl, rfl, ?_, ?_⟩ <;> cases weights <;> rfl

theorem matchHalf_active {W : Type} (solve : WSolver W) (H : Mat) (n : Nat) (M : Matcher W)
    (extract : Mat → Vec → Vec) (s : Vec) (hlen : s.length = H.length)
    (hc : (solve M.matrix M.weights (extract H s)).length = n) :
    matchHalf solve H n true (some M) extract s =
      .ok (solve M.matrix M.weights (extract H s),
           [Event.decode M.matrix M.weights (extract H s) (solve M.matrix M.weights (extract H s))]) := by
  simp [matchHalf, hlen, hc]

theorem matchHalf_inactive {W : Type} (solve : WSolver W) (H : Mat) (n : Nat)
    (m : Option (Matcher W)) (extract : Mat → Vec → Vec) (s : Vec) :
    matchHalf solve H n false m extract s = .ok (List.replicate n 0, []) := by
  simp [matchHalf]

/-- full `MatchingDecoder` (error_type None) on the syndrome of any error -/
theorem matching_valid {W : Type} (solve : WSolver W) (H : Mat) (n : Nat)
    (weights : Option (List W × List W)) (mw : List W × List W) (d : MatchingDec W)
    (hnew : MatchingDec.new H n none weights mw = .ok d)
    (hsX : SolverValidOn n solve (Hz H)) (hsZ : SolverValidOn n solve (Hx H))
    (e : Vec) (he : e.length = 2 * n) :
    ∃ c ev, d.decode solve (measureSyndrome H e) = .ok (c, ev) ∧
      c = solve (Hz H) (weights.getD mw).1 (extractZSyndrome H (measureSyndrome H e)) ++
          solve (Hx H) (weights.getD mw).2 (extractXSyndrome H (measureSyndrome H e)) ∧
      c.length = 2 * n ∧ (∀ x ∈ c, x < 2) ∧ measureSyndrome H c = measureSyndrome H e := by
  obtain ⟨t, ht, hcss, hH, hn, het, hmx, hmz⟩ := MatchingDec.new_ok H n none weights mw d hnew
  have ht' : t = .all := by simp [parseErrType] at ht; exact ht.symm
  subst ht'
  have hX := hsX (weights.getD mw).1 _ (feasible_z H hcss e n he)
  have hZ := hsZ (weights.getD mw).2 _ (feasible_x H hcss e n he)
  have hlen : (measureSyndrome H e).length = H.length := measureSyndrome_length H e
  unfold MatchingDec.decode
  rw [hH, hn, het, hmx, hmz]
  simp only [ErrType_dec.doesX, ErrType_dec.doesZ, beq_self_eq_true, Bool.true_or, if_true]
  rw [matchHalf_active solve H n _ extractZSyndrome _ hlen hX.1,
      matchHalf_active solve H n _ extractXSyndrome _ hlen hZ.1]
  exact ⟨_, _, rfl, rfl, css_assemble H hcss n e _ _ hX hZ⟩

/-- `error_type='X'` (the matcher inside the sweep-match decoders): X half from
    `(Hz, w_x)` on the Z-row syndrome, Z half zero -/
theorem matching_valid_X {W : Type} (solve : WSolver W) (H : Mat) (n : Nat)
    (weights : Option (List W × List W)) (mw : List W × List W) (d : MatchingDec W)
    (hnew : MatchingDec.new H n (some "X") weights mw = .ok d)
    (hsX : SolverValidOn n solve (Hz H)) (e : Vec) (he : e.length = 2 * n) :
    ∃ ev, d.decode solve (measureSyndrome H e) =
        .ok (solve (Hz H) (weights.getD mw).1 (extractZSyndrome H (measureSyndrome H e)) ++
             List.replicate n 0, ev) ∧
      Solves n (Hz H) (extractZSyndrome H (measureSyndrome H e))
        (solve (Hz H) (weights.getD mw).1 (extractZSyndrome H (measureSyndrome H e))) := by
  obtain ⟨t, ht, hcss, hH, hn, het, hmx, hmz⟩ := MatchingDec.new_ok H n (some "X") weights mw d hnew
  have ht' : t = .X := by simp [parseErrType] at ht; exact ht.symm
  subst ht'
  have hX := hsX (weights.getD mw).1 _ (feasible_z H hcss e n he)
  have hlen : (measureSyndrome H e).length = H.length := measureSyndrome_length H e
  unfold MatchingDec.decode
  rw [hH, hn, het, hmx, hmz]
  have h1 : ErrType_dec.X.doesX = true := rfl
  have h2 : ErrType_dec.X.doesZ = false := rfl
  simp only [h1, h2, if_true]
  rw [matchHalf_active solve H n _ extractZSyndrome _ hlen hX.1, matchHalf_inactive]
  exact ⟨_, rfl, hX⟩

/-! ### UnionFindDecoder -/

theorem uf_valid (uf : USolver) (H : Mat) (n : Nat) (hcss : isCss H = true)
    (hufX : UfValidOn n uf (Hz H)) (hufZ : UfValidOn n uf (Hx H)) (e : Vec) (he : e.length = 2 * n) :
    ∃ c ev, ufDecode uf H n (measureSyndrome H e) = .ok (c, ev) ∧
      c = uf (Hz H) (extractZSyndrome H (measureSyndrome H e)) ++
          uf (Hx H) (extractXSyndrome H (measureSyndrome H e)) ∧
      c.length = 2 * n ∧ (∀ x ∈ c, x < 2) ∧ measureSyndrome H c = measureSyndrome H e := by
  have hX := hufX _ (feasible_z H hcss e n he)
  have hZ := hufZ _ (feasible_x H hcss e n he)
  have hlen : (measureSyndrome H e).length = H.length := measureSyndrome_length H e
  unfold ufDecode
  simp only [hlen, hcss, ne_eq, not_true_eq_false, if_false, Bool.not_true, Bool.false_eq_true,
    hX.1, hZ.1]
  exact ⟨_, _, rfl, rfl, css_assemble H hcss n e _ _ hX hZ⟩

/-! ### BP-OSD -/

theorem bposd_css_valid (S : BpSolver) (d : BpDec_dec) (hcss : isCss d.H = true)
    (hSX : BpValidOn d.n S (Hz d.H)) (hSZ : BpValidOn d.n S (Hx d.H))
    (e : Vec) (he : e.length = 2 * d.n) :
    ∃ c, d.pureDecode S (measureSyndrome d.H e) = .ok c ∧
      c.length = 2 * d.n ∧ (∀ x ∈ c, x < 2) ∧ measureSyndrome d.H c = measureSyndrome d.H e := by
  have hlen : (measureSyndrome d.H e).length = d.H.length := measureSyndrome_length d.H e
  unfold BpDec_dec.pureDecode
  simp only [hcss, if_true, hlen]
  refine ⟨_, rfl, ?_⟩
  apply css_assemble d.H hcss d.n e
  · exact hSX _ _ _ (feasible_z d.H hcss e d.n he)
  · exact hSZ _ _ _ (feasible_x d.H hcss e d.n he)

/-! non-CSS: the full matrix acts on `[z | x]`, the answer's halves are swapped back -/

theorem dot_append : ∀ (a b a' b' : List Nat), a.length = b.length →
    dot (a ++ a') (b ++ b') = dot a b + dot a' b'
  | [], [], a', b', _ => by simp [dot]
  | [], _ :: _, _, _, h => by simp at h
  | _ :: _, [], _, _, h => by simp at h
  | x :: a, y :: b, a', b', h => by
    simp at h
    simp [dot_append a b a' b' h, Nat.add_assoc]

/-- symplectic product with `v` = plain product with the half-swapped `v` -/
theorem symp_eq_dot_swap (r v : Vec) (n : Nat) (hr : r.length = 2 * n) (hv : v.length = 2 * n) :
    symp r v = dot r (zPart v ++ xPart v) % 2 := by
  unfold symp
  conv => rhs; rw [← xPart_append_zPart_dec r]
  rw [dot_append (xPart r) (zPart v) (zPart r) (xPart v)
    (by rw [xPart_length_of r n hr, zPart_length_of v n hv])]

theorem measure_eq_sector_swap (H : Mat) (n : Nat) (hrows : ∀ r ∈ H, r.length = 2 * n) (v : Vec)
    (hv : v.length = 2 * n) : measureSyndrome H v = sectorSyndrome H (zPart v ++ xPart v) := by
  rw [measureSyndrome_eq_dec]
  unfold sectorSyndrome
  apply List.map_congr_left
  intro r hr
  exact symp_eq_dot_swap r v n (hrows r hr) hv

theorem take_drop_parts (c : Vec) (n : Nat) (hc : c.length = 2 * n) :
    xPart (c.drop n ++ c.take n) = c.drop n ∧ zPart (c.drop n ++ c.take n) = c.take n := by
  have h1 : (c.drop n).length = (c.take n).length := by simp; omega
  exact ⟨xPart_append_dec _ _ h1, zPart_append_dec _ _ h1⟩

theorem bposd_noncss_valid (S : BpSolver) (d : BpDec_dec) (hcss : isCss d.H = false)
    (hrows : ∀ r ∈ d.H, r.length = 2 * d.n)
    (hS : BpValidOn (2 * d.n) S d.H) (e : Vec) (he : e.length = 2 * d.n) :
    ∃ c, d.pureDecode S (measureSyndrome d.H e) = .ok c ∧
      c.length = 2 * d.n ∧ (∀ x ∈ c, x < 2) ∧ measureSyndrome d.H c = measureSyndrome d.H e := by
  have hlen : (measureSyndrome d.H e).length = d.H.length := measureSyndrome_length d.H e
  unfold BpDec_dec.pureDecode
  simp only [hcss, Bool.false_eq_true, if_false, hlen, if_true]
  have hfeas : Feasible (2 * d.n) d.H (measureSyndrome d.H e) :=
    ⟨zPart e ++ xPart e, by simp [xPart_length_of e d.n he, zPart_length_of e d.n he]; omega,
     (measure_eq_sector_swap d.H d.n hrows e he).symm⟩
  obtain ⟨hcl, hcb, hcs⟩ := hS false (raddv d.pz d.py ++ raddv d.px d.py) _ hfeas
  generalize S.decode d.H false (raddv d.pz d.py ++ raddv d.px d.py) (measureSyndrome d.H e) = c
    at hcl hcb hcs
  refine ⟨_, rfl, by simp [hcl]; omega, ?_, ?_⟩
  · intro x hx
    rcases List.mem_append.mp hx with h | h
    · exact hcb x (List.mem_of_mem_drop h)
    · exact hcb x (List.mem_of_mem_take h)
  · have hl : (c.drop d.n ++ c.take d.n).length = 2 * d.n := by simp [hcl]; omega
    rw [measure_eq_sector_swap d.H d.n hrows _ hl]
    obtain ⟨h1, h2⟩ := take_drop_parts c d.n hcl
    rw [h1, h2, List.take_append_drop, hcs]

end Panqec
