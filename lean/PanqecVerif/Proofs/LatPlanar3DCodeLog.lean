/-
`Planar3DCode`, every size: the logical operators as one-letter operators on explicit key lists (the
string of X along `y = z = 0`, the plane of Z at `x = 1`), their overlap with the stabilizers
(even) and with each other (exactly the qubit `(1, 0, 0)`).
-/
import PanqecVerif.Proofs.LatPlanar3DCodeComm

set_option linter.unusedVariables false
set_option linter.unusedSimpArgs false
set_option linter.unreachableTactic false
set_option linter.unusedTactic false

namespace Panqec.Planar3DCode
open Panqec.Cubic3D

section axis
variable {L : Nat} {e o : Int}
theorem fE_m (ho : inO L o) : inE L (o - 1) := by simp only [inE, inO] at *; omega
theorem fE_p (ho : inO L o) : inE L (o + 1) := by simp only [inE, inO] at *; omega
theorem fE_0 (ho : o % 2 = 1) : ¬ inE L o := by simp only [inE]; omega
theorem f1_m (ho : o % 2 = 1) : ¬ (o - 1 = 1) := by omega
theorem f1_p (ho : o % 2 = 1) : ¬ (o + 1 = 1) := by omega
theorem f1_e (he : e % 2 = 0) : ¬ (e = 1) := by omega
theorem vO_p (he : inE2 L e) : inO1 L (e + 1) := by simp only [inE2, inO1] at *; omega
theorem vO_m (he : inE2 L e) : inO1 L (e - 1) := by simp only [inE2, inO1] at *; omega
theorem vO_0 (he : e % 2 = 0) : ¬ inO1 L e := by simp only [inO1]; omega
theorem v0_p (he : inE L e) : ¬ (e + 1 = 0) := by simp only [inE] at *; omega
theorem v0_m (he : inE L e) : ¬ (e - 1 = 0) := by simp only [inE] at *; omega
theorem inE_zero (hL : 1 ≤ L) : inE L 0 := by simp only [inE]; omega
theorem inO1_one (hL : 1 ≤ L) : inO1 L 1 := by simp only [inO1]; omega
end axis

/-! ### key lists -/

def lxK (Lx : Nat) : List Coord := (range2 1 (2 * (Lx : Int) + 1)).map fun x => [x, 0, 0]
def lzK (Ly Lz : Nat) : List Coord :=
  grid2 (range2 0 (2 * (Ly : Int))) (range2 0 (2 * (Lz : Int))) fun y z => [1, y, z]

theorem logX_eq (Lx Ly Lz : Nat) : logX Lx Ly Lz = [uop (lxK Lx) Pauli.X] := by
  simp only [logX, lxK, uop_map]

theorem logZ_eq (Lx Ly Lz : Nat) : logZ Lx Ly Lz = [uop (lzK Ly Lz) Pauli.Z] := by
  simp only [logZ, lzK, uop_grid2]

theorem mem_lxK {Lx : Nat} {a b c : Int} : [a, b, c] ∈ lxK Lx ↔ inO1 Lx a ∧ b = 0 ∧ c = 0 := by
  simp only [lxK, List.mem_map, mem_rangeO1, List.cons.injEq, and_true]
  constructor
  · rintro ⟨o, ho, rfl, rfl, rfl⟩; exact ⟨ho, rfl, rfl⟩
  · rintro ⟨ho, rfl, rfl⟩; exact ⟨a, ho, rfl, rfl, rfl⟩

theorem mem_lzK {Ly Lz : Nat} {a b c : Int} :
    [a, b, c] ∈ lzK Ly Lz ↔ a = 1 ∧ inE Ly b ∧ inE Lz c := by
  simp only [lzK, mem_grid2, mem_rangeE, List.cons.injEq, and_true]
  constructor
  · rintro ⟨y, hy, z, hz, rfl, rfl, rfl⟩; exact ⟨rfl, hy, hz⟩
  · rintro ⟨rfl, hy, hz⟩; exact ⟨b, hy, c, hz, rfl, rfl, rfl⟩

theorem shape_lxK {Lx : Nat} {q : Coord} (h : q ∈ lxK Lx) : ∃ a b c, q = [a, b, c] := by
  simp only [lxK, List.mem_map] at h; obtain ⟨o, _, rfl⟩ := h; exact ⟨_, _, _, rfl⟩
theorem shape_lzK {Ly Lz : Nat} {q : Coord} (h : q ∈ lzK Ly Lz) : ∃ a b c, q = [a, b, c] := by
  simp only [lzK, mem_grid2] at h; obtain ⟨_, _, _, _, rfl⟩ := h; exact ⟨_, _, _, rfl⟩

theorem lxK_nodup (Lx : Nat) : (lxK Lx).Nodup :=
  List.Nodup.map (fun a b h => by simpa using h) (nodup_range2 _ _)
theorem lzK_nodup (Ly Lz : Nat) : (lzK Ly Lz).Nodup :=
  nodup_grid2 (nodup_range2 _ _) (nodup_range2 _ _) (fun a b a' b' h => by simpa using h)

/-! ### the logical operators are supported on qubits (`1 ≤ L`) -/

theorem lxK_sub {Lx Ly Lz : Nat} (hLy : 1 ≤ Ly) (hLz : 1 ≤ Lz) :
    ∀ q ∈ lxK Lx, q ∈ qubits Lx Ly Lz := by
  intro q hq
  obtain ⟨a, b, c, rfl⟩ := shape_lxK hq
  rw [mem_lxK] at hq
  obtain ⟨h1, rfl, rfl⟩ := hq
  rw [mem_qubits]
  exact Or.inl ⟨h1, inE_zero hLy, inE_zero hLz⟩

theorem lzK_sub {Lx Ly Lz : Nat} (hLx : 1 ≤ Lx) : ∀ q ∈ lzK Ly Lz, q ∈ qubits Lx Ly Lz := by
  intro q hq
  obtain ⟨a, b, c, rfl⟩ := shape_lzK hq
  rw [mem_lzK] at hq
  obtain ⟨rfl, h2, h3⟩ := hq
  rw [mem_qubits]
  exact Or.inl ⟨inO1_one hLx, h2, h3⟩

/-! ### overlap with the stabilizers -/

theorem ov_vertex_lxK {Lx Ly Lz : Nat} (hLy : 1 ≤ Ly) (hLz : 1 ≤ Lz) {x y z : Int}
    (hv : isVertex Lx Ly Lz x y z) : ov (vertexKeys Lx Ly Lz x y z) (lxK Lx) % 2 = 0 := by
  unfold vertexKeys
  rw [ov_filter_left _ (fun q hq => isq_iff.mpr (lxK_sub hLy hLz q hq))]
  obtain ⟨hx, hy, hz⟩ := hv
  have px : x % 2 = 0 := hx.2.2
  unfold ov vertexCands
  simp only [List.countP_cons, List.countP_nil, decide_eq_true_eq, Nat.zero_add, mem_lxK,
    vO_p hx, vO_m hx, vO_0 px, v0_p hy, v0_m hy, v0_p hz, v0_m hz,
    true_and, and_true, false_and, and_false, if_false, Nat.add_zero]
  all_goals (by_cases h2 : y = 0 <;> by_cases h3 : z = 0 <;> simp_all)

theorem ov_faceXY_lzK {Lx Ly Lz : Nat} (hLx : 1 ≤ Lx) {x y z : Int}
    (hf : isFaceXY Lx Ly Lz x y z) : ov (faceXYKeys Lx Ly Lz x y z) (lzK Ly Lz) % 2 = 0 := by
  unfold faceXYKeys
  rw [ov_filter_left _ (fun q hq => isq_iff.mpr (lzK_sub hLx q hq))]
  obtain ⟨hx, hy, hz⟩ := hf
  have px := hx.2.2
  have py := hy.2.2
  have pz := hz.2.2
  unfold ov faceXYCands
  simp only [List.countP_cons, List.countP_nil, decide_eq_true_eq, Nat.zero_add, mem_lzK,
    f1_m px,
    f1_p px,
    fE_m hy,
    fE_p hy,
    fE_0 py,
    hz,
    true_and, and_true, false_and, and_false, if_false, Nat.add_zero]
  all_goals (by_cases h1 : x = 1 <;> simp_all)

theorem ov_faceYZ_lzK {Lx Ly Lz : Nat} (hLx : 1 ≤ Lx) {x y z : Int}
    (hf : isFaceYZ Lx Ly Lz x y z) : ov (faceYZKeys Lx Ly Lz x y z) (lzK Ly Lz) % 2 = 0 := by
  unfold faceYZKeys
  rw [ov_filter_left _ (fun q hq => isq_iff.mpr (lzK_sub hLx q hq))]
  obtain ⟨hx, hy, hz⟩ := hf
  have px := hx.2.2
  have py := hy.2.2
  have pz := hz.2.2
  unfold ov faceYZCands
  simp only [List.countP_cons, List.countP_nil, decide_eq_true_eq, Nat.zero_add, mem_lzK,
    f1_e px,
    fE_m hy,
    fE_p hy,
    fE_0 py,
    fE_m hz,
    fE_p hz,
    fE_0 pz,
    true_and, and_true, false_and, and_false, if_false, Nat.add_zero]
  all_goals (by_cases h1 : x = 1 <;> simp_all)

theorem ov_faceXZ_lzK {Lx Ly Lz : Nat} (hLx : 1 ≤ Lx) {x y z : Int}
    (hf : isFaceXZ Lx Ly Lz x y z) : ov (faceXZKeys Lx Ly Lz x y z) (lzK Ly Lz) % 2 = 0 := by
  unfold faceXZKeys
  rw [ov_filter_left _ (fun q hq => isq_iff.mpr (lzK_sub hLx q hq))]
  obtain ⟨hx, hy, hz⟩ := hf
  have px := hx.2.2
  have py := hy.2.2
  have pz := hz.2.2
  unfold ov faceXZCands
  simp only [List.countP_cons, List.countP_nil, decide_eq_true_eq, Nat.zero_add, mem_lzK,
    f1_m px,
    f1_p px,
    hy,
    fE_m hz,
    fE_p hz,
    fE_0 pz,
    true_and, and_true, false_and, and_false, if_false, Nat.add_zero]
  all_goals (by_cases h1 : x = 1 <;> simp_all)

/-! ### the pairing -/

theorem ov_lxK_lzK {Lx Ly Lz : Nat} (hLx : 1 ≤ Lx) (hLy : 1 ≤ Ly) (hLz : 1 ≤ Lz) :
    ov (lxK Lx) (lzK Ly Lz) = 1 := by
  have ey := inE_zero hLy; have ez := inE_zero hLz; have ox := inO1_one hLx
  refine ov_eq_one (lxK_nodup _) [1, 0, 0] ?_ ?_
  · rw [mem_lxK]; exact ⟨ox, rfl, rfl⟩
  · intro q hq
    obtain ⟨a, b, c, rfl⟩ := shape_lxK hq
    rw [mem_lxK] at hq
    rw [mem_lzK]
    obtain ⟨h1, rfl, rfl⟩ := hq
    simp_all

end Panqec.Planar3DCode
