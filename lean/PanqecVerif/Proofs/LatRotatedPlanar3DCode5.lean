/-
RotatedPlanar3DCode lattice model: well-formedness of the coordinate system (`Lattice.WF`) and
the closed forms of `qubit_axis` / `get_deformation`, for every lattice size.
-/
import PanqecVerif.Proofs.LatRotatedPlanar3DCode4
open Panqec Panqec.Lat3Db
namespace Panqec.RotatedPlanar3DCode

theorem nodup_qubits (Lx Ly Lz : Nat) : (qubits Lx Ly Lz).Nodup := by
  unfold qubits
  rw [List.nodup_append]
  refine ⟨nodup_grid3 _ _ _ _ (nodup_pyRange2 _ _) (nodup_pyRange2 _ _) (nodup_pyRange2 _ _),
    nodup_grid3 _ _ _ _ (nodup_pyRange2 _ _) (nodup_pyRange2 _ _) (nodup_pyRange2 _ _), ?_⟩
  intro a ha b hb hab
  subst hab
  rw [mem_grid3] at ha hb
  obtain ⟨x, y, z, rfl, hx, _⟩ := ha
  obtain ⟨x', y', z', h, hx', _⟩ := hb
  simp only [List.cons.injEq, and_true] at h
  obtain ⟨rfl, rfl, rfl⟩ := h
  rw [mem_pyRange2_1] at hx; rw [mem_pyRange2_2] at hx'
  unfold R1 at hx; unfold R2 at hx'; omega

theorem nodup_stabs (Lx Ly Lz : Nat) : (stabs Lx Ly Lz).Nodup := by
  unfold stabs
  rw [List.nodup_append, List.nodup_append]
  refine ⟨⟨nodup_grid3 _ _ _ _ (nodup_pyRange2 _ _) (nodup_pyRange2 _ _) (nodup_pyRange2 _ _),
    nodup_grid3 _ _ _ _ (nodup_pyRange2 _ _) (nodup_pyRange2 _ _) (nodup_pyRange2 _ _), ?_⟩,
    nodup_grid3 _ _ _ _ (nodup_pyRange2 _ _) (nodup_pyRange2 _ _) (nodup_pyRange2 _ _), ?_⟩
  · intro a ha b hb hab
    subst hab
    rw [mem_grid3] at ha hb
    obtain ⟨x, y, z, rfl, _, _, _, hp⟩ := ha
    obtain ⟨x', y', z', h, _, _, _, hp'⟩ := hb
    simp only [List.cons.injEq, and_true] at h
    obtain ⟨rfl, rfl, rfl⟩ := h
    simp only [beq_iff_eq] at hp hp'
    omega
  · intro a ha b hb hab
    subst hab
    rw [List.mem_append, mem_grid3, mem_grid3] at ha
    rw [mem_grid3] at hb
    obtain ⟨x', y', z', rfl, hx', _⟩ := hb
    rw [mem_pyRange2_1] at hx'; unfold R1 at hx'
    rcases ha with ⟨x, y, z, h, hx, _⟩ | ⟨x, y, z, h, hx, _⟩
    · simp only [List.cons.injEq, and_true] at h
      obtain ⟨rfl, rfl, rfl⟩ := h
      rw [mem_pyRange2_2] at hx; unfold R2 at hx; omega
    · simp only [List.cons.injEq, and_true] at h
      obtain ⟨rfl, rfl, rfl⟩ := h
      rw [mem_pyRange2_0] at hx; unfold R0 at hx; omega

theorem qubits_not_stabs (Lx Ly Lz : Nat) (q : Coord) (hq : q ∈ qubits Lx Ly Lz) : q ∉ stabs Lx Ly Lz := by
  obtain ⟨x, y, z, rfl⟩ := mem_qubits_shape Lx Ly Lz q hq
  rw [mem_qubits_iff] at hq
  rw [mem_stabs_iff]
  unfold QH QV R0 R1 R2 at hq
  unfold SV SH SF R0 R1 R2
  omega

theorem vertexKeys_ne_nil (Lx Ly Lz : Nat) (x y z : Int) (hy : 1 ≤ Ly) (h : SV Lx Ly Lz x y z) :
    vertexKeys Lx Ly Lz x y z ≠ [] := by
  unfold SV R0 R1 R2 at h
  by_cases h0 : y = 0
  · have : [x - 1, y + 1, z] ∈ vertexKeys Lx Ly Lz x y z := by
      unfold vertexKeys vertexLocs
      simp only [List.mem_filter, List.mem_cons, true_or, or_true, isQubit_iff, true_and]
      left; unfold QH R1; omega
    intro e; rw [e] at this; simp at this
  · have : [x - 1, y - 1, z] ∈ vertexKeys Lx Ly Lz x y z := by
      unfold vertexKeys vertexLocs
      simp only [List.mem_filter, List.mem_cons, true_or, isQubit_iff, true_and]
      left; unfold QH R1; omega
    intro e; rw [e] at this; simp at this

theorem faceKeys_ne_nil (Lx Ly Lz : Nat) (k : List Coord) (hx : 1 ≤ Lx) (h : IsFaceKeys Lx Ly Lz k) : k ≠ [] := by
  rcases h with ⟨a, b, c, hf, rfl⟩ | ⟨a, b, c, hf, _, rfl⟩ | ⟨a, b, c, hf, _, rfl⟩
  · unfold SH R0 R1 R2 at hf
    by_cases h0 : a = 0
    · have : [a + 1, b + 1, c] ∈ faceZKeys Lx Ly Lz a b c := by
        unfold faceZKeys faceZLocs
        simp only [List.mem_filter, List.mem_cons, true_or, or_true, isQubit_iff, true_and]
        left; unfold QH R1; omega
      intro e; rw [e] at this; simp at this
    · have : [a - 1, b - 1, c] ∈ faceZKeys Lx Ly Lz a b c := by
        unfold faceZKeys faceZLocs
        simp only [List.mem_filter, List.mem_cons, true_or, isQubit_iff, true_and]
        left; unfold QH R1; omega
      intro e; rw [e] at this; simp at this
  · unfold SF R1 R2 at hf
    have : [a, b, c - 1] ∈ faceXKeys Lx Ly Lz a b c := by
      unfold faceXKeys faceXLocs
      simp only [List.mem_filter, List.mem_cons, true_or, or_true, isQubit_iff, true_and]
      left; unfold QH R1; omega
    intro e; rw [e] at this; simp at this
  · unfold SF R1 R2 at hf
    have : [a, b, c - 1] ∈ faceYKeys Lx Ly Lz a b c := by
      unfold faceYKeys faceYLocs
      simp only [List.mem_filter, List.mem_cons, true_or, or_true, isQubit_iff, true_and]
      left; unfold QH R1; omega
    intro e; rw [e] at this; simp at this

theorem constOp_ne_nil {k : List Coord} (p : Pauli) (h : k ≠ []) : constOp k p ≠ [] := by
  unfold constOp; simpa using h

theorem wf (Lx Ly Lz : Nat) (hx : 1 ≤ Lx) (hy : 1 ≤ Ly) (hz : 1 ≤ Lz) : (lattice Lx Ly Lz).WF := by
  refine ⟨nodup_qubits Lx Ly Lz, nodup_stabs Lx Ly Lz, qubits_not_stabs Lx Ly Lz, ?_, ?_, ?_, ?_, ?_⟩
  · intro s hs
    rcases getStab_cases Lx Ly Lz s hs with ⟨k, hk, e⟩ | ⟨k, hk, e⟩
    · show ((getStab Lx Ly Lz s).map Prod.fst).Nodup
      rw [e, keys_constOp]; exact hk.nodup
    · show ((getStab Lx Ly Lz s).map Prod.fst).Nodup
      rw [e, keys_constOp]; exact hk.nodup
  · intro s hs e he
    change e ∈ getStab Lx Ly Lz s at he
    rcases getStab_cases Lx Ly Lz s hs with ⟨k, hk, eq⟩ | ⟨k, hk, eq⟩
    · rw [eq, mem_constOp] at he
      exact ⟨hk.qubits _ he.1, by rw [he.2]; decide⟩
    · rw [eq, mem_constOp] at he
      exact ⟨hk.qubits _ he.1, by rw [he.2]; decide⟩
  · intro s hs
    show getStab Lx Ly Lz s ≠ []
    rcases getStab_cases Lx Ly Lz s hs with ⟨k, hk, eq⟩ | ⟨k, hk, eq⟩
    · rw [eq]
      obtain ⟨x, y, z, hv, rfl⟩ := hk
      exact constOp_ne_nil _ (vertexKeys_ne_nil Lx Ly Lz x y z hy hv)
    · rw [eq]; exact constOp_ne_nil _ (faceKeys_ne_nil Lx Ly Lz k hx hk)
  · intro a ha
    simp only [lattice, logX_eq, logZ_eq, List.cons_append, List.nil_append, List.mem_cons,
      List.not_mem_nil, or_false] at ha
    rcases ha with rfl | rfl
    · rw [keys_constOp]; exact nodup_logXKeys Lx
    · rw [keys_constOp]; exact nodup_logZKeys Ly Lz
  · intro a ha e he
    simp only [lattice, logX_eq, logZ_eq, List.cons_append, List.nil_append, List.mem_cons,
      List.not_mem_nil, or_false] at ha
    rcases ha with rfl | rfl
    · rw [mem_constOp] at he
      have := logXKeys_qubits Lx Ly Lz hy hz _ he.1
      exact ⟨List.contains_iff_mem.mp this, by rw [he.2]; decide⟩
    · rw [mem_constOp] at he
      have := logZKeys_qubits Lx Ly Lz hx _ he.1
      exact ⟨List.contains_iff_mem.mp this, by rw [he.2]; decide⟩

/-! ### qubit_axis and get_deformation -/

/-- `qubit_axis` of a qubit in closed form: vertical qubits are `z`, horizontal ones `x` / `y` by
    the residue of `x + y` modulo 4 -/
theorem qubitAxis_qubit (Lx Ly Lz : Nat) (x y z : Int) (h : [x, y, z] ∈ qubits Lx Ly Lz) :
    qubitAxis Lx Ly Lz [x, y, z] =
      some (if z % 2 = 0 then "z" else if (x + y) % 4 = 2 then "x" else "y") := by
  have hq : isQubit Lx Ly Lz [x, y, z] = true := List.contains_iff_mem.mpr h
  unfold qubitAxis
  simp only [hq, Bool.not_true, Bool.false_eq_true, if_false, beq_iff_eq]
  by_cases h0 : z % 2 = 0
  · simp [h0]
  · simp only [h0, if_false]
    by_cases h2 : (x + y) % 4 = 2
    · simp [h2]
    · simp only [h2, if_false]
      have : (x + y) % 4 = 0 := by
        rw [mem_qubits_iff] at h
        unfold QH QV R0 R1 R2 at h
        omega
      simp [this]

theorem qubitAxis_nonqubit (Lx Ly Lz : Nat) (loc : Coord) (h : loc ∉ qubits Lx Ly Lz) :
    qubitAxis Lx Ly Lz loc = none := by
  have hq : isQubit Lx Ly Lz loc = false := by
    unfold isQubit
    simpa using h
  unfold qubitAxis
  split
  · simp [hq]
  · rfl

/-- `get_deformation`: bad axis or unknown name is a ValueError; for `XZZX` the X and Z letters
    are swapped exactly on the qubits whose axis is the deformation axis -/
theorem getDeformationAt_rule (Lx Ly Lz : Nat) (name axis : String) (loc : Coord) :
    getDeformationAt Lx Ly Lz name axis loc =
      if axis ≠ "x" ∧ axis ≠ "y" ∧ axis ≠ "z" then none
      else if name ≠ "XZZX" then none
      else (qubitAxis Lx Ly Lz loc).map fun a => if a = axis then PauliMap.swapXZ else PauliMap.id := by
  unfold getDeformationAt
  by_cases hax : axis = "x" ∨ axis = "y" ∨ axis = "z"
  · have h1 : (["x", "y", "z"].contains axis) = true := by
      rcases hax with h | h | h <;> subst h <;> decide
    have h2 : ¬ (axis ≠ "x" ∧ axis ≠ "y" ∧ axis ≠ "z") := by
      rcases hax with h | h | h <;> simp [h]
    simp only [h1, h2, Bool.not_true, Bool.false_eq_true, if_false]
    by_cases hn : name = "XZZX"
    · subst hn
      simp only [beq_self_eq_true, if_true, ne_eq, not_true_eq_false, if_false]
      cases qubitAxis Lx Ly Lz loc <;> simp
    · have : (name == "XZZX") = false := by simpa using hn
      simp [this, hn]
  · have h1 : (["x", "y", "z"].contains axis) = false := by
      simp only [List.contains_cons, List.contains_nil, Bool.or_false, Bool.or_eq_false_iff, beq_eq_false_iff_ne]
      simp only [not_or] at hax
      exact ⟨hax.1, hax.2.1, hax.2.2⟩
    have h2 : axis ≠ "x" ∧ axis ≠ "y" ∧ axis ≠ "z" := by
      simp only [not_or] at hax; exact hax
    simp [h2]

/-- `get_deformation` with the keyword given (`some axis`) or omitted (`none`: default `'z'`) -/
theorem getDeformation_rule (Lx Ly Lz : Nat) (name : String) (axis : Option String) (loc : Coord) :
    getDeformation Lx Ly Lz name axis loc =
      if axis.getD "z" ≠ "x" ∧ axis.getD "z" ≠ "y" ∧ axis.getD "z" ≠ "z" then none
      else if name ≠ "XZZX" then none
      else (qubitAxis Lx Ly Lz loc).map fun a =>
        if a = axis.getD "z" then PauliMap.swapXZ else PauliMap.id :=
  getDeformationAt_rule Lx Ly Lz name (axis.getD "z") loc

end Panqec.RotatedPlanar3DCode
