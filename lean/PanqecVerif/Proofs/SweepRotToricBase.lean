/-
Geometry of C10 on RotatedToric3DCode with the repaired `RotatedSweepDecoder3D`, every size
`L_x, L_y ≥ 2` (both parities, the defect lines of odd sizes included) — part 1: the periodic
seam.  `RotatedToric3DCode.get_stabilizer` identifies `2L + 1` with `1` and `0` with `2L`
(`seam`), the decoder's `_wrap` is `(v - 1) % (2L) + 1`; on the coordinates `1 … 2L` both are the
cyclic successor `up` / predecessor `dn`, which are inverse to each other.  Membership in the
coordinate lists, distinctness, `get_stabilizer` of a face as a filtered candidate list with the
letter rule of the defect lines.
-/
import PanqecVerif.Proofs.SweepRotPlanarBase

namespace Panqec.Sweep

set_option linter.unusedSimpArgs false
set_option linter.unusedVariables false

/-! ### the cyclic successor / predecessor on `1 … 2L` -/

/-- cyclic successor on `1 … 2L` -/
def up (L : Nat) (a : Int) : Int := if a = 2 * (L : Int) then 1 else a + 1
/-- cyclic predecessor on `1 … 2L` -/
def dn (L : Nat) (a : Int) : Int := if a = 1 then 2 * (L : Int) else a - 1

theorem up_def (L : Nat) (a : Int) : up L a = if a = 2 * (L : Int) then 1 else a + 1 := rfl
theorem dn_def (L : Nat) (a : Int) : dn L a = if a = 1 then 2 * (L : Int) else a - 1 := rfl

/-- `get_stabilizer`'s seam on a successor -/
theorem seam_succ (L : Nat) (a : Int) (h1 : 1 ≤ a) (h2 : a ≤ 2 * (L : Int)) :
    seam L (a + 1) = up L a := by
  simp only [seam, up, beq_iff_eq]
  omega

/-- `get_stabilizer`'s seam on a predecessor -/
theorem seam_pred (L : Nat) (a : Int) (h1 : 1 ≤ a) (h2 : a ≤ 2 * (L : Int)) :
    seam L (a + -1) = dn L a := by
  simp only [seam, dn, beq_iff_eq]
  omega

theorem seam_id (L : Nat) (a : Int) (h1 : 1 ≤ a) (h2 : a ≤ 2 * (L : Int)) : seam L a = a := by
  simp only [seam, beq_iff_eq]
  omega

/-- the decoder's `_wrap` on one coordinate -/
def wrapC (L : Nat) (v : Int) : Int := (v - 1) % (2 * (L : Int)) + 1

theorem wrapC_id (L : Nat) (a : Int) (h1 : 1 ≤ a) (h2 : a ≤ 2 * (L : Int)) : wrapC L a = a := by
  unfold wrapC
  rw [Int.emod_eq_of_lt (by omega) (by omega)]
  omega

theorem wrapC_succ (L : Nat) (hL : 1 ≤ L) (a : Int) (h1 : 1 ≤ a) (h2 : a ≤ 2 * (L : Int)) :
    wrapC L (a + 1) = up L a := by
  unfold wrapC up
  by_cases h : a = 2 * (L : Int)
  · rw [if_pos h, h]
    have : (2 * (L : Int) + 1 - 1) = 2 * (L : Int) := by omega
    rw [this, Int.emod_self]
    rfl
  · rw [if_neg h, Int.emod_eq_of_lt (by omega) (by omega)]
    omega

theorem wrapC_pred (L : Nat) (hL : 1 ≤ L) (a : Int) (h1 : 1 ≤ a) (h2 : a ≤ 2 * (L : Int)) :
    wrapC L (a - 1) = dn L a := by
  unfold wrapC dn
  by_cases h : a = 1
  · rw [if_pos h, h]
    have h3 : ((1 : Int) - 1 - 1) % (2 * (L : Int)) = (2 * (L : Int) - 1) % (2 * (L : Int)) := by
      have : (2 * (L : Int) - 1) = (1 - 1 - 1) + 2 * (L : Int) := by omega
      rw [this, Int.add_emod_right]
    rw [h3, Int.emod_eq_of_lt (by omega) (by omega)]
    omega
  · rw [if_neg h, Int.emod_eq_of_lt (by omega) (by omega)]
    omega

/-- `up` and `dn` are inverse bijections of `1 … 2L` -/
theorem up_eq_iff (L : Nat) (u v : Int) (hu : 1 ≤ u ∧ u ≤ 2 * (L : Int))
    (hv : 1 ≤ v ∧ v ≤ 2 * (L : Int)) : up L v = u ↔ v = dn L u := by
  simp only [up, dn]
  omega

theorem dn_eq_iff (L : Nat) (u v : Int) (hu : 1 ≤ u ∧ u ≤ 2 * (L : Int))
    (hv : 1 ≤ v ∧ v ≤ 2 * (L : Int)) : dn L v = u ↔ v = up L u := by
  simp only [up, dn]
  omega

/-! ### membership in the coordinate lists -/

theorem mem_rotToricQubits (Lx Ly Lz : Nat) (x y z : Int) :
    (x, y, z) ∈ rotToricQubits Lx Ly Lz ↔
      (1 ≤ x ∧ x < 2 * (Lx : Int) ∧ x % 2 = 1 ∧ 1 ≤ y ∧ y < 2 * (Ly : Int) ∧ y % 2 = 1 ∧
        1 ≤ z ∧ z < 2 * (Lz : Int) ∧ z % 2 = 1) ∨
      (2 ≤ x ∧ x ≤ 2 * (Lx : Int) ∧ x % 2 = 0 ∧ 2 ≤ y ∧ y ≤ 2 * (Ly : Int) ∧ y % 2 = 0 ∧
        2 ≤ z ∧ z < 2 * (Lz : Int) ∧ z % 2 = 0 ∧ (x + y) % 4 = 2) := by
  unfold rotToricQubits
  simp only [List.mem_append, List.mem_filter, mem_prod3, mem_range2, xyMod4, beq_iff_eq]
  constructor
  · rintro (h | h)
    · left; omega
    · right; omega
  · rintro (h | h)
    · left; omega
    · right; omega

/-- is the vertical face `(x, y, ·)` left out of `get_stabilizer_coordinates` (the faces on the
    defect lines of the odd directions) -/
def VfOut (Lx Ly : Nat) (x y : Int) : Prop := (Ly % 2 = 1 ∧ y = 1) ∨ (Lx % 2 = 1 ∧ x = 1)

theorem mem_rotToricStabs (Lx Ly Lz : Nat) (x y z : Int) :
    (x, y, z) ∈ rotToricStabs Lx Ly Lz ↔
      (2 ≤ x ∧ x ≤ 2 * (Lx : Int) ∧ x % 2 = 0 ∧ 2 ≤ y ∧ y ≤ 2 * (Ly : Int) ∧ y % 2 = 0 ∧
        1 ≤ z ∧ z < 2 * (Lz : Int) ∧ z % 2 = 1 ∧ (x + y) % 4 = 2) ∨
      (2 ≤ x ∧ x ≤ 2 * (Lx : Int) ∧ x % 2 = 0 ∧ 2 ≤ y ∧ y ≤ 2 * (Ly : Int) ∧ y % 2 = 0 ∧
        1 ≤ z ∧ z < 2 * (Lz : Int) ∧ z % 2 = 1 ∧ (x + y) % 4 = 0) ∨
      (1 ≤ x ∧ x < 2 * (Lx : Int) ∧ x % 2 = 1 ∧ 1 ≤ y ∧ y < 2 * (Ly : Int) ∧ y % 2 = 1 ∧
        2 ≤ z ∧ z < 2 * (Lz : Int) ∧ z % 2 = 0 ∧ ¬ VfOut Lx Ly x y) := by
  unfold rotToricStabs VfOut
  simp only [List.mem_append, List.mem_filter, mem_prod3, mem_range2, xyMod4, beq_iff_eq,
    Bool.not_eq_true', Bool.or_eq_false_iff, Bool.and_eq_false_imp, Bool.and_eq_true,
    Bool.or_eq_true, beq_eq_false_iff_ne, ne_eq, not_or, not_and]
  constructor
  · rintro ((h | h) | h)
    · left; omega
    · right; left; omega
    · right; right
      refine ⟨by omega, by omega, by omega, by omega, by omega, by omega, by omega, by omega,
        by omega, h.2.1, h.2.2⟩
  · rintro (h | h | h)
    · left; left; omega
    · left; right; omega
    · right
      refine ⟨by omega, h.2.2.2.2.2.2.2.2.2.1, h.2.2.2.2.2.2.2.2.2.2⟩

/-- stabilizer locations of RotatedToric3DCode are pairwise distinct (every size) -/
theorem rotToricStabs_nodup (Lx Ly Lz : Nat) : (rotToricStabs Lx Ly Lz).Nodup := by
  unfold rotToricStabs
  refine List.Nodup.append (List.Nodup.append ((nodup_prod3_range ..).filter _)
    ((nodup_prod3_range ..).filter _) ?_) ((nodup_prod3_range ..).filter _) ?_
  all_goals
    rw [List.disjoint_left]
    rintro ⟨x, y, z⟩ h1 h2
    simp only [List.mem_append, List.mem_filter, mem_prod3, mem_range2, xyMod4, beq_iff_eq] at h1 h2
    omega

/-- qubit locations of RotatedToric3DCode are pairwise distinct (every size) -/
theorem rotToricQubits_nodup (Lx Ly Lz : Nat) : (rotToricQubits Lx Ly Lz).Nodup := by
  unfold rotToricQubits
  refine List.Nodup.append (nodup_prod3_range ..) ((nodup_prod3_range ..).filter _) ?_
  rw [List.disjoint_left]
  rintro ⟨x, y, z⟩ h1 h2
  simp only [List.mem_append, List.mem_filter, mem_prod3, mem_range2, xyMod4, beq_iff_eq] at h1 h2
  omega

/-- on a stabilizer location `is_stabilizer(·, 'face')` is `stabilizer_type(·) == 'face'` -/
theorem rotToric_isStabFace_of_mem (Lx Ly Lz : Nat) (s : Loc) (hs : s ∈ rotToricStabs Lx Ly Lz) :
    (rotToric3D Lx Ly Lz).isStabFace s = rotIsFace s := by
  have : (rotToricStabs Lx Ly Lz).contains s = true := List.contains_iff_mem.mpr hs
  simp only [Lattice.isStabFace, rotToric3D, this, Bool.true_and]

theorem rotToric_isStabFace_mem (Lx Ly Lz : Nat) (s : Loc)
    (h : (rotToric3D Lx Ly Lz).isStabFace s = true) : s ∈ rotToricStabs Lx Ly Lz := by
  simp only [Lattice.isStabFace, rotToric3D, Bool.and_eq_true, List.contains_iff_mem] at h
  exact h.1

/-! ### the decoder's `_wrap` on this class -/

theorem wrapRot_rotToric (Lx Ly Lz : Nat) (x y z : Int) :
    wrapRot (rotToric3D Lx Ly Lz) (x, y, z) = (wrapC Lx x, wrapC Ly y, z) := rfl

/-! ### `get_stabilizer` of a face: candidates across the seam, letter rule of the defect lines -/

set_option linter.unusedSectionVars false

/-- one candidate of `RotatedToric3DCode.get_stabilizer` -/
def rtCand (Lx Ly : Nat) (l : Loc) (p : Pauli) (d : Loc) : Loc × Pauli :=
  let q0 := addLoc l d
  let q : Loc := (seam Lx q0.1, seam Ly q0.2.1, q0.2.2)
  let defectX := Lx % 2 == 1 && l.1 == 2 * (Lx : Int)
  let defectY := Ly % 2 == 1 && l.2.1 == 2 * (Ly : Int)
  let hasDefect := (defectX && q.1 == 1) != (defectY && q.2.1 == 1)
  (q, if hasDefect then flipXZ p else p)

theorem rotToric_op_face (Lx Ly Lz : Nat) (l : Loc) (ds : List Loc) (hf : rotIsFace l = true)
    (hd : rotFaceDeltas l = some ds) :
    (rotToric3D Lx Ly Lz).stabOp l =
      buildOp (rotToricQubits Lx Ly Lz) (ds.map (rtCand Lx Ly l Pauli.X)) := by
  simp only [rotToric3D, rotToricStabOp, hf, hd, if_true]
  rfl

/-- no defect on the candidate: the letter stays X -/
def NoDef (Lx Ly : Nat) (a b qx qy : Int) : Prop :=
  (Lx % 2 = 1 ∧ a = 2 * (Lx : Int) ∧ qx = 1) ↔ (Ly % 2 = 1 ∧ b = 2 * (Ly : Int) ∧ qy = 1)

theorem rtCand_fst (Lx Ly : Nat) (a b c d1 d2 d3 : Int) (p : Pauli) :
    (rtCand Lx Ly (a, b, c) p (d1, d2, d3)).1 = (seam Lx (a + d1), seam Ly (b + d2), c + d3) := rfl

theorem rtCand_hasX (Lx Ly : Nat) (a b c d1 d2 d3 : Int) :
    hasX (rtCand Lx Ly (a, b, c) Pauli.X (d1, d2, d3)).2 = true ↔
      NoDef Lx Ly a b (seam Lx (a + d1)) (seam Ly (b + d2)) := by
  unfold NoDef
  simp only [rtCand, addLoc]
  have e1 : ((Lx % 2 == 1 && a == 2 * (Lx : Int)) && seam Lx (a + d1) == 1) = true ↔
      (Lx % 2 = 1 ∧ a = 2 * (Lx : Int) ∧ seam Lx (a + d1) = 1) := by
    simp only [Bool.and_eq_true, beq_iff_eq, and_assoc]
  have e2 : ((Ly % 2 == 1 && b == 2 * (Ly : Int)) && seam Ly (b + d2) == 1) = true ↔
      (Ly % 2 = 1 ∧ b = 2 * (Ly : Int) ∧ seam Ly (b + d2) = 1) := by
    simp only [Bool.and_eq_true, beq_iff_eq, and_assoc]
  rw [← e1, ← e2]
  rcases Bool.eq_false_or_eq_true ((Lx % 2 == 1 && a == 2 * (Lx : Int)) && seam Lx (a + d1) == 1) with h1 | h1 <;>
  rcases Bool.eq_false_or_eq_true ((Ly % 2 == 1 && b == 2 * (Ly : Int)) && seam Ly (b + d2) == 1) with h2 | h2 <;>
  simp [h1, h2, flipXZ, hasX]

/-- a generator of type `'face'` (candidate locations pairwise distinct) is toggled by the qubit
    `loc` iff one of its candidates sits on `loc` and keeps the letter X -/
theorem rotToric_faceHas (Lx Ly Lz : Nat) (l : Loc) (ds : List Loc) (hf : rotIsFace l = true)
    (hd : rotFaceDeltas l = some ds)
    (hnd : ((ds.map (rtCand Lx Ly l Pauli.X)).map Prod.fst).Nodup) (loc : Loc)
    (hq : loc ∈ rotToricQubits Lx Ly Lz) :
    faceHasRot (rotToric3D Lx Ly Lz) l loc = true ↔
      ∃ d ∈ ds, (rtCand Lx Ly l Pauli.X d).1 = loc ∧ hasX (rtCand Lx Ly l Pauli.X d).2 = true := by
  have hop : (rotToric3D Lx Ly Lz).stabOp l = (ds.map (rtCand Lx Ly l Pauli.X)).filter
      (fun c => (rotToric3D Lx Ly Lz).qubits.contains c.1) := by
    rw [rotToric_op_face Lx Ly Lz l ds hf hd]
    exact buildOp_eq_filter _ _ hnd
  rw [faceHasRot_of_filter _ l loc _ hf hop hnd hq, decide_eq_true_iff]
  simp only [List.mem_map]
  constructor
  · rintro ⟨e, ⟨d, hd, rfl⟩, h1, h2⟩
    exact ⟨d, hd, h1, h2⟩
  · rintro ⟨d, hd, h1, h2⟩
    exact ⟨_, ⟨d, hd, rfl⟩, h1, h2⟩

/-- on a vertical face (x, y odd) no candidate is on a defect line -/
theorem noDef_odd (Lx Ly : Nat) (a b qx qy : Int) (pa : a % 2 = 1) (pb : b % 2 = 1) : NoDef Lx Ly a b qx qy := by
  unfold NoDef
  omega

section
variable (Lx Ly Lz : Nat) (hLx : 2 ≤ Lx) (hLy : 2 ≤ Ly)
include hLx hLy

/-- horizontal face (z odd, `(x + y) % 4 = 0`): the four diagonal neighbours across the seams,
    X unless the defect rule turns the letter into Z -/
theorem rotToric_has_hface (a b c x y z : Int) (ha : 1 ≤ a ∧ a ≤ 2 * (Lx : Int))
    (hb : 1 ≤ b ∧ b ≤ 2 * (Ly : Int)) (pc : c % 2 = 1) (h4 : (a + b) % 4 = 0)
    (hq : (x, y, z) ∈ rotToricQubits Lx Ly Lz) :
    faceHasRot (rotToric3D Lx Ly Lz) (a, b, c) (x, y, z) = true ↔
      c = z ∧
      ((dn Lx a = x ∧ dn Ly b = y ∧ NoDef Lx Ly a b (dn Lx a) (dn Ly b)) ∨
       (up Lx a = x ∧ up Ly b = y ∧ NoDef Lx Ly a b (up Lx a) (up Ly b)) ∨
       (dn Lx a = x ∧ up Ly b = y ∧ NoDef Lx Ly a b (dn Lx a) (up Ly b)) ∨
       (up Lx a = x ∧ dn Ly b = y ∧ NoDef Lx Ly a b (up Lx a) (dn Ly b))) := by
  have e02 : ((0 : Int) == 2) = false := by decide
  have hf : rotIsFace (a, b, c) = true := rotIsFace_hface a b c h4
  have hd : rotFaceDeltas (a, b, c) = some [(-1, -1, 0), (1, 1, 0), (-1, 1, 0), (1, -1, 0)] := by
    simp only [rotFaceDeltas, pc, beq_self_eq_true, if_true]
  rw [rotToric_faceHas Lx Ly Lz _ _ hf hd ?_ _ hq]
  · simp only [List.mem_cons, List.not_mem_nil, or_false, exists_eq_or_imp, exists_eq_left,
      rtCand_fst, rtCand_hasX, Prod.mk.injEq, seam_succ Lx a ha.1 ha.2, seam_pred Lx a ha.1 ha.2,
      seam_succ Ly b hb.1 hb.2, seam_pred Ly b hb.1 hb.2, Int.add_zero]
    constructor
    · rintro (⟨⟨h1, h2, h3⟩, h⟩ | ⟨⟨h1, h2, h3⟩, h⟩ | ⟨⟨h1, h2, h3⟩, h⟩ | ⟨⟨h1, h2, h3⟩, h⟩)
      · exact ⟨h3, Or.inl ⟨h1, h2, h⟩⟩
      · exact ⟨h3, Or.inr (Or.inl ⟨h1, h2, h⟩)⟩
      · exact ⟨h3, Or.inr (Or.inr (Or.inl ⟨h1, h2, h⟩))⟩
      · exact ⟨h3, Or.inr (Or.inr (Or.inr ⟨h1, h2, h⟩))⟩
    · rintro ⟨h3, ⟨h1, h2, h⟩ | ⟨h1, h2, h⟩ | ⟨h1, h2, h⟩ | ⟨h1, h2, h⟩⟩
      · exact Or.inl ⟨⟨h1, h2, h3⟩, h⟩
      · exact Or.inr (Or.inl ⟨⟨h1, h2, h3⟩, h⟩)
      · exact Or.inr (Or.inr (Or.inl ⟨⟨h1, h2, h3⟩, h⟩))
      · exact Or.inr (Or.inr (Or.inr ⟨⟨h1, h2, h3⟩, h⟩))
  · simp only [List.map_cons, List.map_nil, rtCand_fst, seam_succ Lx a ha.1 ha.2,
      seam_pred Lx a ha.1 ha.2, seam_succ Ly b hb.1 hb.2, seam_pred Ly b hb.1 hb.2,
      List.nodup_cons, List.mem_cons, List.not_mem_nil, or_false, Prod.mk.injEq,
      List.nodup_nil, and_true, not_or, true_and, not_false_eq_true, up, dn]
    omega

/-- vertical face (z even) with `(x + y) % 4 = 0` -/
theorem rotToric_has_vface0 (a b c x y z : Int) (ha : 1 ≤ a ∧ a ≤ 2 * (Lx : Int))
    (hb : 1 ≤ b ∧ b ≤ 2 * (Ly : Int)) (pa : a % 2 = 1) (pb : b % 2 = 1) (pc : c % 2 = 0)
    (h4 : (a + b) % 4 = 0) (hq : (x, y, z) ∈ rotToricQubits Lx Ly Lz) :
    faceHasRot (rotToric3D Lx Ly Lz) (a, b, c) (x, y, z) = true ↔
      (dn Lx a = x ∧ dn Ly b = y ∧ c = z) ∨ (up Lx a = x ∧ up Ly b = y ∧ c = z) ∨
      (a = x ∧ b = y ∧ c - 1 = z) ∨ (a = x ∧ b = y ∧ c + 1 = z) := by
  have e01 : ((0 : Int) == 1) = false := by decide
  have hf : rotIsFace (a, b, c) = true := rotIsFace_vface a b c pc
  have hd : rotFaceDeltas (a, b, c) = some [(-1, -1, 0), (1, 1, 0), (0, 0, -1), (0, 0, 1)] := by
    simp only [rotFaceDeltas, xyMod4, pc, h4, e01, beq_self_eq_true, if_true, if_false,
      Bool.false_eq_true]
  rw [rotToric_faceHas Lx Ly Lz _ _ hf hd ?_ _ hq]
  · simp only [List.mem_cons, List.not_mem_nil, or_false, exists_eq_or_imp, exists_eq_left,
      rtCand_fst, rtCand_hasX, Prod.mk.injEq, seam_succ Lx a ha.1 ha.2, seam_pred Lx a ha.1 ha.2,
      seam_succ Ly b hb.1 hb.2, seam_pred Ly b hb.1 hb.2, Int.add_zero, seam_id Lx a ha.1 ha.2,
      seam_id Ly b hb.1 hb.2, noDef_odd Lx Ly a b _ _ pa pb, and_true]
    rw [show c + -1 = c - 1 from rfl]
  · simp only [List.map_cons, List.map_nil, rtCand_fst, seam_succ Lx a ha.1 ha.2,
      seam_pred Lx a ha.1 ha.2, seam_succ Ly b hb.1 hb.2, seam_pred Ly b hb.1 hb.2,
      Int.add_zero, seam_id Lx a ha.1 ha.2, seam_id Ly b hb.1 hb.2,
      List.nodup_cons, List.mem_cons, List.not_mem_nil, or_false, Prod.mk.injEq,
      List.nodup_nil, and_true, not_or, true_and, not_false_eq_true, up, dn]
    omega

/-- vertical face (z even) with `(x + y) % 4 = 2` -/
theorem rotToric_has_vface2 (a b c x y z : Int) (ha : 1 ≤ a ∧ a ≤ 2 * (Lx : Int))
    (hb : 1 ≤ b ∧ b ≤ 2 * (Ly : Int)) (pa : a % 2 = 1) (pb : b % 2 = 1) (pc : c % 2 = 0)
    (h4 : (a + b) % 4 = 2) (hq : (x, y, z) ∈ rotToricQubits Lx Ly Lz) :
    faceHasRot (rotToric3D Lx Ly Lz) (a, b, c) (x, y, z) = true ↔
      (dn Lx a = x ∧ up Ly b = y ∧ c = z) ∨ (up Lx a = x ∧ dn Ly b = y ∧ c = z) ∨
      (a = x ∧ b = y ∧ c - 1 = z) ∨ (a = x ∧ b = y ∧ c + 1 = z) := by
  have e01 : ((0 : Int) == 1) = false := by decide
  have e20 : ((2 : Int) == 0) = false := by decide
  have hf : rotIsFace (a, b, c) = true := rotIsFace_vface a b c pc
  have hd : rotFaceDeltas (a, b, c) = some [(-1, 1, 0), (1, -1, 0), (0, 0, -1), (0, 0, 1)] := by
    simp only [rotFaceDeltas, xyMod4, pc, h4, e01, e20, beq_self_eq_true, if_true, if_false,
      Bool.false_eq_true]
  rw [rotToric_faceHas Lx Ly Lz _ _ hf hd ?_ _ hq]
  · simp only [List.mem_cons, List.not_mem_nil, or_false, exists_eq_or_imp, exists_eq_left,
      rtCand_fst, rtCand_hasX, Prod.mk.injEq, seam_succ Lx a ha.1 ha.2, seam_pred Lx a ha.1 ha.2,
      seam_succ Ly b hb.1 hb.2, seam_pred Ly b hb.1 hb.2, Int.add_zero, seam_id Lx a ha.1 ha.2,
      seam_id Ly b hb.1 hb.2, noDef_odd Lx Ly a b _ _ pa pb, and_true]
    rw [show c + -1 = c - 1 from rfl]
  · simp only [List.map_cons, List.map_nil, rtCand_fst, seam_succ Lx a ha.1 ha.2,
      seam_pred Lx a ha.1 ha.2, seam_succ Ly b hb.1 hb.2, seam_pred Ly b hb.1 hb.2,
      Int.add_zero, seam_id Lx a ha.1 ha.2, seam_id Ly b hb.1 hb.2,
      List.nodup_cons, List.mem_cons, List.not_mem_nil, or_false, Prod.mk.injEq,
      List.nodup_nil, and_true, not_or, true_and, not_false_eq_true, up, dn]
    omega
end
end Panqec.Sweep
