/-
`HollowRhombicCode`: the number of listed triangles (`n_stabilizers` = cubes + triangles), every size.
With a hole (`Lx ≥ 3`, `Ly ≥ 4`, `Lz ≥ 4`) the listed triangles of an axis are a box minus five boxes next
to the hole (the `(Lx−3)(Ly−4)(Lz−4)` vertices in the hole, and on every face of the hole the vertices
whose triangle of that axis has a leg in the hole: all of them on two x or y faces, those of one
colour on the two z faces); without hole they are the box.  The two colours of the z faces add up,
so the total is `4(Lx−1)(Ly−1)Lz − 4(abc + ab + ac + bc)` for a hole of `a × b × c` vertices.
-/
import PanqecVerif.Proofs.LatHollowRhombicCodeRankP

set_option linter.unusedVariables false
set_option linter.unusedSimpArgs false
set_option linter.unnecessarySeqFocus false

namespace Panqec.HollowRhombicCode
open Panqec.Lat3Db Panqec.Rhombic
open Panqec.Planar3DCode (inE inO inE2 inO1)

/-- a listed triangle -/
def LT (Lx Ly Lz : Nat) (a x y z : Int) : Prop :=
  (0 ≤ a ∧ a < 4) ∧ VertexLoc Lx Ly Lz x y z ∧ PT Lx Ly Lz a x y z

theorem spec_triangles (Lx Ly Lz : Nat) : Spec (triangles Lx Ly Lz) (LT Lx Ly Lz) where
  nodup := nodup_triangles Lx Ly Lz
  mem := fun s => mem_triangles'

section
variable {Lx Ly Lz : Nat}

theorem lt3_iff {x y z : Int} : LT Lx Ly Lz 3 x y z ↔ TS Lx Ly Lz 3 x y z :=
  ⟨fun h => ⟨h.1, h.2.1, h.2.2, Or.inl rfl⟩, fun h => ⟨h.1, h.2.1, h.2.2.1⟩⟩

theorem lt2_iff {x y z : Int} : LT Lx Ly Lz 2 x y z ↔ TS Lx Ly Lz 2 x y z :=
  ⟨fun h => ⟨h.1, h.2.1, h.2.2, Or.inr (Or.inl rfl)⟩, fun h => ⟨h.1, h.2.1, h.2.2.1⟩⟩

/-- the boxes next to the hole where the triangle of axis 1 is not listed -/
def PA1 (Lx Ly Lz : Nat) (x y z : Int) : Prop :=
  (InAp 4 (Lx - 3) x ∧ InAp 4 (Ly - 4) y ∧ InAp 4 (Lz - 4) z) ∨
  (InAp (2 * Lx - 2) 1 x ∧ InAp 4 (Ly - 4) y ∧ InAp 4 (Lz - 4) z) ∨
  (InAp 4 (Lx - 3) x ∧ InAp (2 * Ly - 4) 1 y ∧ InAp 4 (Lz - 4) z) ∨
  (InAp 4 (Lx - 3) x ∧ InAp 4 (Ly - 4) y ∧ InAp 2 1 z ∧ (x + y + z) % 4 = 0) ∨
  (InAp 4 (Lx - 3) x ∧ InAp 4 (Ly - 4) y ∧ InAp (2 * Lz - 4) 1 z ∧ (x + y + z) % 4 = 2)

/-- the boxes next to the hole where the triangle of axis 0 is not listed -/
def PA0 (Lx Ly Lz : Nat) (x y z : Int) : Prop :=
  (InAp 4 (Lx - 3) x ∧ InAp 4 (Ly - 4) y ∧ InAp 4 (Lz - 4) z) ∨
  (InAp 2 1 x ∧ InAp 4 (Ly - 4) y ∧ InAp 4 (Lz - 4) z) ∨
  (InAp 4 (Lx - 3) x ∧ InAp 2 1 y ∧ InAp 4 (Lz - 4) z) ∨
  (InAp 4 (Lx - 3) x ∧ InAp 4 (Ly - 4) y ∧ InAp 2 1 z ∧ (x + y + z) % 4 = 0) ∨
  (InAp 4 (Lx - 3) x ∧ InAp 4 (Ly - 4) y ∧ InAp (2 * Lz - 4) 1 z ∧ (x + y + z) % 4 = 2)

theorem lt1 (hx : 3 ≤ Lx) (hy : 4 ≤ Ly) (hz : 4 ≤ Lz) (x y z : Int) :
    (LT Lx Ly Lz 1 x y z ∨ PA1 Lx Ly Lz x y z) ↔ B2 Lx Ly Lz x y z := by
  unfold PA1 B2
  constructor
  · rintro (⟨_, hv, hp⟩ | h | h | h | h | h)
    · have h5 := hp.2.2.2.2
      rw [sgnY_1] at h5
      unfold VertexLoc inE2 inE at hv
      unfold InAp; omega
    all_goals (unfold InAp at h ⊢; omega)
  · rintro ⟨hX, hY, hZ⟩
    unfold InAp at hX hY hZ
    by_cases h1 : Hole Lx Ly Lz x y z
    · right; left; unfold Hole at h1; unfold InAp; omega
    by_cases h2 : Hole Lx Ly Lz (x + -1) y z
    · right; right; left; unfold Hole at h1 h2; unfold InAp; omega
    by_cases h3 : Hole Lx Ly Lz x (y + -1) z
    · right; right; right; left; unfold Hole at h1 h3; unfold InAp; omega
    by_cases hc : (x + y + z) % 4 = 0
    · by_cases h4 : Hole Lx Ly Lz x y (z + 1)
      · right; right; right; right; left; unfold Hole at h1 h4; unfold InAp; omega
      · left
        refine ⟨by decide, ?_, ?_⟩
        · unfold VertexLoc inE2 inE; omega
        · unfold PT; rw [sgnX_1, sgnY_1, sgnZ_01 (Or.inr rfl), if_pos hc]
          exact ⟨h1, h2, h3, h4, by omega, by omega⟩
    · by_cases h4 : Hole Lx Ly Lz x y (z + -1)
      · right; right; right; right; right; unfold Hole at h1 h4; unfold InAp; omega
      · left
        refine ⟨by decide, ?_, ?_⟩
        · unfold VertexLoc inE2 inE; omega
        · unfold PT; rw [sgnX_1, sgnY_1, sgnZ_01 (Or.inr rfl), if_neg hc]
          exact ⟨h1, h2, h3, h4, by omega, by omega⟩

theorem lt1_disj (hx : 3 ≤ Lx) (hy : 4 ≤ Ly) (hz : 4 ≤ Lz) (x y z : Int)
    (ht : LT Lx Ly Lz 1 x y z) (hp : PA1 Lx Ly Lz x y z) : False := by
  obtain ⟨_, hv, hpt⟩ := ht
  unfold PT at hpt
  rw [sgnX_1, sgnY_1, sgnZ_01 (Or.inr rfl)] at hpt
  unfold PA1 at hp
  rcases hp with h | h | h | h | h <;> unfold InAp at h
  · exact hpt.1 (by unfold Hole; omega)
  · exact hpt.2.1 (by unfold Hole; omega)
  · exact hpt.2.2.1 (by unfold Hole; omega)
  · have hc : (x + y + z) % 4 = 0 := by omega
    rw [if_pos hc] at hpt
    exact hpt.2.2.2.1 (by unfold Hole; omega)
  · have hc : ¬ (x + y + z) % 4 = 0 := by omega
    rw [if_neg hc] at hpt
    exact hpt.2.2.2.1 (by unfold Hole; omega)

theorem lt0 (hx : 3 ≤ Lx) (hy : 4 ≤ Ly) (hz : 4 ≤ Lz) (x y z : Int) :
    (LT Lx Ly Lz 0 x y z ∨ PA0 Lx Ly Lz x y z) ↔ B3 Lx Ly Lz x y z := by
  unfold PA0 B3
  constructor
  · rintro (⟨_, hv, hp⟩ | h | h | h | h | h)
    · have h5 := hp.2.2.2.2
      rw [sgnY_0] at h5
      unfold VertexLoc inE2 inE at hv
      unfold InAp; omega
    all_goals (unfold InAp at h ⊢; omega)
  · rintro ⟨hX, hY, hZ⟩
    unfold InAp at hX hY hZ
    by_cases h1 : Hole Lx Ly Lz x y z
    · right; left; unfold Hole at h1; unfold InAp; omega
    by_cases h2 : Hole Lx Ly Lz (x + 1) y z
    · right; right; left; unfold Hole at h1 h2; unfold InAp; omega
    by_cases h3 : Hole Lx Ly Lz x (y + 1) z
    · right; right; right; left; unfold Hole at h1 h3; unfold InAp; omega
    by_cases hc : (x + y + z) % 4 = 0
    · by_cases h4 : Hole Lx Ly Lz x y (z + 1)
      · right; right; right; right; left; unfold Hole at h1 h4; unfold InAp; omega
      · left
        refine ⟨by decide, ?_, ?_⟩
        · unfold VertexLoc inE2 inE; omega
        · unfold PT; rw [sgnX_0, sgnY_0, sgnZ_01 (Or.inl rfl), if_pos hc]
          exact ⟨h1, h2, h3, h4, by omega, by omega⟩
    · by_cases h4 : Hole Lx Ly Lz x y (z + -1)
      · right; right; right; right; right; unfold Hole at h1 h4; unfold InAp; omega
      · left
        refine ⟨by decide, ?_, ?_⟩
        · unfold VertexLoc inE2 inE; omega
        · unfold PT; rw [sgnX_0, sgnY_0, sgnZ_01 (Or.inl rfl), if_neg hc]
          exact ⟨h1, h2, h3, h4, by omega, by omega⟩

theorem lt0_disj (hx : 3 ≤ Lx) (hy : 4 ≤ Ly) (hz : 4 ≤ Lz) (x y z : Int)
    (ht : LT Lx Ly Lz 0 x y z) (hp : PA0 Lx Ly Lz x y z) : False := by
  obtain ⟨_, hv, hpt⟩ := ht
  unfold PT at hpt
  rw [sgnX_0, sgnY_0, sgnZ_01 (Or.inl rfl)] at hpt
  unfold PA0 at hp
  rcases hp with h | h | h | h | h <;> unfold InAp at h
  · exact hpt.1 (by unfold Hole; omega)
  · exact hpt.2.1 (by unfold Hole; omega)
  · exact hpt.2.2.1 (by unfold Hole; omega)
  · have hc : (x + y + z) % 4 = 0 := by omega
    rw [if_pos hc] at hpt
    exact hpt.2.2.2.1 (by unfold Hole; omega)
  · have hc : ¬ (x + y + z) % 4 = 0 := by omega
    rw [if_neg hc] at hpt
    exact hpt.2.2.2.1 (by unfold Hole; omega)

end

section
variable (Lx Ly Lz : Nat)

/-- the boxes next to the hole where the triangle of axis 1 / axis 0 is not listed, as lists -/
def LA1 : List Coord :=
  bx 1 4 (Lx - 3) 4 (Ly - 4) 4 (Lz - 4) tt ++ (bx 1 (2 * Lx - 2) 1 4 (Ly - 4) 4 (Lz - 4) tt ++
  (bx 1 4 (Lx - 3) (2 * Ly - 4) 1 4 (Lz - 4) tt ++ (bx 1 4 (Lx - 3) 4 (Ly - 4) 2 1 (chk 0) ++
  bx 1 4 (Lx - 3) 4 (Ly - 4) (2 * Lz - 4) 1 (chk 2))))

def LA0 : List Coord :=
  bx 0 4 (Lx - 3) 4 (Ly - 4) 4 (Lz - 4) tt ++ (bx 0 2 1 4 (Ly - 4) 4 (Lz - 4) tt ++
  (bx 0 4 (Lx - 3) 2 1 4 (Lz - 4) tt ++ (bx 0 4 (Lx - 3) 4 (Ly - 4) 2 1 (chk 0) ++
  bx 0 4 (Lx - 3) 4 (Ly - 4) (2 * Lz - 4) 1 (chk 2))))

end

section
variable {Lx Ly Lz : Nat}

theorem spec_LA1 (hx : 3 ≤ Lx) (hy : 4 ≤ Ly) (hz : 4 ≤ Lz) :
    Spec (LA1 Lx Ly Lz) (fun a x y z => a = 1 ∧ PA1 Lx Ly Lz x y z) := by
  unfold LA1
  have h := (spec_bx 1 4 (Lx - 3) 4 (Ly - 4) 4 (Lz - 4) tt).append
    ((spec_bx 1 (2 * Lx - 2) 1 4 (Ly - 4) 4 (Lz - 4) tt).append
    ((spec_bx 1 4 (Lx - 3) (2 * Ly - 4) 1 4 (Lz - 4) tt).append
    ((spec_bx 1 4 (Lx - 3) 4 (Ly - 4) 2 1 (chk 0)).append
    (spec_bx 1 4 (Lx - 3) 4 (Ly - 4) (2 * Lz - 4) 1 (chk 2))
    (by intro a x y z h1 h2; simp only [chk_iff, tt_iff] at h1 h2; unfold InAp at h1 h2; omega))
    (by intro a x y z h1 h2; simp only [chk_iff, tt_iff] at h1 h2; unfold InAp at h1 h2; omega))
    (by intro a x y z h1 h2; simp only [chk_iff, tt_iff] at h1 h2; unfold InAp at h1 h2; omega))
    (by intro a x y z h1 h2; simp only [chk_iff, tt_iff] at h1 h2; unfold InAp at h1 h2; omega)
  refine h.congr ?_
  intro a x y z
  unfold PA1
  simp only [chk_iff, tt_iff, and_true]
  exact or5_and

theorem spec_LA0 (hx : 3 ≤ Lx) (hy : 4 ≤ Ly) (hz : 4 ≤ Lz) :
    Spec (LA0 Lx Ly Lz) (fun a x y z => a = 0 ∧ PA0 Lx Ly Lz x y z) := by
  unfold LA0
  have h := (spec_bx 0 4 (Lx - 3) 4 (Ly - 4) 4 (Lz - 4) tt).append
    ((spec_bx 0 2 1 4 (Ly - 4) 4 (Lz - 4) tt).append
    ((spec_bx 0 4 (Lx - 3) 2 1 4 (Lz - 4) tt).append
    ((spec_bx 0 4 (Lx - 3) 4 (Ly - 4) 2 1 (chk 0)).append
    (spec_bx 0 4 (Lx - 3) 4 (Ly - 4) (2 * Lz - 4) 1 (chk 2))
    (by intro a x y z h1 h2; simp only [chk_iff, tt_iff] at h1 h2; unfold InAp at h1 h2; omega))
    (by intro a x y z h1 h2; simp only [chk_iff, tt_iff] at h1 h2; unfold InAp at h1 h2; omega))
    (by intro a x y z h1 h2; simp only [chk_iff, tt_iff] at h1 h2; unfold InAp at h1 h2; omega))
    (by intro a x y z h1 h2; simp only [chk_iff, tt_iff] at h1 h2; unfold InAp at h1 h2; omega)
  refine h.congr ?_
  intro a x y z
  unfold PA0
  simp only [chk_iff, tt_iff, and_true]
  exact or5_and

/-- listed triangles and the boxes where a triangle is not listed against the four boxes -/
theorem triangles_partition (hx : 3 ≤ Lx) (hy : 4 ≤ Ly) (hz : 4 ≤ Lz) :
    (triangles Lx Ly Lz).length +
      ((L3 Lx Ly Lz).length + ((L2 Lx Ly Lz).length + ((LA1 Lx Ly Lz).length + (LA0 Lx Ly Lz).length))) =
    (bx 3 2 (Lx - 1) 0 (Ly - 1) 0 Lz tt).length + ((bx 2 2 (Lx - 1) 2 (Ly - 1) 0 Lz tt).length +
      ((bx 1 2 (Lx - 1) 2 (Ly - 1) 0 Lz tt).length + (bx 0 2 (Lx - 1) 0 (Ly - 1) 0 Lz tt).length)) := by
  have hA := (spec_triangles Lx Ly Lz).append
    ((spec_L3 hx hy hz).append ((spec_L2 hx hy hz).append ((spec_LA1 hx hy hz).append (spec_LA0 hx hy hz)
      (by intro a x y z h1 h2; omega))
      (by intro a x y z h1 h2; omega))
      (by intro a x y z h1 h2; omega))
    (by
      intro a x y z h1 h2
      rcases h2 with ⟨rfl, h2⟩ | ⟨rfl, h2⟩ | ⟨rfl, h2⟩ | ⟨rfl, h2⟩
      · exact ax3_disj hx hy hz x y z (lt3_iff.mp h1) h2
      · exact ax2_disj hx hy hz x y z (lt2_iff.mp h1) h2
      · exact lt1_disj hx hy hz x y z h1 h2
      · exact lt0_disj hx hy hz x y z h1 h2)
  have hB := (spec_bx 3 2 (Lx - 1) 0 (Ly - 1) 0 Lz tt).append
    ((spec_bx 2 2 (Lx - 1) 2 (Ly - 1) 0 Lz tt).append
      ((spec_bx 1 2 (Lx - 1) 2 (Ly - 1) 0 Lz tt).append (spec_bx 0 2 (Lx - 1) 0 (Ly - 1) 0 Lz tt)
        (by intro a x y z h1 h2; omega))
      (by intro a x y z h1 h2; omega))
    (by intro a x y z h1 h2; omega)
  have h := hA.length_eq hB (by
    intro a x y z
    simp only [tt_iff, and_true]
    constructor
    · rintro (h | ⟨rfl, h⟩ | ⟨rfl, h⟩ | ⟨rfl, h⟩ | ⟨rfl, h⟩)
      · have ha := h.1
        have h4 : a = 0 ∨ a = 1 ∨ a = 2 ∨ a = 3 := by omega
        rcases h4 with rfl | rfl | rfl | rfl
        · exact Or.inr (Or.inr (Or.inr ⟨rfl, (lt0 hx hy hz x y z).mp (Or.inl h)⟩))
        · exact Or.inr (Or.inr (Or.inl ⟨rfl, (lt1 hx hy hz x y z).mp (Or.inl h)⟩))
        · exact Or.inr (Or.inl ⟨rfl, (ax2 hx hy hz x y z).mp (Or.inl (lt2_iff.mp h))⟩)
        · exact Or.inl ⟨rfl, (ax3 hx hy hz x y z).mp (Or.inl (lt3_iff.mp h))⟩
      · exact Or.inl ⟨rfl, (ax3 hx hy hz x y z).mp (Or.inr h)⟩
      · exact Or.inr (Or.inl ⟨rfl, (ax2 hx hy hz x y z).mp (Or.inr h)⟩)
      · exact Or.inr (Or.inr (Or.inl ⟨rfl, (lt1 hx hy hz x y z).mp (Or.inr h)⟩))
      · exact Or.inr (Or.inr (Or.inr ⟨rfl, (lt0 hx hy hz x y z).mp (Or.inr h)⟩))
    · rintro (⟨rfl, h⟩ | ⟨rfl, h⟩ | ⟨rfl, h⟩ | ⟨rfl, h⟩)
      · rcases (ax3 hx hy hz x y z).mpr h with h | h
        · exact Or.inl (lt3_iff.mpr h)
        · exact Or.inr (Or.inl ⟨rfl, h⟩)
      · rcases (ax2 hx hy hz x y z).mpr h with h | h
        · exact Or.inl (lt2_iff.mpr h)
        · exact Or.inr (Or.inr (Or.inl ⟨rfl, h⟩))
      · rcases (lt1 hx hy hz x y z).mpr h with h | h
        · exact Or.inl h
        · exact Or.inr (Or.inr (Or.inr (Or.inl ⟨rfl, h⟩)))
      · rcases (lt0 hx hy hz x y z).mpr h with h | h
        · exact Or.inl h
        · exact Or.inr (Or.inr (Or.inr (Or.inr ⟨rfl, h⟩))))
  simpa only [List.length_append] using h

theorem length_LA1 (Lx Ly Lz : Nat) : (LA1 Lx Ly Lz).length =
    (Lx - 3) * (Ly - 4) * (Lz - 4) + (1 * (Ly - 4) * (Lz - 4) + ((Lx - 3) * 1 * (Lz - 4) +
    (half ((Lx - 3) * ((Ly - 4) * 1)) false +
     half ((Lx - 3) * ((Ly - 4) * 1)) (((4 : Int) + 4 + (2 * (Lz : Int) - 4)) % 4 == 2)))) := by
  unfold LA1
  simp only [List.length_append, length_bx_tt]
  rw [length_bx_chk _ _ _ _ _ _ _ _ (by decide) (by decide),
    length_bx_chk _ _ _ _ _ _ _ _ (by omega) (by decide)]
  rfl

theorem length_LA0 (Lx Ly Lz : Nat) : (LA0 Lx Ly Lz).length =
    (Lx - 3) * (Ly - 4) * (Lz - 4) + (1 * (Ly - 4) * (Lz - 4) + ((Lx - 3) * 1 * (Lz - 4) +
    (half ((Lx - 3) * ((Ly - 4) * 1)) false +
     half ((Lx - 3) * ((Ly - 4) * 1)) (((4 : Int) + 4 + (2 * (Lz : Int) - 4)) % 4 == 2)))) := by
  unfold LA0
  simp only [List.length_append, length_bx_tt]
  rw [length_bx_chk _ _ _ _ _ _ _ _ (by decide) (by decide),
    length_bx_chk _ _ _ _ _ _ _ _ (by omega) (by decide)]
  rfl

theorem half_compl (m : Nat) (b : Bool) : half m b + half m (!b) = m := by
  unfold half; cases b <;> simp <;> omega

theorem lz_bool_compl (Lz : Nat) (hz : 4 ≤ Lz) :
    ((((4 : Int) + 4 + (2 * (Lz : Int) - 4)) % 4 == 2)) =
      !((((4 : Int) + 4 + (2 * (Lz : Int) - 4)) % 4 == 0)) := by
  have h : ((4 : Int) + 4 + (2 * (Lz : Int) - 4)) % 4 = 0 ∨
      ((4 : Int) + 4 + (2 * (Lz : Int) - 4)) % 4 = 2 := by omega
  rcases h with h | h <;> rw [h] <;> decide

/-- the number of listed triangles of a size with a hole -/
theorem triangles_count_hole (hx : 3 ≤ Lx) (hy : 4 ≤ Ly) (hz : 4 ≤ Lz) :
    (triangles Lx Ly Lz).length + 4 * ((Lx - 3) * (Ly - 4) * (Lz - 4) + (Ly - 4) * (Lz - 4) +
      (Lx - 3) * (Lz - 4) + (Lx - 3) * (Ly - 4)) = 4 * ((Lx - 1) * (Ly - 1) * Lz) := by
  have h := triangles_partition hx hy hz
  rw [length_L3, length_L2, length_LA1, length_LA0, length_bx_tt, length_bx_tt, length_bx_tt,
    length_bx_tt, lz_bool_compl Lz hz] at h
  have c1 := half_compl ((Lx - 3) * ((Ly - 4) * 1)) true
  have c2 := half_compl ((Lx - 3) * ((Ly - 4) * 1)) (((4 : Int) + 4 + (2 * (Lz : Int) - 4)) % 4 == 0)
  simp only [Bool.not_true] at c1
  generalize half ((Lx - 3) * ((Ly - 4) * 1)) true = t1 at *
  generalize half ((Lx - 3) * ((Ly - 4) * 1)) false = t2 at *
  generalize half ((Lx - 3) * ((Ly - 4) * 1)) (((4 : Int) + 4 + (2 * (Lz : Int) - 4)) % 4 == 0) = t3 at *
  generalize half ((Lx - 3) * ((Ly - 4) * 1))
    (!(((4 : Int) + 4 + (2 * (Lz : Int) - 4)) % 4 == 0)) = t4 at *
  simp only [Nat.one_mul, Nat.mul_one] at h c1 c2
  generalize (Lx - 3) * (Ly - 4) * (Lz - 4) = ABC at *
  generalize (Ly - 4) * (Lz - 4) = BC at *
  generalize (Lx - 3) * (Lz - 4) = AC at *
  generalize (Lx - 3) * (Ly - 4) = AB at *
  generalize (Lx - 1) * (Ly - 1) * Lz = V at *
  omega

/-- the number of listed triangles of a size without hole -/
theorem triangles_count_noHole (h : Lx ≤ 2 ∨ Ly ≤ 3 ∨ Lz ≤ 3) (hx : 2 ≤ Lx) (hy : 2 ≤ Ly) :
    (triangles Lx Ly Lz).length = 4 * ((Lx - 1) * (Ly - 1) * Lz) := by
  have hN : NoHole Lx Ly Lz := by
    unfold NoHole; omega
  have hB := (spec_bx 3 2 (Lx - 1) 0 (Ly - 1) 0 Lz tt).append
    ((spec_bx 2 2 (Lx - 1) 2 (Ly - 1) 0 Lz tt).append
      ((spec_bx 1 2 (Lx - 1) 2 (Ly - 1) 0 Lz tt).append (spec_bx 0 2 (Lx - 1) 0 (Ly - 1) 0 Lz tt)
        (by intro a x y z h1 h2; omega))
      (by intro a x y z h1 h2; omega))
    (by intro a x y z h1 h2; omega)
  have hl := (spec_triangles Lx Ly Lz).length_eq hB (by
    intro a x y z
    simp only [tt_iff, and_true]
    unfold LT
    constructor
    · rintro ⟨ha, hv, hp⟩
      have hv' := hv
      unfold VertexLoc inE2 inE at hv'
      have h5 := hp.2.2.2.2
      have h4 : a = 0 ∨ a = 1 ∨ a = 2 ∨ a = 3 := by omega
      rcases h4 with rfl | rfl | rfl | rfl
      · rw [sgnY_0] at h5; right; right; right; unfold InAp; omega
      · rw [sgnY_1] at h5; right; right; left; unfold InAp; omega
      · rw [sgnY_2] at h5; right; left; unfold InAp; omega
      · rw [sgnY_3] at h5; left; unfold InAp; omega
    · rintro (⟨rfl, hb⟩ | ⟨rfl, hb⟩ | ⟨rfl, hb⟩ | ⟨rfl, hb⟩) <;> unfold InAp at hb
      · refine ⟨by decide, by unfold VertexLoc inE2 inE; omega, ?_⟩
        rw [pt_noHole hN (by omega) (by omega) (by omega), sgnY_3]; omega
      · refine ⟨by decide, by unfold VertexLoc inE2 inE; omega, ?_⟩
        rw [pt_noHole hN (by omega) (by omega) (by omega), sgnY_2]; omega
      · refine ⟨by decide, by unfold VertexLoc inE2 inE; omega, ?_⟩
        rw [pt_noHole hN (by omega) (by omega) (by omega), sgnY_1]; omega
      · refine ⟨by decide, by unfold VertexLoc inE2 inE; omega, ?_⟩
        rw [pt_noHole hN (by omega) (by omega) (by omega), sgnY_0]; omega)
  rw [hl]
  simp only [List.length_append, length_bx_tt]
  generalize (Lx - 1) * (Ly - 1) * Lz = V
  omega

end

end Panqec.HollowRhombicCode
