/-
`HollowRhombicCode`, rank clause, part F: the probes of `Proofs/LatHollowRhombicCodeRankB.lean` form
a triangular family on `rankFamily` (`Lat2D.TriangularOpProbes`), for EVERY size with `Ly ≥ 1`; the
members of `rankFamily` are therefore independent.  Core Lean only.
-/
import PanqecVerif.Proofs.LatHollowRhombicCodeRankDb
import PanqecVerif.Proofs.LatHollowRhombicCodeRankE

set_option linter.unusedVariables false
set_option linter.unusedSimpArgs false

namespace Panqec.HollowRhombicCode
open Panqec.Cubic3D
open Panqec.Planar3DCode (inE inO inE2 inO1)

section
variable {Lx Ly Lz : Nat} {a x y z : Int}

theorem triKeys_sub {q : Coord} (h : q ∈ triKeys Lx Ly Lz a x y z) : q ∈ qubits Lx Ly Lz :=
  isq_iff.mp (List.mem_filter.mp h).2

theorem cubeKeys_sub {q : Coord} (h : q ∈ cubeKeys Lx Ly Lz x y z) : q ∈ qubits Lx Ly Lz :=
  isq_iff.mp (List.mem_filter.mp h).2

theorem xleg_mem (hv : VertexLoc Lx Ly Lz x y z) (hp : PT Lx Ly Lz a x y z) :
    [x + sgnX a, y, z] ∈ triKeys Lx Ly Lz a x y z := by
  rw [triKeys_pt hv hp]; simp

theorem yleg_mem (hv : VertexLoc Lx Ly Lz x y z) (hp : PT Lx Ly Lz a x y z) :
    [x, y + sgnY a, z] ∈ triKeys Lx Ly Lz a x y z := by
  rw [triKeys_pt hv hp]; simp

theorem zleg_mem (hv : VertexLoc Lx Ly Lz x y z) (hp : PT Lx Ly Lz a x y z)
    (hr : 1 ≤ z + sgnZ a x y z ∧ z + sgnZ a x y z ≤ 2 * (Lz : Int) - 3) :
    [x, y, z + sgnZ a x y z] ∈ triKeys Lx Ly Lz a x y z := by
  rw [triKeys_pt hv hp, if_pos ((tz_iff hv).mpr ⟨hr.1, hr.2, hp.2.2.2.1⟩)]; simp

theorem sgnZ0_pos (h : (x + y + z) % 4 = 0) : sgnZ 0 x y z = 1 := by
  unfold sgnZ; rw [if_pos ⟨fun _ => h, fun _ => Or.inl rfl⟩]
theorem sgnZ0_neg (h : (x + y + z) % 4 ≠ 0) : sgnZ 0 x y z = -1 := by
  unfold sgnZ; rw [if_neg (fun e => h (e.mp (Or.inl rfl)))]

/-- the kinds of probes of a selected triangle -/
theorem probeKeys_cases (hs : TS Lx Ly Lz a x y z) :
    (a = 3 ∧ probeKeys Lx Ly Lz a x y z = [[x - 1, y, z]]) ∨
    (a = 2 ∧ probeKeys Lx Ly Lz a x y z = [[x, y - 1, z]]) ∨
    (a = 1 ∧ ¬ PT Lx Ly Lz 3 x y z ∧ probeKeys Lx Ly Lz a x y z = [[x - 1, y, z]]) ∨
    (a = 1 ∧ ¬ PT Lx Ly Lz 2 x y z ∧ probeKeys Lx Ly Lz a x y z = [[x, y - 1, z]]) ∨
    (a = 0 ∧ x = 2 * (Lx : Int) - 2 ∧ probeKeys Lx Ly Lz a x y z = [[x + 1, y, z]]) ∨
    (a = 0 ∧ x ≠ 2 * (Lx : Int) - 2 ∧ (x + y + z) % 4 = 2 ∧ 2 ≤ z ∧
      probeKeys Lx Ly Lz a x y z = [[x, y, z - 1]]) ∨
    (a = 0 ∧ x = 2 ∧ y = 2 ∧ QC Lx Ly Lz 2 2 z ∧ (4 ≤ Lx ∧ 4 ≤ Ly) ∧
      probeKeys Lx Ly Lz a x y z = [[3, 2, z], [4, 2, z - 1], [3, 2, z - 2]]) ∨
    (a = 0 ∧ x = 2 ∧ y = 2 ∧ QC Lx Ly Lz 2 2 z ∧ (Lx = 3 ∧ 5 ≤ Ly) ∧
      probeKeys Lx Ly Lz a x y z = [[2, 3, z], [2, 4, z - 1], [2, 3, z - 2]]) ∨
    (a = 0 ∧ x = 2 ∧ z = 2 ∧ QY Lx Ly Lz 2 y 2 ∧
      probeKeys Lx Ly Lz a x y z = [[3, y, 2], [4, y - 1, 2], [3, y - 2, 2]]) ∨
    (a = 0 ∧ y = 2 ∧ z = 2 ∧ QX Lx Ly Lz x 2 2 ∧
      probeKeys Lx Ly Lz a x y z = [[x, 3, 2], [x - 1, 4, 2]]) ∨
    (a = 0 ∧ (x + y + z) % 4 = 0 ∧ z < 2 * (Lz : Int) - 2 ∧ ¬ PT Lx Ly Lz 0 x y (z + 2) ∧
      probeKeys Lx Ly Lz a x y z = [[x, y, z + 1]]) := by
  obtain ⟨ha, hv, hp, hc⟩ := hs
  have hv' := hv
  unfold VertexLoc inE2 inE at hv'
  unfold SelC at hc
  unfold probeKeys
  rcases hc with rfl | rfl | ⟨rfl, hc⟩ | ⟨rfl, hc⟩
  · left; exact ⟨rfl, by simp⟩
  · right; left; exact ⟨rfl, by simp⟩
  · by_cases h3 : PT Lx Ly Lz 3 x y z
    · right; right; right; left
      rcases hc with hc | hc
      · exact absurd h3 hc
      · exact ⟨rfl, hc, by simp [h3]⟩
    · right; right; left
      exact ⟨rfl, h3, by simp [h3]⟩
  · by_cases hx : x = 2 * (Lx : Int) - 2
    · right; right; right; right; left
      exact ⟨rfl, hx, by simp [hx]⟩
    · by_cases h2 : (x + y + z) % 4 = 2
      · right; right; right; right; right; left
        have hz : 2 ≤ z := by
          rcases hc with hc | hc | hc | hc | hc | hc
          · exact absurd hc hx
          · exact hc.2
          · omega
          · unfold QC at hc; omega
          · unfold QY at hc; omega
          · unfold QX at hc; omega
        exact ⟨rfl, hx, h2, hz, by simp [hx, h2]⟩
      · by_cases hq : QC Lx Ly Lz x y z
        · have hq' := hq
          unfold QC at hq'
          obtain ⟨hx2, hy2, _, _, _, hgd⟩ := hq'
          by_cases h4 : 4 ≤ Lx
          · right; right; right; right; right; right; left
            refine ⟨rfl, hx2, hy2, ?_, ⟨h4, by omega⟩, ?_⟩
            · rw [hx2, hy2] at hq; exact hq
            · rw [if_neg (by decide), if_neg (by decide), if_neg (by decide), if_neg hx, if_neg h2,
                if_pos hq, if_pos h4]
          · right; right; right; right; right; right; right; left
            refine ⟨rfl, hx2, hy2, ?_, by omega, ?_⟩
            · rw [hx2, hy2] at hq; exact hq
            · rw [if_neg (by decide), if_neg (by decide), if_neg (by decide), if_neg hx, if_neg h2,
                if_pos hq, if_neg h4]
        · by_cases hqy : QY Lx Ly Lz x y z
          · have hq' := hqy
            unfold QY at hq'
            obtain ⟨hx2, _, _, hz2, _⟩ := hq'
            right; right; right; right; right; right; right; right; left
            refine ⟨rfl, hx2, hz2, ?_, ?_⟩
            · rw [hx2, hz2] at hqy; exact hqy
            · rw [if_neg (by decide), if_neg (by decide), if_neg (by decide), if_neg hx, if_neg h2,
                if_neg hq, if_pos hqy]
          · by_cases hqx : QX Lx Ly Lz x y z
            · have hq' := hqx
              unfold QX at hq'
              obtain ⟨_, _, hy2, hz2, _⟩ := hq'
              right; right; right; right; right; right; right; right; right; left
              refine ⟨rfl, hy2, hz2, ?_, ?_⟩
              · rw [hy2, hz2] at hqx; exact hqx
              · rw [if_neg (by decide), if_neg (by decide), if_neg (by decide), if_neg hx, if_neg h2,
                  if_neg hq, if_neg hqy, if_pos hqx]
            · right; right; right; right; right; right; right; right; right; right
              rcases hc with hc | hc | hc | hc | hc | hc
              · exact absurd hc hx
              · exact absurd hc.1 h2
              · exact ⟨rfl, hc.1, hc.2.1, hc.2.2, by simp [hx, h2, hq, hqy, hqx]⟩
              · exact absurd hc hq
              · exact absurd hc hqy
              · exact absurd hc hqx

/-- every qubit of the probe of a selected triangle is a qubit -/
theorem probeKeys_qubits (hs : TS Lx Ly Lz a x y z) :
    ∀ q ∈ probeKeys Lx Ly Lz a x y z, q ∈ qubits Lx Ly Lz := by
  have hv := hs.2.1
  have hp := hs.2.2.1
  have hv' := hv
  unfold VertexLoc inE2 inE at hv'
  rcases probeKeys_cases hs with ⟨rfl, e⟩ | ⟨rfl, e⟩ | ⟨rfl, _, e⟩ | ⟨rfl, _, e⟩ | ⟨rfl, _, e⟩ |
    ⟨rfl, _, h2, hz, e⟩ | ⟨rfl, rfl, rfl, hq, hg, e⟩ | ⟨rfl, rfl, rfl, hq, hg, e⟩ | ⟨rfl, rfl, rfl, hqy, e⟩ | ⟨rfl, rfl, rfl, hqx, e⟩ |
    ⟨rfl, h0, hz, _, e⟩ <;> rw [e] <;> intro q hq'
  · simp only [List.mem_cons, List.not_mem_nil, or_false] at hq'; subst hq'
    exact triKeys_sub (xleg_mem hv hp)
  · simp only [List.mem_cons, List.not_mem_nil, or_false] at hq'; subst hq'
    exact triKeys_sub (yleg_mem hv hp)
  · simp only [List.mem_cons, List.not_mem_nil, or_false] at hq'; subst hq'
    exact triKeys_sub (xleg_mem hv hp)
  · simp only [List.mem_cons, List.not_mem_nil, or_false] at hq'; subst hq'
    exact triKeys_sub (yleg_mem hv hp)
  · simp only [List.mem_cons, List.not_mem_nil, or_false] at hq'; subst hq'
    exact triKeys_sub (xleg_mem hv hp)
  · simp only [List.mem_cons, List.not_mem_nil, or_false] at hq'; subst hq'
    have e1 := sgnZ0_neg (x := x) (y := y) (z := z) (by omega)
    have := zleg_mem hv hp (by rw [e1]; omega)
    rw [e1] at this
    exact triKeys_sub this
  · obtain ⟨q1, q2, q3⟩ := q_qubits hq hg
    simp only [List.mem_cons, List.not_mem_nil, or_false] at hq'
    rcases hq' with rfl | rfl | rfl <;> assumption
  · obtain ⟨q1, q2, q3⟩ := r_qubits hq hg
    simp only [List.mem_cons, List.not_mem_nil, or_false] at hq'
    rcases hq' with rfl | rfl | rfl <;> assumption
  · obtain ⟨q1, q2, q3⟩ := y_qubits hqy
    simp only [List.mem_cons, List.not_mem_nil, or_false] at hq'
    rcases hq' with rfl | rfl | rfl <;> assumption
  · obtain ⟨q1, q2⟩ := x_qubits hqx
    simp only [List.mem_cons, List.not_mem_nil, or_false] at hq'
    rcases hq' with rfl | rfl <;> assumption
  · simp only [List.mem_cons, List.not_mem_nil, or_false] at hq'; subst hq'
    have e1 := sgnZ0_pos h0
    have := zleg_mem hv hp (by rw [e1]; omega)
    rw [e1] at this
    exact triKeys_sub this

theorem probeKeys_nodup (hs : TS Lx Ly Lz a x y z) : (probeKeys Lx Ly Lz a x y z).Nodup := by
  rcases probeKeys_cases hs with ⟨rfl, e⟩ | ⟨rfl, e⟩ | ⟨rfl, _, e⟩ | ⟨rfl, _, e⟩ | ⟨rfl, _, e⟩ |
    ⟨rfl, _, h2, hz, e⟩ | ⟨rfl, rfl, rfl, hq, hg, e⟩ | ⟨rfl, rfl, rfl, hq, hg, e⟩ | ⟨rfl, rfl, rfl, hqy, e⟩ | ⟨rfl, rfl, rfl, hqx, e⟩ |
    ⟨rfl, h0, hz, _, e⟩ <;> rw [e] <;>
    simp only [List.nodup_cons, List.mem_cons, List.cons.injEq, and_true, List.not_mem_nil, or_false,
      not_false_eq_true, List.nodup_nil]
  · omega
  · omega
  · omega
  · omega

/-- the number of probe qubits of a selected triangle among its own keys is odd -/
theorem probeKeys_diag (hs : TS Lx Ly Lz a x y z) :
    ((probeKeys Lx Ly Lz a x y z).countP fun q => decide (q ∈ triKeys Lx Ly Lz a x y z)) % 2 = 1 := by
  have hv := hs.2.1
  have hp := hs.2.2.1
  have hv' := hv
  unfold VertexLoc inE2 inE at hv'
  rcases probeKeys_cases hs with ⟨rfl, e⟩ | ⟨rfl, e⟩ | ⟨rfl, _, e⟩ | ⟨rfl, _, e⟩ | ⟨rfl, _, e⟩ |
    ⟨rfl, _, h2, hz, e⟩ | ⟨rfl, rfl, rfl, hq, hg, e⟩ | ⟨rfl, rfl, rfl, hq, hg, e⟩ | ⟨rfl, rfl, rfl, hqy, e⟩ | ⟨rfl, rfl, rfl, hqx, e⟩ |
    ⟨rfl, h0, hz, _, e⟩ <;> rw [e]
  · have := xleg_mem hv hp
    simp [List.countP_cons, show x - 1 = x + sgnX 3 from rfl, this]
  · have := yleg_mem hv hp
    simp [List.countP_cons, show y - 1 = y + sgnY 2 from rfl, this]
  · have := xleg_mem hv hp
    simp [List.countP_cons, show x - 1 = x + sgnX 1 from rfl, this]
  · have := yleg_mem hv hp
    simp [List.countP_cons, show y - 1 = y + sgnY 1 from rfl, this]
  · have := xleg_mem hv hp
    simp [List.countP_cons, show x + 1 = x + sgnX 0 from rfl, this]
  · have e1 := sgnZ0_neg (x := x) (y := y) (z := z) (by omega)
    have := zleg_mem hv hp (by rw [e1]; omega)
    rw [e1] at this
    simp [List.countP_cons, show z - 1 = z + -1 from rfl, this]
  · rw [diag_q hq hg]
  · rw [diag_r hq hg]
  · rw [diag_y hqy]
  · rw [diag_x hqx]
  · have e1 := sgnZ0_pos h0
    have := zleg_mem hv hp (by rw [e1]; omega)
    rw [e1] at this
    simp [List.countP_cons, this]

/-- a selected triangle other than `s` of rank not smaller contains an even number of the probe
    qubits of `s` -/
theorem probeKeys_later {b u v w : Int} (hs : TS Lx Ly Lz a x y z) (ht : TS Lx Ly Lz b u v w)
    (hne : ¬ (a = b ∧ x = u ∧ y = v ∧ z = w))
    (hle : mu Ly Lz [a, x, y, z] ≤ mu Ly Lz [b, u, v, w]) :
    ((probeKeys Lx Ly Lz a x y z).countP fun q => decide (q ∈ triKeys Lx Ly Lz b u v w)) % 2 = 0 := by
  rcases probeKeys_cases hs with ⟨ha, e⟩ | ⟨ha, e⟩ | ⟨ha, hn, e⟩ | ⟨ha, hn, e⟩ | ⟨ha, hx, e⟩ |
    ⟨ha, hx, h2, hz, e⟩ | ⟨ha, rfl, rfl, hq, hg, e⟩ | ⟨ha, rfl, rfl, hq, hg, e⟩ | ⟨ha, rfl, rfl, hqy, e⟩ |
    ⟨ha, rfl, rfl, hqx, e⟩ | ⟨ha, h0, hz, hn, e⟩ <;> rw [e]
  · have : [x - 1, y, z] ∉ triKeys Lx Ly Lz b u v w := fun h => later_3 hs ht hne hle ha h
    simp [List.countP_cons, this]
  · have : [x, y - 1, z] ∉ triKeys Lx Ly Lz b u v w := fun h => later_2 hs ht hne hle ha h
    simp [List.countP_cons, this]
  · have : [x - 1, y, z] ∉ triKeys Lx Ly Lz b u v w := fun h => later_1x hs ht hne hle ha hn h
    simp [List.countP_cons, this]
  · have : [x, y - 1, z] ∉ triKeys Lx Ly Lz b u v w := fun h => later_1y hs ht hne hle ha hn h
    simp [List.countP_cons, this]
  · have : [x + 1, y, z] ∉ triKeys Lx Ly Lz b u v w := fun h => later_0x hs ht hne hle ha hx h
    simp [List.countP_cons, this]
  · have : [x, y, z - 1] ∉ triKeys Lx Ly Lz b u v w := fun h => later_0d hs ht hne hle ha hx h2 h
    simp [List.countP_cons, this]
  · subst ha
    exact later_q hq hg hs ht hne hle
  · subst ha
    exact later_r hq hg hs ht hne hle
  · subst ha
    exact later_y hqy hs ht hne hle
  · subst ha
    exact later_x hqx hs ht hne hle
  · have : [x, y, z + 1] ∉ triKeys Lx Ly Lz b u v w := fun h => later_0u hs ht hne hle ha h0 hn h
    simp [List.countP_cons, this]

end

/-- the probes form a triangular family on `rankFamily` -/
theorem triangular (Lx Ly Lz : Nat) (hy : 1 ≤ Ly) :
    Lat2D.TriangularOpProbes (lattice Lx Ly Lz) (rankFamily Lx Ly Lz) (probe Lx Ly Lz) (mu Ly Lz) where
  keys_nodup := by
    intro s hs
    rcases mem_rankFamily.mp hs with ⟨x, y, z, rfl, hc⟩ | ⟨a, x, y, z, rfl, ht⟩
    · simp [probe]
    · simp only [probe, uop_keys]; exact probeKeys_nodup ht
  on_qubits := by
    intro s hs e he
    rcases mem_rankFamily.mp hs with ⟨x, y, z, rfl, hc⟩ | ⟨a, x, y, z, rfl, ht⟩
    · simp only [probe, List.mem_cons, List.not_mem_nil, or_false] at he
      subst he
      exact ⟨cubeKeys_sub (cubeProbe_mem hy hc), fun h => Pauli.noConfusion h⟩
    · simp only [probe] at he
      obtain ⟨h1, h2⟩ := mem_uop.mp he
      exact ⟨probeKeys_qubits ht _ h1, by rw [h2]; exact fun h => Pauli.noConfusion h⟩
  diag := by
    intro s hs
    rcases mem_rankFamily.mp hs with ⟨x, y, z, rfl, hc⟩ | ⟨a, x, y, z, rfl, ht⟩
    · rw [getStab_cube']
      show opAntiCount (([cubeProbe Lx Ly Lz x y z]).map fun q => (q, Pauli.Z))
        ((cubeKeys Lx Ly Lz x y z).map fun q => (q, Pauli.X)) % 2 = 1
      rw [Lat2D.opAntiCount_constProbe, if_pos (by decide)]
      simp [List.countP_cons, cubeProbe_mem hy hc]
    · rw [getStab_tri' _ _ _ ht.1]
      show opAntiCount ((probeKeys Lx Ly Lz a x y z).map fun q => (q, Pauli.X))
        ((triKeys Lx Ly Lz a x y z).map fun q => (q, Pauli.Z)) % 2 = 1
      rw [Lat2D.opAntiCount_constProbe, if_pos (by decide)]
      exact probeKeys_diag ht
  later := by
    intro s hs t ht hne hle
    rcases mem_rankFamily.mp hs with ⟨x, y, z, rfl, hc⟩ | ⟨a, x, y, z, rfl, hts⟩ <;>
    rcases mem_rankFamily.mp ht with ⟨u, v, w, rfl, hc'⟩ | ⟨b, u, v, w, rfl, htt⟩
    · rw [getStab_cube']
      show opAntiCount (([cubeProbe Lx Ly Lz x y z]).map fun q => (q, Pauli.Z))
        ((cubeKeys Lx Ly Lz u v w).map fun q => (q, Pauli.X)) % 2 = 0
      rw [Lat2D.opAntiCount_constProbe, if_pos (by decide)]
      have : cubeProbe Lx Ly Lz x y z ∉ cubeKeys Lx Ly Lz u v w := fun h =>
        later_cube hy hc hc' (by rintro ⟨rfl, rfl, rfl⟩; exact hne rfl) hle h
      simp [List.countP_cons, this]
    · rw [getStab_tri' _ _ _ htt.1]
      show opAntiCount (([cubeProbe Lx Ly Lz x y z]).map fun q => (q, Pauli.Z))
        ((triKeys Lx Ly Lz b u v w).map fun q => (q, Pauli.Z)) % 2 = 0
      rw [Lat2D.opAntiCount_constProbe, if_neg (by decide)]
    · rw [getStab_cube']
      show opAntiCount ((probeKeys Lx Ly Lz a x y z).map fun q => (q, Pauli.X))
        ((cubeKeys Lx Ly Lz u v w).map fun q => (q, Pauli.X)) % 2 = 0
      rw [Lat2D.opAntiCount_constProbe, if_neg (by decide)]
    · rw [getStab_tri' _ _ _ htt.1]
      show opAntiCount ((probeKeys Lx Ly Lz a x y z).map fun q => (q, Pauli.X))
        ((triKeys Lx Ly Lz b u v w).map fun q => (q, Pauli.Z)) % 2 = 0
      rw [Lat2D.opAntiCount_constProbe, if_pos (by decide)]
      exact probeKeys_later hts htt (by rintro ⟨rfl, rfl, rfl, rfl⟩; exact hne rfl) hle

/-- the members of `rankFamily` are independent: every size with `Ly ≥ 1` -/
theorem indep_rankFamily (Lx Ly Lz : Nat) (hy : 1 ≤ Ly) :
    Lat2D.IndepGenerators (lattice Lx Ly Lz) (rankFamily Lx Ly Lz) :=
  Lat2D.indep_of_triangularOp (triangular Lx Ly Lz hy)

end Panqec.HollowRhombicCode
