/-
HollowRhombicCode, all sizes of the family (`Lx, Ly ≥ 2`, `Lz ≥ 3`), C17 part A: the representatives of
the packing argument and their parities.

* `sheetH Lx Ly Lz h` — the existing x- and y-edges of the plane `z = h` (the listed logical X is
  `sheetH 4`); a sheet meets every listed triangle in 0 or 2 qubits (`sheetH_tri_even`, the proof of
  `sheet_tri_even` at an arbitrary even height: a listed triangle has its x key iff it has its y
  key), and shares exactly one qubit with the listed line (`line_sheetH_one`);
* `stackK Lz sx sy` — the vertical stack of the edges `(sx, sy, z)`, `z` even; if `(sx, sy, 4)` is a
  qubit, all of them are (`stack_sub`: the hole has the same cross-section at every height it
  reaches, and it reaches the height 4 whenever it reaches an even height), the stack meets every
  cube in 0 or 2 qubits (`stack_cube_even`) and the listed sheet in exactly one (`sheet_stack_one`).

Unlike `RhombicPlanarCode`, no generator products are exhibited: a representative only has to
commute with all generators and to have the parities of the listed logical against the two listed
logicals (`Lattice.same_class`, i.e. C04 on the valid code).  Core Lean only.
-/
import PanqecVerif.Proofs.LatHollowRhombicCodeE

set_option linter.unusedVariables false
set_option linter.unusedSimpArgs false

namespace Panqec.HollowRhombicCode
open Panqec.Cubic3D
open Panqec.Planar3DCode (inE inO inE2 inO1)

/-! ### sheets at an arbitrary height -/

/-- the candidate keys of the sheet `z = h` -/
def sheetCandsH (Lx Ly : Nat) (h : Int) : List Coord :=
  (range1 0 (2 * Lx)).flatMap fun x => (range1 0 (2 * Ly)).map fun y => [x, y, h]

theorem sheetCands_eq (Lx Ly : Nat) : sheetCands Lx Ly = sheetCandsH Lx Ly 4 := rfl

theorem mem_sheetCandsH {Lx Ly : Nat} {h : Int} {q : Coord} :
    q ∈ sheetCandsH Lx Ly h ↔
      ∃ x y, q = [x, y, h] ∧ 0 ≤ x ∧ x < 2 * (Lx : Int) ∧ 0 ≤ y ∧ y < 2 * (Ly : Int) := by
  unfold sheetCandsH
  simp only [List.mem_flatMap, List.mem_map, mem_range1]
  constructor
  · rintro ⟨x, hx, y, hy, rfl⟩; exact ⟨x, y, rfl, hx.1, hx.2, hy.1, hy.2⟩
  · rintro ⟨x, y, rfl, h1, h2, h3, h4⟩; exact ⟨x, ⟨h1, h2⟩, y, ⟨h3, h4⟩, rfl⟩

theorem nodup_sheetCandsH (Lx Ly : Nat) (h : Int) : (sheetCandsH Lx Ly h).Nodup := by
  unfold sheetCandsH
  show List.Pairwise _ _
  rw [List.pairwise_flatMap]
  constructor
  · intro x _
    rw [List.pairwise_map]
    exact (nodup_range1 _).imp (fun h e => h (by simpa using e))
  · refine List.Pairwise.imp ?_ (nodup_range1 _)
    intro a b hab q hq r hr e
    subst e
    simp only [List.mem_map] at hq hr
    obtain ⟨y, _, rfl⟩ := hq
    obtain ⟨y', _, e⟩ := hr
    apply hab
    simp only [List.cons.injEq, and_true] at e
    exact e.1.symm

/-- the keys of the sheet `z = h`: the candidates that are qubits -/
def sheetH (Lx Ly Lz : Nat) (h : Int) : List Coord := (sheetCandsH Lx Ly h).filter (isq Lx Ly Lz)

theorem sheetKeys_eq (Lx Ly Lz : Nat) : sheetKeys Lx Ly Lz = sheetH Lx Ly Lz 4 := rfl

theorem nodup_sheetH (Lx Ly Lz : Nat) (h : Int) : (sheetH Lx Ly Lz h).Nodup :=
  (nodup_sheetCandsH Lx Ly h).filter _

theorem sheetH_sub {Lx Ly Lz : Nat} {h : Int} : ∀ q ∈ sheetH Lx Ly Lz h, q ∈ qubits Lx Ly Lz :=
  fun q hq => isq_iff.mp (List.mem_filter.mp hq).2

theorem sheetH_height {Lx Ly Lz : Nat} {h : Int} {q : Coord} (hq : q ∈ sheetH Lx Ly Lz h) :
    ∃ x y, q = [x, y, h] := by
  obtain ⟨x, y, e, _⟩ := mem_sheetCandsH.mp (List.mem_filter.mp hq).1
  exact ⟨x, y, e⟩

/-- the sheet `z = h` (`h` even) against a listed triangle: its x and y keys at height `h` -/
theorem sheetH_tri_even {Lx Ly Lz : Nat} {h a x y z : Int} (hh : h % 2 = 0) (ha : 0 ≤ a ∧ a < 4)
    (hv : VertexLoc Lx Ly Lz x y z)
    (hk : TriKeep Lx Ly Lz (TX Lx Ly Lz a x y z) (TY Lx Ly Lz a x y z) (TZ Lx Ly Lz a x y z) x y z) :
    ov (triKeys Lx Ly Lz a x y z) (sheetH Lx Ly Lz h) % 2 = 0 := by
  have hv' := hv
  unfold VertexLoc inE2 inE at hv'
  obtain ⟨⟨x0, x1, ex⟩, ⟨y0, y1, ey⟩, z0, z1, ez⟩ := hv'
  have hsx := sgnX_cases a
  have hsy := sgnY_cases a
  have hsz := sgnZ_cases a x y z
  have hxy : TX Lx Ly Lz a x y z ↔ TY Lx Ly Lz a x y z := keep_xy hv hsx hsy hsz hk
  have e3 : (isq Lx Ly Lz [x, y, z + sgnZ a x y z] &&
      decide ([x, y, z + sgnZ a x y z] ∈ sheetCandsH Lx Ly h)) = false := by
    rw [Bool.and_eq_false_iff]
    right
    simp only [decide_eq_false_iff_not, mem_sheetCandsH, List.cons.injEq, and_true]
    rintro ⟨x', y', ⟨h1, h2, h⟩, h3⟩
    rcases hsz with h' | h' <;> rw [h'] at h <;> omega
  have e1 : (isq Lx Ly Lz [x + sgnX a, y, z] && decide ([x + sgnX a, y, z] ∈ sheetCandsH Lx Ly h)) =
      decide (TX Lx Ly Lz a x y z ∧ z = h) := by
    rw [Bool.eq_iff_iff]
    simp only [Bool.and_eq_true, decide_eq_true_eq, isq_tx ex ey ez, mem_sheetCandsH, List.cons.injEq,
      and_true]
    constructor
    · rintro ⟨h1, x', y', ⟨_, _, h⟩, _⟩; exact ⟨h1, h⟩
    · rintro ⟨h1, h⟩
      refine ⟨h1, x + sgnX a, y, ⟨rfl, rfl, h⟩, ?_⟩
      unfold TX Qx at h1
      omega
  have e2 : (isq Lx Ly Lz [x, y + sgnY a, z] && decide ([x, y + sgnY a, z] ∈ sheetCandsH Lx Ly h)) =
      decide (TY Lx Ly Lz a x y z ∧ z = h) := by
    rw [Bool.eq_iff_iff]
    simp only [Bool.and_eq_true, decide_eq_true_eq, isq_ty ex ey ez, mem_sheetCandsH, List.cons.injEq,
      and_true]
    constructor
    · rintro ⟨h1, x', y', ⟨_, _, h⟩, _⟩; exact ⟨h1, h⟩
    · rintro ⟨h1, h⟩
      refine ⟨h1, x, y + sgnY a, ⟨rfl, rfl, h⟩, ?_⟩
      unfold TY Qy at h1
      omega
  unfold triKeys sheetH
  rw [ov_filter_filter]
  unfold triCands
  simp only [List.countP_cons, List.countP_nil, e1, e2, e3]
  by_cases htx : TX Lx Ly Lz a x y z
  · have hty := hxy.mp htx
    by_cases h4 : z = h
    · subst h4; simp [htx, hty]
    · simp [htx, hty, h4]
  · have hty : ¬ TY Lx Ly Lz a x y z := fun h => htx (hxy.mpr h)
    simp [htx, hty]

/-- the listed line and the sheet `z = h` (`h` even, `0 ≤ h < 2Lz`) share exactly the qubit
    `(2Lx−1, 2Ly−2, h)` -/
theorem line_sheetH_one {Lx Ly Lz : Nat} (hx : 1 ≤ Lx) (hy : 1 ≤ Ly) {h : Int} (hh : inE Lz h) :
    ov (lineKeys Lx Ly Lz) (sheetH Lx Ly Lz h) = 1 := by
  apply ov_eq_one (nodup_lineKeys Lx Ly Lz) [2 * (Lx : Int) - 1, 2 * (Ly : Int) - 2, h]
  · exact mem_lineKeys.mpr ⟨h, rfl, hh⟩
  · intro e he
    obtain ⟨z, rfl, hz'⟩ := mem_lineKeys.mp he
    have hq := lineKeys_sub (Lz := Lz) hx hy _ he
    unfold sheetH
    constructor
    · intro h'
      obtain ⟨x', y', hq', _⟩ := mem_sheetCandsH.mp (List.mem_filter.mp h').1
      simp only [List.cons.injEq, and_true] at hq'
      rw [hq'.2.2]
    · intro h'
      have hz4 : z = h := by simpa using h'
      subst hz4
      exact List.mem_filter.mpr ⟨mem_sheetCandsH.mpr ⟨_, _, rfl, by omega, by omega, by omega, by omega⟩,
        isq_iff.mpr hq⟩

/-! ### vertical stacks -/

/-- the vertical stack of the locations `(sx, sy, z)`, `z` even, `0 ≤ z < 2Lz` -/
def stackK (Lz : Nat) (sx sy : Int) : List Coord :=
  (range2 0 (2 * Lz)).map fun z => [sx, sy, z]

theorem lineKeys_eq_stack (Lx Ly Lz : Nat) :
    lineKeys Lx Ly Lz = stackK Lz (2 * (Lx : Int) - 1) (2 * (Ly : Int) - 2) := rfl

theorem nodup_stackK (Lz : Nat) (sx sy : Int) : (stackK Lz sx sy).Nodup := by
  unfold stackK
  show List.Pairwise _ _
  rw [List.pairwise_map]
  exact (nodup_range2 _ _).imp (fun h e => h (by simpa using e))

theorem mem_stackK {Lz : Nat} {sx sy : Int} {q : Coord} :
    q ∈ stackK Lz sx sy ↔ ∃ z, q = [sx, sy, z] ∧ inE Lz z := by
  unfold stackK
  simp only [List.mem_map, Planar3DCode.mem_rangeE]
  constructor
  · rintro ⟨z, hz, rfl⟩; exact ⟨z, rfl, hz⟩
  · rintro ⟨z, rfl, hz⟩; exact ⟨z, hz, rfl⟩

/-- the edge `(sx, sy, 4)` is an x edge or a y edge of the lattice outside the hole -/
def StackBase (Lx Ly Lz : Nat) (sx sy : Int) : Prop :=
  (sx % 2 = 1 ∧ sy % 2 = 0 ∧ Qx Lx Ly Lz sx sy 4) ∨ (sx % 2 = 0 ∧ sy % 2 = 1 ∧ Qy Lx Ly Lz sx sy 4)

/-- a key of the listed sheet is the base of a stack -/
theorem stackBase_of_mem {Lx Ly Lz : Nat} {q : Coord} (hq : q ∈ sheetKeys Lx Ly Lz) :
    ∃ sx sy, q = [sx, sy, 4] ∧ StackBase Lx Ly Lz sx sy := by
  rw [sheetKeys_eq] at hq
  obtain ⟨sx, sy, rfl⟩ := sheetH_height hq
  have hq' := sheetH_sub _ hq
  refine ⟨sx, sy, rfl, ?_⟩
  rcases qubit_parity hq' with ⟨h1, h2, h3⟩ | ⟨h1, h2, h3⟩ | ⟨h1, h2, h3⟩
  · exact Or.inl ⟨h1, h2, (mem_qubits_x h1 h2 h3).mp hq'⟩
  · exact Or.inr ⟨h1, h2, (mem_qubits_y h1 h2 h3).mp hq'⟩
  · omega

/-- every location of the stack over a base is a qubit: the hole has the same cross-section at
    every height, and an even height in the hole means that the height 4 is in the hole -/
theorem stack_sub {Lx Ly Lz : Nat} {sx sy : Int} (hb : StackBase Lx Ly Lz sx sy) :
    ∀ q ∈ stackK Lz sx sy, q ∈ qubits Lx Ly Lz := by
  intro q hq
  obtain ⟨z, rfl, hz⟩ := mem_stackK.mp hq
  unfold inE at hz
  rcases hb with ⟨h1, h2, h3⟩ | ⟨h1, h2, h3⟩
  · rw [mem_qubits_x h1 h2 hz.2.2]
    unfold Qx Hole at *
    omega
  · rw [mem_qubits_y h1 h2 hz.2.2]
    unfold Qy Hole at *
    omega

/-- the base of a stack is a key of the listed sheet (`Lz ≥ 3`) -/
theorem base_mem_sheet {Lx Ly Lz : Nat} {sx sy : Int} (hb : StackBase Lx Ly Lz sx sy) :
    [sx, sy, 4] ∈ sheetKeys Lx Ly Lz := by
  rw [sheetKeys_eq]
  unfold sheetH
  rw [List.mem_filter, isq_iff]
  rcases hb with ⟨h1, h2, h3⟩ | ⟨h1, h2, h3⟩
  · refine ⟨mem_sheetCandsH.mpr ⟨_, _, rfl, ?_⟩, (mem_qubits_x h1 h2 (by decide)).mpr h3⟩
    unfold Qx at h3; omega
  · refine ⟨mem_sheetCandsH.mpr ⟨_, _, rfl, ?_⟩, (mem_qubits_y h1 h2 (by decide)).mpr h3⟩
    unfold Qy at h3; omega

/-- a stack whose membership in the candidate list of a cube is `C ∧ (z = cz ± 1)` meets the cube
    in 0 or 2 locations -/
theorem stack_cands_even {Lz : Nat} {sx sy cx cy cz : Int} (hcz : 1 ≤ cz ∧ cz < 2 * (Lz : Int) - 1 ∧ cz % 2 = 1)
    (C : Prop)
    (hm : ∀ z, z % 2 = 0 → ([sx, sy, z] ∈ cubeCands cx cy cz ↔ (C ∧ (z = cz + 1 ∨ z = cz - 1)))) :
    (stackK Lz sx sy).countP (fun q => decide (q ∈ cubeCands cx cy cz)) % 2 = 0 := by
  unfold stackK
  rw [List.countP_map]
  by_cases hcond : C
  · have : ∀ z ∈ range2 0 (2 * (Lz : Int)),
        ((fun q => decide (q ∈ cubeCands cx cy cz)) ∘ fun z => [sx, sy, z]) z =
          decide (z = cz + 1 ∨ z = cz - 1) := by
      intro z hz
      have hz' := Planar3DCode.mem_rangeE.mp hz
      unfold inE at hz'
      simp only [Function.comp]
      apply decide_eq_decide.mpr
      rw [hm z hz'.2.2]
      exact ⟨fun h => h.2, fun h => ⟨hcond, h⟩⟩
    rw [List.countP_congr (fun z hz => by rw [this z hz])]
    rw [countP_two _ _ _ (nodup_range2 _ _) (Planar3DCode.mem_rangeE.mpr (by unfold inE; omega))
      (Planar3DCode.mem_rangeE.mpr (by unfold inE; omega)) (by omega)]
  · rw [List.countP_eq_zero.mpr]
    intro z hz
    have hz' := Planar3DCode.mem_rangeE.mp hz
    unfold inE at hz'
    simp only [Function.comp, decide_eq_true_eq]
    rw [hm z hz'.2.2]
    exact fun h => hcond h.1

/-- a stack over a base against a cube: the two edges `(·, ·, cz ± 1)` of the cube on the stack -/
theorem stack_cube_even {Lx Ly Lz : Nat} {sx sy : Int} (hb : StackBase Lx Ly Lz sx sy)
    {cx cy cz : Int} (hc : CubeLoc Lx Ly Lz cx cy cz) :
    ov (stackK Lz sx sy) (cubeKeys Lx Ly Lz cx cy cz) % 2 = 0 := by
  unfold CubeLoc at hc
  obtain ⟨c1, c2, c3, c4, _⟩ := hc
  have hpc : cx % 2 = 1 ∧ cy % 2 = 1 ∧ cz % 2 = 1 := ⟨c1.2.2, c2.2.2, c3.2.2⟩
  unfold ov
  have hmem : ∀ q ∈ stackK Lz sx sy, (decide (q ∈ cubeKeys Lx Ly Lz cx cy cz)) =
      decide (q ∈ cubeCands cx cy cz) := by
    intro q hq
    have := stack_sub hb q hq
    unfold cubeKeys
    simp only [List.mem_filter, isq_iff, this, and_true]
  rw [List.countP_congr (fun q hq => by rw [hmem q hq])]
  rcases hb with ⟨h1, h2, _⟩ | ⟨h1, h2, _⟩
  · exact stack_cands_even c3 (sx = cx ∧ (sy = cy + 1 ∨ sy = cy - 1)) (fun z hz => by
      rw [mem_cubeCands_x hpc h1 h2 hz]
      constructor
      · rintro ⟨a, b, c⟩; exact ⟨⟨a, b⟩, c⟩
      · rintro ⟨⟨a, b⟩, c⟩; exact ⟨a, b, c⟩)
  · exact stack_cands_even c3 (sy = cy ∧ (sx = cx + 1 ∨ sx = cx - 1)) (fun z hz => by
      rw [mem_cubeCands_y hpc h1 h2 hz]
      constructor
      · rintro ⟨a, b, c⟩; exact ⟨⟨a, b⟩, c⟩
      · rintro ⟨⟨a, b⟩, c⟩; exact ⟨a, b, c⟩)

/-- the listed sheet and a stack over a base share exactly the base (`Lz ≥ 3`) -/
theorem sheet_stack_one {Lx Ly Lz : Nat} (hz : 3 ≤ Lz) {sx sy : Int} (hb : StackBase Lx Ly Lz sx sy) :
    ov (sheetKeys Lx Ly Lz) (stackK Lz sx sy) = 1 := by
  rw [sheetKeys_eq, ov_comm (nodup_sheetH Lx Ly Lz 4) (nodup_stackK Lz sx sy), ← sheetKeys_eq]
  apply ov_eq_one (nodup_stackK Lz sx sy) [sx, sy, 4]
  · exact mem_stackK.mpr ⟨4, rfl, by unfold inE; omega⟩
  · intro e he
    obtain ⟨z, rfl, _⟩ := mem_stackK.mp he
    constructor
    · intro h'
      rw [sheetKeys_eq] at h'
      obtain ⟨x', y', hq'⟩ := sheetH_height h'
      simp only [List.cons.injEq, and_true] at hq'
      rw [hq'.2.2]
    · intro h'
      have hz4 : z = 4 := by simpa using h'
      subst hz4
      exact base_mem_sheet hb

/-- two stacks over different bases are disjoint -/
theorem stack_disjoint {Lz : Nat} {sx sy sx' sy' : Int} (hne : ([sx, sy, 4] : Coord) ≠ [sx', sy', 4]) :
    ∀ q ∈ stackK Lz sx sy, q ∉ stackK Lz sx' sy' := by
  intro q hq hq'
  obtain ⟨z, rfl, _⟩ := mem_stackK.mp hq
  obtain ⟨z', e, _⟩ := mem_stackK.mp hq'
  simp only [List.cons.injEq, and_true] at e
  apply hne
  rw [e.1, e.2.1]

end Panqec.HollowRhombicCode
