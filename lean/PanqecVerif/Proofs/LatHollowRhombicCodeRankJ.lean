/-
`HollowRhombicCode`, rank clause, part J: the selected triangles of axis 1 and of axis 0 of a size
with a thick hole (`Lx ≥ 4`, `Ly, Lz ≥ 5`) as boxes (continuation of part I).  Core Lean only.
-/
import PanqecVerif.Proofs.LatHollowRhombicCodeRankI

set_option linter.unusedVariables false
set_option linter.unusedSimpArgs false

namespace Panqec.HollowRhombicCode
open Panqec.Lat3Db Panqec.Rhombic
open Panqec.Planar3DCode (inE inO inE2 inO1)

section
variable {Lx Ly Lz : Nat}

/-- the selected triangles of axis 1: the row `y = 2Ly−2` and four boxes next to the hole -/
def P1 (Lx Ly Lz : Nat) (x y z : Int) : Prop :=
  (InAp 2 (Lx - 1) x ∧ InAp (2 * Ly - 2) 1 y ∧ InAp 0 Lz z) ∨
  (InAp 4 (Lx - 3) x ∧ InAp 2 1 y ∧ InAp 4 (Lz - 4) z) ∨
  (InAp 2 1 x ∧ InAp 4 (Ly - 4) y ∧ InAp 4 (Lz - 4) z) ∨
  (InAp 4 (Lx - 3) x ∧ InAp 4 (Ly - 4) y ∧ InAp 2 1 z ∧ (x + y + z) % 4 = 2) ∨
  (InAp 4 (Lx - 3) x ∧ InAp 4 (Ly - 4) y ∧ InAp (2 * Lz - 4) 1 z ∧ (x + y + z) % 4 = 0)

theorem ax1 (hx : 3 ≤ Lx) (hy : 4 ≤ Ly) (hz : 4 ≤ Lz) (x y z : Int) :
    TS Lx Ly Lz 1 x y z ↔ P1 Lx Ly Lz x y z := by
  unfold P1
  constructor
  · rintro ⟨_, hv, hp, hc⟩
    have hv' := hv
    unfold VertexLoc inE2 inE at hv'
    unfold PT at hp
    rw [sgnX_1, sgnY_1, sgnZ_01 (Or.inr rfl)] at hp
    obtain ⟨p1, p2, p3, p4, p5, p6⟩ := hp
    unfold SelC at hc
    rcases hc with hc | hc | ⟨_, hc⟩ | ⟨hc, _⟩
    · omega
    · omega
    · by_cases hcol : (x + y + z) % 4 = 0
      · rw [if_pos hcol] at p4
        rcases hc with hn | hn
        · -- the triangle of axis 3 is not listed
          by_cases hy3 : y + 1 ≤ 2 * (Ly : Int) - 3
          · by_cases h3 : Hole Lx Ly Lz x (y + 1) z
            · right; left; unfold Hole at p1 h3; unfold InAp; omega
            · by_cases h4 : Hole Lx Ly Lz x y (z + -1)
              · right; right; right; right; unfold Hole at p1 h4; unfold InAp; omega
              · exfalso; apply hn
                unfold PT; rw [sgnX_3, sgnY_3, sgnZ_23 (Or.inr rfl), if_pos hcol]
                exact ⟨p1, p2, h3, h4, by omega, hy3⟩
          · left; unfold InAp; omega
        · -- the triangle of axis 2 is not listed
          by_cases h2 : Hole Lx Ly Lz (x + 1) y z
          · right; right; left; unfold Hole at p1 h2; unfold InAp; omega
          · by_cases h4 : Hole Lx Ly Lz x y (z + -1)
            · right; right; right; right; unfold Hole at p1 h4; unfold InAp; omega
            · exfalso; apply hn
              unfold PT; rw [sgnX_2, sgnY_2, sgnZ_23 (Or.inl rfl), if_pos hcol]
              exact ⟨p1, h2, p3, h4, p5, p6⟩
      · rw [if_neg hcol] at p4
        rcases hc with hn | hn
        · by_cases hy3 : y + 1 ≤ 2 * (Ly : Int) - 3
          · by_cases h3 : Hole Lx Ly Lz x (y + 1) z
            · right; left; unfold Hole at p1 h3; unfold InAp; omega
            · by_cases h4 : Hole Lx Ly Lz x y (z + 1)
              · right; right; right; left; unfold Hole at p1 h4; unfold InAp; omega
              · exfalso; apply hn
                unfold PT; rw [sgnX_3, sgnY_3, sgnZ_23 (Or.inr rfl), if_neg hcol]
                exact ⟨p1, p2, h3, h4, by omega, hy3⟩
          · left; unfold InAp; omega
        · by_cases h2 : Hole Lx Ly Lz (x + 1) y z
          · right; right; left; unfold Hole at p1 h2; unfold InAp; omega
          · by_cases h4 : Hole Lx Ly Lz x y (z + 1)
            · right; right; right; left; unfold Hole at p1 h4; unfold InAp; omega
            · exfalso; apply hn
              unfold PT; rw [sgnX_2, sgnY_2, sgnZ_23 (Or.inl rfl), if_neg hcol]
              exact ⟨p1, h2, p3, h4, p5, p6⟩
    · omega
  · intro h
    refine ⟨by decide, ?_, ?_, ?_⟩
    · unfold VertexLoc inE2 inE
      rcases h with h | h | h | h | h <;> unfold InAp at h <;> omega
    · unfold PT; rw [sgnX_1, sgnY_1, sgnZ_01 (Or.inr rfl)]
      rcases h with h | h | h | h | h <;> unfold InAp at h
      · refine ⟨?_, ?_, ?_, ?_, by omega, by omega⟩
        · intro hh; unfold Hole at hh; omega
        · intro hh; unfold Hole at hh; omega
        · intro hh; unfold Hole at hh; omega
        · intro hh; unfold Hole at hh; split at hh <;> omega
      · refine ⟨?_, ?_, ?_, ?_, by omega, by omega⟩
        · intro hh; unfold Hole at hh; omega
        · intro hh; unfold Hole at hh; omega
        · intro hh; unfold Hole at hh; omega
        · intro hh; unfold Hole at hh; split at hh <;> omega
      · refine ⟨?_, ?_, ?_, ?_, by omega, by omega⟩
        · intro hh; unfold Hole at hh; omega
        · intro hh; unfold Hole at hh; omega
        · intro hh; unfold Hole at hh; omega
        · intro hh; unfold Hole at hh; split at hh <;> omega
      · have hcol : ¬ (x + y + z) % 4 = 0 := by omega
        rw [if_neg hcol]
        refine ⟨?_, ?_, ?_, ?_, by omega, by omega⟩
        · intro hh; unfold Hole at hh; omega
        · intro hh; unfold Hole at hh; omega
        · intro hh; unfold Hole at hh; omega
        · intro hh; unfold Hole at hh; omega
      · have hcol : (x + y + z) % 4 = 0 := by omega
        rw [if_pos hcol]
        refine ⟨?_, ?_, ?_, ?_, by omega, by omega⟩
        · intro hh; unfold Hole at hh; omega
        · intro hh; unfold Hole at hh; omega
        · intro hh; unfold Hole at hh; omega
        · intro hh; unfold Hole at hh; omega
    · unfold SelC
      right; right; left
      refine ⟨rfl, ?_⟩
      rcases h with h | h | h | h | h <;> unfold InAp at h
      · left; intro hp; have := hp.2.2.2.2.2; rw [sgnY_3] at this; omega
      · left; intro hp; apply hp.2.2.1; rw [sgnY_3]; unfold Hole; omega
      · right; intro hp; apply hp.2.1; rw [sgnX_2]; unfold Hole; omega
      · left; intro hp; apply hp.2.2.2.1
        have hcol : ¬ (x + y + z) % 4 = 0 := by omega
        rw [sgnZ_23 (Or.inr rfl), if_neg hcol]; unfold Hole; omega
      · left; intro hp; apply hp.2.2.2.1
        have hcol : (x + y + z) % 4 = 0 := by omega
        rw [sgnZ_23 (Or.inr rfl), if_pos hcol]; unfold Hole; omega

end

end Panqec.HollowRhombicCode
