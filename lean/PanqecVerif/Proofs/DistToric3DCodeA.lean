/-
Toric3DCode, all sizes, C17 part A: the lattice translates of the six listed logical operators
and the parity argument.

A dict operator `b` that commutes with every stabilizer generator anticommutes (mod 2) with every
translate of a listed logical on as many qubits as with the logical itself:
* X lines (`logicals_x`): two consecutive translates of a line differ by the product of the row of
  face generators between them (the qubits across are counted twice, cyclically shifted);
* Z planes (`logicals_z`): two consecutive translates of a plane along its normal differ by the
  product of the slab of vertex generators between them (the in-slab qubits are counted twice).
-/
import PanqecVerif.Proofs.DistCubic3D
import PanqecVerif.Proofs.LatToric3DCodeWF

namespace Panqec.Toric3DCode
open Panqec.Cubic3D Panqec.Lat2D

/-! ### periodic neighbours of the sites `2j`, `2j + 1` -/

theorem predW_even_nat {L j : Nat} (hj : j < L) :
    predW (2 * (j : Int)) (2 * (L : Int)) = 2 * ((wrapP L j : Nat) : Int) + 1 := by
  unfold predW wrapP
  by_cases h : j = 0
  · subst h
    simp only [Int.natCast_zero, Int.mul_zero, if_true]
    omega
  · rw [if_neg (by omega), if_neg h]
    omega

theorem succW_odd_nat {L j : Nat} (_hj : j < L) :
    succW (2 * (j : Int) + 1) (2 * (L : Int)) = 2 * ((wrapS L j : Nat) : Int) := by
  unfold succW wrapS
  by_cases h : j + 1 = L
  · rw [if_pos (by omega), if_pos h]
    rfl
  · rw [if_neg (by omega), if_neg h]
    omega

/-! ### one generator -/

/-- `b` commutes with every stabilizer generator of the lattice -/
def CommStabs (Lx Ly Lz : Nat) (b : Op) : Prop :=
  ∀ s ∈ (lattice Lx Ly Lz).stabs, opAntiCount ((lattice Lx Ly Lz).getStab s) b % 2 = 0

variable {Lx Ly Lz : Nat}

/-- a vertex generator: the six neighbours (given by name) carry an even number of hits -/
theorem vertex_even (hLx : 2 ≤ Lx) (hLy : 2 ≤ Ly) (hLz : 2 ≤ Lz) {b : Op}
    (hb : CommStabs Lx Ly Lz b) {x y z : Int} (hv : isVertex Lx Ly Lz x y z)
    {xm xp ym yp zm zp : Int} (e1 : predW x (2 * (Lx : Int)) = xm) (e2 : x + 1 = xp)
    (e3 : predW y (2 * (Ly : Int)) = ym) (e4 : y + 1 = yp)
    (e5 : predW z (2 * (Lz : Int)) = zm) (e6 : z + 1 = zp) :
    (ind Pauli.Z b [xm, y, z] + ind Pauli.Z b [xp, y, z] + ind Pauli.Z b [x, ym, z]
      + ind Pauli.Z b [x, yp, z] + ind Pauli.Z b [x, y, zm] + ind Pauli.Z b [x, y, zp]) % 2 = 0 := by
  have h := hb [x, y, z] (by rw [lattice_stabs, mem_stabs]; exact Or.inl hv)
  rw [lattice_getStab, getStab_vertex hLx hLy hLz hv, opAntiCount_uop_hit] at h
  subst e1 e2 e3 e4 e5 e6
  unfold vertexKeys at h
  simp only [List.countP_cons, List.countP_nil] at h
  unfold ind
  omega

/-- an xy face generator -/
theorem faceXY_even (hLx : 2 ≤ Lx) (hLy : 2 ≤ Ly) (hLz : 2 ≤ Lz) {b : Op}
    (hb : CommStabs Lx Ly Lz b) {x y z : Int} (hv : isFaceXY Lx Ly Lz x y z)
    {xm xp ym yp : Int} (e1 : x - 1 = xm) (e2 : succW x (2 * (Lx : Int)) = xp)
    (e3 : y - 1 = ym) (e4 : succW y (2 * (Ly : Int)) = yp) :
    (ind Pauli.X b [xm, y, z] + ind Pauli.X b [xp, y, z] + ind Pauli.X b [x, ym, z]
      + ind Pauli.X b [x, yp, z]) % 2 = 0 := by
  have h := hb [x, y, z] (by rw [lattice_stabs, mem_stabs]; exact Or.inr (Or.inl hv))
  rw [lattice_getStab, getStab_faceXY hLx hLy hLz hv, opAntiCount_uop_hit] at h
  subst e1 e2 e3 e4
  unfold faceXYKeys at h
  simp only [List.countP_cons, List.countP_nil] at h
  unfold ind
  omega

/-- an xz face generator -/
theorem faceXZ_even (hLx : 2 ≤ Lx) (hLy : 2 ≤ Ly) (hLz : 2 ≤ Lz) {b : Op}
    (hb : CommStabs Lx Ly Lz b) {x y z : Int} (hv : isFaceXZ Lx Ly Lz x y z)
    {xm xp zm zp : Int} (e1 : x - 1 = xm) (e2 : succW x (2 * (Lx : Int)) = xp)
    (e3 : z - 1 = zm) (e4 : succW z (2 * (Lz : Int)) = zp) :
    (ind Pauli.X b [xm, y, z] + ind Pauli.X b [xp, y, z] + ind Pauli.X b [x, y, zm]
      + ind Pauli.X b [x, y, zp]) % 2 = 0 := by
  have h := hb [x, y, z] (by rw [lattice_stabs, mem_stabs]; exact Or.inr (Or.inr (Or.inr hv)))
  rw [lattice_getStab, getStab_faceXZ hLx hLy hLz hv, opAntiCount_uop_hit] at h
  subst e1 e2 e3 e4
  unfold faceXZKeys at h
  simp only [List.countP_cons, List.countP_nil] at h
  unfold ind
  omega

/-! ### the translates -/

/-- `X̄₁` (line along x through the origin) translated along y: the line `y = 2i`, `z = 0` -/
def lineX (Lx : Nat) (i : Nat) : List Coord :=
  (range2 1 (2 * (Lx : Int))).map fun x => [x, 2 * (i : Int), 0]
/-- `X̄₂` (line along y) translated along x: the line `x = 2i`, `z = 0` -/
def lineY (Ly : Nat) (i : Nat) : List Coord :=
  (range2 1 (2 * (Ly : Int))).map fun y => [2 * (i : Int), y, 0]
/-- `X̄₃` (line along z) translated along x: the line `x = 2i`, `y = 0` -/
def lineZ (Lz : Nat) (i : Nat) : List Coord :=
  (range2 1 (2 * (Lz : Int))).map fun z => [2 * (i : Int), 0, z]
/-- `Z̄₁` (plane `x = 1`) translated along x: the plane `x = 2i + 1` -/
def planeX (Ly Lz : Nat) (i : Nat) : List Coord :=
  grid2 (range2 0 (2 * (Ly : Int))) (range2 0 (2 * (Lz : Int))) fun y z => [2 * (i : Int) + 1, y, z]
/-- `Z̄₂` (plane `y = 1`) translated along y: the plane `y = 2i + 1` -/
def planeY (Lz Lx : Nat) (i : Nat) : List Coord :=
  grid2 (range2 0 (2 * (Lz : Int))) (range2 0 (2 * (Lx : Int))) fun z x => [x, 2 * (i : Int) + 1, z]
/-- `Z̄₃` (plane `z = 1`) translated along z: the plane `z = 2i + 1` -/
def planeZ (Lx Ly : Nat) (i : Nat) : List Coord :=
  grid2 (range2 0 (2 * (Lx : Int))) (range2 0 (2 * (Ly : Int))) fun x y => [x, y, 2 * (i : Int) + 1]

theorem lxK0_eq (Lx : Nat) : lxK0 Lx = lineX Lx 0 := rfl
theorem lxK1_eq (Ly : Nat) : lxK1 Ly = lineY Ly 0 := rfl
theorem lxK2_eq (Lz : Nat) : lxK2 Lz = lineZ Lz 0 := rfl
theorem lzK0_eq (Ly Lz : Nat) : lzK0 Ly Lz = planeX Ly Lz 0 := rfl
theorem lzK1_eq (Lz Lx : Nat) : lzK1 Lz Lx = planeY Lz Lx 0 := rfl
theorem lzK2_eq (Lx Ly : Nat) : lzK2 Lx Ly = planeZ Lx Ly 0 := rfl

/-! ### the six parity statements -/

/-- `X̄₁`: translates at `y = 2i`, through the xy faces at `y = 2i + 1`, `z = 0` -/
theorem parity_X0 (hLx : 2 ≤ Lx) (hLy : 2 ≤ Ly) (hLz : 2 ≤ Lz) {b : Op}
    (hb : CommStabs Lx Ly Lz b) (i : Nat) (hi : i < Ly) :
    (lineX Lx i).countP (opHit Pauli.X b) % 2 = (lineX Lx 0).countP (opHit Pauli.X b) % 2 := by
  unfold lineX
  rw [countP_lineO, countP_lineO]
  refine ladderS Lx Ly (fun i j => ind Pauli.X b [2 * (j : Int) + 1, 2 * (i : Int), 0])
    (fun i j => ind Pauli.X b [2 * (j : Int), 2 * (i : Int) + 1, 0]) ?_ i hi
  intro i hi j hj
  have hf : isFaceXY Lx Ly Lz (2 * (j : Int) + 1) (2 * (i : Int) + 1) 0 := by
    simp only [isFaceXY, isE, isO]; omega
  have h := faceXY_even hLx hLy hLz hb hf (xm := 2 * (j : Int)) (xp := 2 * ((wrapS Lx j : Nat) : Int))
    (ym := 2 * (i : Int)) (yp := 2 * ((i + 1 : Nat) : Int)) (by omega) (succW_odd_nat hj) (by omega)
    (by unfold succW; rw [if_neg (by omega)]; omega)
  omega

/-- `X̄₂`: translates at `x = 2i`, through the xy faces at `x = 2i + 1`, `z = 0` -/
theorem parity_X1 (hLx : 2 ≤ Lx) (hLy : 2 ≤ Ly) (hLz : 2 ≤ Lz) {b : Op}
    (hb : CommStabs Lx Ly Lz b) (i : Nat) (hi : i < Lx) :
    (lineY Ly i).countP (opHit Pauli.X b) % 2 = (lineY Ly 0).countP (opHit Pauli.X b) % 2 := by
  unfold lineY
  rw [countP_lineO, countP_lineO]
  refine ladderS Ly Lx (fun i j => ind Pauli.X b [2 * (i : Int), 2 * (j : Int) + 1, 0])
    (fun i j => ind Pauli.X b [2 * (i : Int) + 1, 2 * (j : Int), 0]) ?_ i hi
  intro i hi j hj
  have hf : isFaceXY Lx Ly Lz (2 * (i : Int) + 1) (2 * (j : Int) + 1) 0 := by
    simp only [isFaceXY, isE, isO]; omega
  have h := faceXY_even hLx hLy hLz hb hf (xm := 2 * (i : Int)) (xp := 2 * ((i + 1 : Nat) : Int))
    (ym := 2 * (j : Int)) (yp := 2 * ((wrapS Ly j : Nat) : Int)) (by omega)
    (by unfold succW; rw [if_neg (by omega)]; omega) (by omega) (succW_odd_nat hj)
  omega

/-- `X̄₃`: translates at `x = 2i`, through the xz faces at `x = 2i + 1`, `y = 0` -/
theorem parity_X2 (hLx : 2 ≤ Lx) (hLy : 2 ≤ Ly) (hLz : 2 ≤ Lz) {b : Op}
    (hb : CommStabs Lx Ly Lz b) (i : Nat) (hi : i < Lx) :
    (lineZ Lz i).countP (opHit Pauli.X b) % 2 = (lineZ Lz 0).countP (opHit Pauli.X b) % 2 := by
  unfold lineZ
  rw [countP_lineO, countP_lineO]
  refine ladderS Lz Lx (fun i j => ind Pauli.X b [2 * (i : Int), 0, 2 * (j : Int) + 1])
    (fun i j => ind Pauli.X b [2 * (i : Int) + 1, 0, 2 * (j : Int)]) ?_ i hi
  intro i hi j hj
  have hf : isFaceXZ Lx Ly Lz (2 * (i : Int) + 1) 0 (2 * (j : Int) + 1) := by
    simp only [isFaceXZ, isE, isO]; omega
  have h := faceXZ_even hLx hLy hLz hb hf (xm := 2 * (i : Int)) (xp := 2 * ((i + 1 : Nat) : Int))
    (zm := 2 * (j : Int)) (zp := 2 * ((wrapS Lz j : Nat) : Int)) (by omega)
    (by unfold succW; rw [if_neg (by omega)]; omega) (by omega) (succW_odd_nat hj)
  omega

/-- `Z̄₁`: planes `x = 2i + 1`, through the slab of vertices at `x = 2i + 2` -/
theorem parity_Z0 (hLx : 2 ≤ Lx) (hLy : 2 ≤ Ly) (hLz : 2 ≤ Lz) {b : Op}
    (hb : CommStabs Lx Ly Lz b) (i : Nat) (hi : i < Lx) :
    (planeX Ly Lz i).countP (opHit Pauli.Z b) % 2 =
      (planeX Ly Lz 0).countP (opHit Pauli.Z b) % 2 := by
  unfold planeX
  rw [countP_planeE, countP_planeE]
  refine slab Ly Lz Lx
    (fun i j k => ind Pauli.Z b [2 * (i : Int) + 1, 2 * (j : Int), 2 * (k : Int)])
    (fun i j k => ind Pauli.Z b [2 * (i : Int) + 2, 2 * (j : Int) + 1, 2 * (k : Int)])
    (fun i j k => ind Pauli.Z b [2 * (i : Int) + 2, 2 * (j : Int), 2 * (k : Int) + 1]) ?_ i hi
  intro i hi j k hj hk
  have hv : isVertex Lx Ly Lz (2 * (i : Int) + 2) (2 * (j : Int)) (2 * (k : Int)) := by
    simp only [isVertex, isE]; omega
  have h := vertex_even hLx hLy hLz hb hv (xm := 2 * (i : Int) + 1)
    (xp := 2 * ((i + 1 : Nat) : Int) + 1) (ym := 2 * ((wrapP Ly j : Nat) : Int) + 1)
    (yp := 2 * (j : Int) + 1) (zm := 2 * ((wrapP Lz k : Nat) : Int) + 1) (zp := 2 * (k : Int) + 1)
    (by unfold predW; rw [if_neg (by omega)]; omega) (by omega) (predW_even_nat hj) rfl
    (predW_even_nat hk) rfl
  omega

/-- `Z̄₂`: planes `y = 2i + 1` (sites indexed `z`, `x`), through the vertices at `y = 2i + 2` -/
theorem parity_Z1 (hLx : 2 ≤ Lx) (hLy : 2 ≤ Ly) (hLz : 2 ≤ Lz) {b : Op}
    (hb : CommStabs Lx Ly Lz b) (i : Nat) (hi : i < Ly) :
    (planeY Lz Lx i).countP (opHit Pauli.Z b) % 2 =
      (planeY Lz Lx 0).countP (opHit Pauli.Z b) % 2 := by
  unfold planeY
  rw [countP_planeE, countP_planeE]
  refine slab Lz Lx Ly
    (fun i j k => ind Pauli.Z b [2 * (k : Int), 2 * (i : Int) + 1, 2 * (j : Int)])
    (fun i j k => ind Pauli.Z b [2 * (k : Int), 2 * (i : Int) + 2, 2 * (j : Int) + 1])
    (fun i j k => ind Pauli.Z b [2 * (k : Int) + 1, 2 * (i : Int) + 2, 2 * (j : Int)]) ?_ i hi
  intro i hi j k hj hk
  have hv : isVertex Lx Ly Lz (2 * (k : Int)) (2 * (i : Int) + 2) (2 * (j : Int)) := by
    simp only [isVertex, isE]; omega
  have h := vertex_even hLx hLy hLz hb hv (xm := 2 * ((wrapP Lx k : Nat) : Int) + 1)
    (xp := 2 * (k : Int) + 1) (ym := 2 * (i : Int) + 1) (yp := 2 * ((i + 1 : Nat) : Int) + 1)
    (zm := 2 * ((wrapP Lz j : Nat) : Int) + 1) (zp := 2 * (j : Int) + 1)
    (predW_even_nat hk) rfl (by unfold predW; rw [if_neg (by omega)]; omega) (by omega)
    (predW_even_nat hj) rfl
  omega

/-- `Z̄₃`: planes `z = 2i + 1` (sites indexed `x`, `y`), through the vertices at `z = 2i + 2` -/
theorem parity_Z2 (hLx : 2 ≤ Lx) (hLy : 2 ≤ Ly) (hLz : 2 ≤ Lz) {b : Op}
    (hb : CommStabs Lx Ly Lz b) (i : Nat) (hi : i < Lz) :
    (planeZ Lx Ly i).countP (opHit Pauli.Z b) % 2 =
      (planeZ Lx Ly 0).countP (opHit Pauli.Z b) % 2 := by
  unfold planeZ
  rw [countP_planeE, countP_planeE]
  refine slab Lx Ly Lz
    (fun i j k => ind Pauli.Z b [2 * (j : Int), 2 * (k : Int), 2 * (i : Int) + 1])
    (fun i j k => ind Pauli.Z b [2 * (j : Int) + 1, 2 * (k : Int), 2 * (i : Int) + 2])
    (fun i j k => ind Pauli.Z b [2 * (j : Int), 2 * (k : Int) + 1, 2 * (i : Int) + 2]) ?_ i hi
  intro i hi j k hj hk
  have hv : isVertex Lx Ly Lz (2 * (j : Int)) (2 * (k : Int)) (2 * (i : Int) + 2) := by
    simp only [isVertex, isE]; omega
  have h := vertex_even hLx hLy hLz hb hv (xm := 2 * ((wrapP Lx j : Nat) : Int) + 1)
    (xp := 2 * (j : Int) + 1) (ym := 2 * ((wrapP Ly k : Nat) : Int) + 1) (yp := 2 * (k : Int) + 1)
    (zm := 2 * (i : Int) + 1) (zp := 2 * ((i + 1 : Nat) : Int) + 1)
    (predW_even_nat hj) rfl (predW_even_nat hk) rfl
    (by unfold predW; rw [if_neg (by omega)]; omega) (by omega)
  omega

end Panqec.Toric3DCode
