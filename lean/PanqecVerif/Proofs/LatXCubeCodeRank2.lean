/-
XCubeCode lattice model, rank clause: single-qubit probes, ranks and the arithmetic core of the
triangular criterion for the family `selStabs` of `Proofs/LatXCubeCodeRank1.lean`.

* cube `(x, y, z)` (Z-type), probe `X`: on the x-edge `(x, y − 1, z − 1)` if `y, z ≥ 3`, on the y-edge
  `(x − 1, 1, z − 1)` if `y = 1`, on the z-edge `(x − 1, y − 1, 1)` if `z = 1`; the other cubes on that
  edge have a smaller coordinate sum; rank `x + y + z`;
* axis-1 vertex operator at `(x, y, z)` (X-type), probe `Z`: on the x-edge `(x − 1, y, z)` if `x ≥ 2`
  (other: axis 1 at `(x − 2, y, z)`), on the z-edge `(0, y, z − 1)` if `x = 0`, `z ≥ 2`;
* axis-0 vertex operator at `(x, y, z)`, probe `Z`: on the y-edge `(x, y − 1, z)` if `y ≥ 2` (other:
  axis 0 at `(x, y − 2, z)`), on the z-edge `(x, 0, z − 1)` if `y = 0`, `x, z ≥ 2`;
* ranks: axis 0 with `x = 0`, `y ≥ 2` < axis 1 with `x = 0` < axis 1 with `x ≥ 2` < axis 0 with
  `y = 0` < axis 0 with `x, y ≥ 2`.
-/
import PanqecVerif.Proofs.LatXCubeCodeRank1
open Panqec Panqec.Lat3Db
namespace Panqec.XCubeCode

def probe : Coord → Coord × Pauli
  | [x, y, z] =>
    if 3 ≤ y ∧ 3 ≤ z then ([x, y - 1, z - 1], Pauli.X)
    else if y = 1 then ([x - 1, y, z - 1], Pauli.X)
    else ([x - 1, y - 1, z], Pauli.X)
  | [ax, x, y, z] =>
    if ax = 1 then (if 2 ≤ x then ([x - 1, y, z], Pauli.Z) else ([x, y, z - 1], Pauli.Z))
    else (if 2 ≤ y then ([x, y - 1, z], Pauli.Z) else ([x, y, z - 1], Pauli.Z))
  | _ => ([], Pauli.I)

def mu (Lx Ly Lz : Nat) : Coord → Nat
  | [x, y, z] => (x + y + z).toNat
  | [ax, x, y, z] =>
    if ax = 1 then
      (if 2 ≤ x then (2 * (Ly : Int) + 2 * (Lz : Int) + x).toNat else (2 * (Ly : Int) + z).toNat)
    else
      (if 2 ≤ y then
        (if 2 ≤ x then (2 * (Ly : Int) + 4 * (Lz : Int) + 2 * (Lx : Int) + y).toNat else y.toNat)
       else (2 * (Ly : Int) + 2 * (Lz : Int) + 2 * (Lx : Int) + z).toNat)
  | _ => 0

def keysOf (Lx Ly Lz : Nat) : Coord → List Coord
  | [x, y, z] => cubeLocs Lx Ly Lz x y z
  | [ax, x, y, z] => if ax = 1 then faceLocsY Lx Ly Lz x y z else faceLocsX Lx Ly Lz x y z
  | _ => []

def letterOf : Coord → Pauli
  | [_, _, _] => Pauli.Z
  | _ => Pauli.X

/-! ### which cubes reach an edge -/

theorem mem_cubeLocs_xedge {Lx Ly Lz : Nat} {a b c p q r : Int} (h : SC Lx Ly Lz a b c)
    (hp : p % 2 = 1) (hm : [p, q, r] ∈ cubeLocs Lx Ly Lz a b c) :
    p = a ∧ (q = b - 1 ∨ q = up (2*Ly) b) ∧ (r = c - 1 ∨ r = up (2*Lz) c) := by
  simp only [cubeLocs, List.mem_cons, List.cons.injEq, and_true, List.not_mem_nil, or_false] at hm
  unfold SC R1 at h
  have ua := up_spec (2*Lx) a
  generalize up (2*Lx) a = ua' at ua hm
  generalize up (2*Ly) b = ub' at hm ⊢
  generalize up (2*Lz) c = uc' at hm ⊢
  omega

theorem mem_cubeLocs_yedge {Lx Ly Lz : Nat} {a b c p q r : Int} (h : SC Lx Ly Lz a b c)
    (hq : q % 2 = 1) (hm : [p, q, r] ∈ cubeLocs Lx Ly Lz a b c) :
    (p = a - 1 ∨ p = up (2*Lx) a) ∧ q = b ∧ (r = c - 1 ∨ r = up (2*Lz) c) := by
  simp only [cubeLocs, List.mem_cons, List.cons.injEq, and_true, List.not_mem_nil, or_false] at hm
  unfold SC R1 at h
  have ub := up_spec (2*Ly) b
  generalize up (2*Ly) b = ub' at ub hm
  generalize up (2*Lx) a = ua' at hm ⊢
  generalize up (2*Lz) c = uc' at hm ⊢
  omega

theorem mem_cubeLocs_zedge {Lx Ly Lz : Nat} {a b c p q r : Int} (h : SC Lx Ly Lz a b c)
    (hr : r % 2 = 1) (hm : [p, q, r] ∈ cubeLocs Lx Ly Lz a b c) :
    (p = a - 1 ∨ p = up (2*Lx) a) ∧ (q = b - 1 ∨ q = up (2*Ly) b) ∧ r = c := by
  simp only [cubeLocs, List.mem_cons, List.cons.injEq, and_true, List.not_mem_nil, or_false] at hm
  unfold SC R1 at h
  have uc := up_spec (2*Lz) c
  generalize up (2*Lz) c = uc' at uc hm
  generalize up (2*Lx) a = ua' at hm ⊢
  generalize up (2*Ly) b = ub' at hm ⊢
  omega

/-- a selected cube other than `s` of rank at least that of `s` does not reach the witness edge -/
theorem later_cube_cube {Lx Ly Lz : Nat} (hy : 1 ≤ Ly) (hz : 1 ≤ Lz) {x y z a b c : Int}
    (hs : CK Lx Ly Lz x y z) (ht : CK Lx Ly Lz a b c) (hne : ¬ (x = a ∧ y = b ∧ z = c))
    (hle : (x + y + z).toNat ≤ (a + b + c).toNat) :
    (probe [x, y, z]).1 ∉ cubeLocs Lx Ly Lz a b c := by
  intro hm
  have hsc := ht.sc hy hz
  have ua := up_spec (2*Lx) a
  have ub := up_spec (2*Ly) b
  have uc := up_spec (2*Lz) c
  unfold SC R1 at hsc
  unfold CK R1 R3 at hs
  rcases hs with hs | hs | hs
  · have h1 : 3 ≤ y ∧ 3 ≤ z := by omega
    simp only [probe, h1, and_self, if_true] at hm
    have := mem_cubeLocs_xedge (ht.sc hy hz) (by omega) hm
    generalize up (2*Ly) b = ub' at ub this
    generalize up (2*Lz) c = uc' at uc this
    omega
  · have h1 : ¬ (3 ≤ y ∧ 3 ≤ z) := by omega
    simp only [probe, h1, hs.2.1, if_true, if_false] at hm
    have := mem_cubeLocs_yedge (ht.sc hy hz) (by omega) hm
    generalize up (2*Lx) a = ua' at ua this
    generalize up (2*Lz) c = uc' at uc this
    omega
  · have h1 : ¬ (3 ≤ y ∧ 3 ≤ z) := by omega
    have h2 : ¬ y = 1 := by omega
    simp only [probe, h1, h2, if_false] at hm
    have := mem_cubeLocs_zedge (ht.sc hy hz) (by omega) hm
    generalize up (2*Lx) a = ua' at ua this
    generalize up (2*Ly) b = ub' at ub this
    omega

/-! ### vertex operators -/

theorem mem_faceLocsX {Lx Ly Lz : Nat} {a b c p q r : Int} :
    [p, q, r] ∈ faceLocsX Lx Ly Lz a b c ↔
      p = a ∧ ((r = c ∧ (q = b + 1 ∨ q = dn (2*Ly) b)) ∨ (q = b ∧ (r = c + 1 ∨ r = dn (2*Lz) c))) := by
  simp only [faceLocsX, List.mem_cons, List.cons.injEq, and_true, List.not_mem_nil, or_false]
  generalize dn (2*Ly) b = db
  generalize dn (2*Lz) c = dc
  omega

theorem mem_faceLocsY {Lx Ly Lz : Nat} {a b c p q r : Int} :
    [p, q, r] ∈ faceLocsY Lx Ly Lz a b c ↔
      q = b ∧ ((r = c ∧ (p = a + 1 ∨ p = dn (2*Lx) a)) ∨ (p = a ∧ (r = c + 1 ∨ r = dn (2*Lz) c))) := by
  simp only [faceLocsY, List.mem_cons, List.cons.injEq, and_true, List.not_mem_nil, or_false]
  generalize dn (2*Lx) a = da
  generalize dn (2*Lz) c = dc
  omega

/-- axis 1 probed, axis 1 reaching -/
theorem later_11 {Lx Ly Lz : Nat} {x y z a b c : Int}
    (hs : F1 Lx Ly Lz x y z) (ht : F1 Lx Ly Lz a b c) (hne : ¬ (x = a ∧ y = b ∧ z = c))
    (hle : mu Lx Ly Lz [1, x, y, z] ≤ mu Lx Ly Lz [1, a, b, c]) :
    (probe [1, x, y, z]).1 ∉ faceLocsY Lx Ly Lz a b c := by
  intro hm
  have da := dn_spec (2*Lx) a
  have dc := dn_spec (2*Lz) c
  unfold F1 R0 R2 at hs ht
  simp only [mu, if_true] at hle
  rcases hs with hs | hs
  · have h1 : 2 ≤ x := by omega
    simp only [probe, h1, if_true] at hm hle
    rw [mem_faceLocsY] at hm
    generalize dn (2*Lx) a = da' at da hm
    generalize dn (2*Lz) c = dc' at dc hm
    by_cases h2 : 2 ≤ a
    · simp only [h2, if_true] at hle; omega
    · simp only [h2, if_false] at hle; omega
  · have h1 : ¬ 2 ≤ x := by omega
    simp only [probe, h1, if_true, if_false] at hm hle
    rw [mem_faceLocsY] at hm
    generalize dn (2*Lx) a = da' at da hm
    generalize dn (2*Lz) c = dc' at dc hm
    by_cases h2 : 2 ≤ a
    · simp only [h2, if_true] at hle; omega
    · simp only [h2, if_false] at hle; omega

/-- axis 1 probed, axis 0 reaching -/
theorem later_10 {Lx Ly Lz : Nat} {x y z a b c : Int}
    (hs : F1 Lx Ly Lz x y z) (ht : F0 Lx Ly Lz a b c)
    (hle : mu Lx Ly Lz [1, x, y, z] ≤ mu Lx Ly Lz [0, a, b, c]) :
    (probe [1, x, y, z]).1 ∉ faceLocsX Lx Ly Lz a b c := by
  intro hm
  have db := dn_spec (2*Ly) b
  have dc := dn_spec (2*Lz) c
  unfold F1 R0 R2 at hs
  unfold F0 R0 R2 at ht
  have e10 : ¬ (0 : Int) = 1 := by decide
  simp only [mu, if_true, e10, if_false] at hle
  rcases hs with hs | hs
  · have h1 : 2 ≤ x := by omega
    simp only [probe, h1, if_true] at hm
    rw [mem_faceLocsX] at hm
    omega
  · have h1 : ¬ 2 ≤ x := by omega
    simp only [probe, h1, if_true, if_false] at hm hle
    rw [mem_faceLocsX] at hm
    generalize dn (2*Ly) b = db' at db hm
    generalize dn (2*Lz) c = dc' at dc hm
    by_cases h2 : 2 ≤ b
    · have h3 : ¬ 2 ≤ a := by omega
      simp only [h2, h3, if_true, if_false] at hle; omega
    · omega

/-- axis 0 probed, axis 0 reaching -/
theorem later_00 {Lx Ly Lz : Nat} {x y z a b c : Int}
    (hs : F0 Lx Ly Lz x y z) (ht : F0 Lx Ly Lz a b c) (hne : ¬ (x = a ∧ y = b ∧ z = c))
    (hle : mu Lx Ly Lz [0, x, y, z] ≤ mu Lx Ly Lz [0, a, b, c]) :
    (probe [0, x, y, z]).1 ∉ faceLocsX Lx Ly Lz a b c := by
  intro hm
  have db := dn_spec (2*Ly) b
  have dc := dn_spec (2*Lz) c
  unfold F0 R0 R2 at hs ht
  have e10 : ¬ (0 : Int) = 1 := by decide
  simp only [mu, e10, if_false] at hle
  rcases hs with hs | hs
  · have h1 : 2 ≤ y := by omega
    simp only [probe, e10, h1, if_true, if_false] at hm hle
    rw [mem_faceLocsX] at hm
    generalize dn (2*Ly) b = db' at db hm
    generalize dn (2*Lz) c = dc' at dc hm
    by_cases h2 : 2 ≤ b
    · by_cases h3 : 2 ≤ x
      · have h4 : 2 ≤ a := by omega
        simp only [h2, h3, h4, if_true] at hle; omega
      · have h4 : ¬ 2 ≤ a := by omega
        simp only [h2, h3, h4, if_true, if_false] at hle; omega
    · by_cases h3 : 2 ≤ x
      · simp only [h2, h3, if_true, if_false] at hle; omega
      · omega
  · have h1 : ¬ 2 ≤ y := by omega
    simp only [probe, e10, h1, if_false] at hm hle
    rw [mem_faceLocsX] at hm
    generalize dn (2*Ly) b = db' at db hm
    generalize dn (2*Lz) c = dc' at dc hm
    by_cases h2 : 2 ≤ b
    · omega
    · simp only [h2, if_false] at hle; omega

/-- axis 0 probed, axis 1 reaching -/
theorem later_01 {Lx Ly Lz : Nat} {x y z a b c : Int}
    (hs : F0 Lx Ly Lz x y z) (ht : F1 Lx Ly Lz a b c)
    (hle : mu Lx Ly Lz [0, x, y, z] ≤ mu Lx Ly Lz [1, a, b, c]) :
    (probe [0, x, y, z]).1 ∉ faceLocsY Lx Ly Lz a b c := by
  intro hm
  have da := dn_spec (2*Lx) a
  have dc := dn_spec (2*Lz) c
  unfold F0 R0 R2 at hs
  unfold F1 R0 R2 at ht
  have e10 : ¬ (0 : Int) = 1 := by decide
  simp only [mu, e10, if_true, if_false] at hle
  rcases hs with hs | hs
  · have h1 : 2 ≤ y := by omega
    simp only [probe, e10, h1, if_true, if_false] at hm
    rw [mem_faceLocsY] at hm
    generalize dn (2*Lx) a = da' at da hm
    generalize dn (2*Lz) c = dc' at dc hm
    omega
  · have h1 : ¬ 2 ≤ y := by omega
    simp only [probe, e10, h1, if_false] at hm hle
    rw [mem_faceLocsY] at hm
    generalize dn (2*Lx) a = da' at da hm
    generalize dn (2*Lz) c = dc' at dc hm
    have h2 : 2 ≤ a := by omega
    simp only [h2, if_true] at hle
    omega

end Panqec.XCubeCode
