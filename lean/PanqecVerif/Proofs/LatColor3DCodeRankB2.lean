/-
Color3DCode, rank clause, Z-type part: the triangular property per class of selected cells — every
other selected cell acting on the witness of `s` has smaller rank (witnesses, ranks and the four
cells of a qubit: `Proofs/LatColor3DCodeRankB.lean`).
-/
import PanqecVerif.Proofs.LatColor3DCodeRankB

set_option linter.unusedVariables false

namespace Panqec.Color3DCode
open Panqec.Lat2D Panqec.Color

/-! ### the other cells on the witness -/

section tri
variable {Lx Ly Lz : Nat} {x y z tx ty tz : Int}

/-- layers `z ≥ 8` -/
theorem tri_bulk (hs : IsC Lx Ly Lz x y z) (hz8 : 8 ≤ z) (ht : IsC Lx Ly Lz tx ty tz)
    (hq : [x - 1, wr Ly y, z - 2] ∈ keys Lx Ly Lz tx ty tz) :
    (tx = x ∧ ty = y ∧ tz = z) ∨ rk Lx Ly Lz tx ty tz < rk Lx Ly Lz x y z := by
  obtain ⟨sx0, sx1, sy0, sy1, sz0, sz1, spx, srx, sry⟩ := hs.cellR
  have rt' := ht.cellR
  obtain ⟨x0, x1, y0, y1, z0, z1, px, rx, ry⟩ := ht.cellR
  have hw : (wr Ly y = y ∧ y < 4 * (Ly : Int)) ∨ (wr Ly y = 0 ∧ y = 4 * (Ly : Int)) := by
    unfold wr; by_cases h : y = 4 * (Ly : Int)
    · rw [if_pos h]; exact Or.inr ⟨rfl, h⟩
    · rw [if_neg h]; left; omega
  generalize wr Ly y = b at hq hw
  obtain ⟨g1, g2⟩ := geo_xodd ht (by omega) (by omega) hq
  have G : (tx = x ∧ ty = y ∧ tz = z) ∨ tz < z := by
    clear hq rt' hs ht
    rcases g2 with ⟨m, hy, hz⟩ | ⟨m, hz, hy⟩
    · have e1 : tx = x := by omega
      have e2 : ty = y := by omega
      clear g1 hy
      omega
    · right; omega
  rcases G with hself | hlt
  · exact Or.inl hself
  · right
    rw [rk_bulk hz8]
    by_cases h8 : 8 ≤ tz
    · rw [rk_bulk h8]; omega
    · have := rk_lt_bulk rt' (by omega); omega

/-- slab, cells `(x, y, 2)` and `(x, y, 6)` with `x ≠ 6` (`c = 3` resp. `c = 5`), a cell of the layer
    `z = 4` on the witness -/
theorem slabA_mid (hx4 : x % 4 = 2) (hx0 : 2 ≤ x) (x0 : 2 ≤ tx) (x1 : tx ≤ 4 * (Lx : Int))
    (hx' : tx = x - 2 ∨ tx = x - 2 + 4 * (Lx : Int)) :
    tx ≠ 2 ∧ (tx < x ∨ (x = 2 ∧ tx ≤ 4 * (Lx : Int))) := by
  omega

/-- ... a cell of the same layer on the witness -/
theorem slabA_same (hx4 : x % 4 = 2) (hx0 : 2 ≤ x) (hx6 : x ≠ 6) (x0 : 2 ≤ tx)
    (x1 : tx ≤ 4 * (Lx : Int)) (hxx : tx ≠ x)
    (hx' : tx = x - 2 - 2 ∨ tx = x - 2 + 2 ∨ tx = x - 2 - 2 + 4 * (Lx : Int) ∨
      tx = x - 2 + 2 + 4 * (Lx : Int)) :
    tx ≠ 2 ∧ (tx < x ∨ (x = 2 ∧ tx ≤ 4 * (Lx : Int))) := by
  omega

theorem geo_slabA (hs : IsC Lx Ly Lz x y z) (hx6 : x ≠ 6)
    (ht : IsC Lx Ly Lz tx ty tz) {c : Int} (hc : (z = 2 ∧ c = 3) ∨ (z = 6 ∧ c = 5))
    (hq : [x - 2, y, c] ∈ keys Lx Ly Lz tx ty tz) :
    tz < 8 ∧ ((tx = x ∧ ty = y ∧ tz = z) ∨
      (tx ≠ 2 ∧ (tx < x ∨ (x = 2 ∧ tx ≤ 4 * (Lx : Int))))) := by
  obtain ⟨sx0, sx1, sy0, sy1, sz0, sz1, spx, srx, sry⟩ := hs.cellR
  obtain ⟨x0, x1, y0, y1, z0, z1, px, rx, ry⟩ := ht.cellR
  obtain ⟨g1, g2⟩ := geo_zodd ht (by omega) (by omega) (by omega) (by omega) hq
  have hx4 : x % 4 = 2 := by omega
  have hy4 : y % 4 = 2 := by omega
  refine ⟨by omega, ?_⟩
  clear hq hs ht
  rcases g2 with ⟨m, hx', hy'⟩ | ⟨m, hy', hx'⟩
  · right
    have hx'' : tx = x - 2 ∨ tx = x - 2 + 4 * (Lx : Int) := hx'
    exact slabA_mid hx4 sx0 x0 x1 hx''
  · have e3 : tz = z := by omega
    have e2 : ty = y := by omega
    by_cases hxx : tx = x
    · exact Or.inl ⟨hxx, e2, e3⟩
    · exact Or.inr (slabA_same hx4 sx0 hx6 x0 x1 hxx hx')

theorem tri_slabA (hs : IsC Lx Ly Lz x y z) (hx6 : x ≠ 6)
    (ht : IsC Lx Ly Lz tx ty tz) {c : Int} (hc : (z = 2 ∧ c = 3) ∨ (z = 6 ∧ c = 5))
    (hq : [x - 2, y, c] ∈ keys Lx Ly Lz tx ty tz) :
    (tx = x ∧ ty = y ∧ tz = z) ∨ rk Lx Ly Lz tx ty tz < rk Lx Ly Lz x y z := by
  obtain ⟨htz, G⟩ := geo_slabA hs hx6 ht hc hq
  have rt' := ht.cellR
  have x0 : 2 ≤ tx := ht.cellR.1
  have x1 : tx ≤ 4 * (Lx : Int) := ht.cellR.2.1
  have sx0 : 2 ≤ x := hs.cellR.1
  have hz8 : z < 8 := by omega
  have hnl : ¬ InLine x z := by unfold InLine; omega
  rcases G with hself | ⟨ht2, hlt⟩
  · exact Or.inl hself
  · right
    have hle := rk_le rt' htz ht2
    by_cases hx2 : x = 2
    · subst hx2
      rw [rk_slab2 hz8]
      omega
    · rw [rk_slab hz8 hnl hx2]
      omega

/-- slab, cells `(x, y, 4)` with `x ≥ 12` -/
theorem tri_slabB (hs : IsC Lx Ly Lz x y 4) (hx : 12 ≤ x) (ht : IsC Lx Ly Lz tx ty tz)
    (hq : [x - 2, wr Ly y, 3] ∈ keys Lx Ly Lz tx ty tz) :
    (tx = x ∧ ty = y ∧ tz = 4) ∨ rk Lx Ly Lz tx ty tz < rk Lx Ly Lz x y 4 := by
  obtain ⟨sx0, sx1, sy0, sy1, sz0, sz1, spx, srx, sry⟩ := hs.cellR
  have rt' := ht.cellR
  obtain ⟨x0, x1, y0, y1, z0, z1, px, rx, ry⟩ := ht.cellR
  have hw : (wr Ly y = y ∧ y < 4 * (Ly : Int)) ∨ (wr Ly y = 0 ∧ y = 4 * (Ly : Int)) := by
    unfold wr; by_cases h : y = 4 * (Ly : Int)
    · rw [if_pos h]; exact Or.inr ⟨rfl, h⟩
    · rw [if_neg h]; left; omega
  generalize wr Ly y = b at hq hw
  obtain ⟨g1, g2⟩ := geo_zodd ht (by omega) (by omega) (by omega) (by omega) hq
  have htz : tz < 8 := by omega
  have hnl : ¬ InLine x 4 := by unfold InLine; omega
  have G : (tx = x ∧ ty = y ∧ tz = 4) ∨ (tx ≠ 2 ∧ tx < x) := by
    clear hq rt' hnl hs ht
    rcases g2 with ⟨m, hx', hy'⟩ | ⟨m, hy', hx'⟩
    · right
      clear hy' hw
      omega
    · have e3 : tz = 4 := by omega
      have e2 : ty = y := by omega
      clear hy' hw g1 m
      omega
  rcases G with hself | ⟨ht2, hlt⟩
  · exact Or.inl hself
  · right
    have hle := rk_le rt' htz ht2
    rw [rk_slab (by omega) hnl (by omega)]
    omega

/-- line, cells `(6, y, 2)` and `(6, y, 6)` with `y ≥ 6` -/
theorem tri_lineA (hs : IsC Lx Ly Lz 6 y z) (hy : 6 ≤ y)
    (ht : IsC Lx Ly Lz tx ty tz) {c : Int} (hc : (z = 2 ∧ c = 3) ∨ (z = 6 ∧ c = 5))
    (hq : [6, y - 2, c] ∈ keys Lx Ly Lz tx ty tz) :
    (tx = 6 ∧ ty = y ∧ tz = z) ∨ rk Lx Ly Lz tx ty tz < rk Lx Ly Lz 6 y z := by
  obtain ⟨sx0, sx1, sy0, sy1, sz0, sz1, spx, srx, sry⟩ := hs.cellR
  obtain ⟨x0, x1, y0, y1, z0, z1, px, rx, ry⟩ := ht.cellR
  obtain ⟨g1, g2⟩ := geo_zodd ht (by omega) (by omega) (by omega) (by omega) hq
  have htz : tz < 8 := by omega
  have hl : InLine 6 z := by unfold InLine; omega
  have G : (tx = 6 ∧ ty = y ∧ tz = z) ∨
      (((tx = 6 ∧ (tz = 2 ∨ tz = 6)) ∨ ((tx = 4 ∨ tx = 8) ∧ tz = 4)) ∧ ty < y) := by
    clear hq hl hs ht
    rcases hc with ⟨rfl, rfl⟩ | ⟨rfl, rfl⟩ <;> omega
  rcases G with hself | ⟨hlt, hty⟩
  · exact Or.inl hself
  · right
    rw [rk_line htz hlt, rk_line (by omega) hl]
    omega

/-- line, cells `(4, y, 4)` and `(8, y, 4)` with `y ≥ 8`: `a = 5` resp. `a = 7` -/
theorem tri_lineB (hs : IsC Lx Ly Lz x y 4) (hy : 8 ≤ y)
    (ht : IsC Lx Ly Lz tx ty tz) {a : Int} (ha : (x = 4 ∧ a = 5) ∨ (x = 8 ∧ a = 7))
    (hq : [a, y - 2, 4] ∈ keys Lx Ly Lz tx ty tz) :
    (tx = x ∧ ty = y ∧ tz = 4) ∨ rk Lx Ly Lz tx ty tz < rk Lx Ly Lz x y 4 := by
  obtain ⟨sx0, sx1, sy0, sy1, sz0, sz1, spx, srx, sry⟩ := hs.cellR
  obtain ⟨x0, x1, y0, y1, z0, z1, px, rx, ry⟩ := ht.cellR
  obtain ⟨g1, g2⟩ := geo_xodd ht (by omega) (by omega) hq
  have hl : InLine x 4 := by unfold InLine; omega
  have G : (tx = x ∧ ty = y ∧ tz = 4) ∨
      (((tx = 6 ∧ (tz = 2 ∨ tz = 6)) ∨ ((tx = 4 ∨ tx = 8) ∧ tz = 4)) ∧ ty < y) := by
    clear hq hl hs ht
    rcases g2 with ⟨m, hy', hz⟩ | ⟨m, hz, hy'⟩
    · right
      have e1 : tx = 6 := by omega
      have e2 : ty = y - 2 := by omega
      clear g1 hy' m
      omega
    · have e1 : tx = x := by omega
      have e3 : tz = 4 := by omega
      have e2 : ty = y ∨ ty = y - 4 := by omega
      clear g1 hy' m hz
      omega
  rcases G with hself | ⟨hlt, hty⟩
  · exact Or.inl hself
  · right
    have htz : tz < 8 := by omega
    rw [rk_line htz hlt, rk_line (by omega) hl]
    omega

/-- the first cell `(8, 4, 4)`: the other three cells of its tetrahedron are left out -/
theorem tri_first (ht : IsK Lx Ly Lz tx ty tz) (hq : [6, 3, 4] ∈ keys Lx Ly Lz tx ty tz) :
    tx = 8 ∧ ty = 4 ∧ tz = 4 := by
  obtain ⟨x0, x1, y0, y1, z0, z1, px, rx, ry⟩ := ht.1.cellR
  obtain ⟨g1, g2⟩ := geo_yodd ht.1 (by omega) (by omega) hq
  obtain ⟨_, k1, k2, k3⟩ := ht
  rcases g2 with ⟨m, hx', hz'⟩ | ⟨m, hz', hx'⟩
  · exfalso
    have e2 : ty = 2 := by omega
    have e1 : tx = 6 := by omega
    have e3 : tz = 2 ∨ tz = 6 := by omega
    clear g1 m hx' hz' k3
    omega
  · have e2 : ty = 4 := by omega
    have e3 : tz = 4 := by omega
    have e1 : tx = 4 ∨ tx = 8 := by omega
    clear g1 m hx' hz' k1 k2
    omega

end tri

end Panqec.Color3DCode
