/-
`Toric3DCode.getStab` of a vertex / xy face / yz face / xz face as an explicit one-letter operator,
for every size with `2 ≤ Lx, Ly, Lz` (the six / four neighbours are then pairwise distinct qubits).
-/
import PanqecVerif.Proofs.LatToric3DCodeBasics

set_option linter.unusedVariables false
set_option linter.unusedSimpArgs false

namespace Panqec.Toric3DCode
open Panqec.Cubic3D

/-- the kinds of stabilizer location, with the parity/range conditions on the coordinates -/
def isVertex (Lx Ly Lz : Nat) (x y z : Int) : Prop := isE Lx x ∧ isE Ly y ∧ isE Lz z
def isFaceXY (Lx Ly Lz : Nat) (x y z : Int) : Prop := isO Lx x ∧ isO Ly y ∧ isE Lz z
def isFaceYZ (Lx Ly Lz : Nat) (x y z : Int) : Prop := isE Lx x ∧ isO Ly y ∧ isO Lz z
def isFaceXZ (Lx Ly Lz : Nat) (x y z : Int) : Prop := isO Lx x ∧ isE Ly y ∧ isO Lz z

theorem stab_cases {Lx Ly Lz : Nat} {s : Coord} (h : s ∈ stabs Lx Ly Lz) :
    ∃ x y z, s = [x, y, z] ∧ (isVertex Lx Ly Lz x y z ∨ isFaceXY Lx Ly Lz x y z ∨
      isFaceYZ Lx Ly Lz x y z ∨ isFaceXZ Lx Ly Lz x y z) := by
  obtain ⟨x, y, z, rfl⟩ := shape_of_mem_stabs h
  exact ⟨x, y, z, rfl, mem_stabs.mp h⟩

def vertexKeys (Lx Ly Lz : Nat) (x y z : Int) : List Coord :=
  [[predW x (2 * (Lx : Int)), y, z], [x + 1, y, z], [x, predW y (2 * (Ly : Int)), z], [x, y + 1, z],
   [x, y, predW z (2 * (Lz : Int))], [x, y, z + 1]]

theorem vertexKeys_nodup {Lx Ly Lz : Nat} (hLx : 2 ≤ Lx) (hLy : 2 ≤ Ly) (hLz : 2 ≤ Lz) {x y z : Int}
    (h : isVertex Lx Ly Lz x y z) : (vertexKeys Lx Ly Lz x y z).Nodup := by
  obtain ⟨hx, hy, hz⟩ := h
  simp only [isE, isO] at hx hy hz
  have p0 := predW_spec x (2 * (Lx : Int))
  have s0 := succW_spec x (2 * (Lx : Int))
  have p1 := predW_spec y (2 * (Ly : Int))
  have s1 := succW_spec y (2 * (Ly : Int))
  have p2 := predW_spec z (2 * (Lz : Int))
  have s2 := succW_spec z (2 * (Lz : Int))
  simp only [vertexKeys, List.nodup_cons, List.mem_cons, List.cons.injEq, List.not_mem_nil,
    and_true, or_false, not_false_eq_true, List.nodup_nil]
  omega

theorem vertexKeys_sub {Lx Ly Lz : Nat} (hLx : 2 ≤ Lx) (hLy : 2 ≤ Ly) (hLz : 2 ≤ Lz) {x y z : Int}
    (h : isVertex Lx Ly Lz x y z) : ∀ q ∈ vertexKeys Lx Ly Lz x y z, q ∈ qubits Lx Ly Lz := by
  obtain ⟨hx, hy, hz⟩ := h
  simp only [isE, isO] at hx hy hz
  have p0 := predW_spec x (2 * (Lx : Int))
  have s0 := succW_spec x (2 * (Lx : Int))
  have p1 := predW_spec y (2 * (Ly : Int))
  have s1 := succW_spec y (2 * (Ly : Int))
  have p2 := predW_spec z (2 * (Lz : Int))
  have s2 := succW_spec z (2 * (Lz : Int))
  intro q hq
  simp only [vertexKeys, List.mem_cons, List.not_mem_nil, or_false] at hq
  rcases hq with rfl | rfl | rfl | rfl | rfl | rfl <;> rw [mem_qubits] <;> simp only [isE, isO] <;> omega

theorem getStab_vertex {Lx Ly Lz : Nat} (hLx : 2 ≤ Lx) (hLy : 2 ≤ Ly) (hLz : 2 ≤ Lz) {x y z : Int}
    (h : isVertex Lx Ly Lz x y z) :
    getStab Lx Ly Lz [x, y, z] = uop (vertexKeys Lx Ly Lz x y z) Pauli.Z := by
  have hs : (stabs Lx Ly Lz).contains [x, y, z] = true := by
    rw [List.contains_iff_mem, mem_stabs]; exact Or.inl h
  have hn := vertexKeys_nodup hLx hLy hLz h
  have hq := vertexKeys_sub hLx hLy hLz h
  obtain ⟨hx', hy', hz'⟩ := h
  have hx := hx'; have hy := hy'; have hz := hz'
  simp only [isE, isO] at hx hy hz
  have ht : typeOf x y = StabType.vertex := by
    simp [typeOf, hx.2.2, hy.2.2]
  have hc : candidates Lx Ly Lz x y z vertexDelta = vertexKeys Lx Ly Lz x y z := by
    show _ = _
    simp only [candidates, vertexDelta, List.map_cons, List.map_nil, vertexKeys,
      pmod_zero hx.1 hx.2.1, pmod_pred hx.1 hx.2.1, pmod_succ hx.1 hx.2.1, succW_even hx', pmod_zero hy.1 hy.2.1, pmod_pred hy.1 hy.2.1, pmod_succ hy.1 hy.2.1, succW_even hy', pmod_zero hz.1 hz.2.1, pmod_pred hz.1 hz.2.1, pmod_succ hz.1 hz.2.1, succW_even hz',
      Int.sub_eq_add_neg]
  unfold getStab getStab?
  simp only [hs, if_true, ht, hc, Option.getD_some, reduceCtorEq, if_false]
  rw [collect_eq _ _ _ hn, List.filter_eq_self.mpr]
  intro q hq'
  rw [List.contains_iff_mem]
  exact hq q hq'

def faceXYKeys (Lx Ly Lz : Nat) (x y z : Int) : List Coord :=
  [[x - 1, y, z], [succW x (2 * (Lx : Int)), y, z], [x, y - 1, z], [x, succW y (2 * (Ly : Int)), z]]

theorem faceXYKeys_nodup {Lx Ly Lz : Nat} (hLx : 2 ≤ Lx) (hLy : 2 ≤ Ly) (hLz : 2 ≤ Lz) {x y z : Int}
    (h : isFaceXY Lx Ly Lz x y z) : (faceXYKeys Lx Ly Lz x y z).Nodup := by
  obtain ⟨hx, hy, hz⟩ := h
  simp only [isE, isO] at hx hy hz
  have p0 := predW_spec x (2 * (Lx : Int))
  have s0 := succW_spec x (2 * (Lx : Int))
  have p1 := predW_spec y (2 * (Ly : Int))
  have s1 := succW_spec y (2 * (Ly : Int))
  have p2 := predW_spec z (2 * (Lz : Int))
  have s2 := succW_spec z (2 * (Lz : Int))
  simp only [faceXYKeys, List.nodup_cons, List.mem_cons, List.cons.injEq, List.not_mem_nil,
    and_true, or_false, not_false_eq_true, List.nodup_nil]
  omega

theorem faceXYKeys_sub {Lx Ly Lz : Nat} (hLx : 2 ≤ Lx) (hLy : 2 ≤ Ly) (hLz : 2 ≤ Lz) {x y z : Int}
    (h : isFaceXY Lx Ly Lz x y z) : ∀ q ∈ faceXYKeys Lx Ly Lz x y z, q ∈ qubits Lx Ly Lz := by
  obtain ⟨hx, hy, hz⟩ := h
  simp only [isE, isO] at hx hy hz
  have p0 := predW_spec x (2 * (Lx : Int))
  have s0 := succW_spec x (2 * (Lx : Int))
  have p1 := predW_spec y (2 * (Ly : Int))
  have s1 := succW_spec y (2 * (Ly : Int))
  have p2 := predW_spec z (2 * (Lz : Int))
  have s2 := succW_spec z (2 * (Lz : Int))
  intro q hq
  simp only [faceXYKeys, List.mem_cons, List.not_mem_nil, or_false] at hq
  rcases hq with rfl | rfl | rfl | rfl <;> rw [mem_qubits] <;> simp only [isE, isO] <;> omega

theorem getStab_faceXY {Lx Ly Lz : Nat} (hLx : 2 ≤ Lx) (hLy : 2 ≤ Ly) (hLz : 2 ≤ Lz) {x y z : Int}
    (h : isFaceXY Lx Ly Lz x y z) :
    getStab Lx Ly Lz [x, y, z] = uop (faceXYKeys Lx Ly Lz x y z) Pauli.X := by
  have hs : (stabs Lx Ly Lz).contains [x, y, z] = true := by
    rw [List.contains_iff_mem, mem_stabs]; exact Or.inr (Or.inl h)
  have hn := faceXYKeys_nodup hLx hLy hLz h
  have hq := faceXYKeys_sub hLx hLy hLz h
  obtain ⟨hx', hy', hz'⟩ := h
  have hx := hx'; have hy := hy'; have hz := hz'
  simp only [isE, isO] at hx hy hz
  have ht : typeOf x y = StabType.face := by
    simp [typeOf, hx.2.2, hy.2.2]
  have hd : faceDelta x y z = [(-1, 0, 0), (1, 0, 0), (0, -1, 0), (0, 1, 0)] := by
    simp [faceDelta, hx.2.2, hy.2.2, hz.2.2]
  have hc : candidates Lx Ly Lz x y z (faceDelta x y z) = faceXYKeys Lx Ly Lz x y z := by
    rw [hd]
    simp only [candidates, List.map_cons, List.map_nil, faceXYKeys,
      pmod_zero hx.1 hx.2.1, pmod_pred hx.1 hx.2.1, pmod_succ hx.1 hx.2.1, predW_odd hx', pmod_zero hy.1 hy.2.1, pmod_pred hy.1 hy.2.1, pmod_succ hy.1 hy.2.1, predW_odd hy', pmod_zero hz.1 hz.2.1, pmod_pred hz.1 hz.2.1, pmod_succ hz.1 hz.2.1, succW_even hz',
      Int.sub_eq_add_neg]
  unfold getStab getStab?
  simp only [hs, if_true, ht, hc, Option.getD_some, reduceCtorEq, if_false]
  rw [collect_eq _ _ _ hn, List.filter_eq_self.mpr]
  intro q hq'
  rw [List.contains_iff_mem]
  exact hq q hq'

def faceYZKeys (Lx Ly Lz : Nat) (x y z : Int) : List Coord :=
  [[x, y - 1, z], [x, succW y (2 * (Ly : Int)), z], [x, y, z - 1], [x, y, succW z (2 * (Lz : Int))]]

theorem faceYZKeys_nodup {Lx Ly Lz : Nat} (hLx : 2 ≤ Lx) (hLy : 2 ≤ Ly) (hLz : 2 ≤ Lz) {x y z : Int}
    (h : isFaceYZ Lx Ly Lz x y z) : (faceYZKeys Lx Ly Lz x y z).Nodup := by
  obtain ⟨hx, hy, hz⟩ := h
  simp only [isE, isO] at hx hy hz
  have p0 := predW_spec x (2 * (Lx : Int))
  have s0 := succW_spec x (2 * (Lx : Int))
  have p1 := predW_spec y (2 * (Ly : Int))
  have s1 := succW_spec y (2 * (Ly : Int))
  have p2 := predW_spec z (2 * (Lz : Int))
  have s2 := succW_spec z (2 * (Lz : Int))
  simp only [faceYZKeys, List.nodup_cons, List.mem_cons, List.cons.injEq, List.not_mem_nil,
    and_true, or_false, not_false_eq_true, List.nodup_nil]
  omega

theorem faceYZKeys_sub {Lx Ly Lz : Nat} (hLx : 2 ≤ Lx) (hLy : 2 ≤ Ly) (hLz : 2 ≤ Lz) {x y z : Int}
    (h : isFaceYZ Lx Ly Lz x y z) : ∀ q ∈ faceYZKeys Lx Ly Lz x y z, q ∈ qubits Lx Ly Lz := by
  obtain ⟨hx, hy, hz⟩ := h
  simp only [isE, isO] at hx hy hz
  have p0 := predW_spec x (2 * (Lx : Int))
  have s0 := succW_spec x (2 * (Lx : Int))
  have p1 := predW_spec y (2 * (Ly : Int))
  have s1 := succW_spec y (2 * (Ly : Int))
  have p2 := predW_spec z (2 * (Lz : Int))
  have s2 := succW_spec z (2 * (Lz : Int))
  intro q hq
  simp only [faceYZKeys, List.mem_cons, List.not_mem_nil, or_false] at hq
  rcases hq with rfl | rfl | rfl | rfl <;> rw [mem_qubits] <;> simp only [isE, isO] <;> omega

theorem getStab_faceYZ {Lx Ly Lz : Nat} (hLx : 2 ≤ Lx) (hLy : 2 ≤ Ly) (hLz : 2 ≤ Lz) {x y z : Int}
    (h : isFaceYZ Lx Ly Lz x y z) :
    getStab Lx Ly Lz [x, y, z] = uop (faceYZKeys Lx Ly Lz x y z) Pauli.X := by
  have hs : (stabs Lx Ly Lz).contains [x, y, z] = true := by
    rw [List.contains_iff_mem, mem_stabs]; exact Or.inr (Or.inr (Or.inl h))
  have hn := faceYZKeys_nodup hLx hLy hLz h
  have hq := faceYZKeys_sub hLx hLy hLz h
  obtain ⟨hx', hy', hz'⟩ := h
  have hx := hx'; have hy := hy'; have hz := hz'
  simp only [isE, isO] at hx hy hz
  have ht : typeOf x y = StabType.face := by
    simp [typeOf, hx.2.2, hy.2.2]
  have hd : faceDelta x y z = [(0, -1, 0), (0, 1, 0), (0, 0, -1), (0, 0, 1)] := by
    simp [faceDelta, hx.2.2, hy.2.2, hz.2.2]
  have hc : candidates Lx Ly Lz x y z (faceDelta x y z) = faceYZKeys Lx Ly Lz x y z := by
    rw [hd]
    simp only [candidates, List.map_cons, List.map_nil, faceYZKeys,
      pmod_zero hx.1 hx.2.1, pmod_pred hx.1 hx.2.1, pmod_succ hx.1 hx.2.1, succW_even hx', pmod_zero hy.1 hy.2.1, pmod_pred hy.1 hy.2.1, pmod_succ hy.1 hy.2.1, predW_odd hy', pmod_zero hz.1 hz.2.1, pmod_pred hz.1 hz.2.1, pmod_succ hz.1 hz.2.1, predW_odd hz',
      Int.sub_eq_add_neg]
  unfold getStab getStab?
  simp only [hs, if_true, ht, hc, Option.getD_some, reduceCtorEq, if_false]
  rw [collect_eq _ _ _ hn, List.filter_eq_self.mpr]
  intro q hq'
  rw [List.contains_iff_mem]
  exact hq q hq'

def faceXZKeys (Lx Ly Lz : Nat) (x y z : Int) : List Coord :=
  [[x - 1, y, z], [succW x (2 * (Lx : Int)), y, z], [x, y, z - 1], [x, y, succW z (2 * (Lz : Int))]]

theorem faceXZKeys_nodup {Lx Ly Lz : Nat} (hLx : 2 ≤ Lx) (hLy : 2 ≤ Ly) (hLz : 2 ≤ Lz) {x y z : Int}
    (h : isFaceXZ Lx Ly Lz x y z) : (faceXZKeys Lx Ly Lz x y z).Nodup := by
  obtain ⟨hx, hy, hz⟩ := h
  simp only [isE, isO] at hx hy hz
  have p0 := predW_spec x (2 * (Lx : Int))
  have s0 := succW_spec x (2 * (Lx : Int))
  have p1 := predW_spec y (2 * (Ly : Int))
  have s1 := succW_spec y (2 * (Ly : Int))
  have p2 := predW_spec z (2 * (Lz : Int))
  have s2 := succW_spec z (2 * (Lz : Int))
  simp only [faceXZKeys, List.nodup_cons, List.mem_cons, List.cons.injEq, List.not_mem_nil,
    and_true, or_false, not_false_eq_true, List.nodup_nil]
  omega

theorem faceXZKeys_sub {Lx Ly Lz : Nat} (hLx : 2 ≤ Lx) (hLy : 2 ≤ Ly) (hLz : 2 ≤ Lz) {x y z : Int}
    (h : isFaceXZ Lx Ly Lz x y z) : ∀ q ∈ faceXZKeys Lx Ly Lz x y z, q ∈ qubits Lx Ly Lz := by
  obtain ⟨hx, hy, hz⟩ := h
  simp only [isE, isO] at hx hy hz
  have p0 := predW_spec x (2 * (Lx : Int))
  have s0 := succW_spec x (2 * (Lx : Int))
  have p1 := predW_spec y (2 * (Ly : Int))
  have s1 := succW_spec y (2 * (Ly : Int))
  have p2 := predW_spec z (2 * (Lz : Int))
  have s2 := succW_spec z (2 * (Lz : Int))
  intro q hq
  simp only [faceXZKeys, List.mem_cons, List.not_mem_nil, or_false] at hq
  rcases hq with rfl | rfl | rfl | rfl <;> rw [mem_qubits] <;> simp only [isE, isO] <;> omega

theorem getStab_faceXZ {Lx Ly Lz : Nat} (hLx : 2 ≤ Lx) (hLy : 2 ≤ Ly) (hLz : 2 ≤ Lz) {x y z : Int}
    (h : isFaceXZ Lx Ly Lz x y z) :
    getStab Lx Ly Lz [x, y, z] = uop (faceXZKeys Lx Ly Lz x y z) Pauli.X := by
  have hs : (stabs Lx Ly Lz).contains [x, y, z] = true := by
    rw [List.contains_iff_mem, mem_stabs]; exact Or.inr (Or.inr (Or.inr h))
  have hn := faceXZKeys_nodup hLx hLy hLz h
  have hq := faceXZKeys_sub hLx hLy hLz h
  obtain ⟨hx', hy', hz'⟩ := h
  have hx := hx'; have hy := hy'; have hz := hz'
  simp only [isE, isO] at hx hy hz
  have ht : typeOf x y = StabType.face := by
    simp [typeOf, hx.2.2, hy.2.2]
  have hd : faceDelta x y z = [(-1, 0, 0), (1, 0, 0), (0, 0, -1), (0, 0, 1)] := by
    simp [faceDelta, hx.2.2, hy.2.2, hz.2.2]
  have hc : candidates Lx Ly Lz x y z (faceDelta x y z) = faceXZKeys Lx Ly Lz x y z := by
    rw [hd]
    simp only [candidates, List.map_cons, List.map_nil, faceXZKeys,
      pmod_zero hx.1 hx.2.1, pmod_pred hx.1 hx.2.1, pmod_succ hx.1 hx.2.1, predW_odd hx', pmod_zero hy.1 hy.2.1, pmod_pred hy.1 hy.2.1, pmod_succ hy.1 hy.2.1, succW_even hy', pmod_zero hz.1 hz.2.1, pmod_pred hz.1 hz.2.1, pmod_succ hz.1 hz.2.1, predW_odd hz',
      Int.sub_eq_add_neg]
  unfold getStab getStab?
  simp only [hs, if_true, ht, hc, Option.getD_some, reduceCtorEq, if_false]
  rw [collect_eq _ _ _ hn, List.filter_eq_self.mpr]
  intro q hq'
  rw [List.contains_iff_mem]
  exact hq q hq'

end Panqec.Toric3DCode
