/-
RotatedPlanar3DCode lattice model: the rank clause for every size `Lx, Ly, Lz ≥ 1`.

`selStabs`: all vertices, the horizontal faces of the bottom layer `z = 1`, all vertical faces.
Every member has a single-qubit probe on a witness qubit and a rank such that any other member
acting on the witness with an anticommuting letter has strictly smaller rank
(`Lat2D.TriangularProbes`):

* vertex `(x, y, z)` (Z-type): probe `X` on the horizontal qubit `(x − 1, y ± 1, z)`; the only other
  vertex on it is `(x − 2, ·, z)`; rank `x`;
* vertical face `(x, y, z)` (X-type): probe `Z` on the horizontal qubit `(x, y, z + 1)`; the other
  selected faces on it are the vertical face `(x, y, z + 2)` (the horizontal faces of the layer
  `z + 1 ≥ 3` are not selected); rank `2·Lz − z`;
* horizontal face `(x, y, 1)` (X-type): probe `Z` on the horizontal qubit `(x ± 1, y − 1, 1)`; the
  other selected faces on it are the vertical face `(x ± 1, y − 1, 2)` and the horizontal face
  `(·, y − 2, 1)`; rank `2·Lz + y`.
-/
import PanqecVerif.Proofs.LatRotatedPlanar3DCode5
import PanqecVerif.Proofs.Lat2DRank
open Panqec Panqec.Lat3Db
namespace Panqec.RotatedPlanar3DCode

/-! `selStabs` (vertices, horizontal faces with `z = 1`, vertical faces): defined in
    `Model/Lattices/RotatedPlanar3DCode.lean` (linked into the driver, op `rankfamily`) -/

/-- horizontal face of the bottom layer -/
def SH1 (Lx Ly : Nat) (x y z : Int) : Prop :=
  R0 (2 * Lx + 1) x ∧ R2 (2 * Ly) y ∧ z = 1 ∧ (x + y) % 4 = 0

theorem mem_selStabs_iff (Lx Ly Lz : Nat) (x y z : Int) :
    [x, y, z] ∈ selStabs Lx Ly Lz ↔ SV Lx Ly Lz x y z ∨ SH1 Lx Ly x y z ∨ SF Lx Ly Lz x y z := by
  unfold selStabs SV SH1 SF
  simp only [List.mem_append, mem_grid3_cons, mem_pyRange2_0, mem_pyRange2_1, mem_pyRange2_2,
    beq_iff_eq, and_true, or_assoc]
  have : R1 2 z ↔ z = 1 := by unfold R1; omega
  rw [this]

theorem mem_selStabs_shape (Lx Ly Lz : Nat) (s : Coord) (h : s ∈ selStabs Lx Ly Lz) :
    ∃ x y z, s = [x, y, z] := by
  unfold selStabs at h
  simp only [List.mem_append, mem_grid3] at h
  rcases h with (⟨x, y, z, rfl, _⟩ | ⟨x, y, z, rfl, _⟩) | ⟨x, y, z, rfl, _⟩ <;> exact ⟨x, y, z, rfl⟩

theorem grid3_sublist {xs ys zs zs' : List Int} (p : Int → Int → Int → Bool) (h : zs.Sublist zs') :
    (grid3 xs ys zs p).Sublist (grid3 xs ys zs' p) := by
  unfold grid3
  induction xs with
  | nil => simp
  | cons x xs ihx =>
    simp only [List.flatMap_cons]
    refine List.Sublist.append ?_ ihx
    clear ihx
    induction ys with
    | nil => simp
    | cons y ys ihy =>
      simp only [List.flatMap_cons]
      exact List.Sublist.append ((h.filter _).map _) ihy

theorem selStabs_sublist (Lx Ly Lz : Nat) (hz : 1 ≤ Lz) :
    (selStabs Lx Ly Lz).Sublist (stabs Lx Ly Lz) := by
  unfold selStabs stabs
  refine List.Sublist.append (List.Sublist.append (List.Sublist.refl _) ?_) (List.Sublist.refl _)
  apply grid3_sublist
  have h1 : pyRange2 1 2 = [1] := by decide
  rw [h1, List.singleton_sublist, mem_pyRange2_1]
  unfold R1; omega

theorem mem_stabs_of_sel {Lx Ly Lz : Nat} (hz : 1 ≤ Lz) {s : Coord} (h : s ∈ selStabs Lx Ly Lz) :
    s ∈ stabs Lx Ly Lz := (selStabs_sublist Lx Ly Lz hz).subset h

/-! ### uniform closed form of `get_stabilizer` -/

def locsOf (a b c : Int) : List Coord :=
  if c % 2 = 1 then (if (a + b) % 4 = 2 then vertexLocs a b c else faceZLocs a b c)
  else if (a + b) % 4 = 0 then faceXLocs a b c else faceYLocs a b c

def letterOf (a b c : Int) : Pauli :=
  if c % 2 = 1 ∧ (a + b) % 4 = 2 then Pauli.Z else Pauli.X

theorem mem_vertexLocs (a b c p q r : Int) :
    [p, q, r] ∈ vertexLocs a b c ↔
      (r = c ∧ (p = a - 1 ∨ p = a + 1) ∧ (q = b - 1 ∨ q = b + 1)) ∨
      (p = a ∧ q = b ∧ (r = c - 1 ∨ r = c + 1)) := by
  simp only [vertexLocs, List.mem_cons, List.cons.injEq, and_true, List.not_mem_nil, or_false]
  omega

theorem locsOf_sub (a b c : Int) (q : Coord) (h : q ∈ locsOf a b c) : q ∈ vertexLocs a b c := by
  unfold locsOf at h
  split at h
  · split at h
    · exact h
    · simp only [faceZLocs, List.mem_cons, List.not_mem_nil, or_false] at h
      rcases h with rfl | rfl | rfl | rfl <;> simp [vertexLocs]
  · split at h
    · simp only [faceXLocs, List.mem_cons, List.not_mem_nil, or_false] at h
      rcases h with rfl | rfl | rfl | rfl <;> simp [vertexLocs]
    · simp only [faceYLocs, List.mem_cons, List.not_mem_nil, or_false] at h
      rcases h with rfl | rfl | rfl | rfl <;> simp [vertexLocs]

theorem getStab_eq (Lx Ly Lz : Nat) (a b c : Int) (h : [a, b, c] ∈ stabs Lx Ly Lz) :
    getStab Lx Ly Lz [a, b, c] =
      constOp ((locsOf a b c).filter (isQubit Lx Ly Lz)) (letterOf a b c) := by
  rcases (mem_stabs_iff Lx Ly Lz a b c).mp h with hv | hh | hf
  · rw [getStab_vertex Lx Ly Lz a b c hv]
    unfold SV R1 at hv
    have h1 : c % 2 = 1 := by omega
    have h2 : (a + b) % 4 = 2 := hv.2.2.2
    simp only [locsOf, letterOf, h1, h2, if_true, and_self, vertexKeys]
  · rw [getStab_faceZ Lx Ly Lz a b c hh]
    unfold SH R1 at hh
    have h1 : c % 2 = 1 := by omega
    have h2 : ¬ (a + b) % 4 = 2 := by omega
    simp only [locsOf, letterOf, h1, h2, if_true, if_false, and_false, faceZKeys]
  · have h1 : ¬ c % 2 = 1 := by unfold SF R2 at hf; omega
    rcases SF_mod4 Lx Ly Lz a b c hf with h4 | h4
    · rw [getStab_faceX Lx Ly Lz a b c hf h4]
      simp only [locsOf, letterOf, h1, h4, if_true, if_false, false_and, faceXKeys]
    · rw [getStab_faceY Lx Ly Lz a b c hf h4]
      have h40 : ¬ (a + b) % 4 = 0 := by omega
      simp only [locsOf, letterOf, h1, h40, if_false, false_and, faceYKeys]

theorem opAntiCount_single (q : Coord) (P Q : Pauli) (B : List Coord) :
    opAntiCount [(q, P)] (constOp B Q) = if Pauli.anti P Q = true ∧ q ∈ B then 1 else 0 :=
  Lat2D.opAntiCount_probe q P Q B

/-! ### probes and ranks -/

def probe (Lx Ly : Nat) : Coord → Coord × Pauli
  | [x, y, z] =>
    if z % 2 = 1 then
      (if (x + y) % 4 = 2 then ([x - 1, if y < 2 * Ly then y + 1 else y - 1, z], Pauli.X)
        else ([if x < 2 * Lx then x + 1 else x - 1, y - 1, z], Pauli.Z))
    else ([x, y, z + 1], Pauli.Z)
  | _ => ([], Pauli.I)

def mu (Lz : Nat) : Coord → Nat
  | [x, y, z] =>
    if z % 2 = 1 then (if (x + y) % 4 = 2 then x.toNat else (2 * (Lz : Int) + y).toNat)
    else (2 * (Lz : Int) - z).toNat
  | _ => 0

theorem probe_vertex {Lx Ly Lz : Nat} {x y z : Int} (h : SV Lx Ly Lz x y z) :
    probe Lx Ly [x, y, z] = ([x - 1, if y < 2 * Ly then y + 1 else y - 1, z], Pauli.X) ∧
    mu Lz [x, y, z] = x.toNat ∧ letterOf x y z = Pauli.Z := by
  unfold SV R1 at h
  have h1' : z % 2 = 1 := by omega
  have h2 : (x + y) % 4 = 2 := h.2.2.2
  simp only [probe, mu, letterOf, h1', h2, if_true, and_self]

theorem probe_vface {Lx Ly Lz : Nat} {x y z : Int} (h : SF Lx Ly Lz x y z) :
    probe Lx Ly [x, y, z] = ([x, y, z + 1], Pauli.Z) ∧
    mu Lz [x, y, z] = (2 * (Lz : Int) - z).toNat ∧ letterOf x y z = Pauli.X := by
  unfold SF R2 at h
  have h1' : ¬ z % 2 = 1 := by omega
  simp only [probe, mu, letterOf, h1', if_false, false_and, and_self]

theorem probe_hface {Lx Ly Lz : Nat} {x y z : Int} (h : SH1 Lx Ly x y z) :
    probe Lx Ly [x, y, z] = ([if x < 2 * Lx then x + 1 else x - 1, y - 1, z], Pauli.Z) ∧
    mu Lz [x, y, z] = (2 * (Lz : Int) + y).toNat ∧ letterOf x y z = Pauli.X := by
  unfold SH1 at h
  have h1' : z % 2 = 1 := by omega
  have h2 : ¬ (x + y) % 4 = 2 := by omega
  simp only [probe, mu, letterOf, h1', h2, if_true, if_false, and_false, and_self]

/-- the probe sits on a qubit of the selected generator -/
theorem probe_mem {Lx Ly Lz : Nat} (hLx : 1 ≤ Lx) (hLy : 1 ≤ Ly) (hz : 1 ≤ Lz) {x y z : Int}
    (h : SV Lx Ly Lz x y z ∨ SH1 Lx Ly x y z ∨ SF Lx Ly Lz x y z) :
    (probe Lx Ly [x, y, z]).1 ∈ (locsOf x y z).filter (isQubit Lx Ly Lz) := by
  rw [List.mem_filter]
  rcases h with h | h | h
  · rw [(probe_vertex h).1]
    unfold SV R0 R1 R2 at h
    have h1 : z % 2 = 1 := by omega
    have h2 : (x + y) % 4 = 2 := h.2.2.2
    simp only [locsOf, h1, h2, if_true, isQubit_iff]
    by_cases hy : y < 2 * Ly
    · simp only [hy, if_true]
      refine ⟨by simp [vertexLocs], Or.inl ?_⟩
      unfold QH R1; omega
    · simp only [hy, if_false]
      refine ⟨by simp [vertexLocs], Or.inl ?_⟩
      unfold QH R1; omega
  · rw [(probe_hface (Lz := Lz) h).1]
    unfold SH1 R0 R2 at h
    have h1 : z % 2 = 1 := by omega
    have h2 : ¬ (x + y) % 4 = 2 := by omega
    simp only [locsOf, h1, h2, if_true, if_false, isQubit_iff]
    by_cases hx : x < 2 * Lx
    · simp only [hx, if_true]
      refine ⟨by simp [faceZLocs], Or.inl ?_⟩
      unfold QH R1; omega
    · simp only [hx, if_false]
      refine ⟨by simp [faceZLocs], Or.inl ?_⟩
      unfold QH R1; omega
  · rw [(probe_vface h).1]
    have h4 := SF_mod4 Lx Ly Lz x y z h
    unfold SF R1 R2 at h
    have h1 : ¬ z % 2 = 1 := by omega
    simp only [locsOf, h1, if_false, isQubit_iff]
    refine ⟨?_, Or.inl ?_⟩
    · split <;> simp [faceXLocs, faceYLocs]
    · unfold QH R1; omega

theorem probe_letter {Lx Ly Lz : Nat} {x y z : Int}
    (h : SV Lx Ly Lz x y z ∨ SH1 Lx Ly x y z ∨ SF Lx Ly Lz x y z) :
    Pauli.anti (probe Lx Ly [x, y, z]).2 (letterOf x y z) = true ∧
      (probe Lx Ly [x, y, z]).2 ≠ Pauli.I := by
  rcases h with h | h | h
  · rw [(probe_vertex h).1, (probe_vertex h).2.2]; exact ⟨rfl, fun e => Pauli.noConfusion e⟩
  · rw [(probe_hface (Lz := Lz) h).1, (probe_hface (Lz := Lz) h).2.2]
    exact ⟨rfl, fun e => Pauli.noConfusion e⟩
  · rw [(probe_vface h).1, (probe_vface h).2.2]; exact ⟨rfl, fun e => Pauli.noConfusion e⟩

/-- a selected generator other than `s` whose letter anticommutes with the probe of `s` and whose
    rank is not smaller does not reach the witness qubit of `s` -/
theorem later_core {Lx Ly Lz : Nat} {x y z a b c : Int}
    (hs : SV Lx Ly Lz x y z ∨ SH1 Lx Ly x y z ∨ SF Lx Ly Lz x y z)
    (ht : SV Lx Ly Lz a b c ∨ SH1 Lx Ly a b c ∨ SF Lx Ly Lz a b c)
    (hne : [x, y, z] ≠ [a, b, c]) (hle : mu Lz [x, y, z] ≤ mu Lz [a, b, c]) :
    ¬ (Pauli.anti (probe Lx Ly [x, y, z]).2 (letterOf a b c) = true ∧
        (probe Lx Ly [x, y, z]).1 ∈ vertexLocs a b c) := by
  have hne' : ¬ (x = a ∧ y = b ∧ z = c) := by
    rintro ⟨rfl, rfl, rfl⟩; exact hne rfl
  rintro ⟨hanti, hmem⟩
  rcases hs with hs | hs | hs
  · obtain ⟨e1, e2, _⟩ := probe_vertex hs
    rw [e1] at hanti hmem; rw [e2] at hle
    rcases ht with ht | ht | ht
    · rw [(probe_vertex ht).2.1] at hle
      rw [mem_vertexLocs] at hmem
      unfold SV R0 R1 R2 at hs ht
      by_cases hy : y < 2 * Ly
      · simp only [hy, if_true] at hmem; omega
      · simp only [hy, if_false] at hmem; omega
    · rw [(probe_hface (Lz := Lz) ht).2.2] at hanti; simp [Pauli.anti] at hanti
    · rw [(probe_vface ht).2.2] at hanti; simp [Pauli.anti] at hanti
  · obtain ⟨e1, e2, _⟩ := probe_hface (Lz := Lz) hs
    rw [e1] at hanti hmem; rw [e2] at hle
    rcases ht with ht | ht | ht
    · rw [(probe_vertex ht).2.2] at hanti; simp [Pauli.anti] at hanti
    · rw [(probe_hface (Lz := Lz) ht).2.1] at hle
      rw [mem_vertexLocs] at hmem
      unfold SH1 R0 R2 at hs ht
      by_cases hx : x < 2 * Lx
      · simp only [hx, if_true] at hmem; omega
      · simp only [hx, if_false] at hmem; omega
    · rw [(probe_vface ht).2.1] at hle
      rw [mem_vertexLocs] at hmem
      unfold SH1 R0 R2 at hs
      unfold SF R1 R2 at ht
      omega
  · obtain ⟨e1, e2, _⟩ := probe_vface hs
    rw [e1] at hanti hmem; rw [e2] at hle
    rcases ht with ht | ht | ht
    · rw [(probe_vertex ht).2.2] at hanti; simp [Pauli.anti] at hanti
    · rw [mem_vertexLocs] at hmem
      unfold SF R1 R2 at hs
      unfold SH1 R0 R2 at ht
      omega
    · rw [(probe_vface ht).2.1] at hle
      rw [mem_vertexLocs] at hmem
      unfold SF R1 R2 at hs ht
      omega

theorem triangular (Lx Ly Lz : Nat) (hx : 1 ≤ Lx) (hy : 1 ≤ Ly) (hz : 1 ≤ Lz) :
    Lat2D.TriangularProbes (lattice Lx Ly Lz) (selStabs Lx Ly Lz) (probe Lx Ly) (mu Lz) where
  on_qubits := by
    intro s hs
    obtain ⟨x, y, z, rfl⟩ := mem_selStabs_shape Lx Ly Lz s hs
    have hk := (mem_selStabs_iff Lx Ly Lz x y z).mp hs
    refine ⟨?_, (probe_letter hk).2⟩
    have := (List.mem_filter.mp (probe_mem hx hy hz hk)).2
    unfold isQubit at this
    exact List.contains_iff_mem.mp this
  diag := by
    intro s hs
    obtain ⟨x, y, z, rfl⟩ := mem_selStabs_shape Lx Ly Lz s hs
    have hk := (mem_selStabs_iff Lx Ly Lz x y z).mp hs
    change opAntiCount [((probe Lx Ly [x, y, z]).1, (probe Lx Ly [x, y, z]).2)]
      (getStab Lx Ly Lz [x, y, z]) % 2 = 1
    rw [getStab_eq Lx Ly Lz x y z (mem_stabs_of_sel hz hs), opAntiCount_single,
      if_pos ⟨(probe_letter hk).1, probe_mem hx hy hz hk⟩]
  later := by
    intro s hs t ht hne hle
    obtain ⟨x, y, z, rfl⟩ := mem_selStabs_shape Lx Ly Lz s hs
    obtain ⟨a, b, c, rfl⟩ := mem_selStabs_shape Lx Ly Lz t ht
    have hks := (mem_selStabs_iff Lx Ly Lz x y z).mp hs
    have hkt := (mem_selStabs_iff Lx Ly Lz a b c).mp ht
    change opAntiCount [((probe Lx Ly [x, y, z]).1, (probe Lx Ly [x, y, z]).2)]
      (getStab Lx Ly Lz [a, b, c]) % 2 = 0
    rw [getStab_eq Lx Ly Lz a b c (mem_stabs_of_sel hz ht), opAntiCount_single, if_neg]
    rintro ⟨h1, h2⟩
    exact later_core hks hkt hne hle ⟨h1, locsOf_sub a b c _ (List.mem_filter.mp h2).1⟩

/-- the selected generators are independent, every size `Lx, Ly, Lz ≥ 1` -/
theorem indep_sel (Lx Ly Lz : Nat) (hx : 1 ≤ Lx) (hy : 1 ≤ Ly) (hz : 1 ≤ Lz) :
    Lat2D.IndepGenerators (lattice Lx Ly Lz) (selStabs Lx Ly Lz) :=
  Lat2D.indep_of_triangular (triangular Lx Ly Lz hx hy hz)

end Panqec.RotatedPlanar3DCode
