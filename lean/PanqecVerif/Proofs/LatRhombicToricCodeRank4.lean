/-
RhombicToricCode lattice model, rank clause: the off-diagonal part of the triangular criterion — a
selected generator of rank `≥` does not contain the probe of another selected generator (sizes even
`≥ 2`).  One lemma per class of probes; the rank comparison is turned into a lexicographic
disjunction (`lex_mu`) and the local order of a vertex into the table `Bad` (`rk_conflict`).
-/
import PanqecVerif.Proofs.LatRhombicToricCodeRank3
open Panqec Panqec.Lat3Db Panqec.Rhombic
open Panqec.XCubeCode (up dn up_spec dn_spec)
namespace Panqec.RhombicToricCode

/-! ### lexicographic comparisons -/

theorem lex2_lt {X U Y V M : Nat} (hV : V < M) (h : X * M + Y < U * M + V) :
    X < U ∨ (X = U ∧ Y < V) := by
  rcases Nat.lt_trichotomy X U with h1 | h1 | h1
  · exact Or.inl h1
  · subst h1; right; exact ⟨rfl, by omega⟩
  · exfalso
    have : (U + 1) * M ≤ X * M := Nat.mul_le_mul_right M h1
    rw [Nat.succ_mul] at this
    generalize X * M = Q at *
    generalize U * M = P at *
    omega

theorem lex2_eq {X U Y V M : Nat} (hY : Y < M) (hV : V < M) (h : X * M + Y = U * M + V) :
    X = U ∧ Y = V := by
  rcases Nat.lt_trichotomy X U with h1 | h1 | h1
  · exfalso
    have : (X + 1) * M ≤ U * M := Nat.mul_le_mul_right M h1
    rw [Nat.succ_mul] at this
    generalize X * M = Q at *
    generalize U * M = P at *
    omega
  · subst h1; exact ⟨rfl, by omega⟩
  · exfalso
    have : (U + 1) * M ≤ X * M := Nat.mul_le_mul_right M h1
    rw [Nat.succ_mul] at this
    generalize X * M = Q at *
    generalize U * M = P at *
    omega

/-- the comparison of two triangle ranks, lexicographically -/
theorem lex_mu {A A' Y Y' Z Z' My Mz r r' : Nat} (hY : Y < My) (hY' : Y' < My) (hZ : Z < Mz)
    (hZ' : Z' < Mz) (hr : r < 4) (hr' : r' < 4)
    (h : ((A * My + Y) * Mz + Z) * 4 + r ≤ ((A' * My + Y') * Mz + Z') * 4 + r') :
    A < A' ∨ (A = A' ∧ (Y < Y' ∨ (Y = Y' ∧ (Z < Z' ∨ (Z = Z' ∧ r ≤ r'))))) := by
  rcases lex_of_le hZ hZ' hr hr' h with h1 | ⟨h1, h2⟩
  · rcases lex2_lt hY' h1 with h3 | ⟨h3, h4⟩
    · exact Or.inl h3
    · exact Or.inr ⟨h3, Or.inl h4⟩
  · obtain ⟨h3, h4⟩ := lex2_eq hY hY' h1
    exact Or.inr ⟨h3, Or.inr ⟨h4, h2⟩⟩

/-- the comparison of two cube ranks, lexicographically -/
theorem lex_mu3 {Z Z' Y Y' X X' My Mx : Nat} (hY : Y < My) (hY' : Y' < My) (hX : X < Mx)
    (hX' : X' < Mx) (h : (Z * My + Y) * Mx + X ≤ (Z' * My + Y') * Mx + X') :
    Z < Z' ∨ (Z = Z' ∧ (Y < Y' ∨ (Y = Y' ∧ X ≤ X'))) := by
  have h' : (Z * My + Y) * Mx + X < (Z' * My + Y') * Mx + X' ∨
      (Z * My + Y) * Mx + X = (Z' * My + Y') * Mx + X' := by omega
  rcases h' with h' | h'
  · rcases lex2_lt hX' h' with h1 | ⟨h1, h2⟩
    · rcases lex2_lt hY' h1 with h3 | ⟨h3, h4⟩
      · exact Or.inl h3
      · exact Or.inr ⟨h3, Or.inl h4⟩
    · obtain ⟨h3, h4⟩ := lex2_eq hY hY' h1
      exact Or.inr ⟨h3, Or.inr ⟨h4, by omega⟩⟩
  · obtain ⟨h1, h2⟩ := lex2_eq hX hX' h'
    obtain ⟨h3, h4⟩ := lex2_eq hY hY' h1
    exact Or.inr ⟨h3, Or.inr ⟨h4, by omega⟩⟩

/-! ### the local order of the triangles of a vertex -/

/-- pairs of axes `(a, b)` at a vertex with `rkT b < rkT a` -/
def Bad (Lx : Nat) (a b x y z : Int) : Prop :=
  (x = 2*(Lx:Int)-2 ∧ 2 ≤ y ∧ ((a = 1 ∧ b = 2) ∨ (a = 3 ∧ (b = 2 ∨ b = 1)))) ∨
  (x = 2*(Lx:Int)-2 ∧ y < 2 ∧ (x + y + z) % 4 = 0 ∧ ((a = 3 ∧ b = 2) ∨ (a = 1 ∧ (b = 2 ∨ b = 3)))) ∨
  (x = 2*(Lx:Int)-2 ∧ y < 2 ∧ (x + y + z) % 4 ≠ 0 ∧ ((a = 2 ∧ b = 1) ∨ (a = 3 ∧ (b = 1 ∨ b = 2)))) ∨
  (x = 0 ∧ x ≠ 2*(Lx:Int)-2 ∧ (x + y + z) % 4 = 0 ∧
    ((a = 1 ∧ b = 2) ∨ (a = 0 ∧ (b = 1 ∨ b = 2)) ∨ (a = 3 ∧ (b = 1 ∨ b = 2)))) ∨
  (x = 0 ∧ x ≠ 2*(Lx:Int)-2 ∧ (x + y + z) % 4 ≠ 0 ∧
    ((a = 2 ∧ b = 1) ∨ (a = 0 ∧ (b = 1 ∨ b = 2)) ∨ (a = 3 ∧ (b = 1 ∨ b = 2)))) ∨
  (x ≠ 0 ∧ x ≠ 2*(Lx:Int)-2 ∧ ((a = 3 ∧ b = 1) ∨ (a = 2 ∧ (b = 1 ∨ b = 3))))

theorem Bad.l2 {Lx : Nat} {a b x y z : Int} (h1 : x = 2*(Lx:Int)-2) (h2 : 2 ≤ y)
    (h : (a = 1 ∧ b = 2) ∨ (a = 3 ∧ (b = 2 ∨ b = 1))) : Bad Lx a b x y z := Or.inl ⟨h1, h2, h⟩
theorem Bad.l0 {Lx : Nat} {a b x y z : Int} (h1 : x = 2*(Lx:Int)-2) (h2 : y < 2) (h3 : (x + y + z) % 4 = 0)
    (h : (a = 3 ∧ b = 2) ∨ (a = 1 ∧ (b = 2 ∨ b = 3))) : Bad Lx a b x y z := Or.inr (Or.inl ⟨h1, h2, h3, h⟩)
theorem Bad.l1 {Lx : Nat} {a b x y z : Int} (h1 : x = 2*(Lx:Int)-2) (h2 : y < 2) (h3 : (x + y + z) % 4 ≠ 0)
    (h : (a = 2 ∧ b = 1) ∨ (a = 3 ∧ (b = 1 ∨ b = 2))) : Bad Lx a b x y z :=
  Or.inr (Or.inr (Or.inl ⟨h1, h2, h3, h⟩))
theorem Bad.f0 {Lx : Nat} {a b x y z : Int} (h1 : x = 0) (h1' : x ≠ 2*(Lx:Int)-2) (h3 : (x + y + z) % 4 = 0)
    (h : (a = 1 ∧ b = 2) ∨ (a = 0 ∧ (b = 1 ∨ b = 2)) ∨ (a = 3 ∧ (b = 1 ∨ b = 2))) : Bad Lx a b x y z :=
  Or.inr (Or.inr (Or.inr (Or.inl ⟨h1, h1', h3, h⟩)))
theorem Bad.f2 {Lx : Nat} {a b x y z : Int} (h1 : x = 0) (h1' : x ≠ 2*(Lx:Int)-2) (h3 : (x + y + z) % 4 ≠ 0)
    (h : (a = 2 ∧ b = 1) ∨ (a = 0 ∧ (b = 1 ∨ b = 2)) ∨ (a = 3 ∧ (b = 1 ∨ b = 2))) : Bad Lx a b x y z :=
  Or.inr (Or.inr (Or.inr (Or.inr (Or.inl ⟨h1, h1', h3, h⟩))))
theorem Bad.m {Lx : Nat} {a b x y z : Int} (h1 : x ≠ 0) (h1' : x ≠ 2*(Lx:Int)-2)
    (h : (a = 3 ∧ b = 1) ∨ (a = 2 ∧ (b = 1 ∨ b = 3))) : Bad Lx a b x y z :=
  Or.inr (Or.inr (Or.inr (Or.inr (Or.inr ⟨h1, h1', h⟩))))

theorem rk_conflict {Lx : Nat} {a b x y z : Int} (h : rkT Lx a x y z ≤ rkT Lx b x y z) :
    ¬ Bad Lx a b x y z := by
  intro hb
  unfold rkT at h
  unfold Bad at hb
  rcases hb with ⟨h1, h2, hb⟩ | ⟨h1, h2, h3, hb⟩ | ⟨h1, h2, h3, hb⟩ | ⟨h1, h1', h3, hb⟩ | ⟨h1, h1', h3, hb⟩ |
    ⟨h1, h1', hb⟩
  · have n2 : (2 : Int) ≤ y := h2
    simp only [h1, if_true, n2] at h
    rcases hb with ⟨rfl, rfl⟩ | ⟨rfl, rfl | rfl⟩ <;> simp at h
  · have n2 : ¬ (2 : Int) ≤ y := by omega
    rw [if_pos h1, if_neg n2, if_pos h3] at h
    rw [if_pos h1, if_neg n2, if_pos h3] at h
    rcases hb with ⟨rfl, rfl⟩ | ⟨rfl, rfl | rfl⟩ <;> simp at h
  · have n2 : ¬ (2 : Int) ≤ y := by omega
    rw [if_pos h1, if_neg n2, if_neg h3] at h
    rw [if_pos h1, if_neg n2, if_neg h3] at h
    rcases hb with ⟨rfl, rfl⟩ | ⟨rfl, rfl | rfl⟩ <;> simp at h
  · rw [if_neg h1', if_pos h1, if_pos h3] at h
    rw [if_neg h1', if_pos h1, if_pos h3] at h
    rcases hb with ⟨rfl, rfl⟩ | ⟨rfl, rfl | rfl⟩ | ⟨rfl, rfl | rfl⟩ <;> simp at h
  · rw [if_neg h1', if_pos h1, if_neg h3] at h
    rw [if_neg h1', if_pos h1, if_neg h3] at h
    rcases hb with ⟨rfl, rfl⟩ | ⟨rfl, rfl | rfl⟩ | ⟨rfl, rfl | rfl⟩ <;> simp at h
  · rw [if_neg h1', if_neg h1] at h
    rw [if_neg h1', if_neg h1] at h
    rcases hb with ⟨rfl, rfl⟩ | ⟨rfl, rfl | rfl⟩ <;> simp at h

theorem sgnX_facts (b : Int) (hb : IsAxis b) :
    ((b = 0 ∨ b = 2) ∧ sgnX b = 1) ∨ ((b = 1 ∨ b = 3) ∧ sgnX b = -1) := by
  unfold sgnX; rcases hb with rfl | rfl | rfl | rfl <;> simp

theorem sgnY_facts (b : Int) (hb : IsAxis b) :
    ((b = 0 ∨ b = 3) ∧ sgnY b = 1) ∨ ((b = 1 ∨ b = 2) ∧ sgnY b = -1) := by
  unfold sgnY; rcases hb with rfl | rfl | rfl | rfl <;> simp

theorem sgnZ_facts (b u v w : Int) (hb : IsAxis b) :
    ((u + v + w) % 4 = 0 ∧ (((b = 0 ∨ b = 1) ∧ sgnZ b u v w = 1) ∨ ((b = 2 ∨ b = 3) ∧ sgnZ b u v w = -1))) ∨
    ((u + v + w) % 4 ≠ 0 ∧ (((b = 2 ∨ b = 3) ∧ sgnZ b u v w = 1) ∨ ((b = 0 ∨ b = 1) ∧ sgnZ b u v w = -1))) := by
  unfold sgnZ
  by_cases hp : (u + v + w) % 4 = 0 <;> rcases hb with rfl | rfl | rfl | rfl <;> simp [hp]

theorem tier_spec (Lx : Nat) (a x : Int) :
    (0 < x ∧ x < 2*(Lx:Int)-2 ∧ a = 2 ∧ tier Lx a x = 1) ∨
    (¬ (0 < x ∧ x < 2*(Lx:Int)-2 ∧ a = 2) ∧ tier Lx a x = 0) := by
  unfold tier; split <;> simp_all

/-! ### the vertex of a triangle from one of its legs -/

theorem xleg_alt {Lx Ly Lz : Nat} {b u v w p q r : Int} (hst : ST Lx Ly Lz b u v w)
    (h : [p, q, r] ∈ triKeys Lx Ly Lz b u v w) (hp : p % 2 = 1) :
    q = v ∧ r = w ∧ (((b = 0 ∨ b = 2) ∧ u = p - 1) ∨
      ((b = 1 ∨ b = 3) ∧ ((u ≠ 0 ∧ u = p + 1) ∨ (u = 0 ∧ p = 2*(Lx:Int)-1)))) := by
  have h3 := (mem_triKeys_iff hst).mp h
  have gx := sgnX_facts b hst.1
  have fx := step_facts (2*Lx) u (sgnX b) (sgnX_pm b)
  obtain ⟨_, hu, hv, hw⟩ := hst
  unfold R0 at hu hv hw
  generalize step (2*Lx) u (sgnX b) = px at *
  generalize sgnX b = sx at *
  rcases h3 with h3 | h3 | h3 <;> omega

theorem yleg_alt {Lx Ly Lz : Nat} {b u v w p q r : Int} (hst : ST Lx Ly Lz b u v w)
    (h : [p, q, r] ∈ triKeys Lx Ly Lz b u v w) (hq : q % 2 = 1) :
    p = u ∧ r = w ∧ (((b = 0 ∨ b = 3) ∧ v = q - 1) ∨
      ((b = 1 ∨ b = 2) ∧ ((v ≠ 0 ∧ v = q + 1) ∨ (v = 0 ∧ q = 2*(Ly:Int)-1)))) := by
  have h3 := (mem_triKeys_iff hst).mp h
  have gy := sgnY_facts b hst.1
  have fy := step_facts (2*Ly) v (sgnY b) (sgnY_pm b)
  obtain ⟨_, hu, hv, hw⟩ := hst
  unfold R0 at hu hv hw
  generalize step (2*Ly) v (sgnY b) = py at *
  generalize sgnY b = sy at *
  rcases h3 with h3 | h3 | h3 <;> omega

theorem zleg_alt {Lx Ly Lz : Nat} {b u v w p q r : Int} (hst : ST Lx Ly Lz b u v w)
    (h : [p, q, r] ∈ triKeys Lx Ly Lz b u v w) (hr : r % 2 = 1) :
    p = u ∧ q = v ∧
      (((((u + v + w) % 4 = 0 ∧ (b = 0 ∨ b = 1)) ∨ ((u + v + w) % 4 = 2 ∧ (b = 2 ∨ b = 3))) ∧ w = r - 1) ∨
       ((((u + v + w) % 4 = 0 ∧ (b = 2 ∨ b = 3)) ∨ ((u + v + w) % 4 = 2 ∧ (b = 0 ∨ b = 1))) ∧
         ((w ≠ 0 ∧ w = r + 1) ∨ (w = 0 ∧ r = 2*(Lz:Int)-1)))) := by
  have h3 := (mem_triKeys_iff hst).mp h
  have gz := sgnZ_facts b u v w hst.1
  have fz := step_facts (2*Lz) w (sgnZ b u v w) (sgnZ_pm b u v w)
  obtain ⟨_, hu, hv, hw⟩ := hst
  unfold R0 at hu hv hw
  generalize step (2*Lz) w (sgnZ b u v w) = pz at *
  generalize sgnZ b u v w = sz at *
  rcases h3 with h3 | h3 | h3 <;> omega

/-! ### triangles -/

/-- the comparison of the ranks of two triangles in arithmetic form -/
theorem mu_lex {Lx Ly Lz : Nat} {a x y z b u v w : Int} (hx : 0 ≤ x) (hy : 0 ≤ y ∧ y < 2*(Ly:Int))
    (hz : 0 ≤ z ∧ z < 2*(Lz:Int)) (hu : 0 ≤ u) (hv : 0 ≤ v ∧ v < 2*(Ly:Int)) (hw : 0 ≤ w ∧ w < 2*(Lz:Int))
    (hle : mu Lx Ly Lz [a, x, y, z] ≤ mu Lx Ly Lz [b, u, v, w]) :
    2 * x + tier Lx a x < 2 * u + tier Lx b u ∨ (2 * x + tier Lx a x = 2 * u + tier Lx b u ∧
      (y < v ∨ (y = v ∧ (z < w ∨ (z = w ∧ rkT Lx a x y z ≤ rkT Lx b u v w))))) := by
  simp only [mu] at hle
  have hlex := lex_mu (My := 2*Ly+1) (Mz := 2*Lz+1) (by omega) (by omega) (by omega) (by omega)
    (rkT_lt Lx a x y z) (rkT_lt Lx b u v w) hle
  generalize rkT Lx a x y z = ra at *
  generalize rkT Lx b u v w = rb at *
  generalize tier Lx a x = tra at *
  generalize tier Lx b u = trb at *
  clear hle
  omega

/-! ### triangles: one lemma per class of probes -/

theorem later_mid3 {Lx Ly Lz : Nat} {x y z b u v w : Int} (hs : TK Lx Ly Lz 3 x y z)
    (ht : TK Lx Ly Lz b u v w) (hne : ¬ ((3 : Int) = b ∧ x = u ∧ y = v ∧ z = w))
    (hle : mu Lx Ly Lz [3, x, y, z] ≤ mu Lx Ly Lz [b, u, v, w])
    (h0 : 0 < x) (h1 : x < 2*(Lx:Int)-2)
    (hmem : [x - 1, y, z] ∈ triKeys Lx Ly Lz b u v w) : False := by
  obtain ⟨hx, hyy, hz, -⟩ := hs
  unfold R0 at hx hyy hz
  obtain ⟨rfl, rfl, halt⟩ := xleg_alt ht.st hmem (by omega)
  obtain ⟨hu, hv, hw, hd⟩ := ht
  unfold R0 at hu hv hw
  have hlex := mu_lex (by omega) (by omega) (by omega) (by omega) (by omega) (by omega) hle
  have ta := tier_spec Lx 3 x
  have tb := tier_spec Lx b u
  rcases halt with ⟨hb2, hu2⟩ | ⟨hb2, ⟨hu0, hu2⟩ | ⟨hu0, hu2⟩⟩
  · clear hd hne; omega
  · have hux : u = x := by omega
    subst hux
    rcases hb2 with rfl | rfl
    · have hB : Bad Lx 3 1 u y z := Bad.m (by omega) (by omega) (Or.inl ⟨rfl, rfl⟩)
      have hr : rkT Lx 3 u y z ≤ rkT Lx 1 u y z := by clear hd hne hB; omega
      exact rk_conflict hr hB
    · exact hne ⟨rfl, rfl, rfl, rfl⟩
  · omega

theorem later_mid2 {Lx Ly Lz : Nat} {x y z b u v w : Int} (hs : TK Lx Ly Lz 2 x y z)
    (ht : TK Lx Ly Lz b u v w) (hne : ¬ ((2 : Int) = b ∧ x = u ∧ y = v ∧ z = w))
    (hle : mu Lx Ly Lz [2, x, y, z] ≤ mu Lx Ly Lz [b, u, v, w])
    (h0 : 0 < x) (h1 : x < 2*(Lx:Int)-2)
    (hmem : [x, dn (2*Ly) y, z] ∈ triKeys Lx Ly Lz b u v w) : False := by
  obtain ⟨hx, hyy, hz, -⟩ := hs
  unfold R0 at hx hyy hz
  have dy := dn_spec (2*Ly) y
  generalize dn (2*Ly) y = dny at *
  obtain ⟨rfl, rfl, halt⟩ := yleg_alt ht.st hmem (by omega)
  obtain ⟨hu, hv, hw, hd⟩ := ht
  unfold R0 at hu hv hw
  have hlex := mu_lex (by omega) (by omega) (by omega) (by omega) (by omega) (by omega) hle
  have ta := tier_spec Lx 2 x
  have tb := tier_spec Lx b x
  rcases halt with ⟨hb2, hu2⟩ | ⟨hb2, ⟨hu0, hu2⟩ | ⟨hu0, hu2⟩⟩ <;> omega

theorem later_mid1 {Lx Ly Lz : Nat} {x y z b u v w : Int} (hs : TK Lx Ly Lz 1 x y z)
    (ht : TK Lx Ly Lz b u v w) (hne : ¬ ((1 : Int) = b ∧ x = u ∧ y = v ∧ z = w))
    (h0 : 0 < x) (h1 : x < 2*(Lx:Int)-2) (hp : (x + y + z) % 4 = 2) (hez : Lz % 2 = 0)
    (hmem : [x, y, dn (2*Lz) z] ∈ triKeys Lx Ly Lz b u v w) : False := by
  obtain ⟨hx, hyy, hz, -⟩ := hs
  unfold R0 at hx hyy hz
  have dz := dn_spec (2*Lz) z
  generalize dn (2*Lz) z = dnz at *
  obtain ⟨rfl, rfl, halt⟩ := zleg_alt ht.st hmem (by omega)
  obtain ⟨hu, hv, hw, hd⟩ := ht
  unfold R0 at hu hv hw
  rcases halt with ⟨hb2, hu2⟩ | ⟨hb2, ⟨hu0, hu2⟩ | ⟨hu0, hu2⟩⟩ <;> omega

theorem later_last2 {Lx Ly Lz : Nat} (_hLx : 2 ≤ Lx) {x y z b u v w : Int} (hs : TK Lx Ly Lz 2 x y z)
    (ht : TK Lx Ly Lz b u v w) (hne : ¬ ((2 : Int) = b ∧ x = u ∧ y = v ∧ z = w))
    (hle : mu Lx Ly Lz [2, x, y, z] ≤ mu Lx Ly Lz [b, u, v, w])
    (h0 : x = 2*(Lx:Int)-2)
    (hmem : [x + 1, y, z] ∈ triKeys Lx Ly Lz b u v w) : False := by
  obtain ⟨hx, hyy, hz, -⟩ := hs
  unfold R0 at hx hyy hz
  obtain ⟨rfl, rfl, halt⟩ := xleg_alt ht.st hmem (by omega)
  obtain ⟨hu, hv, hw, hd⟩ := ht
  unfold R0 at hu hv hw
  have hlex := mu_lex (by omega) (by omega) (by omega) (by omega) (by omega) (by omega) hle
  have ta := tier_spec Lx 2 x
  have tb := tier_spec Lx b u
  rcases halt with ⟨hb2, hu2⟩ | ⟨hb2, ⟨hu0, hu2⟩ | ⟨hu0, hu2⟩⟩ <;> omega

theorem later_last3x {Lx Ly Lz : Nat} (hLx : 2 ≤ Lx) {x y z b u v w : Int} (hs : TK Lx Ly Lz 3 x y z)
    (ht : TK Lx Ly Lz b u v w) (hne : ¬ ((3 : Int) = b ∧ x = u ∧ y = v ∧ z = w))
    (hle : mu Lx Ly Lz [3, x, y, z] ≤ mu Lx Ly Lz [b, u, v, w])
    (h0 : x = 2*(Lx:Int)-2) (h1 : ¬ (y = 0 ∧ (x + y + z) % 4 = 0))
    (hmem : [x - 1, y, z] ∈ triKeys Lx Ly Lz b u v w) : False := by
  obtain ⟨hx, hyy, hz, -⟩ := hs
  unfold R0 at hx hyy hz
  obtain ⟨rfl, rfl, halt⟩ := xleg_alt ht.st hmem (by omega)
  obtain ⟨hu, hv, hw, hd⟩ := ht
  unfold R0 at hu hv hw
  have hlex := mu_lex (by omega) (by omega) (by omega) (by omega) (by omega) (by omega) hle
  have ta := tier_spec Lx 3 x
  have tb := tier_spec Lx b u
  rcases halt with ⟨hb2, hu2⟩ | ⟨hb2, ⟨hu0, hu2⟩ | ⟨hu0, hu2⟩⟩
  · clear hd hne; omega
  · have hux : u = x := by omega
    subst hux
    rcases hb2 with rfl | rfl
    · have hB : Bad Lx 3 1 u y z := by
        by_cases hy2 : 2 ≤ y
        · exact Bad.l2 h0 hy2 (Or.inr ⟨rfl, Or.inr rfl⟩)
        · exact Bad.l1 h0 (by omega) (by clear hd hne hlex ta tb; omega) (Or.inr ⟨rfl, Or.inl rfl⟩)
      have hr : rkT Lx 3 u y z ≤ rkT Lx 1 u y z := by clear hd hne hB; omega
      exact rk_conflict hr hB
    · exact hne ⟨rfl, rfl, rfl, rfl⟩
  · omega

theorem later_last3z {Lx Ly Lz : Nat} (_hLx : 2 ≤ Lx) (hex : Lx % 2 = 0) {x y z b u v w : Int}
    (hs : TK Lx Ly Lz 3 x y z)
    (ht : TK Lx Ly Lz b u v w) (hne : ¬ ((3 : Int) = b ∧ x = u ∧ y = v ∧ z = w))
    (hle : mu Lx Ly Lz [3, x, y, z] ≤ mu Lx Ly Lz [b, u, v, w])
    (h0 : x = 2*(Lx:Int)-2) (h1 : y = 0) (hp : (x + y + z) % 4 = 0)
    (hmem : [x, y, z - 1] ∈ triKeys Lx Ly Lz b u v w) : False := by
  obtain ⟨hx, hyy, hz, -⟩ := hs
  unfold R0 at hx hyy hz
  obtain ⟨rfl, rfl, halt⟩ := zleg_alt ht.st hmem (by omega)
  obtain ⟨hu, hv, hw, hd⟩ := ht
  unfold R0 at hu hv hw
  have hlex := mu_lex (by omega) (by omega) (by omega) (by omega) (by omega) (by omega) hle
  have ta := tier_spec Lx 3 x
  have tb := tier_spec Lx b x
  rcases halt with ⟨hb2, hu2⟩ | ⟨hb2, ⟨hu0, hu2⟩ | ⟨hu0, hu2⟩⟩
  · clear hd hne; omega
  · have hwz : w = z := by omega
    subst hwz
    have hb3 : b = 2 ∨ b = 3 := by omega
    rcases hb3 with rfl | rfl
    · have hB : Bad Lx 3 2 x y w := Bad.l0 h0 (by omega) hp (Or.inl ⟨rfl, rfl⟩)
      have hr : rkT Lx 3 x y w ≤ rkT Lx 2 x y w := by clear hd hne hB; omega
      exact rk_conflict hr hB
    · exact hne ⟨rfl, rfl, rfl, rfl⟩
  · omega

theorem later_last1y {Lx Ly Lz : Nat} (hLx : 2 ≤ Lx) {x y z b u v w : Int} (hs : TK Lx Ly Lz 1 x y z)
    (ht : TK Lx Ly Lz b u v w) (hne : ¬ ((1 : Int) = b ∧ x = u ∧ y = v ∧ z = w))
    (hle : mu Lx Ly Lz [1, x, y, z] ≤ mu Lx Ly Lz [b, u, v, w])
    (h0 : x = 2*(Lx:Int)-2) (h1 : 2 ≤ y)
    (hmem : [x, y - 1, z] ∈ triKeys Lx Ly Lz b u v w) : False := by
  obtain ⟨hx, hyy, hz, -⟩ := hs
  unfold R0 at hx hyy hz
  obtain ⟨rfl, rfl, halt⟩ := yleg_alt ht.st hmem (by omega)
  obtain ⟨hu, hv, hw, hd⟩ := ht
  unfold R0 at hu hv hw
  have hlex := mu_lex (by omega) (by omega) (by omega) (by omega) (by omega) (by omega) hle
  have ta := tier_spec Lx 1 x
  have tb := tier_spec Lx b x
  rcases halt with ⟨hb2, hu2⟩ | ⟨hb2, ⟨hu0, hu2⟩ | ⟨hu0, hu2⟩⟩
  · clear hd hne; omega
  · have hvy : v = y := by omega
    subst hvy
    rcases hb2 with rfl | rfl
    · exact hne ⟨rfl, rfl, rfl, rfl⟩
    · have hB : Bad Lx 1 2 x v z := Bad.l2 h0 h1 (Or.inl ⟨rfl, rfl⟩)
      have hr : rkT Lx 1 x v z ≤ rkT Lx 2 x v z := by clear hd hne hB; omega
      exact rk_conflict hr hB
  · omega

theorem later_last1x {Lx Ly Lz : Nat} (hLx : 2 ≤ Lx) {x y z b u v w : Int} (hs : TK Lx Ly Lz 1 x y z)
    (ht : TK Lx Ly Lz b u v w) (hne : ¬ ((1 : Int) = b ∧ x = u ∧ y = v ∧ z = w))
    (hle : mu Lx Ly Lz [1, x, y, z] ≤ mu Lx Ly Lz [b, u, v, w])
    (h0 : x = 2*(Lx:Int)-2) (h1 : y = 0) (hp : (x + y + z) % 4 = 0)
    (hmem : [x - 1, y, z] ∈ triKeys Lx Ly Lz b u v w) : False := by
  obtain ⟨hx, hyy, hz, -⟩ := hs
  unfold R0 at hx hyy hz
  obtain ⟨rfl, rfl, halt⟩ := xleg_alt ht.st hmem (by omega)
  obtain ⟨hu, hv, hw, hd⟩ := ht
  unfold R0 at hu hv hw
  have hlex := mu_lex (by omega) (by omega) (by omega) (by omega) (by omega) (by omega) hle
  have ta := tier_spec Lx 1 x
  have tb := tier_spec Lx b u
  rcases halt with ⟨hb2, hu2⟩ | ⟨hb2, ⟨hu0, hu2⟩ | ⟨hu0, hu2⟩⟩
  · clear hd hne; omega
  · have hux : u = x := by omega
    subst hux
    rcases hb2 with rfl | rfl
    · exact hne ⟨rfl, rfl, rfl, rfl⟩
    · have hB : Bad Lx 1 3 u y z := Bad.l0 h0 (by omega) hp (Or.inr ⟨rfl, Or.inr rfl⟩)
      have hr : rkT Lx 1 u y z ≤ rkT Lx 3 u y z := by clear hd hne hB; omega
      exact rk_conflict hr hB
  · omega

theorem later_last1z {Lx Ly Lz : Nat} (hLx : 2 ≤ Lx) {x y z b u v w : Int} (hs : TK Lx Ly Lz 1 x y z)
    (ht : TK Lx Ly Lz b u v w) (hne : ¬ ((1 : Int) = b ∧ x = u ∧ y = v ∧ z = w))
    (hle : mu Lx Ly Lz [1, x, y, z] ≤ mu Lx Ly Lz [b, u, v, w])
    (h0 : x = 2*(Lx:Int)-2) (h1 : y = 0) (hp : (x + y + z) % 4 = 2) (_hz0 : z ≠ 0)
    (hmem : [x, y, z - 1] ∈ triKeys Lx Ly Lz b u v w) : False := by
  obtain ⟨hx, hyy, hz, -⟩ := hs
  unfold R0 at hx hyy hz
  obtain ⟨rfl, rfl, halt⟩ := zleg_alt ht.st hmem (by omega)
  obtain ⟨hu, hv, hw, hd⟩ := ht
  unfold R0 at hu hv hw
  have hlex := mu_lex (by omega) (by omega) (by omega) (by omega) (by omega) (by omega) hle
  have ta := tier_spec Lx 1 x
  have tb := tier_spec Lx b x
  rcases halt with ⟨hb2, hu2⟩ | ⟨hb2, ⟨hu0, hu2⟩ | ⟨hu0, hu2⟩⟩ <;> omega

theorem later_first_y {Lx Ly Lz : Nat} (hLx : 2 ≤ Lx) {a x y z b u v w : Int} (hs : TK Lx Ly Lz a x y z)
    (ht : TK Lx Ly Lz b u v w) (hne : ¬ (a = b ∧ x = u ∧ y = v ∧ z = w))
    (hle : mu Lx Ly Lz [a, x, y, z] ≤ mu Lx Ly Lz [b, u, v, w])
    (h0 : x = 0) (hc : (a = 1 ∧ (x + y + z) % 4 = 0) ∨ (a = 2 ∧ (x + y + z) % 4 = 2))
    (hmem : [x, dn (2*Ly) y, z] ∈ triKeys Lx Ly Lz b u v w) : False := by
  obtain ⟨hx, hyy, hz, -⟩ := hs
  unfold R0 at hx hyy hz
  have dy := dn_spec (2*Ly) y
  generalize dn (2*Ly) y = dny at *
  obtain ⟨rfl, rfl, halt⟩ := yleg_alt ht.st hmem (by omega)
  obtain ⟨hu, hv, hw, hd⟩ := ht
  unfold R0 at hu hv hw
  have hlex := mu_lex (by omega) (by omega) (by omega) (by omega) (by omega) (by omega) hle
  have ta := tier_spec Lx a x
  have tb := tier_spec Lx b x
  rcases halt with ⟨hb2, hu2⟩ | ⟨hb2, hu2⟩
  · omega
  · have hvy : v = y := by omega
    subst hvy
    by_cases hab : a = b
    · exact hne ⟨hab, rfl, rfl, rfl⟩
    · have hB : Bad Lx a b x v z := by
        rcases hc with ⟨rfl, hp⟩ | ⟨rfl, hp⟩
        · exact Bad.f0 h0 (by omega) hp (Or.inl ⟨rfl, by omega⟩)
        · exact Bad.f2 h0 (by omega) (by omega) (Or.inl ⟨rfl, by omega⟩)
      have hr : rkT Lx a x v z ≤ rkT Lx b x v z := by clear hd hne hB; omega
      exact rk_conflict hr hB

theorem later_first_z {Lx Ly Lz : Nat} (hLx : 2 ≤ Lx) {a x y z b u v w : Int} (hs : TK Lx Ly Lz a x y z)
    (ht : TK Lx Ly Lz b u v w) (hne : ¬ (a = b ∧ x = u ∧ y = v ∧ z = w))
    (hle : mu Lx Ly Lz [a, x, y, z] ≤ mu Lx Ly Lz [b, u, v, w])
    (h0 : x = 0) (hz2 : 2 ≤ z) (hc : (a = 2 ∧ (x + y + z) % 4 = 0) ∨ (a = 1 ∧ (x + y + z) % 4 = 2))
    (hmem : [x, y, z - 1] ∈ triKeys Lx Ly Lz b u v w) : False := by
  obtain ⟨hx, hyy, hz, -⟩ := hs
  unfold R0 at hx hyy hz
  obtain ⟨rfl, rfl, halt⟩ := zleg_alt ht.st hmem (by omega)
  obtain ⟨hu, hv, hw, hd⟩ := ht
  unfold R0 at hu hv hw
  have hlex := mu_lex (by omega) (by omega) (by omega) (by omega) (by omega) (by omega) hle
  have ta := tier_spec Lx a x
  have tb := tier_spec Lx b x
  rcases halt with ⟨hb2, hu2⟩ | ⟨hb2, ⟨hu0, hu2⟩ | ⟨hu0, hu2⟩⟩ <;> omega

theorem later_first_t {Lx Ly Lz : Nat} (hLx : 2 ≤ Lx) (hLz : 2 ≤ Lz) {a x y z b u v w : Int}
    (hs : TK Lx Ly Lz a x y z)
    (ht : TK Lx Ly Lz b u v w) (hne : ¬ (a = b ∧ x = u ∧ y = v ∧ z = w))
    (hle : mu Lx Ly Lz [a, x, y, z] ≤ mu Lx Ly Lz [b, u, v, w])
    (h0 : x = 0) (hzt : z = 2*(Lz:Int)-2)
    (hc : (a = 3 ∧ (x + y + z) % 4 = 2) ∨ (a = 0 ∧ (x + y + z) % 4 = 0))
    (hmem : [x, y, z + 1] ∈ triKeys Lx Ly Lz b u v w) : False := by
  obtain ⟨hx, hyy, hz, -⟩ := hs
  unfold R0 at hx hyy hz
  obtain ⟨rfl, rfl, halt⟩ := zleg_alt ht.st hmem (by omega)
  obtain ⟨hu, hv, hw, hd⟩ := ht
  unfold R0 at hu hv hw
  have hlex := mu_lex (by omega) (by omega) (by omega) (by omega) (by omega) (by omega) hle
  have ta := tier_spec Lx a x
  have tb := tier_spec Lx b x
  rcases halt with ⟨hb2, hu2⟩ | ⟨hb2, ⟨hu0, hu2⟩ | ⟨hu0, hu2⟩⟩
  · have hwz : w = z := by omega
    subst hwz
    by_cases hab : a = b
    · exact hne ⟨hab, rfl, rfl, rfl⟩
    · have hB : Bad Lx a b x y w := by
        rcases hc with ⟨rfl, hp⟩ | ⟨rfl, hp⟩
        · exact Bad.f2 h0 (by omega) (by omega) (Or.inr (Or.inr ⟨rfl, by omega⟩))
        · exact Bad.f0 h0 (by omega) hp (Or.inr (Or.inl ⟨rfl, by omega⟩))
      have hr : rkT Lx a x y w ≤ rkT Lx b x y w := by clear hd hne hB; omega
      exact rk_conflict hr hB
  · omega
  · clear hd hne; omega

end Panqec.RhombicToricCode
