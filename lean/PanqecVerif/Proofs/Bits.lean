/-
Helper lemmas about `Model/Bits.lean` (dot products, symplectic form, converters).
Core Lean only.
-/
import PanqecVerif.Model.Bits

namespace Panqec

/-! ### dot products -/

theorem dot_nil_left (b : List Nat) : dot [] b = 0 := by simp [dot]
theorem dot_nil_right (a : List Nat) : dot a [] = 0 := by cases a <;> simp [dot]
@[simp] theorem dot_cons (a b : Nat) (as bs : List Nat) :
    dot (a :: as) (b :: bs) = a * b + dot as bs := by simp [dot]

theorem dot_comm : ∀ a b : List Nat, dot a b = dot b a
  | [], b => by rw [dot_nil_left, dot_nil_right]
  | a :: as, [] => by rw [dot_nil_left, dot_nil_right]
  | a :: as, b :: bs => by simp [dot_comm as bs, Nat.mul_comm]

theorem dotU8_eq_mod : ∀ a b : List Nat, dotU8 a b = dot a b % 256
  | [], b => by simp [dotU8, dot]
  | a :: as, [] => by simp [dotU8, dot]
  | a :: as, b :: bs => by
    simp only [dotU8, dot, dotU8_eq_mod as bs]
    have h1 : (a % 256) * (b % 256) % 256 = a * b % 256 := by
      rw [Nat.mul_mod a b 256]
    rw [h1]; omega

theorem dotU8_mod_two (a b : List Nat) : dotU8 a b % 2 = dot a b % 2 := by
  rw [dotU8_eq_mod]; omega

/-- the wrap lemma: reducing modulo 256 first does not change the parity -/
theorem wrap_parity (s t : Nat) : ((s % 256 + t % 256) % 256) % 2 = (s + t) % 2 := by omega

/-! ### vadd / vxor -/

@[simp] theorem vadd_cons (a b : Nat) (as bs : List Nat) :
    vadd (a :: as) (b :: bs) = (a + b) :: vadd as bs := by simp [vadd]
@[simp] theorem vadd_nil_left (b : List Nat) : vadd [] b = [] := by simp [vadd]
@[simp] theorem vadd_nil_right (a : List Nat) : vadd a [] = [] := by cases a <;> simp [vadd]

theorem vadd_length : ∀ a b : List Nat, a.length = b.length → (vadd a b).length = a.length
  | [], _, _ => by simp
  | a :: as, [], h => by simp at h
  | a :: as, b :: bs, h => by
    simp at h; simp [vadd_length as bs h]

theorem vadd_take : ∀ (k : Nat) (a b : List Nat), (vadd a b).take k = vadd (a.take k) (b.take k)
  | 0, a, b => by simp
  | k + 1, [], b => by simp
  | k + 1, a :: as, [] => by simp
  | k + 1, a :: as, b :: bs => by simp [vadd_take k as bs]

theorem vadd_drop : ∀ (k : Nat) (a b : List Nat), a.length = b.length →
    (vadd a b).drop k = vadd (a.drop k) (b.drop k)
  | 0, a, b, _ => by simp
  | k + 1, [], b, h => by simp
  | k + 1, a :: as, [], h => by simp at h
  | k + 1, a :: as, b :: bs, h => by
    simp at h; simp [vadd_drop k as bs h]

theorem dot_vadd_left : ∀ a b c : List Nat, a.length = b.length →
    dot (vadd a b) c = dot a c + dot b c
  | [], b, c, h => by
    have : b = [] := by cases b with | nil => rfl | cons _ _ => simp at h
    subst this; simp [dot]
  | a :: as, [], c, h => by simp at h
  | a :: as, b :: bs, [], _ => by simp [dot_nil_right]
  | a :: as, b :: bs, c :: cs, h => by
    simp at h
    simp [dot_vadd_left as bs cs h, Nat.add_mul]; omega

theorem dot_map_mod_left : ∀ a c : List Nat, dot (a.map (· % 2)) c % 2 = dot a c % 2
  | [], c => by simp [dot]
  | a :: as, [] => by simp [dot_nil_right]
  | a :: as, c :: cs => by
    simp only [List.map, dot_cons]
    have ih := dot_map_mod_left as cs
    have h : (a % 2) * c % 2 = a * c % 2 := by rw [Nat.mul_mod, Nat.mod_mod, ← Nat.mul_mod]
    omega

theorem dot_map_mod_right (a c : List Nat) : dot a (c.map (· % 2)) % 2 = dot a c % 2 := by
  rw [dot_comm, dot_map_mod_left, dot_comm]

/-! ### x / z parts -/

theorem xPart_vadd (a b : List Nat) (h : a.length = b.length) :
    xPart (vadd a b) = vadd (xPart a) (xPart b) := by
  simp only [xPart, vadd_length a b h, vadd_take, ← h]

theorem zPart_vadd (a b : List Nat) (h : a.length = b.length) :
    zPart (vadd a b) = vadd (zPart a) (zPart b) := by
  simp only [zPart, vadd_length a b h, vadd_drop _ a b h, ← h]

theorem xPart_map (f : Nat → Nat) (a : List Nat) : xPart (a.map f) = (xPart a).map f := by
  simp [xPart, List.map_take]

theorem zPart_map (f : Nat → Nat) (a : List Nat) : zPart (a.map f) = (zPart a).map f := by
  simp [zPart, List.map_drop]

theorem xPart_length (a : List Nat) : (xPart a).length = a.length / 2 := by
  simp [xPart]; omega

theorem zPart_length (a : List Nat) : (zPart a).length = a.length - a.length / 2 := by
  simp [zPart]

/-! ### symplectic form -/

theorem symp_comm (a b : List Nat) : symp a b = symp b a := by
  unfold symp
  rw [dot_comm (xPart a) (zPart b), dot_comm (zPart a) (xPart b)]
  omega

theorem symp_self (a : List Nat) : symp a a = 0 := by
  unfold symp
  rw [dot_comm (zPart a) (xPart a)]
  omega

theorem symp_lt_two (a b : List Nat) : symp a b < 2 := by
  unfold symp; omega

theorem symp_vadd_left (a b c : List Nat) (h : a.length = b.length) :
    symp (vadd a b) c = (symp a c + symp b c) % 2 := by
  unfold symp
  rw [xPart_vadd a b h, zPart_vadd a b h]
  have hx : (xPart a).length = (xPart b).length := by simp [xPart_length, h]
  have hz : (zPart a).length = (zPart b).length := by simp [zPart_length, h]
  rw [dot_vadd_left _ _ _ hx, dot_vadd_left _ _ _ hz]
  omega

theorem symp_map_mod_left (a c : List Nat) : symp (a.map (· % 2)) c = symp a c := by
  unfold symp
  rw [xPart_map, zPart_map]
  have h1 := dot_map_mod_left (xPart a) (zPart c)
  have h2 := dot_map_mod_left (zPart a) (xPart c)
  omega

theorem symp_vxor_left (a b c : List Nat) (h : a.length = b.length) :
    symp (vxor a b) c = (symp a c + symp b c) % 2 := by
  unfold vxor
  rw [symp_map_mod_left, symp_vadd_left a b c h]

theorem symp_vxor_right (a b c : List Nat) (h : b.length = c.length) :
    symp a (vxor b c) = (symp a b + symp a c) % 2 := by
  rw [symp_comm, symp_vxor_left b c a h, symp_comm b a, symp_comm c a]

/-- every computational path of `bs_prod` computes the symplectic form -/
theorem bsProdDense_eq_symp (dt : DType) (a b : List Nat) : bsProdDense dt a b = symp a b := by
  cases dt
  · simp only [bsProdDense, symp, dotU8_eq_mod]; omega
  · simp only [bsProdDense, symp]

theorem bsProdSparse_eq_symp (a b : List Nat) : bsProdSparse a b = symp a b := by
  simp only [bsProdSparse, symp, dotU8_eq_mod]; omega

/-! ### converters -/

theorem Pauli.ofBits_bits (p : Pauli) : Pauli.ofBits p.xBit p.zBit = p := by
  cases p <;> simp [Pauli.ofBits, Pauli.xBit, Pauli.zBit]

theorem pauliToBsf_length (ps : List Pauli) : (pauliToBsf ps).length = 2 * ps.length := by
  simp [pauliToBsf]; omega

theorem xPart_pauliToBsf (ps : List Pauli) : xPart (pauliToBsf ps) = ps.map Pauli.xBit := by
  have h : (pauliToBsf ps).length / 2 = (ps.map Pauli.xBit).length := by
    rw [pauliToBsf_length]; simp
  unfold xPart; rw [h]; simp [pauliToBsf]

theorem zPart_pauliToBsf (ps : List Pauli) : zPart (pauliToBsf ps) = ps.map Pauli.zBit := by
  have h : (pauliToBsf ps).length / 2 = (ps.map Pauli.xBit).length := by
    rw [pauliToBsf_length]; simp
  unfold zPart; rw [h]; simp [pauliToBsf]

theorem zipWith_ofBits_bits : ∀ ps : List Pauli,
    List.zipWith Pauli.ofBits (ps.map Pauli.xBit) (ps.map Pauli.zBit) = ps
  | [] => rfl
  | p :: ps => by simp [Pauli.ofBits_bits, zipWith_ofBits_bits ps]

theorem bsfToPauli_pauliToBsf (ps : List Pauli) : bsfToPauli (pauliToBsf ps) = ps := by
  unfold bsfToPauli
  rw [xPart_pauliToBsf, zPart_pauliToBsf, zipWith_ofBits_bits]

theorem Pauli.bits_ofBits (x z : Nat) (hx : x < 2) (hz : z < 2) :
    (Pauli.ofBits x z).xBit = x ∧ (Pauli.ofBits x z).zBit = z := by
  have : x = 0 ∨ x = 1 := by omega
  have : z = 0 ∨ z = 1 := by omega
  rcases ‹x = 0 ∨ x = 1› with rfl | rfl <;> rcases ‹z = 0 ∨ z = 1› with rfl | rfl <;>
    simp [Pauli.ofBits, Pauli.xBit, Pauli.zBit]

theorem map_bits_zipWith : ∀ xs zs : List Nat, xs.length = zs.length →
    (∀ x ∈ xs, x < 2) → (∀ z ∈ zs, z < 2) →
    (List.zipWith Pauli.ofBits xs zs).map Pauli.xBit = xs ∧
    (List.zipWith Pauli.ofBits xs zs).map Pauli.zBit = zs
  | [], [], _, _, _ => by simp
  | [], _ :: _, h, _, _ => by simp at h
  | _ :: _, [], h, _, _ => by simp at h
  | x :: xs, z :: zs, h, hx, hz => by
    simp at h
    have hx0 : x < 2 := hx x (by simp)
    have hz0 : z < 2 := hz z (by simp)
    have ih := map_bits_zipWith xs zs h (fun a ha => hx a (by simp [ha])) (fun a ha => hz a (by simp [ha]))
    have hb := Pauli.bits_ofBits x z hx0 hz0
    simp [hb.1, hb.2, ih.1, ih.2]

theorem pauliToBsf_bsfToPauli (v : List Nat) (heven : v.length % 2 = 0)
    (hbin : ∀ x ∈ v, x < 2) : pauliToBsf (bsfToPauli v) = v := by
  unfold pauliToBsf bsfToPauli
  have hlen : (xPart v).length = (zPart v).length := by
    rw [xPart_length, zPart_length]; omega
  have hx : ∀ x ∈ xPart v, x < 2 := fun x hx => hbin x (List.mem_of_mem_take hx)
  have hz : ∀ z ∈ zPart v, z < 2 := fun z hz => hbin z (List.mem_of_mem_drop hz)
  have h := map_bits_zipWith (xPart v) (zPart v) hlen hx hz
  rw [h.1, h.2]
  simp [xPart, zPart]

theorem countP_zipWith_bits : ∀ ps : List Pauli,
    (List.zipWith (fun x z => x + z) (ps.map Pauli.xBit) (ps.map Pauli.zBit)).countP (· ≠ 0)
      = ps.countP (· ≠ Pauli.I)
  | [] => rfl
  | p :: ps => by
    have ih := countP_zipWith_bits ps
    simp only [List.map_cons, List.zipWith_cons_cons, List.countP_cons, ih]
    cases p <;> simp [Pauli.xBit, Pauli.zBit]

/-- `bsf_wt` counts the non-identity letters -/
theorem bsfWt_pauliToBsf (ps : List Pauli) : bsfWt (pauliToBsf ps) = ps.countP (· ≠ Pauli.I) := by
  unfold bsfWt
  rw [xPart_pauliToBsf, zPart_pauliToBsf, countP_zipWith_bits]

/-! ### integer packing -/

theorem foldl_bits_append (acc : Nat) (l : List Nat) (b : Nat) :
    (l ++ [b]).foldl (fun acc b => 2 * acc + b) acc = 2 * l.foldl (fun acc b => 2 * acc + b) acc + b := by
  simp [List.foldl_append]

theorem bvectorToInt_append (l : List Nat) (b : Nat) :
    bvectorToInt (l ++ [b]) = 2 * bvectorToInt l + b := by
  unfold bvectorToInt; exact foldl_bits_append 0 l b

theorem natToBitsBE_length : ∀ w k, (natToBitsBE w k).length = w
  | 0, _ => rfl
  | w + 1, k => by simp [natToBitsBE, natToBitsBE_length w]

theorem natToBitsBE_binary : ∀ w k, ∀ x ∈ natToBitsBE w k, x < 2
  | 0, _, x, h => by simp [natToBitsBE] at h
  | w + 1, k, x, h => by
    simp [natToBitsBE] at h
    rcases h with h | h
    · exact natToBitsBE_binary w _ x h
    · omega

/-- packing `w` digits of `k` loses nothing when `k < 2^w` -/
theorem bvectorToInt_natToBitsBE : ∀ w k, k < 2 ^ w → bvectorToInt (natToBitsBE w k) = k
  | 0, k, h => by
    have : k = 0 := by simpa using h
    subst this; rfl
  | w + 1, k, h => by
    rw [natToBitsBE, bvectorToInt_append, bvectorToInt_natToBitsBE w (k / 2)]
    · omega
    · rw [Nat.pow_succ] at h; omega

theorem list_rev_induction {α} {P : List α → Prop} (hnil : P [])
    (hsnoc : ∀ l a, P l → P (l ++ [a])) : ∀ l, P l := by
  intro l
  have h : ∀ r : List α, P r.reverse := by
    intro r
    induction r with
    | nil => exact hnil
    | cons a r ih => rw [List.reverse_cons]; exact hsnoc _ _ ih
  simpa using h l.reverse

theorem bvectorToInt_lt : ∀ l : List Nat, (∀ x ∈ l, x < 2) → bvectorToInt l < 2 ^ l.length := by
  intro l
  induction l using list_rev_induction with
  | hnil => intro _; simp [bvectorToInt]
  | hsnoc l b ih =>
    intro h
    rw [bvectorToInt_append]
    have hb : b < 2 := h b (by simp)
    have := ih (fun x hx => h x (by simp [hx]))
    simp [Nat.pow_succ]; omega

/-- unpacking a packed binary vector of width `w` gives it back -/
theorem natToBitsBE_bvectorToInt : ∀ l : List Nat, (∀ x ∈ l, x < 2) →
    natToBitsBE l.length (bvectorToInt l) = l := by
  intro l
  induction l using list_rev_induction with
  | hnil => intro _; rfl
  | hsnoc l b ih =>
    intro h
    have hb : b < 2 := h b (by simp)
    have hl := ih (fun x hx => h x (by simp [hx]))
    rw [bvectorToInt_append]
    simp only [List.length_append, List.length_singleton, natToBitsBE]
    have h1 : (2 * bvectorToInt l + b) / 2 = bvectorToInt l := by omega
    have h2 : (2 * bvectorToInt l + b) % 2 = b := by omega
    rw [h1, h2, hl]

theorem log2_lt_of_lt_pow (k w : Nat) (h : k < 2 ^ w) (hk : k ≠ 0) : Nat.log2 k < w := by
  exact (Nat.log2_lt hk).mpr h

end Panqec
