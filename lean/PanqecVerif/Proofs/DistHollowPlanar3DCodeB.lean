/-
HollowPlanar3DCode, all sizes, C17 (2/3): the packing bound.

`X̄` (X on the x edges of the line `y = z = 0`, weight `Lx`) has one translate per x line that
misses the hole — as many as there are x edges in the cross-section `x = 3`:
`wZ = Ly·Lz − (Ly − 2)(Lz − 2)` when the hole is there (`Lx ≥ 3`), `Ly·Lz` otherwise.  `Z̄` (Z on the
existing x edges of the cross-section `x = 3` when `Lx ≥ 3`, of the plane `x = 1` otherwise, weight
`wZ`: `LatHollowPlanar3DCodeLogZ.lean`) has the `Lx` translates "existing x edges of the
cross-section `x = 2i + 1`".  Hence every non-trivial logical operator has weight `≥ min Lx wZ`,
which is what `code.d` reports since the repair of `get_logicals_z` (before it, `Z̄` was the full end
plane `x = 1` and `code.d = min Lx (Ly·Lz)`).
-/
import PanqecVerif.Proofs.LatHollowPlanar3DCodeLogZ

namespace Panqec.HollowPlanar3DCode
open Panqec.Cubic3D Panqec.Lat2D
open Panqec.Planar3DCode (inE inO inE2 inO1 isVertex isFaceXY isFaceYZ isFaceXZ isq isq_iff
  lxK lzK lineX planeX mem_lineX mem_planeX lineX_nodup planeX_nodup)

variable {Lx Ly Lz : Nat}

/-! ### the packing bound -/

/-- the x line through a location (its `y` and `z` coordinates) -/
def lineOf (Lx : Nat) : Coord → List Coord
  | [_, y, z] => (range2 1 (2 * (Lx : Int) + 1)).map fun x => [x, y, z]
  | _ => []

theorem lineOf_eq (x : Int) (j k : Nat) :
    lineOf Lx [x, 2 * (j : Int), 2 * (k : Int)] = lineX Lx j k := rfl

/-- a member of the cross-section `x = 3` names a line that misses the hole -/
theorem crossX_one_cases {q : Coord} (hq : q ∈ crossX Lx Ly Lz 1) :
    ∃ j k : Nat, j < Ly ∧ k < Lz ∧ q = [3, 2 * (j : Int), 2 * (k : Int)] ∧
      ¬ Hole Lx Ly Lz 3 (2 * (j : Int)) (2 * (k : Int)) := by
  obtain ⟨y, z, hy, hz, rfl, hn⟩ := mem_crossX.mp hq
  simp only [inE] at hy hz
  refine ⟨(y / 2).toNat, (z / 2).toNat, by omega, by omega, ?_, ?_⟩
  · have e1 : 2 * (((y / 2).toNat : Nat) : Int) = y := by omega
    have e2 : 2 * (((z / 2).toNat : Nat) : Int) = z := by omega
    rw [e1, e2]; rfl
  · have e1 : 2 * (((y / 2).toNat : Nat) : Int) = y := by omega
    have e2 : 2 * (((z / 2).toNat : Nat) : Int) = z := by omega
    rw [e1, e2]
    have : (2 * ((1 : Nat) : Int) + 1) = 3 := by norm_num
    rw [this] at hn; exact hn

/-- the translates of `X̄`: one per x line that misses the hole -/
def repsX (Lx Ly Lz : Nat) : List Op :=
  (crossX Lx Ly Lz 1).map fun q => uop (lineOf Lx q) Pauli.X

theorem repsX_ok :
    (repsX Lx Ly Lz).length = wZ Lx Ly Lz ∧
    (∀ r ∈ repsX Lx Ly Lz, KeysNodup r ∧ opSupported (qubits Lx Ly Lz) r = true) ∧
    (repsX Lx Ly Lz).Pairwise KeysDisjoint := by
  refine ⟨by rw [repsX, List.length_map, length_crossX_one], ?_, ?_⟩
  · intro r hr
    obtain ⟨q, hq, rfl⟩ := List.mem_map.mp hr
    obtain ⟨j, k, hj, hk, rfl, hn⟩ := crossX_one_cases hq
    rw [lineOf_eq]
    refine ⟨keysNodup_line Pauli.X (lineX_nodup Lx j k),
      opSupported_line Pauli.X (lineX_sub hj hk ?_)⟩
    intro x h; apply hn; unfold Hole at h ⊢; omega
  · unfold repsX
    rw [List.pairwise_map]
    refine List.Pairwise.imp_of_mem ?_ (crossX_nodup (Lx := Lx) (Ly := Ly) (Lz := Lz) 1)
    intro q q' hq hq' hne
    obtain ⟨j, k, _, _, rfl, _⟩ := crossX_one_cases hq
    obtain ⟨j', k', _, _, rfl, _⟩ := crossX_one_cases hq'
    rw [lineOf_eq, lineOf_eq]
    intro c h1 h2
    unfold uop at h1 h2
    rw [Lat2D.map_fst_const] at h1 h2
    obtain ⟨x, _, rfl⟩ := mem_lineX.mp h1
    obtain ⟨x', _, e⟩ := mem_lineX.mp h2
    simp only [List.cons.injEq, and_true] at e
    apply hne
    rw [e.2.1, e.2.2]

theorem repsZ_ok (P : Pauli) : RepsOK (qubits Lx Ly Lz) (crossX Lx Ly Lz) Lx P :=
  uopReps _ _ _ P (crossX_nodup) (fun i hi => crossX_sub hi)
    (fun i i' h q hq hq' => by
      obtain ⟨y, z, _, _, rfl, _⟩ := mem_crossX.mp hq
      obtain ⟨y', z', _, _, e, _⟩ := mem_crossX.mp hq'
      simp only [List.cons.injEq, and_true] at e; omega)

/-- every non-trivial logical operator of the `Lx × Ly × Lz` hollow planar code has weight
    `≥ min Lx wZ` -/
theorem lower_bound (hwf : (lattice Lx Ly Lz).WF)
    {n : Nat} (hn : (qubits Lx Ly Lz).length = n)
    (hv : ValidCodeL n 1 (lattice Lx Ly Lz).rowsH (lattice Lx Ly Lz).rowsX
      (lattice Lx Ly Lz).rowsZ) :
    ∀ v, IsNontrivialLogical n (lattice Lx Ly Lz).rowsH v →
      min Lx (wZ Lx Ly Lz) ≤ pauliWeight v := by
  apply Lattice.packing_bound (lattice Lx Ly Lz) hwf (by rw [lattice_qubits]; exact hn) hv
  intro a ha
  rw [lattice_logX, lattice_logZ, logX_eq, logZ_eq] at ha
  rw [lattice_qubits]
  simp only [List.cons_append, List.nil_append, List.mem_cons, List.not_mem_nil, or_false] at ha
  rcases ha with rfl | rfl
  · obtain ⟨h1, h2, h3⟩ := repsX_ok (Lx := Lx) (Ly := Ly) (Lz := Lz)
    refine ⟨_, by rw [h1]; exact Nat.min_le_right _ _, h2, h3, ?_⟩
    intro b _ _ hb r hr
    obtain ⟨q, hq, rfl⟩ := List.mem_map.mp hr
    obtain ⟨j, k, hj, hk, rfl, hfree⟩ := crossX_one_cases hq
    rw [lineOf_eq, Planar3DCode.lxK_eq, opAntiCount_uop_hit, opAntiCount_uop_hit]
    exact parity_X hb hj hk hfree
  · obtain ⟨h1, h2, h3⟩ := repsZ_ok (Lx := Lx) (Ly := Ly) (Lz := Lz) Pauli.Z
    refine ⟨_, by rw [h1]; exact Nat.min_le_left _ _, h2, h3, ?_⟩
    intro b _ _ hb r hr
    obtain ⟨i, hi, rfl⟩ := List.mem_map.mp hr
    have hi' : i < Lx := List.mem_range.mp hi
    rw [opAntiCount_uop_hit, opAntiCount_uop_hit, parity_Z hb i hi',
      parity_Z hb (zIdx Lx) (zIdx_lt (by omega))]

end Panqec.HollowPlanar3DCode
