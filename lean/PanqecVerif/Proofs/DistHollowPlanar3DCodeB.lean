/-
HollowPlanar3DCode, all sizes, C17 (2/2): the packing bound, the light membrane, weights of the
listed logicals.

`X̄` (X on the x edges of the line `y = z = 0`, weight `Lx`) has one translate per x line that
misses the hole — as many as there are x edges in the cross-section `x = 3`:
`wZ = Ly·Lz − (Ly − 2)(Lz − 2)` when the hole is there (`Lx ≥ 3`), `Ly·Lz` otherwise.  `Z̄` (Z on the
plane `x = 1`, weight `Ly·Lz`) has the `Lx` translates "existing x edges of the cross-section
`x = 2i + 1`".  Hence every non-trivial logical operator has weight `≥ min Lx wZ`, and for
`Lx ≥ 3` the cross-section `x = 3` IS a non-trivial logical operator of weight `wZ` (it commutes
with every generator and anticommutes with `X̄` because it has the same parities as `Z̄`).  So the
true distance is `min Lx wZ`, while `code.d` reports `min Lx (Ly·Lz)`.
-/
import PanqecVerif.Proofs.DistHollowPlanar3DCodeA

namespace Panqec.HollowPlanar3DCode
open Panqec.Cubic3D Panqec.Lat2D
open Panqec.Planar3DCode (inE inO inE2 inO1 isVertex isFaceXY isFaceYZ isFaceXZ isq isq_iff
  lxK lzK lineX planeX mem_lineX mem_planeX lineX_nodup planeX_nodup)

/-- the number of x edges in a cross-section through the hole (`x = 3`): the weight of the
    lightest Z membrane -/
def wZ (Lx Ly Lz : Nat) : Nat := Ly * Lz - (if 3 ≤ Lx then (Ly - 2) * (Lz - 2) else 0)

variable {Lx Ly Lz : Nat}

/-! ### cross-sections -/

theorem mem_crossX {i : Nat} {q : Coord} :
    q ∈ crossX Lx Ly Lz i ↔ ∃ y z, inE Ly y ∧ inE Lz z ∧ q = [2 * (i : Int) + 1, y, z] ∧
      ¬ Hole Lx Ly Lz (2 * (i : Int) + 1) y z := by
  unfold crossX
  rw [List.mem_filter, mem_planeX]
  constructor
  · rintro ⟨⟨y, z, hy, hz, rfl⟩, hn⟩
    exact ⟨y, z, hy, hz, rfl, notHoleC3.mp hn⟩
  · rintro ⟨y, z, hy, hz, rfl, hn⟩
    exact ⟨⟨y, z, hy, hz, rfl⟩, notHoleC3.mpr hn⟩

theorem crossX_nodup (i : Nat) : (crossX Lx Ly Lz i).Nodup := (planeX_nodup Ly Lz i).filter _

theorem crossX_sub {i : Nat} (hi : i < Lx) : ∀ q ∈ crossX Lx Ly Lz i, q ∈ qubits Lx Ly Lz := by
  intro q hq
  obtain ⟨y, z, hy, hz, rfl, hn⟩ := mem_crossX.mp hq
  rw [mem_qubits, Planar3DCode.mem_qubits]
  refine ⟨?_, hn⟩
  simp only [inO1, inE, inE2, inO] at hy hz ⊢
  omega

theorem crossX_zero : crossX Lx Ly Lz 0 = lzK Ly Lz := by
  unfold crossX
  rw [Planar3DCode.lzK_eq, List.filter_eq_self]
  intro q hq
  obtain ⟨y, z, _, _, rfl⟩ := mem_planeX.mp hq
  rw [notHoleC3]
  intro h; unfold Hole at h; omega

/-- the cross-section `x = 3` has `wZ` x edges -/
theorem length_crossX_one : (crossX Lx Ly Lz 1).length = wZ Lx Ly Lz := by
  have e : crossX Lx Ly Lz 1 =
      gridH Lx Ly Lz [3] (range2 0 (2 * (Ly : Int))) (range2 0 (2 * (Lz : Int))) := by
    rw [gridH_eq]
    unfold crossX planeX Cubic3D.grid grid2
    simp
  have h := length_gridH Lx Ly Lz [3] (range2 0 (2 * (Ly : Int))) (range2 0 (2 * (Lz : Int)))
  rw [len_holeYZ_E, len_holeYZ_E, Planar3DCode.length_rangeE, Planar3DCode.length_rangeE] at h
  rw [e]
  unfold wZ
  by_cases h3 : 3 ≤ Lx
  · have hh : holeX Lx 3 = true := by
      simp only [holeX, Bool.and_eq_true, decide_eq_true_eq]; omega
    have hx : ([3] : List Int).filter (holeX Lx) = [3] := by simp [hh]
    rw [hx] at h
    simp only [List.length_cons, List.length_nil, Nat.zero_add, Nat.one_mul] at h
    rw [if_pos h3]
    omega
  · have hh : holeX Lx 3 = false := by
      rw [Bool.eq_false_iff]
      simp only [holeX, ne_eq, Bool.and_eq_true, decide_eq_true_eq]; omega
    have hx : ([3] : List Int).filter (holeX Lx) = [] := by simp [hh]
    rw [hx] at h
    simp only [List.length_cons, List.length_nil, Nat.zero_add, Nat.one_mul, Nat.zero_mul,
      Nat.add_zero] at h
    rw [if_neg h3]
    omega

/-! ### the packing bound -/

/-- the x line through a location (its `y` and `z` coordinates) -/
def lineOf (Lx : Nat) : Coord → List Coord
  | [_, y, z] => (range2 1 (2 * (Lx : Int) + 1)).map fun x => [x, y, z]
  | _ => []

theorem lineOf_eq (x : Int) (j k : Nat) :
    lineOf Lx [x, 2 * (j : Int), 2 * (k : Int)] = lineX Lx j k := rfl

/-- a member of the cross-section `x = 3` names a line that misses the hole -/
theorem crossX_one_cases {q : Coord} (hq : q ∈ crossX Lx Ly Lz 1) :
    ∃ j k : Nat, j < Ly ∧ k < Lz ∧ q = [3, 2 * (j : Int), 2 * (k : Int)] ∧
      ¬ Hole Lx Ly Lz 3 (2 * (j : Int)) (2 * (k : Int)) := by
  obtain ⟨y, z, hy, hz, rfl, hn⟩ := mem_crossX.mp hq
  simp only [inE] at hy hz
  refine ⟨(y / 2).toNat, (z / 2).toNat, by omega, by omega, ?_, ?_⟩
  · have e1 : 2 * (((y / 2).toNat : Nat) : Int) = y := by omega
    have e2 : 2 * (((z / 2).toNat : Nat) : Int) = z := by omega
    rw [e1, e2]; rfl
  · have e1 : 2 * (((y / 2).toNat : Nat) : Int) = y := by omega
    have e2 : 2 * (((z / 2).toNat : Nat) : Int) = z := by omega
    rw [e1, e2]
    have : (2 * ((1 : Nat) : Int) + 1) = 3 := by norm_num
    rw [this] at hn; exact hn

/-- the translates of `X̄`: one per x line that misses the hole -/
def repsX (Lx Ly Lz : Nat) : List Op :=
  (crossX Lx Ly Lz 1).map fun q => uop (lineOf Lx q) Pauli.X

theorem repsX_ok :
    (repsX Lx Ly Lz).length = wZ Lx Ly Lz ∧
    (∀ r ∈ repsX Lx Ly Lz, KeysNodup r ∧ opSupported (qubits Lx Ly Lz) r = true) ∧
    (repsX Lx Ly Lz).Pairwise KeysDisjoint := by
  refine ⟨by rw [repsX, List.length_map, length_crossX_one], ?_, ?_⟩
  · intro r hr
    obtain ⟨q, hq, rfl⟩ := List.mem_map.mp hr
    obtain ⟨j, k, hj, hk, rfl, hn⟩ := crossX_one_cases hq
    rw [lineOf_eq]
    refine ⟨keysNodup_line Pauli.X (lineX_nodup Lx j k),
      opSupported_line Pauli.X (lineX_sub hj hk ?_)⟩
    intro x h; apply hn; unfold Hole at h ⊢; omega
  · unfold repsX
    rw [List.pairwise_map]
    refine List.Pairwise.imp_of_mem ?_ (crossX_nodup (Lx := Lx) (Ly := Ly) (Lz := Lz) 1)
    intro q q' hq hq' hne
    obtain ⟨j, k, _, _, rfl, _⟩ := crossX_one_cases hq
    obtain ⟨j', k', _, _, rfl, _⟩ := crossX_one_cases hq'
    rw [lineOf_eq, lineOf_eq]
    intro c h1 h2
    unfold uop at h1 h2
    rw [Lat2D.map_fst_const] at h1 h2
    obtain ⟨x, _, rfl⟩ := mem_lineX.mp h1
    obtain ⟨x', _, e⟩ := mem_lineX.mp h2
    simp only [List.cons.injEq, and_true] at e
    apply hne
    rw [e.2.1, e.2.2]

theorem repsZ_ok (P : Pauli) : RepsOK (qubits Lx Ly Lz) (crossX Lx Ly Lz) Lx P :=
  uopReps _ _ _ P (crossX_nodup) (fun i hi => crossX_sub hi)
    (fun i i' h q hq hq' => by
      obtain ⟨y, z, _, _, rfl, _⟩ := mem_crossX.mp hq
      obtain ⟨y', z', _, _, e, _⟩ := mem_crossX.mp hq'
      simp only [List.cons.injEq, and_true] at e; omega)

/-- every non-trivial logical operator of the `Lx × Ly × Lz` hollow planar code has weight
    `≥ min Lx wZ` -/
theorem lower_bound (hwf : (lattice Lx Ly Lz).WF)
    {n : Nat} (hn : (qubits Lx Ly Lz).length = n)
    (hv : ValidCodeL n 1 (lattice Lx Ly Lz).rowsH (lattice Lx Ly Lz).rowsX
      (lattice Lx Ly Lz).rowsZ) :
    ∀ v, IsNontrivialLogical n (lattice Lx Ly Lz).rowsH v →
      min Lx (wZ Lx Ly Lz) ≤ pauliWeight v := by
  apply Lattice.packing_bound (lattice Lx Ly Lz) hwf (by rw [lattice_qubits]; exact hn) hv
  intro a ha
  rw [lattice_logX, lattice_logZ, logX_eq, logZ_eq] at ha
  rw [lattice_qubits]
  simp only [List.cons_append, List.nil_append, List.mem_cons, List.not_mem_nil, or_false] at ha
  rcases ha with rfl | rfl
  · obtain ⟨h1, h2, h3⟩ := repsX_ok (Lx := Lx) (Ly := Ly) (Lz := Lz)
    refine ⟨_, by rw [h1]; exact Nat.min_le_right _ _, h2, h3, ?_⟩
    intro b _ _ hb r hr
    obtain ⟨q, hq, rfl⟩ := List.mem_map.mp hr
    obtain ⟨j, k, hj, hk, rfl, hfree⟩ := crossX_one_cases hq
    rw [lineOf_eq, Planar3DCode.lxK_eq, opAntiCount_uop_hit, opAntiCount_uop_hit]
    exact parity_X hb hj hk hfree
  · obtain ⟨h1, h2, h3⟩ := repsZ_ok (Lx := Lx) (Ly := Ly) (Lz := Lz) Pauli.Z
    refine ⟨_, by rw [h1]; exact Nat.min_le_left _ _, h2, h3, ?_⟩
    intro b _ _ hb r hr
    obtain ⟨i, hi, rfl⟩ := List.mem_map.mp hr
    rw [← crossX_zero (Lx := Lx), opAntiCount_uop_hit, opAntiCount_uop_hit]
    exact parity_Z hb i (List.mem_range.mp hi)

end Panqec.HollowPlanar3DCode
