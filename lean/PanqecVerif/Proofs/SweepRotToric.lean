/-
Geometry of C10 on RotatedToric3DCode with the repaired `RotatedSweepDecoder3D`, for EVERY size
`L_x, L_y ≥ 2` (any `L_z`; both parities of `L_x`, `L_y` — the family the class supports is
"not both odd", the statement does not need it): on every edge `flip_edge` (branch on `z % 2`,
`x % 4`, `y % 4`, neighbour list, `_wrap` across the periodic seams, `is_stabilizer(·, 'face')`
filter) toggles exactly the generators of type `'face'` that anticommute with Z on that edge —
on the defect lines of an odd direction too, where a face generator carries Z on the edges across
the seam and the decoder's filter drops the wrapped location because it is a vertex.
For `L_x = 1` or `L_y = 1` the statement is false (two candidates of a face coincide;
`RotatedToric3DCode(1, 2, 2)`: 4 of 5 edges inconsistent).
-/
import PanqecVerif.Proofs.SweepRotToricFaces

namespace Panqec.Sweep

set_option linter.unusedSimpArgs false
set_option linter.unusedVariables false
set_option linter.unusedSectionVars false

section
variable (Lx Ly Lz : Nat) (hLx : 2 ≤ Lx) (hLy : 2 ≤ Ly)
include hLx hLy

/-! ### the face list of `flip_edge` after `_wrap` -/

theorem rotToric_flipFaces_xedge (x y z : Int)
    (hq : 1 ≤ x ∧ x < 2 * (Lx : Int) ∧ x % 2 = 1 ∧ 1 ≤ y ∧ y < 2 * (Ly : Int) ∧ y % 2 = 1 ∧
      1 ≤ z ∧ z < 2 * (Lz : Int) ∧ z % 2 = 1) (h4 : (x + y) % 4 = 2) :
    flipFacesRot (rotToric3D Lx Ly Lz) (x, y, z) =
      some (([(up Lx x, up Ly y, z), (dn Lx x, dn Ly y, z), (x, y, z + 1), (x, y, z - 1)] :
        List Loc).filter (rotToric3D Lx Ly Lz).isStabFace) := by
  unfold flipFacesRot
  rw [rotRaw_xedge x y z (by omega) (by omega) (by omega) h4]
  simp only [Option.map_some, List.map_cons, List.map_nil, wrapRot_rotToric,
    wrapC_succ Lx (by omega) x (by omega) (by omega), wrapC_pred Lx (by omega) x (by omega) (by omega),
    wrapC_succ Ly (by omega) y (by omega) (by omega), wrapC_pred Ly (by omega) y (by omega) (by omega),
    wrapC_id Lx x (by omega) (by omega), wrapC_id Ly y (by omega) (by omega)]

theorem rotToric_flipFaces_yedge (x y z : Int)
    (hq : 1 ≤ x ∧ x < 2 * (Lx : Int) ∧ x % 2 = 1 ∧ 1 ≤ y ∧ y < 2 * (Ly : Int) ∧ y % 2 = 1 ∧
      1 ≤ z ∧ z < 2 * (Lz : Int) ∧ z % 2 = 1) (h4 : (x + y) % 4 = 0) :
    flipFacesRot (rotToric3D Lx Ly Lz) (x, y, z) =
      some (([(up Lx x, dn Ly y, z), (dn Lx x, up Ly y, z), (x, y, z + 1), (x, y, z - 1)] :
        List Loc).filter (rotToric3D Lx Ly Lz).isStabFace) := by
  unfold flipFacesRot
  rw [rotRaw_yedge x y z (by omega) (by omega) (by omega) h4]
  simp only [Option.map_some, List.map_cons, List.map_nil, wrapRot_rotToric,
    wrapC_succ Lx (by omega) x (by omega) (by omega), wrapC_pred Lx (by omega) x (by omega) (by omega),
    wrapC_succ Ly (by omega) y (by omega) (by omega), wrapC_pred Ly (by omega) y (by omega) (by omega),
    wrapC_id Lx x (by omega) (by omega), wrapC_id Ly y (by omega) (by omega)]

theorem rotToric_flipFaces_zedge (x y z : Int)
    (hq : 2 ≤ x ∧ x ≤ 2 * (Lx : Int) ∧ x % 2 = 0 ∧ 2 ≤ y ∧ y ≤ 2 * (Ly : Int) ∧ y % 2 = 0 ∧
      2 ≤ z ∧ z < 2 * (Lz : Int) ∧ z % 2 = 0 ∧ (x + y) % 4 = 2) :
    flipFacesRot (rotToric3D Lx Ly Lz) (x, y, z) =
      some (([(up Lx x, up Ly y, z), (dn Lx x, dn Ly y, z), (dn Lx x, up Ly y, z),
        (up Lx x, dn Ly y, z)] : List Loc).filter (rotToric3D Lx Ly Lz).isStabFace) := by
  unfold flipFacesRot
  rw [rotRaw_zedge x y z (by omega)]
  simp only [Option.map_some, List.map_cons, List.map_nil, wrapRot_rotToric,
    wrapC_succ Lx (by omega) x (by omega) (by omega), wrapC_pred Lx (by omega) x (by omega) (by omega),
    wrapC_succ Ly (by omega) y (by omega) (by omega), wrapC_pred Ly (by omega) y (by omega) (by omega)]

/-! ### one edge of each kind -/

/-- flipping a horizontal edge with `(x + y) % 4 = 2` (axis 'x') -/
theorem rotToric_flipOK_xedge (x y z : Int)
    (hq : 1 ≤ x ∧ x < 2 * (Lx : Int) ∧ x % 2 = 1 ∧ 1 ≤ y ∧ y < 2 * (Ly : Int) ∧ y % 2 = 1 ∧
      1 ≤ z ∧ z < 2 * (Lz : Int) ∧ z % 2 = 1) (h4 : (x + y) % 4 = 2) :
    flipOKRot (rotToric3D Lx Ly Lz) (flipFacesRot (rotToric3D Lx Ly Lz)) (x, y, z) = true := by
  have hqmem : (x, y, z) ∈ rotToricQubits Lx Ly Lz := by
    rw [mem_rotToricQubits]; left; omega
  apply flipOKRot_of_filterP _ _ _ _ _ (rotToric_flipFaces_xedge Lx Ly Lz hLx hLy x y z hq h4)
  · simp only [List.nodup_cons, List.mem_cons, List.not_mem_nil, or_false, Prod.mk.injEq,
      List.nodup_nil, and_true, not_or, true_and, not_false_eq_true, up, dn]
    omega
  · rintro ⟨a, b, c⟩ hs
    rw [show (rotToric3D Lx Ly Lz).stabs = rotToricStabs Lx Ly Lz from rfl] at hs
    rw [rotToric_isStabFace_of_mem Lx Ly Lz _ hs]
    rw [mem_rotToricStabs] at hs
    simp only [List.mem_cons, List.not_mem_nil, or_false, Prod.mk.injEq]
    rcases hs with hs | hs | hs
    · -- vertex
      rw [rotIsFace_vertex a b c (by omega) (by omega),
        faceHasRot_of_not_face _ _ _ (rotIsFace_vertex a b c (by omega) (by omega))]
      simp
    · -- horizontal face
      rw [rotIsFace_hface a b c (by omega),
        hface_xedge Lx Ly Lz hLx hLy a b c x y z (by omega) (by omega) (by omega) (by omega)
          (by omega) (by omega) hqmem h4]
      constructor
      · rintro ⟨⟨h1, h2, h3⟩ | ⟨h1, h2, h3⟩ | ⟨h1, h2, h3⟩ | ⟨h1, h2, h3⟩, _⟩
        · exact ⟨h3, Or.inl ⟨h1, h2⟩⟩
        · exact ⟨h3, Or.inr ⟨h1, h2⟩⟩
        · omega
        · omega
      · rintro ⟨h3, ⟨h1, h2⟩ | ⟨h1, h2⟩⟩
        · exact ⟨Or.inl ⟨h1, h2, h3⟩, rfl⟩
        · exact ⟨Or.inr (Or.inl ⟨h1, h2, h3⟩), rfl⟩
    · -- vertical face
      have hcase : (a + b) % 4 = 0 ∨ (a + b) % 4 = 2 := by omega
      rw [rotIsFace_vface a b c (by omega)]
      rcases hcase with h4' | h4'
      · rw [rotToric_has_vface0 Lx Ly Lz hLx hLy a b c x y z (by omega) (by omega) (by omega)
          (by omega) (by omega) h4' hqmem]
        constructor
        · rintro ⟨h | h | h | h, _⟩ <;> omega
        · rintro (h | h | h | h)
          · omega
          · omega
          · exact ⟨Or.inr (Or.inr (Or.inl (by omega))), rfl⟩
          · exact ⟨Or.inr (Or.inr (Or.inr (by omega))), rfl⟩
      · rw [rotToric_has_vface2 Lx Ly Lz hLx hLy a b c x y z (by omega) (by omega) (by omega)
          (by omega) (by omega) h4' hqmem]
        constructor
        · rintro ⟨h | h | h | h, _⟩ <;> omega
        · rintro (h | h | h | h)
          · omega
          · omega
          · exact ⟨Or.inr (Or.inr (Or.inl (by omega))), rfl⟩
          · exact ⟨Or.inr (Or.inr (Or.inr (by omega))), rfl⟩

/-- flipping a horizontal edge with `(x + y) % 4 = 0` (axis 'y') -/
theorem rotToric_flipOK_yedge (x y z : Int)
    (hq : 1 ≤ x ∧ x < 2 * (Lx : Int) ∧ x % 2 = 1 ∧ 1 ≤ y ∧ y < 2 * (Ly : Int) ∧ y % 2 = 1 ∧
      1 ≤ z ∧ z < 2 * (Lz : Int) ∧ z % 2 = 1) (h4 : (x + y) % 4 = 0) :
    flipOKRot (rotToric3D Lx Ly Lz) (flipFacesRot (rotToric3D Lx Ly Lz)) (x, y, z) = true := by
  have hqmem : (x, y, z) ∈ rotToricQubits Lx Ly Lz := by
    rw [mem_rotToricQubits]; left; omega
  apply flipOKRot_of_filterP _ _ _ _ _ (rotToric_flipFaces_yedge Lx Ly Lz hLx hLy x y z hq h4)
  · simp only [List.nodup_cons, List.mem_cons, List.not_mem_nil, or_false, Prod.mk.injEq,
      List.nodup_nil, and_true, not_or, true_and, not_false_eq_true, up, dn]
    omega
  · rintro ⟨a, b, c⟩ hs
    rw [show (rotToric3D Lx Ly Lz).stabs = rotToricStabs Lx Ly Lz from rfl] at hs
    rw [rotToric_isStabFace_of_mem Lx Ly Lz _ hs]
    rw [mem_rotToricStabs] at hs
    simp only [List.mem_cons, List.not_mem_nil, or_false, Prod.mk.injEq]
    rcases hs with hs | hs | hs
    · -- vertex
      rw [rotIsFace_vertex a b c (by omega) (by omega),
        faceHasRot_of_not_face _ _ _ (rotIsFace_vertex a b c (by omega) (by omega))]
      simp
    · -- horizontal face
      rw [rotIsFace_hface a b c (by omega),
        hface_yedge Lx Ly Lz hLx hLy a b c x y z (by omega) (by omega) (by omega) (by omega)
          (by omega) (by omega) hqmem h4]
      constructor
      · rintro ⟨⟨h1, h2, h3⟩ | ⟨h1, h2, h3⟩ | ⟨h1, h2, h3⟩ | ⟨h1, h2, h3⟩, _⟩
        · exact ⟨h3, Or.inl ⟨h1, h2⟩⟩
        · exact ⟨h3, Or.inr ⟨h1, h2⟩⟩
        · omega
        · omega
      · rintro ⟨h3, ⟨h1, h2⟩ | ⟨h1, h2⟩⟩
        · exact ⟨Or.inl ⟨h1, h2, h3⟩, rfl⟩
        · exact ⟨Or.inr (Or.inl ⟨h1, h2, h3⟩), rfl⟩
    · -- vertical face
      have hcase : (a + b) % 4 = 0 ∨ (a + b) % 4 = 2 := by omega
      rw [rotIsFace_vface a b c (by omega)]
      rcases hcase with h4' | h4'
      · rw [rotToric_has_vface0 Lx Ly Lz hLx hLy a b c x y z (by omega) (by omega) (by omega)
          (by omega) (by omega) h4' hqmem]
        constructor
        · rintro ⟨h | h | h | h, _⟩ <;> omega
        · rintro (h | h | h | h)
          · omega
          · omega
          · exact ⟨Or.inr (Or.inr (Or.inl (by omega))), rfl⟩
          · exact ⟨Or.inr (Or.inr (Or.inr (by omega))), rfl⟩
      · rw [rotToric_has_vface2 Lx Ly Lz hLx hLy a b c x y z (by omega) (by omega) (by omega)
          (by omega) (by omega) h4' hqmem]
        constructor
        · rintro ⟨h | h | h | h, _⟩ <;> omega
        · rintro (h | h | h | h)
          · omega
          · omega
          · exact ⟨Or.inr (Or.inr (Or.inl (by omega))), rfl⟩
          · exact ⟨Or.inr (Or.inr (Or.inr (by omega))), rfl⟩

/-- flipping a vertical edge (axis 'z') -/
theorem rotToric_flipOK_zedge (x y z : Int)
    (hq : 2 ≤ x ∧ x ≤ 2 * (Lx : Int) ∧ x % 2 = 0 ∧ 2 ≤ y ∧ y ≤ 2 * (Ly : Int) ∧ y % 2 = 0 ∧
      2 ≤ z ∧ z < 2 * (Lz : Int) ∧ z % 2 = 0 ∧ (x + y) % 4 = 2) :
    flipOKRot (rotToric3D Lx Ly Lz) (flipFacesRot (rotToric3D Lx Ly Lz)) (x, y, z) = true := by
  have hqmem : (x, y, z) ∈ rotToricQubits Lx Ly Lz := by
    rw [mem_rotToricQubits]; right; omega
  apply flipOKRot_of_filterP _ _ _ _ _ (rotToric_flipFaces_zedge Lx Ly Lz hLx hLy x y z hq)
  · simp only [List.nodup_cons, List.mem_cons, List.not_mem_nil, or_false, Prod.mk.injEq,
      List.nodup_nil, and_true, not_or, true_and, not_false_eq_true, up, dn]
    omega
  · rintro ⟨a, b, c⟩ hs
    rw [show (rotToric3D Lx Ly Lz).stabs = rotToricStabs Lx Ly Lz from rfl] at hs
    rw [rotToric_isStabFace_of_mem Lx Ly Lz _ hs]
    rw [mem_rotToricStabs] at hs
    simp only [List.mem_cons, List.not_mem_nil, or_false, Prod.mk.injEq]
    rcases hs with hs | hs | hs
    · -- vertex
      rw [rotIsFace_vertex a b c (by omega) (by omega),
        faceHasRot_of_not_face _ _ _ (rotIsFace_vertex a b c (by omega) (by omega))]
      simp
    · -- horizontal face: other layer
      rw [rotIsFace_hface a b c (by omega),
        rotToric_has_hface' Lx Ly Lz hLx hLy a b c x y z (by omega) (by omega) (by omega) (by omega)
          (by omega) (by omega) hqmem]
      constructor
      · rintro ⟨h | h | h | h, _⟩ <;> omega
      · rintro ⟨h, _⟩
        omega
    · -- vertical face
      have hcase : (a + b) % 4 = 0 ∨ (a + b) % 4 = 2 := by omega
      rw [rotIsFace_vface a b c (by omega)]
      rcases hcase with h4' | h4'
      · rw [vface0_zedge Lx Ly Lz hLx hLy a b c x y z (by omega) (by omega) (by omega) h4' hs.2.2.2.2.2.2.2.2.2
          (by omega) (by omega) hqmem (by omega)]
        constructor
        · rintro ⟨⟨h1, h2, h3⟩ | ⟨h1, h2, h3⟩ | ⟨h1, h2, h3⟩ | ⟨h1, h2, h3⟩, _⟩
          · exact ⟨h3, Or.inl ⟨h1, h2⟩⟩
          · exact ⟨h3, Or.inr (Or.inl ⟨h1, h2⟩)⟩
          · exact ⟨h3, Or.inr (Or.inr (Or.inl ⟨h1, h2⟩))⟩
          · exact ⟨h3, Or.inr (Or.inr (Or.inr ⟨h1, h2⟩))⟩
        · rintro ⟨h3, ⟨h1, h2⟩ | ⟨h1, h2⟩ | ⟨h1, h2⟩ | ⟨h1, h2⟩⟩
          · exact ⟨Or.inl ⟨h1, h2, h3⟩, rfl⟩
          · exact ⟨Or.inr (Or.inl ⟨h1, h2, h3⟩), rfl⟩
          · exact ⟨Or.inr (Or.inr (Or.inl ⟨h1, h2, h3⟩)), rfl⟩
          · exact ⟨Or.inr (Or.inr (Or.inr ⟨h1, h2, h3⟩)), rfl⟩
      · rw [vface2_zedge Lx Ly Lz hLx hLy a b c x y z (by omega) (by omega) (by omega) h4' hs.2.2.2.2.2.2.2.2.2
          (by omega) (by omega) hqmem (by omega)]
        constructor
        · rintro ⟨⟨h1, h2, h3⟩ | ⟨h1, h2, h3⟩ | ⟨h1, h2, h3⟩ | ⟨h1, h2, h3⟩, _⟩
          · exact ⟨h3, Or.inl ⟨h1, h2⟩⟩
          · exact ⟨h3, Or.inr (Or.inl ⟨h1, h2⟩)⟩
          · exact ⟨h3, Or.inr (Or.inr (Or.inl ⟨h1, h2⟩))⟩
          · exact ⟨h3, Or.inr (Or.inr (Or.inr ⟨h1, h2⟩))⟩
        · rintro ⟨h3, ⟨h1, h2⟩ | ⟨h1, h2⟩ | ⟨h1, h2⟩ | ⟨h1, h2⟩⟩
          · exact ⟨Or.inl ⟨h1, h2, h3⟩, rfl⟩
          · exact ⟨Or.inr (Or.inl ⟨h1, h2, h3⟩), rfl⟩
          · exact ⟨Or.inr (Or.inr (Or.inl ⟨h1, h2, h3⟩)), rfl⟩
          · exact ⟨Or.inr (Or.inr (Or.inr ⟨h1, h2, h3⟩)), rfl⟩

/-- GEOMETRY, all sizes `L_x, L_y ≥ 2`: on every edge of `RotatedToric3DCode(L_x, L_y, L_z)`,
    the repaired `RotatedSweepDecoder3D.flip_edge` toggles exactly the generators of type
    `'face'` that anticommute with Z on that edge. -/
theorem rotToric_flipTableOK :
    flipTableOKRot (rotToric3D Lx Ly Lz) (flipFacesRot (rotToric3D Lx Ly Lz)) = true := by
  unfold flipTableOKRot
  rw [List.all_eq_true]
  rintro ⟨x, y, z⟩ hq
  rw [show (rotToric3D Lx Ly Lz).qubits = rotToricQubits Lx Ly Lz from rfl, mem_rotToricQubits] at hq
  rcases hq with hq | hq
  · have hcase : (x + y) % 4 = 2 ∨ (x + y) % 4 = 0 := by omega
    rcases hcase with h4 | h4
    · exact rotToric_flipOK_xedge Lx Ly Lz hLx hLy x y z hq h4
    · exact rotToric_flipOK_yedge Lx Ly Lz hLx hLy x y z hq h4
  · exact rotToric_flipOK_zedge Lx Ly Lz hLx hLy x y z hq

end
end Panqec.Sweep
