/-
Generic lemmas about the visualizer model (`Model/GuiRepr.lean`): Python-dict assignments, the base
`stabilizer_representation` / `qubit_representation` on a servable configuration entry, overrides made
of simple assignments, `mapM` over the coordinate lists, and the assembly of the `/code-data` payload.
-/
import PanqecVerif.Model.GuiRepr
import PanqecVerif.Proofs.OpComm
import PanqecVerif.Proofs.DeformOp

namespace Panqec.GuiRepr
open Panqec.Gui

/-! ### dict assignments -/

theorem hasKey_setKey_self (d : Dict) (k : String) (v : JV) : hasKey (setKey d k v) k = true := by
  induction d with
  | nil => simp [setKey, hasKey]
  | cons e d ih =>
    obtain ⟨a, b⟩ := e
    unfold setKey
    by_cases h : (a == k) = true
    · simp [h, hasKey]
    · simp only [h, Bool.false_eq_true, if_false]
      unfold hasKey at ih ⊢
      simp only [List.any_cons, ih, Bool.or_true]

theorem hasKey_setKey_of (d : Dict) (k : String) (v : JV) (k' : String) (h : hasKey d k' = true) :
    hasKey (setKey d k v) k' = true := by
  induction d with
  | nil => simp [hasKey] at h
  | cons e d ih =>
    obtain ⟨a, b⟩ := e
    unfold setKey
    by_cases hk : (a == k) = true
    · simp only [hk, if_true]
      unfold hasKey at h ⊢
      simp only [List.any_cons, Bool.or_eq_true] at h ⊢
      rcases h with h | h
      · left
        have h1 : a = k := by simpa using hk
        have h2 : a = k' := by simpa using h
        simp [← h1, h2]
      · exact Or.inr h
    · simp only [hk, Bool.false_eq_true, if_false]
      unfold hasKey at h ih ⊢
      simp only [List.any_cons, Bool.or_eq_true] at h ⊢
      rcases h with h | h
      · exact Or.inl h
      · exact Or.inr (ih h)

theorem getKey_setKey_self (d : Dict) (k : String) (v : JV) : getKey (setKey d k v) k = some v := by
  induction d with
  | nil => simp [setKey, getKey]
  | cons e d ih =>
    obtain ⟨a, b⟩ := e
    unfold setKey
    by_cases h : (a == k) = true
    · simp [h, getKey]
    · simp only [h, Bool.false_eq_true, if_false]
      unfold getKey at ih ⊢
      simp only [List.find?_cons, h]
      exact ih

theorem getKey_setKey_ne (d : Dict) (k : String) (v : JV) (k' : String) (hne : k' ≠ k) :
    getKey (setKey d k v) k' = getKey d k' := by
  induction d with
  | nil =>
    have : (k == k') = false := by simpa using fun h => hne h.symm
    simp [setKey, getKey, this]
  | cons e d ih =>
    obtain ⟨a, b⟩ := e
    unfold setKey
    by_cases h : (a == k) = true
    · have h1 : a = k := by simpa using h
      have h2 : (k == k') = false := by simpa using fun h => hne h.symm
      simp only [h, if_true]
      unfold getKey
      simp only [List.find?_cons, h2, h1]
    · simp only [h, Bool.false_eq_true, if_false]
      unfold getKey at ih ⊢
      simp only [List.find?_cons]
      cases (a == k') <;> simp [ih]

theorem hasKey_of_getKey {d : Dict} {k : String} {v : JV} (h : getKey d k = some v) : hasKey d k = true := by
  unfold getKey at h
  unfold hasKey
  cases hf : d.find? (·.1 == k) with
  | none => simp [hf] at h
  | some e =>
    rw [List.any_eq_true]
    exact ⟨e, List.mem_of_find?_eq_some hf, List.find?_some (p := fun x : String × JV => x.1 == k) hf⟩

/-! ### colours -/

/-- the condition `entryOk` tests on the colour dict -/
def ColorsOk (cm : List (String × String)) (keys : List String) (cols : Dict) : Prop :=
  ∀ k ∈ keys, ∃ name hex, getKey cols k = some (.str name) ∧ resolve cm name = some hex

theorem resolveKeys_ok (cm : List (String × String)) :
    ∀ (keys : List String) (cols : Dict), keys.Nodup → ColorsOk cm keys cols →
      ∃ cs, resolveKeys cm keys cols = .ok cs := by
  intro keys
  induction keys with
  | nil => intro cols _ _; exact ⟨cols, rfl⟩
  | cons k ks ih =>
    intro cols hnd hok
    obtain ⟨name, hex, h1, h2⟩ := hok k (List.mem_cons_self ..)
    unfold resolveKeys
    simp only [h1, h2]
    apply ih _ (List.nodup_cons.mp hnd).2
    intro k' hk'
    obtain ⟨n', x', h1', h2'⟩ := hok k' (List.mem_cons_of_mem _ hk')
    refine ⟨n', x', ?_, h2'⟩
    rw [getKey_setKey_ne _ _ _ _ (fun h : k' = k => (List.nodup_cons.mp hnd).1 (h ▸ hk'))]
    exact h1'

theorem colorsOk_of_all {cm : List (String × String)} {keys : List String} {cols : Dict}
    (h : (keys.all fun k => match getKey cols k with
      | some (.str name) => (resolve cm name).isSome
      | _ => false) = true) : ColorsOk cm keys cols := by
  intro k hk
  have := List.all_eq_true.mp h k hk
  cases hg : getKey cols k with
  | none => simp [hg] at this
  | some v =>
    cases v with
    | str name =>
      simp only [hg] at this
      obtain ⟨hex, hh⟩ := Option.isSome_iff_exists.mp this
      exact ⟨name, hex, rfl, hh⟩
    | null => simp [hg] at this
    | bool _ => simp [hg] at this
    | num _ => simp [hg] at this
    | arr _ => simp [hg] at this
    | obj _ => simp [hg] at this

/-- what a description must satisfy for the overrides to apply: complete, `params` a dict -/
structure Good (d : Desc) : Prop where
  complete : descComplete d = true
  params : isObj (getKey d "params") = true

theorem resolveColors_ok (cm : List (String × String)) (keys : List String) (d : Desc) (cols : Dict)
    (hnd : keys.Nodup) (hc : getKey d "color" = some (.obj cols)) (hok : ColorsOk cm keys cols) :
    ∃ d', resolveColors cm keys d = .ok d' ∧ (∀ k, hasKey d k = true → hasKey d' k = true) ∧
      (∀ k, k ≠ "color" → getKey d' k = getKey d k) := by
  obtain ⟨cs, hcs⟩ := resolveKeys_ok cm keys cols hnd hok
  refine ⟨setKey d "color" (.obj cs), ?_, fun k hk => hasKey_setKey_of _ _ _ _ hk,
    fun k hk => getKey_setKey_ne _ _ _ _ hk⟩
  unfold resolveColors
  simp only [hc, hcs]

/-- the entry conditions, unpacked -/
theorem entryOk_unpack {cm : List (String × String)} {keys : List String} {e : REntry}
    (h : entryOk cm keys e = true) :
    hasKey e.body "object" = true ∧ hasKey e.body "opacity" = true ∧
    isObj (getKey e.body "params") = true ∧
    ∃ cols, getKey e.body "color" = some (.obj cols) ∧ ColorsOk cm keys cols := by
  unfold entryOk at h
  simp only [Bool.and_eq_true] at h
  obtain ⟨⟨⟨h1, h2⟩, h3⟩, h4⟩ := h
  refine ⟨h1, h2, h3, ?_⟩
  cases hg : getKey e.body "color" with
  | none => simp [hg] at h4
  | some v =>
    cases v with
    | obj cols =>
      simp only [hg] at h4
      exact ⟨cols, rfl, colorsOk_of_all h4⟩
    | null => simp [hg] at h4
    | bool _ => simp [hg] at h4
    | num _ => simp [hg] at h4
    | arr _ => simp [hg] at h4
    | str _ => simp [hg] at h4

theorem descComplete_iff (d : Desc) :
    descComplete d = true ↔ hasKey d "object" = true ∧ hasKey d "color" = true ∧
      hasKey d "opacity" = true ∧ hasKey d "params" = true ∧ hasKey d "location" = true := by
  unfold descComplete requiredFields
  simp [List.all_cons, Bool.and_eq_true]

theorem hasKey_of_isObj {d : Dict} {k : String} (h : isObj (getKey d k) = true) : hasKey d k = true := by
  cases hg : getKey d k with
  | none => simp [hg, isObj] at h
  | some v => exact hasKey_of_getKey hg

/-- the base `stabilizer_representation` on a servable entry -/
theorem baseStab_ok (T : Tables) (cls : String) (rot : Bool) (typ : String) (loc : Coord) (e : REntry)
    (hl : lookupFull T.cfg cls "stabilizers" (pictureName rot) typ = some e)
    (he : entryOk T.colormap stabColorKeys e = true) :
    ∃ d, baseStab T cls rot typ loc = .ok d ∧ Good d ∧ getKey d "location" = some (locJV loc) ∧
      getKey d "type" = some (.str typ) ∧ getKey d "params" = getKey e.body "params" := by
  obtain ⟨h1, h2, h3, cols, h4, h5⟩ := entryOk_unpack he
  have hc : getKey (setKey (setKey e.body "type" (.str typ)) "location" (locJV loc)) "color" = some (.obj cols) := by
    rw [getKey_setKey_ne _ _ _ _ (by decide), getKey_setKey_ne _ _ _ _ (by decide)]; exact h4
  obtain ⟨d, hd, hk, hg⟩ := resolveColors_ok T.colormap stabColorKeys _ cols (by decide) hc h5
  refine ⟨d, ?_, ⟨?_, ?_⟩, ?_, ?_, ?_⟩
  · unfold baseStab; simp only [hl]; exact hd
  · rw [descComplete_iff]
    refine ⟨hk _ (hasKey_setKey_of _ _ _ _ (hasKey_setKey_of _ _ _ _ h1)), hk _ (hasKey_of_getKey hc),
      hk _ (hasKey_setKey_of _ _ _ _ (hasKey_setKey_of _ _ _ _ h2)),
      hk _ (hasKey_setKey_of _ _ _ _ (hasKey_setKey_of _ _ _ _ (hasKey_of_isObj h3))),
      hk _ (hasKey_setKey_self _ _ _)⟩
  · rw [hg _ (by decide), getKey_setKey_ne _ _ _ _ (by decide), getKey_setKey_ne _ _ _ _ (by decide)]
    exact h3
  · rw [hg _ (by decide)]; exact getKey_setKey_self _ _ _
  · rw [hg _ (by decide), getKey_setKey_ne _ _ _ _ (by decide)]; exact getKey_setKey_self _ _ _
  · rw [hg _ (by decide), getKey_setKey_ne _ _ _ _ (by decide), getKey_setKey_ne _ _ _ _ (by decide)]

/-- the base `qubit_representation` on a servable entry, for a location that has an axis -/
theorem baseQubit_ok (T : Tables) (cls : String) (rot : Bool) (axis : String) (loc : Coord) (e : REntry)
    (hl : lookupFull T.cfg cls "qubits" (pictureName rot) "" = some e)
    (he : entryOk T.colormap qubitColorKeys e = true) :
    ∃ d, baseQubit T cls rot (some axis) loc = .ok d ∧ Good d ∧ getKey d "location" = some (locJV loc) ∧
      ∃ p, getKey d "params" = some (.obj p) ∧ getKey p "axis" = some (.str axis) := by
  obtain ⟨h1, h2, h3, cols, h4, h5⟩ := entryOk_unpack he
  cases hp : getKey e.body "params" with
  | none => simp [hp, isObj] at h3
  | some pv =>
    cases pv with
    | obj p =>
      have hc : getKey (setKey (setKey e.body "params" (.obj (setKey p "axis" (.str axis)))) "location"
          (locJV loc)) "color" = some (.obj cols) := by
        rw [getKey_setKey_ne _ _ _ _ (by decide), getKey_setKey_ne _ _ _ _ (by decide)]; exact h4
      obtain ⟨d, hd, hk, hg⟩ := resolveColors_ok T.colormap qubitColorKeys _ cols (by decide) hc h5
      have hpar : getKey d "params" = some (.obj (setKey p "axis" (.str axis))) := by
        rw [hg _ (by decide), getKey_setKey_ne _ _ _ _ (by decide)]; exact getKey_setKey_self _ _ _
      refine ⟨d, ?_, ⟨?_, ?_⟩, ?_, _, hpar, getKey_setKey_self _ _ _⟩
      · unfold baseQubit; simp only [hl, hp]; exact hd
      · rw [descComplete_iff]
        refine ⟨hk _ (hasKey_setKey_of _ _ _ _ (hasKey_setKey_of _ _ _ _ h1)), hk _ (hasKey_of_getKey hc),
          hk _ (hasKey_setKey_of _ _ _ _ (hasKey_setKey_of _ _ _ _ h2)),
          hasKey_of_getKey hpar, hk _ (hasKey_setKey_self _ _ _)⟩
      · rw [hpar]; rfl
      · rw [hg _ (by decide)]; exact getKey_setKey_self _ _ _
    | null => simp [hp, isObj] at h3
    | bool _ => simp [hp, isObj] at h3
    | num _ => simp [hp, isObj] at h3
    | arr _ => simp [hp, isObj] at h3
    | str _ => simp [hp, isObj] at h3

/-! ### overrides -/

theorem Good.setKey {d : Desc} (h : Good d) (k : String) (v : JV) (hk : k ≠ "params") : Good (setKey d k v) := by
  refine ⟨?_, ?_⟩
  · have := (descComplete_iff d).mp h.complete
    rw [descComplete_iff]
    exact ⟨hasKey_setKey_of _ _ _ _ this.1, hasKey_setKey_of _ _ _ _ this.2.1,
      hasKey_setKey_of _ _ _ _ this.2.2.1, hasKey_setKey_of _ _ _ _ this.2.2.2.1,
      hasKey_setKey_of _ _ _ _ this.2.2.2.2⟩
  · rw [getKey_setKey_ne _ _ _ _ (Ne.symm hk)]; exact h.params

theorem Good.setParams {d : Desc} (h : Good d) (p : Dict) : Good (GuiRepr.setKey d "params" (.obj p)) := by
  refine ⟨?_, ?_⟩
  · have := (descComplete_iff d).mp h.complete
    rw [descComplete_iff]
    exact ⟨hasKey_setKey_of _ _ _ _ this.1, hasKey_setKey_of _ _ _ _ this.2.1,
      hasKey_setKey_of _ _ _ _ this.2.2.1, hasKey_setKey_of _ _ _ _ this.2.2.2.1,
      hasKey_setKey_of _ _ _ _ this.2.2.2.2⟩
  · rw [getKey_setKey_self]; rfl

theorem edit_apply_ok {d : Desc} (h : Good d) (l : JV) (hl : getKey d "location" = some l) (e : Edit)
    (hs : e.simple = true) :
    ∃ d', e.apply d = .ok d' ∧ Good d' ∧ getKey d' "location" = some (finalLocation [e] l) ∧
      getKey d' "type" = getKey d "type" := by
  cases e with
  | set k v =>
    have hk : k ≠ "params" ∧ k ≠ "type" := by simpa [Edit.simple] using hs
    refine ⟨_, rfl, h.setKey k v hk.1, ?_, getKey_setKey_ne _ _ _ _ (Ne.symm hk.2)⟩
    unfold finalLocation finalLocation
    by_cases hkl : k = "location"
    · subst hkl; simp [getKey_setKey_self]
    · have : (k == "location") = false := by simpa using hkl
      simp only [this, Bool.false_eq_true, if_false]
      rw [getKey_setKey_ne _ _ _ _ (Ne.symm hkl), hl]
  | param k v =>
    cases hp : getKey d "params" with
    | none => have := h.params; simp [hp, isObj] at this
    | some pv =>
      cases pv with
      | obj p =>
        refine ⟨setKey d "params" (.obj (setKey p k v)), by simp only [Edit.apply, hp], h.setParams _, ?_,
          getKey_setKey_ne _ _ _ _ (by decide)⟩
        rw [getKey_setKey_ne _ _ _ _ (by decide), hl]; rfl
      | null => have := h.params; simp [hp, isObj] at this
      | bool _ => have := h.params; simp [hp, isObj] at this
      | num _ => have := h.params; simp [hp, isObj] at this
      | arr _ => have := h.params; simp [hp, isObj] at this
      | str _ => have := h.params; simp [hp, isObj] at this
  | newParams p =>
    refine ⟨_, rfl, h.setParams _, ?_, getKey_setKey_ne _ _ _ _ (by decide)⟩
    rw [getKey_setKey_ne _ _ _ _ (by decide), hl]; rfl
  | scaleVertices b => simp [Edit.simple] at hs

theorem hasLocation {d : Desc} (h : Good d) : ∃ l, getKey d "location" = some l := by
  have := ((descComplete_iff d).mp h.complete).2.2.2.2
  unfold hasKey at this
  unfold getKey
  obtain ⟨x, hx, hp⟩ := List.any_eq_true.mp this
  cases hf : d.find? (·.1 == "location") with
  | none => exact absurd hp (by simpa using List.find?_eq_none.mp hf x hx)
  | some y => exact ⟨y.2, rfl⟩

theorem finalLocation_cons (e : Edit) (es : List Edit) (l : JV) :
    finalLocation (e :: es) l = finalLocation es (finalLocation [e] l) := by
  cases e <;> simp [finalLocation]

/-- an override made of simple assignments never fails on a good description, keeps it good, and
    leaves `location` as the last assignment to it (or untouched) -/
theorem applyEdits_ok : ∀ (es : List Edit) (d : Desc) (l : JV), Good d → getKey d "location" = some l →
    es.all Edit.simple = true →
    ∃ d', applyEdits es d = .ok d' ∧ Good d' ∧ getKey d' "location" = some (finalLocation es l) ∧
      getKey d' "type" = getKey d "type" := by
  intro es
  induction es with
  | nil => intro d l h hl _; exact ⟨d, rfl, h, hl, rfl⟩
  | cons e es ih =>
    intro d l h hl hs
    simp only [List.all_cons, Bool.and_eq_true] at hs
    obtain ⟨d1, h1, hg1, hl1, ht1⟩ := edit_apply_ok h l hl e hs.1
    obtain ⟨d', h2, hg2, hl2, ht2⟩ := ih d1 _ hg1 hl1 hs.2
    refine ⟨d', ?_, hg2, ?_, ht2.trans ht1⟩
    · unfold applyEdits at h2 ⊢
      rw [List.foldlM_cons, h1]; exact h2
    · rw [hl2, finalLocation_cons e es l]

/-! ### `mapM` over the coordinate lists -/

theorem mapM_ok {α β} (f : α → Except String β) : ∀ (l : List α), (∀ x ∈ l, ∃ y, f x = .ok y) →
    ∃ ys, l.mapM f = .ok ys ∧ ys.length = l.length ∧
      ∀ i (h : i < l.length) (h' : i < ys.length), f l[i] = .ok ys[i] := by
  intro l
  induction l with
  | nil => intro _; exact ⟨[], rfl, rfl, fun i h => absurd h (by simp)⟩
  | cons a l ih =>
    intro h
    obtain ⟨y, hy⟩ := h a (List.mem_cons_self ..)
    obtain ⟨ys, h1, h2, h3⟩ := ih fun x hx => h x (List.mem_cons_of_mem _ hx)
    refine ⟨y :: ys, ?_, by simp [h2], ?_⟩
    · rw [List.mapM_cons, hy, h1]; rfl
    · intro i hi hi'
      cases i with
      | zero => exact hy
      | succ i => exact h3 i (by simpa using hi) (by simpa using hi')

end Panqec.GuiRepr
