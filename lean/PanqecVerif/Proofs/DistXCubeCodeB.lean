/-
XCubeCode, all sizes, C17 part B: the families of pairwise disjoint representatives and the
packing bound.

* an X logical (a ladder of `L` parallel edges) has the `L'` translates along its edges
  (`Proofs/DistXCubeCodeA.lean`), pairwise disjoint;
* a single-line Z logical (the line at transverse position `(j0, 0)`) is equivalent to the
  product of the three lines at `(s, 0)`, `(j0, i)`, `(s, i)` for any `s ≠ j0`, `i ≠ 0` (rectangle
  relation): with `s = skip j0 i` these triples are pairwise disjoint for `1 ≤ i < min A B`, which
  together with the line itself gives `min A B` representatives;
* a double-line Z logical (the lines at `(0, 0)` and `(0, k0)`) is equivalent to the lines at
  `(i, 0)` and `(i, k0)`: `A` representatives.
-/
import PanqecVerif.Proofs.DistXCubeCodeA

namespace Panqec.XCubeCode
open Panqec.Lat3Db
open Panqec.Cubic3D (RepsOK uopReps opAntiCount_uop_hit uop)

/-! ### families of parallel lines indexed by their transverse position -/

/-- `1, 2, 3, …` mapped injectively into the positions other than `j0` -/
def skip (j0 i : Nat) : Nat := if i ≤ j0 then i - 1 else i

theorem skip_spec (j0 i : Nat) : (i ≤ j0 ∧ skip j0 i = i - 1) ∨ (j0 < i ∧ skip j0 i = i) := by
  unfold skip; split <;> omega

/-- transverse positions of the `i`-th representative of the line at `(j0, 0)` -/
def pairs1 (j0 i : Nat) : List (Nat × Nat) :=
  if i = 0 then [(j0, 0)] else [(skip j0 i, 0), (j0, i), (skip j0 i, i)]
/-- transverse positions of the `i`-th representative of the two lines at `(0, 0)`, `(0, k0)` -/
def pairs2 (k0 i : Nat) : List (Nat × Nat) := [(i, 0), (i, k0)]

/-- the union of the lines at the given transverse positions -/
def fam (line : Nat → Nat → List Coord) (ps : List (Nat × Nat)) : List Coord :=
  ps.flatMap fun p => line p.1 p.2

/-- a system of parallel lines: each without repetition, different lines disjoint, the lines at
    positions `< (A, B)` made of qubits -/
structure LineSys (qs : List Coord) (line : Nat → Nat → List Coord) (A B : Nat) : Prop where
  nodup : ∀ j k, (line j k).Nodup
  inj : ∀ j k j' k' q, q ∈ line j k → q ∈ line j' k' → j = j' ∧ k = k'
  sub : ∀ j k, j < A → k < B → ∀ q ∈ line j k, q ∈ qs

theorem mem_fam {line : Nat → Nat → List Coord} {ps : List (Nat × Nat)} {q : Coord} :
    q ∈ fam line ps ↔ ∃ p ∈ ps, q ∈ line p.1 p.2 := by
  unfold fam; simp only [List.mem_flatMap]

theorem fam_nodup {qs : List Coord} {line : Nat → Nat → List Coord} {A B : Nat}
    (h : LineSys qs line A B) {ps : List (Nat × Nat)} (hps : ps.Nodup) : (fam line ps).Nodup := by
  unfold fam
  rw [List.nodup_flatMap]
  refine ⟨fun p _ => h.nodup _ _, ?_⟩
  refine List.Pairwise.imp ?_ hps
  intro p p' hne
  simp only [Function.onFun, List.disjoint_left]
  intro q hq hq'
  obtain ⟨e1, e2⟩ := h.inj _ _ _ _ q hq hq'
  exact hne (Prod.ext e1 e2)

theorem fam_sub {qs : List Coord} {line : Nat → Nat → List Coord} {A B : Nat}
    (h : LineSys qs line A B) {ps : List (Nat × Nat)} (hps : ∀ p ∈ ps, p.1 < A ∧ p.2 < B) :
    ∀ q ∈ fam line ps, q ∈ qs := by
  intro q hq
  obtain ⟨p, hp, hq⟩ := mem_fam.mp hq
  exact h.sub _ _ (hps p hp).1 (hps p hp).2 q hq

theorem fam_disj {qs : List Coord} {line : Nat → Nat → List Coord} {A B : Nat}
    (h : LineSys qs line A B) {ps ps' : List (Nat × Nat)} (hd : ∀ p ∈ ps, p ∉ ps') :
    ∀ q ∈ fam line ps, q ∉ fam line ps' := by
  intro q hq hq'
  obtain ⟨p, hp, hq⟩ := mem_fam.mp hq
  obtain ⟨p', hp', hq'⟩ := mem_fam.mp hq'
  obtain ⟨e1, e2⟩ := h.inj _ _ _ _ q hq hq'
  have : p = p' := Prod.ext e1 e2
  subst this
  exact hd p hp hp'

/-! ### the positions of the representatives -/

theorem pairs1_bound {A B j0 i : Nat} (hj0 : j0 < A) (hi : i < min A B) :
    ∀ p ∈ pairs1 j0 i, p.1 < A ∧ p.2 < B := by
  have hs := skip_spec j0 i
  intro p hp
  unfold pairs1 at hp
  by_cases h0 : i = 0
  · rw [if_pos h0] at hp
    simp only [List.mem_cons, List.not_mem_nil, or_false] at hp
    subst hp
    exact ⟨hj0, by omega⟩
  · rw [if_neg h0] at hp
    simp only [List.mem_cons, List.not_mem_nil, or_false] at hp
    rcases hp with rfl | rfl | rfl <;> exact ⟨by omega, by omega⟩

theorem pairs1_nodup (j0 i : Nat) : (pairs1 j0 i).Nodup := by
  have hs := skip_spec j0 i
  unfold pairs1
  by_cases h0 : i = 0
  · rw [if_pos h0]; simp
  · rw [if_neg h0]
    simp only [List.nodup_cons, List.mem_cons, List.not_mem_nil, or_false, Prod.mk.injEq,
      not_false_eq_true, List.nodup_nil, and_true]
    omega

theorem pairs1_disj (j0 : Nat) {i i' : Nat} (h : i < i') :
    ∀ p ∈ pairs1 j0 i, p ∉ pairs1 j0 i' := by
  have hs := skip_spec j0 i
  have hs' := skip_spec j0 i'
  intro p hp hp'
  unfold pairs1 at hp hp'
  rw [if_neg (by omega)] at hp'
  simp only [List.mem_cons, List.not_mem_nil, or_false] at hp'
  by_cases h0 : i = 0
  · rw [if_pos h0] at hp
    simp only [List.mem_cons, List.not_mem_nil, or_false] at hp
    subst hp
    simp only [Prod.mk.injEq] at hp'
    omega
  · rw [if_neg h0] at hp
    simp only [List.mem_cons, List.not_mem_nil, or_false] at hp
    rcases hp with rfl | rfl | rfl <;> simp only [Prod.mk.injEq] at hp' <;> omega

theorem pairs2_bound {A B k0 i : Nat} (hk0 : k0 < B) (hi : i < A) :
    ∀ p ∈ pairs2 k0 i, p.1 < A ∧ p.2 < B := by
  intro p hp
  unfold pairs2 at hp
  simp only [List.mem_cons, List.not_mem_nil, or_false] at hp
  rcases hp with rfl | rfl <;> exact ⟨by omega, by omega⟩

theorem pairs2_nodup {k0 : Nat} (hk0 : k0 ≠ 0) (i : Nat) : (pairs2 k0 i).Nodup := by
  unfold pairs2
  simp only [List.nodup_cons, List.mem_cons, List.not_mem_nil, or_false, Prod.mk.injEq,
    not_false_eq_true, List.nodup_nil, and_true]
  omega

theorem pairs2_disj (k0 : Nat) {i i' : Nat} (h : i < i') :
    ∀ p ∈ pairs2 k0 i, p ∉ pairs2 k0 i' := by
  intro p hp hp'
  unfold pairs2 at hp hp'
  simp only [List.mem_cons, List.not_mem_nil, or_false] at hp hp'
  rcases hp with rfl | rfl <;> simp only [Prod.mk.injEq] at hp' <;> omega

/-- representatives of a single line: `min A B` of them -/
theorem reps1 {qs : List Coord} {line : Nat → Nat → List Coord} {A B : Nat}
    (h : LineSys qs line A B) {j0 : Nat} (hj0 : j0 < A) (P : Pauli) :
    RepsOK qs (fun i => fam line (pairs1 j0 i)) (min A B) P :=
  uopReps _ _ _ P (fun i => fam_nodup h (pairs1_nodup j0 i))
    (fun _ hi => fam_sub h (pairs1_bound hj0 hi))
    (fun _ _ hii => fam_disj h (pairs1_disj j0 hii))

/-- representatives of a pair of lines: `A` of them -/
theorem reps2 {qs : List Coord} {line : Nat → Nat → List Coord} {A B : Nat}
    (h : LineSys qs line A B) {k0 : Nat} (hk0 : k0 < B) (hk0' : k0 ≠ 0) (P : Pauli) :
    RepsOK qs (fun i => fam line (pairs2 k0 i)) A P :=
  uopReps _ _ _ P (fun i => fam_nodup h (pairs2_nodup hk0' i))
    (fun _ hi => fam_sub h (pairs2_bound hk0 hi))
    (fun _ _ hii => fam_disj h (pairs2_disj k0 hii))

/-- the rectangle relation makes every representative of a single line count like the line -/
theorem parity1 {line : Nat → Nat → List Coord} {A B : Nat} (hit : Coord → Bool)
    (hrect : ∀ j k, j < A → k < B → ((line j k).countP hit + (line j 0).countP hit
      + (line 0 k).countP hit + (line 0 0).countP hit) % 2 = 0)
    {j0 : Nat} (hj0 : j0 < A) {i : Nat} (hi : i < min A B) :
    (fam line (pairs1 j0 i)).countP hit % 2 = (line j0 0).countP hit % 2 := by
  have hs := skip_spec j0 i
  unfold pairs1 fam
  by_cases h0 : i = 0
  · rw [if_pos h0]
    simp
  · rw [if_neg h0]
    simp only [List.flatMap_cons, List.flatMap_nil, List.append_nil, List.countP_append]
    have h1 := hrect j0 i hj0 (by omega)
    have h2 := hrect (skip j0 i) i (by omega) (by omega)
    omega

/-- … and every representative of a pair of lines like the pair -/
theorem parity2 {line : Nat → Nat → List Coord} {A B : Nat} (hit : Coord → Bool)
    (hrect : ∀ j k, j < A → k < B → ((line j k).countP hit + (line j 0).countP hit
      + (line 0 k).countP hit + (line 0 0).countP hit) % 2 = 0)
    {k0 : Nat} (hk0 : k0 < B) {i : Nat} (hi : i < A) :
    (fam line (pairs2 k0 i)).countP hit % 2 = (fam line (pairs2 k0 0)).countP hit % 2 := by
  unfold pairs2 fam
  simp only [List.flatMap_cons, List.flatMap_nil, List.append_nil, List.countP_append]
  have h1 := hrect i k0 hi hk0
  omega

/-! ### the three systems of Z lines -/

theorem mem_zlX {Lx j k : Nat} {q : Coord} :
    q ∈ zlX Lx j k ↔ ∃ x, R1 (2 * Lx) x ∧ q = [x, 2 * (j : Int), 2 * (k : Int)] := by
  simp only [zlX, List.mem_map, mem_pyRange2_1]
  constructor
  · rintro ⟨x, hx, rfl⟩; exact ⟨x, hx, rfl⟩
  · rintro ⟨x, hx, rfl⟩; exact ⟨x, hx, rfl⟩
theorem mem_zlY {Ly i k : Nat} {q : Coord} :
    q ∈ zlY Ly i k ↔ ∃ y, R1 (2 * Ly) y ∧ q = [2 * (i : Int), y, 2 * (k : Int)] := by
  simp only [zlY, List.mem_map, mem_pyRange2_1]
  constructor
  · rintro ⟨x, hx, rfl⟩; exact ⟨x, hx, rfl⟩
  · rintro ⟨x, hx, rfl⟩; exact ⟨x, hx, rfl⟩
theorem mem_zlZ {Lz i j : Nat} {q : Coord} :
    q ∈ zlZ Lz i j ↔ ∃ z, R1 (2 * Lz) z ∧ q = [2 * (i : Int), 2 * (j : Int), z] := by
  simp only [zlZ, List.mem_map, mem_pyRange2_1]
  constructor
  · rintro ⟨x, hx, rfl⟩; exact ⟨x, hx, rfl⟩
  · rintro ⟨x, hx, rfl⟩; exact ⟨x, hx, rfl⟩

variable {Lx Ly Lz : Nat}

theorem sysX : LineSys (qubits Lx Ly Lz) (zlX Lx) Ly Lz where
  nodup j k := List.Nodup.map (fun a b h => by simpa using h) (nodup_pyRange2 _ _)
  inj j k j' k' q hq hq' := by
    obtain ⟨x, _, rfl⟩ := mem_zlX.mp hq
    obtain ⟨x', _, e⟩ := mem_zlX.mp hq'
    simp only [List.cons.injEq, and_true] at e
    omega
  sub j k hj hk q hq := by
    obtain ⟨x, hx, rfl⟩ := mem_zlX.mp hq
    rw [mem_qubits_iff]; left
    unfold QX R0 R1 at *; omega

theorem sysY : LineSys (qubits Lx Ly Lz) (zlY Ly) Lx Lz where
  nodup j k := List.Nodup.map (fun a b h => by simpa using h) (nodup_pyRange2 _ _)
  inj j k j' k' q hq hq' := by
    obtain ⟨x, _, rfl⟩ := mem_zlY.mp hq
    obtain ⟨x', _, e⟩ := mem_zlY.mp hq'
    simp only [List.cons.injEq, and_true] at e
    omega
  sub j k hj hk q hq := by
    obtain ⟨x, hx, rfl⟩ := mem_zlY.mp hq
    rw [mem_qubits_iff]; right; left
    unfold QY R0 R1 at *; omega

theorem sysZ : LineSys (qubits Lx Ly Lz) (zlZ Lz) Lx Ly where
  nodup j k := List.Nodup.map (fun a b h => by simpa using h) (nodup_pyRange2 _ _)
  inj j k j' k' q hq hq' := by
    obtain ⟨x, _, rfl⟩ := mem_zlZ.mp hq
    obtain ⟨x', _, e⟩ := mem_zlZ.mp hq'
    simp only [List.cons.injEq, and_true] at e
    omega
  sub j k hj hk q hq := by
    obtain ⟨x, hx, rfl⟩ := mem_zlZ.mp hq
    rw [mem_qubits_iff]; right; right
    unfold QZ R0 R1 at *; omega

/-! ### the six families of X translates -/

theorem repsXA1 {y : Int} (hy0 : R0 (2 * Ly) y) (P : Pauli) :
    RepsOK (qubits Lx Ly Lz) (tXA1 Lz y) Lx P :=
  uopReps _ _ _ P
    (fun i => List.Nodup.map (fun a b h => by simpa using h) (nodup_pyRange2 _ _))
    (fun i hi q hq => by
      simp only [tXA1, List.mem_map, mem_pyRange2_0] at hq
      obtain ⟨t, ht, rfl⟩ := hq
      rw [mem_qubits_iff]; left
      unfold QX R0 R1 at *; omega)
    (fun i i' h q hq hq' => by
      simp only [tXA1, List.mem_map] at hq hq'
      obtain ⟨t, _, rfl⟩ := hq
      obtain ⟨t', _, e⟩ := hq'
      simp only [List.cons.injEq, and_true] at e; omega)

theorem repsXA2 {z : Int} (hz0 : R0 (2 * Lz) z) (P : Pauli) :
    RepsOK (qubits Lx Ly Lz) (tXA2 Ly z) Lx P :=
  uopReps _ _ _ P
    (fun i => List.Nodup.map (fun a b h => by simpa using h) (nodup_pyRange2 _ _))
    (fun i hi q hq => by
      simp only [tXA2, List.mem_map, mem_pyRange2_0] at hq
      obtain ⟨t, ht, rfl⟩ := hq
      rw [mem_qubits_iff]; left
      unfold QX R0 R1 at *; omega)
    (fun i i' h q hq hq' => by
      simp only [tXA2, List.mem_map] at hq hq'
      obtain ⟨t, _, rfl⟩ := hq
      obtain ⟨t', _, e⟩ := hq'
      simp only [List.cons.injEq, and_true] at e; omega)

theorem repsXB1 {x : Int} (hx0 : R0 (2 * Lx) x) (P : Pauli) :
    RepsOK (qubits Lx Ly Lz) (tXB1 Lz x) Ly P :=
  uopReps _ _ _ P
    (fun i => List.Nodup.map (fun a b h => by simpa using h) (nodup_pyRange2 _ _))
    (fun i hi q hq => by
      simp only [tXB1, List.mem_map, mem_pyRange2_0] at hq
      obtain ⟨t, ht, rfl⟩ := hq
      rw [mem_qubits_iff]; right; left
      unfold QY R0 R1 at *; omega)
    (fun i i' h q hq hq' => by
      simp only [tXB1, List.mem_map] at hq hq'
      obtain ⟨t, _, rfl⟩ := hq
      obtain ⟨t', _, e⟩ := hq'
      simp only [List.cons.injEq, and_true] at e; omega)

theorem repsXB2 {z : Int} (hz0 : R0 (2 * Lz) z) (P : Pauli) :
    RepsOK (qubits Lx Ly Lz) (tXB2 Lx z) Ly P :=
  uopReps _ _ _ P
    (fun i => List.Nodup.map (fun a b h => by simpa using h) (nodup_pyRange2 _ _))
    (fun i hi q hq => by
      simp only [tXB2, List.mem_map, mem_pyRange2_0] at hq
      obtain ⟨t, ht, rfl⟩ := hq
      rw [mem_qubits_iff]; right; left
      unfold QY R0 R1 at *; omega)
    (fun i i' h q hq hq' => by
      simp only [tXB2, List.mem_map] at hq hq'
      obtain ⟨t, _, rfl⟩ := hq
      obtain ⟨t', _, e⟩ := hq'
      simp only [List.cons.injEq, and_true] at e; omega)

theorem repsXC1 {x : Int} (hx0 : R0 (2 * Lx) x) (P : Pauli) :
    RepsOK (qubits Lx Ly Lz) (tXC1 Ly x) Lz P :=
  uopReps _ _ _ P
    (fun i => List.Nodup.map (fun a b h => by simpa using h) (nodup_pyRange2 _ _))
    (fun i hi q hq => by
      simp only [tXC1, List.mem_map, mem_pyRange2_0] at hq
      obtain ⟨t, ht, rfl⟩ := hq
      rw [mem_qubits_iff]; right; right
      unfold QZ R0 R1 at *; omega)
    (fun i i' h q hq hq' => by
      simp only [tXC1, List.mem_map] at hq hq'
      obtain ⟨t, _, rfl⟩ := hq
      obtain ⟨t', _, e⟩ := hq'
      simp only [List.cons.injEq, and_true] at e; omega)

theorem repsXC2 {y : Int} (hy0 : R0 (2 * Ly) y) (P : Pauli) :
    RepsOK (qubits Lx Ly Lz) (tXC2 Lx y) Lz P :=
  uopReps _ _ _ P
    (fun i => List.Nodup.map (fun a b h => by simpa using h) (nodup_pyRange2 _ _))
    (fun i hi q hq => by
      simp only [tXC2, List.mem_map, mem_pyRange2_0] at hq
      obtain ⟨t, ht, rfl⟩ := hq
      rw [mem_qubits_iff]; right; right
      unfold QZ R0 R1 at *; omega)
    (fun i i' h q hq hq' => by
      simp only [tXC2, List.mem_map] at hq hq'
      obtain ⟨t, _, rfl⟩ := hq
      obtain ⟨t', _, e⟩ := hq'
      simp only [List.cons.injEq, and_true] at e; omega)

/-! ### the listed Z logicals as lines of the three systems -/

/-- an element of `range(0, 2L, 2)` is `2j` with `j < L` -/
theorem even_nat_of_mem {L : Nat} {t : Int} (h : t ∈ pyRange2 0 (2 * L)) :
    ∃ j : Nat, j < L ∧ t = 2 * (j : Int) := by
  rw [pyRange2_even] at h
  obtain ⟨j, hj, rfl⟩ := List.mem_map.mp h
  exact ⟨j, List.mem_range.mp hj, rfl⟩

/-- an element of `range(2, 2L, 2)` is `2k` with `1 ≤ k < L` -/
theorem even_nat_of_mem2 {L : Nat} {t : Int} (h : t ∈ pyRange2 2 (2 * L)) :
    ∃ k : Nat, k < L ∧ k ≠ 0 ∧ t = 2 * (k : Int) := by
  rw [mem_pyRange2_2] at h
  unfold R2 at h
  refine ⟨(t / 2).toNat, ?_, ?_, ?_⟩ <;> omega

theorem kZA1_eq (Lx j : Nat) : kZA1 Lx (2 * (j : Int)) = zlX Lx j 0 := rfl
theorem kZB1_eq (Ly i : Nat) : kZB1 Ly (2 * (i : Int)) = zlY Ly i 0 := rfl
theorem kZC1_eq (Lz i : Nat) : kZC1 Lz (2 * (i : Int)) = zlZ Lz i 0 := rfl
theorem kZA2_eq (Lx k : Nat) : kZA2 Lx (2 * (k : Int)) = fam (zlX Lx) (pairs2 k 0) := by
  unfold fam pairs2
  simp only [List.flatMap_cons, List.flatMap_nil, List.append_nil]
  rfl
theorem kZB2_eq (Ly k : Nat) : kZB2 Ly (2 * (k : Int)) = fam (zlY Ly) (pairs2 k 0) := by
  unfold fam pairs2
  simp only [List.flatMap_cons, List.flatMap_nil, List.append_nil]
  rfl
theorem kZC2_eq (Lz j : Nat) : kZC2 Lz (2 * (j : Int)) = fam (zlZ Lz) (pairs2 j 0) := by
  unfold fam pairs2
  simp only [List.flatMap_cons, List.flatMap_nil, List.append_nil]
  rfl

theorem fam_pairs1_zero (line : Nat → Nat → List Coord) (j0 : Nat) :
    fam line (pairs1 j0 0) = line j0 0 := by
  unfold fam pairs1
  simp

/-! ### the packing bound -/

/-- every non-trivial logical operator of the `Lx × Ly × Lz` X-cube code has weight
    `≥ min Lx (min Ly Lz)` -/
theorem lower_bound (hx : 2 ≤ Lx) (hy : 2 ≤ Ly) (hz : 2 ≤ Lz) (hwf : (lattice Lx Ly Lz).WF)
    {n k : Nat} (hn : (qubits Lx Ly Lz).length = n)
    (hv : ValidCodeL n k (lattice Lx Ly Lz).rowsH (lattice Lx Ly Lz).rowsX
      (lattice Lx Ly Lz).rowsZ) :
    ∀ v, IsNontrivialLogical n (lattice Lx Ly Lz).rowsH v →
      min Lx (min Ly Lz) ≤ pauliWeight v := by
  apply Lattice.packing_bound (lattice Lx Ly Lz) hwf hn hv
  intro a ha
  change a ∈ logX Lx Ly Lz ++ logZ Lx Ly Lz at ha
  change ∃ reps : List Op, _ ∧ (∀ r ∈ reps, KeysNodup r ∧ opSupported (qubits Lx Ly Lz) r = true) ∧
    _ ∧ ∀ b : Op, _ → _ → CommStabs Lx Ly Lz b → _
  rw [logX_eq, logZ_eq] at ha
  simp only [List.mem_append, List.mem_map] at ha
  rcases ha with (((((⟨t, ht, rfl⟩ | ⟨t, ht, rfl⟩) | ⟨t, ht, rfl⟩) | ⟨t, ht, rfl⟩) | ⟨t, ht, rfl⟩) |
    ⟨t, ht, rfl⟩) | (((((⟨t, ht, rfl⟩ | ⟨t, ht, rfl⟩) | ⟨t, ht, rfl⟩) | ⟨t, ht, rfl⟩) |
    ⟨t, ht, rfl⟩) | ⟨t, ht, rfl⟩)
  · -- X̄_{A1}(t)
    have h0 := R0_of_E _ _ ht
    obtain ⟨h1, h2, h3⟩ := repsXA1 (Lx := Lx) (Lz := Lz) h0 Pauli.X
    refine ⟨_, by rw [h1]; omega, h2, h3, ?_⟩
    intro b _ _ hb r hr
    obtain ⟨i, hi, rfl⟩ := List.mem_map.mp hr
    rw [kXA1_eq, opAntiCount_uop_hit, opAntiCount_constOp_hit]
    exact parity_XA1 hb hx hz h0 i (List.mem_range.mp hi)
  · -- X̄_{A2}(t)
    have h0 := R0_of_E2 _ _ ht
    obtain ⟨h1, h2, h3⟩ := repsXA2 (Lx := Lx) (Ly := Ly) h0 Pauli.X
    refine ⟨_, by rw [h1]; omega, h2, h3, ?_⟩
    intro b _ _ hb r hr
    obtain ⟨i, hi, rfl⟩ := List.mem_map.mp hr
    rw [kXA2_eq, opAntiCount_uop_hit, opAntiCount_constOp_hit]
    exact parity_XA2 hb hx hy h0 i (List.mem_range.mp hi)
  · -- X̄_{B1}(t)
    have h0 := R0_of_E _ _ ht
    obtain ⟨h1, h2, h3⟩ := repsXB1 (Ly := Ly) (Lz := Lz) h0 Pauli.X
    refine ⟨_, by rw [h1]; omega, h2, h3, ?_⟩
    intro b _ _ hb r hr
    obtain ⟨i, hi, rfl⟩ := List.mem_map.mp hr
    rw [kXB1_eq, opAntiCount_uop_hit, opAntiCount_constOp_hit]
    exact parity_XB1 hb hy hz h0 i (List.mem_range.mp hi)
  · -- X̄_{B2}(t)
    have h0 := R0_of_E2 _ _ ht
    obtain ⟨h1, h2, h3⟩ := repsXB2 (Lx := Lx) (Ly := Ly) h0 Pauli.X
    refine ⟨_, by rw [h1]; omega, h2, h3, ?_⟩
    intro b _ _ hb r hr
    obtain ⟨i, hi, rfl⟩ := List.mem_map.mp hr
    rw [kXB2_eq, opAntiCount_uop_hit, opAntiCount_constOp_hit]
    exact parity_XB2 hb hx hy h0 i (List.mem_range.mp hi)
  · -- X̄_{C1}(t)
    have h0 := R0_of_E _ _ ht
    obtain ⟨h1, h2, h3⟩ := repsXC1 (Ly := Ly) (Lz := Lz) h0 Pauli.X
    refine ⟨_, by rw [h1]; omega, h2, h3, ?_⟩
    intro b _ _ hb r hr
    obtain ⟨i, hi, rfl⟩ := List.mem_map.mp hr
    rw [kXC1_eq, opAntiCount_uop_hit, opAntiCount_constOp_hit]
    exact parity_XC1 hb hy hz h0 i (List.mem_range.mp hi)
  · -- X̄_{C2}(t)
    have h0 := R0_of_E2 _ _ ht
    obtain ⟨h1, h2, h3⟩ := repsXC2 (Lx := Lx) (Lz := Lz) h0 Pauli.X
    refine ⟨_, by rw [h1]; omega, h2, h3, ?_⟩
    intro b _ _ hb r hr
    obtain ⟨i, hi, rfl⟩ := List.mem_map.mp hr
    rw [kXC2_eq, opAntiCount_uop_hit, opAntiCount_constOp_hit]
    exact parity_XC2 hb hx hz h0 i (List.mem_range.mp hi)
  · -- Z̄_{A1}(t): the x-line at (t, 0)
    obtain ⟨j0, hj0, rfl⟩ := even_nat_of_mem ht
    obtain ⟨h1, h2, h3⟩ := reps1 (sysX (Lx := Lx) (Ly := Ly) (Lz := Lz)) hj0 Pauli.Z
    refine ⟨_, by rw [h1]; omega, h2, h3, ?_⟩
    intro b _ _ hb r hr
    obtain ⟨i, hi, rfl⟩ := List.mem_map.mp hr
    rw [kZA1_eq, opAntiCount_uop_hit, opAntiCount_constOp_hit]
    exact parity1 _ (fun j k hj hk => rect_X hx hy hz hb j k hj hk) hj0 (List.mem_range.mp hi)
  · -- Z̄_{A2}(t): the x-lines at (0, 0) and (0, t)
    obtain ⟨k0, hk0, hk0', rfl⟩ := even_nat_of_mem2 ht
    obtain ⟨h1, h2, h3⟩ := reps2 (sysX (Lx := Lx) (Ly := Ly) (Lz := Lz)) hk0 hk0' Pauli.Z
    refine ⟨_, by rw [h1]; omega, h2, h3, ?_⟩
    intro b _ _ hb r hr
    obtain ⟨i, hi, rfl⟩ := List.mem_map.mp hr
    rw [kZA2_eq, opAntiCount_uop_hit, opAntiCount_constOp_hit]
    exact parity2 _ (fun j k hj hk => rect_X hx hy hz hb j k hj hk) hk0 (List.mem_range.mp hi)
  · -- Z̄_{B1}(t): the y-line at (t, 0)
    obtain ⟨j0, hj0, rfl⟩ := even_nat_of_mem ht
    obtain ⟨h1, h2, h3⟩ := reps1 (sysY (Lx := Lx) (Ly := Ly) (Lz := Lz)) hj0 Pauli.Z
    refine ⟨_, by rw [h1]; omega, h2, h3, ?_⟩
    intro b _ _ hb r hr
    obtain ⟨i, hi, rfl⟩ := List.mem_map.mp hr
    rw [kZB1_eq, opAntiCount_uop_hit, opAntiCount_constOp_hit]
    exact parity1 _ (fun j k hj hk => rect_Y hx hy hz hb j k hj hk) hj0 (List.mem_range.mp hi)
  · -- Z̄_{B2}(t): the y-lines at (0, 0) and (0, t)
    obtain ⟨k0, hk0, hk0', rfl⟩ := even_nat_of_mem2 ht
    obtain ⟨h1, h2, h3⟩ := reps2 (sysY (Lx := Lx) (Ly := Ly) (Lz := Lz)) hk0 hk0' Pauli.Z
    refine ⟨_, by rw [h1]; omega, h2, h3, ?_⟩
    intro b _ _ hb r hr
    obtain ⟨i, hi, rfl⟩ := List.mem_map.mp hr
    rw [kZB2_eq, opAntiCount_uop_hit, opAntiCount_constOp_hit]
    exact parity2 _ (fun j k hj hk => rect_Y hx hy hz hb j k hj hk) hk0 (List.mem_range.mp hi)
  · -- Z̄_{C1}(t): the z-line at (t, 0)
    obtain ⟨j0, hj0, rfl⟩ := even_nat_of_mem ht
    obtain ⟨h1, h2, h3⟩ := reps1 (sysZ (Lx := Lx) (Ly := Ly) (Lz := Lz)) hj0 Pauli.Z
    refine ⟨_, by rw [h1]; omega, h2, h3, ?_⟩
    intro b _ _ hb r hr
    obtain ⟨i, hi, rfl⟩ := List.mem_map.mp hr
    rw [kZC1_eq, opAntiCount_uop_hit, opAntiCount_constOp_hit]
    exact parity1 _ (fun j k hj hk => rect_Z hx hy hz hb j k hj hk) hj0 (List.mem_range.mp hi)
  · -- Z̄_{C2}(t): the z-lines at (0, 0) and (0, t)
    obtain ⟨k0, hk0, hk0', rfl⟩ := even_nat_of_mem2 ht
    obtain ⟨h1, h2, h3⟩ := reps2 (sysZ (Lx := Lx) (Ly := Ly) (Lz := Lz)) hk0 hk0' Pauli.Z
    refine ⟨_, by rw [h1]; omega, h2, h3, ?_⟩
    intro b _ _ hb r hr
    obtain ⟨i, hi, rfl⟩ := List.mem_map.mp hr
    rw [kZC2_eq, opAntiCount_uop_hit, opAntiCount_constOp_hit]
    exact parity2 _ (fun j k hj hk => rect_Z hx hy hz hb j k hj hk) hk0 (List.mem_range.mp hi)

end Panqec.XCubeCode
