/-
From the operator-level independence certificate (`IndepGenerators`, `Proofs/Lat2DRank.lean`)
to the list-level rank clause on the assembled parity-check matrix, and from there — through
the generic bridge `Proofs/OpComm.lean` (`symp_opRow`, `Lattice.rowsH`, `commPairL_rows`,
`validCodeL_of_lattice_exists`) — to `ValidCodeL`:

  `Lattice.WF` + `Lattice.CommPair` + an independent sub-family of `n − k` generators
    ⇒ `HasRank (2n) l.rowsH (n − k)` ⇒ the assembled matrices are a valid `[[n, k]]` code.

Generic in the lattice (nothing 2-D specific here).
-/
import PanqecVerif.Proofs.Lat2DRank
import PanqecVerif.Proofs.Mask2
import PanqecVerif.Proofs.OpComm

namespace Panqec.Lat2D
open Module

theorem sum_map_mod2 (T : List Coord) (f : Coord → Nat) :
    (T.map f).sum % 2 = (T.map fun q => f q % 2).sum % 2 := by
  induction T with
  | nil => rfl
  | cons q T ih => simp only [List.map_cons, List.sum_cons]; omega

/-- the members of `ss` flagged by `bs` -/
def pick : List Bool → List Coord → List Coord
  | b :: bs, s :: ss => if b then s :: pick bs ss else pick bs ss
  | _, _ => []

theorem pick_sublist : ∀ (bs : List Bool) (ss : List Coord), (pick bs ss).Sublist ss
  | [], ss => by simp [pick]
  | _ :: _, [] => by simp [pick]
  | b :: bs, s :: ss => by
    unfold pick
    cases b
    · simpa using (pick_sublist bs ss).cons s
    · simpa using (pick_sublist bs ss).cons_cons s

theorem pick_ne_nil : ∀ (bs : List Bool) (ss : List Coord), bs.length = ss.length →
    (∃ b ∈ bs, b = true) → pick bs ss ≠ []
  | [], _, _, h => by obtain ⟨b, hb, _⟩ := h; simp at hb
  | b :: bs, [], h, _ => by simp at h
  | b :: bs, s :: ss, h, hex => by
    unfold pick
    cases b
    · simp only [Bool.false_eq_true, if_false]
      apply pick_ne_nil bs ss (by simpa using h)
      obtain ⟨b', hb', ht⟩ := hex
      rcases List.mem_cons.mp hb' with e | e
      · rw [e] at ht; exact absurd ht (by decide)
      · exact ⟨b', e, ht⟩
    · simp

theorem sympCombo_pick (d : List Nat) (f : Coord → List Nat) :
    ∀ (bs : List Bool) (ss : List Coord),
      sympCombo d bs (ss.map f) = ((pick bs ss).map fun t => symp (f t) d).sum
  | [], ss => by cases ss <;> simp [sympCombo, pick]
  | _ :: _, [] => by simp [sympCombo, pick]
  | b :: bs, s :: ss => by
    have ih := sympCombo_pick d f bs ss
    cases b
    · simp [sympCombo, pick, ih]
    · simp [sympCombo, pick, ih]

/-- the rows of an operator-level independent family of generators are GF(2)-independent -/
theorem indep_rows (l : Lattice) (hwf : l.WF) (sel : List Coord) (hsub : sel.Sublist l.stabs)
    (hind : IndepGenerators l sel) :
    Indep (2 * l.qubits.length) ((sel.map l.getStab).map (opRow l.qubits)) := by
  intro bs hlen hx b hb
  cases hbt : b with
  | false => rfl
  | true =>
    exfalso
    rw [List.length_map, List.length_map] at hlen
    let T := pick bs sel
    have hTsub : T.Sublist sel := pick_sublist bs sel
    have hTnd : T.Nodup := (hwf.stabs_nodup.sublist hsub).sublist hTsub
    have hTne : T ≠ [] := pick_ne_nil bs sel hlen ⟨b, hb, hbt⟩
    obtain ⟨d, hdk, hds, hodd⟩ := hind T hTnd (fun t ht => hTsub.subset ht) hTne
    rw [List.map_map] at hx
    have hrows : ∀ r ∈ sel.map (opRow l.qubits ∘ l.getStab), r.length = 2 * l.qubits.length := by
      intro r hr
      rw [List.mem_map] at hr
      obtain ⟨s, _, rfl⟩ := hr
      exact opRow_length _ _
    have h1 := symp_xorCombo (2 * l.qubits.length) (opRow l.qubits d) bs _ hrows
    rw [hx, symp_vzero_left, sympCombo_pick] at h1
    have h2 : ((pick bs sel).map fun t =>
          symp ((opRow l.qubits ∘ l.getStab) t) (opRow l.qubits d))
        = (pick bs sel).map fun t => opAntiCount d (l.getStab t) % 2 := by
      apply List.map_congr_left
      intro t ht
      rw [symp_comm]
      exact symp_opRow l.qubits hwf.qubits_nodup d _ hdk (Lattice.WF.opSupported_of hds)
    rw [h2, ← sum_map_mod2] at h1
    change 0 = (T.map fun t => opAntiCount d (l.getStab t)).sum % 2 at h1
    omega

/-- an independent sub-family of `n − k` rows of a commuting/pairing code has the full rank -/
theorem hasRank_of_indep_sublist {n k : Nat} {H Lx Lz basis : List (List Nat)}
    (hc : CommPairL n k H Lx Lz) (hsub : basis.Sublist H) (hind : Indep (2 * n) basis)
    (hlen : basis.length = n - k) : HasRank (2 * n) H (n - k) := by
  have hwfb : WFRows n basis := fun r hr => hc.wfH r (hsub.subset hr)
  have hb : ∀ r ∈ basis, r.length = 2 * n := fun r hr => (hwfb r hr).1
  refine ⟨basis, hsub, hlen, hind, ?_⟩
  have hle : rowSpan n basis ≤ rowSpan n H := rowSpan_mono_of_subset (fun r hr => hsub.subset hr)
  have hfb : finrank (ZMod 2) (rowSpan n basis) = n - k := by
    rw [finrank_rowSpan_of_hasRank hb (hasRank_of_indep hwfb hind), hlen]
  have hfH : finrank (ZMod 2) (rowSpan n H) ≤ n - k := hc.finrank_rowSpan_le
  have heq : rowSpan n basis = rowSpan n H :=
    Submodule.eq_of_le_of_finrank_le hle (by rw [hfb]; exact hfH)
  intro v hv
  have hvw := hc.wfH v hv
  rw [inSpan_iff_mem_rowSpan hb hvw.1 hvw.2, heq]
  exact toVec_mem_rowSpan n H v hv

/-- the rank clause on the assembled parity-check matrix from the operator-level certificate -/
theorem hasRank_of_indepGenerators (l : Lattice) (hwf : l.WF) (hcp : l.CommPair)
    (sel : List Coord) (hsub : sel.Sublist l.stabs) (hind : IndepGenerators l sel)
    (hcount : sel.length + l.logX.length = l.qubits.length) :
    HasRank (2 * l.qubits.length) l.rowsH (l.qubits.length - l.logX.length) := by
  apply hasRank_of_indep_sublist (Lattice.commPairL_rows hwf hcp)
    ((hsub.map l.getStab).map (opRow l.qubits)) (indep_rows l hwf sel hsub hind)
  rw [List.length_map, List.length_map]
  omega

/-- a well-formed lattice model with the operator-level commutation/pairing clauses and an
    independent sub-family of `n − k` generators assembles into a valid `[[n, k]]` code -/
theorem validCode_of_lattice (l : Lattice) (hwf : l.WF) (hcp : l.CommPair) (sel : List Coord)
    (hsub : sel.Sublist l.stabs) (hind : IndepGenerators l sel)
    (hcount : sel.length + l.logX.length = l.qubits.length) :
    stabilizerMatrix l.toCodeData = some l.rowsH ∧
    logicalsX l.toCodeData = some l.rowsX ∧
    logicalsZ l.toCodeData = some l.rowsZ ∧
    ValidCodeL l.toCodeData.n l.toCodeData.k l.rowsH l.rowsX l.rowsZ :=
  ⟨Lattice.stabilizerMatrix_eq hwf, Lattice.logicalsX_eq hwf, Lattice.logicalsZ_eq hwf,
    (Lattice.commPairL_rows hwf hcp).toValid
      (hasRank_of_indepGenerators l hwf hcp sel hsub hind hcount)⟩

end Panqec.Lat2D
