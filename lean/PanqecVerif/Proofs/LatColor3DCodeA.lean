/-
Color3DCode: arithmetic description of the stabilizer list (nine boxes, pairwise disjoint by their
residues modulo 4; count `8·LxLyLz + (2Lx+1)(2Ly+1)(2Lz+1)`), of `stabilizer_type` (the colour table
is never missed), of the delta table (`shape`, a function of the residues modulo 4) and of
`get_stabilizer` (the wrapped deltas, no duplicate key when every side is `≥ 2`).  Core Lean only.
-/
import PanqecVerif.Proofs.LatColor3DCodeWrap

set_option linter.unusedVariables false

namespace Panqec.Color3DCode
open Panqec.Lat2D Panqec.Color

/-! ### ranges -/

def InA (L : Nat) (v : Int) : Prop := 2 ≤ v ∧ v < 4 * (L : Int) ∧ v % 4 = 2
def InB (L : Nat) (v : Int) : Prop := 4 ≤ v ∧ v ≤ 4 * (L : Int) ∧ v % 4 = 0
def InC (L : Nat) (v : Int) : Prop := 0 ≤ v ∧ v < 4 * (L : Int) ∧ v % 4 = 0
def InH (L : Nat) (v : Int) : Prop := 1 ≤ v ∧ v ≤ 4 * (L : Int) + 1 ∧ v % 2 = 1

instance (L : Nat) (v : Int) : Decidable (InA L v) := by unfold InA; infer_instance
instance (L : Nat) (v : Int) : Decidable (InB L v) := by unfold InB; infer_instance
instance (L : Nat) (v : Int) : Decidable (InC L v) := by unfold InC; infer_instance
instance (L : Nat) (v : Int) : Decidable (InH L v) := by unfold InH; infer_instance

theorem mem_rA {L : Nat} {v : Int} : v ∈ rA L ↔ InA L v := by
  unfold rA InA; rw [mem_pyRangeStep4]; omega
theorem mem_rB {L : Nat} {v : Int} : v ∈ rB L ↔ InB L v := by
  unfold rB InB; rw [mem_pyRangeStep4]; omega
theorem mem_rC {L : Nat} {v : Int} : v ∈ rC L ↔ InC L v := by
  unfold rC InC; rw [mem_pyRangeStep4]; omega
/-- `range(2, 4L+1, 4)` has the same members as `range(2, 4L, 4)` -/
theorem mem_rD {L : Nat} {v : Int} : v ∈ rD L ↔ InA L v := by
  unfold rD InA; rw [mem_pyRangeStep4]; omega
theorem mem_rH {L : Nat} {v : Int} : v ∈ rH L ↔ InH L v := by
  unfold rH InH; rw [mem_pyRangeStep2]; omega

theorem length_pyRangeStep (a : Nat) (b : Int) (step : Nat) :
    (pyRangeStep a b step).length = ((b - (a : Int)).toNat + step - 1) / step := by
  simp [pyRangeStep]

theorem length_rA (L : Nat) : (rA L).length = L := by
  unfold rA; rw [length_pyRangeStep]; omega
theorem length_rB (L : Nat) : (rB L).length = L := by
  unfold rB; rw [length_pyRangeStep]; omega
theorem length_rC (L : Nat) : (rC L).length = L := by
  unfold rC; rw [length_pyRangeStep]; omega
theorem length_rD (L : Nat) : (rD L).length = L := by
  unfold rD; rw [length_pyRangeStep]; omega
theorem length_rH (L : Nat) : (rH L).length = 2 * L + 1 := by
  unfold rH; rw [length_pyRangeStep]; omega

/-! ### the triple loop -/

theorem mem_grid3 {zs xs ys : List Int} {q : Coord} :
    q ∈ grid3 zs xs ys ↔ ∃ x y z, q = [x, y, z] ∧ x ∈ xs ∧ y ∈ ys ∧ z ∈ zs := by
  unfold grid3
  simp only [List.mem_flatMap, List.mem_map]
  constructor
  · rintro ⟨z, hz, x, hx, y, hy, rfl⟩; exact ⟨x, y, z, rfl, hx, hy, hz⟩
  · rintro ⟨x, y, z, rfl, hx, hy, hz⟩; exact ⟨z, hz, x, hx, y, hy, rfl⟩

theorem nodup_grid3 {zs xs ys : List Int} (hz : zs.Nodup) (hx : xs.Nodup) (hy : ys.Nodup) :
    (grid3 zs xs ys).Nodup := by
  unfold grid3
  show List.Pairwise _ _
  rw [List.pairwise_flatMap]
  constructor
  · intro z _
    rw [List.pairwise_flatMap]
    constructor
    · intro x _
      rw [List.pairwise_map]
      exact hy.imp (fun h h' => h (by simpa using h'))
    · refine List.Pairwise.imp ?_ hx
      intro a b hab q hq r hr
      simp only [List.mem_map] at hq hr
      obtain ⟨y, _, rfl⟩ := hq
      obtain ⟨y', _, rfl⟩ := hr
      intro h
      apply hab
      simpa using (List.cons.inj h).1
  · refine List.Pairwise.imp ?_ hz
    intro a b hab q hq r hr
    simp only [List.mem_flatMap, List.mem_map] at hq hr
    obtain ⟨x, _, y, _, rfl⟩ := hq
    obtain ⟨x', _, y', _, rfl⟩ := hr
    intro h
    apply hab
    simp only [List.cons.injEq, and_true] at h
    exact h.2.2

theorem length_grid2 (z : Int) (xs ys : List Int) :
    (xs.flatMap fun x => ys.map fun y => [x, y, z]).length = xs.length * ys.length := by
  induction xs with
  | nil => simp
  | cons x xs ih2 =>
    rw [List.flatMap_cons, List.length_append, ih2, List.length_map, List.length_cons,
      Nat.add_mul, Nat.one_mul, Nat.add_comm]

theorem length_grid3 (zs xs ys : List Int) :
    (grid3 zs xs ys).length = zs.length * (xs.length * ys.length) := by
  unfold grid3
  induction zs with
  | nil => simp
  | cons z zs ih =>
    rw [List.flatMap_cons, List.length_append, ih, length_grid2, List.length_cons, Nat.add_mul,
      Nat.one_mul, Nat.add_comm]

/-! ### the stabilizer list -/

/-- `(x, y, z)` is in the `i`-th box of `get_stabilizer_coordinates` -/
def IsS (Lx Ly Lz : Nat) (x y z : Int) : Prop :=
  (InA Lx x ∧ InA Ly y ∧ InA Lz z) ∨ (InB Lx x ∧ InB Ly y ∧ InB Lz z) ∨
  (InA Lx x ∧ InA Ly y ∧ InC Lz z) ∨ (InC Lx x ∧ InA Ly y ∧ InA Lz z) ∨
  (InA Lx x ∧ InC Ly y ∧ InA Lz z) ∨ (InB Lx x ∧ InB Ly y ∧ InA Lz z) ∨
  (InA Lx x ∧ InB Ly y ∧ InB Lz z) ∨ (InB Lx x ∧ InA Ly y ∧ InB Lz z) ∨
  (InH Lx x ∧ InH Ly y ∧ InH Lz z)

instance (Lx Ly Lz : Nat) (x y z : Int) : Decidable (IsS Lx Ly Lz x y z) := by
  unfold IsS; infer_instance

theorem mem_stabs {Lx Ly Lz : Nat} {q : Coord} :
    q ∈ stabs Lx Ly Lz ↔ ∃ x y z, q = [x, y, z] ∧ IsS Lx Ly Lz x y z := by
  unfold stabs IsS
  simp only [List.mem_append, mem_grid3, mem_rA, mem_rB, mem_rC, mem_rD, mem_rH]
  constructor
  · rintro ((((((((h | h) | h) | h) | h) | h) | h) | h) | h) <;>
      obtain ⟨x, y, z, rfl, h⟩ := h <;> refine ⟨x, y, z, rfl, ?_⟩ <;> simp only [h, and_self, true_or, or_true]
  · rintro ⟨x, y, z, rfl, h | h | h | h | h | h | h | h | h⟩
    · exact Or.inl (Or.inl (Or.inl (Or.inl (Or.inl (Or.inl (Or.inl (Or.inl ⟨x, y, z, rfl, h⟩)))))))
    · exact Or.inl (Or.inl (Or.inl (Or.inl (Or.inl (Or.inl (Or.inl (Or.inr ⟨x, y, z, rfl, h⟩)))))))
    · exact Or.inl (Or.inl (Or.inl (Or.inl (Or.inl (Or.inl (Or.inr ⟨x, y, z, rfl, h⟩))))))
    · exact Or.inl (Or.inl (Or.inl (Or.inl (Or.inl (Or.inr ⟨x, y, z, rfl, h⟩)))))
    · exact Or.inl (Or.inl (Or.inl (Or.inl (Or.inr ⟨x, y, z, rfl, h⟩))))
    · exact Or.inl (Or.inl (Or.inl (Or.inr ⟨x, y, z, rfl, h⟩)))
    · exact Or.inl (Or.inl (Or.inr ⟨x, y, z, rfl, h⟩))
    · exact Or.inl (Or.inr ⟨x, y, z, rfl, h⟩)
    · exact Or.inr ⟨x, y, z, rfl, h⟩

theorem mem_stabs' {Lx Ly Lz : Nat} {x y z : Int} :
    [x, y, z] ∈ stabs Lx Ly Lz ↔ IsS Lx Ly Lz x y z := by
  rw [mem_stabs]
  constructor
  · rintro ⟨x', y', z', h, hq⟩
    simp only [List.cons.injEq, and_true] at h
    rw [h.1, h.2.1, h.2.2]; exact hq
  · intro h; exact ⟨x, y, z, rfl, h⟩

theorem isStab_iff {Lx Ly Lz : Nat} {x y z : Int} :
    isIn (stabs Lx Ly Lz) [x, y, z] = true ↔ IsS Lx Ly Lz x y z := by
  rw [isIn_iff, mem_stabs']

private theorem nd (a : Nat) (b : Int) (s : Nat) (h : 0 < s) : (pyRangeStep a b s).Nodup :=
  nodup_pyRangeStep a b s h

theorem nodup_stabs (Lx Ly Lz : Nat) : (stabs Lx Ly Lz).Nodup := by
  have hA : ∀ L, (rA L).Nodup := fun L => nd _ _ _ (by decide)
  have hB : ∀ L, (rB L).Nodup := fun L => nd _ _ _ (by decide)
  have hC : ∀ L, (rC L).Nodup := fun L => nd _ _ _ (by decide)
  have hD : ∀ L, (rD L).Nodup := fun L => nd _ _ _ (by decide)
  have hH : ∀ L, (rH L).Nodup := fun L => nd _ _ _ (by decide)
  unfold stabs
  simp only [List.nodup_append, List.mem_append, mem_grid3, mem_rA, mem_rB, mem_rC, mem_rD, mem_rH]
  refine ⟨⟨⟨⟨⟨⟨⟨⟨nodup_grid3 (hA _) (hA _) (hA _), nodup_grid3 (hB _) (hB _) (hB _), ?_⟩,
    nodup_grid3 (hC _) (hA _) (hA _), ?_⟩, nodup_grid3 (hA _) (hC _) (hA _), ?_⟩,
    nodup_grid3 (hA _) (hA _) (hC _), ?_⟩, nodup_grid3 (hD _) (hB _) (hB _), ?_⟩,
    nodup_grid3 (hB _) (hD _) (hB _), ?_⟩, nodup_grid3 (hB _) (hB _) (hD _), ?_⟩,
    nodup_grid3 (hH _) (hH _) (hH _), ?_⟩
  all_goals
    intro a ha b hb e
    subst e
    simp only [InA, InB, InC, InH] at ha hb
    rcases hb with ⟨x, y, z, rfl, hb⟩
    simp only [List.cons.injEq, and_true] at ha
  · obtain ⟨x', y', z', ⟨rfl, rfl, rfl⟩, ha⟩ := ha; omega
  · rcases ha with ha | ha <;> obtain ⟨x', y', z', ⟨rfl, rfl, rfl⟩, ha⟩ := ha <;> omega
  · rcases ha with (ha | ha) | ha <;> obtain ⟨x', y', z', ⟨rfl, rfl, rfl⟩, ha⟩ := ha <;> omega
  · rcases ha with ((ha | ha) | ha) | ha <;> obtain ⟨x', y', z', ⟨rfl, rfl, rfl⟩, ha⟩ := ha <;> omega
  · rcases ha with (((ha | ha) | ha) | ha) | ha <;>
      obtain ⟨x', y', z', ⟨rfl, rfl, rfl⟩, ha⟩ := ha <;> omega
  · rcases ha with ((((ha | ha) | ha) | ha) | ha) | ha <;>
      obtain ⟨x', y', z', ⟨rfl, rfl, rfl⟩, ha⟩ := ha <;> omega
  · rcases ha with (((((ha | ha) | ha) | ha) | ha) | ha) | ha <;>
      obtain ⟨x', y', z', ⟨rfl, rfl, rfl⟩, ha⟩ := ha <;> omega
  · rcases ha with ((((((ha | ha) | ha) | ha) | ha) | ha) | ha) | ha <;>
      obtain ⟨x', y', z', ⟨rfl, rfl, rfl⟩, ha⟩ := ha <;> omega

/-- `n_stabilizers` (every size): `2·LxLyLz` cells, `6·LxLyLz` squares, `(2Lx+1)(2Ly+1)(2Lz+1)` listed
    hexagons -/
theorem length_stabs (Lx Ly Lz : Nat) :
    (stabs Lx Ly Lz).length = 8 * (Lz * (Lx * Ly)) + (2 * Lz + 1) * ((2 * Lx + 1) * (2 * Ly + 1)) := by
  unfold stabs
  simp only [List.length_append, length_grid3, length_rA, length_rB, length_rC, length_rD, length_rH]
  omega

/-! ### `stabilizer_type` and the delta table -/

theorem cellColor_ne_keyError {x y z : Int} (h2 : x % 2 ≠ 1) (hx : x % 4 = z % 4) (hy : y % 4 = z % 4) :
    cellColor ((x + y + z) % 8) ≠ StabType.keyError := by
  have h : (x + y + z) % 8 = 6 ∨ (x + y + z) % 8 = 2 ∨ (x + y + z) % 8 = 4 ∨ (x + y + z) % 8 = 0 := by
    omega
  unfold cellColor
  rcases h with h | h | h | h <;> rw [h] <;> simp

/-- the colour table is never missed: `stabilizer_type` raises no `KeyError` -/
theorem typeOf_ne_keyError (x y z : Int) : typeOf x y z ≠ StabType.keyError := by
  unfold typeOf
  by_cases h2 : x % 2 = 1
  · rw [if_pos h2]; simp
  · rw [if_neg h2]
    by_cases hc : x % 4 = z % 4 ∧ y % 4 = z % 4
    · rw [if_pos hc]; exact cellColor_ne_keyError h2 hc.1 hc.2
    · rw [if_neg hc]; simp

/-- the location is a cell centre: the three coordinates are even and congruent modulo 4 -/
def IsCellLoc (x y z : Int) : Prop := x % 2 ≠ 1 ∧ x % 4 = z % 4 ∧ y % 4 = z % 4

instance (x y z : Int) : Decidable (IsCellLoc x y z) := by unfold IsCellLoc; infer_instance

theorem isCell_iff (x y z : Int) : (typeOf x y z).isCell = true ↔ IsCellLoc x y z := by
  unfold typeOf IsCellLoc
  by_cases h2 : x % 2 = 1
  · rw [if_pos h2]; simp [StabType.isCell, h2]
  · rw [if_neg h2]
    by_cases hc : x % 4 = z % 4 ∧ y % 4 = z % 4
    · rw [if_pos hc]
      have hk := cellColor_ne_keyError h2 hc.1 hc.2
      have h : (x + y + z) % 8 = 6 ∨ (x + y + z) % 8 = 2 ∨ (x + y + z) % 8 = 4 ∨
          (x + y + z) % 8 = 0 := by omega
      unfold cellColor
      rcases h with h | h | h | h <;> rw [h] <;> simp [StabType.isCell, h2, hc.1, hc.2]
    · rw [if_neg hc]
      simp only [StabType.isCell, Bool.false_eq_true, false_iff, not_and]
      intro _ h3 h4; exact hc ⟨h3, h4⟩

/-- the delta table as a function of the coordinates -/
def shape (x y z : Int) : List D3 :=
  if x % 2 = 1 then deltaHex x y z
  else if x % 4 = z % 4 ∧ y % 4 = z % 4 then deltaCell
  else deltaSquare x y z

theorem deltaOf_eq_shape (x y z : Int) : deltaOf x y z = shape x y z := by
  unfold deltaOf shape typeOf
  by_cases h2 : x % 2 = 1
  · simp only [if_pos h2]
  · simp only [if_neg h2]
    by_cases hc : x % 4 = z % 4 ∧ y % 4 = z % 4
    · simp only [if_pos hc]
      have h : (x + y + z) % 8 = 6 ∨ (x + y + z) % 8 = 2 ∨ (x + y + z) % 8 = 4 ∨
          (x + y + z) % 8 = 0 := by omega
      unfold cellColor
      rcases h with h | h | h | h <;> rw [h] <;> simp
    · simp only [if_neg hc]

/-- the delta table depends on the residues modulo 4 only -/
theorem shape_congr {x y z x' y' z' : Int} (hx : x % 4 = x' % 4) (hy : y % 4 = y' % 4)
    (hz : z % 4 = z' % 4) : shape x y z = shape x' y' z' := by
  have h2 : x % 2 = x' % 2 := by omega
  unfold shape deltaHex deltaSquare
  rw [hx, hy, hz, h2]

theorem letterOf_cell {x y z : Int} (h : IsCellLoc x y z) : letterOf x y z = Pauli.Z := by
  unfold letterOf; rw [if_pos ((isCell_iff x y z).mpr h)]

theorem letterOf_face {x y z : Int} (h : ¬ IsCellLoc x y z) : letterOf x y z = Pauli.X := by
  unfold letterOf
  have : ¬ (typeOf x y z).isCell = true := fun h' => h ((isCell_iff x y z).mp h')
  rw [if_neg this]

theorem letterOf_ne_I (x y z : Int) : letterOf x y z ≠ Pauli.I := by
  unfold letterOf; by_cases h : (typeOf x y z).isCell = true <;> simp [h]

/-! ### bounds and distinctness of the deltas -/

theorem deltaCell_bd : ∀ d ∈ deltaCell, Bd 2 d := by decide
theorem deltaCell_nodup : deltaCell.Nodup := by decide

theorem shape_face_bd {x y z : Int} (h : ¬ IsCellLoc x y z) : ∀ d ∈ shape x y z, Bd 1 d := by
  unfold shape deltaHex deltaSquare
  unfold IsCellLoc at h
  by_cases h2 : x % 2 = 1
  · rw [if_pos h2]
    by_cases c1 : x % 4 = z % 4 ∧ y % 4 = z % 4
    · rw [if_pos c1]; decide
    · rw [if_neg c1]
      by_cases c2 : x % 4 ≠ z % 4 ∧ y % 4 = z % 4
      · rw [if_pos c2]; decide
      · rw [if_neg c2]
        by_cases c3 : x % 4 = z % 4 ∧ y % 4 ≠ z % 4
        · rw [if_pos c3]; decide
        · rw [if_neg c3]; decide
  · rw [if_neg h2]
    have hc : ¬ (x % 4 = z % 4 ∧ y % 4 = z % 4) := fun hc => h ⟨h2, hc.1, hc.2⟩
    rw [if_neg hc]
    by_cases c1 : x % 4 = z % 4
    · rw [if_pos c1]; decide
    · rw [if_neg c1]
      by_cases c2 : y % 4 = z % 4
      · rw [if_pos c2]; decide
      · rw [if_neg c2]; decide

theorem bd_mono {d : D3} (h : Bd 1 d) : Bd 2 d := by unfold Bd at *; omega

theorem shape_bd (x y z : Int) : ∀ d ∈ shape x y z, Bd 2 d := by
  by_cases h : IsCellLoc x y z
  · unfold shape
    unfold IsCellLoc at h
    rw [if_neg h.1, if_pos ⟨h.2.1, h.2.2⟩]
    exact deltaCell_bd
  · intro d hd; exact bd_mono (shape_face_bd h d hd)

theorem shape_nodup (x y z : Int) : (shape x y z).Nodup := by
  unfold shape deltaHex deltaSquare
  by_cases h2 : x % 2 = 1
  · rw [if_pos h2]
    by_cases c1 : x % 4 = z % 4 ∧ y % 4 = z % 4
    · rw [if_pos c1]; decide
    · rw [if_neg c1]
      by_cases c2 : x % 4 ≠ z % 4 ∧ y % 4 = z % 4
      · rw [if_pos c2]; decide
      · rw [if_neg c2]
        by_cases c3 : x % 4 = z % 4 ∧ y % 4 ≠ z % 4
        · rw [if_pos c3]; decide
        · rw [if_neg c3]; decide
  · rw [if_neg h2]
    by_cases hc : x % 4 = z % 4 ∧ y % 4 = z % 4
    · rw [if_pos hc]; exact deltaCell_nodup
    · rw [if_neg hc]
      by_cases c1 : x % 4 = z % 4
      · rw [if_pos c1]; decide
      · rw [if_neg c1]
        by_cases c2 : y % 4 = z % 4
        · rw [if_pos c2]; decide
        · rw [if_neg c2]; decide

theorem shape_ne_nil (x y z : Int) : shape x y z ≠ [] := by
  unfold shape deltaHex deltaSquare deltaCell
  by_cases h2 : x % 2 = 1
  · rw [if_pos h2]
    by_cases c1 : x % 4 = z % 4 ∧ y % 4 = z % 4
    · rw [if_pos c1]; simp
    · rw [if_neg c1]
      by_cases c2 : x % 4 ≠ z % 4 ∧ y % 4 = z % 4
      · rw [if_pos c2]; simp
      · rw [if_neg c2]
        by_cases c3 : x % 4 = z % 4 ∧ y % 4 ≠ z % 4
        · rw [if_pos c3]; simp
        · rw [if_neg c3]; simp
  · rw [if_neg h2]
    by_cases hc : x % 4 = z % 4 ∧ y % 4 = z % 4
    · rw [if_pos hc]; simp
    · rw [if_neg hc]
      by_cases c1 : x % 4 = z % 4
      · rw [if_pos c1]; simp
      · rw [if_neg c1]
        by_cases c2 : y % 4 = z % 4
        · rw [if_pos c2]; simp
        · rw [if_neg c2]; simp

/-! ### `get_stabilizer` -/

/-- the keys of the generator at `(x, y, z)`, in delta order -/
def keys (Lx Ly Lz : Nat) (x y z : Int) : List Coord :=
  (shape x y z).map (wrapAt (4 * (Lx : Int)) (4 * (Ly : Int)) (4 * (Lz : Int)) x y z)

theorem nodup_keysOf {Lx Ly Lz : Nat} (hx : 2 ≤ Lx) (hy : 2 ≤ Ly) (hz : 2 ≤ Lz) (x y z : Int) :
    (keys Lx Ly Lz x y z).Nodup :=
  nodup_keys (by omega) (by omega) (by omega) x y z _ (shape_nodup x y z) (shape_bd x y z)

theorem getStabIn_eq {Lx Ly Lz : Nat} (hx : 2 ≤ Lx) (hy : 2 ≤ Ly) (hz : 2 ≤ Lz) {x y z : Int}
    (h : [x, y, z] ∈ stabs Lx Ly Lz) :
    getStabilizerIn (stabs Lx Ly Lz) Lx Ly Lz [x, y, z] =
      some ((keys Lx Ly Lz x y z).map (fun q => (q, letterOf x y z))) := by
  have hs : isIn (stabs Lx Ly Lz) [x, y, z] = true := isIn_iff.mpr h
  unfold getStabilizerIn
  simp only [hs, Bool.not_true, Bool.false_eq_true, if_false]
  rw [candidates_eq, deltaOf_eq_shape]
  show some (lineOp (keys Lx Ly Lz x y z) _) = _
  rw [lineOp_eq _ _ (nodup_keysOf hx hy hz x y z)]

theorem getStab_eq {Lx Ly Lz : Nat} (hx : 2 ≤ Lx) (hy : 2 ≤ Ly) (hz : 2 ≤ Lz) {x y z : Int}
    (h : [x, y, z] ∈ stabs Lx Ly Lz) :
    (lattice Lx Ly Lz).getStab [x, y, z] =
      (keys Lx Ly Lz x y z).map (fun q => (q, letterOf x y z)) := by
  show (getStabilizer? Lx Ly Lz [x, y, z]).getD [] = _
  unfold getStabilizer?
  rw [getStabIn_eq hx hy hz h]; rfl

theorem keys_ne_nil (Lx Ly Lz : Nat) (x y z : Int) : keys Lx Ly Lz x y z ≠ [] := by
  unfold keys
  intro h
  exact shape_ne_nil x y z (List.map_eq_nil_iff.mp h)

end Panqec.Color3DCode
