/-
Operator-level independence through a triangular family of PROBE OPERATORS (generalisation of
`Lat2D.TriangularProbes`, whose probes are single-qubit): every selected generator `s` has a Pauli
operator `probe s` on the qubits (distinct keys) that anticommutes with `s` and commutes with every
other selected generator `t` of rank `μ t ≥ μ s`.  The selected generators are then independent
(`Lat2D.IndepGenerators`).  Core Lean only.
-/
import PanqecVerif.Proofs.Lat2DRank

namespace Panqec.Lat2D

structure TriangularOpProbes (l : Lattice) (sel : List Coord) (probe : Coord → Op)
    (μ : Coord → Nat) : Prop where
  keys_nodup : ∀ s ∈ sel, ((probe s).map Prod.fst).Nodup
  on_qubits : ∀ s ∈ sel, ∀ e ∈ probe s, e.1 ∈ l.qubits ∧ e.2 ≠ Pauli.I
  diag : ∀ s ∈ sel, opAntiCount (probe s) (l.getStab s) % 2 = 1
  later : ∀ s ∈ sel, ∀ t ∈ sel, s ≠ t → μ s ≤ μ t → opAntiCount (probe s) (l.getStab t) % 2 = 0

theorem indep_of_triangularOp {l : Lattice} {sel : List Coord} {probe : Coord → Op}
    {μ : Coord → Nat} (h : TriangularOpProbes l sel probe μ) : IndepGenerators l sel := by
  intro T hnd hsub hne
  obtain ⟨t0, ht0, hmin⟩ := exists_min μ T hne
  refine ⟨probe t0, h.keys_nodup t0 (hsub t0 ht0), h.on_qubits t0 (hsub t0 ht0), ?_⟩
  apply sum_odd_single _ t0 T hnd ht0 (h.diag t0 (hsub t0 ht0))
  intro t ht hne'
  exact h.later t0 (hsub t0 ht0) t (hsub t ht) (fun e => hne' e.symm) (hmin t ht)

/-- a probe with one letter on distinct keys against a single-letter dict: the number of common
    keys if the letters anticommute -/
theorem opAntiCount_constProbe (A B : List Coord) (P Q : Pauli) :
    opAntiCount (A.map fun a => (a, P)) (B.map fun b => (b, Q)) =
      if Pauli.anti P Q = true then A.countP (fun a => decide (a ∈ B)) else 0 := by
  rw [opAntiCount_const]
  unfold interCount
  by_cases h : Pauli.anti P Q = true
  · simp only [h, if_true]
    apply List.countP_congr
    intro a _
    simp
  · simp [h]

end Panqec.Lat2D
