/-
`Planar3DCode`, every size: distinctness / disjointness of the coordinate lists, their lengths, the
uniform description of `get_stabilizer` and of the logical operators, and the clauses of
`Lattice.CommPair` assembled from the overlap lemmas.
-/
import PanqecVerif.Proofs.LatPlanar3DCodeLog

set_option linter.unusedVariables false
set_option linter.unusedSectionVars false

namespace Panqec.Planar3DCode
open Panqec.Cubic3D

theorem qubits_nodup (Lx Ly Lz : Nat) : (qubits Lx Ly Lz).Nodup := by
  unfold qubits
  have r := nodup_range2
  rw [List.nodup_append, List.nodup_append]
  refine ⟨⟨nodup_grid (r _ _) (r _ _) (r _ _), nodup_grid (r _ _) (r _ _) (r _ _), ?_⟩,
    nodup_grid (r _ _) (r _ _) (r _ _), ?_⟩
  · intro a ha b hb hab
    subst hab
    obtain ⟨x, _, y, _, z, _, rfl⟩ := mem_grid.mp ha
    simp only [mem_grid3, mem_rangeE, mem_rangeO, mem_rangeE2, mem_rangeO1, inE, inO, inE2,
      inO1] at ha hb
    omega
  · intro a ha b hb hab
    subst hab
    obtain ⟨x, _, y, _, z, _, rfl⟩ := mem_grid.mp hb
    simp only [List.mem_append, mem_grid3, mem_rangeE, mem_rangeO, mem_rangeE2, mem_rangeO1, inE,
      inO, inE2, inO1] at ha hb
    omega

theorem stabs_nodup (Lx Ly Lz : Nat) : (stabs Lx Ly Lz).Nodup := by
  unfold stabs
  have r := nodup_range2
  rw [List.nodup_append, List.nodup_append, List.nodup_append]
  refine ⟨⟨⟨nodup_grid (r _ _) (r _ _) (r _ _), nodup_grid (r _ _) (r _ _) (r _ _), ?_⟩,
    nodup_grid (r _ _) (r _ _) (r _ _), ?_⟩, nodup_grid (r _ _) (r _ _) (r _ _), ?_⟩
  · intro a ha b hb hab
    subst hab
    obtain ⟨x, _, y, _, z, _, rfl⟩ := mem_grid.mp ha
    simp only [mem_grid3, mem_rangeE, mem_rangeO, mem_rangeE2, mem_rangeO1, inE, inO, inE2,
      inO1] at ha hb
    omega
  · intro a ha b hb hab
    subst hab
    obtain ⟨x, _, y, _, z, _, rfl⟩ := mem_grid.mp hb
    simp only [List.mem_append, mem_grid3, mem_rangeE, mem_rangeO, mem_rangeE2, mem_rangeO1, inE,
      inO, inE2, inO1] at ha hb
    omega
  · intro a ha b hb hab
    subst hab
    obtain ⟨x, _, y, _, z, _, rfl⟩ := mem_grid.mp hb
    simp only [List.mem_append, mem_grid3, mem_rangeE, mem_rangeO, mem_rangeE2, mem_rangeO1, inE,
      inO, inE2, inO1] at ha hb
    omega

theorem qubits_not_stabs {Lx Ly Lz : Nat} {q : Coord} (h : q ∈ qubits Lx Ly Lz) :
    q ∉ stabs Lx Ly Lz := by
  obtain ⟨x, y, z, rfl⟩ := shape_of_mem_qubits h
  rw [mem_qubits] at h
  rw [mem_stabs]
  simp only [inE, inO, inE2, inO1] at h ⊢; omega

theorem qubits_length (Lx Ly Lz : Nat) : (qubits Lx Ly Lz).length =
    Lx * Ly * Lz + (Lx - 1) * (Ly - 1) * Lz + (Lx - 1) * Ly * (Lz - 1) := by
  simp only [qubits, List.length_append, length_grid, length_rangeE, length_rangeO, length_rangeE2,
    length_rangeO1]

theorem stabs_length (Lx Ly Lz : Nat) : (stabs Lx Ly Lz).length =
    (Lx - 1) * Ly * Lz + Lx * (Ly - 1) * Lz + (Lx - 1) * (Ly - 1) * (Lz - 1) +
      Lx * Ly * (Lz - 1) := by
  simp only [stabs, List.length_append, length_grid, length_rangeE, length_rangeO, length_rangeE2,
    length_rangeO1]

/-- a stabilizer generator is either a vertex operator (letter Z) or a face operator (letter X)
    that overlaps every vertex operator and the logical Z plane on an even number of qubits -/
theorem getStab_kind {Lx Ly Lz : Nat} (hLx : 1 ≤ Lx) {s : Coord} (hs : s ∈ stabs Lx Ly Lz) :
    (∃ x y z, isVertex Lx Ly Lz x y z ∧
      getStab Lx Ly Lz s = uop (vertexKeys Lx Ly Lz x y z) Pauli.Z) ∨
    (∃ ks, getStab Lx Ly Lz s = uop ks Pauli.X ∧ ks.Nodup ∧ (∀ q ∈ ks, q ∈ qubits Lx Ly Lz) ∧
      ks ≠ [] ∧
      (∀ x y z, isVertex Lx Ly Lz x y z → ov (vertexKeys Lx Ly Lz x y z) ks % 2 = 0) ∧
      ov ks (lzK Ly Lz) % 2 = 0) := by
  obtain ⟨x, y, z, rfl, h | h | h | h⟩ := stab_cases hs
  · exact Or.inl ⟨x, y, z, h, getStab_vertex h⟩
  · exact Or.inr ⟨_, getStab_faceXY h, faceXYKeys_nodup _ _ _ _ _ _, faceXYKeys_sub _ _ _ _ _ _,
      faceXYKeys_ne_nil h, fun _ _ _ hv => ov_vertex_faceXY hv h, ov_faceXY_lzK hLx h⟩
  · exact Or.inr ⟨_, getStab_faceYZ h, faceYZKeys_nodup _ _ _ _ _ _, faceYZKeys_sub _ _ _ _ _ _,
      faceYZKeys_ne_nil h, fun _ _ _ hv => ov_vertex_faceYZ hv h, ov_faceYZ_lzK hLx h⟩
  · exact Or.inr ⟨_, getStab_faceXZ h, faceXZKeys_nodup _ _ _ _ _ _, faceXZKeys_sub _ _ _ _ _ _,
      faceXZKeys_ne_nil h, fun _ _ _ hv => ov_vertex_faceXZ hv h, ov_faceXZ_lzK hLx h⟩

/-- every stabilizer generator is a one-letter operator on a non-empty list of distinct qubits -/
theorem getStab_form {Lx Ly Lz : Nat} (hLx : 1 ≤ Lx) {s : Coord} (hs : s ∈ stabs Lx Ly Lz) :
    ∃ ks p, getStab Lx Ly Lz s = uop ks p ∧ ks.Nodup ∧ (∀ q ∈ ks, q ∈ qubits Lx Ly Lz) ∧
      ks ≠ [] ∧ p ≠ Pauli.I := by
  rcases getStab_kind hLx hs with ⟨x, y, z, hv, e⟩ | ⟨ks, e, hn, hsub, hne, _⟩
  · exact ⟨_, _, e, vertexKeys_nodup _ _ _ _ _ _, vertexKeys_sub _ _ _ _ _ _,
      vertexKeys_ne_nil hv, by decide⟩
  · exact ⟨_, _, e, hn, hsub, hne, by decide⟩

/-- every logical operator is a one-letter operator on a list of distinct qubits -/
theorem logical_form {Lx Ly Lz : Nat} (hLx : 1 ≤ Lx) (hLy : 1 ≤ Ly) (hLz : 1 ≤ Lz) {a : Op}
    (ha : a ∈ logX Lx Ly Lz ++ logZ Lx Ly Lz) :
    ∃ ks p, a = uop ks p ∧ ks.Nodup ∧ (∀ q ∈ ks, q ∈ qubits Lx Ly Lz) ∧ p ≠ Pauli.I := by
  rw [logX_eq, logZ_eq] at ha
  simp only [List.cons_append, List.nil_append, List.mem_cons, List.not_mem_nil, or_false] at ha
  rcases ha with rfl | rfl
  · exact ⟨_, _, rfl, lxK_nodup _, lxK_sub hLy hLz, by decide⟩
  · exact ⟨_, _, rfl, lzK_nodup _ _, lzK_sub hLx, by decide⟩

section
variable {Lx Ly Lz : Nat} (hLx : 1 ≤ Lx) (hLy : 1 ≤ Ly) (hLz : 1 ≤ Lz)
include hLx hLy hLz

theorem stab_comm {s t : Coord} (hs : s ∈ stabs Lx Ly Lz) (ht : t ∈ stabs Lx Ly Lz) :
    opCommute (getStab Lx Ly Lz s) (getStab Lx Ly Lz t) = true := by
  rcases getStab_kind hLx hs with ⟨x, y, z, hv, e⟩ | ⟨ks, e, hn, _, _, hov, _⟩ <;>
    rcases getStab_kind hLx ht with ⟨x', y', z', hv', e'⟩ | ⟨ks', e', hn', _, _, hov', _⟩ <;>
    rw [e, e']
  · exact opCommute_uop_same _ _ _
  · exact opCommute_uop_of_even _ _ (hov' _ _ _ hv)
  · refine opCommute_uop_of_even _ _ ?_
    rw [ov_comm hn (vertexKeys_nodup _ _ _ _ _ _)]
    exact hov _ _ _ hv'
  · exact opCommute_uop_same _ _ _

theorem logX_comm {a : Op} (ha : a ∈ logX Lx Ly Lz) {s : Coord} (hs : s ∈ stabs Lx Ly Lz) :
    opCommute a (getStab Lx Ly Lz s) = true := by
  rw [logX_eq] at ha
  simp only [List.mem_cons, List.not_mem_nil, or_false] at ha
  subst ha
  rcases getStab_kind hLx hs with ⟨x, y, z, hv, e⟩ | ⟨ks, e, _⟩ <;> rw [e]
  · refine opCommute_uop_of_even _ _ ?_
    rw [ov_comm (lxK_nodup _) (vertexKeys_nodup _ _ _ _ _ _)]
    exact ov_vertex_lxK hLy hLz hv
  · exact opCommute_uop_same _ _ _

theorem logZ_comm {a : Op} (ha : a ∈ logZ Lx Ly Lz) {s : Coord} (hs : s ∈ stabs Lx Ly Lz) :
    opCommute a (getStab Lx Ly Lz s) = true := by
  rw [logZ_eq] at ha
  simp only [List.mem_cons, List.not_mem_nil, or_false] at ha
  subst ha
  rcases getStab_kind hLx hs with ⟨x, y, z, hv, e⟩ | ⟨ks, e, hn, _, _, _, h0⟩ <;> rw [e]
  · exact opCommute_uop_same _ _ _
  · refine opCommute_uop_of_even _ _ ?_
    rw [ov_comm (lzK_nodup _ _) hn]; exact h0

theorem pairing (i j : Nat) (hi : i < 1) (hj : j < 1) :
    opAntiCount ((logX Lx Ly Lz).getD i []) ((logZ Lx Ly Lz).getD j []) % 2 =
      if i = j then 1 else 0 := by
  rw [logX_eq, logZ_eq]
  have hanti : Pauli.anti Pauli.X Pauli.Z = true := rfl
  obtain rfl : i = 0 := by omega
  obtain rfl : j = 0 := by omega
  simp [opAntiCount_uop, hanti, ov_lxK_lzK hLx hLy hLz]

end

theorem logXX {Lx Ly Lz : Nat} {a b : Op} (ha : a ∈ logX Lx Ly Lz) (hb : b ∈ logX Lx Ly Lz) :
    opCommute a b = true := by
  rw [logX_eq] at ha hb
  simp only [List.mem_cons, List.not_mem_nil, or_false] at ha hb
  subst ha; subst hb
  exact opCommute_uop_same _ _ _

theorem logZZ {Lx Ly Lz : Nat} {a b : Op} (ha : a ∈ logZ Lx Ly Lz) (hb : b ∈ logZ Lx Ly Lz) :
    opCommute a b = true := by
  rw [logZ_eq] at ha hb
  simp only [List.mem_cons, List.not_mem_nil, or_false] at ha hb
  subst ha; subst hb
  exact opCommute_uop_same _ _ _

/-- `qubit_axis` on the three blocks of `get_qubit_coordinates` -/
theorem qubitAxis_of_mem_qubits {Lx Ly Lz : Nat} {x y z : Int} (h : [x, y, z] ∈ qubits Lx Ly Lz) :
    qubitAxis [x, y, z] =
      some (if x % 2 = 1 then Axis.x else if y % 2 = 1 then Axis.y else Axis.z) := by
  rw [mem_qubits] at h
  simp only [inE, inO, inE2, inO1] at h
  unfold qubitAxis
  rcases h with ⟨hx, hy, hz⟩ | ⟨hx, hy, hz⟩ | ⟨hx, hy, hz⟩
  · rw [Cubic3D.qubitAxis_x hx.2.2 hy.2.2 hz.2.2]; simp [hx.2.2]
  · rw [Cubic3D.qubitAxis_y hx.2.2 hy.2.2 hz.2.2]; simp [hx.2.2, hy.2.2]
  · rw [Cubic3D.qubitAxis_z hx.2.2 hy.2.2 hz.2.2]; simp [hx.2.2, hy.2.2]

/-- `stabilizer_type` and the letter / weight bound of `get_stabilizer` for the four kinds -/
theorem stab_shape {Lx Ly Lz : Nat} {s : Coord} (hs : s ∈ stabs Lx Ly Lz) :
    (stabilizerType Lx Ly Lz s = some StabType.vertex ∧
      ∃ ks, getStab Lx Ly Lz s = uop ks Pauli.Z ∧ ks.length ≤ 6) ∨
    (stabilizerType Lx Ly Lz s = some StabType.face ∧
      ∃ ks, getStab Lx Ly Lz s = uop ks Pauli.X ∧ ks.length ≤ 4) := by
  obtain ⟨x, y, z, rfl, h | h | h | h⟩ := stab_cases hs
  · left
    refine ⟨?_, _, getStab_vertex h, List.length_filter_le _ _⟩
    obtain ⟨hx, hy, _⟩ := h
    simp only [inE, inE2] at hx hy
    simp [stabilizerType, hs, typeOf, hx.2.2, hy.2.2]
  · right
    refine ⟨?_, _, getStab_faceXY h, List.length_filter_le _ _⟩
    obtain ⟨hx, hy, _⟩ := h
    simp only [inO, inO1] at hx hy
    simp [stabilizerType, hs, typeOf, hx.2.2, hy.2.2]
  · right
    refine ⟨?_, _, getStab_faceYZ h, List.length_filter_le _ _⟩
    obtain ⟨hx, hy, _⟩ := h
    simp only [inE2, inO] at hx hy
    simp [stabilizerType, hs, typeOf, hx.2.2, hy.2.2]
  · right
    refine ⟨?_, _, getStab_faceXZ h, List.length_filter_le _ _⟩
    obtain ⟨hx, hy, _⟩ := h
    simp only [inO1, inE] at hx hy
    simp [stabilizerType, hs, typeOf, hx.2.2, hy.2.2]

/-! ### the fields of `lattice` as rewrite rules -/

theorem lattice_qubits (Lx Ly Lz : Nat) : (lattice Lx Ly Lz).qubits = qubits Lx Ly Lz := by
  simp only [lattice]
theorem lattice_stabs (Lx Ly Lz : Nat) : (lattice Lx Ly Lz).stabs = stabs Lx Ly Lz := by
  simp only [lattice]
theorem lattice_getStab (Lx Ly Lz : Nat) : (lattice Lx Ly Lz).getStab = getStab Lx Ly Lz := by
  simp only [lattice]
theorem lattice_logX (Lx Ly Lz : Nat) : (lattice Lx Ly Lz).logX = logX Lx Ly Lz := by
  simp only [lattice]
theorem lattice_logZ (Lx Ly Lz : Nat) : (lattice Lx Ly Lz).logZ = logZ Lx Ly Lz := by
  simp only [lattice]

end Panqec.Planar3DCode
