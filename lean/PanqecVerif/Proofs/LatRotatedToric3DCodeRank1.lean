/-
`RotatedToric3DCode`, supported family, rank clause (1/3): which generators act on a given qubit
with a given component.  Every generator is a signed operator (`Signed`, `Kind`): on a candidate
`(q, σ)` that is a qubit it writes Z when `σ = col q` and X otherwise.  Hence a generator has the
component `σ != col q` (X if true) on `q` iff `(q, σ)` is one of its signed candidates
(`hit_signed`), and the candidates containing a given horizontal / vertical qubit are listed by
`hitters_h` / `hitters_v`: the two layer generators on the main (σ = true) or anti (σ = false)
diagonal through the qubit and, for the sign `(f + g) % 4 = 2`, the vertical faces above and below
it; the vertices above and below a vertical qubit for σ = true.
-/
import PanqecVerif.Proofs.LatRotatedToric3DCode9
import PanqecVerif.Proofs.LatCubic3DRank
open Panqec Panqec.Lat3Db
namespace Panqec.RotatedToric3DCode

set_option linter.unusedVariables false
set_option linter.unusedSimpArgs false

theorem dl_eq_X (σ : Bool) (q : Coord) : dl σ q = Pauli.X ↔ (σ != col q) = true := by
  unfold dl; cases σ <;> cases col q <;> simp
theorem dl_eq_Z (σ : Bool) (q : Coord) : dl σ q = Pauli.Z ↔ (σ != col q) = false := by
  unfold dl; cases σ <;> cases col q <;> simp
theorem dl_ne_Y (σ : Bool) (q : Coord) : dl σ q ≠ Pauli.Y := by
  unfold dl; split <;> decide

theorem hit_gop (b : Bool) (ks : List Coord) (g : Coord → Pauli) (q : Coord) :
    Cubic3D.hit b (gop ks g) q = true ↔
      q ∈ ks ∧ (if b then g q = Pauli.X ∨ g q = Pauli.Y else g q = Pauli.Z ∨ g q = Pauli.Y) := by
  unfold Cubic3D.hit Cubic3D.hitX Cubic3D.hitZ
  rw [gop_get?]
  by_cases hq : q ∈ ks
  · simp only [hq, if_true, true_and]
    cases b <;> cases g q <;> simp
  · simp only [hq, if_false, false_and]
    cases b <;> simp

/-- a signed generator has the component `σ != col q` on `q` iff `(q, σ)` is one of its
    candidates and `q` is a qubit -/
theorem hit_signed {Lx Ly Lz : Nat} {op : Op} {K : List (Coord × Bool)} (h : Signed Lx Ly Lz op K)
    (q : Coord) (σ : Bool) :
    Cubic3D.hit (σ != col q) op q = true ↔ isQubit Lx Ly Lz q = true ∧ (q, σ) ∈ K := by
  obtain ⟨g, rfl, hg⟩ := h.eq
  rw [hit_gop]
  simp only [List.mem_filter, List.mem_map]
  constructor
  · rintro ⟨⟨⟨e, he, rfl⟩, hq⟩, hl⟩
    refine ⟨hq, ?_⟩
    have hge := hg e he
    have : e.2 = σ := by
      rw [hge] at hl
      by_cases hb : (σ != col e.1) = true
      · rw [if_pos hb] at hl
        rcases hl with hl | hl
        · have := (dl_eq_X _ _).mp hl
          revert this hb; cases e.2 <;> cases σ <;> cases col e.1 <;> simp
        · exact absurd hl (dl_ne_Y _ _)
      · rw [if_neg hb] at hl
        rcases hl with hl | hl
        · have := (dl_eq_Z _ _).mp hl
          revert this hb; cases e.2 <;> cases σ <;> cases col e.1 <;> simp
        · exact absurd hl (dl_ne_Y _ _)
    rw [← this]; exact he
  · rintro ⟨hq, hm⟩
    refine ⟨⟨⟨(q, σ), hm, rfl⟩, hq⟩, ?_⟩
    have hge : g q = dl σ q := hg (q, σ) hm
    rw [hge]
    by_cases hb : (σ != col q) = true
    · rw [if_pos hb]; exact Or.inl ((dl_eq_X _ _).mpr hb)
    · rw [if_neg hb]; exact Or.inl ((dl_eq_Z _ _).mpr (by simpa using hb))

/-- the generators with the signed candidate `([f, g, c], σ)`, a horizontal qubit: the two layer
    generators on the diagonal of sign `σ` through it, or the vertical faces above and below it
    when `σ` is the sign `(f + g) % 4 = 2` -/
theorem hitters_h {Lx Ly Lz : Nat} (hF : Fam Lx Ly) {t : Coord} {K : List (Coord × Bool)}
    (hk : Kind Lx Ly Lz t K) {f g c : Int} (hf : Od Lx f) (hg : Od Ly g) (hc : c % 2 = 1)
    {σ : Bool} (hm : ([f, g, c], σ) ∈ K) :
    ∃ x y z, t = [x, y, z] ∧
      ((z = c ∧ Ev Lx x ∧ Ev Ly y ∧
          ((σ = true ∧ ((x = f + 1 ∧ y = g + 1) ∨ (x = pw Lx f ∧ y = pw Ly g))) ∨
           (σ = false ∧ ((x = f + 1 ∧ y = pw Ly g) ∨ (x = pw Lx f ∧ y = g + 1))))) ∨
       (x = f ∧ y = g ∧ (z = c - 1 ∨ z = c + 1) ∧ z % 2 = 0 ∧ (σ = true ↔ (f + g) % 4 = 2))) := by
  obtain ⟨hLx, hLy, _⟩ := hF
  unfold Od at hf hg
  have pf := pw_spec Lx f; have pg := pw_spec Ly g
  cases hk with
  | @vertex x y z h =>
    obtain ⟨hx, hy, hz, h4⟩ := h
    rw [R2_Ev] at hx hy
    refine ⟨x, y, z, rfl, ?_⟩
    have sx := sw_spec Lx x; have sy := sw_spec Ly y
    have hx' := hx; have hy' := hy
    unfold Ev at hx hy; unfold R1 at hz
    simp only [KV, List.mem_cons, Prod.mk.injEq, List.cons.injEq, and_true, List.not_mem_nil,
      or_false] at hm
    left
    rcases hm with ⟨⟨h1, h2, h3⟩, h5⟩ | ⟨⟨h1, h2, h3⟩, h5⟩ | ⟨⟨h1, h2, h3⟩, h5⟩ |
      ⟨⟨h1, h2, h3⟩, h5⟩ | ⟨⟨h1, h2, h3⟩, h5⟩ | ⟨⟨h1, h2, h3⟩, h5⟩
    · exact ⟨h3.symm, hx', hy', Or.inr ⟨h5, Or.inr ⟨by omega, by omega⟩⟩⟩
    · exact ⟨h3.symm, hx', hy', Or.inr ⟨h5, Or.inl ⟨by omega, by omega⟩⟩⟩
    · exact ⟨h3.symm, hx', hy', Or.inl ⟨h5, Or.inr ⟨by omega, by omega⟩⟩⟩
    · exact ⟨h3.symm, hx', hy', Or.inl ⟨h5, Or.inl ⟨by omega, by omega⟩⟩⟩
    · omega
    · omega
  | @hface x y z h =>
    obtain ⟨hx, hy, hz, h4⟩ := h
    rw [R2_Ev] at hx hy
    refine ⟨x, y, z, rfl, ?_⟩
    have sx := sw_spec Lx x; have sy := sw_spec Ly y
    have hx' := hx; have hy' := hy
    unfold Ev at hx hy; unfold R1 at hz
    simp only [KH, List.mem_cons, Prod.mk.injEq, List.cons.injEq, and_true, List.not_mem_nil,
      or_false] at hm
    left
    rcases hm with ⟨⟨h1, h2, h3⟩, h5⟩ | ⟨⟨h1, h2, h3⟩, h5⟩ | ⟨⟨h1, h2, h3⟩, h5⟩ |
      ⟨⟨h1, h2, h3⟩, h5⟩
    · exact ⟨h3.symm, hx', hy', Or.inl ⟨h5, Or.inl ⟨by omega, by omega⟩⟩⟩
    · exact ⟨h3.symm, hx', hy', Or.inl ⟨h5, Or.inr ⟨by omega, by omega⟩⟩⟩
    · exact ⟨h3.symm, hx', hy', Or.inr ⟨h5, Or.inl ⟨by omega, by omega⟩⟩⟩
    · exact ⟨h3.symm, hx', hy', Or.inr ⟨h5, Or.inr ⟨by omega, by omega⟩⟩⟩
  | @vfaceX x y z h h4 =>
    obtain ⟨hx, hy, hz, _⟩ := h
    rw [R1_Od] at hx hy
    refine ⟨x, y, z, rfl, ?_⟩
    unfold Od at hx hy; unfold R2 at hz
    simp only [KFX, List.mem_cons, Prod.mk.injEq, List.cons.injEq, and_true, List.not_mem_nil,
      or_false] at hm
    right
    rcases hm with ⟨⟨h1, h2, h3⟩, h5⟩ | ⟨⟨h1, h2, h3⟩, h5⟩ | ⟨⟨h1, h2, h3⟩, h5⟩ |
      ⟨⟨h1, h2, h3⟩, h5⟩
    · omega
    · omega
    · refine ⟨h1.symm, h2.symm, by omega, hz.1, ?_⟩
      rw [h5]; simp only [Bool.false_eq_true, false_iff]; omega
    · refine ⟨h1.symm, h2.symm, by omega, hz.1, ?_⟩
      rw [h5]; simp only [Bool.false_eq_true, false_iff]; omega
  | @vfaceY x y z h h4 =>
    obtain ⟨hx, hy, hz, _⟩ := h
    rw [R1_Od] at hx hy
    refine ⟨x, y, z, rfl, ?_⟩
    unfold Od at hx hy; unfold R2 at hz
    simp only [KFY, List.mem_cons, Prod.mk.injEq, List.cons.injEq, and_true, List.not_mem_nil,
      or_false] at hm
    right
    rcases hm with ⟨⟨h1, h2, h3⟩, h5⟩ | ⟨⟨h1, h2, h3⟩, h5⟩ | ⟨⟨h1, h2, h3⟩, h5⟩ |
      ⟨⟨h1, h2, h3⟩, h5⟩
    · omega
    · omega
    · refine ⟨h1.symm, h2.symm, by omega, hz.1, ?_⟩
      rw [h5]; simp only [true_iff]; omega
    · refine ⟨h1.symm, h2.symm, by omega, hz.1, ?_⟩
      rw [h5]; simp only [true_iff]; omega

/-- the generators with the signed candidate `([x, y, h], true)`, a vertical qubit: the vertices
    above and below it -/
theorem hitters_v {Lx Ly Lz : Nat} (hF : Fam Lx Ly) {t : Coord} {K : List (Coord × Bool)}
    (hk : Kind Lx Ly Lz t K) {x y h : Int} (hx : Ev Lx x) (hy : Ev Ly y) (hh : h % 2 = 0)
    (hm : ([x, y, h], true) ∈ K) :
    (t = [x, y, h - 1] ∨ t = [x, y, h + 1]) ∧ (x + y) % 4 = 2 := by
  obtain ⟨hLx, hLy, _⟩ := hF
  unfold Ev at hx hy
  cases hk with
  | @vertex a b c h' =>
    obtain ⟨ha, hb, hc, h4⟩ := h'
    rw [R2_Ev] at ha hb
    have sx := sw_spec Lx a; have sy := sw_spec Ly b
    unfold Ev at ha hb; unfold R1 at hc
    simp only [KV, List.mem_cons, Prod.mk.injEq, List.cons.injEq, and_true, List.not_mem_nil,
      or_false, Bool.true_eq_false, and_false, false_or] at hm
    simp only [List.cons.injEq, and_true]
    rcases hm with ⟨h1, h2, h3⟩ | ⟨h1, h2, h3⟩ | ⟨h1, h2, h3⟩ | ⟨h1, h2, h3⟩
    · omega
    · omega
    · refine ⟨Or.inl ⟨h1.symm, h2.symm, by omega⟩, by omega⟩
    · refine ⟨Or.inr ⟨h1.symm, h2.symm, by omega⟩, by omega⟩
  | @hface a b c h' =>
    obtain ⟨ha, hb, hc, h4⟩ := h'
    unfold R1 at hc
    simp only [KH, List.mem_cons, Prod.mk.injEq, List.cons.injEq, and_true, List.not_mem_nil,
      or_false, Bool.true_eq_false, and_false, false_or, or_false] at hm
    omega
  | @vfaceX a b c h' h4 =>
    simp only [KFX, List.mem_cons, Prod.mk.injEq, List.cons.injEq, and_true, List.not_mem_nil,
      or_false, Bool.true_eq_false, and_false, false_or, or_false] at hm
  | @vfaceY a b c h' h4 =>
    obtain ⟨ha, hb, hc, _⟩ := h'
    rw [R1_Od] at ha hb
    unfold Od at ha hb
    simp only [KFY, List.mem_cons, Prod.mk.injEq, List.cons.injEq, and_true, List.not_mem_nil,
      or_false, Bool.true_eq_false, and_false, false_or, or_false] at hm
    omega

end Panqec.RotatedToric3DCode
