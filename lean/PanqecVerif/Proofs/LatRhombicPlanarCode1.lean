/-
RhombicPlanarCode lattice model: arithmetic characterisation of the coordinate lists (the
`on_edge` and `edge_triangle` tests of `get_stabilizer_coordinates` are redundant), and the closed
form of `get_stabilizer` for cubes and triangles: the constant-letter operator on the candidate
locations that are qubits.  Every size.
-/
import PanqecVerif.Proofs.LatRhombic
import PanqecVerif.Model.Lattices.RhombicPlanarCode
open Panqec Panqec.Lat3Db Panqec.Rhombic
namespace Panqec.RhombicPlanarCode

/-- qubit on an x-edge / y-edge / z-edge -/
def QX (Lx Ly Lz : Nat) (x y z : Int) : Prop := R1 (2*Lx+1) x ∧ R0 (2*Ly) y ∧ R0 (2*Lz) z
def QY (Lx Ly Lz : Nat) (x y z : Int) : Prop := R2 (2*Lx) x ∧ R1 (2*Ly-1) y ∧ R0 (2*Lz) z
def QZ (Lx Ly Lz : Nat) (x y z : Int) : Prop := R2 (2*Lx) x ∧ R0 (2*Ly) y ∧ R1 (2*Lz-1) z

/-- member of `range(-1, b, 2)` -/
def RM (b : Nat) (y : Int) : Prop := y % 2 = 1 ∧ -1 ≤ y ∧ y < b

/-- cube location -/
def SC (Lx Ly Lz : Nat) (x y z : Int) : Prop :=
  R1 (2*Lx) x ∧ RM (2*Ly) y ∧ R1 (2*Lz-1) z ∧ (x + y + z) % 4 = 1

/-- `rough_triangle` as a proposition -/
def Rough (Ly : Nat) (a y : Int) : Prop :=
  (y = 0 ∧ (a = 1 ∨ a = 2)) ∨ (y = 2*(Ly:Int)-2 ∧ (a = 0 ∨ a = 3))

/-- triangle location -/
def ST (Lx Ly Lz : Nat) (a x y z : Int) : Prop :=
  IsAxis a ∧ R2 (2*Lx) x ∧ R0 (2*Ly) y ∧ R0 (2*Lz) z ∧ ¬ Rough Ly a y

instance (Lx Ly Lz : Nat) (x y z : Int) : Decidable (QX Lx Ly Lz x y z) := by unfold QX; infer_instance
instance (Lx Ly Lz : Nat) (x y z : Int) : Decidable (QY Lx Ly Lz x y z) := by unfold QY; infer_instance
instance (Lx Ly Lz : Nat) (x y z : Int) : Decidable (QZ Lx Ly Lz x y z) := by unfold QZ; infer_instance

theorem mem_rangeM1 (b : Nat) (y : Int) : y ∈ rangeM1 b ↔ RM b y := by
  unfold rangeM1 RM
  rw [List.mem_cons, mem_pyRange2_1]; unfold R1; omega

theorem nodup_rangeM1 (b : Nat) : (rangeM1 b).Nodup := by
  unfold rangeM1
  rw [List.nodup_cons]
  refine ⟨?_, nodup_pyRange2 1 b⟩
  rw [mem_pyRange2_1]; unfold R1; omega

theorem mem_qubits_iff (Lx Ly Lz : Nat) (x y z : Int) :
    [x, y, z] ∈ qubits Lx Ly Lz ↔ QX Lx Ly Lz x y z ∨ QY Lx Ly Lz x y z ∨ QZ Lx Ly Lz x y z := by
  unfold qubits QX QY QZ
  simp only [List.mem_append, mem_grid3_cons, mem_pyRange2_0, mem_pyRange2_1, mem_pyRange2_2, allTrue,
    and_true, or_assoc]

theorem isQubit_iff (Lx Ly Lz : Nat) (x y z : Int) :
    isQubit Lx Ly Lz [x, y, z] = true ↔ QX Lx Ly Lz x y z ∨ QY Lx Ly Lz x y z ∨ QZ Lx Ly Lz x y z := by
  unfold isQubit
  rw [List.contains_iff_mem, mem_qubits_iff]

theorem mem_qubits_shape (Lx Ly Lz : Nat) (s : Coord) (h : s ∈ qubits Lx Ly Lz) :
    ∃ x y z, s = [x, y, z] := by
  unfold qubits at h
  simp only [List.mem_append, mem_grid3] at h
  rcases h with (⟨x, y, z, rfl, _⟩ | ⟨x, y, z, rfl, _⟩) | ⟨x, y, z, rfl, _⟩ <;> exact ⟨x, y, z, rfl⟩

/-- `on_edge` is never true inside the cube loop -/
theorem cubeKeep_iff (Ly Lz : Nat) (x y z : Int) (hz : R1 (2*Lz-1) z) :
    cubeKeep Ly Lz x y z = true ↔ (x + y + z) % 4 = 1 := by
  unfold R1 at hz
  have h1 : (z == -1) = false := by simp; omega
  have h2 : (z == 2*(Lz:Int)-1) = false := by simp; omega
  simp [cubeKeep, onEdge, h1, h2]

/-- `edge_triangle` implies `rough_triangle`: the filter of the triangle loop is `not rough_triangle` -/
theorem triKeep_iff (Ly Lz : Nat) (a x y z : Int) :
    triKeep Ly Lz a x y z = true ↔ ¬ Rough Ly a y := by
  unfold triKeep Rough
  have hr : roughTriangle Ly a y = true ↔
      (y = 0 ∧ (a = 1 ∨ a = 2)) ∨ (y = 2*(Ly:Int)-2 ∧ (a = 0 ∨ a = 3)) := by
    simp [roughTriangle]
  have he : edgeTriangle Ly Lz a x y z = true → roughTriangle Ly a y = true := by
    rw [hr]
    simp only [edgeTriangle, Bool.or_eq_true, Bool.and_eq_true, beq_iff_eq, bne_iff_ne]
    rintro (((⟨⟨_, h⟩, (⟨_, rfl⟩ | ⟨_, rfl⟩)⟩ | ⟨⟨_, h⟩, (⟨_, rfl⟩ | ⟨_, rfl⟩)⟩) |
      ⟨⟨_, h⟩, (⟨_, rfl⟩ | ⟨_, rfl⟩)⟩) | ⟨⟨_, h⟩, (⟨_, rfl⟩ | ⟨_, rfl⟩)⟩) <;> simp [h]
  rw [← hr]
  cases h1 : edgeTriangle Ly Lz a x y z <;> cases h2 : roughTriangle Ly a y <;> simp_all

theorem mem_stabs_cube (Lx Ly Lz : Nat) (x y z : Int) :
    [x, y, z] ∈ stabs Lx Ly Lz ↔ SC Lx Ly Lz x y z := by
  unfold stabs SC
  simp only [List.mem_append, mem_grid3_cons, mem_pyRange2_1, mem_rangeM1, List.mem_flatMap,
    List.mem_map]
  constructor
  · rintro (⟨h1, h2, h3, h4⟩ | ⟨ax, _, c, hc, h⟩)
    · exact ⟨h1, h2, h3, (cubeKeep_iff Ly Lz x y z h3).mp h4⟩
    · rw [mem_grid3] at hc
      obtain ⟨a, b, d, rfl, _⟩ := hc
      simp at h
  · rintro ⟨h1, h2, h3, h4⟩
    exact Or.inl ⟨h1, h2, h3, (cubeKeep_iff Ly Lz x y z h3).mpr h4⟩

theorem mem_stabs_tri (Lx Ly Lz : Nat) (a x y z : Int) :
    [a, x, y, z] ∈ stabs Lx Ly Lz ↔ ST Lx Ly Lz a x y z := by
  unfold stabs ST IsAxis
  simp only [List.mem_append, List.mem_flatMap, List.mem_map, List.cons.injEq, List.mem_cons,
    List.not_mem_nil, or_false]
  constructor
  · rintro (h | ⟨a', ha, c, hc, rfl, rfl⟩)
    · rw [mem_grid3] at h
      obtain ⟨a', b, d, h, _⟩ := h
      simp at h
    · rw [mem_grid3_cons] at hc
      simp only [mem_pyRange2_0, mem_pyRange2_2, triKeep_iff] at hc
      exact ⟨ha, hc⟩
  · rintro ⟨ha, hc⟩
    refine Or.inr ⟨a, ha, [x, y, z], ?_, rfl, rfl⟩
    rw [mem_grid3_cons]
    simp only [mem_pyRange2_0, mem_pyRange2_2, triKeep_iff]
    exact hc

theorem mem_stabs_shape (Lx Ly Lz : Nat) (s : Coord) (h : s ∈ stabs Lx Ly Lz) :
    (∃ x y z, s = [x, y, z]) ∨ (∃ a x y z, s = [a, x, y, z]) := by
  unfold stabs at h
  simp only [List.mem_append, List.mem_flatMap, List.mem_map, mem_grid3] at h
  rcases h with ⟨x, y, z, rfl, _⟩ | ⟨a, _, c, ⟨x, y, z, rfl, _⟩, rfl⟩
  · exact Or.inl ⟨x, y, z, rfl⟩
  · exact Or.inr ⟨a, x, y, z, rfl⟩

/-! ### candidate locations -/

/-- the twelve edges of the cube `(x, y, z)` in the order of `delta` -/
def cubeLocs (x y z : Int) : List Coord :=
  [[x + 1, y + 1, z], [x - 1, y - 1, z], [x + 1, y - 1, z], [x - 1, y + 1, z],
   [x + 1, y, z + 1], [x - 1, y, z - 1], [x + 1, y, z - 1], [x - 1, y, z + 1],
   [x, y + 1, z + 1], [x, y - 1, z - 1], [x, y - 1, z + 1], [x, y + 1, z - 1]]

/-- the three legs of a triangle at the vertex `(x, y, z)` with sign vector `(sx, sy, sz)` -/
def triLocs (sx sy sz x y z : Int) : List Coord :=
  [[x + sx, y, z], [x, y + sy, z], [x, y, z + sz]]

theorem map_cubeDelta (x y z : Int) : cubeDelta.map (addC [x, y, z]) = cubeLocs x y z := by
  simp [cubeDelta, addC, cubeLocs, Int.sub_eq_add_neg]

theorem map_triDelta (a x y z : Int) (ha : IsAxis a) :
    (triDelta a x y z).map (addC [x, y, z]) = triLocs (sgnX a) (sgnY a) (sgnZ a x y z) x y z := by
  rw [triDelta_eq a x y z ha]
  simp [addC, triLocs]

theorem nodup_cubeLocs (x y z : Int) : (cubeLocs x y z).Nodup := by
  unfold cubeLocs
  simp
  omega

theorem nodup_triLocs (sx sy sz x y z : Int) (hx : U sx) (hy : U sy) : (triLocs sx sy sz x y z).Nodup := by
  unfold U at hx hy
  unfold triLocs
  simp
  omega

theorem mem_cubeLocs (x y z p q r : Int) :
    [p, q, r] ∈ cubeLocs x y z ↔
      (r = z ∧ U (p - x) ∧ U (q - y)) ∨ (q = y ∧ U (p - x) ∧ U (r - z)) ∨
      (p = x ∧ U (q - y) ∧ U (r - z)) := by
  have hU : ∀ c v : Int, U (v - c) ↔ (v = c + 1 ∨ v = c - 1) := by intro c v; unfold U; omega
  simp only [hU]
  unfold cubeLocs
  simp only [List.mem_cons, List.cons.injEq, and_true, List.not_mem_nil, or_false]
  constructor
  · rintro (⟨rfl, rfl, rfl⟩ | ⟨rfl, rfl, rfl⟩ | ⟨rfl, rfl, rfl⟩ | ⟨rfl, rfl, rfl⟩ | ⟨rfl, rfl, rfl⟩ |
      ⟨rfl, rfl, rfl⟩ | ⟨rfl, rfl, rfl⟩ | ⟨rfl, rfl, rfl⟩ | ⟨rfl, rfl, rfl⟩ | ⟨rfl, rfl, rfl⟩ |
      ⟨rfl, rfl, rfl⟩ | ⟨rfl, rfl, rfl⟩) <;> simp
  · rintro (⟨rfl, (rfl | rfl), (rfl | rfl)⟩ | ⟨rfl, (rfl | rfl), (rfl | rfl)⟩ |
      ⟨rfl, (rfl | rfl), (rfl | rfl)⟩) <;> simp

theorem isStab_cube (Lx Ly Lz : Nat) (x y z : Int) (h : SC Lx Ly Lz x y z) :
    isStab Lx Ly Lz [x, y, z] = true := by
  unfold isStab; rw [List.contains_iff_mem, mem_stabs_cube]; exact h

theorem isStab_tri (Lx Ly Lz : Nat) (a x y z : Int) (h : ST Lx Ly Lz a x y z) :
    isStab Lx Ly Lz [a, x, y, z] = true := by
  unfold isStab; rw [List.contains_iff_mem, mem_stabs_tri]; exact h

/-- key list of a cube operator -/
def cubeKeys (Lx Ly Lz : Nat) (x y z : Int) : List Coord := (cubeLocs x y z).filter (isQubit Lx Ly Lz)

/-- key list of a triangle operator -/
def triKeys (Lx Ly Lz : Nat) (a x y z : Int) : List Coord :=
  (triLocs (sgnX a) (sgnY a) (sgnZ a x y z) x y z).filter (isQubit Lx Ly Lz)

theorem getStab_cube (Lx Ly Lz : Nat) (x y z : Int) (h : SC Lx Ly Lz x y z) :
    getStab Lx Ly Lz [x, y, z] = constOp (cubeKeys Lx Ly Lz x y z) Pauli.X := by
  unfold getStab getStab? cubeKeys
  simp only [isStab_cube Lx Ly Lz x y z h, Bool.not_true, Bool.false_eq_true, if_false,
    Option.getD_some, map_cubeDelta]
  rw [buildOp_eq _ _ _ (nodup_cubeLocs x y z)]

theorem getStab_tri (Lx Ly Lz : Nat) (a x y z : Int) (h : ST Lx Ly Lz a x y z) :
    getStab Lx Ly Lz [a, x, y, z] = constOp (triKeys Lx Ly Lz a x y z) Pauli.Z := by
  unfold getStab getStab? triKeys
  simp only [isStab_tri Lx Ly Lz a x y z h, Bool.not_true, Bool.false_eq_true, if_false,
    Option.getD_some, map_triDelta a x y z h.1]
  rw [buildOp_eq _ _ _ (nodup_triLocs _ _ _ x y z (sgnX_pm a) (sgnY_pm a))]

theorem nodup_cubeKeys (Lx Ly Lz : Nat) (x y z : Int) : (cubeKeys Lx Ly Lz x y z).Nodup :=
  (nodup_cubeLocs x y z).filter _

theorem nodup_triKeys (Lx Ly Lz : Nat) (a x y z : Int) : (triKeys Lx Ly Lz a x y z).Nodup :=
  (nodup_triLocs _ _ _ x y z (sgnX_pm a) (sgnY_pm a)).filter _

end Panqec.RhombicPlanarCode
