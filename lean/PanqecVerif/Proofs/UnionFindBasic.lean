/-
Helper lemmas for the union-find internals (C05): counting over `List.range`, point updates,
unique-element filters, `np.unique`, set union of duplicate-free lists.  Core Lean only.
-/
import PanqecVerif.Model.UnionFindWF

namespace Panqec.UF

set_option linter.unusedSimpArgs false
set_option linter.unusedVariables false

/-! ### tabulation is the identity -/

theorem tabGet_tabArr {α : Type} (k : Nat) (f : Nat → α) : tabGet (tabArr k f) f = f := by
  funext i
  unfold tabGet tabArr
  by_cases h : i < (Array.ofFn (n := k) fun i => f i.val).size
  · simp only [h, dite_true]
    simp
  · simp only [h, dite_false]

theorem tabGet2_tabArr2 (k : Nat) (f : Nat → Nat → Bool) : tabGet2 (tabArr2 k f) k f = f := by
  funext i j
  unfold tabGet2 tabArr2
  by_cases h : i < k ∧ j < k ∧ i * k + j < (Array.ofFn (n := k * k) fun i => f (i.val / k) (i.val % k)).size
  · simp only [h, and_self, dite_true]
    have hk : 0 < k := by omega
    have h1 : (i * k + j) / k = i := by
      rw [Nat.mul_comm, Nat.mul_add_div hk, Nat.div_eq_of_lt h.2.1]; rfl
    have h2 : (i * k + j) % k = j := by
      rw [Nat.mul_comm, Nat.mul_add_mod, Nat.mod_eq_of_lt h.2.1]
    simp [h1, h2]
  · simp only [h, dite_false]

/-! ### counting over `0 … m-1` -/

@[simp] theorem cnt_zero (f : Nat → Bool) : cnt 0 f = 0 := rfl

theorem cnt_succ (m : Nat) (f : Nat → Bool) : cnt (m + 1) f = cnt m f + (if f m then 1 else 0) := by
  unfold cnt
  rw [List.range_succ, List.countP_append]
  simp [List.countP_cons]

theorem cnt_le (m : Nat) (f : Nat → Bool) : cnt m f ≤ m := by
  induction m with
  | zero => simp
  | succ m ih => rw [cnt_succ]; split <;> omega

theorem cnt_congr (m : Nat) (f g : Nat → Bool) (h : ∀ i, i < m → f i = g i) : cnt m f = cnt m g := by
  induction m with
  | zero => rfl
  | succ m ih =>
    rw [cnt_succ, cnt_succ, ih (fun i hi => h i (by omega)), h m (by omega)]

theorem cnt_mono (m : Nat) (f g : Nat → Bool) (h : ∀ i, i < m → f i = true → g i = true) :
    cnt m f ≤ cnt m g := by
  induction m with
  | zero => simp
  | succ m ih =>
    rw [cnt_succ, cnt_succ]
    have := ih (fun i hi => h i (by omega))
    have hm := h m (by omega)
    cases hf : f m <;> cases hg : g m <;> simp_all <;> omega

theorem cnt_lt (m : Nat) (f g : Nat → Bool) (h : ∀ i, i < m → f i = true → g i = true)
    (k : Nat) (hk : k < m) (hgk : g k = true) (hfk : f k = false) : cnt m f < cnt m g := by
  induction m with
  | zero => omega
  | succ m ih =>
    rw [cnt_succ, cnt_succ]
    by_cases hkm : k = m
    · subst hkm
      have := cnt_mono k f g (fun i hi => h i (by omega))
      simp [hgk, hfk]; omega
    · have := ih (fun i hi => h i (by omega)) (by omega)
      have hm := h m (by omega)
      cases hf : f m <;> cases hg : g m <;> simp_all <;> omega

theorem cnt_eq_zero (m : Nat) (f : Nat → Bool) (h : ∀ i, i < m → f i = false) : cnt m f = 0 := by
  induction m with
  | zero => rfl
  | succ m ih => rw [cnt_succ, ih (fun i hi => h i (by omega)), h m (by omega)]; simp

theorem cnt_pos (m : Nat) (f : Nat → Bool) (k : Nat) (hk : k < m) (hf : f k = true) : 0 < cnt m f := by
  have := cnt_lt m (fun _ => false) f (by simp) k hk hf rfl
  omega

/-- point update -/
theorem cnt_update (m : Nat) (f : Nat → Bool) (i : Nat) (hi : i < m) (v : Bool) :
    cnt m (fun j => if j = i then v else f j) + (if f i then 1 else 0) =
      cnt m f + (if v then 1 else 0) := by
  induction m with
  | zero => omega
  | succ m ih =>
    rw [cnt_succ, cnt_succ]
    by_cases him : i = m
    · subst him
      have : cnt i (fun j => if j = i then v else f j) = cnt i f :=
        cnt_congr i _ _ (fun j hj => by simp; intro h; omega)
      rw [this]; simp; omega
    · have := ih (by omega)
      have hne : ¬ m = i := fun h => him h.symm
      simp only [hne, if_false]
      omega

theorem cnt_any (m : Nat) (f : Nat → Bool) : (List.range m).any f = true ↔ 0 < cnt m f := by
  constructor
  · intro h
    rw [List.any_eq_true] at h
    obtain ⟨k, hk, hf⟩ := h
    exact cnt_pos m f k (List.mem_range.mp hk) hf
  · intro h
    rw [List.any_eq_true]
    apply Classical.byContradiction
    intro hc
    have : cnt m f = 0 := cnt_eq_zero m f (fun i hi => by
      cases hfi : f i
      · rfl
      · exact absurd ⟨i, List.mem_range.mpr hi, hfi⟩ hc)
    omega

/-! ### filters with exactly one solution -/

theorem filter_range_unique (m : Nat) (p : Nat → Bool) (k : Nat) (hk : k < m) (hp : p k = true)
    (hu : ∀ i, i < m → p i = true → i = k) : (List.range m).filter p = [k] := by
  induction m with
  | zero => omega
  | succ m ih =>
    rw [List.range_succ, List.filter_append]
    by_cases hkm : k = m
    · subst hkm
      have : (List.range k).filter p = [] := by
        rw [List.filter_eq_nil_iff]
        intro i hi hpi
        have := hu i (by have := List.mem_range.mp hi; omega) hpi
        have := List.mem_range.mp hi
        omega
      rw [this]; simp [hp]
    · rw [ih (by omega) (fun i hi => hu i (by omega))]
      have : p m = false := by
        cases hpm : p m
        · rfl
        · have := hu m (by omega) hpm; omega
      simp [this]

theorem filter_range_nil (m : Nat) (p : Nat → Bool) (h : ∀ i, i < m → p i = false) :
    (List.range m).filter p = [] := by
  rw [List.filter_eq_nil_iff]
  intro i hi
  simp [h i (List.mem_range.mp hi)]

theorem mem_filter_range (m : Nat) (p : Nat → Bool) (i : Nat) :
    i ∈ (List.range m).filter p ↔ i < m ∧ p i = true := by
  simp [List.mem_filter]

/-! ### `np.unique` -/

theorem mem_insertU (x a : Nat) (l : List Nat) : x ∈ insertU a l ↔ x = a ∨ x ∈ l := by
  induction l with
  | nil => simp [insertU]
  | cons y ys ih =>
    unfold insertU
    by_cases h1 : a < y
    · simp [h1]
    · by_cases h2 : a = y
      · subst h2; simp
      · simp [h1, h2, ih]
        constructor
        · rintro (h | h | h) <;> simp [h]
        · rintro (h | h | h) <;> simp [h]

theorem mem_unique (x : Nat) (l : List Nat) : x ∈ unique l ↔ x ∈ l := by
  induction l with
  | nil => simp [unique]
  | cons a l ih =>
    have : unique (a :: l) = insertU a (unique l) := rfl
    rw [this, mem_insertU, ih]; simp

theorem pairwise_insertU (a : Nat) (l : List Nat) (h : l.Pairwise (· < ·)) :
    (insertU a l).Pairwise (· < ·) := by
  induction l with
  | nil => simp [insertU]
  | cons y ys ih =>
    unfold insertU
    by_cases h1 : a < y
    · simp only [h1, if_true]
      rw [List.pairwise_cons]
      refine ⟨?_, h⟩
      intro z hz
      rcases List.mem_cons.mp hz with rfl | hz
      · exact h1
      · have := (List.pairwise_cons.mp h).1 z hz; omega
    · by_cases h2 : a = y
      · subst h2; simp only [Nat.lt_irrefl, if_false, if_true]; exact h
      · simp only [h1, h2, if_false]
        rw [List.pairwise_cons] at h ⊢
        refine ⟨?_, ih h.2⟩
        intro z hz
        rcases (mem_insertU z a ys).mp hz with rfl | hz
        · omega
        · exact h.1 z hz

theorem pairwise_unique (l : List Nat) : (unique l).Pairwise (· < ·) := by
  induction l with
  | nil => simp [unique]
  | cons a l ih => exact pairwise_insertU a _ ih

theorem nodup_unique (l : List Nat) : (unique l).Nodup := by
  have := pairwise_unique l
  exact this.imp (fun h => by omega)

/-! ### `set.union` -/

theorem mem_sunion (x : Int) (a b : List Int) : x ∈ sunion a b ↔ x ∈ a ∨ x ∈ b := by
  unfold sunion
  induction b generalizing a with
  | nil => simp
  | cons y ys ih =>
    simp only [List.foldl_cons]
    rw [ih]
    by_cases h : y ∈ a
    · simp [h]
      constructor
      · rintro (h1 | h1) <;> simp [h1]
      · rintro (h1 | rfl | h1) <;> simp [*]
    · simp [h]
      constructor
      · rintro ((h1 | h1) | h1) <;> simp [h1]
      · rintro (h1 | h1 | h1) <;> simp [h1]

theorem nodup_sunion (a b : List Int) (ha : a.Nodup) : (sunion a b).Nodup := by
  unfold sunion
  induction b generalizing a with
  | nil => simpa
  | cons y ys ih =>
    simp only [List.foldl_cons]
    apply ih
    by_cases h : y ∈ a
    · simpa [h]
    · simp only [h, if_false]
      rw [List.nodup_append]
      refine ⟨ha, by simp, ?_⟩
      intro x hx z hz
      simp at hz
      subst hz
      intro hxy; subst hxy; exact h hx

end Panqec.UF
