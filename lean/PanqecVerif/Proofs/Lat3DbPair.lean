/-
Generic lemmas for pairing tables of logical operators given as concatenated blocks
(`PairTable`, `CrossEven`) and for counting the members of a distinct list that satisfy a
point predicate.
-/
import PanqecVerif.Proofs.Lat3DbCss
open Panqec Panqec.Lat3Db
namespace Panqec.Lat3Db

/-- the pairing clause of `Lattice.CommPair` for two lists of operators -/
def PairTable (X Z : List Op) : Prop :=
  X.length = Z.length ∧ ∀ i j, i < X.length → j < Z.length →
    opAntiCount (X.getD i []) (Z.getD j []) % 2 = if i = j then 1 else 0

/-- every operator of the first list shares an even number of anticommuting qubits with every
    operator of the second -/
def CrossEven (X Z : List Op) : Prop := ∀ a ∈ X, ∀ b ∈ Z, opAntiCount a b % 2 = 0

theorem getD_eq_getElem' {α} (l : List α) (i : Nat) (d : α) (h : i < l.length) : l.getD i d = l[i] := by
  simp [List.getD_eq_getElem?_getD, h]
theorem getD_append_l {α} (l l' : List α) (i : Nat) (d : α) (h : i < l.length) :
    (l ++ l').getD i d = l.getD i d := by
  simp [List.getD_eq_getElem?_getD, List.getElem?_append_left h]
theorem getD_append_r {α} (l l' : List α) (i : Nat) (d : α) (h : l.length ≤ i) :
    (l ++ l').getD i d = l'.getD (i - l.length) d := by
  simp [List.getD_eq_getElem?_getD, List.getElem?_append_right h]

theorem getD_mem {α} (l : List α) (i : Nat) (d : α) (h : i < l.length) : l.getD i d ∈ l := by
  rw [getD_eq_getElem' _ _ _ h]; exact List.getElem_mem h

theorem PairTable.append {X1 X2 Z1 Z2 : List Op} (h1 : PairTable X1 Z1) (h2 : PairTable X2 Z2)
    (c12 : CrossEven X1 Z2) (c21 : CrossEven X2 Z1) : PairTable (X1 ++ X2) (Z1 ++ Z2) := by
  obtain ⟨l1, t1⟩ := h1
  obtain ⟨l2, t2⟩ := h2
  refine ⟨by simp [l1, l2], ?_⟩
  intro i j hi hj
  simp only [List.length_append] at hi hj
  by_cases hi1 : i < X1.length
  · rw [getD_append_l _ _ _ _ hi1]
    by_cases hj1 : j < Z1.length
    · rw [getD_append_l _ _ _ _ hj1]
      exact t1 i j hi1 hj1
    · have hj1' : Z1.length ≤ j := by omega
      rw [getD_append_r _ _ _ _ hj1']
      have hne : ¬ i = j := by omega
      rw [if_neg hne]
      exact c12 _ (getD_mem _ _ _ hi1) _ (getD_mem _ _ _ (by omega))
  · have hi1' : X1.length ≤ i := by omega
    rw [getD_append_r _ _ _ _ hi1']
    by_cases hj1 : j < Z1.length
    · rw [getD_append_l _ _ _ _ hj1]
      have hne : ¬ i = j := by omega
      rw [if_neg hne]
      exact c21 _ (getD_mem _ _ _ (by omega)) _ (getD_mem _ _ _ hj1)
    · have hj1' : Z1.length ≤ j := by omega
      rw [getD_append_r _ _ _ _ hj1']
      have := t2 (i - X1.length) (j - Z1.length) (by omega) (by omega)
      rw [this]
      by_cases hij : i = j
      · have : i - X1.length = j - Z1.length := by omega
        rw [if_pos this, if_pos hij]
      · have : ¬ (i - X1.length = j - Z1.length) := by omega
        rw [if_neg this, if_neg hij]

theorem PairTable.map {ι} [DecidableEq ι] (l : List ι) (f g : ι → Op) (hl : l.Nodup)
    (h : ∀ a ∈ l, ∀ b ∈ l, opAntiCount (f a) (g b) % 2 = if a = b then 1 else 0) :
    PairTable (l.map f) (l.map g) := by
  refine ⟨by simp, ?_⟩
  intro i j hi hj
  simp only [List.length_map] at hi hj
  rw [getD_eq_getElem' _ _ _ (by simpa using hi), getD_eq_getElem' _ _ _ (by simpa using hj)]
  simp only [List.getElem_map]
  rw [h _ (List.getElem_mem hi) _ (List.getElem_mem hj)]
  have : l[i] = l[j] ↔ i = j := hl.getElem_inj_iff
  by_cases hij : i = j
  · simp [hij]
  · have : ¬ l[i] = l[j] := fun e => hij (this.mp e)
    simp [hij, this]

theorem CrossEven.append_left {X1 X2 Z : List Op} (h1 : CrossEven X1 Z) (h2 : CrossEven X2 Z) :
    CrossEven (X1 ++ X2) Z := by
  intro a ha b hb
  rcases List.mem_append.mp ha with h | h
  · exact h1 a h b hb
  · exact h2 a h b hb

theorem CrossEven.append_right {X Z1 Z2 : List Op} (h1 : CrossEven X Z1) (h2 : CrossEven X Z2) :
    CrossEven X (Z1 ++ Z2) := by
  intro a ha b hb
  rcases List.mem_append.mp hb with h | h
  · exact h1 a ha b h
  · exact h2 a ha b h

theorem CrossEven.map {ι κ} (l : List ι) (l' : List κ) (f : ι → Op) (g : κ → Op)
    (h : ∀ a ∈ l, ∀ b ∈ l', opAntiCount (f a) (g b) % 2 = 0) : CrossEven (l.map f) (l'.map g) := by
  intro a ha b hb
  obtain ⟨s, hs, rfl⟩ := List.mem_map.mp ha
  obtain ⟨t, ht, rfl⟩ := List.mem_map.mp hb
  exact h s hs t ht

/-- all keys of all operators of the list satisfy `φ` -/
def AllKeys (φ : Coord → Prop) (X : List Op) : Prop := ∀ a ∈ X, ∀ e ∈ a, φ e.1

theorem AllKeys.append {φ : Coord → Prop} {X1 X2 : List Op} (h1 : AllKeys φ X1) (h2 : AllKeys φ X2) :
    AllKeys φ (X1 ++ X2) := by
  intro a ha
  rcases List.mem_append.mp ha with h | h
  · exact h1 a h
  · exact h2 a h

theorem AllKeys.map_constOp {ι} {φ : Coord → Prop} (l : List ι) (k : ι → List Coord) (p : Pauli)
    (h : ∀ t ∈ l, ∀ q ∈ k t, φ q) : AllKeys φ (l.map fun t => constOp (k t) p) := by
  intro a ha e he
  obtain ⟨t, ht, rfl⟩ := List.mem_map.mp ha
  rw [mem_constOp] at he
  exact h t ht _ he.1

theorem opAntiCount_eq_zero_of_disjoint (a b : Op) (h : ∀ e ∈ a, ∀ e' ∈ b, e.1 ≠ e'.1) :
    opAntiCount a b = 0 := by
  unfold opAntiCount
  rw [List.length_eq_zero_iff, List.filter_eq_nil_iff]
  intro e he
  have : b.get? e.1 = none := by
    unfold Op.get?
    rw [Option.map_eq_none_iff, List.find?_eq_none]
    intro e' he'
    have := h e he e' he'
    simpa using fun hh : e'.1 = e.1 => this hh.symm
  simp [this]

/-- operators whose keys lie in disjoint classes never overlap -/
theorem CrossEven.of_disjoint {φ ψ : Coord → Prop} {X Z : List Op} (hX : AllKeys φ X) (hZ : AllKeys ψ Z)
    (hd : ∀ q, φ q → ψ q → False) : CrossEven X Z := by
  intro a ha b hb
  rw [opAntiCount_eq_zero_of_disjoint]
  intro e he e' he' heq
  exact hd e.1 (hX a ha e he) (by rw [heq]; exact hZ b hb e' he')

/-! ### counting the members of a distinct list at given points -/

theorem countP_eq_point (l : List Int) (a : Int) (hl : l.Nodup) (ha : a ∈ l) :
    l.countP (fun t => t == a) = 1 := by
  have := List.count_eq_one_of_mem hl ha
  rwa [List.count] at this

theorem countP_iff_point (l : List Int) (a : Int) (p : Int → Bool) (hl : l.Nodup) (ha : a ∈ l)
    (hp : ∀ t ∈ l, (p t = true ↔ t = a)) : l.countP p = 1 := by
  rw [← countP_eq_point l a hl ha]
  apply List.countP_congr
  intro t ht
  simp [hp t ht]

theorem countP_iff_none (l : List Int) (p : Int → Bool) (hp : ∀ t ∈ l, ¬ p t = true) : l.countP p = 0 := by
  rw [List.countP_eq_zero]; exact hp

theorem countP_iff_two_points (l : List Int) (a b : Int) (p : Int → Bool) (hl : l.Nodup) (ha : a ∈ l)
    (hb : b ∈ l) (hab : a ≠ b) (hp : ∀ t ∈ l, (p t = true ↔ t = a ∨ t = b)) : l.countP p = 2 := by
  have h1 := countP_eq_point l a hl ha
  have h2 := countP_eq_point l b hl hb
  have : l.countP p = l.countP (fun t => t == a) + l.countP (fun t => t == b) := by
    clear h1 h2 ha hb hl
    induction l with
    | nil => rfl
    | cons c t ih =>
      have ih' := ih (fun s hs => hp s (List.mem_cons_of_mem _ hs))
      have hc := hp c (List.mem_cons_self)
      simp only [List.countP_cons, ih', beq_iff_eq]
      by_cases h1 : c = a
      · have h2 : ¬ c = b := fun e => hab (h1.symm.trans e)
        have : p c = true := hc.mpr (Or.inl h1)
        rw [if_pos this, if_pos h1, if_neg h2]; omega
      · by_cases h2 : c = b
        · have : p c = true := hc.mpr (Or.inr h2)
          rw [if_pos this, if_neg h1, if_pos h2]; omega
        · have : ¬ p c = true := fun e => by rcases hc.mp e with e | e <;> contradiction
          rw [if_neg this, if_neg h1, if_neg h2]; omega
  omega

end Panqec.Lat3Db
