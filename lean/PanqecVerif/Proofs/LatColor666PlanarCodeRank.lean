/-
Color666PlanarCode, all sizes `L ≥ 1`: ALL stabilizer generators are independent (triangular
single-qubit probes).  Faces are ranked by `3x + y`; the probe of the X (Z) generator of the face
`(x, y)` is a Z (X) on its left corner `(x−2, y)` — or, where the triangle cuts that corner off
(left edge `y ≥ 2x − 2`), on its lower-left corner `(x−1, y−2)`; the two other faces around that
corner have smaller rank.  Core Lean only.
-/
import PanqecVerif.Proofs.Lat2DRank
import PanqecVerif.Proofs.LatColor666PlanarCodeC

set_option linter.unusedVariables false

namespace Panqec.Color666PlanarCode
open Panqec.Lat2D Panqec.Color

def probeQubit (L : Nat) (x y : Int) : Coord :=
  if InT L (x - 2) y then [x - 2, y] else [x - 1, y - 2]

def probe (L : Nat) (s : Coord) : Coord × Pauli :=
  match s with
  | [x, y, p] => (probeQubit L x y, if p = 0 then Pauli.Z else Pauli.X)
  | _ => ([], Pauli.I)

def rankOf (s : Coord) : Nat :=
  match s with
  | [x, y, _] => (3 * x + y).toNat
  | _ => 0

theorem probeQubit_cases (L : Nat) (x y : Int) :
    (InT L (x - 2) y ∧ probeQubit L x y = [x - 2, y]) ∨
    (¬ InT L (x - 2) y ∧ probeQubit L x y = [x - 1, y - 2]) := by
  unfold probeQubit
  by_cases h : InT L (x - 2) y
  · left; exact ⟨h, by simp [h]⟩
  · right; exact ⟨h, by simp [h]⟩

theorem probe_count {L L' : Nat} {x y p x' y' p' : Int} (ht : [x', y', p'] ∈ stabs L L') :
    opAntiCount [probe L [x, y, p]] ((lattice L L').getStab [x', y', p']) =
      if Pauli.anti (probe L [x, y, p]).2 (letter p') = true ∧
        (probe L [x, y, p]).1 ∈ supp L x' y'
      then 1 else 0 := by
  rw [getStab_eq ht]
  exact opAntiCount_probe _ _ _ _

theorem triangular {L L' : Nat} (hL : 1 ≤ L) :
    TriangularProbes (lattice L L') (stabs L L') (probe L) rankOf where
  on_qubits := by
    intro s hs
    obtain ⟨x, y, p, rfl, h, _⟩ := (mem_stabs (L' := L')).mp hs
    refine ⟨?_, by show (if p = 0 then Pauli.Z else Pauli.X) ≠ Pauli.I; by_cases hp : p = 0 <;> simp [hp]⟩
    show probeQubit L x y ∈ qubits L L'
    unfold IsF at h
    rcases probeQubit_cases L x y with ⟨hi, e⟩ | ⟨hi, e⟩ <;> rw [e, mem_qubits' hL] <;>
      unfold InT at hi <;> unfold IsQ InT <;> omega
  diag := by
    intro s hs
    obtain ⟨x, y, p, rfl, h, _⟩ := (mem_stabs (L' := L')).mp hs
    rw [probe_count hs]
    have ha : Pauli.anti (probe L [x, y, p]).2 (letter p) = true := by
      show Pauli.anti (if p = 0 then Pauli.Z else Pauli.X) (letter p) = true
      unfold letter; by_cases hp : p = 0 <;> simp [hp] <;> decide
    have hm : (probe L [x, y, p]).1 ∈ supp L x y := by
      show probeQubit L x y ∈ supp L x y
      unfold IsF at h
      rcases probeQubit_cases L x y with ⟨hi, e⟩ | ⟨hi, e⟩ <;> rw [e, mem_supp] <;>
        unfold InT at hi <;> unfold InT <;> omega
    rw [if_pos ⟨ha, hm⟩]
  later := by
    intro s hs t ht hne hle
    obtain ⟨x, y, p, rfl, h, hp⟩ := (mem_stabs (L' := L')).mp hs
    obtain ⟨x', y', p', rfl, h', hp'⟩ := (mem_stabs (L' := L')).mp ht
    rw [probe_count ht]
    unfold rankOf at hle
    simp only [] at hle
    by_cases hpp : p = p'
    · subst hpp
      have hne' : ¬ (x = x' ∧ y = y') := fun e => hne (by rw [e.1, e.2])
      have hm : (probe L [x, y, p]).1 ∉ supp L x' y' := by
        show probeQubit L x y ∉ supp L x' y'
        unfold IsF at h h'
        rcases probeQubit_cases L x y with ⟨hi, e⟩ | ⟨hi, e⟩ <;> rw [e, mem_supp] <;>
          unfold InT at hi <;> unfold InT <;> omega
      rw [if_neg (fun e => hm e.2)]
    · have ha : Pauli.anti (probe L [x, y, p]).2 (letter p') = false := by
        show Pauli.anti (if p = 0 then Pauli.Z else Pauli.X) (letter p') = false
        unfold letter
        rcases hp with rfl | rfl <;> rcases hp' with rfl | rfl <;> first | (exact absurd rfl hpp) | decide
      rw [if_neg (fun e => by rw [ha] at e; exact absurd e.1 (by decide))]

/-- the generators at all stabilizer locations are independent, for every size `L ≥ 1` -/
theorem indep_all {L L' : Nat} (hL : 1 ≤ L) : IndepGenerators (lattice L L') (stabs L L') :=
  indep_of_triangular (triangular hL)

/-- `n_stabilizers + k = n` -/
theorem count_all {L L' : Nat} (hL : 1 ≤ L) :
    (stabs L L').length + 1 = (qubits L L').length := by
  rw [length_stabs, length_qubits hL]

end Panqec.Color666PlanarCode
