/-
Color3DCode, even sides `≥ 2`: membership in the nine key lists of `get_logicals_z` in NORMAL FORM —
a Boolean table of the offset from the plane of the membrane (a thin coordinate, clamped) and of the
residues modulo 8 of the two other coordinates.  Core Lean only.
-/
import PanqecVerif.Proofs.LatColor3DCodeF

set_option linter.unusedVariables false
set_option linter.unusedSectionVars false

namespace Panqec.Color3DCode
open Panqec.Lat2D Panqec.Color

def res8 : List Int := [0, 1, 2, 3, 4, 5, 6, 7]

theorem mem_res8 (v : Int) : v % 8 ∈ res8 := by
  unfold res8
  simp only [List.mem_cons, List.not_mem_nil, or_false]
  omega

/-- the residues modulo 8 of the two free coordinates of a hexagon of a red-green membrane -/
def pairs8 : List (Int × Int) := [(1, 7), (3, 5), (5, 3), (7, 1)]

theorem mem_pairs8 {u v : Int} (hu : u % 2 = 1) (hs : (u + v) % 8 = 0) : (u % 8, v % 8) ∈ pairs8 := by
  unfold pairs8
  simp only [List.mem_cons, Prod.mk.injEq, List.not_mem_nil, or_false]
  omega

theorem pairs8_spec {p : Int × Int} (h : p ∈ pairs8) :
    p.1 % 2 = 1 ∧ 0 ≤ p.1 ∧ p.1 < 8 ∧ 0 ≤ p.2 ∧ p.2 < 8 ∧ p.1 + p.2 = 8 := by
  unfold pairs8 at h
  simp only [List.mem_cons, List.not_mem_nil, or_false] at h
  rcases h with rfl | rfl | rfl | rfl <;> decide

/-- table of a square membrane: offset 0 from the plane, in-plane pattern of the vertices -/
def TP (ρ t r1 r2 : Int) : Bool :=
  t == 0 && ((r1 % 2 == 1 && r2 % 4 == ρ) || (r1 % 4 == ρ && r2 % 2 == 1))

/-- tables of the hexagon membranes (thin coordinate first, second, third) -/
def TH1 (t rb rc : Int) : Bool :=
  pairs8.any fun p => (shape 3 p.1 p.2).any fun d =>
    t == d.1 && rb == (p.1 + d.2.1) % 8 && rc == (p.2 + d.2.2) % 8
def TH2 (ra t rc : Int) : Bool :=
  pairs8.any fun p => (shape p.1 3 p.2).any fun d =>
    ra == (p.1 + d.1) % 8 && t == d.2.1 && rc == (p.2 + d.2.2) % 8
def TH3 (ra rb t : Int) : Bool :=
  pairs8.any fun p => (shape p.1 p.2 3).any fun d =>
    ra == (p.1 + d.1) % 8 && rb == (p.2 + d.2.1) % 8 && t == d.2.2

theorem clamp0_eq (t : Int) : (clamp 0 t == 0) = decide (t = 0) := by
  unfold clamp
  by_cases h : t = 0
  · subst h; simp
  · rw [if_neg (by omega)]; simp [h]

theorem planePat_iff (ρ : Int) (mu mv : Nat) (p r : Int) (hρ : ρ = 0 ∨ ρ = 2)
    (hp : 0 ≤ p ∧ p < 4 * (mu : Int)) (hr : 0 ≤ r ∧ r < 4 * (mv : Int)) :
    PlanePat ρ mu mv p r ↔
      ((p % 8 % 2 == 1 && r % 8 % 4 == ρ) || (p % 8 % 4 == ρ && r % 8 % 2 == 1)) = true := by
  unfold PlanePat
  simp only [Bool.or_eq_true, Bool.and_eq_true, beq_iff_eq]
  have e1 : p % 8 % 2 = p % 2 := by omega
  have e2 : r % 8 % 2 = r % 2 := by omega
  have e3 : p % 8 % 4 = p % 4 := by omega
  have e4 : r % 8 % 4 = r % 4 := by omega
  rw [e1, e2, e3, e4]
  constructor
  · rintro ⟨_, _, _, _, h⟩; exact h
  · intro h; exact ⟨hp.1, hp.2, hr.1, hr.2, h⟩

section
variable {Lx Ly Lz : Nat} (hx : 2 ≤ Lx) (hy : 2 ≤ Ly) (hz : 2 ≤ Lz)
include hx hy hz

/-- in range -/
def InBox (Lx Ly Lz : Nat) (a b c : Int) : Prop :=
  0 ≤ a ∧ a < 4 * (Lx : Int) ∧ 0 ≤ b ∧ b < 4 * (Ly : Int) ∧ 0 ≤ c ∧ c < 4 * (Lz : Int)

omit hx hy hz in
theorem inBox_wrap {Lx Ly Lz : Nat} (hx : 1 ≤ Lx) (hy : 1 ≤ Ly) (hz : 1 ≤ Lz) (x y z : Int) (d : D3) :
    ∀ a b c, wrapAt (4 * (Lx : Int)) (4 * (Ly : Int)) (4 * (Lz : Int)) x y z d = [a, b, c] →
      InBox Lx Ly Lz a b c := by
  intro a b c h
  unfold wrapAt at h
  simp only [List.cons.injEq, and_true] at h
  obtain ⟨rfl, rfl, rfl⟩ := h
  have := wrap_range hx (x + d.1)
  have := wrap_range hy (y + d.2.1)
  have := wrap_range hz (z + d.2.2)
  unfold InBox; omega

theorem nfZ1 {a b c : Int} (hb : InBox Lx Ly Lz a b c) :
    [a, b, c] ∈ kZ1 Lx Ly Lz ↔ TP 2 (clamp 0 (a - 0)) (b % 8) (c % 8) = true := by
  unfold kZ1 InBox at *
  rw [mem_membraneA (by omega) (by omega)]
  unfold TP
  rw [Bool.and_eq_true, clamp0_eq, decide_eq_true_eq,
    ← planePat_iff 2 Ly Lz b c (Or.inr rfl) (by omega) (by omega)]
  constructor
  · rintro ⟨p, r, h, hp⟩
    simp only [List.cons.injEq, and_true] at h
    obtain ⟨rfl, rfl, rfl⟩ := h
    exact ⟨by omega, hp⟩
  · rintro ⟨h, hp⟩
    exact ⟨b, c, by rw [show a = 0 by omega], hp⟩

theorem nfZ2 {a b c : Int} (hb : InBox Lx Ly Lz a b c) :
    [a, b, c] ∈ kZ2 Lx Ly Lz ↔ TP 0 (clamp 0 (a - 2)) (b % 8) (c % 8) = true := by
  unfold kZ2 InBox at *
  rw [mem_membraneC (by omega) (by omega)]
  unfold TP
  rw [Bool.and_eq_true, clamp0_eq, decide_eq_true_eq,
    ← planePat_iff 0 Ly Lz b c (Or.inl rfl) (by omega) (by omega)]
  constructor
  · rintro ⟨p, r, h, hp⟩
    simp only [List.cons.injEq, and_true] at h
    obtain ⟨rfl, rfl, rfl⟩ := h
    exact ⟨by omega, hp⟩
  · rintro ⟨h, hp⟩
    exact ⟨b, c, by rw [show a = 2 by omega], hp⟩

theorem nfZ4 {a b c : Int} (hb : InBox Lx Ly Lz a b c) :
    [a, b, c] ∈ kZ4 Lx Ly Lz ↔ TP 2 (clamp 0 (b - 0)) (a % 8) (c % 8) = true := by
  unfold kZ4 InBox at *
  rw [mem_membraneA (by omega) (by omega)]
  unfold TP
  rw [Bool.and_eq_true, clamp0_eq, decide_eq_true_eq,
    ← planePat_iff 2 Lx Lz a c (Or.inr rfl) (by omega) (by omega)]
  constructor
  · rintro ⟨p, r, h, hp⟩
    simp only [List.cons.injEq, and_true] at h
    obtain ⟨rfl, rfl, rfl⟩ := h
    exact ⟨by omega, hp⟩
  · rintro ⟨h, hp⟩
    exact ⟨a, c, by rw [show b = 0 by omega], hp⟩

theorem nfZ5 {a b c : Int} (hb : InBox Lx Ly Lz a b c) :
    [a, b, c] ∈ kZ5 Lx Ly Lz ↔ TP 0 (clamp 0 (b - 2)) (a % 8) (c % 8) = true := by
  unfold kZ5 InBox at *
  rw [mem_membraneC (by omega) (by omega)]
  unfold TP
  rw [Bool.and_eq_true, clamp0_eq, decide_eq_true_eq,
    ← planePat_iff 0 Lx Lz a c (Or.inl rfl) (by omega) (by omega)]
  constructor
  · rintro ⟨p, r, h, hp⟩
    simp only [List.cons.injEq, and_true] at h
    obtain ⟨rfl, rfl, rfl⟩ := h
    exact ⟨by omega, hp⟩
  · rintro ⟨h, hp⟩
    exact ⟨a, c, by rw [show b = 2 by omega], hp⟩

theorem nfZ7 {a b c : Int} (hb : InBox Lx Ly Lz a b c) :
    [a, b, c] ∈ kZ7 Lx Ly Lz ↔ TP 2 (clamp 0 (c - 0)) (a % 8) (b % 8) = true := by
  unfold kZ7 InBox at *
  rw [mem_membraneA (by omega) (by omega)]
  unfold TP
  rw [Bool.and_eq_true, clamp0_eq, decide_eq_true_eq,
    ← planePat_iff 2 Lx Ly a b (Or.inr rfl) (by omega) (by omega)]
  constructor
  · rintro ⟨p, r, h, hp⟩
    simp only [List.cons.injEq, and_true] at h
    obtain ⟨rfl, rfl, rfl⟩ := h
    exact ⟨by omega, hp⟩
  · rintro ⟨h, hp⟩
    exact ⟨a, b, by rw [show c = 0 by omega], hp⟩

theorem nfZ8 {a b c : Int} (hb : InBox Lx Ly Lz a b c) :
    [a, b, c] ∈ kZ8 Lx Ly Lz ↔ TP 0 (clamp 0 (c - 2)) (a % 8) (b % 8) = true := by
  unfold kZ8 InBox at *
  rw [mem_membraneC (by omega) (by omega)]
  unfold TP
  rw [Bool.and_eq_true, clamp0_eq, decide_eq_true_eq,
    ← planePat_iff 0 Lx Ly a b (Or.inl rfl) (by omega) (by omega)]
  constructor
  · rintro ⟨p, r, h, hp⟩
    simp only [List.cons.injEq, and_true] at h
    obtain ⟨rfl, rfl, rfl⟩ := h
    exact ⟨by omega, hp⟩
  · rintro ⟨h, hp⟩
    exact ⟨a, b, by rw [show c = 2 by omega], hp⟩

end

end Panqec.Color3DCode
