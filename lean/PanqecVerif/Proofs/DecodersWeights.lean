/-
Weights: total weight of a correction over an ordered field, zero correction for
the zero syndrome, uniform weights = Hamming weight, and the equivalence
"minimum log-likelihood weight ⇔ maximum likelihood" over the reals.
-/
import PanqecVerif.Proofs.DecodersDistance
import Mathlib.Analysis.SpecialFunctions.Log.Basic
import Mathlib.Algebra.Order.Field.Basic
import Mathlib.Tactic.Linarith
import Mathlib.Tactic.Positivity

namespace Panqec

/-- total weight `Σ_i w_i c_i` of a 0/1 vector (PyMatching's objective) -/
def wdot {K : Type} [Semiring K] : List K → Vec → K
  | w :: ws, c :: cs => w * (c : K) + wdot ws cs
  | _, _ => 0

section ordered
variable {K : Type} [Field K] [LinearOrder K] [IsStrictOrderedRing K]

theorem wdot_nonneg : ∀ (w : List K) (c : Vec), (∀ x ∈ w, 0 < x) → 0 ≤ wdot w c
  | [], c, _ => by cases c <;> simp [wdot]
  | w :: ws, [], _ => by simp [wdot]
  | w :: ws, c :: cs, h => by
    have hw : 0 < w := h w (by simp)
    have ih := wdot_nonneg ws cs (fun x hx => h x (by simp [hx]))
    have hc : (0 : K) ≤ (c : K) := Nat.cast_nonneg c
    simp only [wdot]
    positivity

theorem wdot_zeros (w : List K) (n : Nat) : wdot w (List.replicate n 0) = 0 := by
  induction n generalizing w with
  | zero => cases w <;> simp [wdot]
  | succ n ih =>
    cases w with
    | nil => simp [wdot]
    | cons a w => simp [List.replicate_succ, wdot, ih]

/-- with positive weights, total weight 0 forces the zero vector -/
theorem eq_zeros_of_wdot_eq_zero : ∀ (w : List K) (c : Vec), (∀ x ∈ w, 0 < x) →
    c.length ≤ w.length → wdot w c = 0 → c = List.replicate c.length 0
  | _, [], _, _, _ => by simp
  | [], c :: cs, _, hl, _ => by simp at hl
  | w :: ws, c :: cs, h, hl, h0 => by
    have hw : 0 < w := h w (by simp)
    have hws : ∀ x ∈ ws, 0 < x := fun x hx => h x (by simp [hx])
    have hnn := wdot_nonneg ws cs hws
    have hc : (0 : K) ≤ (c : K) := Nat.cast_nonneg c
    simp only [wdot] at h0
    have hwc : 0 ≤ w * (c : K) := by positivity
    have h1 : w * (c : K) = 0 := by linarith
    have h2 : wdot ws cs = 0 := by linarith
    have hc0 : c = 0 := by
      rcases mul_eq_zero.mp h1 with h | h
      · exact absurd h (ne_of_gt hw)
      · exact_mod_cast h
    have ih := eq_zeros_of_wdot_eq_zero ws cs hws (by simpa using hl) h2
    simp only [List.length_cons, List.replicate_succ]
    rw [hc0, ← ih]

/-- uniform weights: total weight = `w0 ·` Hamming weight (binary vectors) -/
theorem wdot_uniform (w0 : K) : ∀ (n : Nat) (c : Vec), c.length ≤ n → (∀ x ∈ c, x < 2) →
    wdot (List.replicate n w0) c = w0 * (hammingWt c : K)
  | _, [], _, _ => by cases ‹Nat› <;> simp [wdot, hammingWt_nil, List.replicate_succ]
  | 0, c :: cs, h, _ => by simp at h
  | n + 1, c :: cs, h, hb => by
    have ih := wdot_uniform w0 n cs (by simpa using h) (fun x hx => hb x (by simp [hx]))
    have hc : c < 2 := hb c (by simp)
    rw [List.replicate_succ, hammingWt_cons]
    simp only [wdot, ih]
    rcases Nat.lt_succ_iff_lt_or_eq.mp hc with h1 | h1
    · have : c = 0 := by omega
      subst this; simp
    · subst h1; simp [mul_add]

theorem hammingWt_le_of_wdot_uniform_le (w0 : K) (hw : 0 < w0) (n : Nat) (c c' : Vec)
    (hc : c.length ≤ n) (hcb : ∀ x ∈ c, x < 2) (hc' : c'.length ≤ n) (hcb' : ∀ x ∈ c', x < 2)
    (h : wdot (List.replicate n w0) c ≤ wdot (List.replicate n w0) c') :
    hammingWt c ≤ hammingWt c' := by
  rw [wdot_uniform w0 n c hc hcb, wdot_uniform w0 n c' hc' hcb'] at h
  have := le_of_mul_le_mul_left h hw
  exact_mod_cast this

end ordered

/-! ### minimum weight ⇔ maximum likelihood (reals) -/

/-- likelihood of the flip pattern `c` when flipping qubit `i` has (unnormalised)
    probability `a i` and not flipping it `b i` -/
noncomputable def lik : List ℝ → List ℝ → Vec → ℝ
  | a :: as, b :: bs, c :: cs => (if c = 0 then b else a) * lik as bs cs
  | _, _, _ => 1

/-- the weights panqec hands to PyMatching: `w i = -log (a i / b i)` -/
noncomputable def logOddsWeights : List ℝ → List ℝ → List ℝ
  | a :: as, b :: bs => (-Real.log (a / b)) :: logOddsWeights as bs
  | _, _ => []

noncomputable def sumLog : List ℝ → ℝ
  | [] => 0
  | b :: bs => Real.log b + sumLog bs

theorem lik_pos : ∀ (a b : List ℝ) (c : Vec), (∀ x ∈ a, 0 < x) → (∀ x ∈ b, 0 < x) → 0 < lik a b c
  | [], _, _, _, _ => by simp [lik]
  | _ :: _, [], _, _, _ => by simp [lik]
  | _ :: _, _ :: _, [], _, _ => by simp [lik]
  | a :: as, b :: bs, c :: cs, ha, hb => by
    have ih := lik_pos as bs cs (fun x hx => ha x (by simp [hx])) (fun x hx => hb x (by simp [hx]))
    have h1 : 0 < a := ha a (by simp)
    have h2 : 0 < b := hb b (by simp)
    simp only [lik]
    split <;> positivity

/-- `log (likelihood c) = Σ log b_i − Σ w_i c_i` -/
theorem log_lik : ∀ (a b : List ℝ) (c : Vec), (∀ x ∈ a, 0 < x) → (∀ x ∈ b, 0 < x) →
    a.length = c.length → b.length = c.length → (∀ x ∈ c, x < 2) →
    Real.log (lik a b c) = sumLog b - wdot (logOddsWeights a b) c
  | [], [], [], _, _, _, _, _ => by simp [lik, sumLog, logOddsWeights, wdot]
  | [], _, _ :: _, _, _, h, _, _ => by simp at h
  | _ :: _, _, [], _, _, h, _, _ => by simp at h
  | _, [], _ :: _, _, _, _, h, _ => by simp at h
  | _, _ :: _, [], _, _, _, h, _ => by simp at h
  | a :: as, b :: bs, c :: cs, ha, hb, hla, hlb, hc => by
    have h1 : 0 < a := ha a (by simp)
    have h2 : 0 < b := hb b (by simp)
    have hpa : ∀ x ∈ as, 0 < x := fun x hx => ha x (by simp [hx])
    have hpb : ∀ x ∈ bs, 0 < x := fun x hx => hb x (by simp [hx])
    have ih := log_lik as bs cs hpa hpb (by simpa using hla) (by simpa using hlb)
      (fun x hx => hc x (by simp [hx]))
    have hl := lik_pos as bs cs hpa hpb
    have hcc : c < 2 := hc c (by simp)
    simp only [lik, sumLog, logOddsWeights, wdot]
    rcases Nat.lt_succ_iff_lt_or_eq.mp hcc with h0 | h0
    · have : c = 0 := by omega
      subst this
      rw [if_pos rfl, Real.log_mul (ne_of_gt h2) (ne_of_gt hl), ih]
      simp
      ring
    · subst h0
      rw [if_neg (by decide), Real.log_mul (ne_of_gt h1) (ne_of_gt hl), ih,
        Real.log_div (ne_of_gt h1) (ne_of_gt h2)]
      push_cast
      ring

/-- pointwise form: `c` is at most as heavy as `c'` iff it is at least as likely -/
theorem weight_le_iff_lik_ge (a b : List ℝ) (c c' : Vec) (ha : ∀ x ∈ a, 0 < x)
    (hb : ∀ x ∈ b, 0 < x) (hab : a.length = b.length)
    (hc : c.length = a.length ∧ ∀ x ∈ c, x < 2) (hc' : c'.length = a.length ∧ ∀ x ∈ c', x < 2) :
    wdot (logOddsWeights a b) c ≤ wdot (logOddsWeights a b) c' ↔ lik a b c' ≤ lik a b c := by
  have h1 := log_lik a b c ha hb hc.1.symm (by omega) hc.2
  have h2 := log_lik a b c' ha hb hc'.1.symm (by omega) hc'.2
  rw [← Real.log_le_log_iff (lik_pos a b c' ha hb) (lik_pos a b c ha hb), h1, h2]
  constructor <;> intro h <;> linarith

/-- marginals below 1/2 give positive weights (`a = P`, `b = 1 − P`) -/
theorem logOdds_pos (p : ℝ) (h0 : 0 < p) (h1 : p < 1 / 2) : 0 < -Real.log (p / (1 - p)) := by
  have hq : 0 < 1 - p := by linarith
  have hlt : p / (1 - p) < 1 := by rw [div_lt_one hq]; linarith
  have := Real.log_neg (div_pos h0 hq) hlt
  linarith

end Panqec

namespace Panqec

/-- optimality part of PyMatching's contract for the matrix `M`: among all binary
    solutions of `M c = sy`, the answer has minimum total weight -/
def SolverOptimalOn {K : Type} [Semiring K] [LE K] (n : Nat) (solve : WSolver K) (M : Mat) : Prop :=
  ∀ w sy c', Solves n M sy c' → wdot w (solve M w sy) ≤ wdot w c'

/-- a minimum-weight solver with positive weights answers the zero syndrome with the zero vector -/
theorem solver_zero_of_zero_syndrome {K : Type} [Field K] [LinearOrder K] [IsStrictOrderedRing K]
    (n : Nat) (solve : WSolver K) (M : Mat) (w : List K) (hw : ∀ x ∈ w, 0 < x) (hwl : w.length = n)
    (hv : SolverValidOn n solve M) (ho : SolverOptimalOn n solve M) :
    solve M w (List.replicate M.length 0) = List.replicate n 0 := by
  have hz : Solves n M (List.replicate M.length 0) (List.replicate n 0) :=
    ⟨by simp, by intro x hx; rw [List.mem_replicate] at hx; omega, sectorSyndrome_zeros M n⟩
  have hs := hv w _ ⟨_, hz.1, hz.2.2⟩
  have hle := ho w _ _ hz
  rw [wdot_zeros] at hle
  have hge := wdot_nonneg w (solve M w (List.replicate M.length 0)) hw
  have h0 : wdot w (solve M w (List.replicate M.length 0)) = 0 := le_antisymm hle hge
  have := eq_zeros_of_wdot_eq_zero w _ hw (by rw [hs.1, hwl]) h0
  rw [hs.1] at this
  exact this

end Panqec
