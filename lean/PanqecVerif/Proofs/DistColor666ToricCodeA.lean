/-
Color666ToricCode, all square sizes `L ≥ 1`, C17 part A: the hexagonal tiling of the sheared torus
in FACE coordinates.

The face `(a, j)` (`a, j ∈ ℤ`) is the hexagon centred at `(3a+2, 2+2a+4j)`; the period lattice
`⟨(9L, 6L), (0, 12L)⟩` of the class becomes `⟨(3L, 0), (0, 3L)⟩`: an UNSHEARED `3L × 3L` torus of
faces.  Every face owns its right corner `qR a j` (`x ≡ 1 mod 3`) and its left corner `qL a j`
(`x ≡ 0 mod 3`); its six corners are `qR a j, qL a j, qL (a+1) j, qL (a+1) (j−1), qR (a−1) (j+1),
qR (a−1) j`.

`cn L (px, py)` is the canonical representative of ANY point of the plane modulo the period
lattice (total version of the loop body `wrapP` of `get_stabilizer`, which it extends:
`wrapP_eq_cn`); `qR`, `qL` are `cn` of the plane coordinates, so they are periodic and two of them
are equal iff the face coordinates agree modulo `3L` (`Cg`).
-/
import Mathlib.Tactic.LinearCombination
import Mathlib.Tactic.Ring
import PanqecVerif.Proofs.LatColor666ToricCodeC

set_option linter.unusedVariables false

namespace Panqec.Color666ToricCode
open Panqec.Lat2D Panqec.Color
open Panqec.Color488Code (emod_small emod_neg_small)

/-! ### congruence modulo `3L` -/

/-- `x ≡ 0 (mod 3L)` -/
def Cg (L : Nat) (x : Int) : Prop := (3 * (L : Int)) ∣ x

theorem Cg.mod3 {L : Nat} {x : Int} (h : Cg L x) : x % 3 = 0 := by
  obtain ⟨k, hk⟩ := h
  have : x = 3 * ((L : Int) * k) := by rw [hk]; ring
  omega

theorem Cg.eq_zero {L : Nat} {x : Int} (h : Cg L x) (h1 : -(3 * (L : Int)) < x)
    (h2 : x < 3 * (L : Int)) : x = 0 := by
  have h0 : x % (3 * (L : Int)) = 0 := Int.emod_eq_zero_of_dvd h
  exact eq_zero_of_emod h0 h1 h2

theorem cg_zero (L : Nat) : Cg L 0 := ⟨0, by ring⟩
theorem cg_period (L : Nat) : Cg L (3 * (L : Int)) := ⟨1, by ring⟩

theorem Cg.congr {L : Nat} {x y : Int} (h : Cg L x) (e : y = x) : Cg L y := e ▸ h

theorem Cg.neg {L : Nat} {x : Int} (h : Cg L x) : Cg L (-x) := (Int.dvd_neg).mpr h
theorem Cg.add {L : Nat} {x y : Int} (h : Cg L x) (h' : Cg L y) : Cg L (x + y) := Int.dvd_add h h'
theorem Cg.sub {L : Nat} {x y : Int} (h : Cg L x) (h' : Cg L y) : Cg L (x - y) := Int.dvd_sub h h'
theorem Cg.mul {L : Nat} {x : Int} (h : Cg L x) (c : Int) : Cg L (c * x) := Dvd.dvd.mul_left h c

/-- `3x ≡ 0 (mod 3L)` iff `x ≡ 0 (mod L)` -/
theorem cg_three_mul {L : Nat} (hL : 1 ≤ L) {x : Int} : Cg L (3 * x) ↔ ((L : Int) ∣ x) := by
  unfold Cg
  exact Int.mul_dvd_mul_iff_left (by omega)

theorem cg_of_emod9 {L : Nat} {v : Int} (h : v % (9 * (L : Int)) = 0) : ∃ k, v = 9 * (L : Int) * k :=
  Int.dvd_of_emod_eq_zero h

/-! ### the canonical representative of a point of the plane -/

/-- the canonical representative of `(px, py)` modulo `⟨(9L, 6L), (0, 12L)⟩` in the domain `InD` -/
def cn (L : Nat) (px py : Int) : Coord :=
  let x := px % (9 * (L : Int))
  let y1 := py - 6 * ((L : Int) * (px / (9 * (L : Int))))
  let y2 := skew x + (y1 - skew x) % (12 * (L : Int))
  if x = 0 ∧ y2 = -2 then [0, 12 * (L : Int) - 2] else [x, y2]

theorem emod_sub_self (w n : Int) : (w % n - w) % n = 0 := by
  rw [← Int.emod_eq_emod_iff_emod_sub_eq_zero]
  exact Int.emod_emod _ _

theorem cn_spec {L : Nat} (hL : 1 ≤ L) (px py : Int) :
    ∃ qx qy, cn L px py = [qx, qy] ∧ InD L qx qy ∧ (9 * (L : Int)) ∣ (qx - px) ∧
      (36 * (L : Int)) ∣ ((3 * qy - 2 * qx) - (3 * py - 2 * px)) := by
  have hm : (0 : Int) < 9 * (L : Int) := by omega
  have hx0 := Int.emod_nonneg px (show 9 * (L : Int) ≠ 0 by omega)
  have hx1 := Int.emod_lt_of_pos px hm
  have hdiv : 9 * (L : Int) * (px / (9 * (L : Int))) + px % (9 * (L : Int)) = px :=
    Int.mul_ediv_add_emod px _
  generalize hT : (px / (9 * (L : Int))) = t at hdiv
  generalize hX : px % (9 * (L : Int)) = x at hdiv hx0 hx1
  have hr0 := Int.emod_nonneg (py - 6 * ((L : Int) * t) - skew x)
    (show 12 * (L : Int) ≠ 0 by omega)
  have hr1 := Int.emod_lt_of_pos (py - 6 * ((L : Int) * t) - skew x)
    (show (0 : Int) < 12 * (L : Int) by omega)
  obtain ⟨k, hk⟩ : (12 * (L : Int)) ∣
      ((py - 6 * ((L : Int) * t) - skew x) % (12 * (L : Int)) - (py - 6 * ((L : Int) * t) - skew x)) :=
    Int.dvd_of_emod_eq_zero (emod_sub_self _ _)
  unfold cn
  simp only [hT, hX]
  generalize hR : (py - 6 * ((L : Int) * t) - skew x) % (12 * (L : Int)) = r at hr0 hr1 hk
  by_cases hc : x = 0 ∧ skew x + r = -2
  · rw [if_pos hc]
    refine ⟨0, 12 * (L : Int) - 2, rfl, by unfold InD; omega, ⟨-t, ?_⟩, ⟨k + 1, ?_⟩⟩
    · obtain ⟨rfl, _⟩ := hc; linear_combination hdiv
    · obtain ⟨rfl, h2⟩ := hc
      linear_combination (3 : Int) * hk - (2 : Int) * hdiv - (3 : Int) * h2
  · rw [if_neg hc]
    refine ⟨x, skew x + r, rfl, ?_, ⟨-t, ?_⟩, ⟨k, ?_⟩⟩
    · unfold InD
      refine ⟨hx0, hx1, ?_⟩
      by_cases h0 : x = 0
      · left
        subst h0
        have : skew 0 = -2 := by decide
        rw [this] at hc ⊢
        omega
      · right; exact ⟨h0, by omega, by omega⟩
    · linear_combination hdiv
    · linear_combination (3 : Int) * hk - (2 : Int) * hdiv

theorem dvd_to_emod {m v : Int} (h : m ∣ v) : v % m = 0 := Int.emod_eq_zero_of_dvd h

/-- two canonical representatives are equal iff the points are congruent -/
theorem cn_eq_iff {L : Nat} (hL : 1 ≤ L) (px py px' py' : Int) :
    cn L px py = cn L px' py' ↔
      ((9 * (L : Int)) ∣ (px' - px) ∧
       (36 * (L : Int)) ∣ ((3 * py' - 2 * px') - (3 * py - 2 * px))) := by
  obtain ⟨qx, qy, e, hd, hx, hu⟩ := cn_spec hL px py
  obtain ⟨qx', qy', e', hd', hx', hu'⟩ := cn_spec hL px' py'
  rw [e, e']
  constructor
  · intro h
    simp only [List.cons.injEq, and_true] at h
    obtain ⟨rfl, rfl⟩ := h
    exact ⟨by have := Int.dvd_sub hx hx'; rwa [show qx - px - (qx - px') = px' - px by ring] at this,
      by have := Int.dvd_sub hu hu'
         rwa [show 3 * qy - 2 * qx - (3 * py - 2 * px) - (3 * qy - 2 * qx - (3 * py' - 2 * px')) =
           3 * py' - 2 * px' - (3 * py - 2 * px) by ring] at this⟩
  · rintro ⟨h1, h2⟩
    have a1 : (9 * (L : Int)) ∣ (qx' - qx) := by
      have := Int.dvd_sub (Int.dvd_add hx' h1) hx
      rwa [show qx' - px' + (px' - px) - (qx - px) = qx' - qx by ring] at this
    have a2 : (36 * (L : Int)) ∣ ((3 * qy' - 2 * qx') - (3 * qy - 2 * qx)) := by
      have := Int.dvd_sub (Int.dvd_add hu' h2) hu
      rwa [show 3 * qy' - 2 * qx' - (3 * py' - 2 * px') + (3 * py' - 2 * px' - (3 * py - 2 * px)) -
        (3 * qy - 2 * qx - (3 * py - 2 * px)) = 3 * qy' - 2 * qx' - (3 * qy - 2 * qx) by ring] at this
    have := canon_congr hd hd' (dvd_to_emod a1) (dvd_to_emod a2)
    rw [this.1, this.2]

/-- `cn` extends the loop body of `get_stabilizer` -/
theorem wrapP_eq_cn {L : Nat} (hL : 1 ≤ L) {px py : Int} (hn : Near L px py) :
    wrapP L px py = cn L px py := by
  obtain ⟨qx, qy, e, hd, hx, hu⟩ := wrapP_spec hL hn
  obtain ⟨qx', qy', e', hd', hx', hu'⟩ := cn_spec hL px py
  rw [e, e']
  have a1 : (9 * (L : Int)) ∣ (qx' - qx) := by
    rcases hx with rfl | rfl
    · exact hx'
    · have := Int.dvd_add hx' (Int.dvd_refl (9 * (L : Int)))
      rwa [show qx' - px + 9 * (L : Int) = qx' - (px - 9 * (L : Int)) by ring] at this
  have a2 : (36 * (L : Int)) ∣ ((3 * qy' - 2 * qx') - (3 * qy - 2 * qx)) := by
    rcases hu with h | h | h
    · rw [h]; exact hu'
    · rw [h]
      have := Int.dvd_add hu' (Int.dvd_refl (36 * (L : Int)))
      rwa [show 3 * qy' - 2 * qx' - (3 * py - 2 * px) + 36 * (L : Int) =
        3 * qy' - 2 * qx' - (3 * py - 2 * px - 36 * (L : Int)) by ring] at this
    · rw [h]
      have := Int.dvd_sub hu' (Int.dvd_refl (36 * (L : Int)))
      rwa [show 3 * qy' - 2 * qx' - (3 * py - 2 * px) - 36 * (L : Int) =
        3 * qy' - 2 * qx' - (3 * py - 2 * px + 36 * (L : Int)) by ring] at this
  have := canon_congr hd hd' (dvd_to_emod a1) (dvd_to_emod a2)
  rw [this.1, this.2]

/-! ### the qubits in face coordinates -/

/-- the right corner of the face `(a, j)` -/
def qR (L : Nat) (a j : Int) : Coord := cn L (3 * a + 4) (2 + 2 * a + 4 * j)
/-- the left corner of the face `(a, j)` -/
def qL (L : Nat) (a j : Int) : Coord := cn L (3 * a) (2 + 2 * a + 4 * j)

theorem dvd9_iff {L : Nat} (x : Int) : (9 * (L : Int)) ∣ (3 * x) ↔ Cg L x := by
  unfold Cg
  rw [show 9 * (L : Int) = 3 * (3 * (L : Int)) by ring]
  exact Int.mul_dvd_mul_iff_left (by omega)

theorem dvd36_iff {L : Nat} (x : Int) : (36 * (L : Int)) ∣ (12 * x) ↔ Cg L x := by
  unfold Cg
  rw [show 36 * (L : Int) = 12 * (3 * (L : Int)) by ring]
  exact Int.mul_dvd_mul_iff_left (by omega)

theorem qR_eq_iff {L : Nat} (hL : 1 ≤ L) (a j a' j' : Int) :
    qR L a j = qR L a' j' ↔ (Cg L (a' - a) ∧ Cg L (j' - j)) := by
  unfold qR
  rw [cn_eq_iff hL,
    show 3 * a' + 4 - (3 * a + 4) = 3 * (a' - a) by ring,
    show 3 * (2 + 2 * a' + 4 * j') - 2 * (3 * a' + 4) - (3 * (2 + 2 * a + 4 * j) - 2 * (3 * a + 4))
      = 12 * (j' - j) by ring, dvd9_iff, dvd36_iff]

theorem qL_eq_iff {L : Nat} (hL : 1 ≤ L) (a j a' j' : Int) :
    qL L a j = qL L a' j' ↔ (Cg L (a' - a) ∧ Cg L (j' - j)) := by
  unfold qL
  rw [cn_eq_iff hL,
    show 3 * a' - (3 * a) = 3 * (a' - a) by ring,
    show 3 * (2 + 2 * a' + 4 * j') - 2 * (3 * a') - (3 * (2 + 2 * a + 4 * j) - 2 * (3 * a))
      = 12 * (j' - j) by ring, dvd9_iff, dvd36_iff]

theorem qR_ne_qL {L : Nat} (hL : 1 ≤ L) (a j a' j' : Int) : qR L a j ≠ qL L a' j' := by
  unfold qR qL
  intro h
  obtain ⟨⟨k, hk⟩, _⟩ := (cn_eq_iff hL _ _ _ _).mp h
  have : 3 * a' - (3 * a + 4) = 3 * (3 * ((L : Int) * k)) := by rw [hk]; ring
  omega

theorem mod3_of_dvd9 {L : Nat} {v : Int} (h : (9 * (L : Int)) ∣ v) : v % 3 = 0 := by
  obtain ⟨k, hk⟩ := h
  have : v = 3 * (3 * ((L : Int) * k)) := by rw [hk]; ring
  omega

theorem mod12_of_dvd36 {L : Nat} {v : Int} (h : (36 * (L : Int)) ∣ v) : v % 12 = 0 := by
  obtain ⟨k, hk⟩ := h
  have : v = 12 * (3 * ((L : Int) * k)) := by rw [hk]; ring
  omega

theorem qR_qubit {L : Nat} (hL : 1 ≤ L) (a j : Int) : qR L a j ∈ qubits L L := by
  obtain ⟨qx, qy, e, hd, hx, hu⟩ := cn_spec hL (3 * a + 4) (2 + 2 * a + 4 * j)
  unfold qR
  rw [e, mem_qubits' hL]
  have h3 := mod3_of_dvd9 hx
  have h12 := mod12_of_dvd36 hu
  exact ⟨hd, by omega⟩

theorem qL_qubit {L : Nat} (hL : 1 ≤ L) (a j : Int) : qL L a j ∈ qubits L L := by
  obtain ⟨qx, qy, e, hd, hx, hu⟩ := cn_spec hL (3 * a) (2 + 2 * a + 4 * j)
  unfold qL
  rw [e, mem_qubits' hL]
  have h3 := mod3_of_dvd9 hx
  have h12 := mod12_of_dvd36 hu
  exact ⟨hd, by omega⟩

/-! ### the six corners of a face -/

/-- the corners of the face `(a, j)`, in the delta order of `get_stabilizer` -/
def corners (L : Nat) (a j : Int) : List Coord :=
  [qR L (a - 1) j, qL L (a + 1) (j - 1), qR L a j, qL L (a + 1) j, qR L (a - 1) (j + 1), qL L a j]

theorem supp_eq_cn {L : Nat} (hL : 1 ≤ L) {x y : Int} (hf : IsF L x y) :
    supp L x y = [cn L (x + -1) (y + -2), cn L (x + 1) (y + -2), cn L (x + 2) (y + 0),
      cn L (x + 1) (y + 2), cn L (x + -1) (y + 2), cn L (x + -2) (y + 0)] := by
  unfold supp
  rw [wrapP_eq_cn hL (near_corner hL hf (Or.inl ⟨rfl, rfl⟩)),
    wrapP_eq_cn hL (near_corner hL hf (Or.inr (Or.inl ⟨rfl, rfl⟩))),
    wrapP_eq_cn hL (near_corner hL hf (Or.inr (Or.inr (Or.inl ⟨rfl, rfl⟩)))),
    wrapP_eq_cn hL (near_corner hL hf (Or.inr (Or.inr (Or.inr (Or.inl ⟨rfl, rfl⟩))))),
    wrapP_eq_cn hL (near_corner hL hf (Or.inr (Or.inr (Or.inr (Or.inr (Or.inl ⟨rfl, rfl⟩)))))),
    wrapP_eq_cn hL (near_corner hL hf (Or.inr (Or.inr (Or.inr (Or.inr (Or.inr ⟨rfl, rfl⟩))))))]

/-- every generator location is a face `(a, j)` -/
theorem face_of_isF {L : Nat} (hL : 1 ≤ L) {x y : Int} (hf : IsF L x y) :
    ∃ a j, supp L x y = corners L a j := by
  refine ⟨(x - 2) / 3, (y - 2 - 2 * ((x - 2) / 3)) / 4, ?_⟩
  rw [supp_eq_cn hL hf]
  unfold IsF skew at hf
  unfold corners qR qL
  have ex : x = 3 * ((x - 2) / 3) + 2 := by omega
  have ey : y = 2 + 2 * ((x - 2) / 3) + 4 * ((y - 2 - 2 * ((x - 2) / 3)) / 4) := by omega
  generalize (x - 2) / 3 = a at ex ey
  generalize (y - 2 - 2 * a) / 4 = j at ey
  subst ex ey
  congr 1
  · congr 1 <;> ring
  congr 1
  · congr 1 <;> ring
  congr 1
  · congr 1 <;> ring
  congr 1
  · congr 1 <;> ring
  congr 1
  · congr 1 <;> ring
  congr 1
  · congr 1 <;> ring

/-- every face `(a, j)` of the plane is (congruent to) a generator location -/
theorem isF_of_face {L : Nat} (hL : 1 ≤ L) (a j : Int) :
    ∃ x y, IsF L x y ∧ supp L x y = corners L a j := by
  obtain ⟨fx, fy, e, hd, hx, hu⟩ := cn_spec hL (3 * a + 2) (2 + 2 * a + 4 * j)
  have h3 := mod3_of_dvd9 hx
  have h12 := mod12_of_dvd36 hu
  have hf : IsF L fx fy := by
    unfold InD skew at hd
    unfold IsF skew
    omega
  refine ⟨fx, fy, hf, ?_⟩
  rw [supp_eq_cn hL hf]
  unfold corners qR qL
  have key : ∀ dx dy px py : Int, px = 3 * a + 2 + dx → py = 2 + 2 * a + 4 * j + dy →
      cn L (fx + dx) (fy + dy) = cn L px py := by
    intro dx dy px py e1 e2
    subst e1 e2
    rw [cn_eq_iff hL]
    constructor
    · have := (Int.dvd_neg).mpr hx
      rwa [show -(fx - (3 * a + 2)) = 3 * a + 2 + dx - (fx + dx) by ring] at this
    · have := (Int.dvd_neg).mpr hu
      rwa [show -(3 * fy - 2 * fx - (3 * (2 + 2 * a + 4 * j) - 2 * (3 * a + 2))) =
        3 * (2 + 2 * a + 4 * j + dy) - 2 * (3 * a + 2 + dx) - (3 * (fy + dy) - 2 * (fx + dx))
        by ring] at this
  rw [key (-1) (-2) (3 * (a - 1) + 4) (2 + 2 * (a - 1) + 4 * j) (by ring) (by ring),
    key 1 (-2) (3 * (a + 1)) (2 + 2 * (a + 1) + 4 * (j - 1)) (by ring) (by ring),
    key 2 0 (3 * a + 4) (2 + 2 * a + 4 * j) (by ring) (by ring),
    key 1 2 (3 * (a + 1)) (2 + 2 * (a + 1) + 4 * j) (by ring) (by ring),
    key (-1) 2 (3 * (a - 1) + 4) (2 + 2 * (a - 1) + 4 * (j + 1)) (by ring) (by ring),
    key (-2) 0 (3 * a) (2 + 2 * a + 4 * j) (by ring) (by ring)]

end Panqec.Color666ToricCode
