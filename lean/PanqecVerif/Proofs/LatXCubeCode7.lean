/-
XCubeCode lattice model: overlap counts between the logical X families and the logical Z families
living on edges of the same direction (the ingredients of the pairing table).  Sizes ≥ 1.
-/
import PanqecVerif.Proofs.Lat3DbPair
import PanqecVerif.Proofs.LatXCubeCode5
open Panqec Panqec.Lat3Db
set_option linter.unusedSectionVars false
namespace Panqec.XCubeCode

theorem ovl_map_range (a b : Nat) (f : Int → Coord) (K : List Coord) :
    ovl ((pyRange2 a b).map f) K = (pyRange2 a b).countP (fun t => K.contains (f t)) := by
  unfold ovl; rw [List.countP_map]; rfl

theorem zero_mem_E (L : Nat) (h : 1 ≤ L) : (0 : Int) ∈ pyRange2 0 (2*L) := by
  rw [mem_pyRange2_0]; unfold R0; omega

theorem E2_sub_E (L : Nat) (z : Int) (h : z ∈ pyRange2 2 (2*L)) : z ∈ pyRange2 0 (2*L) ∧ z ≠ 0 := by
  rw [mem_pyRange2_2] at h; rw [mem_pyRange2_0]; unfold R2 at h; unfold R0; omega

section
variable (Lx Ly Lz : Nat) (hx : 1 ≤ Lx) (hy : 1 ≤ Ly) (hz : 1 ≤ Lz)
include hx hy hz

/-! ### x-edges -/

theorem pA11 (y y' : Int) : ovl (kXA1 Lz y) (kZA1 Lx y') = if y = y' then 1 else 0 := by
  unfold kXA1; rw [ovl_map_range]
  by_cases h : y = y'
  · rw [if_pos h]
    apply countP_iff_point _ 0 _ (nodup_pyRange2 _ _) (zero_mem_E Lz hz)
    intro z _; simp only [List.contains_iff_mem, mem_kZA1]; unfold R1; omega
  · rw [if_neg h]
    apply countP_iff_none
    intro z _; simp only [List.contains_iff_mem, mem_kZA1]; omega

theorem pA22 (z z' : Int) (hz0 : z ≠ 0) : ovl (kXA2 Ly z) (kZA2 Lx z') = if z = z' then 1 else 0 := by
  unfold kXA2; rw [ovl_map_range]
  by_cases h : z = z'
  · rw [if_pos h]
    apply countP_iff_point _ 0 _ (nodup_pyRange2 _ _) (zero_mem_E Ly hy)
    intro y _; simp only [List.contains_iff_mem, mem_kZA2]; unfold R1; omega
  · rw [if_neg h]
    apply countP_iff_none
    intro y _; simp only [List.contains_iff_mem, mem_kZA2]; omega

theorem pA12 (y z' : Int) (hz' : z' ∈ pyRange2 2 (2*Lz)) : ovl (kXA1 Lz y) (kZA2 Lx z') % 2 = 0 := by
  unfold kXA1; rw [ovl_map_range]
  obtain ⟨hm, hne⟩ := E2_sub_E Lz z' hz'
  by_cases h : y = 0
  · rw [countP_iff_two_points _ 0 z' _ (nodup_pyRange2 _ _) (zero_mem_E Lz hz) hm (Ne.symm hne)]
    intro z _; simp only [List.contains_iff_mem, mem_kZA2]; unfold R1; omega
  · rw [countP_iff_none]
    intro z _; simp only [List.contains_iff_mem, mem_kZA2]; omega

theorem pA21 (z y' : Int) (hz0 : z ≠ 0) : ovl (kXA2 Ly z) (kZA1 Lx y') % 2 = 0 := by
  unfold kXA2; rw [ovl_map_range, countP_iff_none]
  intro y _; simp only [List.contains_iff_mem, mem_kZA1]; omega

/-! ### y-edges -/

theorem pB11 (x x' : Int) : ovl (kXB1 Lz x) (kZB1 Ly x') = if x = x' then 1 else 0 := by
  unfold kXB1; rw [ovl_map_range]
  by_cases h : x = x'
  · rw [if_pos h]
    apply countP_iff_point _ 0 _ (nodup_pyRange2 _ _) (zero_mem_E Lz hz)
    intro z _; simp only [List.contains_iff_mem, mem_kZB1]; unfold R1; omega
  · rw [if_neg h]
    apply countP_iff_none
    intro z _; simp only [List.contains_iff_mem, mem_kZB1]; omega

theorem pB22 (z z' : Int) (hz0 : z ≠ 0) : ovl (kXB2 Lx z) (kZB2 Ly z') = if z = z' then 1 else 0 := by
  unfold kXB2; rw [ovl_map_range]
  by_cases h : z = z'
  · rw [if_pos h]
    apply countP_iff_point _ 0 _ (nodup_pyRange2 _ _) (zero_mem_E Lx hx)
    intro x _; simp only [List.contains_iff_mem, mem_kZB2]; unfold R1; omega
  · rw [if_neg h]
    apply countP_iff_none
    intro x _; simp only [List.contains_iff_mem, mem_kZB2]; omega

theorem pB12 (x z' : Int) (hz' : z' ∈ pyRange2 2 (2*Lz)) : ovl (kXB1 Lz x) (kZB2 Ly z') % 2 = 0 := by
  unfold kXB1; rw [ovl_map_range]
  obtain ⟨hm, hne⟩ := E2_sub_E Lz z' hz'
  by_cases h : x = 0
  · rw [countP_iff_two_points _ 0 z' _ (nodup_pyRange2 _ _) (zero_mem_E Lz hz) hm (Ne.symm hne)]
    intro z _; simp only [List.contains_iff_mem, mem_kZB2]; unfold R1; omega
  · rw [countP_iff_none]
    intro z _; simp only [List.contains_iff_mem, mem_kZB2]; omega

theorem pB21 (z x' : Int) (hz0 : z ≠ 0) : ovl (kXB2 Lx z) (kZB1 Ly x') % 2 = 0 := by
  unfold kXB2; rw [ovl_map_range, countP_iff_none]
  intro x _; simp only [List.contains_iff_mem, mem_kZB1]; omega

/-! ### z-edges -/

theorem pC11 (x x' : Int) : ovl (kXC1 Ly x) (kZC1 Lz x') = if x = x' then 1 else 0 := by
  unfold kXC1; rw [ovl_map_range]
  by_cases h : x = x'
  · rw [if_pos h]
    apply countP_iff_point _ 0 _ (nodup_pyRange2 _ _) (zero_mem_E Ly hy)
    intro y _; simp only [List.contains_iff_mem, mem_kZC1]; unfold R1; omega
  · rw [if_neg h]
    apply countP_iff_none
    intro y _; simp only [List.contains_iff_mem, mem_kZC1]; omega

theorem pC22 (y y' : Int) (hy0 : y ≠ 0) : ovl (kXC2 Lx y) (kZC2 Lz y') = if y = y' then 1 else 0 := by
  unfold kXC2; rw [ovl_map_range]
  by_cases h : y = y'
  · rw [if_pos h]
    apply countP_iff_point _ 0 _ (nodup_pyRange2 _ _) (zero_mem_E Lx hx)
    intro x _; simp only [List.contains_iff_mem, mem_kZC2]; unfold R1; omega
  · rw [if_neg h]
    apply countP_iff_none
    intro x _; simp only [List.contains_iff_mem, mem_kZC2]; omega

theorem pC12 (x y' : Int) (hy' : y' ∈ pyRange2 2 (2*Ly)) : ovl (kXC1 Ly x) (kZC2 Lz y') % 2 = 0 := by
  unfold kXC1; rw [ovl_map_range]
  obtain ⟨hm, hne⟩ := E2_sub_E Ly y' hy'
  by_cases h : x = 0
  · rw [countP_iff_two_points _ 0 y' _ (nodup_pyRange2 _ _) (zero_mem_E Ly hy) hm (Ne.symm hne)]
    intro y _; simp only [List.contains_iff_mem, mem_kZC2]; unfold R1; omega
  · rw [countP_iff_none]
    intro y _; simp only [List.contains_iff_mem, mem_kZC2]; omega

theorem pC21 (y x' : Int) (hy0 : y ≠ 0) : ovl (kXC2 Lx y) (kZC1 Lz x') % 2 = 0 := by
  unfold kXC2; rw [ovl_map_range, countP_iff_none]
  intro x _; simp only [List.contains_iff_mem, mem_kZC1]; omega

end
end Panqec.XCubeCode
