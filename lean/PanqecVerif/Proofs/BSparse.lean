/-
Helper lemmas for `Properties/C03BSparse.lean` (model of `panqec/bsparse.py`).  Core Lean only.
-/
import PanqecVerif.Model.BSparse
import PanqecVerif.Model.Bits

namespace Panqec.BSp

/-- decidable equality of results, so that concrete instances can be closed by `decide` -/
instance instDecEqExcept {ε α} [DecidableEq ε] [DecidableEq α] : DecidableEq (Except ε α)
  | .ok a, .ok b => if h : a = b then isTrue (by rw [h]) else isFalse (fun h' => h (by injection h'))
  | .error a, .error b => if h : a = b then isTrue (by rw [h]) else isFalse (fun h' => h (by injection h'))
  | .ok _, .error _ => isFalse (fun h => by injection h)
  | .error _, .ok _ => isFalse (fun h => by injection h)

/-! ### `sortUniq` -/

theorem mem_insSorted (c x : Nat) (l : List Nat) : x ∈ insSorted c l ↔ x = c ∨ x ∈ l := by
  induction l with
  | nil => simp [insSorted]
  | cons y ys ih =>
    unfold insSorted
    by_cases h1 : c < y
    · simp [h1]
    · by_cases h2 : c = y
      · subst h2; simp
      · simp only [h1, h2, if_false, List.mem_cons, ih]
        constructor
        · rintro (h | h | h) <;> simp [h]
        · rintro (h | h | h) <;> simp [h]

theorem mem_sortUniq (x : Nat) (l : List Nat) : x ∈ sortUniq l ↔ x ∈ l := by
  induction l with
  | nil => simp [sortUniq]
  | cons y ys ih =>
    have : sortUniq (y :: ys) = insSorted y (sortUniq ys) := rfl
    rw [this, mem_insSorted, ih]; simp

theorem insSorted_pairwise (c : Nat) (l : List Nat) (h : l.Pairwise (· < ·)) :
    (insSorted c l).Pairwise (· < ·) := by
  induction l with
  | nil => simp [insSorted]
  | cons y ys ih =>
    unfold insSorted
    rw [List.pairwise_cons] at h
    by_cases h1 : c < y
    · simp only [h1, if_true, List.pairwise_cons]
      refine ⟨?_, h.1, h.2⟩
      intro a ha
      rcases List.mem_cons.mp ha with rfl | ha
      · exact h1
      · exact Nat.lt_trans h1 (h.1 a ha)
    · by_cases h2 : c = y
      · subst h2
        simp only [Nat.lt_irrefl, if_false, if_true]
        exact List.pairwise_cons.mpr h
      · simp only [h1, h2, if_false, List.pairwise_cons]
        refine ⟨?_, ih h.2⟩
        intro a ha
        rcases (mem_insSorted c a ys).mp ha with rfl | ha
        · omega
        · exact h.1 a ha

theorem sortUniq_pairwise (l : List Nat) : (sortUniq l).Pairwise (· < ·) := by
  induction l with
  | nil => simp [sortUniq]
  | cons y ys ih => exact insSorted_pairwise y _ ih

theorem sortUniq_nodup (l : List Nat) : (sortUniq l).Nodup := by
  have := sortUniq_pairwise l
  exact this.imp (fun h => Nat.ne_of_lt h)

/-- an ascending duplicate-free list is a fixed point of `sortUniq` -/
theorem insSorted_of_lt_all (c : Nat) (l : List Nat) (h : ∀ x ∈ l, c < x) :
    insSorted c l = c :: l := by
  cases l with
  | nil => rfl
  | cons y ys => simp [insSorted, h y (by simp)]

theorem sortUniq_of_pairwise (l : List Nat) (h : l.Pairwise (· < ·)) : sortUniq l = l := by
  induction l with
  | nil => rfl
  | cons y ys ih =>
    rw [List.pairwise_cons] at h
    have : sortUniq (y :: ys) = insSorted y (sortUniq ys) := rfl
    rw [this, ih h.2, insSorted_of_lt_all y ys h.1]

/-! ### column sums -/

theorem colSum_nil (c : Nat) : colSum c [] = 0 := rfl

theorem colSum_cons (c : Nat) (e : Entry) (r : List Entry) :
    colSum c (e :: r) = (if e.1 = c then e.2 else 0) + colSum c r := by
  unfold colSum
  by_cases h : e.1 = c
  · simp [h]
  · simp [h]

theorem colSum_append (c : Nat) (r s : List Entry) : colSum c (r ++ s) = colSum c r + colSum c s := by
  induction r with
  | nil => simp [colSum_nil]
  | cons e r ih => rw [List.cons_append, colSum_cons, colSum_cons, ih]; omega

theorem colSum_eq_zero_of_not_mem (c : Nat) (r : List Entry) (h : c ∉ r.map (·.1)) : colSum c r = 0 := by
  induction r with
  | nil => rfl
  | cons e r ih =>
    rw [colSum_cons]
    simp only [List.map_cons, List.mem_cons, not_or] at h
    rw [ih h.2]
    have : ¬ e.1 = c := fun h' => h.1 h'.symm
    simp [this]

/-- a row built from a duplicate-free column list -/
theorem colSum_map_nodup (c : Nat) (g : Nat → Nat) (L : List Nat) (h : L.Nodup) :
    colSum c (L.map fun c' => (c', g c')) = if c ∈ L then g c else 0 := by
  induction L with
  | nil => rfl
  | cons y ys ih =>
    rw [List.nodup_cons] at h
    rw [List.map_cons, colSum_cons, ih h.2]
    by_cases h1 : y = c
    · subst h1; simp [h.1]
    · have : ¬ c = y := fun h' => h1 h'.symm
      simp [h1, this]

theorem colSum_castRow_u8 (c : Nat) (r : List Entry) :
    colSum c (castRow .u8 r) % 256 = colSum c r % 256 := by
  induction r with
  | nil => rfl
  | cons e r ih =>
    unfold castRow at ih ⊢
    rw [List.map_cons, colSum_cons, colSum_cons]
    show ((if e.1 = c then e.2 % 256 else 0) +
      colSum c (List.map (fun e => (e.fst, castVal DT.u8 e.snd)) r)) % 256 = _
    generalize colSum c (List.map (fun e => (e.fst, castVal DT.u8 e.snd)) r) = X at ih ⊢
    generalize colSum c r = Y at ih ⊢
    by_cases h : e.1 = c
    · rw [if_pos h, if_pos h]; omega
    · rw [if_neg h, if_neg h]; omega

/-- `sum_duplicates()` does not change the dense `uint8` value of any column -/
theorem colSum_canonRow (c : Nat) (r : List Entry) : colSum c (canonRow r) % 256 = colSum c r % 256 := by
  unfold canonRow
  rw [colSum_map_nodup c (fun c' => colSum c' r % 256) _ (sortUniq_nodup _)]
  by_cases h : c ∈ r.map (·.1)
  · simp [mem_sortUniq, h]
  · rw [if_neg (by rw [mem_sortUniq]; exact h), colSum_eq_zero_of_not_mem c r h]

theorem castRow_u8_idem (r : List Entry) : castRow .u8 (castRow .u8 r) = castRow .u8 r := by
  unfold castRow
  simp [castVal]

theorem canonRow_cols (r : List Entry) : (canonRow r).map (·.1) = sortUniq (r.map (·.1)) := by
  unfold canonRow
  rw [List.map_map]
  exact List.map_id' _

theorem castRow_canonRow (r : List Entry) : castRow .u8 (canonRow r) = canonRow r := by
  unfold castRow canonRow
  simp [castVal]

theorem denseVal_u8 (r : List Entry) (c : Nat) : denseVal .u8 r c = colSum c r % 256 := by
  unfold denseVal
  simp only [reduceIn]
  exact colSum_castRow_u8 c r

theorem denseRow_canonRow (n : Nat) (r : List Entry) :
    denseRow .u8 n (canonRow r) = denseRow .u8 n r := by
  unfold denseRow
  apply List.map_congr_left
  intro c _
  rw [denseVal_u8, denseVal_u8, colSum_canonRow]


/-! ### `insert_mod2` -/

/-- the column list after `insert_mod2(index, ·)` -/
def insCols (i : Nat) (cols : List Nat) : List Nat :=
  if i ∈ cols then sortUniq (cols.filter (· ≠ i)) else cols ++ [i]

theorem mem_insCols (i j : Nat) (cols : List Nat) :
    j ∈ insCols i cols ↔ if j = i then i ∉ cols else j ∈ cols := by
  unfold insCols
  by_cases hi : i ∈ cols
  · rw [if_pos hi, mem_sortUniq]
    by_cases hj : j = i
    · subst hj; simp [hi]
    · simp [hj]
  · rw [if_neg hi]
    by_cases hj : j = i
    · subst hj; simp [hi]
    · simp [hj]

theorem decide_mem_insCols_self (i : Nat) (cols : List Nat) :
    decide (i ∈ insCols i cols) = !decide (i ∈ cols) := by
  have h := mem_insCols i i cols
  rw [if_pos rfl] at h
  by_cases hc : i ∈ cols
  · have : i ∉ insCols i cols := fun h' => (h.mp h') hc
    rw [decide_eq_false this, decide_eq_true hc]; rfl
  · have : i ∈ insCols i cols := h.mpr hc
    rw [decide_eq_true this, decide_eq_false hc]; rfl

theorem decide_mem_insCols_other (i j : Nat) (cols : List Nat) (hj : j ≠ i) :
    decide (j ∈ insCols i cols) = decide (j ∈ cols) := by
  have h := mem_insCols i j cols
  rw [if_neg hj] at h
  exact decide_eq_decide.mpr h

theorem insCols_nodup (i : Nat) (cols : List Nat) (h : cols.Nodup) : (insCols i cols).Nodup := by
  unfold insCols
  by_cases hi : i ∈ cols
  · rw [if_pos hi]; exact sortUniq_nodup _
  · rw [if_neg hi]
    rw [List.nodup_append]
    refine ⟨h, by simp, ?_⟩
    intro a ha b hb
    simp only [List.mem_singleton] at hb
    subst hb
    intro hab; subst hab; exact hi ha

theorem indices_single (nc : Nat) (dt : DT) (r : List Entry) :
    (Csr.mk nc dt [r]).indices = r.map (·.1) := by
  simp [Csr.indices]

theorem insertMod2_row (i nc : Nat) (dt : DT) (r : List Entry) :
    insertMod2 i (.csr ⟨nc, dt, [r]⟩) =
      .ok ⟨nc, .u8, [(insCols i (r.map (·.1))).map fun c => (c, 1)]⟩ := by
  unfold insertMod2
  simp only [List.length_cons, List.length_nil, indices_single]
  rfl

theorem isOne_row (j nc : Nat) (dt : DT) (r : List Entry) :
    isOne j (.csr ⟨nc, dt, [r]⟩) = .ok (decide (j ∈ r.map (·.1))) := by
  show Except.ok (decide (j ∈ (Csr.mk nc dt [r]).indices)) = _
  rw [indices_single]

theorem map_pair_fst (L : List Nat) : (L.map fun c => ((c, 1) : Entry)).map (·.1) = L := by
  rw [List.map_map]; exact List.map_id' _

/-- dense `uint8` value of a row that stores ones at a duplicate-free column list -/
theorem denseVal_ones (L : List Nat) (h : L.Nodup) (c : Nat) :
    denseVal .u8 (L.map fun c' => ((c', 1) : Entry)) c = if c ∈ L then 1 else 0 := by
  rw [denseVal_u8, colSum_map_nodup c (fun _ => 1) L h]
  by_cases hc : c ∈ L <;> simp [hc]

/-! ### `hsplit` after `hstack` -/

theorem filter_lt_hcat (n : Nat) (ra rb : List Entry) (ha : ∀ e ∈ ra, e.1 < n) :
    (ra ++ shiftRow n rb).filter (fun e => decide (e.1 < n)) = ra := by
  rw [List.filter_append]
  have h1 : ra.filter (fun e => decide (e.1 < n)) = ra :=
    List.filter_eq_self.mpr (fun e he => by simp [ha e he])
  have h2 : (shiftRow n rb).filter (fun e => decide (e.1 < n)) = [] := by
    rw [List.filter_eq_nil_iff]
    intro e he
    unfold shiftRow at he
    rcases List.mem_map.mp he with ⟨e', _, rfl⟩
    simp
  rw [h1, h2, List.append_nil]

theorem filter_ge_hcat (n : Nat) (ra rb : List Entry) (ha : ∀ e ∈ ra, e.1 < n) :
    ((ra ++ shiftRow n rb).filter (fun e => decide (n ≤ e.1))).map (fun e => (e.1 - n, e.2)) = rb := by
  rw [List.filter_append]
  have h1 : ra.filter (fun e => decide (n ≤ e.1)) = [] := by
    rw [List.filter_eq_nil_iff]
    intro e he
    have := ha e he
    simp; omega
  have h2 : (shiftRow n rb).filter (fun e => decide (n ≤ e.1)) = shiftRow n rb := by
    apply List.filter_eq_self.mpr
    intro e he
    unfold shiftRow at he
    rcases List.mem_map.mp he with ⟨e', _, rfl⟩
    simp
  rw [h1, h2, List.nil_append]
  unfold shiftRow
  rw [List.map_map]
  have : ((fun e : Entry => (e.1 - n, e.2)) ∘ fun e : Entry => (e.1 + n, e.2)) = id := by
    funext e; simp
  rw [this, List.map_id]

theorem map_filter_lt_hcat2 (n : Nat) (A B : List (List Entry)) (hl : A.length = B.length)
    (hA : ∀ r ∈ A, ∀ e ∈ r, e.1 < n) :
    (hcat2 n A B).map (fun r => r.filter fun e => decide (e.1 < n)) = A := by
  induction A generalizing B with
  | nil => simp [hcat2]
  | cons ra A ih =>
    cases B with
    | nil => simp at hl
    | cons rb B =>
      unfold hcat2
      rw [List.zipWith_cons_cons, List.map_cons, filter_lt_hcat n ra rb (hA ra (by simp))]
      congr 1
      exact ih B (by simpa using hl) (fun r hr => hA r (by simp [hr]))

theorem map_filter_ge_hcat2 (n : Nat) (A B : List (List Entry)) (hl : A.length = B.length)
    (hA : ∀ r ∈ A, ∀ e ∈ r, e.1 < n) :
    (hcat2 n A B).map (fun r => (r.filter fun e => decide (n ≤ e.1)).map fun e => (e.1 - n, e.2)) = B := by
  induction A generalizing B with
  | nil => cases B with
    | nil => simp [hcat2]
    | cons _ _ => simp at hl
  | cons ra A ih =>
    cases B with
    | nil => simp at hl
    | cons rb B =>
      unfold hcat2
      rw [List.zipWith_cons_cons, List.map_cons, filter_ge_hcat n ra rb (hA ra (by simp))]
      congr 1
      exact ih B (by simpa using hl) (fun r hr => hA r (by simp [hr]))

theorem hcat2_length (n : Nat) (A B : List (List Entry)) (hl : A.length = B.length) :
    (hcat2 n A B).length = A.length := by
  unfold hcat2; simp [hl]

/-- `hstack` of two `uint8` csr matrices of equal height: rows side by side, nothing re-ordered -/
theorem hstack_two_u8 (na nb : Nat) (A B : List (List Entry)) (hl : A.length = B.length) :
    hstack [.csr ⟨na, .u8, A⟩, .csr ⟨nb, .u8, B⟩] = .ok ⟨na + nb, .u8, hcat2 na A B⟩ := by
  simp [hstack, Arg.isCsr, blockRaw, finishStack, DT.promote, hl]


/-! ### `dot` -/

theorem bitsDot_map_map (l : List Nat) (f g : Nat → Nat) :
    Panqec.dot (l.map f) (l.map g) = (l.map fun c => f c * g c).sum := by
  induction l with
  | nil => rfl
  | cons x xs ih => simp [Panqec.dot, ih]

theorem sum_indicator (l : List Nat) (p : Nat → Bool) :
    (l.map fun c => if p c then 1 else 0).sum = (l.filter p).length := by
  induction l with
  | nil => rfl
  | cons x xs ih =>
    rw [List.map_cons, List.sum_cons, ih, List.filter_cons]
    by_cases h : p x <;> simp [h]; omega

/-- `len(np.intersect1d(A, B))` counts the columns below `n` that occur in both index lists -/
theorem nCommon_eq_count (n : Nat) (A B : List Nat) (hA : ∀ c ∈ A, c < n) :
    nCommon A B = ((List.range n).filter fun c => decide (c ∈ A) && decide (c ∈ B)).length := by
  unfold nCommon
  apply List.Perm.length_eq
  rw [List.perm_ext_iff_of_nodup ((sortUniq_nodup A).filter _) (List.nodup_range.filter _)]
  intro c
  simp only [List.mem_filter, mem_sortUniq, List.mem_range, decide_eq_true_eq, Bool.and_eq_true]
  constructor
  · rintro ⟨h1, h2⟩; exact ⟨hA c h1, h1, h2⟩
  · rintro ⟨_, h1, h2⟩; exact ⟨h1, h2⟩

/-- for rows that store ones at duplicate-free in-range columns, the intersection count is the
    integer inner product of the dense rows (the `dot` of `Model/Bits.lean`) -/
theorem nCommon_eq_bitsDot (n : Nat) (A B : List Nat) (hA : ∀ c ∈ A, c < n)
    (hnA : A.Nodup) (hnB : B.Nodup) :
    nCommon A B = Panqec.dot (denseRow .u8 n (A.map fun c => ((c, 1) : Entry)))
                             (denseRow .u8 n (B.map fun c => ((c, 1) : Entry))) := by
  unfold denseRow
  rw [bitsDot_map_map, nCommon_eq_count n A B hA, ← sum_indicator]
  congr 1
  apply List.map_congr_left
  intro c _
  rw [denseVal_ones A hnA, denseVal_ones B hnB]
  by_cases h1 : c ∈ A <;> by_cases h2 : c ∈ B <;> simp [h1, h2]

/-! ### `to_array (from_array ·)` -/

theorem colSum_fromDenseRowAux (k c : Nat) (vs : List Nat) :
    colSum c (fromDenseRowAux k vs) = if k ≤ c then (vs.getD (c - k) 0) % 256 else 0 := by
  induction vs generalizing k with
  | nil => simp [fromDenseRowAux, colSum_nil]
  | cons v vs ih =>
    unfold fromDenseRowAux
    by_cases hv : v = 0
    · rw [if_pos hv, ih (k + 1)]
      by_cases h1 : k + 1 ≤ c
      · have h2 : k ≤ c := by omega
        rw [if_pos h1, if_pos h2]
        have : c - k = (c - (k + 1)) + 1 := by omega
        rw [this, List.getD_cons_succ]
      · rw [if_neg h1]
        by_cases h2 : k ≤ c
        · have : c - k = 0 := by omega
          rw [if_pos h2, this]; simp [hv]
        · rw [if_neg h2]
    · rw [if_neg hv, colSum_cons, ih (k + 1)]
      by_cases h1 : k + 1 ≤ c
      · have h2 : k ≤ c := by omega
        have h3 : ¬ k = c := by omega
        rw [if_pos h1, if_pos h2, if_neg h3]
        have : c - k = (c - (k + 1)) + 1 := by omega
        rw [this, List.getD_cons_succ]; omega
      · rw [if_neg h1]
        by_cases h2 : k ≤ c
        · have h3 : k = c := by omega
          have : c - k = 0 := by omega
          rw [if_pos h2, if_pos h3, this]; simp
        · have h3 : ¬ k = c := by omega
          rw [if_neg h2, if_neg h3]

theorem denseRow_fromDenseRow (vs : List Nat) (h : ∀ v ∈ vs, v < 256) :
    denseRow .u8 vs.length (fromDenseRow vs) = vs := by
  unfold denseRow fromDenseRow
  apply List.ext_getElem
  · simp
  · intro i h1 h2
    simp only [List.getElem_map, List.getElem_range, denseVal_u8, colSum_fromDenseRowAux,
      Nat.zero_le, if_true, Nat.sub_zero, Nat.mod_mod]
    have hi : i < vs.length := by simpa using h2
    rw [List.getD_eq_getElem?_getD, List.getElem?_eq_getElem hi, Option.getD_some]
    exact Nat.mod_eq_of_lt (h _ (List.getElem_mem hi))

/-! ### dense value of `hstack` / `vstack` -/

theorem colSum_shiftRow_add (n c : Nat) (r : List Entry) : colSum (c + n) (shiftRow n r) = colSum c r := by
  induction r with
  | nil => rfl
  | cons e r ih =>
    unfold shiftRow at ih ⊢
    rw [List.map_cons, colSum_cons, colSum_cons, ih]
    have : (e.1 + n = c + n) ↔ (e.1 = c) := by omega
    simp only [this]

theorem colSum_shiftRow_lt (n c : Nat) (r : List Entry) (h : c < n) : colSum c (shiftRow n r) = 0 := by
  apply colSum_eq_zero_of_not_mem
  unfold shiftRow
  intro hc
  simp only [List.map_map, List.mem_map, Function.comp] at hc
  rcases hc with ⟨e, _, he⟩
  omega

theorem denseRow_hcat (na nb : Nat) (ra rb : List Entry) (ha : ∀ e ∈ ra, e.1 < na) :
    denseRow .u8 (na + nb) (ra ++ shiftRow na rb) = denseRow .u8 na ra ++ denseRow .u8 nb rb := by
  unfold denseRow
  rw [List.range_add, List.map_append, List.map_map]
  congr 1
  · apply List.map_congr_left
    intro c hc
    rw [List.mem_range] at hc
    rw [denseVal_u8, denseVal_u8, colSum_append, colSum_shiftRow_lt na c rb hc, Nat.add_zero]
  · apply List.map_congr_left
    intro c _
    simp only [Function.comp]
    rw [denseVal_u8, denseVal_u8, colSum_append, Nat.add_comm na c, colSum_shiftRow_add]
    have : colSum (c + na) ra = 0 := by
      apply colSum_eq_zero_of_not_mem
      intro hc
      rcases List.mem_map.mp hc with ⟨e, he, hec⟩
      have := ha e he
      omega
    rw [this, Nat.zero_add]

theorem map_denseRow_hcat2 (na nb : Nat) (A B : List (List Entry)) (hl : A.length = B.length)
    (hA : ∀ r ∈ A, ∀ e ∈ r, e.1 < na) :
    (hcat2 na A B).map (denseRow .u8 (na + nb)) =
      List.zipWith (· ++ ·) (A.map (denseRow .u8 na)) (B.map (denseRow .u8 nb)) := by
  induction A generalizing B with
  | nil => simp [hcat2]
  | cons ra A ih =>
    cases B with
    | nil => simp at hl
    | cons rb B =>
      unfold hcat2
      rw [List.zipWith_cons_cons, List.map_cons, denseRow_hcat na nb ra rb (hA ra (by simp))]
      simp only [List.map_cons, List.zipWith_cons_cons]
      congr 1
      exact ih B (by simpa using hl) (fun r hr => hA r (by simp [hr]))


/-! ### `vstack` of csr blocks -/

theorem all_isCsr_map (ms : List Csr) : (ms.map Arg.csr).all Arg.isCsr = true := by
  induction ms with
  | nil => rfl
  | cons m ms ih => simp [Arg.isCsr]

theorem filterMap_blockRaw_map (ms : List Csr) :
    (ms.map Arg.csr).filterMap blockRaw = ms.map fun m => (m.ncols, m.dt, m.rows) := by
  induction ms with
  | nil => rfl
  | cons m ms ih => rw [List.map_cons, List.filterMap_cons, List.map_cons, ih]; rfl

/-- the dtype of the concatenated data of a list of csr blocks -/
def promoteAll (dt0 : DT) (ms : List Csr) : DT := ms.foldl (fun t m => DT.promote t m.dt) dt0

theorem vstack_csr (m0 : Csr) (ms : List Csr) :
    vstack ((m0 :: ms).map Arg.csr) =
      if ms.any (fun m => m.ncols ≠ m0.ncols) then .error .valueError
      else .ok (finishStack m0.ncols (promoteAll m0.dt ms) (m0.rows ++ ms.flatMap (·.rows))) := by
  have hall : ((m0 :: ms).map Arg.csr).all Arg.isCsr = true := all_isCsr_map _
  rw [List.map_cons] at hall ⊢
  unfold vstack
  simp only [hall, if_true, blockRaw, filterMap_blockRaw_map]
  simp only [List.any_map, List.foldl_map, List.flatMap_map, Function.comp_def, promoteAll]

theorem finishStack_ncols (nc : Nat) (dt : DT) (rows : List (List Entry)) :
    (finishStack nc dt rows).ncols = nc := by
  unfold finishStack; split <;> rfl

theorem finishStack_dt (nc : Nat) (dt : DT) (rows : List (List Entry)) :
    (finishStack nc dt rows).dt = .u8 := by
  unfold finishStack; split <;> rfl

theorem denseRow_castRow_u8 (n : Nat) (r : List Entry) :
    denseRow .u8 n (castRow .u8 r) = denseRow .u8 n r := by
  unfold denseRow
  apply List.map_congr_left
  intro c _
  rw [denseVal_u8, denseVal_u8, colSum_castRow_u8]

/-- whatever the dtypes, the stacking fast path keeps the dense `uint8` value of every row -/
theorem finishStack_dense (nc : Nat) (dt : DT) (rows : List (List Entry)) :
    (finishStack nc dt rows).rows.map (denseRow .u8 nc) = rows.map (denseRow .u8 nc) := by
  unfold finishStack
  split
  · rfl
  · simp only [List.map_map]
    apply List.map_congr_left
    intro r _
    simp only [Function.comp, denseRow_canonRow, denseRow_castRow_u8]

end Panqec.BSp
