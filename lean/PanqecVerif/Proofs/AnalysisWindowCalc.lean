/-
Lemmas about the window branches of `calculate_thresholds`, the start of the first fit and the override
bookkeeping (C16).
-/
import PanqecVerif.Proofs.AnalysisWindowNearest
import PanqecVerif.Proofs.AnalysisWindowSd

namespace Panqec.An

/-! ### means -/

theorem meanOf_isSome {l : List Rat} (h : l ≠ []) : ∃ m, meanOf l = some m := by
  cases l with
  | nil => exact absurd rfl h
  | cons v vs => exact ⟨_, rfl⟩

theorem meanOf_eq_none {l : List Rat} : meanOf l = none ↔ l = [] := by cases l <;> simp [meanOf]

theorem sum_ge_of_forall_ge (a : Rat) : ∀ l : List Rat, (∀ x ∈ l, a ≤ x) → a * (l.length : Rat) ≤ l.sum
  | [], _ => by simp
  | x :: xs, h => by
    have ih := sum_ge_of_forall_ge a xs fun y hy => h y (List.mem_cons_of_mem _ hy)
    have hx := h x List.mem_cons_self
    simp only [List.length_cons, List.sum_cons, Nat.cast_add, Nat.cast_one]
    linarith

theorem sum_le_of_forall_le (a : Rat) : ∀ l : List Rat, (∀ x ∈ l, x ≤ a) → l.sum ≤ a * (l.length : Rat)
  | [], _ => by simp
  | x :: xs, h => by
    have ih := sum_le_of_forall_le a xs fun y hy => h y (List.mem_cons_of_mem _ hy)
    have hx := h x List.mem_cons_self
    simp only [List.length_cons, List.sum_cons, Nat.cast_add, Nat.cast_one]
    linarith

theorem meanOf_bounds {l : List Rat} {m a b : Rat} (h : meanOf l = some m) (ha : ∀ x ∈ l, a ≤ x) (hb : ∀ x ∈ l, x ≤ b) :
    a ≤ m ∧ m ≤ b := by
  cases l with
  | nil => cases h
  | cons v vs =>
    simp only [meanOf, Option.some.injEq] at h
    subst h
    have hpos : (0 : Rat) < (((v :: vs).length : Nat) : Rat) := by
      simp only [List.length_cons, Nat.cast_add, Nat.cast_one]; positivity
    constructor
    · rw [le_div_iff₀ hpos]; exact sum_ge_of_forall_ge a _ ha
    · rw [div_le_iff₀ hpos]; exact sum_le_of_forall_le b _ hb

theorem meanOf_perm {a b : List Rat} (h : a.Perm b) : meanOf a = meanOf b := by
  cases a with
  | nil => rw [List.nil_perm.mp h]
  | cons x xs =>
    cases b with
    | nil => exact absurd (List.perm_nil.mp h) (by simp)
    | cons y ys =>
      simp only [meanOf]
      rw [h.sum_eq, h.length_eq]

/-! ### the start of the first fit -/

theorem truncRows_perm {a b : List TRow} (h : a.Perm b) (pl pr : Rat) : (truncRows a pl pr).Perm (truncRows b pl pr) :=
  (h.filter _).filter _

theorem mem_truncRows {rows : List TRow} {pl pr : Rat} {r : TRow} :
    r ∈ truncRows rows pl pr ↔ r ∈ rows ∧ pl ≤ r.rate ∧ r.rate ≤ pr ∧ r.pest.isSome = true := by
  unfold truncRows
  simp only [List.mem_filter, Bool.and_eq_true, decide_eq_true_eq]
  tauto

theorem firstFitStart_perm {a b : List TRow} (h : a.Perm b) (pl pr pn : Rat) :
    firstFitStart a pl pr pn = firstFitStart b pl pr pn := by
  unfold firstFitStart
  have ht := truncRows_perm h pl pr
  simp only
  rw [minList_perm (ht.map _), maxList_perm (ht.map _), ht.length_eq, meanOf_perm (ht.filterMap _),
    meanOf_perm ((ht.filter _).filterMap _)]

theorem firstFitStart_error_iff (rows : List TRow) (pl pr pn : Rat) :
    (∃ e, firstFitStart rows pl pr pn = .error e) ↔ truncRows rows pl pr = [] := by
  unfold firstFitStart
  simp only
  constructor
  · rintro ⟨e, h⟩
    split at h
    · cases h
    · rename_i hnot
      by_contra hne
      obtain ⟨lo, hlo⟩ := minList_isSome (xs := (truncRows rows pl pr).map (·.rate)) (by simpa using hne)
      obtain ⟨hi, hhi⟩ := maxList_isSome (xs := (truncRows rows pl pr).map (·.rate)) (by simpa using hne)
      exact hnot lo hi hlo hhi
  · intro h
    rw [h]
    exact ⟨.emptyWindow, rfl⟩

/-- what the first `curve_fit` gets: the rows inside the window (at least one), a start value for `p_th`
    inside the range of the rates of those rows (hence inside the window), which is `p_nearest` itself
    whenever that lies in the range, and a start value for `A` inside the range of their logical rates -/
theorem firstFitStart_spec {rows : List TRow} {pl pr pn : Rat} {n : Nat} {p0 f0 : Rat}
    (h : firstFitStart rows pl pr pn = .ok (n, p0, f0)) :
    n = (truncRows rows pl pr).length ∧ 0 < n ∧
    ∃ lo hi, minList ((truncRows rows pl pr).map (·.rate)) = some lo ∧
      maxList ((truncRows rows pl pr).map (·.rate)) = some hi ∧
      pl ≤ lo ∧ hi ≤ pr ∧ lo ≤ p0 ∧ p0 ≤ hi ∧ ((lo ≤ pn ∧ pn ≤ hi) → p0 = pn) ∧
      ∀ a b : Rat, (∀ r ∈ truncRows rows pl pr, ∀ v, r.pest = some v → a ≤ v ∧ v ≤ b) → a ≤ f0 ∧ f0 ≤ b := by
  unfold firstFitStart at h
  simp only at h
  split at h
  · rename_i lo hi hlo hhi
    injection h with h
    simp only [Prod.mk.injEq] at h
    obtain ⟨hn, hp0, hf0⟩ := h
    obtain ⟨hlo1, hlo2⟩ := minList_spec hlo
    obtain ⟨hhi1, hhi2⟩ := maxList_spec hhi
    obtain ⟨rlo, hrlo, hrlo'⟩ := List.mem_map.mp hlo1
    obtain ⟨rhi, hrhi, hrhi'⟩ := List.mem_map.mp hhi1
    have hlohi : lo ≤ hi := hlo2 hi hhi1
    refine ⟨hn.symm, ?_, lo, hi, hlo, hhi, ?_, ?_, ?_, ?_, ?_, ?_⟩
    · rw [← hn]; exact List.length_pos_of_mem hrlo
    · rw [← hrlo']; exact (mem_truncRows.mp hrlo).2.1
    · rw [← hrhi']; exact (mem_truncRows.mp hrhi).2.2.1
    · rw [← hp0]; unfold hintFor; simp only
      split
      · rename_i hin; simpa using hin.1
      · simp only [Option.getD_some]; linarith
    · rw [← hp0]; unfold hintFor; simp only
      split
      · rename_i hin; simpa using hin.2
      · simp only [Option.getD_some]; linarith
    · intro hin
      rw [← hp0]; unfold hintFor; simp only
      rw [if_pos hin]; rfl
    · intro a b hab
      have hall : ∀ v ∈ (truncRows rows pl pr).filterMap (·.pest), a ≤ v ∧ v ≤ b := by
        intro v hv
        obtain ⟨r, hr, hrv⟩ := List.mem_filterMap.mp hv
        exact hab r hr v hrv
      have hne : (truncRows rows pl pr).filterMap (·.pest) ≠ [] := by
        have := (mem_truncRows.mp hrlo).2.2.2
        obtain ⟨v, hv⟩ := Option.isSome_iff_exists.mp this
        exact List.ne_nil_of_mem (List.mem_filterMap.mpr ⟨rlo, hrlo, hv⟩)
      obtain ⟨mAll, hmAll⟩ := meanOf_isSome hne
      rw [← hf0]
      cases hat : meanOf (((truncRows rows pl pr).filter fun r => r.rate == pn).filterMap (·.pest)) with
      | none =>
        simp only [Option.orElse_none, hmAll, Option.getD_some]
        exact meanOf_bounds hmAll (fun v hv => (hall v hv).1) (fun v hv => (hall v hv).2)
      | some m =>
        simp only [Option.orElse_some, Option.getD_some]
        have hsub : ∀ v ∈ ((truncRows rows pl pr).filter fun r => r.rate == pn).filterMap (·.pest), a ≤ v ∧ v ≤ b := by
          intro v hv
          obtain ⟨r, hr, hrv⟩ := List.mem_filterMap.mp hv
          exact hab r (List.mem_filter.mp hr).1 v hrv
        exact meanOf_bounds hat (fun v hv => (hsub v hv).1) (fun v hv => (hsub v hv).2)
  · cases h

/-! ### the default window -/

theorem windowDefault_spec {rows : List TRow} {pn : Rat} {w : Window} (h : windowDefault rows pn = some w) :
    minList (rows.map (·.rate)) = some w.pLeft ∧ maxList (rows.map (·.rate)) = some w.pRight ∧
    w.rows = rows ∧ w.pNearest = pn ∧ w.pSd = pn := by
  unfold windowDefault at h
  split at h
  · rename_i lo hi hlo hhi
    injection h with h
    subst h
    exact ⟨hlo, hhi, rfl, rfl, rfl⟩
  · cases h

theorem windowDefault_isSome {rows : List TRow} (pn : Rat) (h : rows ≠ []) : ∃ w, windowDefault rows pn = some w := by
  obtain ⟨lo, hlo⟩ := minList_isSome (xs := rows.map (·.rate)) (by simpa using h)
  obtain ⟨hi, hhi⟩ := maxList_isSome (xs := rows.map (·.rate)) (by simpa using h)
  exact ⟨_, by unfold windowDefault; rw [hlo, hhi]⟩

/-- the default window drops no row with a finite logical rate -/
theorem truncRows_default {rows : List TRow} {lo hi : Rat} (hlo : minList (rows.map (·.rate)) = some lo)
    (hhi : maxList (rows.map (·.rate)) = some hi) : truncRows rows lo hi = rows.filter (·.pest.isSome) := by
  unfold truncRows
  congr 1
  rw [List.filter_eq_self]
  intro r hr
  have h1 := (minList_spec hlo).2 r.rate (List.mem_map_of_mem hr)
  have h2 := (maxList_spec hhi).2 r.rate (List.mem_map_of_mem hr)
  simp [h1, h2]

/-! ### `mapM` in `Except` -/

theorem mapM_except_forall2 {α β ε : Type} (f : α → Except ε β) :
    ∀ (l : List α) (r : List β), l.mapM f = .ok r → List.Forall₂ (fun a b => f a = .ok b) l r
  | [], r, h => by
    simp [List.mapM_nil, pure, Except.pure] at h
    subst h; exact List.Forall₂.nil
  | a :: l, r, h => by
    rw [List.mapM_cons] at h
    cases hfa : f a with
    | error e => simp [hfa, bind, Except.bind] at h
    | ok b =>
      cases hl : l.mapM f with
      | error e => simp [hfa, hl, bind, Except.bind] at h
      | ok bs =>
        simp [hfa, hl, bind, Except.bind, pure, Except.pure] at h
        subst h
        exact List.Forall₂.cons hfa (mapM_except_forall2 f l bs hl)

theorem mapM_except_congr {α β ε : Type} {f g : α → Except ε β} :
    ∀ (l : List α), (∀ a ∈ l, f a = g a) → l.mapM f = l.mapM g
  | [], _ => by simp [List.mapM_nil]
  | a :: l, h => by
    rw [List.mapM_cons, List.mapM_cons, h a List.mem_cons_self,
      mapM_except_congr l fun a' ha' => h a' (List.mem_cons_of_mem _ ha')]

/-! ### one parameter set -/

theorem thresholdEntry_key {st : OvState} {sector : Nat} {mode : WindowMode} {rs : List ResRow} {key : Triple}
    {e : ThreshEntry} (h : thresholdEntry st sector mode rs key = .ok e) : e.key = key := by
  unfold thresholdEntry at h
  simp only at h
  split at h
  · cases h
  · split at h
    · cases h
    · split at h
      · split at h
        · injection h with h; subst h; rfl
        · injection h with h; subst h; rfl
      · split at h
        · injection h with h; subst h; rfl
        · cases h

/-- a parameter set in `self.replaces` with a 'p_th_fss' is not fitted: exactly the given values are
    reported (estimate, estimate ∓ uncertainty, uncertainty; 0 when no uncertainty is given) -/
theorem thresholdEntry_replaced {st : OvState} {sector : Nat} {mode : WindowMode} {rs : List ResRow} {key : Triple}
    {e : ThreshEntry} {rp : Replace} {v : Rat} (h : thresholdEntry st sector mode rs key = .ok e)
    (hrp : st.replaces.lookup key = some rp) (hv : rp.pth = some v) :
    ∃ w, e = .replaced key w (v, v - rp.se.getD 0, v + rp.se.getD 0, rp.se.getD 0) := by
  unfold thresholdEntry at h
  simp only at h
  split at h
  · cases h
  · split at h
    · cases h
    · rename_i w _
      rw [hrp] at h
      simp only [hv] at h
      injection h with h
      exact ⟨w, h.symm⟩

/-- a parameter set that is not in `self.replaces` is fitted on the rows of its window -/
theorem thresholdEntry_fitted {st : OvState} {sector : Nat} {mode : WindowMode} {rs : List ResRow} {key : Triple}
    {e : ThreshEntry} (h : thresholdEntry st sector mode rs key = .ok e) (hrp : st.replaces.lookup key = none) :
    ∃ w n p0 f0, e = .fitted key w n p0 f0 ∧ firstFitStart w.rows w.pLeft w.pRight w.pNearest = .ok (n, p0, f0) := by
  unfold thresholdEntry at h
  simp only at h
  split at h
  · cases h
  · split at h
    · cases h
    · rename_i w _
      rw [hrp] at h
      simp only at h
      split at h
      · rename_i n p0 f0 hfit
        injection h with h
        exact ⟨w, n, p0, f0, h.symm, hfit⟩
      · cases h

/-- the entry depends on the override state only through the two look-ups of its own key -/
theorem thresholdEntry_congr {st st' : OvState} (sector : Nat) (mode : WindowMode) (rs : List ResRow) (key : Triple)
    (h1 : st.overrides.lookup (sector, key) = st'.overrides.lookup (sector, key))
    (h2 : st.replaces.lookup key = st'.replaces.lookup key) :
    thresholdEntry st sector mode rs key = thresholdEntry st' sector mode rs key := by
  unfold thresholdEntry
  simp only [h1, h2]

/-! ### the list of parameter sets -/

theorem insertTriple_perm (t : Triple) : ∀ l : List Triple, (insertTriple t l).Perm (t :: l)
  | [] => List.Perm.refl _
  | u :: us => by
    unfold insertTriple
    split
    · exact List.Perm.refl _
    · exact ((insertTriple_perm t us).cons u).trans (List.Perm.swap t u us)

theorem sortTriples_perm : ∀ l : List Triple, (sortTriples l).Perm l
  | [] => List.Perm.refl _
  | t :: ts => (insertTriple_perm t (sortTriples ts)).trans ((sortTriples_perm ts).cons t)

theorem mem_paramSets {rs : List ResRow} {key : Triple} : key ∈ paramSets rs ↔ ∃ r ∈ rs, r.labelKey = key := by
  unfold paramSets
  rw [(sortTriples_perm _).mem_iff, List.mem_eraseDups, List.mem_map]

theorem paramSets_nodup (rs : List ResRow) : (paramSets rs).Nodup :=
  (sortTriples_perm _).nodup_iff.mpr (eraseDups_nodup _)

theorem forall2_keys {st : OvState} {sector : Nat} {mode : WindowMode} {rs : List ResRow} :
    ∀ {l : List Triple} {es : List ThreshEntry},
      List.Forall₂ (fun a b => thresholdEntry st sector mode rs a = .ok b) l es → es.map ThreshEntry.key = l
  | _, _, .nil => rfl
  | _, _, .cons hab t => by rw [List.map_cons, thresholdEntry_key hab, forall2_keys t]

/-- `calculate_thresholds` returns one entry per parameter set that is not skipped, in sorted order -/
theorem calcThresholds_keys {st : OvState} {sector : Nat} {mode : WindowMode} {rs : List ResRow} {es : List ThreshEntry}
    (h : calcThresholds st sector mode rs = .ok es) :
    es.map ThreshEntry.key = (paramSets rs).filter fun t => !st.skips.contains t := by
  unfold calcThresholds at h
  split at h
  · cases h
  · rename_i es' hes
    have hes'' : es' = es := by
      split at h
      · cases h
      · split at h
        · cases h
        · injection h
    subst hes''
    exact forall2_keys (mapM_except_forall2 _ _ _ hes)

theorem calcThresholds_entries {st : OvState} {sector : Nat} {mode : WindowMode} {rs : List ResRow} {es : List ThreshEntry}
    (h : calcThresholds st sector mode rs = .ok es) :
    ∀ e ∈ es, thresholdEntry st sector mode rs e.key = .ok e := by
  unfold calcThresholds at h
  split at h
  · cases h
  · rename_i es' hes
    have hes'' : es' = es := by
      split at h
      · cases h
      · split at h
        · cases h
        · injection h
    subst hes''
    intro e he
    obtain ⟨k, _, hk⟩ := (mapM_except_ok _ _ _ hes).1 e he
    rw [thresholdEntry_key hk]; exact hk

/-! ### `apply_overrides` writes class-name keys -/

/-- every key written into the override state belongs to `S` -/
def OvState.KeysIn (S : List Triple) (st : OvState) : Prop :=
  (∀ t ∈ st.skips, t ∈ S) ∧ (∀ e ∈ st.replaces, e.1 ∈ S) ∧ (∀ e ∈ st.overrides, e.1.2 ∈ S)

theorem applyOne_keysIn (rs : List ResRow) {st : OvState} (o : Override)
    (h : st.KeysIn (rs.map ResRow.nameKey)) : (applyOne rs st o).KeysIn (rs.map ResRow.nameKey) := by
  unfold applyOne
  split
  · exact h
  · simp only
    have hsets : ∀ t ∈ ((rs.filter fun r => r.matches o.filters).map ResRow.nameKey).eraseDups,
        t ∈ rs.map ResRow.nameKey := by
      intro t ht
      rw [List.mem_eraseDups] at ht
      obtain ⟨r, hr, rfl⟩ := List.mem_map.mp ht
      exact List.mem_map_of_mem (List.mem_filter.mp hr).1
    have hfold : ∀ (sets : List Triple) (st0 : OvState), (∀ t ∈ sets, t ∈ rs.map ResRow.nameKey) →
        st0.KeysIn (rs.map ResRow.nameKey) →
        (sets.foldl (fun st t =>
          let st := match o.truncate with
            | some tr => { st with overrides := ((o.sector, t), tr) :: st.overrides }
            | none => st
          let st := match o.replace with
            | some rp => { st with replaces := (t, rp) :: st.replaces }
            | none => st
          if o.skip then { st with skips := st.skips ++ [t] } else st) st0).KeysIn (rs.map ResRow.nameKey) := by
      intro sets
      induction sets with
      | nil => intro st0 _ h0; exact h0
      | cons t ts ih =>
        intro st0 hts h0
        simp only [List.foldl_cons]
        apply ih _ (fun u hu => hts u (List.mem_cons_of_mem _ hu))
        have ht := hts t List.mem_cons_self
        obtain ⟨h1, h2, h3⟩ := h0
        cases o.truncate <;> cases o.replace <;> cases o.skip <;>
          simp only [OvState.KeysIn, List.mem_cons, List.mem_append, List.not_mem_nil, or_false, Bool.false_eq_true,
            if_false, if_true] <;>
          refine ⟨?_, ?_, ?_⟩ <;>
          first
            | exact h1 | exact h2 | exact h3
            | (intro e he; rcases he with rfl | he
               · exact ht
               · first | exact h2 e he | exact h3 e he)
            | (intro e he; rcases he with he | rfl
               · exact h1 e he
               · exact ht)
    have hres := hfold _ st hsets h
    split
    · exact ⟨hres.1, hres.2.1, hres.2.2⟩
    · exact hres

theorem propagateTotal_keysIn (S : List Triple) {st : OvState} (h : st.KeysIn S) : (propagateTotal st).KeysIn S := by
  unfold propagateTotal
  simp only
  have hkeys : ∀ t ∈ ((st.overrides.filter fun e => e.1.1 == 0).map fun e => e.1.2).eraseDups, t ∈ S := by
    intro t ht
    rw [List.mem_eraseDups] at ht
    obtain ⟨e, he, rfl⟩ := List.mem_map.mp ht
    exact h.2.2 e (List.mem_filter.mp he).1
  generalize ((st.overrides.filter fun e => e.1.1 == 0).map fun e => e.1.2).eraseDups = ts at hkeys
  induction ts generalizing st with
  | nil => exact h
  | cons t ts ih =>
    simp only [List.foldl_cons]
    apply ih _ (fun u hu => hkeys u (List.mem_cons_of_mem _ hu))
    have ht := hkeys t List.mem_cons_self
    have step : ∀ (st0 : OvState) (s : Nat), st0.KeysIn S →
        (match st0.overrides.lookup (s, t), st0.overrides.lookup (0, t) with
          | none, some tr => { st0 with overrides := st0.overrides ++ [((s, t), tr)] }
          | _, _ => st0).KeysIn S := by
      intro st0 s h0
      split
      · refine ⟨h0.1, h0.2.1, ?_⟩
        intro e he
        simp only [List.mem_append, List.mem_cons, List.not_mem_nil, or_false] at he
        rcases he with he | rfl
        · exact h0.2.2 e he
        · exact ht
      · exact h0
    simp only [List.foldl_nil]
    exact step _ 2 (step _ 1 h)

theorem applyOverrides_keysIn (rs : List ResRow) (spec : List Override) :
    (applyOverrides rs spec).KeysIn (rs.map ResRow.nameKey) := by
  unfold applyOverrides
  apply propagateTotal_keysIn
  have : ∀ (spec : List Override) (st : OvState), st.KeysIn (rs.map ResRow.nameKey) →
      (spec.foldl (applyOne rs) st).KeysIn (rs.map ResRow.nameKey) := by
    intro spec
    induction spec with
    | nil => intro st h; exact h
    | cons o os ih => intro st h; exact ih _ (applyOne_keysIn rs o h)
  exact this spec {} ⟨by simp, by simp, by simp⟩

theorem lookup_eq_none_of_keys {α β : Type} [BEq α] [LawfulBEq α] {l : List (α × β)} {k : α}
    (h : ∀ e ∈ l, e.1 ≠ k) : l.lookup k = none := by
  induction l with
  | nil => rfl
  | cons e es ih =>
    obtain ⟨a, b⟩ := e
    have hne : a ≠ k := h (a, b) List.mem_cons_self
    rw [List.lookup_cons]
    have : (k == a) = false := by simpa using fun e => hne e.symm
    rw [this]
    exact ih fun e he => h e (List.mem_cons_of_mem _ he)

/-- look-ups with a key outside `S` find nothing in a state whose keys lie in `S` -/
theorem KeysIn.miss {S : List Triple} {st : OvState} (h : st.KeysIn S) {key : Triple} (hk : key ∉ S) (sector : Nat) :
    st.skips.contains key = false ∧ st.replaces.lookup key = none ∧ st.overrides.lookup (sector, key) = none := by
  refine ⟨?_, ?_, ?_⟩
  · rw [Bool.eq_false_iff]
    intro hc
    exact hk (h.1 key (by simpa using hc))
  · exact lookup_eq_none_of_keys fun e he e1 => hk (e1 ▸ h.2.1 e he)
  · apply lookup_eq_none_of_keys
    intro e he e1
    apply hk
    have := h.2.2 e he
    rw [e1] at this
    exact this

end Panqec.An
