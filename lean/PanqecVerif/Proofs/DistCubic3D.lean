/-
Counting lemmas for the all-sizes distance proofs of the cubic-lattice 3-D surface codes (core
Lean only): double sums (`rsum2`), cyclic shifts of either index, the **slab** argument (planes
`P 0, …, P (M-1)`; consecutive planes differ by the slab of generators between them, every rung
of the slab being counted twice), the ladder with a `+1` wrap, lines and planes of qubits as key
lists over `range2`, and the anticommutation count of a line / plane operator as a (double) sum
of indicators.
-/
import PanqecVerif.Proofs.DistLines
import PanqecVerif.Proofs.LatCubic3D

namespace Panqec.Lat2D

/-- `Σ_{j < A} Σ_{k < B} f j k` -/
def rsum2 (A B : Nat) (f : Nat → Nat → Nat) : Nat := rsum A (fun j => rsum B (f j))

theorem rsum2_congr {A B : Nat} {f g : Nat → Nat → Nat}
    (h : ∀ j k, j < A → k < B → f j k = g j k) : rsum2 A B f = rsum2 A B g :=
  rsum_congr A (fun j hj => rsum_congr B (fun k hk => h j k hj hk))

theorem rsum2_add (A B : Nat) (f g : Nat → Nat → Nat) :
    rsum2 A B (fun j k => f j k + g j k) = rsum2 A B f + rsum2 A B g := by
  unfold rsum2
  rw [← rsum_add]
  exact rsum_congr A (fun j _ => rsum_add (f j) (g j) B)

theorem rsum2_even {A B : Nat} {f : Nat → Nat → Nat}
    (h : ∀ j k, j < A → k < B → f j k % 2 = 0) : rsum2 A B f % 2 = 0 :=
  rsum_even A (fun j hj => rsum_even B (fun k hk => h j k hj hk))

/-- cyclic predecessor / successor of an index `< L` -/
def wrapP (L j : Nat) : Nat := if j = 0 then L - 1 else j - 1
def wrapS (L j : Nat) : Nat := if j + 1 = L then 0 else j + 1

theorem rsum_wrapP (g : Nat → Nat) (L : Nat) : rsum L (fun j => g (wrapP L j)) = rsum L g :=
  rsum_predWrap g L
theorem rsum_wrapS (g : Nat → Nat) (L : Nat) : rsum L (fun j => g (wrapS L j)) = rsum L g :=
  rsum_succWrap g L

theorem rsum2_wrapP_left (A B : Nat) (g : Nat → Nat → Nat) :
    rsum2 A B (fun j k => g (wrapP A j) k) = rsum2 A B g :=
  rsum_wrapP (fun j => rsum B (g j)) A

theorem rsum2_wrapP_right (A B : Nat) (g : Nat → Nat → Nat) :
    rsum2 A B (fun j k => g j (wrapP B k)) = rsum2 A B g :=
  rsum_congr A (fun j _ => rsum_wrapP (g j) B)

/-- **Slab, general form.**  Planes `P 0, …, P (M-1)` of `A × B` sites; between `P i` and
    `P (i+1)` a slab with two families of rungs, each listed twice (`R1' i` is a rearrangement of
    `R1 i`, `R2' i` of `R2 i`); the constraint at site `(j, k)` of slab `i` involves `P i j k`,
    `P (i+1) j k` and one entry of each of the four rung lists.  If every constraint is even, all
    planes have the same parity. -/
theorem slabG (A B M : Nat) (P R1 R1' R2 R2' : Nat → Nat → Nat → Nat)
    (h1 : ∀ i, i + 1 < M → rsum2 A B (R1' i) = rsum2 A B (R1 i))
    (h2 : ∀ i, i + 1 < M → rsum2 A B (R2' i) = rsum2 A B (R2 i))
    (h : ∀ i, i + 1 < M → ∀ j k, j < A → k < B →
      (P i j k + P (i + 1) j k + R1' i j k + R1 i j k + R2' i j k + R2 i j k) % 2 = 0) :
    ∀ i, i < M → rsum2 A B (P i) % 2 = rsum2 A B (P 0) % 2 := by
  apply chain M (fun i => rsum2 A B (P i))
  intro i hi
  have he := rsum2_even (h i hi)
  have e : rsum2 A B (fun j k => P i j k + P (i + 1) j k + R1' i j k + R1 i j k
        + R2' i j k + R2 i j k) =
      rsum2 A B (P i) + rsum2 A B (P (i + 1)) + rsum2 A B (R1' i)
        + rsum2 A B (R1 i) + rsum2 A B (R2' i) + rsum2 A B (R2 i) := by
    rw [rsum2_add, rsum2_add, rsum2_add, rsum2_add, rsum2_add]
  rw [e, h1 i hi, h2 i hi] at he
  show (rsum2 A B (P i) + rsum2 A B (P (i + 1))) % 2 = 0
  omega

/-- **Slab, periodic.**  The rungs of site `(j, k)` are `R1 i (j-1) k`, `R1 i j k`,
    `R2 i j (k-1)`, `R2 i j k` (cyclically), so every rung occurs in exactly two constraints. -/
theorem slab (A B M : Nat) (P R1 R2 : Nat → Nat → Nat → Nat)
    (h : ∀ i, i + 1 < M → ∀ j k, j < A → k < B →
      (P i j k + P (i + 1) j k + R1 i (wrapP A j) k + R1 i j k
        + R2 i j (wrapP B k) + R2 i j k) % 2 = 0) :
    ∀ i, i < M → rsum2 A B (P i) % 2 = rsum2 A B (P 0) % 2 :=
  slabG A B M P R1 (fun i j k => R1 i (wrapP A j) k) R2 (fun i j k => R2 i j (wrapP B k))
    (fun i _ => rsum2_wrapP_left A B (R1 i)) (fun i _ => rsum2_wrapP_right A B (R2 i)) h

theorem rsum_zero {g : Nat → Nat} : ∀ L : Nat, (∀ j, j < L → g j = 0) → rsum L g = 0
  | 0, _ => rfl
  | L + 1, h => by
    simp only [rsum]
    rw [rsum_zero L (fun j hj => h j (by omega)), h L (by omega)]

/-- open boundary, outer index: the rungs at `2j - 1` and at `2j + 1` (`j < A`) are the same
    rungs when those at `-1` and `2A - 1` vanish -/
theorem rsum2_shift_open_left (A B : Nat) (Φ : Int → Nat → Nat)
    (h0 : ∀ k, k < B → Φ (-1) k = 0) (hA : ∀ k, k < B → Φ (2 * (A : Int) - 1) k = 0) :
    rsum2 A B (fun j k => Φ (2 * (j : Int) - 1) k) = rsum2 A B (fun j k => Φ (2 * (j : Int) + 1) k) := by
  unfold rsum2
  have h := rsum_shift_open (fun j => rsum B (fun k => Φ (2 * (j : Int) - 1) k)) A
    (rsum_zero B (fun k hk => by simpa using h0 k hk)) (rsum_zero B (fun k hk => hA k hk))
  rw [← h]
  apply rsum_congr
  intro j _
  apply rsum_congr
  intro k _
  congr 1
  omega

/-- open boundary, inner index -/
theorem rsum2_shift_open_right (A B : Nat) (Φ : Nat → Int → Nat)
    (h0 : ∀ j, j < A → Φ j (-1) = 0) (hB : ∀ j, j < A → Φ j (2 * (B : Int) - 1) = 0) :
    rsum2 A B (fun j k => Φ j (2 * (k : Int) - 1)) = rsum2 A B (fun j k => Φ j (2 * (k : Int) + 1)) := by
  unfold rsum2
  apply rsum_congr
  intro j hj
  have h := rsum_shift_open (fun k => Φ j (2 * (k : Int) - 1)) B (by simpa using h0 j hj) (hB j hj)
  rw [← h]
  apply rsum_congr
  intro k _
  congr 1
  omega

/-- **Slab with open boundaries**, in lattice coordinates (`u` = normal coordinate, `v`, `w` =
    in-plane coordinates): planes at `u = 2i + 1`, sites `(2j, 2k)`; the constraint at
    `(2i + 2, 2j, 2k)` involves its six neighbours, and `F` vanishes on the positions just
    outside the slab. -/
theorem slab_open (M A B : Nat) (F : Int → Int → Int → Nat)
    (hv0 : ∀ (i k : Nat), F (2 * i + 2) (-1) (2 * k) = 0)
    (hvA : ∀ (i k : Nat), F (2 * i + 2) (2 * A - 1) (2 * k) = 0)
    (hw0 : ∀ (i j : Nat), F (2 * i + 2) (2 * j) (-1) = 0)
    (hwB : ∀ (i j : Nat), F (2 * i + 2) (2 * j) (2 * B - 1) = 0)
    (hstab : ∀ i j k : Nat, i + 1 < M → j < A → k < B →
      (F (2 * i + 1) (2 * j) (2 * k) + F (2 * i + 3) (2 * j) (2 * k)
        + F (2 * i + 2) (2 * j - 1) (2 * k) + F (2 * i + 2) (2 * j + 1) (2 * k)
        + F (2 * i + 2) (2 * j) (2 * k - 1) + F (2 * i + 2) (2 * j) (2 * k + 1)) % 2 = 0) :
    ∀ i : Nat, i < M →
      rsum2 A B (fun j k => F (2 * i + 1) (2 * j) (2 * k)) % 2 =
        rsum2 A B (fun j k => F 1 (2 * j) (2 * k)) % 2 := by
  intro i hi
  have h := slabG A B M (fun i j k => F (2 * i + 1) (2 * j) (2 * k))
    (fun i j k => F (2 * i + 2) (2 * j + 1) (2 * k)) (fun i j k => F (2 * i + 2) (2 * j - 1) (2 * k))
    (fun i j k => F (2 * i + 2) (2 * j) (2 * k + 1)) (fun i j k => F (2 * i + 2) (2 * j) (2 * k - 1))
    ?_ ?_ ?_ i hi
  · simpa using h
  · intro i _
    exact rsum2_shift_open_left A B (fun v k => F (2 * i + 2) v (2 * k))
      (fun k _ => hv0 i k) (fun k _ => hvA i k)
  · intro i _
    exact rsum2_shift_open_right A B (fun j w => F (2 * i + 2) (2 * j) w)
      (fun j _ => hw0 i j) (fun j _ => hwB i j)
  · intro i hi j k hj hk
    have := hstab i j k hi hj hk
    have e : (2 * ((i + 1 : Nat) : Int) + 1) = 2 * (i : Int) + 3 := by omega
    simp only [e]
    omega

/-- **Slab tiled by dominoes** (rotated lattices).  Layers `k < A`; in layer `k` the sites `2m`
    (`0 ≤ m ≤ B`) of one parity class `m % 2 = e` each cover the two positions `2m ± 1` of the
    line `g k` (which vanishes just outside `1 … 2B - 1`) and the two vertical rungs `W k m`,
    `W (k+1) m` below and above (which vanish at the bottom `k = 0` and at the top `k = A`).  If
    the constraint of every site is even, the total of all lines is even. -/
theorem slab_domino (e : Nat) (he : e < 2) (A B : Nat) (g : Nat → Int → Nat) (W : Nat → Nat → Nat)
    (hg0 : ∀ k, k < A → g k (-1) = 0) (hgB : ∀ k, k < A → g k (2 * B + 1) = 0)
    (hW0 : ∀ m, m < B + 1 → W 0 m = 0) (hWA : ∀ m, m < B + 1 → W A m = 0)
    (hc : ∀ k m, k < A → m < B + 1 → m % 2 = e →
      (g k (2 * m - 1) + g k (2 * m + 1) + W k m + W (k + 1) m) % 2 = 0) :
    rsum2 A B (fun k j => g k (2 * j + 1)) % 2 = 0 := by
  have hC : rsum2 A (B + 1) (fun k m =>
      (if m % 2 = e then g k (2 * m - 1) + g k (2 * m + 1) else 0) +
        ((if m % 2 = e then W k m else 0) + (if m % 2 = e then W (k + 1) m else 0))) % 2 = 0 := by
    apply rsum2_even
    intro k m hk hm
    by_cases h : m % 2 = e
    · have := hc k m hk hm h
      simp only [if_pos h]
      omega
    · simp only [if_neg h]
  rw [rsum2_add, rsum2_add] at hC
  have hD : rsum2 A (B + 1) (fun k m => if m % 2 = e then g k (2 * m - 1) + g k (2 * m + 1) else 0) =
      rsum2 A B (fun k j => g k (2 * j + 1)) :=
    rsum_congr A (fun k hk => rsum_pairs e he B (g k) (hg0 k hk) (hgB k hk))
  have hE : rsum2 A (B + 1) (fun k m => if m % 2 = e then W (k + 1) m else 0) =
      rsum2 A (B + 1) (fun k m => if m % 2 = e then W k m else 0) :=
    rsum_shift_open (fun k => rsum (B + 1) (fun m => if m % 2 = e then W k m else 0)) A
      (rsum_zero (B + 1) (fun m hm => by rw [hW0 m hm]; simp))
      (rsum_zero (B + 1) (fun m hm => by rw [hWA m hm]; simp))
  rw [hD, hE] at hC
  omega

/-- **Ladder with a `+1` wrap**: lines `F 0, …, F (M-1)` of `L` sites, rungs `G i`; the `j`-th
    constraint of rung line `i` involves `F i j`, `F (i+1) j`, `G i j` and `G i (j+1)`
    (cyclically). -/
theorem ladderS (L M : Nat) (F G : Nat → Nat → Nat)
    (h : ∀ i, i + 1 < M → ∀ j, j < L →
      (F i j + F (i + 1) j + G i j + G i (wrapS L j)) % 2 = 0) :
    ∀ i, i < M → rsum L (F i) % 2 = rsum L (F 0) % 2 :=
  ladder L M F G (fun i j => G i (wrapS L j)) (fun i _ => rsum_wrapS (G i) L) h

/-- **Ladder with a `-1` wrap**: the `j`-th constraint of rung line `i` involves `F i j`,
    `F (i+1) j`, `G i j` and `G i (j-1)` (cyclically). -/
theorem ladderP (L M : Nat) (F G : Nat → Nat → Nat)
    (h : ∀ i, i + 1 < M → ∀ j, j < L →
      (F i j + F (i + 1) j + G i j + G i (wrapP L j)) % 2 = 0) :
    ∀ i, i < M → rsum L (F i) % 2 = rsum L (F 0) % 2 :=
  ladder L M F G (fun i j => G i (wrapP L j)) (fun i _ => rsum_wrapP (G i) L) h

/-- **Row of cubes**: four lines `A1 … A4` of `L` sites and four lines of rungs `G1 … G4`; the
    `a`-th constraint involves the `a`-th site of each line and the rungs `a`, `a + 1`
    (cyclically) of each rung line.  If every constraint is even, the four lines together are
    even. -/
theorem ladder4 (L : Nat) (A1 A2 A3 A4 G1 G2 G3 G4 : Nat → Nat)
    (h : ∀ a, a < L → (A1 a + A2 a + A3 a + A4 a + G1 a + G1 (wrapS L a) + G2 a + G2 (wrapS L a)
      + G3 a + G3 (wrapS L a) + G4 a + G4 (wrapS L a)) % 2 = 0) :
    (rsum L A1 + rsum L A2 + rsum L A3 + rsum L A4) % 2 = 0 := by
  have he := rsum_even L h
  have e : rsum L (fun a => A1 a + A2 a + A3 a + A4 a + G1 a + G1 (wrapS L a) + G2 a
        + G2 (wrapS L a) + G3 a + G3 (wrapS L a) + G4 a + G4 (wrapS L a)) =
      rsum L A1 + rsum L A2 + rsum L A3 + rsum L A4 + rsum L G1 + rsum L (fun a => G1 (wrapS L a))
        + rsum L G2 + rsum L (fun a => G2 (wrapS L a)) + rsum L G3
        + rsum L (fun a => G3 (wrapS L a)) + rsum L G4 + rsum L (fun a => G4 (wrapS L a)) := by
    rw [rsum_add, rsum_add, rsum_add, rsum_add, rsum_add, rsum_add, rsum_add, rsum_add, rsum_add,
      rsum_add, rsum_add]
  rw [e, rsum_wrapS G1, rsum_wrapS G2, rsum_wrapS G3, rsum_wrapS G4] at he
  omega

/-- **Plaquette relations imply rectangle relations**: if `U j k + U (j+1) k + U j (k+1) +
    U (j+1) (k+1)` is even for every plaquette of an `A × B` grid, then so is
    `U j k + U j 0 + U 0 k + U 0 0` for every site. -/
theorem rect (A B : Nat) (U : Nat → Nat → Nat)
    (h : ∀ j k, j + 1 < A → k + 1 < B →
      (U j k + U (j + 1) k + U j (k + 1) + U (j + 1) (k + 1)) % 2 = 0) :
    ∀ j k, j < A → k < B → (U j k + U j 0 + U 0 k + U 0 0) % 2 = 0 := by
  intro j k hj hk
  have hD : ∀ j, j + 1 < A → (U j k + U (j + 1) k) % 2 = (U j 0 + U (j + 1) 0) % 2 := by
    intro j hj
    exact chain B (fun k => U j k + U (j + 1) k) (fun k hk => by
      have := h j k hj hk
      show (U j k + U (j + 1) k + (U j (k + 1) + U (j + 1) (k + 1))) % 2 = 0
      omega) k hk
  have hE := chain A (fun j => U j k + U j 0) (fun j hj => by
    have := hD j hj
    show (U j k + U j 0 + (U (j + 1) k + U (j + 1) 0)) % 2 = 0
    omega) j hj
  have hE' : (U j k + U j 0) % 2 = (U 0 k + U 0 0) % 2 := hE
  omega

end Panqec.Lat2D

namespace Panqec.Cubic3D
open Panqec.Lat2D

/-! ### `range2` over a period as a map over `List.range` -/

theorem range2_even (L : Nat) :
    range2 0 (2 * (L : Int)) = (List.range L).map (fun (j : Nat) => 2 * (j : Int)) := by
  unfold range2
  have h : ((2 * (L : Int) - 0 + 1) / 2).toNat = L := by omega
  rw [h]
  apply List.map_congr_left
  intro j _
  omega

theorem range2_odd (L : Nat) :
    range2 1 (2 * (L : Int)) = (List.range L).map (fun (j : Nat) => 2 * (j : Int) + 1) := by
  unfold range2
  have h : ((2 * (L : Int) - 1 + 1) / 2).toNat = L := by omega
  rw [h]
  apply List.map_congr_left
  intro j _
  omega

theorem range2_odd1 (L : Nat) :
    range2 1 (2 * (L : Int) + 1) = (List.range L).map (fun (j : Nat) => 2 * (j : Int) + 1) := by
  unfold range2
  have h : ((2 * (L : Int) + 1 - 1 + 1) / 2).toNat = L := by omega
  rw [h]
  apply List.map_congr_left
  intro j _
  omega

/-! ### counts along lines and planes -/

/-- a count along a line over the odd coordinates `1, 3, …, 2L - 1` (open lattice) -/
theorem countP_lineO1 (p : Coord → Bool) (f : Int → Coord) (L : Nat) :
    ((range2 1 (2 * (L : Int) + 1)).map f).countP p =
      rsum L (fun j => if p (f (2 * (j : Int) + 1)) = true then 1 else 0) := by
  rw [range2_odd1, List.map_map]
  exact countP_range_map p _ L

/-- a count along a line over the odd coordinates of a period -/
theorem countP_lineO (p : Coord → Bool) (f : Int → Coord) (L : Nat) :
    ((range2 1 (2 * (L : Int))).map f).countP p =
      rsum L (fun j => if p (f (2 * (j : Int) + 1)) = true then 1 else 0) := by
  rw [range2_odd, List.map_map]
  exact countP_range_map p _ L

theorem countP_flatMap_range (p : Coord → Bool) (c : Nat → List Coord) : ∀ A : Nat,
    ((List.range A).flatMap c).countP p = rsum A (fun j => (c j).countP p)
  | 0 => rfl
  | A + 1 => by
    rw [List.range_succ, List.flatMap_append, List.countP_append, countP_flatMap_range p c A]
    simp [rsum]

/-- a count over a plane over the even coordinates of two periods -/
theorem countP_planeE (p : Coord → Bool) (f : Int → Int → Coord) (A B : Nat) :
    (grid2 (range2 0 (2 * (A : Int))) (range2 0 (2 * (B : Int))) f).countP p =
      rsum2 A B (fun j k => if p (f (2 * (j : Int)) (2 * (k : Int))) = true then 1 else 0) := by
  unfold grid2 rsum2
  rw [range2_even A, List.flatMap_map, countP_flatMap_range]
  apply rsum_congr
  intro j _
  rw [range2_even B, List.map_map]
  exact countP_range_map p _ B

/-- one-letter operators are the single-letter dicts of `Proofs/DistLattice.lean` -/
theorem opAntiCount_uop_hit (K : List Coord) (P : Pauli) (b : Op) :
    opAntiCount (uop K P) b = K.countP (opHit P b) :=
  opAntiCount_line K P b

/-- the side conditions of `Lattice.packing_bound` for the `M` one-letter operators on the key
    lists `K 0, …, K (M-1)`: that many, dicts on the qubits, pairwise disjoint -/
def RepsOK (qs : List Coord) (K : Nat → List Coord) (M : Nat) (P : Pauli) : Prop :=
  ((List.range M).map fun i => uop (K i) P).length = M ∧
  (∀ r ∈ (List.range M).map fun i => uop (K i) P, KeysNodup r ∧ opSupported qs r = true) ∧
  ((List.range M).map fun i => uop (K i) P).Pairwise KeysDisjoint

theorem uopReps (qs : List Coord) (K : Nat → List Coord) (M : Nat) (P : Pauli)
    (hnd : ∀ i, (K i).Nodup) (hq : ∀ i, i < M → ∀ q ∈ K i, q ∈ qs)
    (hdis : ∀ i i', i < i' → ∀ q ∈ K i, q ∉ K i') : RepsOK qs K M P :=
  lineReps qs K M P hnd hq hdis

end Panqec.Cubic3D
