/-
Counting lemmas for the all-sizes distance proofs of the cubic-lattice 3-D surface codes (core
Lean only): double sums (`rsum2`), cyclic shifts of either index, the **slab** argument (planes
`P 0, …, P (M-1)`; consecutive planes differ by the slab of generators between them, every rung
of the slab being counted twice), the ladder with a `+1` wrap, lines and planes of qubits as key
lists over `range2`, and the anticommutation count of a line / plane operator as a (double) sum
of indicators.
-/
import PanqecVerif.Proofs.DistLines
import PanqecVerif.Proofs.LatCubic3D

namespace Panqec.Lat2D

/-- `Σ_{j < A} Σ_{k < B} f j k` -/
def rsum2 (A B : Nat) (f : Nat → Nat → Nat) : Nat := rsum A (fun j => rsum B (f j))

theorem rsum2_congr {A B : Nat} {f g : Nat → Nat → Nat}
    (h : ∀ j k, j < A → k < B → f j k = g j k) : rsum2 A B f = rsum2 A B g :=
  rsum_congr A (fun j hj => rsum_congr B (fun k hk => h j k hj hk))

theorem rsum2_add (A B : Nat) (f g : Nat → Nat → Nat) :
    rsum2 A B (fun j k => f j k + g j k) = rsum2 A B f + rsum2 A B g := by
  unfold rsum2
  rw [← rsum_add]
  exact rsum_congr A (fun j _ => rsum_add (f j) (g j) B)

theorem rsum2_even {A B : Nat} {f : Nat → Nat → Nat}
    (h : ∀ j k, j < A → k < B → f j k % 2 = 0) : rsum2 A B f % 2 = 0 :=
  rsum_even A (fun j hj => rsum_even B (fun k hk => h j k hj hk))

/-- cyclic predecessor / successor of an index `< L` -/
def wrapP (L j : Nat) : Nat := if j = 0 then L - 1 else j - 1
def wrapS (L j : Nat) : Nat := if j + 1 = L then 0 else j + 1

theorem rsum_wrapP (g : Nat → Nat) (L : Nat) : rsum L (fun j => g (wrapP L j)) = rsum L g :=
  rsum_predWrap g L
theorem rsum_wrapS (g : Nat → Nat) (L : Nat) : rsum L (fun j => g (wrapS L j)) = rsum L g :=
  rsum_succWrap g L

theorem rsum2_wrapP_left (A B : Nat) (g : Nat → Nat → Nat) :
    rsum2 A B (fun j k => g (wrapP A j) k) = rsum2 A B g :=
  rsum_wrapP (fun j => rsum B (g j)) A

theorem rsum2_wrapP_right (A B : Nat) (g : Nat → Nat → Nat) :
    rsum2 A B (fun j k => g j (wrapP B k)) = rsum2 A B g :=
  rsum_congr A (fun j _ => rsum_wrapP (g j) B)

/-- **Slab.**  Planes `P 0, …, P (M-1)` of `A × B` sites; between `P i` and `P (i+1)` a slab
    with two families of rungs `R1 i`, `R2 i`; the constraint at site `(j, k)` of slab `i`
    involves `P i j k`, `P (i+1) j k`, the rungs `R1 i (j-1) k`, `R1 i j k` and `R2 i j (k-1)`,
    `R2 i j k` (cyclically), so every rung occurs in exactly two constraints.  If every
    constraint is even, all planes have the same parity. -/
theorem slab (A B M : Nat) (P R1 R2 : Nat → Nat → Nat → Nat)
    (h : ∀ i, i + 1 < M → ∀ j k, j < A → k < B →
      (P i j k + P (i + 1) j k + R1 i (wrapP A j) k + R1 i j k
        + R2 i j (wrapP B k) + R2 i j k) % 2 = 0) :
    ∀ i, i < M → rsum2 A B (P i) % 2 = rsum2 A B (P 0) % 2 := by
  apply chain M (fun i => rsum2 A B (P i))
  intro i hi
  have he := rsum2_even (h i hi)
  have e : rsum2 A B (fun j k => P i j k + P (i + 1) j k + R1 i (wrapP A j) k + R1 i j k
        + R2 i j (wrapP B k) + R2 i j k) =
      rsum2 A B (P i) + rsum2 A B (P (i + 1)) + rsum2 A B (fun j k => R1 i (wrapP A j) k)
        + rsum2 A B (R1 i) + rsum2 A B (fun j k => R2 i j (wrapP B k)) + rsum2 A B (R2 i) := by
    rw [rsum2_add, rsum2_add, rsum2_add, rsum2_add, rsum2_add]
  rw [e, rsum2_wrapP_left A B (R1 i), rsum2_wrapP_right A B (R2 i)] at he
  show (rsum2 A B (P i) + rsum2 A B (P (i + 1))) % 2 = 0
  omega

/-- **Ladder with a `+1` wrap**: lines `F 0, …, F (M-1)` of `L` sites, rungs `G i`; the `j`-th
    constraint of rung line `i` involves `F i j`, `F (i+1) j`, `G i j` and `G i (j+1)`
    (cyclically). -/
theorem ladderS (L M : Nat) (F G : Nat → Nat → Nat)
    (h : ∀ i, i + 1 < M → ∀ j, j < L →
      (F i j + F (i + 1) j + G i j + G i (wrapS L j)) % 2 = 0) :
    ∀ i, i < M → rsum L (F i) % 2 = rsum L (F 0) % 2 :=
  ladder L M F G (fun i j => G i (wrapS L j)) (fun i _ => rsum_wrapS (G i) L) h

end Panqec.Lat2D

namespace Panqec.Cubic3D
open Panqec.Lat2D

/-! ### `range2` over a period as a map over `List.range` -/

theorem range2_even (L : Nat) :
    range2 0 (2 * (L : Int)) = (List.range L).map (fun (j : Nat) => 2 * (j : Int)) := by
  unfold range2
  have h : ((2 * (L : Int) - 0 + 1) / 2).toNat = L := by omega
  rw [h]
  apply List.map_congr_left
  intro j _
  omega

theorem range2_odd (L : Nat) :
    range2 1 (2 * (L : Int)) = (List.range L).map (fun (j : Nat) => 2 * (j : Int) + 1) := by
  unfold range2
  have h : ((2 * (L : Int) - 1 + 1) / 2).toNat = L := by omega
  rw [h]
  apply List.map_congr_left
  intro j _
  omega

/-! ### counts along lines and planes -/

/-- a count along a line over the odd coordinates of a period -/
theorem countP_lineO (p : Coord → Bool) (f : Int → Coord) (L : Nat) :
    ((range2 1 (2 * (L : Int))).map f).countP p =
      rsum L (fun j => if p (f (2 * (j : Int) + 1)) = true then 1 else 0) := by
  rw [range2_odd, List.map_map]
  exact countP_range_map p _ L

theorem countP_flatMap_range (p : Coord → Bool) (c : Nat → List Coord) : ∀ A : Nat,
    ((List.range A).flatMap c).countP p = rsum A (fun j => (c j).countP p)
  | 0 => rfl
  | A + 1 => by
    rw [List.range_succ, List.flatMap_append, List.countP_append, countP_flatMap_range p c A]
    simp [rsum]

/-- a count over a plane over the even coordinates of two periods -/
theorem countP_planeE (p : Coord → Bool) (f : Int → Int → Coord) (A B : Nat) :
    (grid2 (range2 0 (2 * (A : Int))) (range2 0 (2 * (B : Int))) f).countP p =
      rsum2 A B (fun j k => if p (f (2 * (j : Int)) (2 * (k : Int))) = true then 1 else 0) := by
  unfold grid2 rsum2
  rw [range2_even A, List.flatMap_map, countP_flatMap_range]
  apply rsum_congr
  intro j _
  rw [range2_even B, List.map_map]
  exact countP_range_map p _ B

/-- one-letter operators are the single-letter dicts of `Proofs/DistLattice.lean` -/
theorem opAntiCount_uop_hit (K : List Coord) (P : Pauli) (b : Op) :
    opAntiCount (uop K P) b = K.countP (opHit P b) :=
  opAntiCount_line K P b

/-- the side conditions of `Lattice.packing_bound` for the `M` one-letter operators on the key
    lists `K 0, …, K (M-1)`: that many, dicts on the qubits, pairwise disjoint -/
def RepsOK (qs : List Coord) (K : Nat → List Coord) (M : Nat) (P : Pauli) : Prop :=
  ((List.range M).map fun i => uop (K i) P).length = M ∧
  (∀ r ∈ (List.range M).map fun i => uop (K i) P, KeysNodup r ∧ opSupported qs r = true) ∧
  ((List.range M).map fun i => uop (K i) P).Pairwise KeysDisjoint

theorem uopReps (qs : List Coord) (K : Nat → List Coord) (M : Nat) (P : Pauli)
    (hnd : ∀ i, (K i).Nodup) (hq : ∀ i, i < M → ∀ q ∈ K i, q ∈ qs)
    (hdis : ∀ i i', i < i' → ∀ q ∈ K i, q ∉ K i') : RepsOK qs K M P :=
  lineReps qs K M P hnd hq hdis

end Panqec.Cubic3D
