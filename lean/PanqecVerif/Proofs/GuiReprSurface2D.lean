/-
`Servable` for the three 2-D surface codes, all sizes of their families.
-/
import PanqecVerif.Proofs.GuiReprPayload
import PanqecVerif.Model.GuiReprClasses
import PanqecVerif.Generated.GuiFull
import PanqecVerif.Properties.C01Toric2DCode
import PanqecVerif.Properties.C01Planar2DCode
import PanqecVerif.Properties.C01RotatedPlanar2DCode

namespace Panqec.GuiRepr
open Panqec.Gui

def surfaceTypes : List String := ["vertex", "face"]

theorem toric2D_tables : classTablesOk Generated.GuiFull.tables "Toric2DCode" surfaceTypes = true := by
  decide +kernel

theorem noEdits_simple (rot : Bool) (s : Coord) (t : String) : (noEdits rot s t).all Edit.simple = true := rfl

theorem toric2D_servable (Lx Ly : Nat) (hx : 2 ≤ Lx) (hy : 2 ≤ Ly) (name : String)
    (hn : name = "None" ∨ name = "XZZX" ∨ name = "XY") :
    Servable (toric2D Lx Ly) Generated.GuiFull.tables surfaceTypes name where
  wf := C01Toric2DCode.wf Lx Ly hx hy
  tables := toric2D_tables
  stab_types := by
    intro s hs
    obtain ⟨x, y, rfl, _⟩ := Toric2DCode.mem_stabs.mp hs
    have hin : Toric2DCode.isStabilizer Lx Ly [x, y] = true := by
      unfold Toric2DCode.isStabilizer Lat2D.isIn
      exact List.contains_iff_mem.mpr hs
    show ∃ t ∈ surfaceTypes, Toric2DCode.stabilizerType Lx Ly [x, y] = some t
    unfold Toric2DCode.stabilizerType
    simp only [hin, Bool.not_true, Bool.false_eq_true, if_false]
    by_cases h : x % 2 = 0
    · exact ⟨"vertex", by decide, by simp [h]⟩
    · exact ⟨"face", by decide, by simp [h]⟩
  qubit_axes := by
    intro q hq
    obtain ⟨x, y, rfl, h | h⟩ := C01Toric2DCode.qubitAxis_rule Lx Ly q hq
    · exact ⟨"x", h.2.2⟩
    · exact ⟨"y", h.2.2⟩
  stab_edits := noEdits_simple
  qubit_edits := noEdits_simple
  deformation := by
    rcases hn with h | h | h
    · exact Or.inl h
    · right
      intro q hq
      show (Toric2DCode.getDeformation name none q).isSome = true
      rw [C01Toric2DCode.deformation_default_axis, h, C01Toric2DCode.deformation_rule_on_qubits Lx Ly "y" q (Or.inr rfl) hq]; rfl
    · right
      intro q _
      show (Toric2DCode.getDeformation name none q).isSome = true
      rw [C01Toric2DCode.deformation_default_axis, h, C01Toric2DCode.deformation_rule_XY "y" q (Or.inr rfl)]; rfl

theorem planar2D_tables : classTablesOk Generated.GuiFull.tables "Planar2DCode" surfaceTypes = true := by
  decide +kernel

theorem planar2D_servable (Lx Ly : Nat) (hx : 1 ≤ Lx) (hy : 1 ≤ Ly) (name : String)
    (hn : name = "None" ∨ name = "XZZX" ∨ name = "XY") :
    Servable (planar2D Lx Ly) Generated.GuiFull.tables surfaceTypes name where
  wf := C01Planar2DCode.wf Lx Ly hx hy
  tables := planar2D_tables
  stab_types := by
    intro s hs
    obtain ⟨x, y, rfl, _⟩ := Planar2DCode.mem_stabs.mp hs
    have hin : Planar2DCode.isStabilizer Lx Ly [x, y] = true := by
      unfold Planar2DCode.isStabilizer Lat2D.isIn
      exact List.contains_iff_mem.mpr hs
    show ∃ t ∈ surfaceTypes, Planar2DCode.stabilizerType Lx Ly [x, y] = some t
    unfold Planar2DCode.stabilizerType
    simp only [hin, Bool.not_true, Bool.false_eq_true, if_false]
    by_cases h : x % 2 = 0
    · exact ⟨"vertex", by decide, by simp [h]⟩
    · exact ⟨"face", by decide, by simp [h]⟩
  qubit_axes := by
    intro q hq
    obtain ⟨x, y, rfl, h | h⟩ := C01Planar2DCode.qubitAxis_rule Lx Ly q hq
    · exact ⟨"x", h.2.2⟩
    · exact ⟨"y", h.2.2⟩
  stab_edits := noEdits_simple
  qubit_edits := noEdits_simple
  deformation := by
    rcases hn with h | h | h
    · exact Or.inl h
    · right
      intro q hq
      show (Planar2DCode.getDeformation name none q).isSome = true
      rw [C01Planar2DCode.deformation_default_axis, h, C01Planar2DCode.deformation_rule_on_qubits Lx Ly "y" q (Or.inr rfl) hq]; rfl
    · right
      intro q _
      show (Planar2DCode.getDeformation name none q).isSome = true
      rw [C01Planar2DCode.deformation_default_axis, h, C01Planar2DCode.deformation_rule_XY "y" q (Or.inr rfl)]; rfl

theorem rotatedPlanar2D_tables : classTablesOk Generated.GuiFull.tables "RotatedPlanar2DCode" surfaceTypes = true := by
  decide +kernel

theorem rotatedPlanar2D_servable (Lx Ly : Nat) (hx : 1 ≤ Lx) (hy : 1 ≤ Ly) (name : String)
    (hn : name = "None" ∨ name = "XZZX" ∨ name = "XY") :
    Servable (rotatedPlanar2D Lx Ly) Generated.GuiFull.tables surfaceTypes name where
  wf := C01RotatedPlanar2DCode.wf Lx Ly hx hy
  tables := rotatedPlanar2D_tables
  stab_types := by
    intro s hs
    obtain ⟨x, y, rfl, _⟩ := RotatedPlanar2DCode.mem_stabs.mp hs
    have hin : RotatedPlanar2DCode.isStabilizer Lx Ly [x, y] = true := by
      unfold RotatedPlanar2DCode.isStabilizer Lat2D.isIn
      exact List.contains_iff_mem.mpr hs
    show ∃ t ∈ surfaceTypes, RotatedPlanar2DCode.stabilizerType Lx Ly [x, y] = some t
    unfold RotatedPlanar2DCode.stabilizerType
    simp only [hin, Bool.not_true, Bool.false_eq_true, if_false]
    by_cases h : (x + y) % 4 = 2
    · exact ⟨"vertex", by decide, by simp [h]⟩
    · exact ⟨"face", by decide, by simp [h]⟩
  qubit_axes := by
    intro q hq
    obtain ⟨x, y, rfl, h | h⟩ := C01RotatedPlanar2DCode.qubitAxis_rule Lx Ly q hq
    · exact ⟨"x", h.2⟩
    · exact ⟨"y", h.2⟩
  stab_edits := noEdits_simple
  qubit_edits := noEdits_simple
  deformation := by
    rcases hn with h | h | h
    · exact Or.inl h
    · right
      intro q hq
      show (RotatedPlanar2DCode.getDeformation name none q).isSome = true
      rw [C01RotatedPlanar2DCode.deformation_default_axis, h, C01RotatedPlanar2DCode.deformation_rule_on_qubits Lx Ly "y" q (Or.inr rfl) hq]; rfl
    · right
      intro q _
      show (RotatedPlanar2DCode.getDeformation name none q).isSome = true
      rw [C01RotatedPlanar2DCode.deformation_default_axis, h, C01RotatedPlanar2DCode.deformation_rule_XY "y" q (Or.inr rfl)]; rfl

end Panqec.GuiRepr
