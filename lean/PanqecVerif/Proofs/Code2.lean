/-
Helper lemmas about `Model/Code.lean`, part 2: `toBsf` of dict operators is binary
and non-zero, `to_bsf` / `from_bsf` are mutually inverse.
Core Lean only.
-/
import PanqecVerif.Proofs.Code1

namespace Panqec

/-! ### generic list facts -/

theorem filterMap_congr' {α β} (f g : α → Option β) : ∀ l : List α,
    (∀ a ∈ l, f a = g a) → l.filterMap f = l.filterMap g
  | [], _ => rfl
  | a :: l, h => by
    rw [List.filterMap_cons, List.filterMap_cons, h a (by simp),
      filterMap_congr' f g l (fun b hb => h b (by simp [hb]))]

theorem filterMap_ite {α β} (P : α → Bool) (G : α → β) : ∀ l : List α,
    l.filterMap (fun a => if P a then some (G a) else none) = (l.filter P).map G
  | [] => rfl
  | a :: l => by
    rw [List.filterMap_cons, List.filter_cons, filterMap_ite P G l]
    cases P a <;> simp

theorem zip_keys_sublist {α β} : ∀ (l₁ : List α) (l₂ : List β),
    ((l₁.zip l₂).map Prod.fst).Sublist l₁
  | [], _ => by simp
  | a :: l₁, [] => by simp
  | a :: l₁, b :: l₂ => by
    simp only [List.zip_cons_cons, List.map_cons]
    exact (zip_keys_sublist l₁ l₂).cons_cons a

theorem zip_self_map {α β} (h : α → β) : ∀ l : List α,
    l.zip (l.map h) = l.map (fun a => (a, h a))
  | [] => rfl
  | a :: l => by simp [zip_self_map h l]

/-- in an association list with distinct keys a key determines its entry -/
theorem nodup_keys_unique {α β} : ∀ (l : List (α × β)), (l.map Prod.fst).Nodup →
    ∀ a b b', (a, b) ∈ l → (a, b') ∈ l → b = b'
  | [], _, _, _, _, h, _ => by simp at h
  | (k, c) :: t, hnd, a, b, b', h1, h2 => by
    rw [List.map_cons, List.nodup_cons] at hnd
    have hkey : ∀ x, (k, x) ∈ t → False := fun x hx =>
      hnd.1 (List.mem_map.mpr ⟨(k, x), hx, rfl⟩)
    rw [List.mem_cons] at h1 h2
    rcases h1 with h1 | h1 <;> rcases h2 with h2 | h2
    · cases h1; cases h2; rfl
    · cases h1; exact (hkey _ h2).elim
    · cases h2; exact (hkey _ h1).elim
    · exact nodup_keys_unique t hnd.2 a b b' h1 h2

/-! ### `opCount` on dict operators -/

theorem keysNodup_cons (e : Coord × Pauli) (op : Op) :
    KeysNodup (e :: op) ↔ (∀ e' ∈ op, e'.1 ≠ e.1) ∧ KeysNodup op := by
  unfold KeysNodup
  rw [List.map_cons, List.nodup_cons]
  constructor
  · rintro ⟨h1, h2⟩
    exact ⟨fun e' he' heq => h1 (List.mem_map.mpr ⟨e', he', heq⟩), h2⟩
  · rintro ⟨h1, h2⟩
    refine ⟨fun hm => ?_, h2⟩
    obtain ⟨e', he', heq⟩ := List.mem_map.mp hm
    exact h1 e' he' heq

theorem opCount_eq_zero (op : Op) (q : Coord) (f : Pauli → Nat)
    (h : ∀ e ∈ op, ¬ (e.1 = q ∧ f e.2 = 1)) : opCount op q f = 0 := by
  unfold opCount
  rw [List.length_eq_zero_iff, List.filter_eq_nil_iff]
  intro e he
  have := h e he
  simpa using this

theorem opCount_pos (op : Op) (q : Coord) (p : Pauli) (f : Pauli → Nat)
    (hm : (q, p) ∈ op) (hf : f p = 1) : 0 < opCount op q f := by
  unfold opCount
  apply List.length_pos_of_mem (a := (q, p))
  rw [List.mem_filter]
  exact ⟨hm, by simp [hf]⟩

/-- a non-zero count comes from an entry of the dict -/
theorem exists_of_opCount_ne_zero (op : Op) (q : Coord) (f : Pauli → Nat)
    (h : opCount op q f ≠ 0) : ∃ p, (q, p) ∈ op ∧ f p = 1 := by
  apply Classical.byContradiction
  intro hno
  apply h
  apply opCount_eq_zero
  rintro ⟨q', p⟩ he ⟨hq, hf⟩
  simp only at hq hf
  subst hq
  exact hno ⟨p, he, hf⟩

/-- for a dict, the count at a key is the bit of the letter stored there -/
theorem opCount_of_mem : ∀ (op : Op), KeysNodup op → ∀ (q : Coord) (p : Pauli)
    (f : Pauli → Nat), (q, p) ∈ op → opCount op q f = if f p = 1 then 1 else 0
  | [], _, _, _, _, hm => by simp at hm
  | e :: op, hk, q, p, f, hm => by
    rw [keysNodup_cons] at hk
    rw [opCount_cons]
    rw [List.mem_cons] at hm
    rcases hm with hm | hm
    · subst hm
      have h0 : opCount op q f = 0 :=
        opCount_eq_zero op q f (fun e' he' hh => hk.1 e' he' hh.1)
      rw [h0]
      by_cases hf : f p = 1 <;> simp [hf]
    · have hne : ¬ e.1 = q := fun heq => hk.1 (q, p) hm heq.symm
      have hb : (e.1 == q) = false := by simp [hne]
      rw [hb, opCount_of_mem op hk.2 q p f hm]
      simp

theorem opCount_le_one : ∀ (op : Op), KeysNodup op → ∀ (q : Coord) (f : Pauli → Nat),
    opCount op q f ≤ 1
  | [], _, q, f => by simp [opCount_nil]
  | e :: op, hk, q, f => by
    rw [keysNodup_cons] at hk
    rw [opCount_cons]
    by_cases hq : e.1 = q
    · have h0 : opCount op q f = 0 :=
        opCount_eq_zero op q f (fun e' he' hh => hk.1 e' he' (hh.1.trans hq.symm))
      rw [h0]
      split <;> omega
    · have hb : (e.1 == q) = false := by simp [hq]
      have := opCount_le_one op hk.2 q f
      rw [hb]
      simpa using this

/-! ### `toBsf` -/

theorem toBsf_eq_some (qs : List Coord) (op : Op) (v : List Nat) :
    toBsf qs op = some v ↔ opSupported qs op = true ∧
      v = qs.map (fun q => opCount op q Pauli.xBit) ++
          qs.map (fun q => opCount op q Pauli.zBit) := by
  unfold toBsf
  by_cases h : opSupported qs op = true
  · simp [h, eq_comm]
  · simp [h]

theorem opSupported_mem (qs : List Coord) (op : Op) (h : opSupported qs op = true)
    (q : Coord) (p : Pauli) (hm : (q, p) ∈ op) : q ∈ qs := by
  unfold opSupported at h
  rw [List.all_eq_true] at h
  exact List.contains_iff_mem.mp (h (q, p) hm)

theorem toBsf_length' (qs : List Coord) (op : Op) (v : List Nat)
    (h : toBsf qs op = some v) : v.length = 2 * qs.length := by
  rw [toBsf_eq_some] at h
  rw [h.2]; simp; omega

theorem toBsf_binary' (qs : List Coord) (op : Op) (v : List Nat) (hk : KeysNodup op)
    (h : toBsf qs op = some v) : ∀ x ∈ v, x ≤ 1 := by
  rw [toBsf_eq_some] at h
  intro x hx
  rw [h.2, List.mem_append, List.mem_map, List.mem_map] at hx
  rcases hx with ⟨q, _, rfl⟩ | ⟨q, _, rfl⟩ <;> exact opCount_le_one op hk q _

theorem map_mod_two_of_le_one : ∀ v : List Nat, (∀ x ∈ v, x ≤ 1) → v.map (· % 2) = v
  | [], _ => rfl
  | a :: v, h => by
    have ha : a ≤ 1 := h a (by simp)
    have : a % 2 = a := by omega
    simp [this, map_mod_two_of_le_one v (fun x hx => h x (by simp [hx]))]

/-- for a dict operator the `%= 2` of the assembly changes nothing -/
theorem stabRow_eq_toBsf (qs : List Coord) (op : Op) (hk : KeysNodup op) :
    stabRow qs op = toBsf qs op := by
  unfold stabRow
  cases h : toBsf qs op with
  | none => rfl
  | some v =>
    simp only [Option.map_some]
    rw [map_mod_two_of_le_one v (toBsf_binary' qs op v hk h)]

theorem Pauli.bit_of_ne_I (p : Pauli) (h : p ≠ Pauli.I) : p.xBit = 1 ∨ p.zBit = 1 := by
  cases p <;> simp [Pauli.xBit, Pauli.zBit] at h ⊢

theorem row_nonempty' (qs : List Coord) (op : Op) (v : List Nat) (hI : NoIdentity op)
    (hne : op ≠ []) (h : toBsf qs op = some v) : ∃ x ∈ v, x ≠ 0 := by
  rw [toBsf_eq_some] at h
  obtain ⟨hs, rfl⟩ := h
  cases op with
  | nil => exact (hne rfl).elim
  | cons e op =>
    obtain ⟨q, p⟩ := e
    have hm : (q, p) ∈ (q, p) :: op := by simp
    have hq : q ∈ qs := opSupported_mem qs _ hs q p hm
    rcases Pauli.bit_of_ne_I p (hI (q, p) hm) with hb | hb
    · refine ⟨opCount ((q, p) :: op) q Pauli.xBit, ?_, ?_⟩
      · exact List.mem_append_left _ (List.mem_map.mpr ⟨q, hq, rfl⟩)
      · exact Nat.pos_iff_ne_zero.mp (opCount_pos _ q p _ hm hb)
    · refine ⟨opCount ((q, p) :: op) q Pauli.zBit, ?_, ?_⟩
      · exact List.mem_append_right _ (List.mem_map.mpr ⟨q, hq, rfl⟩)
      · exact Nat.pos_iff_ne_zero.mp (opCount_pos _ q p _ hm hb)

/-! ### `fromBsf` -/

/-- the (coordinate, x, z) triples `from_bsf` walks over -/
def trip (qs : List Coord) (v : List Nat) : List (Coord × Nat × Nat) :=
  qs.zip ((xPart v).zip (zPart v))

theorem fromBsf_eq (qs : List Coord) (v : List Nat) :
    fromBsf qs v =
      ((trip qs v).filter (fun t => decide (t.2.1 ≠ 0))).map
        (fun t => (t.1, if t.2.2 ≠ 0 then Pauli.Y else Pauli.X)) ++
      ((trip qs v).filter (fun t => decide (t.2.1 = 0 ∧ t.2.2 ≠ 0))).map
        (fun t => (t.1, Pauli.Z)) := by
  have e1 : ∀ l : List (Coord × Nat × Nat),
      l.filterMap (fun (q, x, z) =>
        if x ≠ 0 then some (q, if z ≠ 0 then Pauli.Y else Pauli.X) else none) =
      l.filterMap (fun t => if decide (t.2.1 ≠ 0) then
        some (t.1, if t.2.2 ≠ 0 then Pauli.Y else Pauli.X) else none) := by
    intro l
    apply filterMap_congr'
    rintro ⟨q, x, z⟩ _
    by_cases hx : x = 0 <;> simp [hx]
  have e2 : ∀ l : List (Coord × Nat × Nat),
      l.filterMap (fun (q, x, z) => if x = 0 ∧ z ≠ 0 then some (q, Pauli.Z) else none) =
      l.filterMap (fun t => if decide (t.2.1 = 0 ∧ t.2.2 ≠ 0) then
        some (t.1, Pauli.Z) else none) := by
    intro l
    apply filterMap_congr'
    rintro ⟨q, x, z⟩ _
    by_cases hx : x = 0 <;> by_cases hz : z = 0 <;> simp [hx, hz]
  rw [← filterMap_ite, ← filterMap_ite, ← e1, ← e2]
  rfl

theorem mem_fromBsf (qs : List Coord) (v : List Nat) (q : Coord) (p : Pauli) :
    (q, p) ∈ fromBsf qs v ↔ ∃ x z, (q, x, z) ∈ trip qs v ∧
      ((x ≠ 0 ∧ p = (if z ≠ 0 then Pauli.Y else Pauli.X)) ∨ (x = 0 ∧ z ≠ 0 ∧ p = Pauli.Z)) := by
  rw [fromBsf_eq, List.mem_append, List.mem_map, List.mem_map]
  constructor
  · rintro (⟨⟨q', x, z⟩, ht, he⟩ | ⟨⟨q', x, z⟩, ht, he⟩)
    · rw [List.mem_filter] at ht
      simp only [Prod.mk.injEq] at he
      obtain ⟨rfl, rfl⟩ := he
      exact ⟨x, z, ht.1, Or.inl ⟨by simpa using ht.2, rfl⟩⟩
    · rw [List.mem_filter] at ht
      simp only [Prod.mk.injEq] at he
      obtain ⟨rfl, rfl⟩ := he
      have h2 : x = 0 ∧ z ≠ 0 := by simpa using ht.2
      exact ⟨x, z, ht.1, Or.inr ⟨h2.1, h2.2, rfl⟩⟩
  · rintro ⟨x, z, ht, (⟨hx, hp⟩ | ⟨hx, hz, hp⟩)⟩
    · left
      refine ⟨(q, x, z), ?_, by simp [hp]⟩
      rw [List.mem_filter]; exact ⟨ht, by simpa using hx⟩
    · right
      refine ⟨(q, x, z), ?_, by simp [hp]⟩
      rw [List.mem_filter]; exact ⟨ht, by simp [hx, hz]⟩

theorem trip_keys_nodup (qs : List Coord) (v : List Nat) (hnd : qs.Nodup) :
    ((trip qs v).map Prod.fst).Nodup :=
  List.Nodup.sublist (zip_keys_sublist _ _) hnd

theorem trip_mem_qs (qs : List Coord) (v : List Nat) (q : Coord) (x z : Nat)
    (h : (q, x, z) ∈ trip qs v) : q ∈ qs := (List.of_mem_zip h).1

theorem fromBsf_key_mem (qs : List Coord) (v : List Nat) (q : Coord) (p : Pauli)
    (h : (q, p) ∈ fromBsf qs v) : q ∈ qs := by
  rw [mem_fromBsf] at h
  obtain ⟨x, z, ht, _⟩ := h
  exact trip_mem_qs qs v q x z ht

theorem opSupported_fromBsf (qs : List Coord) (v : List Nat) :
    opSupported qs (fromBsf qs v) = true := by
  unfold opSupported
  rw [List.all_eq_true]
  rintro ⟨q, p⟩ he
  exact List.contains_iff_mem.mpr (fromBsf_key_mem qs v q p he)

/-- `from_bsf` returns a dict: no coordinate occurs twice -/
theorem keysNodup_fromBsf (qs : List Coord) (v : List Nat) (hnd : qs.Nodup) :
    KeysNodup (fromBsf qs v) := by
  have hT := trip_keys_nodup qs v hnd
  unfold KeysNodup
  rw [fromBsf_eq, List.map_append, List.map_map, List.map_map, List.nodup_append]
  have hfst1 : (Prod.fst ∘ fun t : Coord × Nat × Nat =>
      (t.1, if t.2.2 ≠ 0 then Pauli.Y else Pauli.X)) = Prod.fst := rfl
  have hfst2 : (Prod.fst ∘ fun t : Coord × Nat × Nat => (t.1, Pauli.Z)) = Prod.fst := rfl
  rw [hfst1, hfst2]
  refine ⟨List.Nodup.sublist (List.filter_sublist.map _) hT,
          List.Nodup.sublist (List.filter_sublist.map _) hT, ?_⟩
  intro a ha b hb hab
  obtain ⟨⟨q, x, z⟩, ht, rfl⟩ := List.mem_map.mp ha
  obtain ⟨⟨q', x', z'⟩, ht', rfl⟩ := List.mem_map.mp hb
  rw [List.mem_filter] at ht ht'
  simp only at hab
  subst hab
  have := nodup_keys_unique (trip qs v) hT q (x, z) (x', z') ht.1 ht'.1
  simp only [Prod.mk.injEq] at this
  have h1 : x ≠ 0 := by simpa using ht.2
  have h2 : x' = 0 ∧ z' ≠ 0 := by simpa using ht'.2
  exact h1 (this.1.trans h2.1)

theorem xPart_append (a b : List Nat) (h : a.length = b.length) : xPart (a ++ b) = a := by
  unfold xPart
  apply List.take_left'
  rw [List.length_append]; omega

theorem zPart_append (a b : List Nat) (h : a.length = b.length) : zPart (a ++ b) = b := by
  unfold zPart
  apply List.drop_left'
  rw [List.length_append]; omega

theorem xPart_append_zPart (v : List Nat) : xPart v ++ zPart v = v := by
  unfold xPart zPart; exact List.take_append_drop _ _

theorem trip_maps (qs : List Coord) (f g : Coord → Nat) :
    trip qs (qs.map f ++ qs.map g) = qs.map (fun q => (q, f q, g q)) := by
  unfold trip
  rw [xPart_append _ _ (by simp), zPart_append _ _ (by simp), List.zip_map',
    zip_self_map]

/-- dict → BSF → dict gives back the same entries -/
theorem mem_fromBsf_toBsf (qs : List Coord) (op : Op) (v : List Nat) (hk : KeysNodup op)
    (hI : NoIdentity op) (h : toBsf qs op = some v) (q : Coord) (p : Pauli) :
    (q, p) ∈ fromBsf qs v ↔ (q, p) ∈ op := by
  rw [toBsf_eq_some] at h
  obtain ⟨hs, rfl⟩ := h
  rw [mem_fromBsf, trip_maps]
  constructor
  · rintro ⟨x, z, ht, hcase⟩
    obtain ⟨q', hq', he⟩ := List.mem_map.mp ht
    simp only [Prod.mk.injEq] at he
    obtain ⟨rfl, rfl, rfl⟩ := he
    -- some count is non-zero, so `q'` is a key of `op`
    have hkey : ∃ p', (q', p') ∈ op := by
      rcases hcase with ⟨hx, _⟩ | ⟨_, hz, _⟩
      · obtain ⟨p', hp', _⟩ := exists_of_opCount_ne_zero op q' _ hx
        exact ⟨p', hp'⟩
      · obtain ⟨p', hp', _⟩ := exists_of_opCount_ne_zero op q' _ hz
        exact ⟨p', hp'⟩
    obtain ⟨p', hp'⟩ := hkey
    have hx := opCount_of_mem op hk q' p' Pauli.xBit hp'
    have hz := opCount_of_mem op hk q' p' Pauli.zBit hp'
    have hne := hI (q', p') hp'
    rw [hx, hz] at hcase
    have : p = p' := by
      cases p' <;> simp [Pauli.xBit, Pauli.zBit] at hcase hne ⊢ <;> exact hcase
    rw [this]; exact hp'
  · intro hm
    have hq : q ∈ qs := opSupported_mem qs op hs q p hm
    have hx := opCount_of_mem op hk q p Pauli.xBit hm
    have hz := opCount_of_mem op hk q p Pauli.zBit hm
    have hne := hI (q, p) hm
    refine ⟨_, _, List.mem_map.mpr ⟨q, hq, rfl⟩, ?_⟩
    rw [hx, hz]
    cases p <;> simp [Pauli.xBit, Pauli.zBit] at hne ⊢

/-- counts of the dict `from_bsf` builds, at a coordinate of the triple list -/
theorem opCount_fromBsf (qs : List Coord) (v : List Nat) (hnd : qs.Nodup)
    (q : Coord) (x z : Nat) (ht : (q, x, z) ∈ trip qs v) (hx : x < 2) (hz : z < 2) :
    opCount (fromBsf qs v) q Pauli.xBit = x ∧ opCount (fromBsf qs v) q Pauli.zBit = z := by
  have hK := keysNodup_fromBsf qs v hnd
  have hT := trip_keys_nodup qs v hnd
  by_cases hx0 : x = 0
  · by_cases hz0 : z = 0
    · -- no entry at q
      subst hx0; subst hz0
      have hno : ∀ e ∈ fromBsf qs v, ¬ e.1 = q := by
        rintro ⟨q', p⟩ he heq
        simp only at heq
        subst heq
        rw [mem_fromBsf] at he
        obtain ⟨x', z', ht', hc⟩ := he
        have := nodup_keys_unique (trip qs v) hT q' (0, 0) (x', z') ht ht'
        simp only [Prod.mk.injEq] at this
        rcases hc with ⟨h1, _⟩ | ⟨_, h2, _⟩
        · exact h1 this.1.symm
        · exact h2 this.2.symm
      exact ⟨opCount_eq_zero _ _ _ (fun e he hh => hno e he hh.1),
             opCount_eq_zero _ _ _ (fun e he hh => hno e he hh.1)⟩
    · have hm : (q, Pauli.Z) ∈ fromBsf qs v :=
        (mem_fromBsf qs v q _).mpr ⟨x, z, ht, Or.inr ⟨hx0, hz0, rfl⟩⟩
      rw [opCount_of_mem _ hK q _ _ hm, opCount_of_mem _ hK q _ _ hm]
      simp [Pauli.xBit, Pauli.zBit]; omega
  · have hm : (q, if z ≠ 0 then Pauli.Y else Pauli.X) ∈ fromBsf qs v :=
      (mem_fromBsf qs v q _).mpr ⟨x, z, ht, Or.inl ⟨hx0, rfl⟩⟩
    rw [opCount_of_mem _ hK q _ _ hm, opCount_of_mem _ hK q _ _ hm]
    by_cases hz0 : z = 0
    · simp [hz0, Pauli.xBit, Pauli.zBit]; omega
    · simp [hz0, Pauli.xBit, Pauli.zBit]; omega

/-- BSF → dict → BSF is the identity on binary vectors of length 2n -/
theorem toBsf_fromBsf' (qs : List Coord) (v : List Nat) (hnd : qs.Nodup)
    (hlen : v.length = 2 * qs.length) (hbin : ∀ x ∈ v, x < 2) :
    toBsf qs (fromBsf qs v) = some v := by
  rw [toBsf_eq_some]
  refine ⟨opSupported_fromBsf qs v, ?_⟩
  have hxl : (xPart v).length = qs.length := by rw [xPart_length]; omega
  have hzl : (zPart v).length = qs.length := by rw [zPart_length]; omega
  have hq : qs = (trip qs v).map (·.1) := by
    unfold trip
    exact (List.map_fst_zip (by simp [List.length_zip]; omega)).symm
  have hxz : (xPart v).zip (zPart v) = (trip qs v).map (·.2) := by
    unfold trip
    exact (List.map_snd_zip (by simp [List.length_zip]; omega)).symm
  have hxs : xPart v = (trip qs v).map (·.2.1) := by
    have : xPart v = ((xPart v).zip (zPart v)).map (·.1) :=
      (List.map_fst_zip (by omega)).symm
    rw [this, hxz, List.map_map]; rfl
  have hzs : zPart v = (trip qs v).map (·.2.2) := by
    have : zPart v = ((xPart v).zip (zPart v)).map (·.2) :=
      (List.map_snd_zip (by omega)).symm
    rw [this, hxz, List.map_map]; rfl
  have hcount : ∀ t ∈ trip qs v,
      opCount (fromBsf qs v) t.1 Pauli.xBit = t.2.1 ∧
      opCount (fromBsf qs v) t.1 Pauli.zBit = t.2.2 := by
    rintro ⟨q, x, z⟩ ht
    have hxm : x ∈ xPart v := by rw [hxs]; exact List.mem_map.mpr ⟨_, ht, rfl⟩
    have hzm : z ∈ zPart v := by rw [hzs]; exact List.mem_map.mpr ⟨_, ht, rfl⟩
    exact opCount_fromBsf qs v hnd q x z ht
      (hbin x (List.mem_of_mem_take hxm)) (hbin z (List.mem_of_mem_drop hzm))
  have h1 : qs.map (fun q => opCount (fromBsf qs v) q Pauli.xBit) = xPart v := by
    have e : qs.map (fun q => opCount (fromBsf qs v) q Pauli.xBit) =
        ((trip qs v).map (·.1)).map (fun q => opCount (fromBsf qs v) q Pauli.xBit) := by
      rw [← hq]
    rw [e, hxs, List.map_map]
    exact List.map_congr_left (fun t ht => (hcount t ht).1)
  have h2 : qs.map (fun q => opCount (fromBsf qs v) q Pauli.zBit) = zPart v := by
    have e : qs.map (fun q => opCount (fromBsf qs v) q Pauli.zBit) =
        ((trip qs v).map (·.1)).map (fun q => opCount (fromBsf qs v) q Pauli.zBit) := by
      rw [← hq]
    rw [e, hzs, List.map_map]
    exact List.map_congr_left (fun t ht => (hcount t ht).2)
  rw [h1, h2, xPart_append_zPart]

end Panqec
