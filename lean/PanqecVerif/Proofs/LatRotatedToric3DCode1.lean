/-
`RotatedToric3DCode` lattice model, every size: arithmetic characterisation of the coordinate lists,
their distinctness / disjointness and lengths, `qubit_axis`, `get_deformation`, and the number of
logical operators.
-/
import PanqecVerif.Proofs.Lat3DbCount
import PanqecVerif.Model.Lattices.RotatedToric3DCode
open Panqec Panqec.Lat3Db
namespace Panqec.RotatedToric3DCode

set_option linter.unusedVariables false
set_option linter.unusedSimpArgs false

/-- horizontal qubit -/
def QH (Lx Ly Lz : Nat) (x y z : Int) : Prop := R1 (2 * Lx) x ∧ R1 (2 * Ly) y ∧ R1 (2 * Lz) z
/-- vertical qubit -/
def QV (Lx Ly Lz : Nat) (x y z : Int) : Prop :=
  R2 (2 * Lx + 1) x ∧ R2 (2 * Ly + 1) y ∧ R2 (2 * Lz) z ∧ (x + y) % 4 = 2
/-- vertex -/
def SV (Lx Ly Lz : Nat) (x y z : Int) : Prop :=
  R2 (2 * Lx + 1) x ∧ R2 (2 * Ly + 1) y ∧ R1 (2 * Lz) z ∧ (x + y) % 4 = 2
/-- horizontal (z-normal) face -/
def SH (Lx Ly Lz : Nat) (x y z : Int) : Prop :=
  R2 (2 * Lx + 1) x ∧ R2 (2 * Ly + 1) y ∧ R1 (2 * Lz) z ∧ (x + y) % 4 = 0
/-- the columns of vertical faces that are dropped -/
def Dropped (Lx Ly : Nat) (x y : Int) : Prop := (Ly % 2 = 1 ∧ y = 1) ∨ (Lx % 2 = 1 ∧ x = 1)
/-- vertical face -/
def SF (Lx Ly Lz : Nat) (x y z : Int) : Prop :=
  R1 (2 * Lx) x ∧ R1 (2 * Ly) y ∧ R2 (2 * Lz) z ∧ ¬ Dropped Lx Ly x y

theorem keepVFace_iff (Lx Ly : Nat) (x y : Int) :
    keepVFace Lx Ly x y = true ↔ ¬ Dropped Lx Ly x y := by
  unfold keepVFace Dropped
  simp only [Bool.not_eq_true', Bool.or_eq_false_iff, Bool.and_eq_false_iff, beq_eq_false_iff_ne,
    ne_eq, beq_iff_eq]
  constructor
  · rintro ⟨h1, h2⟩ (h | h)
    · rcases h1 with h1 | h1
      · exact h1 h.1
      · exact h1 h.2
    · rcases h2 with h2 | h2
      · exact h2 h.1
      · exact h2 h.2
  · intro h
    constructor
    · by_cases h1 : Ly % 2 = 1
      · right; intro hy; exact h (Or.inl ⟨h1, hy⟩)
      · left; exact h1
    · by_cases h1 : Lx % 2 = 1
      · right; intro hx; exact h (Or.inr ⟨h1, hx⟩)
      · left; exact h1

theorem mem_qubits_iff (Lx Ly Lz : Nat) (x y z : Int) :
    [x, y, z] ∈ qubits Lx Ly Lz ↔ QH Lx Ly Lz x y z ∨ QV Lx Ly Lz x y z := by
  unfold qubits QH QV
  simp only [List.mem_append, mem_grid3_cons, mem_pyRange2_1, mem_pyRange2_2, beq_iff_eq, and_true]

theorem mem_stabs_iff (Lx Ly Lz : Nat) (x y z : Int) :
    [x, y, z] ∈ stabs Lx Ly Lz ↔ SV Lx Ly Lz x y z ∨ SH Lx Ly Lz x y z ∨ SF Lx Ly Lz x y z := by
  unfold stabs SV SH SF
  simp only [List.mem_append, mem_grid3_cons, mem_pyRange2_1, mem_pyRange2_2, beq_iff_eq, and_true,
    or_assoc, keepVFace_iff]

theorem mem_stabs_shape (Lx Ly Lz : Nat) (s : Coord) (h : s ∈ stabs Lx Ly Lz) :
    ∃ x y z, s = [x, y, z] := by
  unfold stabs at h
  simp only [List.mem_append, mem_grid3] at h
  rcases h with (⟨x, y, z, rfl, _⟩ | ⟨x, y, z, rfl, _⟩) | ⟨x, y, z, rfl, _⟩ <;> exact ⟨x, y, z, rfl⟩

theorem mem_qubits_shape (Lx Ly Lz : Nat) (s : Coord) (h : s ∈ qubits Lx Ly Lz) :
    ∃ x y z, s = [x, y, z] := by
  unfold qubits at h
  simp only [List.mem_append, mem_grid3] at h
  rcases h with ⟨x, y, z, rfl, _⟩ | ⟨x, y, z, rfl, _⟩ <;> exact ⟨x, y, z, rfl⟩

theorem isQubit_iff (Lx Ly Lz : Nat) (x y z : Int) :
    isQubit Lx Ly Lz [x, y, z] = true ↔ QH Lx Ly Lz x y z ∨ QV Lx Ly Lz x y z := by
  unfold isQubit
  rw [List.contains_iff_mem, mem_qubits_iff]

theorem isStab_of (Lx Ly Lz : Nat) (x y z : Int)
    (h : SV Lx Ly Lz x y z ∨ SH Lx Ly Lz x y z ∨ SF Lx Ly Lz x y z) :
    isStab Lx Ly Lz [x, y, z] = true := by
  unfold isStab; rw [List.contains_iff_mem, mem_stabs_iff]; exact h

/-! ### distinctness and disjointness -/

theorem qubits_nodup (Lx Ly Lz : Nat) : (qubits Lx Ly Lz).Nodup := by
  unfold qubits
  rw [List.nodup_append]
  refine ⟨nodup_grid3 _ _ _ _ (nodup_pyRange2 _ _) (nodup_pyRange2 _ _) (nodup_pyRange2 _ _),
    nodup_grid3 _ _ _ _ (nodup_pyRange2 _ _) (nodup_pyRange2 _ _) (nodup_pyRange2 _ _), ?_⟩
  intro a ha b hb hab
  subst hab
  obtain ⟨x, y, z, rfl, _⟩ := (mem_grid3 _ _ _ _ _).mp ha
  rw [mem_grid3_cons] at ha hb
  simp only [mem_pyRange2_1, mem_pyRange2_2, R1, R2] at ha hb
  omega

theorem stabs_nodup (Lx Ly Lz : Nat) : (stabs Lx Ly Lz).Nodup := by
  unfold stabs
  rw [List.nodup_append, List.nodup_append]
  refine ⟨⟨nodup_grid3 _ _ _ _ (nodup_pyRange2 _ _) (nodup_pyRange2 _ _) (nodup_pyRange2 _ _),
    nodup_grid3 _ _ _ _ (nodup_pyRange2 _ _) (nodup_pyRange2 _ _) (nodup_pyRange2 _ _), ?_⟩,
    nodup_grid3 _ _ _ _ (nodup_pyRange2 _ _) (nodup_pyRange2 _ _) (nodup_pyRange2 _ _), ?_⟩
  · intro a ha b hb hab
    subst hab
    obtain ⟨x, y, z, rfl, _⟩ := (mem_grid3 _ _ _ _ _).mp ha
    rw [mem_grid3_cons] at ha hb
    simp only [beq_iff_eq] at ha hb
    omega
  · intro a ha b hb hab
    subst hab
    obtain ⟨x, y, z, rfl, _⟩ := (mem_grid3 _ _ _ _ _).mp hb
    rw [mem_grid3_cons] at hb
    simp only [List.mem_append, mem_grid3_cons, mem_pyRange2_1, mem_pyRange2_2, R1, R2] at ha hb
    omega

theorem qubits_not_stabs {Lx Ly Lz : Nat} {q : Coord} (h : q ∈ qubits Lx Ly Lz) :
    q ∉ stabs Lx Ly Lz := by
  obtain ⟨x, y, z, rfl⟩ := mem_qubits_shape _ _ _ _ h
  rw [mem_qubits_iff] at h
  rw [mem_stabs_iff]
  unfold QH QV R1 R2 at h
  unfold SV SH SF R1 R2
  omega

/-! ### counting -/

/-- number of `y` in `range(2, 2*Ly+1, 2)` with `(x + y) % 4 = 2`, for even `x` -/
theorem countP_mod4' (Ly : Nat) (x : Int) (hx : x % 2 = 0) :
    (pyRange2 2 (2*Ly+1)).countP (fun y => (x + y) % 4 == 2) =
      if x % 4 = 2 then Ly / 2 else (Ly + 1) / 2 := by
  rw [pyRange2_eq_map, List.countP_map]
  have hlen : (2 * Ly + 1 + 1 - 2) / 2 = Ly := by omega
  rw [hlen]
  by_cases h : x % 4 = 2
  · simp only [h, if_true]
    rw [List.countP_congr (q := fun j => j % 2 == 1), countP_odd_range]
    intro j _; simp only [Function.comp, beq_iff_eq]; omega
  · simp only [h, if_false]
    rw [List.countP_congr (q := fun j => j % 2 == 0), countP_even_range]
    intro j _; simp only [Function.comp, beq_iff_eq]; omega

/-- the number of points of the checkerboard `{(i, j) : 1 ≤ i ≤ Lx, 1 ≤ j ≤ Ly, i + j odd}` -/
theorem cnt2_checker' (Lx Ly : Nat) :
    cnt2 (pyRange2 2 (2*Lx+1)) (pyRange2 2 (2*Ly+1)) (fun x y => (x + y) % 4 == 2) =
      ((Lx + 1) / 2) * (Ly / 2) + (Lx / 2) * ((Ly + 1) / 2) := by
  unfold cnt2
  rw [pyRange2_eq_map 2 (2*Lx+1), List.map_map]
  have hlen : (2 * Lx + 1 + 1 - 2) / 2 = Lx := by omega
  rw [hlen]
  have hf : ∀ i ∈ List.range Lx,
      ((fun x => (pyRange2 2 (2*Ly+1)).countP (fun y => (x + y) % 4 == 2)) ∘
        fun i => ((2 + 2 * i : Nat) : Int)) i
        = if i % 2 = 0 then Ly / 2 else (Ly + 1) / 2 := by
    intro i _
    simp only [Function.comp]
    rw [countP_mod4' Ly _ (by omega)]
    by_cases h : i % 2 = 0
    · have : ((2 + 2 * i : Nat) : Int) % 4 = 2 := by omega
      rw [if_pos this, if_pos h]
    · have : ¬ ((2 + 2 * i : Nat) : Int) % 4 = 2 := by omega
      rw [if_neg this, if_neg h]
  rw [List.map_congr_left hf]
  generalize Ly / 2 = A
  generalize (Ly + 1) / 2 = B
  have key : ∀ m, ((List.range m).map fun i => if i % 2 = 0 then A else B).sum =
      ((m + 1) / 2) * A + (m / 2) * B := by
    intro m
    induction m with
    | zero => simp
    | succ m ih =>
      rw [List.range_succ, List.map_append, List.sum_append, ih]
      simp only [List.map_cons, List.map_nil, List.sum_cons, List.sum_nil, Nat.add_zero]
      have hm : ∃ t, m = 2 * t ∨ m = 2 * t + 1 := ⟨m / 2, by omega⟩
      obtain ⟨t, ht | ht⟩ := hm
      · subst ht
        have e1 : (2 * t + 1) / 2 = t := by omega
        have e2 : (2 * t) / 2 = t := by omega
        have e3 : (2 * t + 1 + 1) / 2 = t + 1 := by omega
        have e4 : (2 * t) % 2 = 0 := by omega
        rw [e1, e2, e3]; simp only [e4, if_true]
        rw [Nat.add_mul]; omega
      · subst ht
        have e1 : (2 * t + 1 + 1) / 2 = t + 1 := by omega
        have e2 : (2 * t + 1) / 2 = t := by omega
        have e3 : (2 * t + 1 + 1 + 1) / 2 = t + 1 := by omega
        have e4 : ¬ (2 * t + 1) % 2 = 0 := by omega
        rw [e1, e2, e3]; simp only [e4, if_false]
        rw [Nat.add_mul, Nat.add_mul]; omega
  rw [key]

theorem length_qubits (Lx Ly Lz : Nat) :
    (qubits Lx Ly Lz).length =
      Lx * Ly * Lz + (((Lx + 1) / 2) * (Ly / 2) + (Lx / 2) * ((Ly + 1) / 2)) * (Lz - 1) := by
  unfold qubits
  rw [List.length_append, length_grid3_true, length_grid3_xy, cnt2_checker']
  simp only [length_pyRange2]
  have e1 : (2 * Lx + 1 - 1) / 2 = Lx := by omega
  have e2 : (2 * Ly + 1 - 1) / 2 = Ly := by omega
  have e3 : (2 * Lz + 1 - 1) / 2 = Lz := by omega
  have e4 : (2 * Lz + 1 - 2) / 2 = Lz - 1 := by omega
  rw [e1, e2, e3, e4]

/-- in the supported family (`Lx·Ly` even) the checkerboard has `Lx·Ly/2` points -/
theorem checker_even (Lx Ly : Nat) (h : ¬ (Lx % 2 = 1 ∧ Ly % 2 = 1)) :
    2 * (((Lx + 1) / 2) * (Ly / 2) + (Lx / 2) * ((Ly + 1) / 2)) = Lx * Ly := by
  by_cases hx : Lx % 2 = 0
  · obtain ⟨a, rfl⟩ : ∃ a, Lx = 2 * a := ⟨Lx / 2, by omega⟩
    have e1 : (2 * a + 1) / 2 = a := by omega
    have e2 : (2 * a) / 2 = a := by omega
    rw [e1, e2, ← Nat.mul_add, Nat.mul_assoc]
    congr 1
    rcases Nat.mod_two_eq_zero_or_one Ly with hy | hy
    · have : Ly / 2 + (Ly + 1) / 2 = Ly := by omega
      rw [this]
    · have : Ly / 2 + (Ly + 1) / 2 = Ly := by omega
      rw [this]
  · have hy : Ly % 2 = 0 := by omega
    obtain ⟨b, rfl⟩ : ∃ b, Ly = 2 * b := ⟨Ly / 2, by omega⟩
    have e1 : (2 * b + 1) / 2 = b := by omega
    have e2 : (2 * b) / 2 = b := by omega
    rw [e1, e2, ← Nat.add_mul]
    have : (Lx + 1) / 2 + Lx / 2 = Lx := by omega
    rw [this, Nat.mul_comm 2 b, ← Nat.mul_assoc, Nat.mul_comm 2, Nat.mul_assoc, Nat.mul_comm 2 b]

/-! ### `qubit_axis`, `get_deformation`, `k` -/

theorem qubitAxis_qubit (Lx Ly Lz : Nat) (x y z : Int) (h : [x, y, z] ∈ qubits Lx Ly Lz) :
    qubitAxis Lx Ly Lz [x, y, z] =
      some (if z % 2 = 0 then "z" else if (x + y) % 4 = 2 then "x" else "y") := by
  have hq : isQubit Lx Ly Lz [x, y, z] = true := by unfold isQubit; simpa using h
  rw [mem_qubits_iff] at h
  unfold qubitAxis
  simp only [hq, Bool.not_true, Bool.false_eq_true, if_false, beq_iff_eq]
  by_cases hz : z % 2 = 0
  · simp [hz]
  · simp only [hz, if_false]
    by_cases h2 : (x + y) % 4 = 2
    · simp [h2]
    · simp only [h2, if_false]
      have h0 : (x + y) % 4 = 0 := by
        unfold QH QV R1 R2 at h; omega
      simp [h0]

theorem qubitAxis_nonqubit (Lx Ly Lz : Nat) (loc : Coord) (h : loc ∉ qubits Lx Ly Lz) :
    qubitAxis Lx Ly Lz loc = none := by
  have hq : isQubit Lx Ly Lz loc = false := by unfold isQubit; simpa using h
  unfold qubitAxis
  split
  · simp [hq]
  · rfl

theorem getDeformation_rule (Lx Ly Lz : Nat) (name : String) (axis : Option String) (loc : Coord) :
    getDeformation Lx Ly Lz name axis loc =
      if axis.getD "y" ≠ "x" ∧ axis.getD "y" ≠ "y" ∧ axis.getD "y" ≠ "z" then none
      else if name ≠ "XZZX" then none
      else (qubitAxis Lx Ly Lz loc).map fun a =>
        if a = axis.getD "y" then PauliMap.swapXZ else PauliMap.id := by
  unfold getDeformation
  generalize axis.getD "y" = ax
  by_cases h1 : ax = "x"
  · subst h1
    by_cases hn : name = "XZZX"
    · subst hn; cases qubitAxis Lx Ly Lz loc <;> simp
    · simp [hn]
  · by_cases h2 : ax = "y"
    · subst h2
      by_cases hn : name = "XZZX"
      · subst hn; cases qubitAxis Lx Ly Lz loc <;> simp
      · simp [hn]
    · by_cases h3 : ax = "z"
      · subst h3
        by_cases hn : name = "XZZX"
        · subst hn; cases qubitAxis Lx Ly Lz loc <;> simp
        · simp [hn]
      · simp [h1, h2, h3]

theorem logX_length (Lx Ly Lz : Nat) :
    (logX Lx Ly Lz).length = if Lx % 2 = 0 ∧ Ly % 2 = 0 then 2 else 1 := by
  unfold logX
  by_cases h1 : Lx % 2 = 0 <;> by_cases h2 : Ly % 2 = 0 <;>
    simp [h1, h2, show ∀ n : Nat, ¬ n % 2 = 0 → n % 2 = 1 from fun n h => by omega]

theorem logZ_length (Lx Ly Lz : Nat) :
    (logZ Lx Ly Lz).length = if Lx % 2 = 0 ∧ Ly % 2 = 0 then 2 else 1 := by
  unfold logZ
  by_cases h1 : Lx % 2 = 0 <;> by_cases h2 : Ly % 2 = 0 <;>
    simp [h1, h2, show ∀ n : Nat, ¬ n % 2 = 0 → n % 2 = 1 from fun n h => by omega]

/-! ### the fields of `lattice` as rewrite rules -/

theorem lattice_qubits (Lx Ly Lz : Nat) : (lattice Lx Ly Lz).qubits = qubits Lx Ly Lz := rfl
theorem lattice_stabs (Lx Ly Lz : Nat) : (lattice Lx Ly Lz).stabs = stabs Lx Ly Lz := rfl
theorem lattice_getStab (Lx Ly Lz : Nat) : (lattice Lx Ly Lz).getStab = getStab Lx Ly Lz := rfl
theorem lattice_logX (Lx Ly Lz : Nat) : (lattice Lx Ly Lz).logX = logX Lx Ly Lz := rfl
theorem lattice_logZ (Lx Ly Lz : Nat) : (lattice Lx Ly Lz).logZ = logZ Lx Ly Lz := rfl

end Panqec.RotatedToric3DCode
