/-
Reasoning rules for the writer/exception monad `Out` of `Model/XCubeDecoder.lean`
(postconditions on the value, and on the exception), and the length / support invariants of the
`possible_correction` vectors through every loop of `XCubeMatchingDecoder.decode`.
Core Lean only.
-/
import PanqecVerif.Model.XCubeDecoder

namespace Panqec.XCube

open Panqec

variable {W α β σ : Type}

/-! ### `Out` -/

@[simp] theorem Out.pure_val (a : α) : (Out.pure a : Out W α).val = .ok a := rfl
@[simp] theorem raise_val (e : XErr) : (raise e : Out W α).val = .error e := rfl
@[simp] theorem emit_val (ev : List (Event W)) : (emit ev).val = .ok () := rfl
@[simp] theorem note_val (t : Trace) : (note t : Out W Unit).val = .ok () := rfl

theorem Out.bind_val_ok {o : Out W α} {f : α → Out W β} {a : α} (h : o.val = .ok a) :
    (Out.bind o f).val = (f a).val := by
  unfold Out.bind; rw [h]

theorem Out.bind_val_error {o : Out W α} {f : α → Out W β} {e : XErr} (h : o.val = .error e) :
    (Out.bind o f).val = .error e := by
  unfold Out.bind; rw [h]

theorem Out.bind_ok_iff {o : Out W α} {f : α → Out W β} {b : β} :
    (Out.bind o f).val = .ok b ↔ ∃ a, o.val = .ok a ∧ (f a).val = .ok b := by
  cases h : o.val with
  | error e => rw [Out.bind_val_error h]; simp
  | ok a => rw [Out.bind_val_ok h]; simp

theorem Out.bind_error_iff {o : Out W α} {f : α → Out W β} {e : XErr} :
    (Out.bind o f).val = .error e ↔ o.val = .error e ∨ ∃ a, o.val = .ok a ∧ (f a).val = .error e := by
  cases h : o.val with
  | error e' => rw [Out.bind_val_error h]; simp
  | ok a => rw [Out.bind_val_ok h]; simp

/-- postcondition on the returned value -/
def Post (o : Out W α) (P : α → Prop) : Prop := ∀ a, o.val = .ok a → P a

/-- every exception the computation can raise satisfies `E` -/
def Errs (o : Out W α) (E : XErr → Prop) : Prop := ∀ e, o.val = .error e → E e

theorem post_pure {a : α} {P : α → Prop} (h : P a) : Post (Out.pure a : Out W α) P := by
  intro b hb; simp at hb; exact hb ▸ h

theorem post_raise {e : XErr} {P : α → Prop} : Post (raise e : Out W α) P := by
  intro b hb; simp at hb

theorem post_bind {o : Out W α} {f : α → Out W β} {Q : α → Prop} {P : β → Prop}
    (ho : Post o Q) (hf : ∀ a, Q a → Post (f a) P) : Post (Out.bind o f) P := by
  intro b hb
  obtain ⟨a, ha, hfa⟩ := Out.bind_ok_iff.mp hb
  exact hf a (ho a ha) b hfa

theorem post_mono {o : Out W α} {P Q : α → Prop} (h : Post o P) (hpq : ∀ a, P a → Q a) : Post o Q :=
  fun a ha => hpq a (h a ha)

theorem post_true (o : Out W α) : Post o (fun _ => True) := fun _ _ => trivial

theorem post_forM' {l : List α} {f : σ → α → Out W σ} (I : σ → Prop)
    (hstep : ∀ st a, a ∈ l → I st → Post (f st a) I) :
    ∀ init, I init → Post (forM' l init f) I := by
  induction l with
  | nil => intro init h0; exact post_pure h0
  | cons a rest ih =>
    intro init h0
    unfold forM'
    exact post_bind (hstep init a (List.mem_cons_self ..) h0)
      (fun st hst => ih (fun st' a' ha' => hstep st' a' (List.mem_cons_of_mem _ ha')) st hst)

theorem errs_pure {a : α} {E : XErr → Prop} : Errs (Out.pure a : Out W α) E := by
  intro e he; simp at he

theorem errs_raise {e : XErr} {E : XErr → Prop} (h : E e) : Errs (raise e : Out W α) E := by
  intro e' he; simp at he; exact he ▸ h

theorem errs_bind {o : Out W α} {f : α → Out W β} {E : XErr → Prop}
    (ho : Errs o E) (hf : ∀ a, o.val = .ok a → Errs (f a) E) : Errs (Out.bind o f) E := by
  intro e he
  rcases Out.bind_error_iff.mp he with h | ⟨a, ha, hfa⟩
  · exact ho e h
  · exact hf a ha e hfa

theorem errs_forM' {l : List α} {f : σ → α → Out W σ} {E : XErr → Prop} (I : σ → Prop)
    (hstep : ∀ st a, a ∈ l → I st → Errs (f st a) E ∧ Post (f st a) I) :
    ∀ init, I init → Errs (forM' l init f) E := by
  induction l with
  | nil => intro init _; exact errs_pure
  | cons a rest ih =>
    intro init h0
    unfold forM'
    have hs := hstep init a (List.mem_cons_self ..) h0
    exact errs_bind hs.1 (fun st hst =>
      ih (fun st' a' ha' => hstep st' a' (List.mem_cons_of_mem _ ha')) st (hs.2 st hst))

theorem post_orKeyError {key : Coord} {o : Option α} {P : α → Prop} (h : ∀ a, o = some a → P a) :
    Post (orKeyError key o : Out W α) P := by
  cases o with
  | none => exact post_raise
  | some a => exact post_pure (h a rfl)

/-! ### the `possible_correction` vectors: length and support -/

/-- length `m`, zero from position `n` on -/
def PcOk (n m : Nat) (v : Vec) : Prop := v.length = m ∧ ∀ i, n ≤ i → v.getD i 0 = 0

theorem pcOk_zeros (n m : Nat) : PcOk n m (List.replicate m 0) := by
  refine ⟨by simp, fun i _ => ?_⟩
  simp [List.getD, List.getElem?_replicate]
  split <;> rfl

theorem pcOk_bump {n m : Nat} {v : Vec} {i : Nat} (h : PcOk n m v) (hi : i < n) : PcOk n m (bump v i) := by
  refine ⟨by simp [bump, h.1], fun j hj => ?_⟩
  have hne : i ≠ j := by omega
  have := h.2 j hj
  simp only [List.getD, bump] at this ⊢
  rw [List.getElem?_modify]
  simp [hne, this]

theorem pcOk_set {n m : Nat} {v : Vec} {i : Nat} (h : PcOk n m v) (hi : i < n) : PcOk n m (v.set i 1) := by
  refine ⟨by simp [h.1], fun j hj => ?_⟩
  have hne : i ≠ j := by omega
  have := h.2 j hj
  simp only [List.getD] at this ⊢
  rw [List.getElem?_set_ne hne]
  exact this

theorem qubitIndex?_lt {qs : List Coord} {q : Coord} {i : Nat} (h : qubitIndex? qs q = some i) :
    i < qs.length := by
  unfold qubitIndex? at h
  simp only at h
  split at h
  · cases h; assumption
  · cases h

variable (d : XCubeDec W)

theorem post_bumpRange (proj : Axis) (oc : Coord) (m : Nat) (planes : List Int) (pc : Vec)
    (h : PcOk d.n m pc) : Post (bumpRange d proj oc planes pc) (PcOk d.n m) := by
  unfold bumpRange
  refine post_forM' (PcOk d.n m) ?_ pc h
  intro st a _ hst
  simp only
  refine post_bind (Q := fun idx => idx < d.n) ?_ ?_
  · exact post_orKeyError fun i hi => qubitIndex?_lt hi
  · intro idx hidx
    exact post_pure (pcOk_bump hst hidx)

theorem post_projectLoc (proj : Axis) (comp : List Int) (pp : Int) (m : Nat) (pc : Vec) (loc : Coord)
    (h : PcOk d.n m pc) : Post (projectLoc d proj comp pp pc loc) (PcOk d.n m) := by
  unfold projectLoc
  simp only
  split
  · split
    · exact post_bumpRange d proj _ m _ pc h
    · split
      · exact post_bumpRange d proj _ m _ pc h
      · exact post_pure h
  · exact post_pure h

theorem post_projectAll (proj : Axis) (comps : List (List Int)) (mp : List Coord) (m : Nat) (pc : Vec)
    (h : PcOk d.n m pc) : Post (projectAll d proj comps mp pc) (PcOk d.n m) := by
  unfold projectAll
  refine post_forM' (PcOk d.n m) ?_ pc h
  intro st comp _ hst
  refine post_forM' (PcOk d.n m) ?_ st hst
  intro st' loc _ hst'
  exact post_projectLoc d proj comp _ m st' loc hst'

theorem post_loopScatter (proj : Axis) (pp : Int) (coords : List Coord) (m : Nat) (pc : Vec)
    (h : PcOk d.n m pc) : Post (loopScatter d proj pp coords pc) (PcOk d.n m) := by
  unfold loopScatter
  refine post_forM' (PcOk d.n m) ?_ pc h
  intro st a _ hst
  simp only
  refine post_bind (Q := fun idx => idx < d.n) ?_ ?_
  · exact post_orKeyError fun i hi => qubitIndex?_lt hi
  · intro idx hidx
    exact post_pure (pcOk_set hst hidx)

theorem post_loopsAll (proj : Axis) (comps : List (List Int)) (ortho : List Coord) (m : Nat) (pc : Vec)
    (h : PcOk d.n m pc) : Post (loopsAll d proj comps ortho pc) (PcOk d.n m) := by
  unfold loopsAll
  refine post_forM' (PcOk d.n m) ?_ pc h
  intro st comp _ hst
  simp only
  refine post_bind (post_true _) ?_
  intro _ _
  refine post_bind (post_true _) ?_
  intro coords _
  refine post_bind (post_true _) ?_
  intro _ _
  exact post_loopScatter d proj _ coords m st hst

/-- all three vectors are fine -/
def PerOk (n m : Nat) (p : Per Vec) : Prop := PcOk n m p.x ∧ PcOk n m p.y ∧ PcOk n m p.z

theorem perOk_get {n m : Nat} {p : Per Vec} (h : PerOk n m p) (a : Axis) : PcOk n m (p.get a) := by
  cases a
  · exact h.1
  · exact h.2.1
  · exact h.2.2

theorem perOk_set {n m : Nat} {p : Per Vec} (h : PerOk n m p) (a : Axis) {v : Vec} (hv : PcOk n m v) :
    PerOk n m (p.set a v) := by
  cases a
  · exact ⟨hv, h.2.1, h.2.2⟩
  · exact ⟨h.1, hv, h.2.2⟩
  · exact ⟨h.1, h.2.1, hv⟩

theorem post_projIter (solve : WSolver W) (order : List Int → List Int) (s5 : Vec) (m : Nat)
    (st : Per (PlaneDict Vec) × Per Vec) (proj : Axis) (h : PerOk d.n m st.2) :
    Post (projIter solve order d s5 st proj) (fun r => PerOk d.n m r.2) := by
  unfold projIter
  refine post_bind (post_true _) ?_; intro ps _
  simp only
  refine post_bind (post_true _) ?_; intro r _
  refine post_bind (post_true _) ?_; intro comps _
  refine post_bind (post_true _) ?_; intro _ _
  refine post_bind (post_projectAll d proj comps _ m _ (perOk_get h proj)) ?_; intro pc1 hpc1
  refine post_bind (post_loopsAll d proj comps _ m pc1 hpc1) ?_; intro pc2 hpc2
  exact post_pure (perOk_set h proj hpc2)

theorem foldl_min_mem : ∀ (l : List Nat) (a : Nat), l.foldl min a = a ∨ l.foldl min a ∈ l
  | [], a => Or.inl rfl
  | b :: rest, a => by
    simp only [List.foldl_cons, List.mem_cons]
    rcases foldl_min_mem rest (min a b) with h | h
    · rw [h]
      rcases Nat.le_total a b with hab | hab
      · left; exact Nat.min_eq_left hab
      · right; left; exact Nat.min_eq_right hab
    · right; right; exact h

theorem argminIdx_lt (w : List Nat) (h : w ≠ []) : argminIdx w < w.length := by
  unfold argminIdx
  apply List.idxOf_lt_length_of_mem
  cases w with
  | nil => exact absurd rfl h
  | cons a rest =>
    simp only [List.headD_cons]
    rcases foldl_min_mem (a :: rest) a with h1 | h1
    · rw [h1]; exact List.mem_cons_self ..
    · exact h1

/-- the vector returned by the matching part is one of the three `possible_correction`s: length
    `2n`, zero on the Z half -/
theorem post_matchingPart (solve : WSolver W) (order : List Int → List Int) (s : Vec) :
    Post (matchingPart solve order d s) (PcOk d.n (2 * d.n)) := by
  unfold matchingPart
  simp only
  split
  · exact post_raise
  · refine post_bind (Q := fun (st : Per (PlaneDict Vec) × Per Vec) => PerOk d.n (2 * d.n) st.2) ?_ ?_
    · refine post_forM' (fun (st : Per (PlaneDict Vec) × Per Vec) => PerOk d.n (2 * d.n) st.2) ?_ _ ?_
      · intro st a _ hst
        exact post_projIter d solve order _ _ st a hst
      · exact ⟨pcOk_zeros _ _, pcOk_zeros _ _, pcOk_zeros _ _⟩
    · intro st hst
      refine post_bind (post_true _) ?_; intro _ _
      refine post_pure ?_
      have key : ∀ i, i < 3 → PcOk d.n (2 * d.n) (st.2.toList.getD i []) := by
        intro i hi
        match i, hi with
        | 0, _ => exact hst.1
        | 1, _ => exact hst.2.1
        | 2, _ => exact hst.2.2
        | k + 3, hk => omega
      exact key _ (by simpa [Per.toList] using argminIdx_lt (st.2.toList.map List.sum) (by simp [Per.toList]))

end Panqec.XCube
