/-
Color666PlanarCode, all sizes: overlaps.  Two faces share 0 or 2 qubits (an edge of the hexagonal
tiling, both ends of which are inside the triangle as soon as both faces are), a face has 4 or 6
corners inside the triangle (the cut removes corners in pairs), the bottom row meets every face in
0 or 2 qubits and has an odd number `2L + 1` of qubits.  Core Lean only.
-/
import PanqecVerif.Proofs.LatColor666PlanarCodeA

set_option linter.unusedVariables false

namespace Panqec.Color666PlanarCode
open Panqec.Lat2D Panqec.Color

section faceface
variable {L : Nat} {ax ay bx by' : Int}

theorem ff1 (ha : IsF L ax ay) (hb : IsF L bx by') :
    (inTriangle L [ax - 1, ay - 2] = true ∧ [ax - 1, ay - 2] ∈ supp L bx by') ↔
      (InT L (ax - 1) (ay - 2) ∧
        ((bx = ax ∧ by' = ay) ∨ (bx = ax - 3 ∧ by' = ay - 2) ∨ (bx = ax ∧ by' = ay - 4))) := by
  unfold IsF at ha hb
  rw [inTriangle_iff, mem_supp]
  constructor
  · rintro ⟨h0, hd, _⟩; refine ⟨h0, ?_⟩
    rcases hd with h | h | h | h | h | h <;> omega
  · rintro ⟨h0, hd⟩; refine ⟨h0, ?_, h0⟩
    rcases hd with h | h | h <;> omega

theorem ff2 (ha : IsF L ax ay) (hb : IsF L bx by') :
    (inTriangle L [ax + 1, ay - 2] = true ∧ [ax + 1, ay - 2] ∈ supp L bx by') ↔
      (InT L (ax + 1) (ay - 2) ∧
        ((bx = ax ∧ by' = ay) ∨ (bx = ax ∧ by' = ay - 4) ∨ (bx = ax + 3 ∧ by' = ay - 2))) := by
  unfold IsF at ha hb
  rw [inTriangle_iff, mem_supp]
  constructor
  · rintro ⟨h0, hd, _⟩; refine ⟨h0, ?_⟩
    rcases hd with h | h | h | h | h | h <;> omega
  · rintro ⟨h0, hd⟩; refine ⟨h0, ?_, h0⟩
    rcases hd with h | h | h <;> omega

theorem ff3 (ha : IsF L ax ay) (hb : IsF L bx by') :
    (inTriangle L [ax + 2, ay] = true ∧ [ax + 2, ay] ∈ supp L bx by') ↔
      (InT L (ax + 2) ay ∧
        ((bx = ax ∧ by' = ay) ∨ (bx = ax + 3 ∧ by' = ay - 2) ∨ (bx = ax + 3 ∧ by' = ay + 2))) := by
  unfold IsF at ha hb
  rw [inTriangle_iff, mem_supp]
  constructor
  · rintro ⟨h0, hd, _⟩; refine ⟨h0, ?_⟩
    rcases hd with h | h | h | h | h | h <;> omega
  · rintro ⟨h0, hd⟩; refine ⟨h0, ?_, h0⟩
    rcases hd with h | h | h <;> omega

theorem ff4 (ha : IsF L ax ay) (hb : IsF L bx by') :
    (inTriangle L [ax + 1, ay + 2] = true ∧ [ax + 1, ay + 2] ∈ supp L bx by') ↔
      (InT L (ax + 1) (ay + 2) ∧
        ((bx = ax ∧ by' = ay) ∨ (bx = ax + 3 ∧ by' = ay + 2) ∨ (bx = ax ∧ by' = ay + 4))) := by
  unfold IsF at ha hb
  rw [inTriangle_iff, mem_supp]
  constructor
  · rintro ⟨h0, hd, _⟩; refine ⟨h0, ?_⟩
    rcases hd with h | h | h | h | h | h <;> omega
  · rintro ⟨h0, hd⟩; refine ⟨h0, ?_, h0⟩
    rcases hd with h | h | h <;> omega

theorem ff5 (ha : IsF L ax ay) (hb : IsF L bx by') :
    (inTriangle L [ax - 1, ay + 2] = true ∧ [ax - 1, ay + 2] ∈ supp L bx by') ↔
      (InT L (ax - 1) (ay + 2) ∧
        ((bx = ax ∧ by' = ay) ∨ (bx = ax ∧ by' = ay + 4) ∨ (bx = ax - 3 ∧ by' = ay + 2))) := by
  unfold IsF at ha hb
  rw [inTriangle_iff, mem_supp]
  constructor
  · rintro ⟨h0, hd, _⟩; refine ⟨h0, ?_⟩
    rcases hd with h | h | h | h | h | h <;> omega
  · rintro ⟨h0, hd⟩; refine ⟨h0, ?_, h0⟩
    rcases hd with h | h | h <;> omega

theorem ff6 (ha : IsF L ax ay) (hb : IsF L bx by') :
    (inTriangle L [ax - 2, ay] = true ∧ [ax - 2, ay] ∈ supp L bx by') ↔
      (InT L (ax - 2) ay ∧
        ((bx = ax ∧ by' = ay) ∨ (bx = ax - 3 ∧ by' = ay + 2) ∨ (bx = ax - 3 ∧ by' = ay - 2))) := by
  unfold IsF at ha hb
  rw [inTriangle_iff, mem_supp]
  constructor
  · rintro ⟨h0, hd, _⟩; refine ⟨h0, ?_⟩
    rcases hd with h | h | h | h | h | h <;> omega
  · rintro ⟨h0, hd⟩; refine ⟨h0, ?_, h0⟩
    rcases hd with h | h | h <;> omega

/-- the triangle cuts the corners of a face in pairs -/
theorem cut_pairs (ha : IsF L ax ay) :
    (InT L (ax - 1) (ay - 2) ↔ InT L (ax + 1) (ay - 2)) ∧
    (InT L (ax + 2) ay ↔ InT L (ax + 1) (ay + 2)) ∧
    (InT L (ax - 1) (ay + 2) ↔ InT L (ax - 2) ay) := by
  unfold IsF at ha
  unfold InT
  refine ⟨?_, ?_, ?_⟩ <;> constructor <;> intro h <;> omega

/-- two faces (equal or not) share an even number of qubits -/
theorem face_face_even (ha : IsF L ax ay) (hb : IsF L bx by') :
    interCount (supp L ax ay) (supp L bx by') % 2 = 0 := by
  have key := interCount_filter6_iff [ax - 1, ay - 2] [ax + 1, ay - 2] [ax + 2, ay]
    [ax + 1, ay + 2] [ax - 1, ay + 2] [ax - 2, ay] (inTriangle L) (supp L bx by') _ _ _ _ _ _
    (ff1 ha hb) (ff2 ha hb) (ff3 ha hb) (ff4 ha hb) (ff5 ha hb) (ff6 ha hb)
  show interCount ([[ax - 1, ay - 2], [ax + 1, ay - 2], [ax + 2, ay], [ax + 1, ay + 2],
    [ax - 1, ay + 2], [ax - 2, ay]].filter (inTriangle L)) (supp L bx by') % 2 = 0
  rw [key]
  obtain ⟨p12, p34, p56⟩ := cut_pairs ha
  by_cases c0 : bx = ax ∧ by' = ay
  · -- the same face: 0, 2, 4 or 6 corners
    have e : ∀ P : Prop, (P ∧ ((bx = ax ∧ by' = ay) ∨ False)) ↔ P := by
      intro P; simp [c0]
    by_cases q1 : InT L (ax - 1) (ay - 2) <;> by_cases q3 : InT L (ax + 2) ay <;>
      by_cases q5 : InT L (ax - 1) (ay + 2) <;>
      simp [c0, q1, q3, q5, ← p12, ← p34, ← p56]
  · unfold IsF at ha hb
    unfold InT
    by_cases c1 : bx = ax ∧ by' = ay - 4
    · rw [if_pos (by omega), if_pos (by omega), if_neg (by omega), if_neg (by omega),
        if_neg (by omega), if_neg (by omega)]
    · by_cases c2 : bx = ax + 3 ∧ by' = ay - 2
      · rw [if_neg (by omega), if_pos (by omega), if_pos (by omega), if_neg (by omega),
          if_neg (by omega), if_neg (by omega)]
      · by_cases c3 : bx = ax + 3 ∧ by' = ay + 2
        · rw [if_neg (by omega), if_neg (by omega), if_pos (by omega), if_pos (by omega),
            if_neg (by omega), if_neg (by omega)]
        · by_cases c4 : bx = ax ∧ by' = ay + 4
          · rw [if_neg (by omega), if_neg (by omega), if_neg (by omega), if_pos (by omega),
              if_pos (by omega), if_neg (by omega)]
          · by_cases c5 : bx = ax - 3 ∧ by' = ay + 2
            · rw [if_neg (by omega), if_neg (by omega), if_neg (by omega), if_neg (by omega),
                if_pos (by omega), if_pos (by omega)]
            · by_cases c6 : bx = ax - 3 ∧ by' = ay - 2
              · rw [if_pos (by omega), if_neg (by omega), if_neg (by omega), if_neg (by omega),
                  if_neg (by omega), if_pos (by omega)]
              · rw [if_neg (by omega), if_neg (by omega), if_neg (by omega), if_neg (by omega),
                  if_neg (by omega), if_neg (by omega)]

end faceface

/-! ### the bottom row -/

/-- the qubits of the row `y = 0`, in the order of the loop of `get_logicals_x/z` -/
def kB (L L' : Nat) : List Coord := (bottomRow L).filter (isQubit L L')

theorem nodup_bottomRow (L : Nat) : (bottomRow L).Nodup :=
  nodup_map_pair _ (fun a b h => by simpa using h) (nodup_pyRangeStep _ _ _ (by decide))

theorem nodup_kB (L L' : Nat) : (kB L L').Nodup := (nodup_bottomRow L).sublist List.filter_sublist

theorem mem_kB {L L' : Nat} (hL : 1 ≤ L) {a b : Int} :
    [a, b] ∈ kB L L' ↔ (b = 0 ∧ IsQ L a 0) := by
  unfold kB bottomRow
  simp only [List.mem_filter, List.mem_map, mem_pyRangeStep2, List.cons.injEq, and_true]
  constructor
  · rintro ⟨⟨x, hx, rfl, rfl⟩, hq⟩
    exact ⟨rfl, (isQubit_iff hL).mp hq⟩
  · rintro ⟨rfl, hq⟩
    refine ⟨⟨a, ?_, rfl, rfl⟩, (isQubit_iff hL).mpr hq⟩
    unfold IsQ InT at hq; omega

theorem kB_shape {L L' : Nat} {q : Coord} (h : q ∈ kB L L') : ∃ a, q = [a, 0] := by
  unfold kB bottomRow at h
  simp only [List.mem_filter, List.mem_map] at h
  obtain ⟨⟨x, _, rfl⟩, _⟩ := h
  exact ⟨x, rfl⟩

theorem logX_eq (L L' : Nat) : logX L L' = [(kB L L').map (fun q => (q, Pauli.X))] := by
  show [collect (bottomRow L) (isQubit L L') Pauli.X] = _
  rw [collect_eq _ _ _ (nodup_bottomRow L)]; rfl

theorem logZ_eq (L L' : Nat) : logZ L L' = [(kB L L').map (fun q => (q, Pauli.Z))] := by
  show [collect (bottomRow L) (isQubit L L') Pauli.Z] = _
  rw [collect_eq _ _ _ (nodup_bottomRow L)]; rfl

/-- a face meets the bottom row in 0 or 2 qubits -/
theorem supp_kB {L L' : Nat} (hL : 1 ≤ L) {x y : Int} (h : IsF L x y) :
    interCount (supp L x y) (kB L L') % 2 = 0 := by
  unfold IsF at h
  have key := interCount_filter6_iff [x - 1, y - 2] [x + 1, y - 2] [x + 2, y]
    [x + 1, y + 2] [x - 1, y + 2] [x - 2, y] (inTriangle L) (kB L L')
    (y = 2) (y = 2) (y = 0) False False (y = 0)
    (by rw [inTriangle_iff, mem_kB hL]; unfold IsQ InT; omega)
    (by rw [inTriangle_iff, mem_kB hL]; unfold IsQ InT; omega)
    (by rw [inTriangle_iff, mem_kB hL]; unfold IsQ InT; omega)
    (by rw [inTriangle_iff, mem_kB hL, iff_false]; omega)
    (by rw [inTriangle_iff, mem_kB hL, iff_false]; omega)
    (by rw [inTriangle_iff, mem_kB hL]; unfold IsQ InT; omega)
  show interCount ([[x - 1, y - 2], [x + 1, y - 2], [x + 2, y], [x + 1, y + 2],
    [x - 1, y + 2], [x - 2, y]].filter (inTriangle L)) (kB L L') % 2 = 0
  rw [key]
  by_cases h2 : y = 2 <;> by_cases h0 : y = 0 <;> simp [h2, h0]

end Panqec.Color666PlanarCode
