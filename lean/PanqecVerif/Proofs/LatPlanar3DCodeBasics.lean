/-
`Planar3DCode` for every size: arithmetic characterisation of the coordinate lists (four kinds of
ranges: `range(0,2L,2)`, `range(1,2L-1,2)`, `range(2,2L,2)`, `range(1,2L+1,2)`), and the parity-only
coordinate atoms used when two neighbourhoods are compared (no wrap-around here).
-/
import PanqecVerif.Proofs.LatCubic3D
import PanqecVerif.Model.Lattices.Planar3DCode

namespace Panqec.Planar3DCode
open Panqec.Cubic3D

/-- `x ∈ range(0, 2L, 2)` -/
def inE (L : Nat) (x : Int) : Prop := 0 ≤ x ∧ x < 2 * (L : Int) ∧ x % 2 = 0
/-- `x ∈ range(1, 2L-1, 2)` -/
def inO (L : Nat) (x : Int) : Prop := 1 ≤ x ∧ x < 2 * (L : Int) - 1 ∧ x % 2 = 1
/-- `x ∈ range(2, 2L, 2)` -/
def inE2 (L : Nat) (x : Int) : Prop := 2 ≤ x ∧ x < 2 * (L : Int) ∧ x % 2 = 0
/-- `x ∈ range(1, 2L+1, 2)` -/
def inO1 (L : Nat) (x : Int) : Prop := 1 ≤ x ∧ x < 2 * (L : Int) + 1 ∧ x % 2 = 1

theorem mem_rangeE {L : Nat} {x : Int} : x ∈ range2 0 (2 * (L : Int)) ↔ inE L x := by
  rw [mem_range2]; unfold inE; omega
theorem mem_rangeO {L : Nat} {x : Int} : x ∈ range2 1 (2 * (L : Int) - 1) ↔ inO L x := by
  rw [mem_range2]; unfold inO; omega
theorem mem_rangeE2 {L : Nat} {x : Int} : x ∈ range2 2 (2 * (L : Int)) ↔ inE2 L x := by
  rw [mem_range2]; unfold inE2; omega
theorem mem_rangeO1 {L : Nat} {x : Int} : x ∈ range2 1 (2 * (L : Int) + 1) ↔ inO1 L x := by
  rw [mem_range2]; unfold inO1; omega

theorem length_rangeE (L : Nat) : (range2 0 (2 * (L : Int))).length = L := by
  rw [length_range2]; omega
theorem length_rangeO (L : Nat) : (range2 1 (2 * (L : Int) - 1)).length = L - 1 := by
  rw [length_range2]; omega
theorem length_rangeE2 (L : Nat) : (range2 2 (2 * (L : Int))).length = L - 1 := by
  rw [length_range2]; omega
theorem length_rangeO1 (L : Nat) : (range2 1 (2 * (L : Int) + 1)).length = L := by
  rw [length_range2]; omega

theorem mem_qubits {Lx Ly Lz : Nat} {x y z : Int} :
    [x, y, z] ∈ qubits Lx Ly Lz ↔
      (inO1 Lx x ∧ inE Ly y ∧ inE Lz z) ∨ (inE2 Lx x ∧ inO Ly y ∧ inE Lz z) ∨
      (inE2 Lx x ∧ inE Ly y ∧ inO Lz z) := by
  simp only [qubits, List.mem_append, mem_grid3, mem_rangeE, mem_rangeO, mem_rangeE2, mem_rangeO1,
    or_assoc]

theorem mem_stabs {Lx Ly Lz : Nat} {x y z : Int} :
    [x, y, z] ∈ stabs Lx Ly Lz ↔
      (inE2 Lx x ∧ inE Ly y ∧ inE Lz z) ∨ (inO1 Lx x ∧ inO Ly y ∧ inE Lz z) ∨
      (inE2 Lx x ∧ inO Ly y ∧ inO Lz z) ∨ (inO1 Lx x ∧ inE Ly y ∧ inO Lz z) := by
  simp only [stabs, List.mem_append, mem_grid3, mem_rangeE, mem_rangeO, mem_rangeE2, mem_rangeO1,
    or_assoc]

theorem shape_of_mem_qubits {Lx Ly Lz : Nat} {q : Coord} (h : q ∈ qubits Lx Ly Lz) :
    ∃ x y z, q = [x, y, z] := by
  simp only [qubits, List.mem_append, mem_grid] at h
  rcases h with (⟨x, _, y, _, z, _, rfl⟩ | ⟨x, _, y, _, z, _, rfl⟩) | ⟨x, _, y, _, z, _, rfl⟩ <;>
    exact ⟨x, y, z, rfl⟩

theorem shape_of_mem_stabs {Lx Ly Lz : Nat} {q : Coord} (h : q ∈ stabs Lx Ly Lz) :
    ∃ x y z, q = [x, y, z] := by
  simp only [stabs, List.mem_append, mem_grid] at h
  rcases h with ((⟨x, _, y, _, z, _, rfl⟩ | ⟨x, _, y, _, z, _, rfl⟩) | ⟨x, _, y, _, z, _, rfl⟩) |
    ⟨x, _, y, _, z, _, rfl⟩ <;> exact ⟨x, y, z, rfl⟩

/-! membership in `qubits` of a location whose parities are known -/

theorem mem_qubits_x {Lx Ly Lz : Nat} {x y z : Int} (hx : x % 2 = 1) (hy : y % 2 = 0)
    (hz : z % 2 = 0) : [x, y, z] ∈ qubits Lx Ly Lz ↔
      1 ≤ x ∧ x < 2 * (Lx : Int) + 1 ∧ 0 ≤ y ∧ y < 2 * (Ly : Int) ∧ 0 ≤ z ∧ z < 2 * (Lz : Int) := by
  rw [mem_qubits]; simp only [inE, inO, inE2, inO1]
  constructor
  · rintro (h | h | h) <;> omega
  · intro h; left; omega
theorem mem_qubits_y {Lx Ly Lz : Nat} {x y z : Int} (hx : x % 2 = 0) (hy : y % 2 = 1)
    (hz : z % 2 = 0) : [x, y, z] ∈ qubits Lx Ly Lz ↔
      2 ≤ x ∧ x < 2 * (Lx : Int) ∧ 1 ≤ y ∧ y < 2 * (Ly : Int) - 1 ∧ 0 ≤ z ∧ z < 2 * (Lz : Int) := by
  rw [mem_qubits]; simp only [inE, inO, inE2, inO1]
  constructor
  · rintro (h | h | h) <;> omega
  · intro h; right; left; omega
theorem mem_qubits_z {Lx Ly Lz : Nat} {x y z : Int} (hx : x % 2 = 0) (hy : y % 2 = 0)
    (hz : z % 2 = 1) : [x, y, z] ∈ qubits Lx Ly Lz ↔
      2 ≤ x ∧ x < 2 * (Lx : Int) ∧ 0 ≤ y ∧ y < 2 * (Ly : Int) ∧ 1 ≤ z ∧ z < 2 * (Lz : Int) - 1 := by
  rw [mem_qubits]; simp only [inE, inO, inE2, inO1]
  constructor
  · rintro (h | h | h) <;> omega
  · intro h; right; right; omega

/-! ### one axis at a time: coordinate atoms (parities only) -/

section axis
set_option linter.unusedVariables false
variable {e o c : Int}

/-! even vertex coordinate `e` against odd face coordinate `o` -/
theorem eo_p_m (he : e % 2 = 0) (ho : o % 2 = 1) : ¬ (e + 1 = o - 1) := by omega
theorem eo_p_p (he : e % 2 = 0) (ho : o % 2 = 1) : ¬ (e + 1 = o + 1) := by omega
theorem eo_m_m (he : e % 2 = 0) (ho : o % 2 = 1) : ¬ (e - 1 = o - 1) := by omega
theorem eo_m_p (he : e % 2 = 0) (ho : o % 2 = 1) : ¬ (e - 1 = o + 1) := by omega
theorem eo_0_m (he : e % 2 = 0) (ho : o % 2 = 1) : (e = o - 1) ↔ (e + 1 = o) := by omega
theorem eo_0_p (he : e % 2 = 0) (ho : o % 2 = 1) : (e = o + 1) ↔ (e - 1 = o) := by omega
theorem eo_0_0 (he : e % 2 = 0) (ho : o % 2 = 1) : ¬ (e = o) := by omega
theorem eo_excl (h1 : e + 1 = o) (h2 : e - 1 = o) : False := by omega
/-! even vertex coordinate `e` against even face coordinate `c` -/
theorem ee_p (he : e % 2 = 0) (hc : c % 2 = 0) : ¬ (e + 1 = c) := by omega
theorem ee_m (he : e % 2 = 0) (hc : c % 2 = 0) : ¬ (e - 1 = c) := by omega
end axis

end Panqec.Planar3DCode
