/-
Planar2DCode, all sizes, C17: translates of the two listed logical lines across the lattice,
the parity argument with open boundaries, weights of the listed logicals.

`X̄` (X on the horizontal edges of the row `y = 0`, weight `Lx`) has the `Ly` translates
`y = 2i`; consecutive translates differ by the row of face generators between them.  `Z̄` (Z on
the horizontal edges of the column `x = 1`, weight `Ly`) has the `Lx` translates `x = 2i + 1`;
consecutive translates differ by the column of vertex generators between them.  A generator at
the boundary has fewer than four qubits: the missing neighbours are not qubits (`indQ` is `0`
there).
-/
import PanqecVerif.Proofs.DistLines
import PanqecVerif.Proofs.LatPlanar2DCodeRank

namespace Panqec.Planar2DCode
open Panqec.Lat2D

/-- indicator restricted to the qubits: `0` outside the lattice -/
def indQ (Lx Ly : Nat) (P : Pauli) (b : Op) (q : Coord) : Nat :=
  if isQubit Lx Ly q = true then ind P b q else 0

theorem indQ_of {Lx Ly : Nat} {x y : Int} (P : Pauli) (b : Op) (h : IsQ Lx Ly x y) :
    indQ Lx Ly P b [x, y] = ind P b [x, y] := by
  unfold indQ; rw [if_pos (isQubit_iff.mpr h)]

theorem indQ_of_not {Lx Ly : Nat} {x y : Int} (P : Pauli) (b : Op) (h : ¬ IsQ Lx Ly x y) :
    indQ Lx Ly P b [x, y] = 0 := by
  unfold indQ; rw [if_neg (fun h' => h (isQubit_iff.mp h'))]

theorem ite_and_bool (p q : Bool) :
    (if (p && q) = true then 1 else 0) = if q = true then (if p = true then 1 else 0) else 0 := by
  cases p <;> cases q <;> rfl

/-- `b` commutes with every stabilizer generator of the lattice -/
def CommStabs (Lx Ly : Nat) (b : Op) : Prop :=
  ∀ s ∈ (lattice Lx Ly).stabs, opAntiCount ((lattice Lx Ly).getStab s) b % 2 = 0

theorem stab_even {Lx Ly : Nat} {b : Op} (hb : CommStabs Lx Ly b) {x y : Int}
    (hs : [x, y] ∈ stabs Lx Ly) :
    (indQ Lx Ly (letter x) b [x - 1, y] + indQ Lx Ly (letter x) b [x + 1, y]
      + indQ Lx Ly (letter x) b [x, y - 1] + indQ Lx Ly (letter x) b [x, y + 1]) % 2 = 0 := by
  have h := hb [x, y] hs
  rw [getStab_eq hs, opAntiCount_line] at h
  unfold supp nbrs at h
  rw [List.countP_filter] at h
  simp only [List.countP_cons, List.countP_nil, ite_and_bool] at h
  unfold indQ ind
  omega

theorem kX_eq (Lx : Nat) : kX Lx = rowKeys 0 1 Lx := by
  unfold kX rowKeys; rw [pyRange2_eq 1 Lx (by omega), List.map_map]; rfl
theorem kZ_eq (Ly : Nat) : kZ Ly = colKeys 1 0 Ly := by
  unfold kZ colKeys; rw [pyRange2_eq 0 Ly (by omega), List.map_map]; rfl

variable {Lx Ly : Nat}

/-- `Z̄` (vertical Z line at `x = 1`): translates at `x = 2i + 1` -/
theorem parity_Z {b : Op} (hb : CommStabs Lx Ly b) (i : Nat) (hi : i < Lx) :
    (colKeys (2 * i + 1) 0 Ly).countP (opHit Pauli.Z b) % 2 =
      (colKeys 1 0 Ly).countP (opHit Pauli.Z b) % 2 := by
  rw [countP_colKeys, countP_colKeys]
  have h := ladder_open 1 0 Lx Ly (fun u w => indQ Lx Ly Pauli.Z b [u, w]) ?_ ?_ ?_ i hi
  · have e1 : rsum Ly (fun j => ind Pauli.Z b [2 * (i : Int) + 1, ((2 * j + 0 : Nat) : Int)]) =
        rsum Ly (fun j => indQ Lx Ly Pauli.Z b [2 * (i : Int) + 1, 2 * (j : Int) + 0]) :=
      rsum_congr Ly (fun j hj => by
        rw [indQ_of _ _ (by unfold IsQ; omega)]
        simp)
    have e2 : rsum Ly (fun j => ind Pauli.Z b [1, ((2 * j + 0 : Nat) : Int)]) =
        rsum Ly (fun j => indQ Lx Ly Pauli.Z b [1, 2 * (j : Int) + 0]) :=
      rsum_congr Ly (fun j hj => by
        rw [indQ_of _ _ (by unfold IsQ; omega)]
        simp)
    rw [e1, e2]
    exact h
  · intro i; exact indQ_of_not _ _ (by unfold IsQ; omega)
  · intro i; exact indQ_of_not _ _ (by unfold IsQ; omega)
  · intro i j hi hj
    have hs : [2 * (i : Int) + 2, 2 * (j : Int)] ∈ stabs Lx Ly := by
      rw [mem_stabs']; left; unfold IsV; omega
    have h := stab_even hb hs
    have hl : letter (2 * (i : Int) + 2) = Pauli.Z := by unfold letter; rw [if_pos (by omega)]
    have e1 : 2 * (i : Int) + 2 - 1 = 2 * (i : Int) + 1 := by omega
    have e2 : 2 * (i : Int) + 2 + 1 = 2 * (i : Int) + 1 + 2 := by omega
    have e3 : 2 * (i : Int) + 2 = 2 * (i : Int) + 1 + 1 := by omega
    have e4 : 2 * (j : Int) = 2 * (j : Int) + 0 := by omega
    rw [hl, e1, e2] at h
    rw [e3, e4] at h
    omega

/-- `X̄` (horizontal X line at `y = 0`): translates at `y = 2i` -/
theorem parity_X {b : Op} (hb : CommStabs Lx Ly b) (i : Nat) (hi : i < Ly) :
    (rowKeys (2 * i) 1 Lx).countP (opHit Pauli.X b) % 2 =
      (rowKeys 0 1 Lx).countP (opHit Pauli.X b) % 2 := by
  rw [countP_rowKeys, countP_rowKeys]
  have h := ladder_open 0 1 Ly Lx (fun u w => indQ Lx Ly Pauli.X b [w, u]) ?_ ?_ ?_ i hi
  · have e1 : rsum Lx (fun j => ind Pauli.X b [((2 * j + 1 : Nat) : Int), 2 * (i : Int)]) =
        rsum Lx (fun j => indQ Lx Ly Pauli.X b [2 * (j : Int) + 1, 2 * (i : Int) + 0]) :=
      rsum_congr Lx (fun j hj => by
        rw [indQ_of _ _ (by unfold IsQ; omega)]
        simp)
    have e2 : rsum Lx (fun j => ind Pauli.X b [((2 * j + 1 : Nat) : Int), 0]) =
        rsum Lx (fun j => indQ Lx Ly Pauli.X b [2 * (j : Int) + 1, 0]) :=
      rsum_congr Lx (fun j hj => by
        rw [indQ_of _ _ (by unfold IsQ; omega)]
        simp)
    rw [e1, e2]
    exact h
  · intro i; exact indQ_of_not _ _ (by unfold IsQ; omega)
  · intro i; exact indQ_of_not _ _ (by unfold IsQ; omega)
  · intro i j hi hj
    have hs : [2 * (j : Int) + 1, 2 * (i : Int) + 1] ∈ stabs Lx Ly := by
      rw [mem_stabs']; right; unfold IsF; omega
    have h := stab_even hb hs
    have hl : letter (2 * (j : Int) + 1) = Pauli.X := by unfold letter; rw [if_neg (by omega)]
    have e1 : 2 * (i : Int) + 1 - 1 = 2 * (i : Int) + 0 := by omega
    have e2 : 2 * (i : Int) + 1 + 1 = 2 * (i : Int) + 0 + 2 := by omega
    have e3 : 2 * (i : Int) + 1 = 2 * (i : Int) + 0 + 1 := by omega
    rw [hl, e1, e2] at h
    rw [e3] at h
    omega

/-! ### the translates are disjoint qubit lines -/

theorem colKeys_qubits (i : Nat) (hi : i < Lx) :
    ∀ q ∈ colKeys (2 * i + 1) 0 Ly, q ∈ (lattice Lx Ly).qubits := by
  intro q hq
  obtain ⟨j, hj, rfl⟩ := mem_colKeys.mp hq
  show _ ∈ qubits Lx Ly
  rw [mem_qubits']; unfold IsQ; omega

theorem rowKeys_qubits (i : Nat) (hi : i < Ly) :
    ∀ q ∈ rowKeys (2 * i) 1 Lx, q ∈ (lattice Lx Ly).qubits := by
  intro q hq
  obtain ⟨j, hj, rfl⟩ := mem_rowKeys.mp hq
  show _ ∈ qubits Lx Ly
  rw [mem_qubits']; unfold IsQ; omega

/-- every non-trivial logical operator of the `Lx × Ly` planar code has weight `≥ min Lx Ly` -/
theorem lower_bound (hx : 1 ≤ Lx) (hy : 1 ≤ Ly)
    (hv : ValidCodeL (Lx * Ly + (Lx - 1) * (Ly - 1)) 1 (lattice Lx Ly).rowsH
      (lattice Lx Ly).rowsX (lattice Lx Ly).rowsZ) :
    ∀ v, IsNontrivialLogical (Lx * Ly + (Lx - 1) * (Ly - 1)) (lattice Lx Ly).rowsH v →
      min Lx Ly ≤ pauliWeight v := by
  apply Lattice.packing_bound (lattice Lx Ly) (wf_all hx hy) (length_qubits Lx Ly) hv
  intro a ha
  change a ∈ logX Lx Ly ++ logZ Lx Ly at ha
  rw [logX_eq, logZ_eq] at ha
  simp only [List.cons_append, List.nil_append, List.mem_cons, List.not_mem_nil, or_false] at ha
  rcases ha with rfl | rfl
  · obtain ⟨h1, h2, h3⟩ := lineReps (lattice Lx Ly).qubits (fun i => rowKeys (2 * i) 1 Lx) Ly
      Pauli.X (fun _ => nodup_rowKeys _ _ _) (fun i hi => rowKeys_qubits i hi)
      (fun i i' h => by simpa using rowKeys_disjoint 1 Lx 0 i i' h)
    refine ⟨_, by rw [h1]; omega, h2, h3, ?_⟩
    intro b _ _ hb r hr
    obtain ⟨i, hi, rfl⟩ := List.mem_map.mp hr
    rw [kX_eq, opAntiCount_line, opAntiCount_line]
    exact parity_X hb i (List.mem_range.mp hi)
  · obtain ⟨h1, h2, h3⟩ := lineReps (lattice Lx Ly).qubits (fun i => colKeys (2 * i + 1) 0 Ly) Lx
      Pauli.Z (fun _ => nodup_colKeys _ _ _) (fun i hi => colKeys_qubits i hi)
      (fun i i' h => colKeys_disjoint 0 Ly 1 i i' h)
    refine ⟨_, by rw [h1]; omega, h2, h3, ?_⟩
    intro b _ _ hb r hr
    obtain ⟨i, hi, rfl⟩ := List.mem_map.mp hr
    rw [kZ_eq, opAntiCount_line, opAntiCount_line]
    exact parity_Z hb i (List.mem_range.mp hi)

/-! ### weights of the listed logicals, reported distance -/

/-- the row of `logicals_x` has weight `Lx`, the row of `logicals_z` weight `Ly` -/
theorem weights_listed (hx : 1 ≤ Lx) (hy : 1 ≤ Ly) :
    (lattice Lx Ly).rowsX.map pauliWeight = [Lx] ∧
    (lattice Lx Ly).rowsZ.map pauliWeight = [Ly] := by
  have hX : (lattice Lx Ly).logX = logX Lx Ly := rfl
  have hZ : (lattice Lx Ly).logZ = logZ Lx Ly := rfl
  have hw : ∀ a ∈ (lattice Lx Ly).logX ++ (lattice Lx Ly).logZ,
      pauliWeight (opRow (lattice Lx Ly).qubits a) = a.length := fun a ha =>
    pauliWeight_opRow _ (wf_all hx hy).qubits_nodup a ((wf_all hx hy).log_keys a ha)
      ((wf_all hx hy).log_supported a ha)
  rw [hX, hZ, logX_eq, logZ_eq] at hw
  unfold Lattice.rowsX Lattice.rowsZ
  rw [hX, hZ, logX_eq, logZ_eq]
  simp only [List.map_cons, List.map_nil]
  rw [hw _ (by simp), hw _ (by simp)]
  simp [kX_eq, kZ_eq, length_rowKeys, length_colKeys]

/-- `code.d` (minimum weight of the listed logicals) is `min Lx Ly` -/
theorem reported_distance (hx : 1 ≤ Lx) (hy : 1 ≤ Ly) :
    distance (lattice Lx Ly).rowsX (lattice Lx Ly).rowsZ = some (min Lx Ly) := by
  obtain ⟨h1, h2⟩ := weights_listed hx hy
  unfold distance
  show (match listMin ((lattice Lx Ly).rowsX.map pauliWeight),
    listMin ((lattice Lx Ly).rowsZ.map pauliWeight) with
    | some a, some b => some (min a b)
    | _, _ => none) = _
  rw [h1, h2]
  rfl

end Panqec.Planar2DCode
