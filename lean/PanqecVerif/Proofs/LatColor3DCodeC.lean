/-
Color3DCode, every side `≥ 2`: the DERIVED qubit list in closed form (`IsQ`: the vertices of the
truncated octahedra — one odd coordinate, the two even ones different modulo 4), disjoint from the
generator locations, `n = 12·LxLyLz`.  Core Lean only.
-/
import PanqecVerif.Proofs.LatColor3DCodeB

set_option linter.unusedVariables false

namespace Panqec.Color3DCode
open Panqec.Lat2D Panqec.Color

/-- the residues (modulo 4) of a vertex: one odd, the two even ones differ by 2 -/
def patR (a b c : Int) : Bool :=
  (a % 2 == 1 && b % 2 == 0 && c % 2 == 0 && (b - c) % 4 == 2) ||
  (b % 2 == 1 && a % 2 == 0 && c % 2 == 0 && (a - c) % 4 == 2) ||
  (c % 2 == 1 && a % 2 == 0 && b % 2 == 0 && (a - b) % 4 == 2)

/-- `(a, b, c)` is a qubit coordinate (closed form of the derived list) -/
def IsQ (Lx Ly Lz : Nat) (a b c : Int) : Prop :=
  0 ≤ a ∧ a < 4 * (Lx : Int) ∧ 0 ≤ b ∧ b < 4 * (Ly : Int) ∧ 0 ≤ c ∧ c < 4 * (Lz : Int) ∧
    patR (a % 4) (b % 4) (c % 4) = true

instance (Lx Ly Lz : Nat) (a b c : Int) : Decidable (IsQ Lx Ly Lz a b c) := by
  unfold IsQ; infer_instance

def res4 : List Int := [0, 1, 2, 3]

theorem mem_res4 (v : Int) : v % 4 ∈ res4 := by
  unfold res4
  simp only [List.mem_cons, List.not_mem_nil, or_false]
  omega

/-- every delta of a generator location (all-odd or all-even residues) leads to a vertex -/
theorem keys_pat_check :
    (res4.all fun rx => res4.all fun ry => res4.all fun rz =>
      !(rx % 2 == ry % 2 && ry % 2 == rz % 2) ||
      (shape rx ry rz).all fun d => patR ((rx + d.1) % 4) ((ry + d.2.1) % 4) ((rz + d.2.2) % 4)) = true := by
  decide +kernel

theorem emod_emod_4 {L : Nat} (v : Int) : (v % (4 * (L : Int))) % 4 = v % 4 :=
  Int.emod_emod_of_dvd _ ⟨(L : Int), rfl⟩

theorem emod_emod_2 {L : Nat} (v : Int) : (v % (4 * (L : Int))) % 2 = v % 2 :=
  Int.emod_emod_of_dvd _ ⟨2 * (L : Int), by omega⟩

theorem wrap_range {L : Nat} (hL : 1 ≤ L) (v : Int) :
    0 ≤ v % (4 * (L : Int)) ∧ v % (4 * (L : Int)) < 4 * (L : Int) :=
  ⟨Int.emod_nonneg _ (by omega), Int.emod_lt_of_pos _ (by omega)⟩

theorem isQ_of_key {Lx Ly Lz : Nat} (hx : 1 ≤ Lx) (hy : 1 ≤ Ly) (hz : 1 ≤ Lz) {x y z : Int}
    (hp : x % 2 = y % 2 ∧ y % 2 = z % 2) {q : Coord} (hq : q ∈ keys Lx Ly Lz x y z) :
    ∃ a b c, q = [a, b, c] ∧ IsQ Lx Ly Lz a b c := by
  unfold keys at hq
  obtain ⟨d, hd, rfl⟩ := List.mem_map.mp hq
  refine ⟨_, _, _, rfl, ?_⟩
  have h := keys_pat_check
  simp only [List.all_eq_true] at h
  have h1 := h (x % 4) (mem_res4 x) (y % 4) (mem_res4 y) (z % 4) (mem_res4 z)
  simp only [Bool.or_eq_true, Bool.not_eq_true', Bool.and_eq_false_iff, beq_eq_false_iff_ne,
    List.all_eq_true] at h1
  have e1 : x % 4 % 2 = x % 2 := by omega
  have e2 : y % 4 % 2 = y % 2 := by omega
  have e3 : z % 4 % 2 = z % 2 := by omega
  rw [e1, e2, e3] at h1
  rcases h1 with (h1 | h1) | h1
  · exact absurd hp.1 h1
  · exact absurd hp.2 h1
  · rw [← shape_congr (Int.emod_emod_of_dvd x (by decide : (4 : Int) ∣ 4)).symm
      (Int.emod_emod_of_dvd y (by decide : (4 : Int) ∣ 4)).symm
      (Int.emod_emod_of_dvd z (by decide : (4 : Int) ∣ 4)).symm] at h1
    have h2 := h1 d hd
    obtain ⟨a1, a2⟩ := wrap_range hx (x + d.1)
    obtain ⟨b1, b2⟩ := wrap_range hy (y + d.2.1)
    obtain ⟨c1, c2⟩ := wrap_range hz (z + d.2.2)
    refine ⟨a1, a2, b1, b2, c1, c2, ?_⟩
    rw [emod_emod_4, emod_emod_4, emod_emod_4]
    rw [Int.emod_add_emod] at h2
    rw [Int.emod_add_emod] at h2
    rw [Int.emod_add_emod] at h2
    exact h2

/-- every vertex of the closed form is a corner of a hexagon of the list (no wrap-around needed) -/
theorem key_of_isQ {Lx Ly Lz : Nat} {a b c : Int} (h : IsQ Lx Ly Lz a b c) :
    ∃ x y z, IsS Lx Ly Lz x y z ∧ [a, b, c] ∈ keys Lx Ly Lz x y z := by
  unfold IsQ patR at h
  obtain ⟨a1, a2, b1, b2, c1, c2, hp⟩ := h
  simp only [Bool.or_eq_true, Bool.and_eq_true, beq_iff_eq] at hp
  have ea : a % (4 * (Lx : Int)) = a := emod_small a1 a2
  have eb : b % (4 * (Ly : Int)) = b := emod_small b1 b2
  have ec : c % (4 * (Lz : Int)) = c := emod_small c1 c2
  rcases hp with (hp | hp) | hp
  · -- `a` odd: the hexagon `(a, b+1, c+1)`, delta `(0, -1, -1)`
    refine ⟨a, b + 1, c + 1, ?_, ?_⟩
    · unfold IsS InH; right; right; right; right; right; right; right; right; omega
    · unfold keys
      refine List.mem_map.mpr ⟨(0, -1, -1), ?_, ?_⟩
      · unfold shape deltaHex
        rw [if_pos (by omega)]
        by_cases c1 : a % 4 = (c + 1) % 4
        · rw [if_neg (by omega), if_neg (by omega), if_pos (by omega)]; simp
        · rw [if_neg (by omega), if_neg (by omega), if_neg (by omega)]; simp
      · unfold wrapAt
        simp only [Int.add_zero, Int.add_neg_cancel_right, ea, eb, ec]
  · refine ⟨a + 1, b, c + 1, ?_, ?_⟩
    · unfold IsS InH; right; right; right; right; right; right; right; right; omega
    · unfold keys
      refine List.mem_map.mpr ⟨(-1, 0, -1), ?_, ?_⟩
      · unfold shape deltaHex
        rw [if_pos (by omega)]
        by_cases c1 : b % 4 = (c + 1) % 4
        · rw [if_neg (by omega), if_pos (by omega)]; simp
        · rw [if_neg (by omega), if_neg (by omega), if_neg (by omega)]; simp
      · unfold wrapAt
        simp only [Int.add_zero, Int.add_neg_cancel_right, ea, eb, ec]
  · refine ⟨a + 1, b + 1, c, ?_, ?_⟩
    · unfold IsS InH; right; right; right; right; right; right; right; right; omega
    · unfold keys
      refine List.mem_map.mpr ⟨(-1, -1, 0), ?_, ?_⟩
      · unfold shape deltaHex
        rw [if_pos (by omega)]
        by_cases c1 : (a + 1) % 4 = c % 4
        · rw [if_neg (by omega), if_neg (by omega), if_pos (by omega)]; simp
        · rw [if_neg (by omega), if_pos (by omega)]; simp
      · unfold wrapAt
        simp only [Int.add_zero, Int.add_neg_cancel_right, ea, eb, ec]

theorem nodup_qubits (Lx Ly Lz : Nat) : (qubits Lx Ly Lz).Nodup := nodup_derivedQubits _ _

theorem mem_qubits {Lx Ly Lz : Nat} (hx : 2 ≤ Lx) (hy : 2 ≤ Ly) (hz : 2 ≤ Lz) {q : Coord} :
    q ∈ qubits Lx Ly Lz ↔ ∃ a b c, q = [a, b, c] ∧ IsQ Lx Ly Lz a b c := by
  unfold qubits
  simp only []
  rw [mem_derivedQubits]
  constructor
  · rintro ⟨s, hs, hq⟩
    obtain ⟨x, y, z, rfl, hf⟩ := mem_stabs.mp hs
    rw [getStabIn_eq hx hy hz hs, Option.getD_some, map_fst_const] at hq
    exact isQ_of_key (by omega) (by omega) (by omega) (isS_parity hf) hq
  · rintro ⟨a, b, c, rfl, h⟩
    obtain ⟨x, y, z, hf, hk⟩ := key_of_isQ h
    have hs : [x, y, z] ∈ stabs Lx Ly Lz := mem_stabs'.mpr hf
    refine ⟨[x, y, z], hs, ?_⟩
    rw [getStabIn_eq hx hy hz hs, Option.getD_some, map_fst_const]
    exact hk

theorem mem_qubits' {Lx Ly Lz : Nat} (hx : 2 ≤ Lx) (hy : 2 ≤ Ly) (hz : 2 ≤ Lz) {a b c : Int} :
    [a, b, c] ∈ qubits Lx Ly Lz ↔ IsQ Lx Ly Lz a b c := by
  rw [mem_qubits hx hy hz]
  constructor
  · rintro ⟨x', y', z', h, hq⟩
    simp only [List.cons.injEq, and_true] at h
    rw [h.1, h.2.1, h.2.2]; exact hq
  · intro h; exact ⟨a, b, c, rfl, h⟩

theorem isQubit_iff {Lx Ly Lz : Nat} (hx : 2 ≤ Lx) (hy : 2 ≤ Ly) (hz : 2 ≤ Lz) {a b c : Int} :
    isQubit Lx Ly Lz [a, b, c] = true ↔ IsQ Lx Ly Lz a b c := by
  unfold isQubit; rw [isIn_iff, mem_qubits' hx hy hz]

/-- a vertex has exactly one odd coordinate; generator locations are all-odd or all-even -/
theorem qubits_stabs_disjoint {Lx Ly Lz : Nat} (hx : 2 ≤ Lx) (hy : 2 ≤ Ly) (hz : 2 ≤ Lz) :
    ∀ q ∈ qubits Lx Ly Lz, q ∉ stabs Lx Ly Lz := by
  intro q hq hs
  obtain ⟨a, b, c, rfl, h⟩ := (mem_qubits hx hy hz).mp hq
  have hp := isS_parity (mem_stabs'.mp hs)
  unfold IsQ patR at h
  obtain ⟨_, _, _, _, _, _, hp'⟩ := h
  simp only [Bool.or_eq_true, Bool.and_eq_true, beq_iff_eq] at hp'
  omega

/-! ### counting the qubits -/

def rng (L : Nat) : List Int := pyRangeStep 0 (L : Int) 1

theorem mem_rng {L : Nat} {v : Int} : v ∈ rng L ↔ 0 ≤ v ∧ v < (L : Int) := by
  unfold rng; rw [mem_pyRangeStep1]; omega

theorem length_rng (L : Nat) : (rng L).length = L := by
  unfold rng; rw [length_pyRangeStep]; omega

/-- the twelve vertices of a unit cell `[0, 4)³` -/
def offs : List D3 :=
  [(1, 0, 2), (1, 2, 0), (3, 0, 2), (3, 2, 0), (0, 1, 2), (2, 1, 0), (0, 3, 2), (2, 3, 0),
   (0, 2, 1), (2, 0, 1), (0, 2, 3), (2, 0, 3)]

theorem offs_spec : ∀ o ∈ offs, 0 ≤ o.1 ∧ o.1 < 4 ∧ 0 ≤ o.2.1 ∧ o.2.1 < 4 ∧ 0 ≤ o.2.2 ∧ o.2.2 < 4 ∧
    patR o.1 o.2.1 o.2.2 = true := by decide

theorem offs_complete : (res4.all fun r1 => res4.all fun r2 => res4.all fun r3 =>
    !patR r1 r2 r3 || offs.contains (r1, r2, r3)) = true := by decide

theorem offs_nodup : offs.Nodup := by decide

/-- the vertices of the unit cell `c = (i, j, k)` -/
def block (c : Coord) : List Coord :=
  match c with
  | [i, j, k] => offs.map fun o => [4 * i + o.1, 4 * j + o.2.1, 4 * k + o.2.2]
  | _ => []

/-- all vertices, unit cell by unit cell -/
def qlist (Lx Ly Lz : Nat) : List Coord := (grid3 (rng Lz) (rng Lx) (rng Ly)).flatMap block

theorem length_flatMap_const {α β} (f : α → List β) (c : Nat) (l : List α)
    (h : ∀ a ∈ l, (f a).length = c) : (l.flatMap f).length = l.length * c := by
  induction l with
  | nil => simp
  | cons a l ih =>
    rw [List.flatMap_cons, List.length_append, h a (List.mem_cons_self ..),
      ih (fun b hb => h b (List.mem_cons_of_mem _ hb)), List.length_cons, Nat.add_mul, Nat.one_mul,
      Nat.add_comm]

theorem length_qlist (Lx Ly Lz : Nat) : (qlist Lx Ly Lz).length = 12 * (Lz * (Lx * Ly)) := by
  unfold qlist
  rw [length_flatMap_const block 12, length_grid3, length_rng, length_rng, length_rng]
  · omega
  · intro c hc
    obtain ⟨i, j, k, rfl, _⟩ := mem_grid3.mp hc
    simp [block, offs]

theorem mem_qlist {Lx Ly Lz : Nat} {q : Coord} :
    q ∈ qlist Lx Ly Lz ↔ ∃ a b c, q = [a, b, c] ∧ IsQ Lx Ly Lz a b c := by
  unfold qlist
  simp only [List.mem_flatMap]
  constructor
  · rintro ⟨cl, hc, hq⟩
    obtain ⟨i, j, k, rfl, hi, hj, hk⟩ := mem_grid3.mp hc
    rw [mem_rng] at hi hj hk
    simp only [block, List.mem_map] at hq
    obtain ⟨o, ho, rfl⟩ := hq
    obtain ⟨o1, o2, o3, o4, o5, o6, hp⟩ := offs_spec o ho
    refine ⟨_, _, _, rfl, ?_⟩
    unfold IsQ
    have e1 : (4 * i + o.1) % 4 = o.1 := by omega
    have e2 : (4 * j + o.2.1) % 4 = o.2.1 := by omega
    have e3 : (4 * k + o.2.2) % 4 = o.2.2 := by omega
    rw [e1, e2, e3]
    refine ⟨by omega, by omega, by omega, by omega, by omega, by omega, hp⟩
  · rintro ⟨a, b, c, rfl, h⟩
    unfold IsQ at h
    obtain ⟨a1, a2, b1, b2, c1, c2, hp⟩ := h
    refine ⟨[a / 4, b / 4, c / 4], mem_grid3.mpr ⟨_, _, _, rfl, ?_, ?_, ?_⟩, ?_⟩
    · rw [mem_rng]; omega
    · rw [mem_rng]; omega
    · rw [mem_rng]; omega
    · simp only [block, List.mem_map]
      refine ⟨(a % 4, b % 4, c % 4), ?_, ?_⟩
      · have h := offs_complete
        simp only [List.all_eq_true] at h
        have h1 := h (a % 4) (mem_res4 a) (b % 4) (mem_res4 b) (c % 4) (mem_res4 c)
        rw [hp] at h1
        simpa using h1
      · simp only [List.cons.injEq, and_true]
        omega

theorem nodup_qlist (Lx Ly Lz : Nat) : (qlist Lx Ly Lz).Nodup := by
  unfold qlist
  show List.Pairwise _ _
  rw [List.pairwise_flatMap]
  constructor
  · intro cl hc
    obtain ⟨i, j, k, rfl, _⟩ := mem_grid3.mp hc
    simp only [block]
    rw [List.pairwise_map]
    refine List.Pairwise.imp ?_ offs_nodup
    intro o o' hne h
    apply hne
    simp only [List.cons.injEq, and_true] at h
    obtain ⟨o1, o2, o3⟩ := o
    obtain ⟨p1, p2, p3⟩ := o'
    simp only [Prod.mk.injEq]
    simp only at h
    omega
  · have hnd : (grid3 (rng Lz) (rng Lx) (rng Ly)).Nodup :=
      nodup_grid3 (nodup_pyRangeStep _ _ _ (by decide)) (nodup_pyRangeStep _ _ _ (by decide))
        (nodup_pyRangeStep _ _ _ (by decide))
    refine List.Pairwise.imp_of_mem ?_ hnd
    intro c c' hc hc' hne q hq r hr e
    subst e
    apply hne
    obtain ⟨i, j, k, rfl, _⟩ := mem_grid3.mp hc
    obtain ⟨i', j', k', rfl, _⟩ := mem_grid3.mp hc'
    simp only [block, List.mem_map] at hq hr
    obtain ⟨o, ho, rfl⟩ := hq
    obtain ⟨o', ho', e⟩ := hr
    have s1 := offs_spec o ho
    have s2 := offs_spec o' ho'
    simp only [List.cons.injEq, and_true] at e ⊢
    omega

/-- `n = 12·LxLyLz` -/
theorem length_qubits {Lx Ly Lz : Nat} (hx : 2 ≤ Lx) (hy : 2 ≤ Ly) (hz : 2 ≤ Lz) :
    (qubits Lx Ly Lz).length = 12 * (Lz * (Lx * Ly)) := by
  rw [← length_qlist]
  apply length_eq_of_mem_iff (nodup_qubits _ _ _) (nodup_qlist _ _ _)
  intro q
  rw [mem_qubits hx hy hz, mem_qlist]

end Panqec.Color3DCode
