/-
XCubeCode, all sizes, C17 part A: the parity argument.

A dict operator `b` that commutes with every generator (cubes: Z on 12 edges; vertex operators
`(axis, v)`: X on the 4 edges at `v` perpendicular to `axis`):

* **X logicals** are ladders of parallel edges (e.g. `X̄_{A1}(y)`: the x-edges `(1, y, z)` for all
  `z`).  Translating the ladder by one lattice unit along its edges multiplies it by the vertex
  operators of the vertices in between whose plane contains the edges and the ladder direction;
  the other two edges of consecutive vertex operators cancel (cyclically).  So `b` anticommutes
  with every translate of the ladder on as many qubits (mod 2) as with the ladder.
* **Z logicals** are straight lines of edges.  The product of a row of cubes along the lines is
  the product of the four lines through the corners of the row (the transverse edges cancel
  cyclically): the parities `U j k` of `b` with the parallel lines at transverse position `(j, k)`
  satisfy the plaquette relation, hence (`Lat2D.rect`) the rectangle relation
  `U j k + U j 0 + U 0 k + U 0 0 ≡ 0`.
-/
import PanqecVerif.Proofs.DistLat3Db
import PanqecVerif.Proofs.LatXCubeCode9

namespace Panqec.XCubeCode
open Panqec.Lat3Db
open Panqec.Lat2D (rsum rsum_congr wrapP wrapS ladderP ladder4 rect ind)

/-! ### periodic neighbours of the sites `2k`, `2a + 1` -/

theorem dn_even_nat {L k : Nat} (hk : k < L) :
    dn (2 * L) (2 * (k : Int)) = 2 * ((wrapP L k : Nat) : Int) + 1 := by
  unfold dn wrapP
  by_cases h : k = 0
  · subst h
    simp only [Int.natCast_zero, Int.mul_zero, if_true]
    omega
  · rw [if_neg (by omega), if_neg h]
    omega

theorem up_odd_nat {L a : Nat} (_ha : a < L) :
    up (2 * L) (2 * (a : Int) + 1) = 2 * ((wrapS L a : Nat) : Int) := by
  unfold up wrapS
  by_cases h : a + 1 = L
  · rw [if_pos (by omega), if_pos h]
    rfl
  · rw [if_neg (by omega), if_neg h]
    omega

theorem dn_pos (P : Nat) {x : Int} (h : x ≠ 0) : dn P x = x - 1 := by
  unfold dn; rw [if_neg h]

theorem up_nowrap (P : Nat) {x : Int} (h : x + 1 ≠ P) : up P x = x + 1 := by
  unfold up; rw [if_neg h]

/-! ### one generator (neighbours given by name) -/

/-- `b` commutes with every stabilizer generator of the lattice -/
def CommStabs (Lx Ly Lz : Nat) (b : Op) : Prop :=
  ∀ s ∈ (lattice Lx Ly Lz).stabs, opAntiCount ((lattice Lx Ly Lz).getStab s) b % 2 = 0

variable {Lx Ly Lz : Nat}

theorem faceX_even (hy : 2 ≤ Ly) (hz : 2 ≤ Lz) {b : Op} (hb : CommStabs Lx Ly Lz b) {x y z : Int}
    (hv : SVx Lx Ly Lz x y z) {yp ym zp zm : Int} (e1 : y + 1 = yp) (e2 : dn (2 * Ly) y = ym)
    (e3 : z + 1 = zp) (e4 : dn (2 * Lz) z = zm) :
    (ind Pauli.X b [x, yp, z] + ind Pauli.X b [x, ym, z] + ind Pauli.X b [x, y, zp]
      + ind Pauli.X b [x, y, zm]) % 2 = 0 := by
  have h : opAntiCount (getStab Lx Ly Lz [0, x, y, z]) b % 2 = 0 :=
    hb [0, x, y, z] ((mem_stabs_face Lx Ly Lz 0 x y z).mpr ⟨Or.inl rfl, hv⟩)
  rw [getStab_faceX Lx Ly Lz x y z hy hz hv, opAntiCount_constOp_hit] at h
  subst e1 e2 e3 e4
  unfold faceLocsX at h
  simp only [List.countP_cons, List.countP_nil] at h
  unfold Lat2D.ind
  omega

theorem faceY_even (hx : 2 ≤ Lx) (hz : 2 ≤ Lz) {b : Op} (hb : CommStabs Lx Ly Lz b) {x y z : Int}
    (hv : SVx Lx Ly Lz x y z) {xp xm zp zm : Int} (e1 : x + 1 = xp) (e2 : dn (2 * Lx) x = xm)
    (e3 : z + 1 = zp) (e4 : dn (2 * Lz) z = zm) :
    (ind Pauli.X b [xp, y, z] + ind Pauli.X b [xm, y, z] + ind Pauli.X b [x, y, zp]
      + ind Pauli.X b [x, y, zm]) % 2 = 0 := by
  have h : opAntiCount (getStab Lx Ly Lz [1, x, y, z]) b % 2 = 0 :=
    hb [1, x, y, z] ((mem_stabs_face Lx Ly Lz 1 x y z).mpr ⟨Or.inr (Or.inl rfl), hv⟩)
  rw [getStab_faceY Lx Ly Lz x y z hx hz hv, opAntiCount_constOp_hit] at h
  subst e1 e2 e3 e4
  unfold faceLocsY at h
  simp only [List.countP_cons, List.countP_nil] at h
  unfold Lat2D.ind
  omega

theorem faceZ_even (hx : 2 ≤ Lx) (hy : 2 ≤ Ly) {b : Op} (hb : CommStabs Lx Ly Lz b) {x y z : Int}
    (hv : SVx Lx Ly Lz x y z) {xp xm yp ym : Int} (e1 : x + 1 = xp) (e2 : dn (2 * Lx) x = xm)
    (e3 : y + 1 = yp) (e4 : dn (2 * Ly) y = ym) :
    (ind Pauli.X b [xp, y, z] + ind Pauli.X b [xm, y, z] + ind Pauli.X b [x, yp, z]
      + ind Pauli.X b [x, ym, z]) % 2 = 0 := by
  have h : opAntiCount (getStab Lx Ly Lz [2, x, y, z]) b % 2 = 0 :=
    hb [2, x, y, z] ((mem_stabs_face Lx Ly Lz 2 x y z).mpr ⟨Or.inr (Or.inr rfl), hv⟩)
  rw [getStab_faceZ Lx Ly Lz x y z hx hy hv, opAntiCount_constOp_hit] at h
  subst e1 e2 e3 e4
  unfold faceLocsZ at h
  simp only [List.countP_cons, List.countP_nil] at h
  unfold Lat2D.ind
  omega

theorem cube_even (hx : 2 ≤ Lx) (hy : 2 ≤ Ly) (hz : 2 ≤ Lz) {b : Op}
    (hb : CommStabs Lx Ly Lz b) {x y z : Int} (hv : SC Lx Ly Lz x y z)
    {xm xp ym yp zm zp : Int} (e1 : x - 1 = xm) (e2 : up (2 * Lx) x = xp) (e3 : y - 1 = ym)
    (e4 : up (2 * Ly) y = yp) (e5 : z - 1 = zm) (e6 : up (2 * Lz) z = zp) :
    (ind Pauli.Z b [xp, yp, z] + ind Pauli.Z b [xm, ym, z] + ind Pauli.Z b [xp, ym, z]
      + ind Pauli.Z b [xm, yp, z] + ind Pauli.Z b [xm, y, zm] + ind Pauli.Z b [xp, y, zm]
      + ind Pauli.Z b [x, ym, zm] + ind Pauli.Z b [x, yp, zm] + ind Pauli.Z b [xm, y, zp]
      + ind Pauli.Z b [xp, y, zp] + ind Pauli.Z b [x, ym, zp] + ind Pauli.Z b [x, yp, zp]) % 2
      = 0 := by
  have h : opAntiCount (getStab Lx Ly Lz [x, y, z]) b % 2 = 0 :=
    hb [x, y, z] ((mem_stabs_cube Lx Ly Lz x y z).mpr hv)
  rw [getStab_cube Lx Ly Lz x y z hx hy hz hv, opAntiCount_constOp_hit] at h
  subst e1 e2 e3 e4 e5 e6
  unfold cubeLocs at h
  simp only [List.countP_cons, List.countP_nil] at h
  unfold Lat2D.ind
  omega

/-! ### X logicals: the six ladders and their translates -/

/-- `X̄_{A1}(y)`: x-edges `(2i + 1, y, z)`, all `z` -/
def tXA1 (Lz : Nat) (y : Int) (i : Nat) : List Coord :=
  (pyRange2 0 (2 * Lz)).map fun z => [2 * (i : Int) + 1, y, z]
/-- `X̄_{A2}(z)`: x-edges `(2i + 1, y, z)`, all `y` -/
def tXA2 (Ly : Nat) (z : Int) (i : Nat) : List Coord :=
  (pyRange2 0 (2 * Ly)).map fun y => [2 * (i : Int) + 1, y, z]
/-- `X̄_{B1}(x)`: y-edges `(x, 2i + 1, z)`, all `z` -/
def tXB1 (Lz : Nat) (x : Int) (i : Nat) : List Coord :=
  (pyRange2 0 (2 * Lz)).map fun z => [x, 2 * (i : Int) + 1, z]
/-- `X̄_{B2}(z)`: y-edges `(x, 2i + 1, z)`, all `x` -/
def tXB2 (Lx : Nat) (z : Int) (i : Nat) : List Coord :=
  (pyRange2 0 (2 * Lx)).map fun x => [x, 2 * (i : Int) + 1, z]
/-- `X̄_{C1}(x)`: z-edges `(x, y, 2i + 1)`, all `y` -/
def tXC1 (Ly : Nat) (x : Int) (i : Nat) : List Coord :=
  (pyRange2 0 (2 * Ly)).map fun y => [x, y, 2 * (i : Int) + 1]
/-- `X̄_{C2}(y)`: z-edges `(x, y, 2i + 1)`, all `x` -/
def tXC2 (Lx : Nat) (y : Int) (i : Nat) : List Coord :=
  (pyRange2 0 (2 * Lx)).map fun x => [x, y, 2 * (i : Int) + 1]

theorem kXA1_eq (Lz : Nat) (y : Int) : kXA1 Lz y = tXA1 Lz y 0 := rfl
theorem kXA2_eq (Ly : Nat) (z : Int) : kXA2 Ly z = tXA2 Ly z 0 := rfl
theorem kXB1_eq (Lz : Nat) (x : Int) : kXB1 Lz x = tXB1 Lz x 0 := rfl
theorem kXB2_eq (Lx : Nat) (z : Int) : kXB2 Lx z = tXB2 Lx z 0 := rfl
theorem kXC1_eq (Ly : Nat) (x : Int) : kXC1 Ly x = tXC1 Ly x 0 := rfl
theorem kXC2_eq (Lx : Nat) (y : Int) : kXC2 Lx y = tXC2 Lx y 0 := rfl

section xparity
variable {b : Op} (hb : CommStabs Lx Ly Lz b)
include hb

/-- move along x through the axis-1 vertex operators at `(2i + 2, y, 2k)` -/
theorem parity_XA1 (hx : 2 ≤ Lx) (hz : 2 ≤ Lz) {y : Int} (hy0 : R0 (2 * Ly) y) (i : Nat) (hi : i < Lx) :
    (tXA1 Lz y i).countP (opHit Pauli.X b) % 2 = (tXA1 Lz y 0).countP (opHit Pauli.X b) % 2 := by
  unfold tXA1
  rw [countP_lineE, countP_lineE]
  refine ladderP Lz Lx (fun i k => ind Pauli.X b [2 * (i : Int) + 1, y, 2 * (k : Int)])
    (fun i k => ind Pauli.X b [2 * (i : Int) + 2, y, 2 * (k : Int) + 1]) ?_ i hi
  intro i hi k hk
  have hv : SVx Lx Ly Lz (2 * (i : Int) + 2) y (2 * (k : Int)) := by
    unfold SVx R0 at *; omega
  have h := faceY_even hx hz hb hv (xp := 2 * ((i + 1 : Nat) : Int) + 1) (xm := 2 * (i : Int) + 1)
    (zp := 2 * (k : Int) + 1) (zm := 2 * ((wrapP Lz k : Nat) : Int) + 1) (by omega)
    (by rw [dn_pos _ (by omega)]; omega) rfl (dn_even_nat hk)
  omega

/-- move along x through the axis-2 vertex operators at `(2i + 2, 2k, z)` -/
theorem parity_XA2 (hx : 2 ≤ Lx) (hy : 2 ≤ Ly) {z : Int} (hz0 : R0 (2 * Lz) z) (i : Nat) (hi : i < Lx) :
    (tXA2 Ly z i).countP (opHit Pauli.X b) % 2 = (tXA2 Ly z 0).countP (opHit Pauli.X b) % 2 := by
  unfold tXA2
  rw [countP_lineE, countP_lineE]
  refine ladderP Ly Lx (fun i k => ind Pauli.X b [2 * (i : Int) + 1, 2 * (k : Int), z])
    (fun i k => ind Pauli.X b [2 * (i : Int) + 2, 2 * (k : Int) + 1, z]) ?_ i hi
  intro i hi k hk
  have hv : SVx Lx Ly Lz (2 * (i : Int) + 2) (2 * (k : Int)) z := by
    unfold SVx R0 at *; omega
  have h := faceZ_even hx hy hb hv (xp := 2 * ((i + 1 : Nat) : Int) + 1) (xm := 2 * (i : Int) + 1)
    (yp := 2 * (k : Int) + 1) (ym := 2 * ((wrapP Ly k : Nat) : Int) + 1) (by omega)
    (by rw [dn_pos _ (by omega)]; omega) rfl (dn_even_nat hk)
  omega

/-- move along y through the axis-0 vertex operators at `(x, 2i + 2, 2k)` -/
theorem parity_XB1 (hy : 2 ≤ Ly) (hz : 2 ≤ Lz) {x : Int} (hx0 : R0 (2 * Lx) x) (i : Nat) (hi : i < Ly) :
    (tXB1 Lz x i).countP (opHit Pauli.X b) % 2 = (tXB1 Lz x 0).countP (opHit Pauli.X b) % 2 := by
  unfold tXB1
  rw [countP_lineE, countP_lineE]
  refine ladderP Lz Ly (fun i k => ind Pauli.X b [x, 2 * (i : Int) + 1, 2 * (k : Int)])
    (fun i k => ind Pauli.X b [x, 2 * (i : Int) + 2, 2 * (k : Int) + 1]) ?_ i hi
  intro i hi k hk
  have hv : SVx Lx Ly Lz x (2 * (i : Int) + 2) (2 * (k : Int)) := by
    unfold SVx R0 at *; omega
  have h := faceX_even hy hz hb hv (yp := 2 * ((i + 1 : Nat) : Int) + 1) (ym := 2 * (i : Int) + 1)
    (zp := 2 * (k : Int) + 1) (zm := 2 * ((wrapP Lz k : Nat) : Int) + 1) (by omega)
    (by rw [dn_pos _ (by omega)]; omega) rfl (dn_even_nat hk)
  omega

/-- move along y through the axis-2 vertex operators at `(2k, 2i + 2, z)` -/
theorem parity_XB2 (hx : 2 ≤ Lx) (hy : 2 ≤ Ly) {z : Int} (hz0 : R0 (2 * Lz) z) (i : Nat) (hi : i < Ly) :
    (tXB2 Lx z i).countP (opHit Pauli.X b) % 2 = (tXB2 Lx z 0).countP (opHit Pauli.X b) % 2 := by
  unfold tXB2
  rw [countP_lineE, countP_lineE]
  refine ladderP Lx Ly (fun i k => ind Pauli.X b [2 * (k : Int), 2 * (i : Int) + 1, z])
    (fun i k => ind Pauli.X b [2 * (k : Int) + 1, 2 * (i : Int) + 2, z]) ?_ i hi
  intro i hi k hk
  have hv : SVx Lx Ly Lz (2 * (k : Int)) (2 * (i : Int) + 2) z := by
    unfold SVx R0 at *; omega
  have h := faceZ_even hx hy hb hv (xp := 2 * (k : Int) + 1)
    (xm := 2 * ((wrapP Lx k : Nat) : Int) + 1) (yp := 2 * ((i + 1 : Nat) : Int) + 1)
    (ym := 2 * (i : Int) + 1) rfl (dn_even_nat hk) (by omega)
    (by rw [dn_pos _ (by omega)]; omega)
  omega

/-- move along z through the axis-0 vertex operators at `(x, 2k, 2i + 2)` -/
theorem parity_XC1 (hy : 2 ≤ Ly) (hz : 2 ≤ Lz) {x : Int} (hx0 : R0 (2 * Lx) x) (i : Nat) (hi : i < Lz) :
    (tXC1 Ly x i).countP (opHit Pauli.X b) % 2 = (tXC1 Ly x 0).countP (opHit Pauli.X b) % 2 := by
  unfold tXC1
  rw [countP_lineE, countP_lineE]
  refine ladderP Ly Lz (fun i k => ind Pauli.X b [x, 2 * (k : Int), 2 * (i : Int) + 1])
    (fun i k => ind Pauli.X b [x, 2 * (k : Int) + 1, 2 * (i : Int) + 2]) ?_ i hi
  intro i hi k hk
  have hv : SVx Lx Ly Lz x (2 * (k : Int)) (2 * (i : Int) + 2) := by
    unfold SVx R0 at *; omega
  have h := faceX_even hy hz hb hv (yp := 2 * (k : Int) + 1)
    (ym := 2 * ((wrapP Ly k : Nat) : Int) + 1) (zp := 2 * ((i + 1 : Nat) : Int) + 1)
    (zm := 2 * (i : Int) + 1) rfl (dn_even_nat hk) (by omega)
    (by rw [dn_pos _ (by omega)]; omega)
  omega

/-- move along z through the axis-1 vertex operators at `(2k, y, 2i + 2)` -/
theorem parity_XC2 (hx : 2 ≤ Lx) (hz : 2 ≤ Lz) {y : Int} (hy0 : R0 (2 * Ly) y) (i : Nat) (hi : i < Lz) :
    (tXC2 Lx y i).countP (opHit Pauli.X b) % 2 = (tXC2 Lx y 0).countP (opHit Pauli.X b) % 2 := by
  unfold tXC2
  rw [countP_lineE, countP_lineE]
  refine ladderP Lx Lz (fun i k => ind Pauli.X b [2 * (k : Int), y, 2 * (i : Int) + 1])
    (fun i k => ind Pauli.X b [2 * (k : Int) + 1, y, 2 * (i : Int) + 2]) ?_ i hi
  intro i hi k hk
  have hv : SVx Lx Ly Lz (2 * (k : Int)) y (2 * (i : Int) + 2) := by
    unfold SVx R0 at *; omega
  have h := faceY_even hx hz hb hv (xp := 2 * (k : Int) + 1)
    (xm := 2 * ((wrapP Lx k : Nat) : Int) + 1) (zp := 2 * ((i + 1 : Nat) : Int) + 1)
    (zm := 2 * (i : Int) + 1) rfl (dn_even_nat hk) (by omega)
    (by rw [dn_pos _ (by omega)]; omega)
  omega

end xparity

/-! ### Z logicals: lines of edges and the rows of cubes -/

/-- the line of x-edges at `(y, z) = (2j, 2k)` -/
def zlX (Lx : Nat) (j k : Nat) : List Coord :=
  (pyRange2 1 (2 * Lx)).map fun x => [x, 2 * (j : Int), 2 * (k : Int)]
/-- the line of y-edges at `(x, z) = (2i, 2k)` -/
def zlY (Ly : Nat) (i k : Nat) : List Coord :=
  (pyRange2 1 (2 * Ly)).map fun y => [2 * (i : Int), y, 2 * (k : Int)]
/-- the line of z-edges at `(x, y) = (2i, 2j)` -/
def zlZ (Lz : Nat) (i j : Nat) : List Coord :=
  (pyRange2 1 (2 * Lz)).map fun z => [2 * (i : Int), 2 * (j : Int), z]

section zparity
variable (hx : 2 ≤ Lx) (hy : 2 ≤ Ly) (hz : 2 ≤ Lz) {b : Op} (hb : CommStabs Lx Ly Lz b)
include hx hy hz hb

/-- the row of cubes `(2a + 1, 2j + 1, 2k + 1)`, `a < Lx` -/
theorem plaquette_X (j k : Nat) (hj : j + 1 < Ly) (hk : k + 1 < Lz) :
    ((zlX Lx j k).countP (opHit Pauli.Z b) + (zlX Lx (j + 1) k).countP (opHit Pauli.Z b)
      + (zlX Lx j (k + 1)).countP (opHit Pauli.Z b)
      + (zlX Lx (j + 1) (k + 1)).countP (opHit Pauli.Z b)) % 2 = 0 := by
  unfold zlX
  rw [countP_lineO, countP_lineO, countP_lineO, countP_lineO]
  refine ladder4 Lx _ _ _ _
    (fun a => ind Pauli.Z b [2 * (a : Int), 2 * (j : Int), 2 * (k : Int) + 1])
    (fun a => ind Pauli.Z b [2 * (a : Int), 2 * ((j + 1 : Nat) : Int), 2 * (k : Int) + 1])
    (fun a => ind Pauli.Z b [2 * (a : Int), 2 * (j : Int) + 1, 2 * (k : Int)])
    (fun a => ind Pauli.Z b [2 * (a : Int), 2 * (j : Int) + 1, 2 * ((k + 1 : Nat) : Int)]) ?_
  intro a ha
  have hv : SC Lx Ly Lz (2 * (a : Int) + 1) (2 * (j : Int) + 1) (2 * (k : Int) + 1) := by
    unfold SC R1; omega
  have h := cube_even hx hy hz hb hv (xm := 2 * (a : Int)) (xp := 2 * ((wrapS Lx a : Nat) : Int))
    (ym := 2 * (j : Int)) (yp := 2 * ((j + 1 : Nat) : Int)) (zm := 2 * (k : Int))
    (zp := 2 * ((k + 1 : Nat) : Int)) (by omega) (up_odd_nat ha) (by omega)
    (by rw [up_nowrap _ (by omega)]; omega) (by omega) (by rw [up_nowrap _ (by omega)]; omega)
  unfold Lat2D.ind at h ⊢
  omega

/-- the row of cubes `(2i + 1, 2a + 1, 2k + 1)`, `a < Ly` -/
theorem plaquette_Y (i k : Nat) (hi : i + 1 < Lx) (hk : k + 1 < Lz) :
    ((zlY Ly i k).countP (opHit Pauli.Z b) + (zlY Ly (i + 1) k).countP (opHit Pauli.Z b)
      + (zlY Ly i (k + 1)).countP (opHit Pauli.Z b)
      + (zlY Ly (i + 1) (k + 1)).countP (opHit Pauli.Z b)) % 2 = 0 := by
  unfold zlY
  rw [countP_lineO, countP_lineO, countP_lineO, countP_lineO]
  refine ladder4 Ly _ _ _ _
    (fun a => ind Pauli.Z b [2 * (i : Int), 2 * (a : Int), 2 * (k : Int) + 1])
    (fun a => ind Pauli.Z b [2 * ((i + 1 : Nat) : Int), 2 * (a : Int), 2 * (k : Int) + 1])
    (fun a => ind Pauli.Z b [2 * (i : Int) + 1, 2 * (a : Int), 2 * (k : Int)])
    (fun a => ind Pauli.Z b [2 * (i : Int) + 1, 2 * (a : Int), 2 * ((k + 1 : Nat) : Int)]) ?_
  intro a ha
  have hv : SC Lx Ly Lz (2 * (i : Int) + 1) (2 * (a : Int) + 1) (2 * (k : Int) + 1) := by
    unfold SC R1; omega
  have h := cube_even hx hy hz hb hv (xm := 2 * (i : Int)) (xp := 2 * ((i + 1 : Nat) : Int))
    (ym := 2 * (a : Int)) (yp := 2 * ((wrapS Ly a : Nat) : Int)) (zm := 2 * (k : Int))
    (zp := 2 * ((k + 1 : Nat) : Int)) (by omega) (by rw [up_nowrap _ (by omega)]; omega) (by omega)
    (up_odd_nat ha) (by omega) (by rw [up_nowrap _ (by omega)]; omega)
  unfold Lat2D.ind at h ⊢
  omega

/-- the row of cubes `(2i + 1, 2j + 1, 2a + 1)`, `a < Lz` -/
theorem plaquette_Z (i j : Nat) (hi : i + 1 < Lx) (hj : j + 1 < Ly) :
    ((zlZ Lz i j).countP (opHit Pauli.Z b) + (zlZ Lz (i + 1) j).countP (opHit Pauli.Z b)
      + (zlZ Lz i (j + 1)).countP (opHit Pauli.Z b)
      + (zlZ Lz (i + 1) (j + 1)).countP (opHit Pauli.Z b)) % 2 = 0 := by
  unfold zlZ
  rw [countP_lineO, countP_lineO, countP_lineO, countP_lineO]
  refine ladder4 Lz _ _ _ _
    (fun a => ind Pauli.Z b [2 * (i : Int), 2 * (j : Int) + 1, 2 * (a : Int)])
    (fun a => ind Pauli.Z b [2 * ((i + 1 : Nat) : Int), 2 * (j : Int) + 1, 2 * (a : Int)])
    (fun a => ind Pauli.Z b [2 * (i : Int) + 1, 2 * (j : Int), 2 * (a : Int)])
    (fun a => ind Pauli.Z b [2 * (i : Int) + 1, 2 * ((j + 1 : Nat) : Int), 2 * (a : Int)]) ?_
  intro a ha
  have hv : SC Lx Ly Lz (2 * (i : Int) + 1) (2 * (j : Int) + 1) (2 * (a : Int) + 1) := by
    unfold SC R1; omega
  have h := cube_even hx hy hz hb hv (xm := 2 * (i : Int)) (xp := 2 * ((i + 1 : Nat) : Int))
    (ym := 2 * (j : Int)) (yp := 2 * ((j + 1 : Nat) : Int)) (zm := 2 * (a : Int))
    (zp := 2 * ((wrapS Lz a : Nat) : Int)) (by omega) (by rw [up_nowrap _ (by omega)]; omega)
    (by omega) (by rw [up_nowrap _ (by omega)]; omega) (by omega) (up_odd_nat ha)
  unfold Lat2D.ind at h ⊢
  omega

/-- rectangle relations for the three orientations -/
theorem rect_X (j k : Nat) (hj : j < Ly) (hk : k < Lz) :
    ((zlX Lx j k).countP (opHit Pauli.Z b) + (zlX Lx j 0).countP (opHit Pauli.Z b)
      + (zlX Lx 0 k).countP (opHit Pauli.Z b) + (zlX Lx 0 0).countP (opHit Pauli.Z b)) % 2 = 0 :=
  rect Ly Lz (fun j k => (zlX Lx j k).countP (opHit Pauli.Z b))
    (fun j k hj hk => plaquette_X hx hy hz hb j k hj hk) j k hj hk

theorem rect_Y (i k : Nat) (hi : i < Lx) (hk : k < Lz) :
    ((zlY Ly i k).countP (opHit Pauli.Z b) + (zlY Ly i 0).countP (opHit Pauli.Z b)
      + (zlY Ly 0 k).countP (opHit Pauli.Z b) + (zlY Ly 0 0).countP (opHit Pauli.Z b)) % 2 = 0 :=
  rect Lx Lz (fun i k => (zlY Ly i k).countP (opHit Pauli.Z b))
    (fun i k hi hk => plaquette_Y hx hy hz hb i k hi hk) i k hi hk

theorem rect_Z (i j : Nat) (hi : i < Lx) (hj : j < Ly) :
    ((zlZ Lz i j).countP (opHit Pauli.Z b) + (zlZ Lz i 0).countP (opHit Pauli.Z b)
      + (zlZ Lz 0 j).countP (opHit Pauli.Z b) + (zlZ Lz 0 0).countP (opHit Pauli.Z b)) % 2 = 0 :=
  rect Lx Ly (fun i j => (zlZ Lz i j).countP (opHit Pauli.Z b))
    (fun i j hi hj => plaquette_Z hx hy hz hb i j hi hj) i j hi hj

end zparity

end Panqec.XCubeCode
