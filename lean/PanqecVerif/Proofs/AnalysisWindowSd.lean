/-
Lemmas about the model of `get_p_th_sd_interp` (C16): the three indices are ordered and inside the grid,
the function is total on two or more curves, and it does not depend on the order of the rows.
-/
import PanqecVerif.Proofs.AnalysisWindowBasic

namespace Panqec.An

/-! ### maxima / minima of index lists -/

theorem foldl_maxNat_spec (xs : List Nat) : ∀ m : Nat,
    m ≤ xs.foldl max m ∧ (∀ x ∈ xs, x ≤ xs.foldl max m) ∧ (xs.foldl max m = m ∨ xs.foldl max m ∈ xs) := by
  induction xs with
  | nil => intro m; simp
  | cons x xs ih =>
    intro m
    obtain ⟨h1, h2, h3⟩ := ih (max m x)
    simp only [List.foldl_cons]
    refine ⟨le_trans (le_max_left _ _) h1, ?_, ?_⟩
    · intro y hy
      rcases List.mem_cons.mp hy with rfl | hy
      · exact le_trans (le_max_right _ _) h1
      · exact h2 y hy
    · rcases h3 with h3 | h3
      · rcases max_choice m x with hm | hm
        · left; rw [h3, hm]
        · right; rw [h3, hm]; exact List.mem_cons_self
      · right; exact List.mem_cons_of_mem _ h3

theorem foldl_minNat_spec (xs : List Nat) : ∀ m : Nat,
    xs.foldl min m ≤ m ∧ (∀ x ∈ xs, xs.foldl min m ≤ x) ∧ (xs.foldl min m = m ∨ xs.foldl min m ∈ xs) := by
  induction xs with
  | nil => intro m; simp
  | cons x xs ih =>
    intro m
    obtain ⟨h1, h2, h3⟩ := ih (min m x)
    simp only [List.foldl_cons]
    refine ⟨le_trans h1 (min_le_left _ _), ?_, ?_⟩
    · intro y hy
      rcases List.mem_cons.mp hy with rfl | hy
      · exact le_trans h1 (min_le_right _ _)
      · exact h2 y hy
    · rcases h3 with h3 | h3
      · rcases min_choice m x with hm | hm
        · left; rw [h3, hm]
        · right; rw [h3, hm]; exact List.mem_cons_self
      · right; exact List.mem_cons_of_mem _ h3

theorem maxNat_spec {xs : List Nat} {m : Nat} (h : maxNat xs = some m) : m ∈ xs ∧ ∀ x ∈ xs, x ≤ m := by
  cases xs with
  | nil => cases h
  | cons x xs =>
    simp only [maxNat, Option.some.injEq] at h
    subst h
    obtain ⟨h1, h2, h3⟩ := foldl_maxNat_spec xs x
    refine ⟨?_, ?_⟩
    · rcases h3 with h3 | h3
      · rw [h3]; exact List.mem_cons_self
      · exact List.mem_cons_of_mem _ h3
    · intro y hy
      rcases List.mem_cons.mp hy with rfl | hy
      · exact h1
      · exact h2 y hy

theorem minNat_spec {xs : List Nat} {m : Nat} (h : minNat xs = some m) : m ∈ xs ∧ ∀ x ∈ xs, m ≤ x := by
  cases xs with
  | nil => cases h
  | cons x xs =>
    simp only [minNat, Option.some.injEq] at h
    subst h
    obtain ⟨h1, h2, h3⟩ := foldl_minNat_spec xs x
    refine ⟨?_, ?_⟩
    · rcases h3 with h3 | h3
      · rw [h3]; exact List.mem_cons_self
      · exact List.mem_cons_of_mem _ h3
    · intro y hy
      rcases List.mem_cons.mp hy with rfl | hy
      · exact h1
      · exact h2 y hy

theorem maxNat_eq_none {xs : List Nat} : maxNat xs = none ↔ xs = [] := by cases xs <;> simp [maxNat]
theorem minNat_eq_none {xs : List Nat} : minNat xs = none ↔ xs = [] := by cases xs <;> simp [minNat]

theorem lastBelow_spec {ms : List Nat} {i m : Nat} (h : lastBelow ms i = some m) :
    m ∈ ms ∧ m < i ∧ ∀ x ∈ ms, x < i → x ≤ m := by
  obtain ⟨h1, h2⟩ := maxNat_spec h
  have := List.mem_filter.mp h1
  exact ⟨this.1, by simpa using this.2, fun x hx hxi => h2 x (List.mem_filter.mpr ⟨hx, by simpa using hxi⟩)⟩

theorem firstAbove_spec {ms : List Nat} {i m : Nat} (h : firstAbove ms i = some m) :
    m ∈ ms ∧ i < m ∧ ∀ x ∈ ms, i < x → m ≤ x := by
  obtain ⟨h1, h2⟩ := minNat_spec h
  have := List.mem_filter.mp h1
  exact ⟨this.1, by simpa using this.2, fun x hx hxi => h2 x (List.mem_filter.mpr ⟨hx, by simpa using hxi⟩)⟩

/-! ### `argmax` -/

theorem argmaxRatAux_lt : ∀ (vs : List Rat) (i bi : Nat) (bv : Rat), bi < i →
    argmaxRatAux vs i bi bv < i + vs.length
  | [], i, bi, _, h => by simpa [argmaxRatAux] using h
  | v :: vs, i, bi, bv, h => by
    unfold argmaxRatAux
    split
    · have := argmaxRatAux_lt vs (i + 1) i v (Nat.lt_succ_self i)
      simp only [List.length_cons]; omega
    · have := argmaxRatAux_lt vs (i + 1) bi bv (Nat.lt_succ_of_lt h)
      simp only [List.length_cons]; omega

theorem argmaxRat_lt {l : List Rat} {j : Nat} (h : argmaxRat l = some j) : j < l.length := by
  cases l with
  | nil => cases h
  | cons v vs =>
    simp only [argmaxRat, Option.some.injEq] at h
    subst h
    have := argmaxRatAux_lt vs 1 0 v Nat.zero_lt_one
    simp only [List.length_cons]; omega

theorem argmaxRat_isSome {l : List Rat} (h : l ≠ []) : ∃ j, argmaxRat l = some j := by
  cases l with
  | nil => exact absurd rfl h
  | cons v vs => exact ⟨_, rfl⟩

/-! ### `argrelextrema` -/

theorem mem_relExt {cmp : Rat → Rat → Bool} {sd : List Rat} {i : Nat} :
    i ∈ relExt cmp sd ↔ i < sd.length ∧
      cmp (sd.getD i 0) (sd.getD (min (i + 1) (sd.length - 1)) 0) = true ∧ cmp (sd.getD i 0) (sd.getD (i - 1) 0) = true := by
  unfold relExt
  rw [List.mem_filter, List.mem_range, Bool.and_eq_true]

theorem mem_sdMinima_lt {sd : List Rat} {i : Nat} (h : i ∈ sdMinima sd) : i < sd.length := by
  unfold sdMinima at h
  simp only at h
  split at h
  · exact (mem_relExt.mp h).1
  · exact (mem_relExt.mp h).1

theorem mem_sdMaxima_le {sd : List Rat} {i : Nat} (h : i ∈ sdMaxima sd) : i ≤ sd.length - 1 := by
  unfold sdMaxima at h
  simp only [List.cons_append, List.mem_cons, List.mem_append, List.not_mem_nil, or_false] at h
  rcases h with rfl | h | rfl
  · exact Nat.zero_le _
  · split at h
    · have := (mem_relExt.mp h).1; omega
    · have := (mem_relExt.mp h).1; omega
  · exact le_rfl

/-- a list of rationals has a smallest entry -/
theorem exists_min_index : ∀ (sd : List Rat), sd ≠ [] → ∃ i, i < sd.length ∧ ∀ j, j < sd.length → sd.getD i 0 ≤ sd.getD j 0
  | [], h => absurd rfl h
  | [x], _ => ⟨0, by simp, fun j hj => by
      have : j = 0 := by simpa using hj
      subst this; exact le_rfl⟩
  | x :: y :: t, _ => by
    obtain ⟨i, hi, hmin⟩ := exists_min_index (y :: t) (by simp)
    by_cases hx : x ≤ (y :: t).getD i 0
    · refine ⟨0, by simp, fun j hj => ?_⟩
      cases j with
      | zero => exact le_rfl
      | succ j =>
        simp only [List.getD_cons_zero, List.getD_cons_succ]
        exact le_trans hx (hmin j (by simpa using hj))
    · refine ⟨i + 1, by simpa using hi, fun j hj => ?_⟩
      simp only [List.getD_cons_succ]
      cases j with
      | zero => simpa using le_of_lt (not_le.mp hx)
      | succ j => simpa using hmin j (by simpa using hj)

theorem sdMinima_ne_nil {sd : List Rat} (h : sd ≠ []) : sdMinima sd ≠ [] := by
  unfold sdMinima
  simp only
  split
  · obtain ⟨i, hi, hmin⟩ := exists_min_index sd h
    have : i ∈ relExt (fun a b => decide (a ≤ b)) sd := by
      rw [mem_relExt]
      refine ⟨hi, ?_, ?_⟩
      · exact decide_eq_true (hmin _ (by omega))
      · exact decide_eq_true (hmin _ (by omega))
    exact List.ne_nil_of_mem this
  · rename_i hne
    intro e
    rw [e] at hne
    exact hne rfl

/-! ### the three indices -/

theorem sdSelect_spec {sd : List Rat} {ic il ir : Nat} (h : sdSelect sd = .ok (ic, il, ir)) :
    il ≤ ic ∧ ic ≤ ir ∧ ic < sd.length ∧ ir ≤ sd.length - 1 := by
  unfold sdSelect at h
  simp only at h
  split at h
  · cases h
  · rename_i j hj
    injection h with h
    simp only [Prod.mk.injEq] at h
    obtain ⟨h1, h2, h3⟩ := h
    have hjlt : j < (sdMinima sd).length := by simpa using argmaxRat_lt hj
    have hic : ic ∈ sdMinima sd := by
      rw [← h1, List.getD_eq_getElem?_getD, List.getElem?_eq_getElem hjlt]
      exact List.getElem_mem hjlt
    have hlt := mem_sdMinima_lt hic
    refine ⟨?_, ?_, hlt, ?_⟩
    · rw [← h2, h1]
      cases hl : lastBelow (sdMaxima sd) ic with
      | none => simp
      | some m => simpa using le_of_lt (lastBelow_spec hl).2.1
    · rw [← h3, h1]
      cases hl : firstAbove (sdMaxima sd) ic with
      | none => simp only [Option.getD_none]; omega
      | some m => simpa using le_of_lt (firstAbove_spec hl).2.1
    · rw [← h3, h1]
      cases hl : firstAbove (sdMaxima sd) ic with
      | none => simp
      | some m => simpa using mem_sdMaxima_le (firstAbove_spec hl).1

theorem sdSelect_total {sd : List Rat} (h : sd ≠ []) : ∃ r, sdSelect sd = .ok r := by
  unfold sdSelect
  simp only
  obtain ⟨j, hj⟩ := argmaxRat_isSome (l := (sdMinima sd).map (peakHeight sd (sdMaxima sd)))
    (by simpa using sdMinima_ne_nil h)
  rw [hj]
  exact ⟨_, rfl⟩

/-! ### order independence -/

theorem insertPt_perm (p : Rat × Rat) : ∀ l : List (Rat × Rat), (insertPt p l).Perm (p :: l)
  | [] => List.Perm.refl _
  | q :: qs => by
    unfold insertPt
    split
    · exact List.Perm.refl _
    · exact ((insertPt_perm p qs).cons q).trans (List.Perm.swap p q qs)

theorem sortPts_perm : ∀ l : List (Rat × Rat), (sortPts l).Perm l
  | [] => List.Perm.refl _
  | p :: ps => (insertPt_perm p (sortPts ps)).trans ((sortPts_perm ps).cons p)

theorem insertPt_pairwise (p : Rat × Rat) : ∀ l : List (Rat × Rat), l.Pairwise (fun a b => a.1 ≤ b.1) →
    (insertPt p l).Pairwise (fun a b => a.1 ≤ b.1)
  | [], _ => by simp [insertPt]
  | q :: qs, h => by
    unfold insertPt
    split
    · rename_i hpq
      refine List.pairwise_cons.mpr ⟨?_, h⟩
      intro b hb
      rcases List.mem_cons.mp hb with rfl | hb
      · exact hpq
      · exact le_trans hpq ((List.pairwise_cons.mp h).1 b hb)
    · rename_i hpq
      have hqp : q.1 ≤ p.1 := le_of_lt (not_le.mp hpq)
      refine List.pairwise_cons.mpr ⟨?_, insertPt_pairwise p qs (List.pairwise_cons.mp h).2⟩
      intro b hb
      have hb' := (insertPt_perm p qs).mem_iff.mp hb
      rcases List.mem_cons.mp hb' with rfl | hb'
      · exact hqp
      · exact (List.pairwise_cons.mp h).1 b hb'

theorem sortPts_pairwise : ∀ l : List (Rat × Rat), (sortPts l).Pairwise (fun a b => a.1 ≤ b.1)
  | [] => List.Pairwise.nil
  | p :: ps => insertPt_pairwise p _ (sortPts_pairwise ps)

theorem sortPts_eq_of_perm {a b : List (Rat × Rat)} (h : a.Perm b)
    (hinj : ∀ p ∈ a, ∀ q ∈ a, p.1 = q.1 → p = q) : sortPts a = sortPts b := by
  apply List.Perm.eq_of_pairwise (le := fun a b => a.1 ≤ b.1) _ (sortPts_pairwise a) (sortPts_pairwise b)
  · exact (sortPts_perm a).trans (h.trans (sortPts_perm b).symm)
  · intro x y hx hy hxy hyx
    have hx' := (sortPts_perm a).mem_iff.mp hx
    have hy' := h.mem_iff.mpr ((sortPts_perm b).mem_iff.mp hy)
    exact hinj x hx' y hy' (le_antisymm hxy hyx)

/-- no two rows with the same (code_label, error_rate) -/
def KeysNodup (rows : List TRow) : Prop := (rows.map fun r => (r.label, r.rate)).Nodup

theorem sdDomain_iff (rows : List TRow) :
    sdDomain rows = true ↔ (∀ r ∈ rows, r.pest.isSome = true) ∧ KeysNodup rows := by
  unfold sdDomain KeysNodup
  simp only [Bool.and_eq_true, List.all_eq_true, beq_iff_eq]
  rw [eraseDups_length_eq_iff]

theorem sdDomain_perm {a b : List TRow} (h : a.Perm b) : sdDomain a = sdDomain b := by
  rw [Bool.eq_iff_iff, sdDomain_iff, sdDomain_iff]
  unfold KeysNodup
  rw [(h.map _).nodup_iff]
  constructor
  · rintro ⟨h1, h2⟩; exact ⟨fun r hr => h1 r (h.mem_iff.mpr hr), h2⟩
  · rintro ⟨h1, h2⟩; exact ⟨fun r hr => h1 r (h.mem_iff.mp hr), h2⟩

theorem labelsOf_perm {a b : List TRow} (h : a.Perm b) : (labelsOf a).Perm (labelsOf b) :=
  eraseDups_perm (h.map _)

theorem pointsOf_perm {a b : List TRow} (h : a.Perm b) (hk : KeysNodup a) (lab : Nat) :
    pointsOf a lab = pointsOf b lab := by
  unfold pointsOf
  apply sortPts_eq_of_perm ((h.filter _).map _)
  intro p hp q hq hpq
  obtain ⟨r, hr, rfl⟩ := List.mem_map.mp hp
  obtain ⟨r', hr', rfl⟩ := List.mem_map.mp hq
  have hr1 := List.mem_filter.mp hr
  have hr2 := List.mem_filter.mp hr'
  have hl : r.label = r'.label := by
    have e1 : r.label = lab := by simpa using hr1.2
    have e2 : r'.label = lab := by simpa using hr2.2
    rw [e1, e2]
  have : r = r' := by
    unfold KeysNodup at hk
    exact List.inj_on_of_nodup_map hk hr1.1 hr2.1 (by simp only [Prod.mk.injEq]; exact ⟨hl, hpq⟩)
  rw [this]

theorem sampleVariance_perm {a b : List Rat} (h : a.Perm b) : sampleVariance a = sampleVariance b := by
  unfold sampleVariance
  simp only
  rw [h.sum_eq, h.length_eq, (h.map _).sum_eq]

theorem popVariance_perm {a b : List Rat} (h : a.Perm b) : popVariance a = popVariance b := by
  unfold popVariance
  simp only
  rw [h.sum_eq, h.length_eq, (h.map _).sum_eq]

theorem sdValues_perm (sq : Rat → Rat) {a b : List TRow} (h : a.Perm b) (hk : KeysNodup a) (grid : List Rat) :
    sdValues sq a grid = sdValues sq b grid := by
  unfold sdValues curveValues
  simp only [List.map_map]
  apply List.map_congr_left
  intro x _
  simp only [Function.comp]
  congr 1
  apply sampleVariance_perm
  have : (labelsOf a).map ((fun pts => interpAt pts x) ∘ pointsOf a) =
      (labelsOf a).map ((fun pts => interpAt pts x) ∘ pointsOf b) :=
    List.map_congr_left fun lab _ => by simp only [Function.comp, pointsOf_perm h hk lab]
  rw [this]
  exact (labelsOf_perm h).map _

theorem sdInterpIdx_perm (sq : Rat → Rat) (grid : List Rat) {a b : List TRow} (h : a.Perm b) :
    sdInterpIdx sq grid a = sdInterpIdx sq grid b := by
  unfold sdInterpIdx
  have he : a.isEmpty = b.isEmpty := by
    cases a with
    | nil => rw [List.nil_perm.mp h]
    | cons x xs =>
      cases b with
      | nil => exact absurd (List.perm_nil.mp h) (by simp)
      | cons y ys => rfl
  rw [he, sdDomain_perm h, (labelsOf_perm h).length_eq]
  by_cases hd : sdDomain b = true
  · have hk : KeysNodup a := ((sdDomain_iff a).mp (by rw [sdDomain_perm h]; exact hd)).2
    rw [sdValues_perm sq h hk]
  · simp [hd]

theorem sdInterp_perm (sq : Rat → Rat) (grid : List Rat) {a b : List TRow} (h : a.Perm b) :
    sdInterp sq grid a = sdInterp sq grid b := by
  unfold sdInterp
  rw [sdInterpIdx_perm sq grid h]

end Panqec.An
