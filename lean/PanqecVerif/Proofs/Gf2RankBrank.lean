/-
`brank` (`panqec/bpauli.py`): the rows of a 0/1 matrix are packed big-endian into integers
and handed to `gf2_rank`.  Big-endian packing is the coordinate reversal `Fin.rev`, a linear
isomorphism of `Fin w → ZMod 2`, so the rank of the packed rows is the rank of the matrix.
-/
import Mathlib.Data.Fin.Rev
import PanqecVerif.Proofs.Gf2Rank

namespace Panqec

open Module Submodule

/-- a row of digits read as a vector: coordinate `j` is digit `j` (missing digits are 0) -/
def toVecBits (w : ℕ) (v : List ℕ) : Fin w → ZMod 2 := fun j => ((v.getD j 0 : ℕ) : ZMod 2)

/-- the row space of a matrix given as a list of digit rows -/
def bitsSpan (w : ℕ) (m : List (List ℕ)) : Submodule (ZMod 2) (Fin w → ZMod 2) :=
  span (ZMod 2) (Set.range fun i : Fin m.length => toVecBits w m[i])

/-- **the GF(2) rank of a matrix**: dimension of its row space -/
noncomputable def bitsRank (w : ℕ) (m : List (List ℕ)) : ℕ := finrank (ZMod 2) (bitsSpan w m)

/-- coordinate reversal as a linear automorphism -/
noncomputable def revEquiv (w : ℕ) : (Fin w → ZMod 2) ≃ₗ[ZMod 2] (Fin w → ZMod 2) :=
  LinearEquiv.funCongrLeft (ZMod 2) (ZMod 2) (Fin.revPerm (n := w))

theorem revEquiv_apply (w : ℕ) (x : Fin w → ZMod 2) (i : Fin w) :
    revEquiv w x i = x (Fin.rev i) := rfl

/-- the packed row is the digit row with the coordinates reversed -/
theorem toVecMask_bvectorToInt (w : ℕ) (v : List ℕ) (hlen : v.length = w)
    (hbin : ∀ x ∈ v, x < 2) :
    toVecMask w (bvectorToInt v) = revEquiv w (toVecBits w v) := by
  funext i
  rw [revEquiv_apply]
  simp only [toVecMask, toVecBits, testBit_bvectorToInt v hbin]
  have hi : (i : ℕ) < v.reverse.length := by rw [List.length_reverse, hlen]; exact i.2
  have hj : ((Fin.rev i : Fin w) : ℕ) < v.length := by rw [hlen]; exact (Fin.rev i).2
  have e1 : v.reverse.getD i 0 = v.reverse[(i : ℕ)] := by
    rw [List.getD_eq_getElem?_getD, List.getElem?_eq_getElem hi]; rfl
  have e2 : v.getD (Fin.rev i : Fin w) 0 = v[((Fin.rev i : Fin w) : ℕ)] := by
    rw [List.getD_eq_getElem?_getD, List.getElem?_eq_getElem hj]; rfl
  have e3 : v.reverse[(i : ℕ)] = v[((Fin.rev i : Fin w) : ℕ)] := by
    rw [List.getElem_reverse]
    congr 1
    rw [Fin.val_rev, hlen]
    omega
  rw [e1, e2, e3]
  have hx : v[((Fin.rev i : Fin w) : ℕ)] < 2 := hbin _ (List.getElem_mem _)
  generalize v[((Fin.rev i : Fin w) : ℕ)] = x at hx
  have : x = 0 ∨ x = 1 := by omega
  rcases this with rfl | rfl <;> simp

/-- the row space of the packed rows is the reversed row space of the matrix -/
theorem maskSpan_map_bvectorToInt (w : ℕ) (m : List (List ℕ))
    (hlen : ∀ r ∈ m, r.length = w) (hbin : ∀ r ∈ m, ∀ x ∈ r, x < 2) :
    maskSpan w (m.map bvectorToInt) = (bitsSpan w m).map (revEquiv w).toLinearMap := by
  rw [maskSpan_eq_image, bitsSpan, range_getElem_eq_image, Submodule.map_span]
  congr 1
  ext v
  constructor
  · rintro ⟨x, hx, rfl⟩
    obtain ⟨r, hr, rfl⟩ := List.mem_map.mp hx
    exact ⟨toVecBits w r, ⟨r, hr, rfl⟩,
      (toVecMask_bvectorToInt w r (hlen r hr) (hbin r hr)).symm⟩
  · rintro ⟨_, ⟨r, hr, rfl⟩, rfl⟩
    exact ⟨bvectorToInt r, List.mem_map.mpr ⟨r, hr, rfl⟩,
      toVecMask_bvectorToInt w r (hlen r hr) (hbin r hr)⟩

/-- **`brank` computes the GF(2) rank of a 0/1 matrix** whose rows all have length `w`. -/
theorem brank_eq_rank (w : ℕ) (m : List (List ℕ))
    (hlen : ∀ r ∈ m, r.length = w) (hbin : ∀ r ∈ m, ∀ x ∈ r, x < 2) :
    brank m = bitsRank w m := by
  have hlt : ∀ x ∈ m.map bvectorToInt, x < 2 ^ w := by
    intro x hx
    obtain ⟨r, hr, rfl⟩ := List.mem_map.mp hx
    have := bvectorToInt_lt r (hbin r hr)
    rwa [hlen r hr] at this
  rw [brank, gf2Rank_eq_finrank w _ hlt, maskRank, maskSpan_map_bvectorToInt w m hlen hbin,
    bitsRank]
  exact LinearEquiv.finrank_map_eq (revEquiv w) (bitsSpan w m)

end Panqec
