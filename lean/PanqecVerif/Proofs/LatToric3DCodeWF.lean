/-
`Toric3DCode`, every size: distinctness / disjointness of the coordinate lists, their lengths, and
the uniform description of `get_stabilizer` used by the well-formedness clauses.
-/
import PanqecVerif.Proofs.LatToric3DCodeLog

set_option linter.unusedVariables false

namespace Panqec.Toric3DCode
open Panqec.Cubic3D

theorem qubits_nodup (Lx Ly Lz : Nat) : (qubits Lx Ly Lz).Nodup := by
  unfold qubits
  have r := nodup_range2
  rw [List.nodup_append, List.nodup_append]
  refine ⟨⟨nodup_grid (r _ _) (r _ _) (r _ _), nodup_grid (r _ _) (r _ _) (r _ _), ?_⟩,
    nodup_grid (r _ _) (r _ _) (r _ _), ?_⟩
  · intro a ha b hb hab
    subst hab
    obtain ⟨x, _, y, _, z, _, rfl⟩ := mem_grid.mp ha
    simp only [mem_grid3, mem_rangeE, mem_rangeO, isE, isO] at ha hb; omega
  · intro a ha b hb hab
    subst hab
    obtain ⟨x, _, y, _, z, _, rfl⟩ := mem_grid.mp hb
    simp only [List.mem_append, mem_grid3, mem_rangeE, mem_rangeO, isE, isO] at ha hb; omega

theorem stabs_nodup (Lx Ly Lz : Nat) : (stabs Lx Ly Lz).Nodup := by
  unfold stabs
  have r := nodup_range2
  rw [List.nodup_append, List.nodup_append, List.nodup_append]
  refine ⟨⟨⟨nodup_grid (r _ _) (r _ _) (r _ _), nodup_grid (r _ _) (r _ _) (r _ _), ?_⟩,
    nodup_grid (r _ _) (r _ _) (r _ _), ?_⟩, nodup_grid (r _ _) (r _ _) (r _ _), ?_⟩
  · intro a ha b hb hab
    subst hab
    obtain ⟨x, _, y, _, z, _, rfl⟩ := mem_grid.mp ha
    simp only [mem_grid3, mem_rangeE, mem_rangeO, isE, isO] at ha hb; omega
  · intro a ha b hb hab
    subst hab
    obtain ⟨x, _, y, _, z, _, rfl⟩ := mem_grid.mp hb
    simp only [List.mem_append, mem_grid3, mem_rangeE, mem_rangeO, isE, isO] at ha hb; omega
  · intro a ha b hb hab
    subst hab
    obtain ⟨x, _, y, _, z, _, rfl⟩ := mem_grid.mp hb
    simp only [List.mem_append, mem_grid3, mem_rangeE, mem_rangeO, isE, isO] at ha hb; omega

theorem qubits_not_stabs {Lx Ly Lz : Nat} {q : Coord} (h : q ∈ qubits Lx Ly Lz) :
    q ∉ stabs Lx Ly Lz := by
  obtain ⟨x, y, z, rfl⟩ := shape_of_mem_qubits h
  rw [mem_qubits] at h
  rw [mem_stabs]
  simp only [isE, isO] at h ⊢; omega

theorem length_rangeE (L : Nat) : (range2 0 (2 * (L : Int))).length = L := by
  rw [length_range2]; omega
theorem length_rangeO (L : Nat) : (range2 1 (2 * (L : Int))).length = L := by
  rw [length_range2]; omega

theorem qubits_length (Lx Ly Lz : Nat) : (qubits Lx Ly Lz).length = 3 * (Lx * Ly * Lz) := by
  simp only [qubits, List.length_append, length_grid, length_rangeE, length_rangeO]
  omega

theorem stabs_length (Lx Ly Lz : Nat) : (stabs Lx Ly Lz).length = 4 * (Lx * Ly * Lz) := by
  simp only [stabs, List.length_append, length_grid, length_rangeE, length_rangeO]
  omega

/-- every stabilizer generator is a one-letter operator on a non-empty list of distinct qubits -/
theorem getStab_form {Lx Ly Lz : Nat} (hLx : 2 ≤ Lx) (hLy : 2 ≤ Ly) (hLz : 2 ≤ Lz) {s : Coord}
    (hs : s ∈ stabs Lx Ly Lz) :
    ∃ ks p, getStab Lx Ly Lz s = uop ks p ∧ ks.Nodup ∧ (∀ q ∈ ks, q ∈ qubits Lx Ly Lz) ∧
      ks ≠ [] ∧ p ≠ Pauli.I := by
  obtain ⟨x, y, z, rfl, h | h | h | h⟩ := stab_cases hs
  · exact ⟨_, _, getStab_vertex hLx hLy hLz h, vertexKeys_nodup hLx hLy hLz h,
      vertexKeys_sub hLx hLy hLz h, by simp [vertexKeys], by decide⟩
  · exact ⟨_, _, getStab_faceXY hLx hLy hLz h, faceXYKeys_nodup hLx hLy hLz h,
      faceXYKeys_sub hLx hLy hLz h, by simp [faceXYKeys], by decide⟩
  · exact ⟨_, _, getStab_faceYZ hLx hLy hLz h, faceYZKeys_nodup hLx hLy hLz h,
      faceYZKeys_sub hLx hLy hLz h, by simp [faceYZKeys], by decide⟩
  · exact ⟨_, _, getStab_faceXZ hLx hLy hLz h, faceXZKeys_nodup hLx hLy hLz h,
      faceXZKeys_sub hLx hLy hLz h, by simp [faceXZKeys], by decide⟩

/-- every logical operator is a one-letter operator on a list of distinct qubits -/
theorem logical_form {Lx Ly Lz : Nat} (hLx : 1 ≤ Lx) (hLy : 1 ≤ Ly) (hLz : 1 ≤ Lz) {a : Op}
    (ha : a ∈ logX Lx Ly Lz ++ logZ Lx Ly Lz) :
    ∃ ks p, a = uop ks p ∧ ks.Nodup ∧ (∀ q ∈ ks, q ∈ qubits Lx Ly Lz) ∧ p ≠ Pauli.I := by
  rw [logX_eq, logZ_eq] at ha
  simp only [List.cons_append, List.nil_append, List.mem_cons, List.not_mem_nil, or_false] at ha
  rcases ha with rfl | rfl | rfl | rfl | rfl | rfl
  · exact ⟨_, _, rfl, lxK0_nodup _, lxK0_sub hLx hLy hLz, by decide⟩
  · exact ⟨_, _, rfl, lxK1_nodup _, lxK1_sub hLx hLy hLz, by decide⟩
  · exact ⟨_, _, rfl, lxK2_nodup _, lxK2_sub hLx hLy hLz, by decide⟩
  · exact ⟨_, _, rfl, lzK0_nodup _ _, lzK0_sub hLx hLy hLz, by decide⟩
  · exact ⟨_, _, rfl, lzK1_nodup _ _, lzK1_sub hLx hLy hLz, by decide⟩
  · exact ⟨_, _, rfl, lzK2_nodup _ _, lzK2_sub hLx hLy hLz, by decide⟩

/-! ### the fields of `lattice` (stated as rewrite rules: the elaborator is slow at seeing through
the structure projection by unification alone) -/

theorem lattice_qubits (Lx Ly Lz : Nat) : (lattice Lx Ly Lz).qubits = qubits Lx Ly Lz := by
  simp only [lattice]
theorem lattice_stabs (Lx Ly Lz : Nat) : (lattice Lx Ly Lz).stabs = stabs Lx Ly Lz := by
  simp only [lattice]
theorem lattice_getStab (Lx Ly Lz : Nat) : (lattice Lx Ly Lz).getStab = getStab Lx Ly Lz := by
  simp only [lattice]
theorem lattice_logX (Lx Ly Lz : Nat) : (lattice Lx Ly Lz).logX = logX Lx Ly Lz := by
  simp only [lattice]
theorem lattice_logZ (Lx Ly Lz : Nat) : (lattice Lx Ly Lz).logZ = logZ Lx Ly Lz := by
  simp only [lattice]

end Panqec.Toric3DCode
