/-
C17 for hand-written lattice models, generic part (any `Lattice`):

* `packing_lower_bound_symp` — variant of the packing bound (`packing_lower_bound`,
  Proofs/CodeAlgebra.lean): instead of "`l ⊕ r` is a product of generators" it is enough that
  every operator commuting with all generators has the same symplectic product with the
  representative `r` as with the listed logical `l`;
* operator-level bridge: every binary vector is the row of a dict (`opRow_fromBsf`), the
  support of a row lies on the keys of the dict (`suppDisjoint_opRow`), the weight of the row
  of a dict without identity letters is the number of its entries (`pauliWeight_opRow`);
* `Lattice.packing_bound` — the packing bound stated on dict operators of a lattice model;
* `distance_two` — the reported distance (`distance`, model of `code.d`) of a `k = 2` code.
-/
import PanqecVerif.Proofs.OpComm
import PanqecVerif.Proofs.Lat2DBase

namespace Panqec

/-! ### the packing bound with symplectic-product representatives -/

/-- Packing bound, representative form: if every listed logical `l` has at least `m` operators
    `r` with pairwise disjoint Pauli supports such that every operator commuting with all
    generators has the same symplectic product with `r` as with `l`, every non-trivial logical
    operator has weight at least `m`. -/
theorem packing_lower_bound_symp {n k : Nat} {H Lx Lz : List (List Nat)}
    (hv : ValidCodeL n k H Lx Lz) (m : Nat)
    (hreps : ∀ l ∈ Lx ++ Lz, ∃ reps : List (List Nat), m ≤ reps.length ∧
      (∀ r ∈ reps, ∀ v : List Nat, v.length = 2 * n → (∀ x ∈ v, x < 2) →
        (∀ g ∈ H, symp g v = 0) → symp r v = symp l v) ∧
      reps.Pairwise SuppDisjoint) :
    ∀ v, IsNontrivialLogical n H v → m ≤ pauliWeight v := by
  intro v hnt
  obtain ⟨l, hl, hlv⟩ := nontrivial_anticommutes_listed hv hnt
  obtain ⟨hlen, hbin, hcomm, _⟩ := hnt
  obtain ⟨reps, hm, hr, hpw⟩ := hreps l hl
  have hmeet : ∀ r ∈ reps, ∃ q, hasSupp r q ∧ hasSupp v q := fun r hrr =>
    supp_meet_of_symp_one (by rw [hr r hrr v hlen hbin hcomm]; exact hlv)
  obtain ⟨T, hcard, hT⟩ := exists_supp_transversal v reps hpw hmeet
  calc m ≤ reps.length := hm
    _ = T.card := hcard.symm
    _ ≤ pauliWeight v := card_le_pauliWeight hlen T (fun q hq => (hT q hq).1)

/-! ### rows of dict operators -/

/-- the letter `P` anticommutes with the letter `b` carries on `q` -/
def opHit (P : Pauli) (b : Op) (q : Coord) : Bool := Pauli.anti P (Op.letter b q)

/-- a single-letter dict against any operator: count the keys that are hit -/
theorem opAntiCount_line (K : List Coord) (P : Pauli) (b : Op) :
    opAntiCount (K.map (fun q => (q, P))) b = K.countP (opHit P b) := by
  rw [opAntiCount_eq_countP, List.countP_map]
  rfl

/-- every binary vector of length `2n` is the row of the dict `from_bsf` reads off it -/
theorem opRow_fromBsf (qs : List Coord) (v : List Nat) (hnd : qs.Nodup)
    (hlen : v.length = 2 * qs.length) (hbin : ∀ x ∈ v, x < 2) :
    opRow qs (fromBsf qs v) = v := by
  have h1 := toBsf_fromBsf' qs v hnd hlen hbin
  have h2 := toBsf_eq_opRow qs _ (keysNodup_fromBsf qs v hnd) (opSupported_fromBsf qs v)
  rw [h1] at h2
  exact (Option.some.inj h2).symm

theorem hasSupp_opRow {qs : List Coord} {a : Op} {i : Nat} (h : hasSupp (opRow qs a) i) :
    ∃ q, qs[i]? = some q ∧ Op.letter a q ≠ Pauli.I := by
  unfold hasSupp opRow opString at h
  rw [xPart_pauliToBsf, zPart_pauliToBsf] at h
  simp only [List.getD_eq_getElem?_getD, List.getElem?_map] at h
  cases hq : qs[i]? with
  | none => simp [hq] at h
  | some q =>
    refine ⟨q, rfl, ?_⟩
    intro hI
    simp [hq, hI, Pauli.xBit, Pauli.zBit] at h

theorem mem_keys_of_letter_ne_I {a : Op} {q : Coord} (h : Op.letter a q ≠ Pauli.I) :
    q ∈ a.map Prod.fst := by
  rcases Op.key_cases a q with ⟨p, hm⟩ | hno
  · exact List.mem_map.mpr ⟨(q, p), hm, rfl⟩
  · exact absurd (Op.letter_of_not_key a q hno) h

/-- the keys of two dicts are disjoint -/
def KeysDisjoint (a b : Op) : Prop := ∀ q, q ∈ a.map Prod.fst → q ∉ b.map Prod.fst

/-- rows of dicts with disjoint keys have disjoint Pauli supports -/
theorem suppDisjoint_opRow (qs : List Coord) {a b : Op} (h : KeysDisjoint a b) :
    SuppDisjoint (opRow qs a) (opRow qs b) := by
  intro i ⟨ha, hb⟩
  obtain ⟨q, hq, hqa⟩ := hasSupp_opRow ha
  obtain ⟨q', hq', hqb⟩ := hasSupp_opRow hb
  rw [hq] at hq'
  cases hq'
  exact h q (mem_keys_of_letter_ne_I hqa) (mem_keys_of_letter_ne_I hqb)

theorem countP_zipWith_supp : ∀ ps : List Pauli,
    (List.zipWith (fun x z => x != 0 || z != 0) (ps.map Pauli.xBit)
      (ps.map Pauli.zBit)).countP id = ps.countP (fun p => p != Pauli.I)
  | [] => rfl
  | p :: ps => by
    have ih := countP_zipWith_supp ps
    simp only [List.map_cons, List.zipWith_cons_cons, List.countP_cons, ih]
    cases p <;> simp [Pauli.xBit, Pauli.zBit]

/-- the Pauli weight of the row of a dict (distinct keys on the qubits, no identity letter) is
    the number of its entries -/
theorem pauliWeight_opRow (qs : List Coord) (hnd : qs.Nodup) (a : Op) (hk : KeysNodup a)
    (hs : ∀ e ∈ a, e.1 ∈ qs ∧ e.2 ≠ Pauli.I) : pauliWeight (opRow qs a) = a.length := by
  unfold pauliWeight rowWeight opRow
  rw [xPart_pauliToBsf, zPart_pauliToBsf, countP_zipWith_supp]
  unfold opString
  rw [List.countP_map]
  have h := countP_letter (fun _ p => p != Pauli.I) (fun _ => by decide) qs hnd a hk
    (fun e he => (hs e he).1)
  have h' : qs.countP ((fun p => p != Pauli.I) ∘ Op.letter a) =
      qs.countP (fun q => (fun _ p => p != Pauli.I) q (Op.letter a q)) := rfl
  rw [h', h, List.countP_eq_length]
  intro e he
  simpa using (hs e he).2

/-! ### the packing bound on the dict operators of a lattice model -/

/-- Packing bound for a lattice model: if every listed logical dict `a` has at least `m` dict
    operators `r` on the qubits with pairwise disjoint keys such that every dict operator `b`
    commuting with all stabilizer generators anticommutes with `r` on as many qubits (mod 2) as
    with `a`, every non-trivial logical operator of the assembled code has weight `≥ m`. -/
theorem Lattice.packing_bound (l : Lattice) (hwf : l.WF) {n k : Nat} (hn : l.qubits.length = n)
    (hv : ValidCodeL n k l.rowsH l.rowsX l.rowsZ) (m : Nat)
    (hreps : ∀ a ∈ l.logX ++ l.logZ, ∃ reps : List Op, m ≤ reps.length ∧
      (∀ r ∈ reps, KeysNodup r ∧ opSupported l.qubits r = true) ∧
      reps.Pairwise KeysDisjoint ∧
      ∀ b : Op, KeysNodup b → opSupported l.qubits b = true →
        (∀ s ∈ l.stabs, opAntiCount (l.getStab s) b % 2 = 0) →
        ∀ r ∈ reps, opAntiCount r b % 2 = opAntiCount a b % 2) :
    ∀ v, IsNontrivialLogical n l.rowsH v → m ≤ pauliWeight v := by
  subst hn
  apply packing_lower_bound_symp hv m
  intro row hrow
  have hrow' : row ∈ (l.logX ++ l.logZ).map (opRow l.qubits) := by
    rw [List.map_append]; exact hrow
  obtain ⟨a, ha, rfl⟩ := List.mem_map.mp hrow'
  obtain ⟨reps, hm, hdict, hdis, hsame⟩ := hreps a ha
  refine ⟨reps.map (opRow l.qubits), by rw [List.length_map]; exact hm, ?_, ?_⟩
  · intro r' hr' v hlen hbin hcomm
    obtain ⟨r, hr, rfl⟩ := List.mem_map.mp hr'
    have hvb := opRow_fromBsf l.qubits v hwf.qubits_nodup hlen hbin
    have hbk := keysNodup_fromBsf l.qubits v hwf.qubits_nodup
    have hbs := opSupported_fromBsf l.qubits v
    have hstab : ∀ s ∈ l.stabs, opAntiCount (l.getStab s) (fromBsf l.qubits v) % 2 = 0 := by
      intro s hs
      have hd := hwf.stabs_dicts (l.getStab s) (List.mem_map.mpr ⟨s, hs, rfl⟩)
      rw [← symp_opRow l.qubits hwf.qubits_nodup _ _ hd.1 hd.2, hvb]
      exact hcomm _ (List.mem_map.mpr ⟨_, List.mem_map.mpr ⟨s, hs, rfl⟩, rfl⟩)
    have hda : KeysNodup a ∧ opSupported l.qubits a = true :=
      ⟨hwf.log_keys a ha, Lattice.WF.opSupported_of (hwf.log_supported a ha)⟩
    have h := hsame _ hbk hbs hstab r hr
    rw [← symp_opRow l.qubits hwf.qubits_nodup _ _ (hdict r hr).1 (hdict r hr).2,
      ← symp_opRow l.qubits hwf.qubits_nodup _ _ hda.1 hda.2, hvb] at h
    exact h
  · rw [List.pairwise_map]
    exact hdis.imp (fun h => suppDisjoint_opRow l.qubits h)

/-! ### the reported distance of a code with two logical qubits -/

theorem distance_two (x0 x1 z0 z1 : List Nat) :
    distance [x0, x1] [z0, z1] =
      some (min (min (rowWeight x0) (rowWeight x1)) (min (rowWeight z0) (rowWeight z1))) := rfl

end Panqec

namespace Panqec

/-! ### families of single-letter line operators as representatives -/

theorem keysNodup_line {K : List Coord} (P : Pauli) (h : K.Nodup) :
    KeysNodup (K.map (fun q => (q, P))) := by
  unfold KeysNodup
  rw [Lat2D.map_fst_const]
  exact h

theorem opSupported_line {qs K : List Coord} (P : Pauli) (h : ∀ q ∈ K, q ∈ qs) :
    opSupported qs (K.map (fun q => (q, P))) = true := by
  unfold opSupported
  rw [List.all_eq_true]
  intro e he
  obtain ⟨q, hq, rfl⟩ := List.mem_map.mp he
  rw [List.contains_iff_mem]
  exact h q hq

/-- `M` lines `K 0, …, K (M-1)` of qubits, pairwise disjoint, all carrying the letter `P`:
    the side conditions of `Lattice.packing_bound` -/
theorem lineReps (qs : List Coord) (K : Nat → List Coord) (M : Nat) (P : Pauli)
    (hnd : ∀ i, (K i).Nodup) (hq : ∀ i, i < M → ∀ q ∈ K i, q ∈ qs)
    (hdis : ∀ i i', i < i' → ∀ q ∈ K i, q ∉ K i') :
    ((List.range M).map fun i => (K i).map (fun q => (q, P))).length = M ∧
    (∀ r ∈ (List.range M).map fun i => (K i).map (fun q => (q, P)),
      KeysNodup r ∧ opSupported qs r = true) ∧
    ((List.range M).map fun i => (K i).map (fun q => (q, P))).Pairwise KeysDisjoint := by
  refine ⟨by simp, ?_, ?_⟩
  · intro r hr
    obtain ⟨i, hi, rfl⟩ := List.mem_map.mp hr
    exact ⟨keysNodup_line P (hnd i), opSupported_line P (hq i (List.mem_range.mp hi))⟩
  · rw [List.pairwise_map]
    refine List.Pairwise.imp ?_ List.pairwise_lt_range
    intro i i' hii q h1 h2
    rw [Lat2D.map_fst_const] at h1 h2
    exact hdis i i' hii q h1 h2

end Panqec
