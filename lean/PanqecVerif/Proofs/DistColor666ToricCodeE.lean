/-
Color666ToricCode, all square sizes `L ≥ 1`, C17 part E: the four listed strings are members of the
zig-zag families — `kC = Z 0 0` and `kD = Z 1 0` in the frame `false`, `kA = Z 1 0` and
`kB = Z 0 1` in the frame `true` (as sets of qubits: `List.Perm`) — and have `4L` qubits each.

Every key the class lists lies in the fundamental domain, so it is its own canonical
representative: it is literally the corner `qR a j` / `qL a j` with `(3a+4, 2+2a+4j)` resp.
`(3a, 2+2a+4j)` equal to the key; the block index of the zig-zag is read off, the periodic
identification (`fR_congr`, congruences modulo `3L`) absorbs the few keys the class wraps.
-/
import Batteries.Data.List.Perm
import PanqecVerif.Proofs.DistColor666ToricCodeD
import PanqecVerif.Proofs.LatColor666ToricCodeG

set_option linter.unusedVariables false

namespace Panqec.Color666ToricCode
open Panqec.Lat2D Panqec.Color

/-! ### lengths -/

theorem length_blocks {α β} (l : List α) (f : α → List β) (c : Nat)
    (h : ∀ x ∈ l, (f x).length = c) : (l.flatMap f).length = c * l.length := by
  induction l with
  | nil => simp
  | cons a l ih =>
    rw [List.flatMap_cons, List.length_append, h a (List.mem_cons_self ..),
      ih (fun x hx => h x (List.mem_cons_of_mem _ hx)), List.length_cons, Nat.mul_succ]
    omega

theorem length_kA (L : Nat) : (kA L).length = 4 * L := by
  unfold kA keysA
  rw [length_blocks _ _ 4]
  · unfold pyRangeStep
    simp only [List.length_map, List.length_range']
    omega
  · intro x _
    by_cases h : isQubit L L [x + 1, 12 * (L : Int) - 6 - 6 * (x - 8) / 9 + 2] = true
    · simp [h]
    · simp [h]

theorem length_kB (L : Nat) : (kB L).length = 4 * L := by
  unfold kB keysB
  rw [length_blocks _ _ 4]
  · unfold pyRangeStep
    simp only [List.length_map, List.length_range']
    omega
  · intro x _; simp

theorem length_kC (L : Nat) : (kC L).length = 4 * L := by
  unfold kC keysC
  rw [length_blocks _ _ 4]
  · unfold pyRangeStep
    simp only [List.length_map, List.length_range']
    omega
  · intro x _; simp

theorem length_kD (L : Nat) : (kD L).length = 4 * L := by
  unfold kD keysD
  rw [length_blocks _ _ 4]
  · unfold pyRangeStep
    simp only [List.length_map, List.length_range']
    omega
  · intro x _; simp

/-! ### a key of the domain as a corner of a face -/

theorem cn_id {L : Nat} (hL : 1 ≤ L) {x y : Int} (hD : InD L x y) : cn L x y = [x, y] := by
  obtain ⟨qx, qy, e, hd, hx, hu⟩ := cn_spec hL x y
  have := canon_congr hD hd (dvd_to_emod hx) (dvd_to_emod hu)
  rw [e, this.1, this.2]

theorem key_fR_false {L : Nat} (hL : 1 ≤ L) {x y : Int} (hD : InD L x y) (a0 j0 : Int)
    (ex : x = 3 * a0 + 4) (ey : y = 2 + 2 * a0 + 4 * j0) {a j : Int} (h1 : Cg L (a - a0))
    (h2 : Cg L (j - j0)) : [x, y] = fR L false a j := by
  rw [← cn_id hL hD, ex, ey]
  exact fR_congr hL false (a := a0) (j := j0) h1 h2

theorem key_fL_false {L : Nat} (hL : 1 ≤ L) {x y : Int} (hD : InD L x y) (a0 j0 : Int)
    (ex : x = 3 * a0) (ey : y = 2 + 2 * a0 + 4 * j0) {a j : Int} (h1 : Cg L (a - a0))
    (h2 : Cg L (j - j0)) : [x, y] = fL L false a j := by
  rw [← cn_id hL hD, ex, ey]
  exact fL_congr hL false (a := a0) (j := j0) h1 h2

theorem key_fR_true {L : Nat} (hL : 1 ≤ L) {x y : Int} (hD : InD L x y) (a0 j0 : Int)
    (ex : x = 3 * a0 + 4) (ey : y = 2 + 2 * a0 + 4 * j0) {a j : Int} (h1 : Cg L (j - 1 - a0))
    (h2 : Cg L (-a - j - j0)) : [x, y] = fR L true a j := by
  rw [fR_true]
  exact key_fR_false hL hD a0 j0 ex ey h1 h2

theorem key_fL_true {L : Nat} (hL : 1 ≤ L) {x y : Int} (hD : InD L x y) (a0 j0 : Int)
    (ex : x = 3 * a0) (ey : y = 2 + 2 * a0 + 4 * j0) {a j : Int} (h1 : Cg L (j + 1 - a0))
    (h2 : Cg L (-a - j - j0)) : [x, y] = fL L true a j := by
  rw [fL_true]
  exact key_fL_false hL hD a0 j0 ex ey h1 h2

/-- a multiple of the period with a literal factor -/
theorem cg_lit (L : Nat) (k : Int) {x : Int} (e : x = 3 * (L : Int) * k) : Cg L x := ⟨k, e⟩

/-- the block before the block `i'` (cyclically) -/
theorem wrap_idx {L : Nat} (hL : 1 ≤ L) (i' : Nat) (hi' : i' < L) :
    ∃ i : Nat, i < L ∧ Cg L (3 * (i : Int) + 3 - 3 * (i' : Int)) := by
  by_cases h : i' = 0
  · exact ⟨L - 1, by omega, cg_lit L 1 (by omega)⟩
  · exact ⟨i' - 1, by omega, cg_lit L 0 (by omega)⟩

/-! ### the listed strings inside the families -/

theorem kC_sub {L : Nat} (hL : 1 ≤ L) : ∀ q ∈ kC L, q ∈ zigK L false 0 0 := by
  intro q hq
  obtain ⟨a, b, rfl, hQ, hP⟩ := (mem_kC hL).mp hq
  have hD := hQ.1
  rw [isQ_unfold] at hQ
  unfold PC at hP
  rw [mem_zigK]
  rcases hP with ⟨rfl, h | h⟩ | ⟨rfl, h | h⟩
  · obtain ⟨i, hi⟩ : ∃ i : Nat, b = 12 * (i : Int) + 4 := ⟨(b / 12).toNat, by omega⟩
    exact ⟨i, 0, by omega, Or.inr ⟨key_fL_false hL hD 1 (3 * (i : Int)) (by omega) (by omega)
      (cg_lit L 0 (by omega)) (cg_lit L 0 (by omega)), Or.inl rfl⟩⟩
  · obtain ⟨i, hi⟩ : ∃ i : Nat, b = 12 * (i : Int) + 8 := ⟨(b / 12).toNat, by omega⟩
    exact ⟨i, 1, by omega, Or.inr ⟨key_fL_false hL hD 1 (3 * (i : Int) + 1) (by omega) (by omega)
      (cg_lit L 0 (by omega)) (cg_lit L 0 (by omega)), Or.inr rfl⟩⟩
  · obtain ⟨i, hi⟩ : ∃ i : Nat, b = 12 * (i : Int) + 2 := ⟨(b / 12).toNat, by omega⟩
    exact ⟨i, 0, by omega, Or.inl ⟨key_fR_false hL hD 0 (3 * (i : Int)) (by omega) (by omega)
      (cg_lit L 0 (by omega)) (cg_lit L 0 (by omega)), Or.inl rfl⟩⟩
  · obtain ⟨i, hi⟩ : ∃ i : Nat, b = 12 * (i : Int) + 10 := ⟨(b / 12).toNat, by omega⟩
    exact ⟨i, 2, by omega, Or.inl ⟨key_fR_false hL hD 0 (3 * (i : Int) + 2) (by omega) (by omega)
      (cg_lit L 0 (by omega)) (cg_lit L 0 (by omega)), Or.inr rfl⟩⟩

theorem kD_sub {L : Nat} (hL : 1 ≤ L) : ∀ q ∈ kD L, q ∈ zigK L false 1 0 := by
  intro q hq
  obtain ⟨a, b, rfl, hQ, hP⟩ := (mem_kD hL).mp hq
  have hD := hQ.1
  rw [isQ_unfold] at hQ
  unfold PD at hP
  rw [mem_zigK]
  rcases hP with ⟨rfl, h | h⟩ | ⟨rfl, h | h⟩
  · obtain ⟨i, hi⟩ : ∃ i : Nat, b = 12 * (i : Int) + 8 := ⟨(b / 12).toNat, by omega⟩
    exact ⟨i, 0, by omega, Or.inr ⟨key_fL_false hL hD 1 (3 * (i : Int) + 1) (by omega) (by omega)
      (cg_lit L 0 (by omega)) (cg_lit L 0 (by omega)), Or.inl rfl⟩⟩
  · -- `(3, 12 i')`: the key `(3, 0)` closes the last block
    obtain ⟨i', hi'⟩ : ∃ i' : Nat, b = 12 * (i' : Int) := ⟨(b / 12).toNat, by omega⟩
    obtain ⟨i, hi, hw⟩ := wrap_idx hL i' (by omega)
    exact ⟨i, 1, hi, Or.inr ⟨key_fL_false hL hD 1 (3 * (i' : Int) - 1) (by omega) (by omega)
      (cg_lit L 0 (by omega)) (hw.congr (by omega)), Or.inr rfl⟩⟩
  · obtain ⟨i, hi⟩ : ∃ i : Nat, b = 12 * (i : Int) + 6 := ⟨(b / 12).toNat, by omega⟩
    exact ⟨i, 0, by omega, Or.inl ⟨key_fR_false hL hD 0 (3 * (i : Int) + 1) (by omega) (by omega)
      (cg_lit L 0 (by omega)) (cg_lit L 0 (by omega)), Or.inl rfl⟩⟩
  · -- `(4, 12 i' + 2)`: the key `(4, 2)` closes the last block
    obtain ⟨i', hi'⟩ : ∃ i' : Nat, b = 12 * (i' : Int) + 2 := ⟨(b / 12).toNat, by omega⟩
    obtain ⟨i, hi, hw⟩ := wrap_idx hL i' (by omega)
    exact ⟨i, 2, hi, Or.inl ⟨key_fR_false hL hD 0 (3 * (i' : Int)) (by omega) (by omega)
      (cg_lit L 0 (by omega)) (hw.congr (by omega)), Or.inr rfl⟩⟩

theorem kA_sub {L : Nat} (hL : 1 ≤ L) : ∀ q ∈ kA L, q ∈ zigK L true 1 0 := by
  intro q hq
  obtain ⟨a, b, rfl, hQ, hP⟩ := (mem_kA hL).mp hq
  have hD := hQ.1
  rw [isQ_unfold] at hQ
  unfold PA at hP
  rw [mem_zigK]
  rcases hP with ⟨h9, hv⟩ | ⟨h9, hv⟩ | ⟨h9, hv⟩ | ⟨h9, hv⟩
  · -- `(9i + 4, 12L − 2 − 6i)`: the right corner of the face `(3i, 3L − 1 − 3i)`
    obtain ⟨i, hi⟩ : ∃ i : Nat, a = 9 * (i : Int) + 4 := ⟨(a / 9).toNat, by omega⟩
    exact ⟨i, 0, by omega, Or.inl ⟨key_fR_true hL hD (3 * (i : Int)) (3 * (L : Int) - 1 - 3 * (i : Int))
      (by omega) (by omega) (cg_lit L 0 (by omega)) (cg_lit L (-1) (by omega)), Or.inl rfl⟩⟩
  · -- `(9i + 6, 12L − 2 − 6i)`: the left corner of the face `(3i + 2, 3L − 2 − 3i)`
    obtain ⟨i, hi⟩ : ∃ i : Nat, a = 9 * (i : Int) + 6 := ⟨(a / 9).toNat, by omega⟩
    exact ⟨i, 0, by omega, Or.inr ⟨key_fL_true hL hD (3 * (i : Int) + 2)
      (3 * (L : Int) - 2 - 3 * (i : Int))
      (by omega) (by omega) (cg_lit L 0 (by omega)) (cg_lit L (-1) (by omega)), Or.inl rfl⟩⟩
  · -- `(9i', ·)`: the left corner of the face `(3i', −3i')`; `(0, 2)` closes the last block
    obtain ⟨i', hi'⟩ : ∃ i' : Nat, a = 9 * (i' : Int) := ⟨(a / 9).toNat, by omega⟩
    obtain ⟨i, hi, hw⟩ := wrap_idx hL i' (by omega)
    rcases hv with hv | hv
    · exact ⟨i, 1, hi, Or.inr ⟨key_fL_true hL hD (3 * (i' : Int)) (3 * (L : Int) - 3 * (i' : Int))
        (by omega) (by omega) (hw.congr (by omega))
        ((hw.neg.sub (cg_period L)).congr (by omega)), Or.inr rfl⟩⟩
    · exact ⟨i, 1, hi, Or.inr ⟨key_fL_true hL hD (3 * (i' : Int)) (-3 * (i' : Int))
        (by omega) (by omega) (hw.congr (by omega)) (hw.neg.congr (by omega)), Or.inr rfl⟩⟩
  · -- `(9i' + 1, ·)`: the right corner of the face `(3i' − 1, −3i')`; `(1, 0)` closes the last block
    obtain ⟨i', hi'⟩ : ∃ i' : Nat, a = 9 * (i' : Int) + 1 := ⟨(a / 9).toNat, by omega⟩
    obtain ⟨i, hi, hw⟩ := wrap_idx hL i' (by omega)
    rcases hv with hv | hv
    · exact ⟨i, 2, hi, Or.inl ⟨key_fR_true hL hD (3 * (i' : Int) - 1) (3 * (L : Int) - 3 * (i' : Int))
        (by omega) (by omega) (hw.congr (by omega))
        ((hw.neg.sub (cg_period L)).congr (by omega)), Or.inr rfl⟩⟩
    · exact ⟨i, 2, hi, Or.inl ⟨key_fR_true hL hD (3 * (i' : Int) - 1) (-3 * (i' : Int))
        (by omega) (by omega) (hw.congr (by omega)) (hw.neg.congr (by omega)), Or.inr rfl⟩⟩

theorem kB_sub {L : Nat} (hL : 1 ≤ L) : ∀ q ∈ kB L, q ∈ zigK L true 0 1 := by
  intro q hq
  obtain ⟨a, b, rfl, hQ, hP⟩ := (mem_kB hL).mp hq
  have hD := hQ.1
  rw [isQ_unfold] at hQ
  unfold PB at hP
  rw [mem_zigK]
  rcases hP with ⟨h9 | h9, hv⟩ | ⟨h9 | h9, hv⟩
  · -- `(9i', ·)`: the left corner of the face `(3i', 3L − 1 − 3i')`; the first key closes the last block
    obtain ⟨i', hi'⟩ : ∃ i' : Nat, a = 9 * (i' : Int) := ⟨(a / 9).toNat, by omega⟩
    obtain ⟨i, hi, hw⟩ := wrap_idx hL i' (by omega)
    exact ⟨i, 1, hi, Or.inr ⟨key_fL_true hL hD (3 * (i' : Int))
      (3 * (L : Int) - 1 - 3 * (i' : Int)) (by omega) (by omega) (hw.congr (by omega))
      ((hw.neg.sub (cg_period L)).congr (by omega)), Or.inr rfl⟩⟩
  · obtain ⟨i, hi⟩ : ∃ i : Nat, a = 9 * (i : Int) + 6 := ⟨(a / 9).toNat, by omega⟩
    exact ⟨i, 0, by omega, Or.inr ⟨key_fL_true hL hD (3 * (i : Int) + 2)
      (3 * (L : Int) - 3 - 3 * (i : Int))
      (by omega) (by omega) (cg_lit L 0 (by omega)) (cg_lit L (-1) (by omega)), Or.inl rfl⟩⟩
  · -- `(9i' + 1, ·)`: the right corner of the face `(3i' − 1, 3L − 1 − 3i')`
    obtain ⟨i', hi'⟩ : ∃ i' : Nat, a = 9 * (i' : Int) + 1 := ⟨(a / 9).toNat, by omega⟩
    obtain ⟨i, hi, hw⟩ := wrap_idx hL i' (by omega)
    exact ⟨i, 2, hi, Or.inl ⟨key_fR_true hL hD (3 * (i' : Int) - 1)
      (3 * (L : Int) - 1 - 3 * (i' : Int)) (by omega) (by omega) (hw.congr (by omega))
      ((hw.neg.sub (cg_period L)).congr (by omega)), Or.inr rfl⟩⟩
  · obtain ⟨i, hi⟩ : ∃ i : Nat, a = 9 * (i : Int) + 4 := ⟨(a / 9).toNat, by omega⟩
    exact ⟨i, 0, by omega, Or.inl ⟨key_fR_true hL hD (3 * (i : Int))
      (3 * (L : Int) - 2 - 3 * (i : Int))
      (by omega) (by omega) (cg_lit L 0 (by omega)) (cg_lit L (-1) (by omega)), Or.inl rfl⟩⟩

/-! ### the listed strings ARE members of the families -/

theorem perm_of_sub {K Z : List Coord} (hK : K.Nodup) (hsub : ∀ q ∈ K, q ∈ Z)
    (hlen : Z.length ≤ K.length) : K.Perm Z :=
  (List.subperm_of_subset hK hsub).perm_of_length_le hlen

theorem kC_perm {L : Nat} (hL : 1 ≤ L) : (kC L).Perm (zigK L false 0 0) :=
  perm_of_sub (nodup_kC L) (kC_sub hL) (by rw [length_zigK, length_kC])
theorem kD_perm {L : Nat} (hL : 1 ≤ L) : (kD L).Perm (zigK L false 1 0) :=
  perm_of_sub (nodup_kD L) (kD_sub hL) (by rw [length_zigK, length_kD])
theorem kA_perm {L : Nat} (hL : 1 ≤ L) : (kA L).Perm (zigK L true 1 0) :=
  perm_of_sub (nodup_kA hL) (kA_sub hL) (by rw [length_zigK, length_kA])
theorem kB_perm {L : Nat} (hL : 1 ≤ L) : (kB L).Perm (zigK L true 0 1) :=
  perm_of_sub (nodup_kB L) (kB_sub hL) (by rw [length_zigK, length_kB])

end Panqec.Color666ToricCode
