/-
`RotatedToric3DCode`, supported family, rank clause (3/3): `rankFamily` is GF(2)-independent, by the
triangular criterion `Cubic3D.opsIndep_of_triangular`.  Witnesses (qubit, sign; the component is
`sign != col qubit`) and ranks:

* a vertex of a layer `z ≥ 3`: the vertical qubit below it (only the vertex two layers down acts
  there with a Z component); rank `tr x y + z`;
* a horizontal face next to the dropped column (any layer): the qubit of the dropped column /
  row on its lower side — `(1, y − 1, z)` resp. `(x − 1, 1, z)` — with sign "x = 2" resp. "y = 2";
  the only other generator with that component there is a vertex (across the seam a vertex of the
  defect line writes X, a face of the defect line writes Z); no vertical face touches the column;
  rank `N1`, above every vertex;
* a vertical face `(f, g, h)`: the horizontal qubit `(f, g, h + 1)` above it, X component; the other
  generators acting there: the vertical face two layers up and layer generators of a layer `≥ 3`,
  all of smaller rank; rank `N1 + 1 + (2Lz − h)`;
* the other generators of the bottom layer (vertices but `(2, 4, 1)`; faces not next to the dropped
  column, but `(2, 2, 1)`): the qubit towards the parent in a spanning tree of the diagonal-step
  graph of the layer that never crosses a seam — rows `y ≥ 6` step down-left (down-right from
  `x = 2`), rows 2 and 4 zig-zag to the left; rank `tr x y` (`x` in rows 2, 4, `2Lx + y` above),
  faces above all vertical faces.

The same definitions serve even × even (`k = 2`, two roots) and odd × even / even × odd (`k = 1`).
-/
import PanqecVerif.Proofs.LatRotatedToric3DCodeRank2
open Panqec Panqec.Lat3Db
namespace Panqec.RotatedToric3DCode

set_option linter.unusedVariables false
set_option linter.unusedSimpArgs false

/-- next to the dropped column / row of vertical faces -/
def near (Lx Ly : Nat) (x y : Int) : Prop :=
  (Lx % 2 = 1 ∧ (x = 2 ∨ x = 2 * (Lx : Int))) ∨ (Ly % 2 = 1 ∧ (y = 2 ∨ y = 2 * (Ly : Int)))

instance (Lx Ly : Nat) (x y : Int) : Decidable (near Lx Ly x y) := by unfold near; infer_instance

/-- depth in the spanning tree of a layer -/
def tr (Lx : Nat) (x y : Int) : Int := if y ≤ 4 then x else 2 * (Lx : Int) + y

def N1 (Lx Ly Lz : Nat) : Int := 2 * (Lx : Int) + 2 * (Ly : Int) + 2 * (Lz : Int) + 1

def rkI (Lx Ly Lz : Nat) : Coord → Int
  | [x, y, z] =>
    if z % 2 = 1 then
      if (x + y) % 4 = 2 then tr Lx x y + z
      else if near Lx Ly x y then N1 Lx Ly Lz
      else N1 Lx Ly Lz + 2 * (Lz : Int) + 2 + tr Lx x y
    else N1 Lx Ly Lz + 1 + (2 * (Lz : Int) - z)
  | _ => 0

def rk (Lx Ly Lz : Nat) (s : Coord) : Nat := (rkI Lx Ly Lz s).toNat

/-- witness towards the parent in the spanning tree of a layer -/
def treeWit (x y z : Int) : Coord × Bool :=
  if 6 ≤ y then (if 4 ≤ x then ([x - 1, y - 1, z], true) else ([3, y - 1, z], false))
  else if y = 4 then ([x - 1, 3, z], true) else ([x - 1, 3, z], false)

/-- witness qubit and sign -/
def witS (Lx Ly Lz : Nat) : Coord → Coord × Bool
  | [x, y, z] =>
    if z % 2 = 1 then
      if (x + y) % 4 = 2 then (if 3 ≤ z then ([x, y, z - 1], true) else treeWit x y z)
      else if near Lx Ly x y then
        (if Lx % 2 = 1 then ([1, y - 1, z], decide (x = 2)) else ([x - 1, 1, z], decide (y = 2)))
      else treeWit x y z
    else ([x, y, z + 1], decide ((x + y) % 4 = 2))
  | s => (s, false)

def wit (Lx Ly Lz : Nat) (s : Coord) : Coord := (witS Lx Ly Lz s).1
/-- `true`: X component -/
def wx (Lx Ly Lz : Nat) (s : Coord) : Bool := (witS Lx Ly Lz s).2 != col (witS Lx Ly Lz s).1

theorem rk_lt {Lx Ly Lz : Nat} {s t : Coord} (h0 : 0 < rkI Lx Ly Lz s)
    (h : rkI Lx Ly Lz t < rkI Lx Ly Lz s) : rk Lx Ly Lz t < rk Lx Ly Lz s := by
  unfold rk; omega

section
variable {Lx Ly Lz : Nat}

/-- the triangular condition for one member, from its witness data -/
theorem tri_of (hF : Fam Lx Ly) (hLz : 1 ≤ Lz) {s q : Coord} {σ : Bool} {Ks : List (Coord × Bool)}
    (hw : witS Lx Ly Lz s = (q, σ)) (hk : Kind Lx Ly Lz s Ks) (hself : (q, σ) ∈ Ks)
    (hq : isQubit Lx Ly Lz q = true) (hpos : 0 < rkI Lx Ly Lz s)
    (hdom : ∀ t K, t ∈ rankFamily Lx Ly Lz → Kind Lx Ly Lz t K → (q, σ) ∈ K →
      t = s ∨ rkI Lx Ly Lz t < rkI Lx Ly Lz s) :
    Cubic3D.hit (wx Lx Ly Lz s) (getStab Lx Ly Lz s) (wit Lx Ly Lz s) = true ∧
    ∀ t ∈ rankFamily Lx Ly Lz,
      Cubic3D.hit (wx Lx Ly Lz s) (getStab Lx Ly Lz t) (wit Lx Ly Lz s) = true →
        t = s ∨ rk Lx Ly Lz t < rk Lx Ly Lz s := by
  unfold wx wit
  rw [hw]
  refine ⟨(hit_signed (signed_of_kind hF hk) q σ).mpr ⟨hq, hself⟩, ?_⟩
  intro t ht hh
  obtain ⟨K, hkt⟩ := kind_of_mem (rankFamily_subset hF hLz ht)
  have := (hit_signed (signed_of_kind hF hkt) q σ).mp hh
  rcases hdom t K ht hkt this.2 with h | h
  · exact Or.inl h
  · exact Or.inr (rk_lt hpos h)

theorem rkI_vertex {x y z : Int} (hz : z % 2 = 1) (h4 : (x + y) % 4 = 2) :
    rkI Lx Ly Lz [x, y, z] = tr Lx x y + z := by
  simp only [rkI]; rw [if_pos hz, if_pos h4]
theorem rkI_near {x y z : Int} (hz : z % 2 = 1) (h4 : ¬ (x + y) % 4 = 2) (hn : near Lx Ly x y) :
    rkI Lx Ly Lz [x, y, z] = N1 Lx Ly Lz := by
  simp only [rkI]; rw [if_pos hz, if_neg h4, if_pos hn]
theorem rkI_tree {x y z : Int} (hz : z % 2 = 1) (h4 : ¬ (x + y) % 4 = 2) (hn : ¬ near Lx Ly x y) :
    rkI Lx Ly Lz [x, y, z] = N1 Lx Ly Lz + 2 * (Lz : Int) + 2 + tr Lx x y := by
  simp only [rkI]; rw [if_pos hz, if_neg h4, if_neg hn]
theorem rkI_vface {x y z : Int} (hz : ¬ z % 2 = 1) :
    rkI Lx Ly Lz [x, y, z] = N1 Lx Ly Lz + 1 + (2 * (Lz : Int) - z) := by
  simp only [rkI]; rw [if_neg hz]
theorem tr_bounds {x y : Int} (hx : Ev Lx x) (hy : Ev Ly y) :
    2 ≤ tr Lx x y ∧ tr Lx x y ≤ 2 * (Lx : Int) + 2 * (Ly : Int) := by
  unfold Ev at hx hy; unfold tr; split <;> omega

/-- the rank of a layer generator of the family above the bottom layer is below `N1 + 1` -/
theorem rkI_layer_up (hF : Fam Lx Ly) {a b c : Int} (hc : c % 2 = 1) (hc3 : 3 ≤ c)
    (hcz : c < 2 * (Lz : Int)) (ha : Ev Lx a) (hb : Ev Ly b) (ht : InB Lx Ly Lz a b c) :
    rkI Lx Ly Lz [a, b, c] < N1 Lx Ly Lz + 1 := by
  have tb := tr_bounds ha hb
  rcases ht with ht | ht | ht | ht
  · unfold InL1 at ht; omega
  · rw [rkI_vertex hc ht.2.2.2]; unfold N1; omega
  · obtain ⟨_, ht⟩ := ht
    rw [rkI_near hc (by omega) (by unfold near; omega)]; omega
  · unfold InVF R2 at ht; omega

/-- the conclusion of the triangular criterion for the member `s` -/
def Tri (Lx Ly Lz : Nat) (s : Coord) : Prop :=
  Cubic3D.hit (wx Lx Ly Lz s) (getStab Lx Ly Lz s) (wit Lx Ly Lz s) = true ∧
  ∀ t ∈ rankFamily Lx Ly Lz,
    Cubic3D.hit (wx Lx Ly Lz s) (getStab Lx Ly Lz t) (wit Lx Ly Lz s) = true →
      t = s ∨ rk Lx Ly Lz t < rk Lx Ly Lz s

/-- a vertex of a layer `z ≥ 3` -/
theorem tri_VU (hF : Fam Lx Ly) (hLz : 1 ≤ Lz) {x y z : Int} (h : InVU Lx Ly Lz x y z) :
    Tri Lx Ly Lz [x, y, z] := by
  obtain ⟨hx, hy, hz, h4⟩ := h
  unfold ZU at hz
  have hsv : SV Lx Ly Lz x y z := ⟨R2_Ev.mpr hx, R2_Ev.mpr hy, by unfold R1; omega, h4⟩
  have hw : witS Lx Ly Lz [x, y, z] = ([x, y, z - 1], true) := by
    simp only [witS]; rw [if_pos hz.1, if_pos h4, if_pos hz.2.1]
  have hx' := hx; have hy' := hy
  unfold Ev at hx' hy'
  refine tri_of hF hLz hw (Kind.vertex hsv) (by simp [KV])
    (isQ_v hx hy (by unfold R2; omega) h4) ?_ ?_
  · simp only [rkI, tr]; omega
  · intro t K ht hk hm
    obtain ⟨h1, _⟩ := hitters_v hF hk hx hy (by omega) hm
    rcases h1 with rfl | rfl
    · right; simp only [rkI, tr]; omega
    · left; have : z - 1 + 1 = z := by omega
      rw [this]

/-- a vertical face -/
theorem tri_VF (hF : Fam Lx Ly) (hLz : 1 ≤ Lz) {x y z : Int} (h : InVF Lx Ly Lz x y z) :
    Tri Lx Ly Lz [x, y, z] := by
  obtain ⟨hx, hy, hz, h1, h2⟩ := h
  have hodd := hF.2.2
  have hx' := hx; have hy' := hy; have hz' := hz
  unfold Od at hx' hy'; unfold R2 at hz'
  have hsf : SF Lx Ly Lz x y z := by
    refine ⟨R1_Od.mpr hx, R1_Od.mpr hy, hz, ?_⟩
    unfold Dropped; omega
  have hz1 : ¬ z % 2 = 1 := by omega
  have hw : witS Lx Ly Lz [x, y, z] = ([x, y, z + 1], decide ((x + y) % 4 = 2)) := by
    simp only [witS]; rw [if_neg hz1]
  have hq := isQ_h (Lz := Lz) hx hy (r := z + 1) (by unfold R1; omega)
  have hrs := rkI_vface (Lx := Lx) (Ly := Ly) (Lz := Lz) (x := x) (y := y) hz1
  have hpos : 0 < rkI Lx Ly Lz [x, y, z] := by rw [hrs]; unfold N1; omega
  have hdom : ∀ t K, t ∈ rankFamily Lx Ly Lz → Kind Lx Ly Lz t K →
      ([x, y, z + 1], decide ((x + y) % 4 = 2)) ∈ K →
      t = [x, y, z] ∨ rkI Lx Ly Lz t < rkI Lx Ly Lz [x, y, z] := by
    intro t K ht hk hm
    obtain ⟨a, b, c, rfl, hh⟩ := hitters_h hF hk hx hy (c := z + 1) (by omega) hm
    rw [mem_rankFamily] at ht
    rcases hh with ⟨hc, ha, hb, _⟩ | ⟨rfl, rfl, hc, _, _⟩
    · right
      have := rkI_layer_up hF (c := c) (by omega) (by omega) (by omega) ha hb ht
      rw [hrs]; omega
    · rcases hc with rfl | rfl
      · left; have : z + 1 - 1 = z := by omega
        rw [this]
      · right; rw [hrs, rkI_vface (by omega)]; omega
  rcases SF_mod4 hsf with h4 | h4
  · have hd : decide ((x + y) % 4 = 2) = false := decide_eq_false (by omega)
    rw [hd] at hw hdom
    exact tri_of hF hLz hw (Kind.vfaceX hsf h4) (by simp [KFX]) hq hpos hdom
  · have hd : decide ((x + y) % 4 = 2) = true := decide_eq_true h4
    rw [hd] at hw hdom
    exact tri_of hF hLz hw (Kind.vfaceY hsf h4) (by simp [KFY]) hq hpos hdom

/-- a horizontal face next to the dropped column / row, any layer -/
theorem tri_near (hF : Fam Lx Ly) (hLz : 1 ≤ Lz) {x y z : Int} (hs : SH Lx Ly Lz x y z)
    (hn : near Lx Ly x y) : Tri Lx Ly Lz [x, y, z] := by
  obtain ⟨hLx, hLy, hodd⟩ := hF
  have hF : Fam Lx Ly := ⟨hLx, hLy, hodd⟩
  have hs' := hs
  obtain ⟨hx, hy, hz, h4⟩ := hs'
  rw [R2_Ev] at hx hy
  have hx' := hx; have hy' := hy; have hz' := hz
  unfold Ev at hx' hy'; unfold R1 at hz'
  have h42 : ¬ (x + y) % 4 = 2 := by omega
  have sx := sw_spec Lx x; have sy := sw_spec Ly y
  have hrs := rkI_near (Lz := Lz) hz'.1 h42 hn
  have hpos : 0 < rkI Lx Ly Lz [x, y, z] := by rw [hrs]; unfold N1; omega
  -- a vertex of the same layer has a smaller rank
  have hvert : ∀ a b : Int, Ev Lx a → Ev Ly b → (a + b) % 4 = 2 →
      rkI Lx Ly Lz [a, b, z] < rkI Lx Ly Lz [x, y, z] := by
    intro a b ha hb hab
    have tb := tr_bounds ha hb
    rw [hrs, rkI_vertex hz'.1 hab]; unfold N1; omega
  -- no member of the family sits on an odd column / row that is dropped
  have hnov : ∀ a b c : Int, InB Lx Ly Lz a b c →
      ¬ ((Lx % 2 = 1 ∧ a = 1) ∨ (Lx % 2 = 0 ∧ Ly % 2 = 1 ∧ b = 1)) := by
    intro a b c ht
    rcases ht with ht | ht | ht | ht
    · unfold InL1 Ev at ht; omega
    · unfold InVU Ev at ht; omega
    · unfold InHU at ht; omega
    · unfold InVF at ht; omega
  unfold near at hn
  by_cases hpx : Lx % 2 = 1
  · -- odd × even: witness `(1, y − 1, z)`
    have hxx : x = 2 ∨ x = 2 * (Lx : Int) := by omega
    have hw : witS Lx Ly Lz [x, y, z] = ([1, y - 1, z], decide (x = 2)) := by
      simp only [witS]; rw [if_pos hz'.1, if_neg h42, if_pos (by unfold near; exact hn), if_pos hpx]
    have hq := isQ_h (Lx := Lx) (Ly := Ly) (Lz := Lz) (p := 1) (q := y - 1) (r := z)
      (by unfold Od; omega) (by unfold Od; omega) hz
    have p1 := pw_spec Lx 1; have p2 := pw_spec Ly (y - 1)
    have hdom : ∀ t K, t ∈ rankFamily Lx Ly Lz → Kind Lx Ly Lz t K →
        ([1, y - 1, z], decide (x = 2)) ∈ K →
        t = [x, y, z] ∨ rkI Lx Ly Lz t < rkI Lx Ly Lz [x, y, z] := by
      intro t K ht hk hm
      obtain ⟨a, b, c, rfl, hh⟩ := hitters_h hF hk (f := 1) (g := y - 1) (c := z)
        (by unfold Od; omega) (by unfold Od; omega) hz'.1 hm
      rw [mem_rankFamily] at ht
      rcases hh with ⟨rfl, ha, hb, hh⟩ | ⟨rfl, rfl, hc, _, _⟩
      · have ha' := ha; have hb' := hb
        unfold Ev at ha' hb'
        simp only [decide_eq_true_eq, decide_eq_false_iff_not] at hh
        rcases hh with ⟨h5, h6 | h6⟩ | ⟨h5, h6 | h6⟩
        · left; simp only [List.cons.injEq, and_true]; omega
        · right; exact hvert a b ha hb (by omega)
        · right; exact hvert a b ha hb (by omega)
        · left; simp only [List.cons.injEq, and_true]; omega
      · exact absurd (Or.inl ⟨hpx, rfl⟩) (hnov _ _ _ ht)
    rcases hxx with rfl | rfl
    · have hd : decide ((2 : Int) = 2) = true := by decide
      rw [hd] at hw hdom
      exact tri_of hF hLz hw (Kind.hface hs) (by simp [KH]) hq hpos hdom
    · have hd : decide (2 * (Lx : Int) = 2) = false := decide_eq_false (by omega)
      rw [hd] at hw hdom
      have hsw : sw Lx (2 * (Lx : Int)) = 1 := by omega
      exact tri_of hF hLz hw (Kind.hface hs) (by simp [KH, hsw]) hq hpos hdom
  · -- even × odd: witness `(x − 1, 1, z)`
    have hpy : Ly % 2 = 1 := by omega
    have hyy : y = 2 ∨ y = 2 * (Ly : Int) := by omega
    have hw : witS Lx Ly Lz [x, y, z] = ([x - 1, 1, z], decide (y = 2)) := by
      simp only [witS]; rw [if_pos hz'.1, if_neg h42, if_pos (by unfold near; exact hn), if_neg hpx]
    have hq := isQ_h (Lx := Lx) (Ly := Ly) (Lz := Lz) (p := x - 1) (q := 1) (r := z)
      (by unfold Od; omega) (by unfold Od; omega) hz
    have p1 := pw_spec Lx (x - 1); have p2 := pw_spec Ly 1
    have hdom : ∀ t K, t ∈ rankFamily Lx Ly Lz → Kind Lx Ly Lz t K →
        ([x - 1, 1, z], decide (y = 2)) ∈ K →
        t = [x, y, z] ∨ rkI Lx Ly Lz t < rkI Lx Ly Lz [x, y, z] := by
      intro t K ht hk hm
      obtain ⟨a, b, c, rfl, hh⟩ := hitters_h hF hk (f := x - 1) (g := 1) (c := z)
        (by unfold Od; omega) (by unfold Od; omega) hz'.1 hm
      rw [mem_rankFamily] at ht
      rcases hh with ⟨rfl, ha, hb, hh⟩ | ⟨rfl, rfl, hc, _, _⟩
      · have ha' := ha; have hb' := hb
        unfold Ev at ha' hb'
        simp only [decide_eq_true_eq, decide_eq_false_iff_not] at hh
        rcases hh with ⟨h5, h6 | h6⟩ | ⟨h5, h6 | h6⟩
        · left; simp only [List.cons.injEq, and_true]; omega
        · right; exact hvert a b ha hb (by omega)
        · left; simp only [List.cons.injEq, and_true]; omega
        · right; exact hvert a b ha hb (by omega)
      · exact absurd (Or.inr ⟨by omega, hpy, rfl⟩) (hnov _ _ _ ht)
    rcases hyy with rfl | rfl
    · have hd : decide ((2 : Int) = 2) = true := by decide
      rw [hd] at hw hdom
      exact tri_of hF hLz hw (Kind.hface hs) (by simp [KH]) hq hpos hdom
    · have hd : decide (2 * (Ly : Int) = 2) = false := decide_eq_false (by omega)
      rw [hd] at hw hdom
      have hsw : sw Ly (2 * (Ly : Int)) = 1 := by omega
      exact tri_of hF hLz hw (Kind.hface hs) (by simp [KH, hsw]) hq hpos hdom

/-- a generator of the bottom layer attached to the spanning tree: generic in its kind (vertex /
    horizontal face: the same four horizontal candidates with the same signs) -/
theorem tri_tree_core (hF : Fam Lx Ly) (hLz : 1 ≤ Lz) {x y : Int} {K : List (Coord × Bool)}
    (hk : Kind Lx Ly Lz [x, y, 1] K) (hx : Ev Lx x) (hy : Ev Ly y)
    (hroot : ¬ (y = 4 ∧ x < 4) ∧ ¬ (y = 2 ∧ x < 4))
    (hw : witS Lx Ly Lz [x, y, 1] = treeWit x y 1)
    (hK : ([x - 1, y - 1, 1], true) ∈ K ∧ ([sw Lx x, sw Ly y, 1], true) ∈ K ∧
      ([x - 1, sw Ly y, 1], false) ∈ K ∧ ([sw Lx x, y - 1, 1], false) ∈ K)
    (hpos : 0 < rkI Lx Ly Lz [x, y, 1])
    (hpar : ∀ a b : Int, Ev Lx a → Ev Ly b → (a + b) % 4 = (x + y) % 4 → tr Lx a b < tr Lx x y →
      rkI Lx Ly Lz [a, b, 1] < rkI Lx Ly Lz [x, y, 1])
    (hcls : (x + y) % 4 = 2 ∨ (x + y) % 4 = 0)
    (hvf : (x + y) % 4 = 0 → ∀ f g c : Int, c % 2 = 0 → 0 ≤ c →
      rkI Lx Ly Lz [f, g, c] < rkI Lx Ly Lz [x, y, 1]) :
    Tri Lx Ly Lz [x, y, 1] := by
  obtain ⟨hLx, hLy, hodd⟩ := hF
  have hF : Fam Lx Ly := ⟨hLx, hLy, hodd⟩
  have hx' := hx; have hy' := hy
  unfold Ev at hx' hy'
  have sx := sw_spec Lx x; have sy := sw_spec Ly y
  have hz1 : R1 (2 * Lz) (1 : Int) := by unfold R1; omega
  obtain ⟨hK1, hK2, hK3, hK4⟩ := hK
  -- the shared endgame: `t` is the member itself, its parent, or a vertical face
  have fin : ∀ (f g : Int) (σ : Bool) (a b c : Int), Od Lx f → Od Ly g → 3 ≤ f → 3 ≤ g →
      ((c = 1 ∧ Ev Lx a ∧ Ev Ly b ∧
          ((σ = true ∧ ((a = f + 1 ∧ b = g + 1) ∨ (a = pw Lx f ∧ b = pw Ly g))) ∨
           (σ = false ∧ ((a = f + 1 ∧ b = pw Ly g) ∨ (a = pw Lx f ∧ b = g + 1))))) ∨
       (a = f ∧ b = g ∧ (c = 1 - 1 ∨ c = 1 + 1) ∧ c % 2 = 0 ∧ (σ = true ↔ (f + g) % 4 = 2))) →
      -- the two layer generators on the diagonal are the member and a tree predecessor
      (σ = true → ((f + 1 = x ∧ g + 1 = y) ∧ tr Lx (f - 1) (g - 1) < tr Lx x y) ∨
        ((f - 1 = x ∧ g - 1 = y) ∧ tr Lx (f + 1) (g + 1) < tr Lx x y)) →
      (σ = false → ((f + 1 = x ∧ g - 1 = y) ∧ tr Lx (f - 1) (g + 1) < tr Lx x y) ∨
        ((f - 1 = x ∧ g + 1 = y) ∧ tr Lx (f + 1) (g - 1) < tr Lx x y)) →
      ((σ = true ↔ (f + g) % 4 = 2) → (x + y) % 4 = 0) →
      [a, b, c] = [x, y, 1] ∨ rkI Lx Ly Lz [a, b, c] < rkI Lx Ly Lz [x, y, 1] := by
    intro f g σ a b c hf hg hf3 hg3 hh ht hfl hv
    have p1 := pw_spec Lx f; have p2 := pw_spec Ly g
    unfold Od at hf hg
    rcases hh with ⟨rfl, ha, hb, hh⟩ | ⟨rfl, rfl, hc, hc2, hsg⟩
    · have ha' := ha; have hb' := hb
      unfold Ev at ha' hb'
      rcases hh with ⟨h5, h6 | h6⟩ | ⟨h5, h6 | h6⟩
      · rcases ht h5 with ⟨h7, h8⟩ | ⟨h7, h8⟩
        · left; simp only [List.cons.injEq, and_true]; omega
        · right; apply hpar a b ha hb (by omega)
          rw [h6.1, h6.2]; exact h8
      · rcases ht h5 with ⟨h7, h8⟩ | ⟨h7, h8⟩
        · right; apply hpar a b ha hb (by omega)
          rw [h6.1, h6.2, p1.resolve_left (by omega) |>.2, p2.resolve_left (by omega) |>.2]
          exact h8
        · left; simp only [List.cons.injEq, and_true]; omega
      · rcases hfl h5 with ⟨h7, h8⟩ | ⟨h7, h8⟩
        · left; simp only [List.cons.injEq, and_true]; omega
        · right; apply hpar a b ha hb (by omega)
          rw [h6.1, h6.2, p2.resolve_left (by omega) |>.2]; exact h8
      · rcases hfl h5 with ⟨h7, h8⟩ | ⟨h7, h8⟩
        · right; apply hpar a b ha hb (by omega)
          rw [h6.1, h6.2, p1.resolve_left (by omega) |>.2]; exact h8
        · left; simp only [List.cons.injEq, and_true]; omega
    · right; exact hvf (hv hsg) _ _ _ hc2 (by omega)
  have mk : ∀ (f g : Int) (σ : Bool), treeWit x y 1 = ([f, g, 1], σ) → ([f, g, 1], σ) ∈ K →
      Od Lx f → Od Ly g → 3 ≤ f → 3 ≤ g →
      (σ = true → ((f + 1 = x ∧ g + 1 = y) ∧ tr Lx (f - 1) (g - 1) < tr Lx x y) ∨
        ((f - 1 = x ∧ g - 1 = y) ∧ tr Lx (f + 1) (g + 1) < tr Lx x y)) →
      (σ = false → ((f + 1 = x ∧ g - 1 = y) ∧ tr Lx (f - 1) (g + 1) < tr Lx x y) ∨
        ((f - 1 = x ∧ g + 1 = y) ∧ tr Lx (f + 1) (g - 1) < tr Lx x y)) →
      ((σ = true ↔ (f + g) % 4 = 2) → (x + y) % 4 = 0) → Tri Lx Ly Lz [x, y, 1] := by
    intro f g σ htw hself hf hg hf3 hg3 ht hfl hv
    refine tri_of hF hLz (hw.trans htw) hk hself (isQ_h hf hg hz1) hpos ?_
    intro t K' hmem hk' hm
    obtain ⟨a, b, c, rfl, hh⟩ := hitters_h hF hk' hf hg (c := 1) (by omega) hm
    exact fin f g σ a b c hf hg hf3 hg3 hh ht hfl hv
  by_cases h6 : 6 ≤ y
  · by_cases h4 : 4 ≤ x
    · refine mk (x - 1) (y - 1) true (by unfold treeWit; rw [if_pos h6, if_pos h4]) hK1
        (by unfold Od; omega) (by unfold Od; omega) (by omega) (by omega) ?_ ?_ ?_
      · intro _; left; refine ⟨by omega, ?_⟩; unfold tr; split <;> split <;> omega
      · intro h; cases h
      · intro h; have := h.mp rfl; omega
    · have hx2 : x = 2 := by omega
      have hsw : sw Lx x = 3 := by omega
      rw [hsw] at hK4
      refine mk 3 (y - 1) false (by unfold treeWit; rw [if_pos h6, if_neg h4]) hK4
        (by unfold Od; omega) (by unfold Od; omega) (by omega) (by omega) ?_ ?_ ?_
      · intro h; cases h
      · intro _; right; refine ⟨by omega, ?_⟩; unfold tr; split <;> split <;> omega
      · intro h; have h' : ¬ (3 + (y - 1)) % 4 = 2 := fun e => Bool.noConfusion (h.mpr e)
        omega
  · by_cases h4 : y = 4
    · have h3 : y - 1 = 3 := by omega
      rw [h3] at hK1
      refine mk (x - 1) 3 true (by unfold treeWit; rw [if_neg h6, if_pos h4]) hK1
        (by unfold Od; omega) (by unfold Od; omega) (by omega) (by omega) ?_ ?_ ?_
      · intro _; left; refine ⟨by omega, ?_⟩; unfold tr; split <;> split <;> omega
      · intro h; cases h
      · intro h; have := h.mp rfl; omega
    · have hy2 : y = 2 := by omega
      have hsw : sw Ly y = 3 := by omega
      rw [hsw] at hK3
      refine mk (x - 1) 3 false (by unfold treeWit; rw [if_neg h6, if_neg h4]) hK3
        (by unfold Od; omega) (by unfold Od; omega) (by omega) (by omega) ?_ ?_ ?_
      · intro h; cases h
      · intro _; left; refine ⟨by omega, ?_⟩; unfold tr; split <;> split <;> omega
      · intro h; have h' : ¬ (x - 1 + 3) % 4 = 2 := fun e => Bool.noConfusion (h.mpr e)
        omega

/-- a generator of the bottom layer -/
theorem tri_L1 (hF : Fam Lx Ly) (hLz : 1 ≤ Lz) {x y z : Int} (h : InL1 Lx Ly x y z) :
    Tri Lx Ly Lz [x, y, z] := by
  obtain ⟨hLx, hLy, hodd⟩ := hF
  have hF : Fam Lx Ly := ⟨hLx, hLy, hodd⟩
  obtain ⟨hx, hy, rfl, hr1, hr2⟩ := h
  have hx' := hx; have hy' := hy
  unfold Ev at hx' hy'
  have hz1 : R1 (2 * Lz) (1 : Int) := by unfold R1; omega
  have h11 : (1 : Int) % 2 = 1 := by decide
  have tb := tr_bounds hx hy
  by_cases h4 : (x + y) % 4 = 2
  · -- a vertex other than the root `(2, 4, 1)`
    have hsv : SV Lx Ly Lz x y 1 := ⟨R2_Ev.mpr hx, R2_Ev.mpr hy, hz1, h4⟩
    have hrs := rkI_vertex (Lx := Lx) (Ly := Ly) (Lz := Lz) h11 h4
    refine tri_tree_core hF hLz (Kind.vertex hsv) hx hy ⟨by omega, by omega⟩ ?_
      (by simp [KV]) (by rw [hrs]; omega) ?_ (Or.inl h4) (by omega)
    · simp only [witS]; rw [if_pos h11, if_pos h4, if_neg (by omega)]
    · intro a b ha hb hab hlt
      rw [hrs, rkI_vertex h11 (by omega)]; omega
  · have h40 : (x + y) % 4 = 0 := by omega
    have hsh : SH Lx Ly Lz x y 1 := ⟨R2_Ev.mpr hx, R2_Ev.mpr hy, hz1, h40⟩
    by_cases hn : near Lx Ly x y
    · exact tri_near hF hLz hsh hn
    · -- a horizontal face away from the dropped column, other than the root `(2, 2, 1)`
      have hrs := rkI_tree (Lx := Lx) (Ly := Ly) (Lz := Lz) h11 h4 hn
      have hn' := hn
      unfold near at hn'
      refine tri_tree_core hF hLz (Kind.hface hsh) hx hy ⟨by omega, by omega⟩ ?_
        (by simp [KH]) (by rw [hrs]; unfold N1; omega) ?_ (Or.inr h40) ?_
      · simp only [witS]; rw [if_pos h11, if_neg h4, if_neg hn]
      · intro a b ha hb hab hlt
        have tb' := tr_bounds ha hb
        by_cases hna : near Lx Ly a b
        · rw [hrs, rkI_near h11 (by omega) hna]; omega
        · rw [hrs, rkI_tree h11 (by omega) hna]; omega
      · intro _ f g c hc hc0
        rw [hrs, rkI_vface (by omega)]; omega

/-- the triangular condition for every member of the family -/
theorem tri_all (hF : Fam Lx Ly) (hLz : 1 ≤ Lz) {s : Coord} (hs : s ∈ rankFamily Lx Ly Lz) :
    Tri Lx Ly Lz s := by
  obtain ⟨x, y, z, rfl⟩ := shape_of_mem_rankFamily hs
  rw [mem_rankFamily] at hs
  rcases hs with h | h | h | h
  · exact tri_L1 hF hLz h
  · exact tri_VU hF hLz h
  · obtain ⟨hz, h⟩ := h
    have hz' := hz
    unfold ZU at hz'
    have hodd := hF.2.2
    refine tri_near hF hLz ⟨R2_Ev.mpr ?_, R2_Ev.mpr ?_, by unfold R1; omega, by omega⟩
      (by unfold near; omega) <;> unfold Ev <;> omega
  · exact tri_VF hF hLz h

/-- the family of `n − k` generators is GF(2)-independent, for every size of the supported family -/
theorem rankFamily_indep (hF : Fam Lx Ly) (hLz : 1 ≤ Lz) :
    Cubic3D.OpsIndep ((rankFamily Lx Ly Lz).map (getStab Lx Ly Lz)) :=
  Cubic3D.opsIndep_of_triangular (rankFamily_nodup hF.1 hF.2.1 Lz) (rk Lx Ly Lz) (wit Lx Ly Lz)
    (wx Lx Ly Lz) (fun s hs => tri_all hF hLz hs)

end

end Panqec.RotatedToric3DCode
