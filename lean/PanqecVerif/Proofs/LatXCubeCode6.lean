/-
XCubeCode lattice model: every logical X operator shares an even number of qubits with every cube
operator, every logical Z operator with every vertex operator.  Sizes ≥ 2.
-/
import PanqecVerif.Proofs.LatXCubeCode4
import PanqecVerif.Proofs.LatXCubeCode5
open Panqec Panqec.Lat3Db
namespace Panqec.XCubeCode

/-! ### a cube against a key set that is free in one coordinate -/

theorem cube_even_free_z (Lx Ly Lz : Nat) (x y z : Int) (K : List Coord)
    (h1 : ∀ p q, [p, q, up (2*Lz) z] ∈ K ↔ [p, q, z - 1] ∈ K) (h2 : ∀ p q, [p, q, z] ∉ K) :
    ovl (cubeLocs Lx Ly Lz x y z) K % 2 = 0 := by
  simp only [cubeLocs, ovl_cons_ind, ovl_nil, ind_neg (h2 _ _), ind_congr (h1 _ _)]
  omega

theorem cube_even_free_y (Lx Ly Lz : Nat) (x y z : Int) (K : List Coord)
    (h1 : ∀ p r, [p, up (2*Ly) y, r] ∈ K ↔ [p, y - 1, r] ∈ K) (h2 : ∀ p r, [p, y, r] ∉ K) :
    ovl (cubeLocs Lx Ly Lz x y z) K % 2 = 0 := by
  simp only [cubeLocs, ovl_cons_ind, ovl_nil, ind_neg (h2 _ _), ind_congr (h1 _ _)]
  omega

theorem cube_even_free_x (Lx Ly Lz : Nat) (x y z : Int) (K : List Coord)
    (h1 : ∀ q r, [up (2*Lx) x, q, r] ∈ K ↔ [x - 1, q, r] ∈ K) (h2 : ∀ q r, [x, q, r] ∉ K) :
    ovl (cubeLocs Lx Ly Lz x y z) K % 2 = 0 := by
  simp only [cubeLocs, ovl_cons_ind, ovl_nil, ind_neg (h2 _ _), ind_congr (h1 _ _)]
  omega

/-- key list of a logical X operator -/
def IsLogXKeys (Lx Ly Lz : Nat) (K : List Coord) : Prop :=
  (∃ t, K = kXA1 Lz t) ∨ (∃ t, K = kXA2 Ly t) ∨ (∃ t, K = kXB1 Lz t) ∨ (∃ t, K = kXB2 Lx t) ∨
  (∃ t, K = kXC1 Ly t) ∨ (∃ t, K = kXC2 Lx t)

theorem not_R0_of_R1 (P Q : Nat) (c : Int) (h : R1 P c) : ¬ R0 Q c := by
  unfold R1 at h; unfold R0; omega

theorem logX_cube_even (Lx Ly Lz : Nat) (K kc : List Coord) (hK : IsLogXKeys Lx Ly Lz K)
    (hc : IsCubeKeys Lx Ly Lz kc) : ovl kc K % 2 = 0 := by
  obtain ⟨x, y, z, ⟨hx, hy, hz⟩, rfl⟩ := hc
  have ux := up_R0 (2*Lx) x (by omega) hx
  have uy := up_R0 (2*Ly) y (by omega) hy
  have uz := up_R0 (2*Lz) z (by omega) hz
  have px := pred_R0 (2*Lx) x hx
  have py := pred_R0 (2*Ly) y hy
  have pz := pred_R0 (2*Lz) z hz
  have nx := not_R0_of_R1 _ (2*Lx) x hx
  have ny := not_R0_of_R1 _ (2*Ly) y hy
  have nz := not_R0_of_R1 _ (2*Lz) z hz
  rcases hK with ⟨t, rfl⟩ | ⟨t, rfl⟩ | ⟨t, rfl⟩ | ⟨t, rfl⟩ | ⟨t, rfl⟩ | ⟨t, rfl⟩
  · apply cube_even_free_z <;> intros <;> simp only [mem_kXA1, uz, pz, nz, and_false, not_false_eq_true]
  · apply cube_even_free_y <;> intros <;> simp only [mem_kXA2, uy, py, ny, false_and, and_false, not_false_eq_true]
  · apply cube_even_free_z <;> intros <;> simp only [mem_kXB1, uz, pz, nz, and_false, not_false_eq_true]
  · apply cube_even_free_x <;> intros <;> simp only [mem_kXB2, ux, px, nx, false_and, not_false_eq_true]
  · apply cube_even_free_y <;> intros <;> simp only [mem_kXC1, uy, py, ny, false_and, and_false, not_false_eq_true]
  · apply cube_even_free_x <;> intros <;> simp only [mem_kXC2, ux, px, nx, false_and, not_false_eq_true]

/-! ### a vertex operator against a key set that does not distinguish the two neighbours on a line -/

/-- membership does not depend on which odd value (edge midpoint) a coordinate takes -/
def LineInv (Lx Ly Lz : Nat) (K : List Coord) : Prop :=
  (∀ p p' q r, R1 (2*Lx) p → R1 (2*Lx) p' → ([p, q, r] ∈ K ↔ [p', q, r] ∈ K)) ∧
  (∀ p q q' r, R1 (2*Ly) q → R1 (2*Ly) q' → ([p, q, r] ∈ K ↔ [p, q', r] ∈ K)) ∧
  (∀ p q r r', R1 (2*Lz) r → R1 (2*Lz) r' → ([p, q, r] ∈ K ↔ [p, q, r'] ∈ K))

theorem face_even_of_lineInv (Lx Ly Lz : Nat) (K kf : List Coord) (hK : LineInv Lx Ly Lz K)
    (hf : IsFaceKeys Lx Ly Lz kf) : ovl kf K % 2 = 0 := by
  obtain ⟨x, y, z, ⟨hx, hy, hz⟩, hk⟩ := hf
  obtain ⟨ix, iy, iz⟩ := hK
  have dx := dn_R1 (2*Lx) x (by omega) hx
  have dy := dn_R1 (2*Ly) y (by omega) hy
  have dz := dn_R1 (2*Lz) z (by omega) hz
  have sx := succ_R1 (2*Lx) x (by omega) hx
  have sy := succ_R1 (2*Ly) y (by omega) hy
  have sz := succ_R1 (2*Lz) z (by omega) hz
  rcases hk with rfl | rfl | rfl
  · simp only [faceLocsX, ovl_cons_ind, ovl_nil, ind_congr (iy x (y + 1) (dn (2*Ly) y) z sy dy),
      ind_congr (iz x y (z + 1) (dn (2*Lz) z) sz dz)]
    omega
  · simp only [faceLocsY, ovl_cons_ind, ovl_nil, ind_congr (ix (x + 1) (dn (2*Lx) x) y z sx dx),
      ind_congr (iz x y (z + 1) (dn (2*Lz) z) sz dz)]
    omega
  · simp only [faceLocsZ, ovl_cons_ind, ovl_nil, ind_congr (ix (x + 1) (dn (2*Lx) x) y z sx dx),
      ind_congr (iy x (y + 1) (dn (2*Ly) y) z sy dy)]
    omega

/-- key list of a logical Z operator (the fixed coordinates are even) -/
def IsLogZKeys (Lx Ly Lz : Nat) (K : List Coord) : Prop :=
  (∃ t, t % 2 = 0 ∧ K = kZA1 Lx t) ∨ (∃ t, t % 2 = 0 ∧ K = kZA2 Lx t) ∨ (∃ t, t % 2 = 0 ∧ K = kZB1 Ly t) ∨
  (∃ t, t % 2 = 0 ∧ K = kZB2 Ly t) ∨ (∃ t, t % 2 = 0 ∧ K = kZC1 Lz t) ∨ (∃ t, t % 2 = 0 ∧ K = kZC2 Lz t)

theorem lineInv_of_logZ (Lx Ly Lz : Nat) (K : List Coord) (hK : IsLogZKeys Lx Ly Lz K) : LineInv Lx Ly Lz K := by
  rcases hK with ⟨t, ht, rfl⟩ | ⟨t, ht, rfl⟩ | ⟨t, ht, rfl⟩ | ⟨t, ht, rfl⟩ | ⟨t, ht, rfl⟩ | ⟨t, ht, rfl⟩
  · refine ⟨?_, ?_, ?_⟩ <;> intros <;> simp only [mem_kZA1] <;> unfold R1 at * <;> omega
  · refine ⟨?_, ?_, ?_⟩ <;> intros <;> simp only [mem_kZA2] <;> unfold R1 at * <;> omega
  · refine ⟨?_, ?_, ?_⟩ <;> intros <;> simp only [mem_kZB1] <;> unfold R1 at * <;> omega
  · refine ⟨?_, ?_, ?_⟩ <;> intros <;> simp only [mem_kZB2] <;> unfold R1 at * <;> omega
  · refine ⟨?_, ?_, ?_⟩ <;> intros <;> simp only [mem_kZC1] <;> unfold R1 at * <;> omega
  · refine ⟨?_, ?_, ?_⟩ <;> intros <;> simp only [mem_kZC2] <;> unfold R1 at * <;> omega

theorem logZ_face_even (Lx Ly Lz : Nat) (K kf : List Coord) (hK : IsLogZKeys Lx Ly Lz K)
    (hf : IsFaceKeys Lx Ly Lz kf) : ovl kf K % 2 = 0 :=
  face_even_of_lineInv Lx Ly Lz K kf (lineInv_of_logZ Lx Ly Lz K hK) hf

end Panqec.XCubeCode
