/-
Log form of `error_probability`: over the reals, the logarithm of the product of the
per-qubit vector is the sum of the logarithms of its entries.
-/
import PanqecVerif.Proofs.NoiseProb
import Mathlib.Analysis.SpecialFunctions.Log.Basic

namespace Panqec

/-- `np.sum(np.log(prob_vector))` over the reals -/
noncomputable def logSum : List Rat → ℝ
  | [] => 0
  | a :: as => Real.log (a : ℝ) + logSum as

theorem log_ratProd : ∀ l : List Rat, (∀ x ∈ l, 0 < x) →
    Real.log ((ratProd l : Rat) : ℝ) = logSum l ∧ 0 < ratProd l
  | [], _ => by simp [ratProd, logSum]
  | a :: l, h => by
    obtain ⟨ih, hpos⟩ := log_ratProd l (fun x hx => h x (by simp [hx]))
    have ha : 0 < a := h a (by simp)
    refine ⟨?_, mul_pos ha hpos⟩
    simp only [ratProd, logSum, Rat.cast_mul]
    rw [Real.log_mul, ih]
    · exact_mod_cast ne_of_gt ha
    · exact_mod_cast ne_of_gt hpos

end Panqec
